(* Structural invariant of the broker model (Model/Broker.v) and the session life-cycle
   facts of C05: one connection per client id, take-over closes the old socket before the
   CONNACK, nothing is sent to a closed socket, Session Present characterised. *)
From Coq Require Import List NArith Bool Arith Lia ZifyN ZifyNat ZifyBool.
Import ListNotations.
From GM Require Import Base.Topic Base.Msg Model.SubTrie Model.SubSpec Model.RetTrie Model.Queue Model.Limiter
                       Model.TopicMatch Model.Broker Proofs.TopicP Proofs.SubTrieP Proofs.BrokerBasicP.
Open Scope N_scope.

(* ================================================================== *)
(* 1. association lists                                                *)
(* ================================================================== *)

Lemma nget_nset {V} c' c (v : V) l : nget c' (nset c v l) = if c' =? c then Some v else nget c' l.
Proof.
  induction l as [|[k0 v0] r IH]; cbn [nset nget].
  - destruct (c' =? c); reflexivity.
  - destruct (N.eqb_spec c k0) as [E|E]; cbn [nget].
    + subst k0. destruct (c' =? c); reflexivity.
    + rewrite IH. destruct (N.eqb_spec c' k0) as [E1|E1]; [|reflexivity].
      subst k0. destruct (N.eqb_spec c' c) as [E2|E2]; [congruence|reflexivity].
Qed.

Lemma nget_nset_same {V} c (v : V) l : nget c (nset c v l) = Some v.
Proof. now rewrite nget_nset, N.eqb_refl. Qed.

Lemma nget_nset_other {V} c' c (v : V) l : c' <> c -> nget c' (nset c v l) = nget c' l.
Proof. intros H. rewrite nget_nset. apply N.eqb_neq in H. now rewrite H. Qed.

Lemma in_keys_nset {V} c' c (v : V) l : In c' (map fst (nset c v l)) -> c' = c \/ In c' (map fst l).
Proof.
  induction l as [|[k0 v0] r IH]; cbn [nset map fst In]; intros H.
  - destruct H as [H|[]]. now left.
  - destruct (c =? k0); cbn [map fst In] in H.
    + destruct H as [H|H]; [now left|right; now right].
    + destruct H as [H|H]; [right; now left|].
      apply IH in H as [H|H]; [now left|right; now right].
Qed.

Lemma NoDup_nset {V} c (v : V) l : NoDup (map fst l) -> NoDup (map fst (nset c v l)).
Proof.
  induction l as [|[k0 v0] r IH]; cbn [nset map fst]; intros Hnd.
  - constructor; [intros []|constructor].
  - inversion Hnd as [|x xs Hx Hnd']; subst.
    destruct (N.eqb_spec c k0) as [E|E]; cbn [map fst].
    + subst k0. now constructor.
    + constructor; [|now apply IH].
      intros Hin. apply in_keys_nset in Hin as [Hin|Hin]; [congruence|contradiction].
Qed.

Lemma nget_in_keys {V} c (v : V) l : nget c l = Some v -> In c (map fst l).
Proof.
  induction l as [|[k0 v0] r IH]; cbn [nget map fst In]; intros H; [discriminate|].
  destruct (N.eqb_spec c k0) as [E|E]; [now left|right; now apply IH].
Qed.

Lemma nget_In {V} c (v : V) l : nget c l = Some v -> In (c, v) l.
Proof.
  induction l as [|[k0 v0] r IH]; cbn [nget In]; intros H; [discriminate|].
  destruct (N.eqb_spec c k0) as [E|E].
  - left. congruence.
  - right. now apply IH.
Qed.

Lemma In_nget {V} c (v : V) l : NoDup (map fst l) -> In (c, v) l -> nget c l = Some v.
Proof.
  induction l as [|[k0 v0] r IH]; cbn [nget map fst In]; intros Hnd Hin; [destruct Hin|].
  inversion Hnd as [|x xs Hx Hnd']; subst.
  destruct Hin as [E|Hin].
  - injection E as -> ->. now rewrite N.eqb_refl.
  - destruct (N.eqb_spec c k0) as [E|E].
    + subst k0. exfalso. apply Hx. apply in_map_iff. exists (c, v). now split.
    + now apply IH.
Qed.

Section AssocMore.
  Context {V : Type}.
  Implicit Types (l : list (str * V)) (k : str) (v : V).

  Lemma ahas_aset k' k v l : ahas k' (aset k v l) = str_eqb k' k || ahas k' l.
  Proof. unfold ahas. rewrite aget_aset. destruct (str_eqb k' k); reflexivity. Qed.

  Lemma ahas_adel k' k l : NoDup (map fst l) -> ahas k' (adel k l) = negb (str_eqb k' k) && ahas k' l.
  Proof. intros H. unfold ahas. rewrite aget_adel by exact H. destruct (str_eqb k' k); reflexivity. Qed.

  Lemma ahas_some k v l : aget k l = Some v -> ahas k l = true.
  Proof. unfold ahas. now intros ->. Qed.

  Lemma ahas_none k l : aget k l = None -> ahas k l = false.
  Proof. unfold ahas. now intros ->. Qed.

  Lemma ahas_true k l : ahas k l = true -> exists v, aget k l = Some v.
  Proof. unfold ahas. destruct (aget k l) as [v|]; [now exists v|discriminate]. Qed.

  Lemma ahas_false k l : ahas k l = false -> aget k l = None.
  Proof. unfold ahas. destruct (aget k l); [discriminate|reflexivity]. Qed.

  Lemma ahas_in_keys k l : ahas k l = true <-> In k (map fst l).
  Proof.
    split.
    - intros H. apply ahas_true in H as [v H]. now apply aget_in_keys in H.
    - intros H. unfold ahas. destruct (aget k l) eqn:E; [reflexivity|].
      exfalso. induction l as [|[k0 v0] r IH]; cbn [map fst In aget] in *; [exact H|].
      destruct (str_eqb_spec k k0) as [E1|E1]; [discriminate|].
      destruct H as [H|H]; [congruence|now apply IH].
  Qed.

  Lemma adel_notin k l : ahas k l = false -> adel k l = l.
  Proof.
    unfold ahas. induction l as [|[k0 v0] r IH]; cbn [adel aget]; [reflexivity|].
    destruct (str_eqb k k0); [discriminate|]. intros H. now rewrite IH.
  Qed.
End AssocMore.

Definition keys {V} (l : list (str * V)) : list str := map fst l.

(* the keys of l' extend those of l *)
Definition kext {V} (l l' : list (str * V)) : Prop :=
  (NoDup (keys l) -> NoDup (keys l')) /\ forall k, ahas k l = true -> ahas k l' = true.
Definition ksame {V} (l l' : list (str * V)) : Prop :=
  (NoDup (keys l) -> NoDup (keys l')) /\ forall k, ahas k l' = ahas k l.

Lemma kext_refl {V} (l : list (str * V)) : kext l l.
Proof. split; auto. Qed.
Lemma ksame_refl {V} (l : list (str * V)) : ksame l l.
Proof. split; auto. Qed.
Lemma kext_trans {V} (a b c : list (str * V)) : kext a b -> kext b c -> kext a c.
Proof. intros [H1 H2] [H3 H4]. split; auto. Qed.
Lemma ksame_trans {V} (a b c : list (str * V)) : ksame a b -> ksame b c -> ksame a c.
Proof. intros [H1 H2] [H3 H4]. split; [auto|]. intros k. now rewrite H4, H2. Qed.
Lemma kext_aset {V} k (v : V) l : kext l (aset k v l).
Proof.
  split; [apply NoDup_aset|]. intros k' H. rewrite ahas_aset, H. apply orb_true_r.
Qed.
Lemma ksame_aset {V} k (v : V) l : ahas k l = true -> ksame l (aset k v l).
Proof.
  intros Hk. split; [apply NoDup_aset|]. intros k'. rewrite ahas_aset.
  destruct (str_eqb_spec k' k) as [->|E]; [now rewrite Hk|reflexivity].
Qed.

(* ================================================================== *)
(* 2. frames: steps that leave the registration tables alone           *)
(* ================================================================== *)

Definition attached (ph : phase) : bool := match ph with PhConnected | PhZombie => true | _ => false end.

(* what the invariant reads of a connection *)
Definition kview (k : conn) : str * phase * bool := (k_cid k, k_phase k, k_force_remove k).
Definition pv (s : st) (c : N) : option (str * phase * bool) := option_map kview (nget c (b_conns s)).

Ltac proj :=
  cbn [b_cfg b_hooks b_now b_rt b_sessions b_online b_offline b_wills b_subs b_ret b_queues b_unacks b_conns
       b_picks b_tag b_auto b_npick upd_conn set_queues set_tables set_subs set_ret set_time set_picks_tag
       set_unacks count_pick set_auto remove_session].
Ltac proj_in H :=
  cbn [b_cfg b_hooks b_now b_rt b_sessions b_online b_offline b_wills b_subs b_ret b_queues b_unacks b_conns
       b_picks b_tag b_auto b_npick upd_conn set_queues set_tables set_subs set_ret set_time set_picks_tag
       set_unacks count_pick set_auto remove_session] in H.

Record frame (s s' : st) : Prop := {
  fr_cfg : b_cfg s' = b_cfg s;
  fr_hooks : b_hooks s' = b_hooks s;
  fr_now : b_now s' = b_now s;
  fr_rt : b_rt s' = b_rt s;
  fr_on : b_online s' = b_online s;
  fr_off : b_offline s' = b_offline s;
  fr_auto : b_auto s' = b_auto s;
  fr_sess : b_sessions s' = b_sessions s;
  fr_q : kext (b_queues s) (b_queues s');
  fr_u : b_unacks s' = b_unacks s;
  fr_subs : b_subs s' = b_subs s;
  fr_w : NoDup (keys (b_wills s)) -> NoDup (keys (b_wills s'));
  fr_ck : NoDup (map fst (b_conns s)) -> NoDup (map fst (b_conns s'));
  fr_pv : forall c, pv s' c = pv s c }.

Lemma frame_refl s : frame s s.
Proof. constructor; auto using ksame_refl, kext_refl. Qed.

Lemma frame_trans a b c : frame a b -> frame b c -> frame a c.
Proof.
  intros [] []. constructor; try congruence; eauto using ksame_trans, kext_trans.
Qed.

(* the same, except that stored sessions may change their contents (DISCONNECT with a new
   Session Expiry Interval) and the id counter may advance *)
Record wframe (s s' : st) : Prop := {
  wf_cfg : b_cfg s' = b_cfg s;
  wf_hooks : b_hooks s' = b_hooks s;
  wf_now : b_now s' = b_now s;
  wf_rt : b_rt s' = b_rt s;
  wf_on : b_online s' = b_online s;
  wf_off : b_offline s' = b_offline s;
  wf_sess : ksame (b_sessions s) (b_sessions s');
  wf_q : kext (b_queues s) (b_queues s');
  wf_u : kext (b_unacks s) (b_unacks s');
  wf_w : NoDup (keys (b_wills s)) -> NoDup (keys (b_wills s'));
  wf_ck : NoDup (map fst (b_conns s)) -> NoDup (map fst (b_conns s'));
  wf_pv : forall c, pv s' c = pv s c }.

Lemma frame_wframe s s' : frame s s' -> wframe s s'.
Proof.
  intros []. constructor; auto; [rewrite fr_sess0; apply ksame_refl|rewrite fr_u0; apply kext_refl].
Qed.

Lemma wframe_refl s : wframe s s.
Proof. apply frame_wframe, frame_refl. Qed.

Lemma wframe_trans a b c : wframe a b -> wframe b c -> wframe a c.
Proof.
  intros [] []. constructor; try congruence; eauto using ksame_trans, kext_trans.
Qed.

Lemma pv_upd_conn c' c k s : pv (upd_conn c k s) c' = if c' =? c then Some (kview k) else pv s c'.
Proof. unfold pv. proj. rewrite nget_nset. destruct (c' =? c); reflexivity. Qed.

Lemma frame_upd_conn c k s : pv s c = Some (kview k) -> frame s (upd_conn c k s).
Proof.
  intros H. constructor; proj; auto using ksame_refl, kext_refl.
  - apply NoDup_nset.
  - intros c'. rewrite pv_upd_conn. destruct (N.eqb_spec c' c) as [->|E]; [now rewrite H|reflexivity].
Qed.

Lemma frame_upd_conn_k c k k' s :
  nget c (b_conns s) = Some k -> kview k' = kview k -> frame s (upd_conn c k' s).
Proof. intros H E. apply frame_upd_conn. unfold pv. rewrite H. cbn [option_map]. now rewrite E. Qed.

Lemma frame_set_queues_aset cid q s : frame s (set_queues (aset cid q (b_queues s)) s).
Proof. constructor; proj; auto using ksame_refl, kext_refl, kext_aset. Qed.

Lemma frame_set_picks_tag p t s : frame s (set_picks_tag p t s).
Proof. constructor; proj; auto using ksame_refl, kext_refl. Qed.
Lemma wframe_set_subs d s : wframe s (set_subs d s).
Proof. constructor; proj; auto using ksame_refl, kext_refl. Qed.
Lemma frame_set_ret r s : frame s (set_ret r s).
Proof. constructor; proj; auto using ksame_refl, kext_refl. Qed.
Lemma frame_count_pick s : frame s (count_pick s).
Proof. constructor; proj; auto using ksame_refl, kext_refl. Qed.
Lemma wframe_set_auto a s : wframe s (set_auto a s).
Proof. constructor; proj; auto using ksame_refl, kext_refl. Qed.
Lemma wframe_set_unacks_aset cid u s : wframe s (set_unacks (aset cid u (b_unacks s)) s).
Proof. constructor; proj; auto using ksame_refl, kext_refl, kext_aset. Qed.

Lemma frame_set_tables w q s :
  (NoDup (keys (b_wills s)) -> NoDup (keys w)) ->
  kext (b_queues s) q ->
  frame s (set_tables (b_sessions s) (b_online s) (b_offline s) w q (b_unacks s) s).
Proof. intros H2 H3. constructor; proj; auto. Qed.

Lemma frame_wills_adel cid s :
  frame s (set_tables (b_sessions s) (b_online s) (b_offline s) (adel cid (b_wills s)) (b_queues s) (b_unacks s) s).
Proof. apply frame_set_tables; auto using kext_refl. apply NoDup_adel. Qed.

Lemma frame_wills_aset cid w s :
  frame s (set_tables (b_sessions s) (b_online s) (b_offline s) (aset cid w (b_wills s)) (b_queues s) (b_unacks s) s).
Proof. apply frame_set_tables; auto using kext_refl. apply NoDup_aset. Qed.

(* outputs that are only drop notifications *)
Definition isdrop (x : out) : Prop := match x with ODropped _ _ _ => True | _ => False end.

Lemma drops_of_isdrop cid evs : Forall isdrop (drops_of cid evs).
Proof.
  unfold drops_of. apply Forall_forall. intros x Hin. apply in_flat_map in Hin as [e [_ Hin]].
  destruct e as [el r| |]; try destruct Hin.
  destruct (e_body el); [|destruct Hin]. destruct Hin as [<-|[]]. exact I.
Qed.

(* a step (s, o) -> r that is a frame and adds only drop notifications *)
Definition quiet (s : st) (o : list out) (r : st * list out) : Prop :=
  frame s (fst r) /\ (Forall isdrop o -> Forall isdrop (snd r)).

Lemma quiet_refl s o : quiet s o (s, o).
Proof. split; [apply frame_refl|auto]. Qed.

Lemma fold_quiet {A} (f : st * list out -> A -> st * list out) (l : list A) :
  (forall s0 o0 x, quiet s0 o0 (f (s0, o0) x)) ->
  forall s0 o0, quiet s0 o0 (fold_left f l (s0, o0)).
Proof.
  intros Hf. induction l as [|x r IH]; intros s0 o0; cbn [fold_left]; [apply quiet_refl|].
  destruct (f (s0, o0) x) as [s1 o1] eqn:E. pose proof (Hf s0 o0 x) as [H1 H2]. rewrite E in H1, H2.
  cbn [fst snd] in H1, H2. destruct (IH s1 o1) as [H3 H4]. split; [eapply frame_trans; eauto|auto].
Qed.

(* a state step followed by appended drop outputs *)
Lemma quiet_app s0 o0 (r : st * list out) :
  frame s0 (fst r) -> Forall isdrop (snd r) -> quiet s0 o0 (let '(s', o') := r in (s', o0 ++ o')).
Proof.
  destruct r as [s' o']. cbn [fst snd]. intros H1 H2. split; cbn [fst snd]; [exact H1|].
  intros H. apply Forall_app. now split.
Qed.

Lemma release_dropped_frame cid evs s : frame s (release_dropped cid evs s).
Proof.
  unfold release_dropped. destruct (aget cid (b_online s)) as [c|]; [|apply frame_refl].
  destruct (nget c (b_conns s)) as [k|] eqn:E; [|apply frame_refl].
  eapply frame_upd_conn_k; [exact E|reflexivity].
Qed.

Lemma add_to_queue_quiet cid m sb ids s :
  frame s (fst (add_to_queue cid m sb ids s)) /\ Forall isdrop (snd (add_to_queue cid m sb ids s)).
Proof.
  unfold add_to_queue. destruct (aget cid (b_queues s)) as [q|]; [|split; [apply frame_refl|constructor]].
  destruct (negb (c_queue_qos0 (b_cfg s)) && negb (ahas cid (b_online s)) && (m_qos m =? 0));
    [split; [apply frame_refl|constructor]|].
  match goal with |- context [q_add ?a ?b ?c] => destruct (q_add a b c) as [[q' evs]| | |] end;
    try (split; [apply frame_refl|constructor]).
  cbn [fst snd]. split; [|apply drops_of_isdrop].
  eapply frame_trans; [|apply release_dropped_frame].
  eapply frame_trans; [apply frame_set_queues_aset|apply frame_set_picks_tag].
Qed.

Lemma take_pick_frame n s : frame s (snd (take_pick n s)).
Proof.
  unfold take_pick. destruct (b_picks s); cbn [snd]; [apply frame_count_pick|].
  eapply frame_trans; [apply frame_set_picks_tag|apply frame_count_pick].
Qed.

Ltac dlet E := match goal with |- context [match ?X with (_, _) => _ end] => destruct X eqn:E end.

Lemma quiet_frame_l a b o r : frame a b -> quiet b o r -> quiet a o r.
Proof. intros H [H1 H2]. split; [eapply frame_trans; eauto|exact H2]. Qed.

Lemma pick_frame {A} (l : list A) s i s' :
  match l with [_] => (0%nat, s) | _ => take_pick (length l) s end = (i, s') -> frame s s'.
Proof.
  intros H. assert (E : s' = snd (match l with [_] => (0%nat, s) | _ => take_pick (length l) s end)) by now rewrite H.
  subst s'. destruct l as [|a [|b r]]; cbn [snd]; try apply take_pick_frame. apply frame_refl.
Qed.

Lemma deliver_quiet src m s :
  frame s (fst (fst (deliver src m s))) /\ Forall isdrop (snd (fst (deliver src m s))).
Proof.
  unfold deliver. cbv zeta.
  dlet E1. rename s0 into s1, l into o1.
  assert (Q1 : quiet s [] (s1, o1)).
  { rewrite <- E1. destruct (c_onlyonce (b_cfg s)); [apply quiet_refl|]. apply fold_quiet.
    intros s0 o0 x. cbv beta iota. apply quiet_app; apply add_to_queue_quiet. }
  dlet E2. rename s0 into s2, l into o2.
  assert (Q2 : quiet s1 o1 (s2, o2)).
  { rewrite <- E2. apply fold_quiet. intros s0 o0 g. cbv beta iota zeta.
    destruct (match snd g with [_] => (0%nat, s0) | _ => take_pick (length (snd g)) s0 end) as [i s0'] eqn:Ep.
    apply pick_frame in Ep. eapply quiet_frame_l; [exact Ep|].
    destruct (nth_error (snd g) i) as [[c s_]|]; [|apply quiet_refl].
    apply quiet_app; apply add_to_queue_quiet. }
  dlet E3. rename s0 into s3, l into o3.
  assert (Q3 : quiet s2 o2 (s3, o3)).
  { rewrite <- E3. destruct (c_onlyonce (b_cfg s)); [|apply quiet_refl]. apply fold_quiet.
    intros s0 o0 g. cbv beta iota zeta.
    match goal with |- context [nth_error ?L _] => set (best := L) end.
    destruct (match best with [_] => (0%nat, s0) | _ => take_pick (length best) s0 end) as [i s0'] eqn:Ep.
    apply pick_frame in Ep. eapply quiet_frame_l; [exact Ep|].
    destruct (nth_error best i) as [s_|]; [|apply quiet_refl].
    apply quiet_app; apply add_to_queue_quiet. }
  cbn [fst snd]. destruct Q1 as [F1 D1], Q2 as [F2 D2], Q3 as [F3 D3]. cbn [fst snd] in *.
  split; [eauto using frame_trans|]. apply D3, D2, D1. constructor.
Qed.

Lemma retain_update_frame m s : frame s (retain_update m s).
Proof. unfold retain_update. destruct (m_retained m); [apply frame_set_ret|apply frame_refl]. Qed.

Lemma send_will_quiet cid m s :
  frame s (fst (send_will cid m s)) /\ Forall isdrop (snd (send_will cid m s)).
Proof.
  unfold send_will. destruct (will_action cid s) as [|code| |t p q]; try (split; [apply frame_refl|constructor]).
  - destruct (deliver cid m (retain_update m s)) as [[s' o] b] eqn:E.
    pose proof (deliver_quiet cid m (retain_update m s)) as [H1 H2]. rewrite E in H1, H2. cbn [fst snd] in *.
    split; [|exact H2]. eapply frame_trans; [apply retain_update_frame|exact H1].
  - set (m' := with_topic_payload_qos t p q m).
    destruct (deliver cid m' (retain_update m' s)) as [[s' o] b] eqn:E.
    pose proof (deliver_quiet cid m' (retain_update m' s)) as [H1 H2]. rewrite E in H1, H2. cbn [fst snd] in *.
    split; [|exact H2]. eapply frame_trans; [apply retain_update_frame|exact H1].
Qed.

Lemma release_will_quiet cid s :
  frame s (fst (release_will cid s)) /\ Forall isdrop (snd (release_will cid s)).
Proof.
  unfold release_will. destruct (aget cid (b_wills s)) as [[w t]|]; [|split; [apply frame_refl|constructor]].
  match goal with |- context [send_will cid w ?S] => pose proof (send_will_quiet cid w S) as [H1 H2]; set (s1 := S) in * end.
  split; [|exact H2]. eapply frame_trans; [apply frame_wills_adel|exact H1].
Qed.

Lemma fire_wills_quiet s :
  frame s (fst (fire_wills s)) /\ Forall isdrop (snd (fire_wills s)).
Proof.
  unfold fire_wills.
  match goal with |- context [fold_left ?f ?l (s, [])] =>
    cut (forall s0 o0 x, quiet s0 o0 (f (s0, o0) x));
    [intros Hb; destruct (fold_quiet f l Hb s []) as [H1 H2]; split; [exact H1|apply H2; constructor]|] end.
  intros s0 o0 [cid [m at_]]. cbv beta iota zeta.
  destruct (at_ <=? b_rt s0); [|apply quiet_refl].
  destruct (aget cid (b_wills s0)); [|apply quiet_refl].
  eapply quiet_frame_l; [apply (frame_wills_adel cid)|]. apply quiet_app; apply send_will_quiet.
Qed.

(* ================================================================== *)
(* 3. the packet handlers are frames                                   *)
(* ================================================================== *)

Definition hres_st (r : hres) : st := match r with HOk s _ => s | HErr s _ _ => s | HErrRead s _ => s end.
Definition hres_out (r : hres) : list out := match r with HOk _ o => o | HErr _ o _ => o | HErrRead _ _ => [] end.

(* outputs of work done for socket c: packets go to c only, no socket is closed *)
Definition okout (c : N) (x : out) : Prop :=
  match x with OSend c' _ => c' = c | OClose _ => False | ODropped _ _ _ => True end.

Lemma isdrop_okout c o : Forall isdrop o -> Forall (okout c) o.
Proof. apply Forall_impl. intros [c' p|c'|cid m r]; cbn; intros H; try destruct H; exact I. Qed.

Lemma pv_frame s s' c : frame s s' -> pv s' c = pv s c.
Proof. intros H. apply (fr_pv _ _ H). Qed.

Lemma pv_some s c v : pv s c = Some v -> exists k, nget c (b_conns s) = Some k /\ kview k = v.
Proof. unfold pv. destruct (nget c (b_conns s)) as [k|]; cbn [option_map]; [|discriminate]. intros [= <-]. now exists k. Qed.

Lemma pv_of s c k : nget c (b_conns s) = Some k -> pv s c = Some (kview k).
Proof. unfold pv. now intros ->. Qed.

(* handle_publish cut into stages *)
Definition hp_alias (k : conn) (v5 : bool) (topic : str) (props : list prop) (m0 : msg) : option (conn * msg) + N :=
  match (if v5 then p_alias props else None) with
  | None => inl (Some (k, m0))
  | Some a =>
      if (a =? 0) || (k_server_alias_max k <? a) then inr 148
      else
        match topic with
        | [] => match nget a (k_alias_in k) with
                | Some name => match name with [] => inr 148 | _ => inl (Some (k, with_topic name m0)) end
                | None => inr 148
                end
        | _ => inl (Some (set_alias_in (nset a topic (k_alias_in k)) k, m0))
        end
  end.

Definition hp_dupcheck (c : N) (k : conn) (v5 : bool) (qos pid : N) (s : st) : st * bool :=
  if qos =? 2 then
    let u := opt_or (aget (k_cid k) (b_unacks s)) [] in
    let '(u', ex) := unack_set pid u in
    let s := set_unacks (aset (k_cid k) u' (b_unacks s)) s in
    let s := if ex && v5 then
               match nget c (b_conns s) with
               | Some k1 => if k_quota k1 <? k_recv_max k1 then upd_conn c (set_quota (k_quota k1 + 1) k1) s else s
               | None => s
               end
             else s in
    (s, ex)
  else (s, false).

Definition hp_action (m : msg) (s : st) : msg_action :=
  if h_msg_on (b_hooks s) then opt_or (aget (m_topic m) (h_msg (b_hooks s))) MAccept else MAccept.

Definition hp_deliver (k : conn) (m : msg) (isdup : bool) (action : msg_action) (s : st) : st * list out * bool * option N :=
  if isdup then (s, [], false, None)
  else
    match action with
    | MReject code => (s, [], false, Some code)
    | MDrop => (s, [], false, None)
    | MAccept => let '(s', o, mt) := deliver (k_cid k) m (retain_update m s) in (s', o, mt, None)
    | MRewrite t p q => let m' := rewrite_msg t p q m in
                        let '(s', o, mt) := deliver (k_cid k) m' (retain_update m' s) in (s', o, mt, None)
    end.

Definition hp_finish (c : N) (k : conn) (v5 : bool) (qos pid : N) (o : list out) (matched : bool) (err : option N) (s : st) : hres :=
  let code := if v5 then match err with Some cd => cd | None => if matched then 0 else 16 end else 0 in
  let s := if (qos =? 2) && (128 <=? code)
           then set_unacks (aset (k_cid k) (unack_remove pid (opt_or (aget (k_cid k) (b_unacks s)) [])) (b_unacks s)) s
           else s in
  let ack := if qos =? 1 then [OSend c (KPuback pid code [])]
             else if qos =? 2 then [OSend c (KPubrec pid code [])] else [] in
  let s := match nget c (b_conns s) with
           | Some k1 =>
               if v5 && ((qos =? 1) || ((qos =? 2) && (128 <=? code))) && (k_quota k1 <? k_recv_max k1)
               then upd_conn c (set_quota (k_quota k1 + 1) k1) s else s
           | None => s
           end in
  HOk s (o ++ ack).

Lemma handle_publish_eq c k dup qos retain topic payload pid props s :
  handle_publish c k dup qos retain topic payload pid props s =
  let v5 := k_v k =? 5 in
  if negb (k_retain_avail k) && retain then HErr s [] (Some 154)
  else match hp_alias k v5 topic props (msg_of_publish v5 dup qos retain topic payload pid props) with
       | inr code => HErr s [] (Some code)
       | inl None => HErr s [] None
       | inl (Some (k, m)) =>
           let '(s, isdup) := hp_dupcheck c k v5 qos pid (upd_conn c k s) in
           let '(s, o, matched, err) := hp_deliver k m isdup (hp_action m s) s in
           hp_finish c k v5 qos pid o matched err s
       end.
Proof. reflexivity. Qed.

Lemma hp_alias_kview k v5 topic props m0 k' m' :
  hp_alias k v5 topic props m0 = inl (Some (k', m')) -> kview k' = kview k.
Proof.
  unfold hp_alias. destruct (if v5 then p_alias props else None) as [a|]; [|now intros [= <- _]].
  destruct ((a =? 0) || (k_server_alias_max k <? a)); [discriminate|].
  destruct topic as [|x t].
  - destruct (nget a (k_alias_in k)) as [[|y n]|]; try discriminate. now intros [= <- _].
  - now intros [= <- _].
Qed.

Lemma bump_quota_frame c s :
  forall (b : conn -> bool),
  frame s (match nget c (b_conns s) with
           | Some k1 => if b k1 then upd_conn c (set_quota (k_quota k1 + 1) k1) s else s
           | None => s
           end).
Proof.
  intros b. destruct (nget c (b_conns s)) as [k1|] eqn:E; [|apply frame_refl].
  destruct (b k1); [|apply frame_refl]. eapply frame_upd_conn_k; [exact E|reflexivity].
Qed.

Lemma hp_dupcheck_frame c k v5 qos pid s : wframe s (fst (hp_dupcheck c k v5 qos pid s)).
Proof.
  unfold hp_dupcheck. destruct (qos =? 2); [|apply wframe_refl]. cbv zeta.
  destruct (unack_set pid (opt_or (aget (k_cid k) (b_unacks s)) [])) as [u' ex]. cbn [fst].
  eapply wframe_trans; [apply (wframe_set_unacks_aset (k_cid k) u')|].
  destruct (ex && v5); [|apply wframe_refl]. apply frame_wframe.
  apply (bump_quota_frame c _ (fun k1 => k_quota k1 <? k_recv_max k1)).
Qed.

Lemma hp_deliver_quiet k m isdup action s :
  frame s (fst (fst (fst (hp_deliver k m isdup action s)))) /\
  Forall isdrop (snd (fst (fst (hp_deliver k m isdup action s)))).
Proof.
  unfold hp_deliver. destruct isdup; [split; [apply frame_refl|constructor]|].
  destruct action as [|code| |t p q]; try (split; [apply frame_refl|constructor]).
  - destruct (deliver (k_cid k) m (retain_update m s)) as [[s' o] b] eqn:E.
    pose proof (deliver_quiet (k_cid k) m (retain_update m s)) as [H1 H2]. rewrite E in H1, H2. cbn [fst snd] in *.
    split; [|exact H2]. eapply frame_trans; [apply retain_update_frame|exact H1].
  - cbv zeta. set (m' := rewrite_msg t p q m).
    destruct (deliver (k_cid k) m' (retain_update m' s)) as [[s' o] b] eqn:E.
    pose proof (deliver_quiet (k_cid k) m' (retain_update m' s)) as [H1 H2]. rewrite E in H1, H2. cbn [fst snd] in *.
    split; [|exact H2]. eapply frame_trans; [apply retain_update_frame|exact H1].
Qed.

Lemma hp_finish_frame c k v5 qos pid o matched err s :
  Forall (okout c) o ->
  wframe s (hres_st (hp_finish c k v5 qos pid o matched err s)) /\
  Forall (okout c) (hres_out (hp_finish c k v5 qos pid o matched err s)).
Proof.
  intros Ho. unfold hp_finish. cbv zeta. cbn [hres_st hres_out]. split.
  - match goal with |- context [if ?b then set_unacks ?u s else s] =>
      assert (F1 : wframe s (if b then set_unacks u s else s))
        by (destruct b; [apply wframe_set_unacks_aset|apply wframe_refl]);
      set (s1 := if b then set_unacks u s else s) in * end.
    eapply wframe_trans; [exact F1|]. apply frame_wframe.
    match goal with |- context [if ?v && ?x && _ then _ else _] =>
      apply (bump_quota_frame c s1 (fun k1 => v && x && (k_quota k1 <? k_recv_max k1))) end.
  - apply Forall_app. split; [exact Ho|].
    destruct (qos =? 1); [repeat constructor|]. destruct (qos =? 2); repeat constructor.
Qed.

Lemma handle_publish_frame c k dup qos retain topic payload pid props s :
  pv s c = Some (kview k) ->
  wframe s (hres_st (handle_publish c k dup qos retain topic payload pid props s)) /\
  Forall (okout c) (hres_out (handle_publish c k dup qos retain topic payload pid props s)).
Proof.
  intros Hpv. rewrite handle_publish_eq. cbv zeta.
  destruct (negb (k_retain_avail k) && retain); [split; [apply wframe_refl|constructor]|].
  destruct (hp_alias k (k_v k =? 5) topic props _) as [[[k' m']|]|code] eqn:EA;
    try (split; [apply wframe_refl|constructor]).
  apply hp_alias_kview in EA.
  assert (F0 : frame s (upd_conn c k' s)) by (apply frame_upd_conn; now rewrite EA).
  destruct (hp_dupcheck c k' (k_v k =? 5) qos pid (upd_conn c k' s)) as [s1 isdup] eqn:E1.
  pose proof (hp_dupcheck_frame c k' (k_v k =? 5) qos pid (upd_conn c k' s)) as F1. rewrite E1 in F1. cbn [fst] in F1.
  destruct (hp_deliver k' m' isdup (hp_action m' s1) s1) as [[[s2 o] matched] err] eqn:E2.
  pose proof (hp_deliver_quiet k' m' isdup (hp_action m' s1) s1) as [F2 D2]. rewrite E2 in F2, D2. cbn [fst snd] in F2, D2.
  destruct (hp_finish_frame c k' (k_v k =? 5) qos pid o matched err s2 (isdrop_okout c o D2)) as [F3 D3].
  split; [|exact D3].
  eapply wframe_trans; [apply frame_wframe, F0|]. eapply wframe_trans; [exact F1|].
  eapply wframe_trans; [apply frame_wframe, F2|exact F3].
Qed.

Lemma fold_rel {A B} (R : B -> B -> Prop) (f : B -> A -> B) (l : list A) :
  (forall b, R b b) -> (forall a b c, R a b -> R b c -> R a c) ->
  (forall b x, R b (f b x)) -> forall b, R b (fold_left f l b).
Proof.
  intros Hr Ht Hf. induction l as [|x r IH]; intros b; cbn [fold_left]; [apply Hr|].
  eapply Ht; [apply Hf|apply IH].
Qed.

Lemma replay_retained_quiet c k sb s :
  frame s (fst (replay_retained c k sb s)) /\ Forall isdrop (snd (replay_retained c k sb s)).
Proof.
  unfold replay_retained.
  match goal with |- context [fold_left ?f ?l (s, [])] =>
    cut (forall s0 o0 x, quiet s0 o0 (f (s0, o0) x));
    [intros Hb; destruct (fold_quiet f l Hb s []) as [H1 H2]; split; [exact H1|apply H2; constructor]|] end.
  intros s0 o0 m. cbv beta iota zeta.
  destruct (aget (k_cid k) (b_queues s0)) as [q|]; [|apply quiet_refl].
  match goal with |- context [q_add ?a ?b ?c] => destruct (q_add a b c) as [[q' evs]| | |] end;
    try apply quiet_refl.
  split; cbn [fst snd].
  - eapply frame_trans; [|apply release_dropped_frame].
    eapply frame_trans; [apply frame_set_queues_aset|apply frame_set_picks_tag].
  - intros H. apply Forall_app. split; [exact H|apply drops_of_isdrop].
Qed.

Definition hs_body (c : N) (k : conn) (v5 : bool) (subid : N) (topics : list topic_req)
                   (acc : st * list out * list N) (t : topic_req) : st * list out * list N :=
  let '(s0, o0, cs) := acc in
  let t_eff := last_with_name (tq_name t) topics t in
  let sb0 := sub_of_req t_eff subid in
  let action := opt_or (match find (fun e => str_eqb (fst (fst e)) (k_cid k) && str_eqb (snd (fst e)) (tq_name t)) (h_sub (b_hooks s0)) with
                        | Some e => Some (snd e) | None => None end) SAccept in
  let sb := match action with
            | SQos q => {| s_share := s_share sb0; s_filter := s_filter sb0; s_id := s_id sb0; s_qos := q;
                           s_nl := s_nl sb0; s_rap := s_rap sb0; s_rh := s_rh sb0 |}
            | _ => sb0
            end in
  let shared := negb (is_empty (s_share sb)) in
  let code := s_qos sb in
  let code := if v5 && shared && negb (k_shared k) then 158 else code in
  let code := if v5 && negb (k_subid k) && negb (subid =? 0) then 161 else code in
  let code := if v5 && negb (k_wildcard k) && has_wildcard (s_filter sb) then 162 else code in
  let code := match action with SReject cd => if v5 then cd else 128 | _ => code end in
  if code <? 128 then
    let '(d', existed) := db_subscribe (k_cid k) sb (b_subs s0) in
    let s1 := set_subs d' s0 in
    let '(s2, o2) :=
      if negb shared && ((negb existed && negb (tq_rh t =? 2)) || (tq_rh t =? 0))
      then replay_retained c k sb s1 else (s1, []) in
    (s2, o0 ++ o2, cs ++ [code])
  else (s0, o0, cs ++ [code]).

Lemma handle_subscribe_eq c k pid props topics s :
  handle_subscribe c k pid props topics s =
  let v5 := k_v k =? 5 in
  let subid := if v5 && k_subid k then match p_subids props with i :: _ => i | [] => 0 end else 0 in
  if v5 && negb (c_subid (b_cfg s)) && negb (subid =? 0) then HErr s [] (Some 161)
  else
    match h_sub_all (b_hooks s) with
    | Some code => HOk s [OSend c (KSuback pid (map (fun _ => if v5 then code else 128) topics) [])]
    | None =>
        let '(s, o, codes) := fold_left (hs_body c k v5 subid topics) topics (s, [], []) in
        HOk s (o ++ [OSend c (KSuback pid codes [])])
    end.
Proof. reflexivity. Qed.

Definition quiet3 (b b' : st * list out * list N) : Prop :=
  wframe (fst (fst b)) (fst (fst b')) /\ (Forall isdrop (snd (fst b)) -> Forall isdrop (snd (fst b'))).

Lemma hs_body_quiet c k v5 subid topics acc t : quiet3 acc (hs_body c k v5 subid topics acc t).
Proof.
  destruct acc as [[s0 o0] cs]. unfold hs_body. cbv zeta.
  match goal with |- context [if ?b <? 128 then _ else _] => destruct (b <? 128) end;
    [|split; cbn [fst snd]; [apply wframe_refl|auto]].
  match goal with |- context [db_subscribe ?a ?b ?d] => destruct (db_subscribe a b d) as [d' existed]; set (sb := b) in * end.
  match goal with |- context [if ?b then replay_retained c k sb ?S else _] =>
    destruct b; [pose proof (replay_retained_quiet c k sb S) as [H1 H2];
                 destruct (replay_retained c k sb S) as [s2 o2]|] end.
  - split; cbn [fst snd] in *.
    + eapply wframe_trans; [apply wframe_set_subs|apply frame_wframe, H1].
    + intros H. apply Forall_app. now split.
  - split; cbn [fst snd].
    + apply wframe_set_subs.
    + intros H. apply Forall_app. split; [exact H|constructor].
Qed.

Lemma handle_subscribe_frame c k pid props topics s :
  wframe s (hres_st (handle_subscribe c k pid props topics s)) /\
  Forall (okout c) (hres_out (handle_subscribe c k pid props topics s)).
Proof.
  rewrite handle_subscribe_eq. cbv zeta.
  match goal with |- context [if ?b then HErr s [] (Some 161) else _] => destruct b end;
    [split; [apply wframe_refl|constructor]|].
  destruct (h_sub_all (b_hooks s)); [split; [apply wframe_refl|repeat constructor]|].
  match goal with |- context [fold_left ?f topics ?a] =>
    pose proof (fold_rel quiet3 f topics) as HF; destruct (fold_left f topics a) as [[s' o] codes] eqn:E end.
  cbn [hres_st hres_out].
  match type of HF with _ -> _ -> _ -> forall b, _ => specialize (fun a b c => HF a b c (s, [], [])) end.
  rewrite E in HF. destruct HF as [H1 H2]; cbn [fst snd] in *.
  - intros b. split; [apply wframe_refl|auto].
  - intros a b d [A1 A2] [B1 B2]. split; [eapply wframe_trans; eauto|auto].
  - intros b x. apply hs_body_quiet.
  - split; [exact H1|]. apply Forall_app. split; [apply isdrop_okout, H2; constructor|repeat constructor].
Qed.

Lemma queue_op_frame cid f s : frame s (queue_op cid f s).
Proof. unfold queue_op. destruct (aget cid (b_queues s)); [apply frame_set_queues_aset|apply frame_refl]. Qed.

Lemma release_id_frame c pid s : frame s (release_id c pid s).
Proof.
  unfold release_id. destruct (nget c (b_conns s)) as [k|] eqn:E; [|apply frame_refl].
  eapply frame_upd_conn_k; [exact E|reflexivity].
Qed.

Lemma ksame_sessions_aset cid se s :
  ahas cid (b_sessions s) = true ->
  wframe s (set_tables (aset cid se (b_sessions s)) (b_online s) (b_offline s) (b_wills s) (b_queues s) (b_unacks s) s).
Proof. intros H. constructor; proj; auto using kext_refl. now apply ksame_aset. Qed.

Lemma handle_packet_frame c k p s :
  nget c (b_conns s) = Some k ->
  wframe s (hres_st (handle_packet c k p s)) /\ Forall (okout c) (hres_out (handle_packet c k p s)).
Proof.
  intros Hk. pose proof (pv_of _ _ _ Hk) as Hpv.
  destruct p; cbn [handle_packet]; try (split; [apply wframe_refl|repeat constructor]).
  - (* PUBLISH *)
    destruct (has_wild topic); [split; [apply wframe_refl|constructor]|].
    match goal with |- context [if ?b then HErrRead s (Some 148) else _] => destruct b end;
      [split; [apply wframe_refl|constructor]|].
    match goal with |- context [if ?b then HErrRead s (Some 130) else _] => destruct b end;
      [split; [apply wframe_refl|constructor]|].
    match goal with |- context [if ?b then HErrRead s (Some 147) else _] => destruct b end;
      [split; [apply wframe_refl|constructor]|].
    match goal with |- context [handle_publish c ?K] => set (k' := K) end.
    assert (Ek : kview k' = kview k) by (unfold k'; destruct ((k_v k =? 5) && (0 <? qos)); reflexivity).
    assert (F0 : frame s (upd_conn c k' s)) by (apply frame_upd_conn; now rewrite Ek).
    match goal with |- context [handle_publish c k' ?a ?b ?d ?e ?f ?g ?h ?S] =>
      destruct (handle_publish_frame c k' a b d e f g h S) as [H1 H2] end.
    { rewrite pv_upd_conn, N.eqb_refl. reflexivity. }
    split; [eapply wframe_trans; [apply frame_wframe, F0|exact H1]|exact H2].
  - (* PUBACK *)
    cbn [hres_st hres_out]. split; [apply frame_wframe|constructor].
    eapply frame_trans; [apply queue_op_frame|apply release_id_frame].
  - (* PUBREC *)
    destruct ((k_v k =? 5) && (128 <=? code)); cbn [hres_st hres_out].
    + split; [apply frame_wframe|constructor]. eapply frame_trans; [apply queue_op_frame|apply release_id_frame].
    + split; [apply frame_wframe, queue_op_frame|repeat constructor].
  - (* PUBREL *)
    cbv zeta. cbn [hres_st hres_out]. split; [|repeat constructor].
    eapply wframe_trans; [apply (wframe_set_unacks_aset (k_cid k))|]. apply frame_wframe.
    match goal with |- frame ?S _ =>
      apply (bump_quota_frame c S (fun k1 => (k_v k =? 5) && (k_quota k1 <? k_recv_max k1))) end.
  - (* PUBCOMP *)
    cbn [hres_st hres_out]. split; [apply frame_wframe|constructor].
    eapply frame_trans; [apply queue_op_frame|apply release_id_frame].
  - (* SUBSCRIBE *)
    match goal with |- context [if ?b then handle_subscribe _ _ _ _ _ _ else _] => destruct b end;
      [|split; [apply wframe_refl|constructor]].
    apply handle_subscribe_frame.
  - (* UNSUBSCRIBE *)
    unfold handle_unsubscribe. cbn [hres_st hres_out]. split; [apply wframe_set_subs|repeat constructor].
  - (* DISCONNECT *)
    destruct (k_v k =? 5).
    + cbv zeta. destruct (aget (k_cid k) (b_sessions s)) as [se|] eqn:Es; [|split; [apply wframe_refl|constructor]].
      match goal with |- context [if ?b then HErr s [] None else _] => destruct b end;
        [split; [apply wframe_refl|constructor]|].
      cbn [hres_st hres_out]. split; [|constructor].
      match goal with |- wframe s (upd_conn c ?K ?S) => set (s1 := S) end.
      assert (F1 : wframe s s1).
      { unfold s1. destruct (p_sei props) as [x|]; [|apply wframe_refl].
        destruct (x =? 0); [apply wframe_refl|]. apply ksame_sessions_aset. eapply ahas_some; eauto. }
      eapply wframe_trans; [exact F1|]. apply frame_wframe, frame_upd_conn. rewrite (wf_pv _ _ F1 c), Hpv. reflexivity.
    + cbn [hres_st hres_out]. split; [|constructor]. apply frame_wframe, frame_upd_conn. now rewrite Hpv.
Qed.

(* ================================================================== *)
(* 4. the poll loops are frames                                        *)
(* ================================================================== *)

Lemma write_publish_ok c k m :
  kview (fst (write_publish c k m)) = kview k /\ Forall (okout c) (snd (write_publish c k m)).
Proof.
  unfold write_publish. destruct ((k_v k =? 5) && (0 <? k_client_alias_max k) && (msg_total_bytes true m + 5 <=? k_client_max_packet k)).
  - destruct (am_check (m_topic m) (k_alias_out k)) as [am' [a ex|]]; cbn [fst snd]; split; try reflexivity;
      repeat constructor.
  - cbn [fst snd]. split; [reflexivity|repeat constructor].
Qed.

Definition kquiet (c : N) (b b' : conn * list out) : Prop :=
  kview (fst b') = kview (fst b) /\ (Forall (okout c) (snd b) -> Forall (okout c) (snd b')).

Lemma kquiet_refl c b : kquiet c b b.
Proof. split; auto. Qed.
Lemma kquiet_trans c a b d : kquiet c a b -> kquiet c b d -> kquiet c a d.
Proof. intros [A1 A2] [B1 B2]. split; [congruence|auto]. Qed.

Lemma poll_once_frame c s s' o :
  poll_once c s = Some (s', o) ->
  frame s s' /\ Forall (okout c) o /\ exists k, nget c (b_conns s) = Some k /\ attached (k_phase k) = true.
Proof.
  unfold poll_once. destruct (nget c (b_conns s)) as [k|] eqn:Ek; [|discriminate].
  assert (Hatt : forall (X : option (st * list out)),
            match k_phase k with PhConnected | PhZombie => X | _ => None end = Some (s', o) ->
            X = Some (s', o) /\ attached (k_phase k) = true).
  { intros X. destruct (k_phase k); try discriminate; auto. }
  intros H.
  match type of H with match k_phase k with PhConnected => ?X | _ => _ end = _ =>
    assert (H' : X = Some (s', o) /\ attached (k_phase k) = true) by (apply Hatt; destruct (k_phase k); exact H) end.
  clear H Hatt. destruct H' as [H Hph].
  cut (frame s s' /\ Forall (okout c) o); [intros [A B]; split; [exact A|split; [exact B|now exists k]]|].
  destruct (aget (k_cid k) (b_queues s)) as [q|]; [|discriminate].
  destruct (negb (k_drained k)).
  - (* pollInflights *)
    destruct (q_read_inflight (b_now s) (N.to_nat (k_max_inflight k)) q) as [q' rs].
    destruct rs as [|r0 rs0].
    + injection H as <- <-. split; [|constructor].
      eapply frame_trans; [apply frame_set_queues_aset|].
      eapply frame_upd_conn_k; [exact Ek|reflexivity].
    + set (rs := r0 :: rs0) in *. cbv zeta in H.
      match type of H with context [fold_left ?f rs (k, [])] =>
        pose proof (fold_rel (kquiet c) f rs (kquiet_refl c) (kquiet_trans c)) as HF;
        destruct (fold_left f rs (k, [])) as [k' o'] eqn:Ef end.
      assert (HK : kquiet c (k, []) (k', o')).
      { rewrite <- Ef. apply HF. intros [k0 o0] e. destruct (e_body e) as [m|p].
        - match goal with |- context [write_publish c ?K ?M] =>
            pose proof (write_publish_ok c K M) as [W1 W2]; destruct (write_publish c K M) as [k2 o2] end.
          cbn [fst snd] in *. split; cbn [fst snd]; [rewrite W1; reflexivity|].
          intros Ho. apply Forall_app. now split.
        - split; cbn [fst snd]; [reflexivity|]. intros Ho. apply Forall_app. split; [exact Ho|repeat constructor]. }
      destruct HK as [K1 K2]. cbn [fst snd] in K1, K2.
      injection H as <- <-. split; [|apply K2; constructor].
      eapply frame_trans; [apply frame_set_queues_aset|].
      eapply frame_trans; [apply frame_set_queues_aset|].
      eapply frame_upd_conn_k; [exact Ek|exact K1].
  - destruct (k_held k) as [ids|].
    + destruct (q_read (b_now s) ids q) as [[[q' rs] evs]| | |]; try discriminate.
      cbv zeta in H.
      match type of H with context [fold_left ?f ?l (?k0, [])] =>
        pose proof (fold_rel (kquiet c) f l (kquiet_refl c) (kquiet_trans c)) as HF;
        destruct (fold_left f l (k0, [])) as [k' o'] eqn:Ef; set (kk := k0) in * end.
      assert (HK : kquiet c (kk, []) (k', o')).
      { rewrite <- Ef. apply HF. intros [k0 o0] e. destruct (e_body e) as [m|p]; [|apply kquiet_refl].
        pose proof (write_publish_ok c k0 m) as [W1 W2]. destruct (write_publish c k0 m) as [k2 o2].
        cbn [fst snd] in *. split; cbn [fst snd]; [exact W1|].
        intros Ho. apply Forall_app. now split. }
      destruct HK as [K1 K2]. cbn [fst snd] in K1, K2.
      injection H as <- <-. split.
      * eapply frame_trans; [apply frame_set_queues_aset|].
        eapply frame_upd_conn_k; [exact Ek|]. rewrite K1. reflexivity.
      * apply Forall_app. split; [apply isdrop_okout, drops_of_isdrop|apply K2; constructor].
    + match type of H with context [lim_poll ?a ?b] => destruct (lim_poll a b) as [l' [| | |ids]] end; try discriminate.
      injection H as <- <-. split; [|constructor]. eapply frame_upd_conn_k; [exact Ek|reflexivity].
Qed.

Definition att (s : st) (c : N) : Prop := exists k, nget c (b_conns s) = Some k /\ attached (k_phase k) = true.

Lemma att_pv s s' c : pv s' c = pv s c -> att s c -> att s' c.
Proof.
  intros Hpv [k [Hk Ha]]. rewrite (pv_of _ _ _ Hk) in Hpv. apply pv_some in Hpv as [k' [Hk' Ev]].
  exists k'. split; [exact Hk'|]. unfold kview in Ev. injection Ev as _ E _. now rewrite E.
Qed.

Lemma att_frame s s' c : frame s s' -> (att s c <-> att s' c).
Proof. intros F. split; apply att_pv; [|symmetry]; apply (pv_frame _ _ c F). Qed.

Definition sendok (P : N -> Prop) (x : out) : Prop :=
  match x with OSend c _ => P c | OClose _ => False | ODropped _ _ _ => True end.

Lemma sendok_impl (P Q : N -> Prop) o : (forall c, P c -> Q c) -> Forall (sendok P) o -> Forall (sendok Q) o.
Proof. intros H. apply Forall_impl. intros [c p|c|cid m r]; cbn; auto. Qed.

Lemma okout_sendok c (P : N -> Prop) o : P c -> Forall (okout c) o -> Forall (sendok P) o.
Proof. intros H. apply Forall_impl. intros [c' p|c'|cid m r]; cbn; auto. now intros ->. Qed.

Lemma isdrop_sendok (P : N -> Prop) o : Forall isdrop o -> Forall (sendok P) o.
Proof. apply Forall_impl. intros [c' p|c'|cid m r]; cbn; intros H; try destruct H; exact I. Qed.

Lemma Forall_filter {A} (P : A -> Prop) f (l : list A) : Forall P l -> Forall P (filter f l).
Proof. rewrite !Forall_forall. intros H x Hin. apply filter_In in Hin as [Hin _]. auto. Qed.

Lemma poll_conn_frame fuel c : forall s,
  frame s (fst (poll_conn fuel c s)) /\ Forall (sendok (att s)) (snd (poll_conn fuel c s)).
Proof.
  induction fuel as [|f IH]; intros s; cbn [poll_conn]; [split; [apply frame_refl|constructor]|].
  destruct (poll_once c s) as [[s' o]|] eqn:E; [|split; [apply frame_refl|constructor]].
  apply poll_once_frame in E as (F & Ho & Hatt).
  destruct (IH s') as [F' Ho']. destruct (poll_conn f c s') as [s'' o'']. cbn [fst snd] in *.
  split; [eapply frame_trans; eauto|]. apply Forall_app. split.
  - apply (okout_sendok c); [exact Hatt|].
    destruct (nget c (b_conns s)) as [k|]; [|exact Ho].
    destruct (k_phase k); try exact Ho. now apply Forall_filter.
  - eapply sendok_impl; [|exact Ho']. intros c'. apply (att_frame _ _ c' F).
Qed.

Lemma poll_conn_unattached fuel c s : ~ att s c -> poll_conn fuel c s = (s, []).
Proof.
  intros H. destruct fuel as [|f]; cbn [poll_conn]; [reflexivity|].
  destruct (poll_once c s) as [[s' o]|] eqn:E; [|reflexivity].
  apply poll_once_frame in E as (_ & _ & Hatt). contradiction.
Qed.

Lemma poll_all_frame s : frame s (fst (poll_all s)) /\ Forall (sendok (att s)) (snd (poll_all s)).
Proof.
  unfold poll_all.
  assert (G : forall (l : list (N * conn)) s0 o0, frame s s0 -> Forall (sendok (att s)) o0 ->
            frame s (fst (fold_left (fun acc ck => let '(s0, o0) := acc in
                                      let '(s', o') := poll_conn 400 (fst ck) s0 in (s', o0 ++ o')) l (s0, o0))) /\
            Forall (sendok (att s)) (snd (fold_left (fun acc ck => let '(s0, o0) := acc in
                                      let '(s', o') := poll_conn 400 (fst ck) s0 in (s', o0 ++ o')) l (s0, o0)))).
  { induction l as [|ck r IH]; intros s0 o0 F Ho; cbn [fold_left]; [now split|].
    destruct (poll_conn_frame 400 (fst ck) s0) as [F1 H1]. destruct (poll_conn 400 (fst ck) s0) as [s1 o1].
    cbn [fst snd] in *. apply IH; [eapply frame_trans; eauto|].
    apply Forall_app. split; [exact Ho|]. eapply sendok_impl; [|exact H1].
    intros c'. apply (att_frame _ _ c' F). }
  apply G; [apply frame_refl|constructor].
Qed.

(* ================================================================== *)
(* 5. the invariant                                                    *)
(* ================================================================== *)

(* coarse view of a socket: the client id it is attached to (and the force flag) *)
Definition cvk (k : conn) : option (str * bool) :=
  if attached (k_phase k) then Some (k_cid k, k_force_remove k) else None.
Definition cv (s : st) (c : N) : option (str * bool) :=
  match nget c (b_conns s) with Some k => cvk k | None => None end.

Lemma cv_upd_conn c' c k s : cv (upd_conn c k s) c' = if c' =? c then cvk k else cv s c'.
Proof. unfold cv. proj. rewrite nget_nset. destruct (c' =? c); reflexivity. Qed.

Lemma cv_set_tables se on off w q u s c : cv (set_tables se on off w q u s) c = cv s c.
Proof. reflexivity. Qed.
Lemma cv_set_subs d s c : cv (set_subs d s) c = cv s c.
Proof. reflexivity. Qed.
Lemma cv_set_queues q s c : cv (set_queues q s) c = cv s c.
Proof. reflexivity. Qed.

Lemma cv_pv s s' c : pv s' c = pv s c -> cv s' c = cv s c.
Proof.
  unfold pv, cv. destruct (nget c (b_conns s')) as [k'|], (nget c (b_conns s)) as [k|]; cbn [option_map];
    try discriminate; [|reflexivity].
  unfold kview, cvk. now intros [= -> -> ->].
Qed.

Lemma cv_some s c cid f :
  cv s c = Some (cid, f) <->
  exists k, nget c (b_conns s) = Some k /\ k_cid k = cid /\ attached (k_phase k) = true /\ k_force_remove k = f.
Proof.
  unfold cv, cvk. split.
  - destruct (nget c (b_conns s)) as [k|]; [|discriminate]. destruct (attached (k_phase k)) eqn:E; [|discriminate].
    intros [= <- <-]. now exists k.
  - intros (k & -> & <- & -> & <-). reflexivity.
Qed.

Lemma cv_att s c : att s c <-> exists cid f, cv s c = Some (cid, f).
Proof.
  split.
  - intros (k & Hk & Ha). exists (k_cid k), (k_force_remove k). apply cv_some. now exists k.
  - intros (cid & f & H). apply cv_some in H as (k & Hk & _ & Ha & _). now exists k.
Qed.

Record BInvG (ex : option str) (s : st) : Prop := {
  bi_on : forall cid c, aget cid (b_online s) = Some c -> ex <> Some cid -> exists f, cv s c = Some (cid, f);
  bi_conn : forall c cid f, cv s c = Some (cid, f) -> aget cid (b_online s) = Some c;
  bi_force : forall c cid f, cv s c = Some (cid, f) -> ex <> Some cid -> f = false;
  bi_disj : forall cid, ahas cid (b_online s) = true -> ahas cid (b_offline s) = false;
  bi_has : forall cid, ahas cid (b_online s) || ahas cid (b_offline s) = true ->
           ahas cid (b_sessions s) = true /\ ahas cid (b_queues s) = true /\ ahas cid (b_unacks s) = true;
  bi_sess : forall cid, ahas cid (b_sessions s) = true -> ahas cid (b_online s) || ahas cid (b_offline s) = true;
  bi_ne : forall cid, ahas cid (b_sessions s) = true -> cid <> [];
  bi_nd_on : NoDup (keys (b_online s));
  bi_nd_off : NoDup (keys (b_offline s));
  bi_nd_sess : NoDup (keys (b_sessions s));
  bi_nd_q : NoDup (keys (b_queues s));
  bi_nd_u : NoDup (keys (b_unacks s));
  bi_nd_w : NoDup (keys (b_wills s));
  bi_nd_c : NoDup (map fst (b_conns s)) }.

Definition BInv : st -> Prop := BInvG None.

(* the same with the coarse view of the sockets *)
Record cframe (s s' : st) : Prop := {
  cf_on : b_online s' = b_online s;
  cf_off : b_offline s' = b_offline s;
  cf_sess : ksame (b_sessions s) (b_sessions s');
  cf_q : kext (b_queues s) (b_queues s');
  cf_u : kext (b_unacks s) (b_unacks s');
  cf_w : NoDup (keys (b_wills s)) -> NoDup (keys (b_wills s'));
  cf_ck : NoDup (map fst (b_conns s)) -> NoDup (map fst (b_conns s'));
  cf_cv : forall c, cv s' c = cv s c }.

Lemma wframe_cframe s s' : wframe s s' -> cframe s s'.
Proof. intros []. constructor; auto. intros c. now apply cv_pv. Qed.

Lemma frame_cframe s s' : frame s s' -> cframe s s'.
Proof. intros F. now apply wframe_cframe, frame_wframe. Qed.

Lemma cframe_upd_conn c k s : cv s c = cvk k -> cframe s (upd_conn c k s).
Proof.
  intros H. constructor; proj; auto using ksame_refl, kext_refl.
  - apply NoDup_nset.
  - intros c'. rewrite cv_upd_conn. destruct (N.eqb_spec c' c) as [->|E]; [now rewrite H|reflexivity].
Qed.

Lemma BInvG_cframe ex s s' : cframe s s' -> BInvG ex s -> BInvG ex s'.
Proof.
  intros [Fon Foff [Fs1 Fs2] [Fq1 Fq2] [Fu1 Fu2] Fw Fck Fcv] [].
  constructor; rewrite ?Fon, ?Foff; auto.
  - intros cid c H1 H2. rewrite Fcv. eauto.
  - intros c cid f. rewrite Fcv. eauto.
  - intros c cid f. rewrite Fcv. eauto.
  - intros cid H. destruct (bi_has0 cid H) as (A & B & C). rewrite Fs2. auto.
  - intros cid. rewrite Fs2. auto.
  - intros cid. rewrite Fs2. auto.
Qed.

Lemma BInvG_frame ex s s' : frame s s' -> BInvG ex s -> BInvG ex s'.
Proof. intros F. apply BInvG_cframe. now apply frame_cframe. Qed.

Lemma BInvG_weaken ex s : BInv s -> BInvG ex s.
Proof.
  intros []. constructor; auto.
  - intros cid c H _. apply bi_on0; [exact H|discriminate].
  - intros c cid f H _. eapply bi_force0; [exact H|discriminate].
Qed.

(* no socket is attached to cid (its registration may still be there) *)
Definition BInvX (cid : str) (s : st) : Prop := BInvG (Some cid) s /\ forall c f, cv s c <> Some (cid, f).

Lemma BInvX_cframe cid s s' : cframe s s' -> BInvX cid s -> BInvX cid s'.
Proof.
  intros F [H1 H2]. split; [eapply BInvG_cframe; eauto|]. intros c f. rewrite (cf_cv _ _ F). apply H2.
Qed.

Lemma BInvX_frame cid s s' : frame s s' -> BInvX cid s -> BInvX cid s'.
Proof. intros F. apply BInvX_cframe. now apply frame_cframe. Qed.

Lemma BInvX_of_offline cid s : BInv s -> ahas cid (b_online s) = false -> BInvX cid s.
Proof.
  intros HI Hoff. split; [now apply BInvG_weaken|]. intros c f H.
  apply (bi_conn _ _ HI) in H. apply ahas_some in H. congruence.
Qed.

(* the socket of an attached connection is closed (or otherwise detached) *)
Lemma BInvX_close c k k' s :
  BInvG (Some (k_cid k)) s -> nget c (b_conns s) = Some k -> attached (k_phase k) = true -> cvk k' = None ->
  BInvX (k_cid k) (upd_conn c k' s).
Proof.
  intros HI Hk Ha Hk'.
  assert (Hc : cv s c = Some (k_cid k, k_force_remove k)) by (apply cv_some; now exists k).
  split.
  - destruct HI. constructor; proj; auto.
    + intros cid c' H1 H2. destruct (bi_on0 cid c' H1 H2) as [f Hf]. exists f. rewrite cv_upd_conn.
      destruct (N.eqb_spec c' c) as [->|E]; [|exact Hf]. rewrite Hc in Hf. congruence.
    + intros c' cid f. rewrite cv_upd_conn. destruct (c' =? c); [congruence|apply bi_conn0].
    + intros c' cid f. rewrite cv_upd_conn. destruct (c' =? c); [congruence|apply bi_force0].
    + now apply NoDup_nset.
  - intros c' f. rewrite cv_upd_conn. destruct (N.eqb_spec c' c) as [->|E]; [congruence|].
    intros H. apply (bi_conn _ _ HI) in H. apply (bi_conn _ _ HI) in Hc. congruence.
Qed.

Ltac ab := rewrite ?ahas_aset, ?ahas_adel by assumption.
Ltac ab_in H := rewrite ?ahas_aset, ?ahas_adel in H by assumption.

Lemma BInvX_remove cid s : BInvX cid s -> BInv (remove_session cid s).
Proof.
  intros [[] HX]. unfold keys in *. constructor; proj; unfold keys; auto using NoDup_adel.
  - intros cid' c' H _. rewrite aget_adel in H by assumption.
    destruct (str_eqb_spec cid' cid) as [->|E]; [discriminate|]. apply bi_on0; [exact H|congruence].
  - intros c' cid' f H. rewrite aget_adel by assumption.
    destruct (str_eqb_spec cid' cid) as [->|E]; [now apply HX in H|eauto].
  - intros c' cid' f H _. destruct (str_eqb_spec cid' cid) as [->|E]; [now apply HX in H|].
    eapply bi_force0; [exact H|congruence].
  - intros cid'. ab. destruct (str_eqb cid' cid); cbn [negb andb]; auto.
  - intros cid'. ab. destruct (str_eqb cid' cid); cbn [negb andb orb]; [discriminate|]. apply bi_has0.
  - intros cid'. ab. destruct (str_eqb cid' cid); cbn [negb andb orb]; [discriminate|]. apply bi_sess0.
  - intros cid'. ab. destruct (str_eqb cid' cid); cbn [negb andb orb]; [discriminate|]. apply bi_ne0.
Qed.

Lemma BInvX_store cid se dl s :
  BInvX cid s -> ahas cid (b_sessions s) = true ->
  BInv (set_tables (aset cid se (b_sessions s)) (adel cid (b_online s)) (aset cid dl (b_offline s)) (b_wills s)
                   (b_queues s) (b_unacks s) s).
Proof.
  intros [[] HX] Hs. unfold keys in *.
  destruct (bi_has0 cid (bi_sess0 cid Hs)) as (_ & Hq & Hu).
  constructor; proj; unfold keys; auto using NoDup_adel, NoDup_aset.
  - intros cid' c' H _. rewrite aget_adel in H by assumption.
    destruct (str_eqb_spec cid' cid) as [->|E]; [discriminate|]. apply bi_on0; [exact H|congruence].
  - intros c' cid' f H. rewrite aget_adel by assumption.
    destruct (str_eqb_spec cid' cid) as [->|E]; [now apply HX in H|eauto].
  - intros c' cid' f H _. destruct (str_eqb_spec cid' cid) as [->|E]; [now apply HX in H|].
    eapply bi_force0; [exact H|congruence].
  - intros cid'. ab. destruct (str_eqb cid' cid); cbn [negb andb orb]; [discriminate|]. apply bi_disj0.
  - intros cid'. ab. destruct (str_eqb_spec cid' cid) as [->|E]; cbn [negb andb orb]; [auto|]. apply bi_has0.
  - intros cid'. ab. destruct (str_eqb_spec cid' cid) as [->|E]; cbn [negb andb orb]; [reflexivity|].
    apply bi_sess0.
  - intros cid'. ab. destruct (str_eqb_spec cid' cid) as [->|E]; cbn [negb andb orb]; [intros _; now apply bi_ne0|].
    apply bi_ne0.
Qed.

Lemma BInvX_connect cid c k se s :
  BInvX cid s -> cv s c = None -> cvk k = Some (cid, false) -> cid <> [] ->
  ahas cid (b_queues s) = true -> ahas cid (b_unacks s) = true ->
  BInv (set_tables (aset cid se (b_sessions s)) (aset cid c (b_online s)) (adel cid (b_offline s)) (b_wills s)
                   (b_queues s) (b_unacks s) (upd_conn c k s)).
Proof.
  intros [[] HX] Hc Hk Hne Hq Hu. unfold keys in *.
  constructor; proj; unfold keys; auto using NoDup_adel, NoDup_aset, NoDup_nset.
  - intros cid' c' H _. rewrite aget_aset in H. rewrite cv_set_tables, cv_upd_conn.
    destruct (str_eqb_spec cid' cid) as [->|E].
    + injection H as <-. rewrite N.eqb_refl. now exists false.
    + destruct (bi_on0 cid' c' H) as [f Hf]; [congruence|]. exists f.
      destruct (N.eqb_spec c' c) as [->|E']; [congruence|exact Hf].
  - intros c' cid' f. rewrite cv_set_tables, cv_upd_conn, aget_aset. destruct (N.eqb_spec c' c) as [->|E'].
    + rewrite Hk. intros [= <- <-]. now rewrite str_eqb_refl.
    + intros H. destruct (str_eqb_spec cid' cid) as [->|E]; [now apply HX in H|eauto].
  - intros c' cid' f. rewrite cv_set_tables, cv_upd_conn. destruct (N.eqb_spec c' c) as [->|E'].
    + rewrite Hk. now intros [= <- <-].
    + intros H _. destruct (str_eqb_spec cid' cid) as [->|E]; [now apply HX in H|].
      eapply bi_force0; [exact H|congruence].
  - intros cid'. ab. destruct (str_eqb cid' cid); cbn [negb andb orb]; [reflexivity|]. apply bi_disj0.
  - intros cid'. ab. destruct (str_eqb_spec cid' cid) as [->|E]; cbn [negb andb orb]; [auto|]. apply bi_has0.
  - intros cid'. ab. destruct (str_eqb_spec cid' cid) as [->|E]; cbn [negb andb orb]; [reflexivity|]. apply bi_sess0.
  - intros cid'. ab. destruct (str_eqb_spec cid' cid) as [->|E]; cbn [negb andb orb]; [auto|]. apply bi_ne0.
Qed.

Lemma BInv_init c h p : BInv (st_init c h p).
Proof.
  constructor; cbn; try constructor; try discriminate.
Qed.

(* ================================================================== *)
(* 6. unregister / conn_gone                                           *)
(* ================================================================== *)

(* the Session Expiry Interval that counts when the connection ends *)
Definition ur_expiry (k : conn) (se : session) (cf : cfg) : N :=
  if negb (k_force_remove k) && (k_v k =? 5) && k_got_disconnect k
  then N.min (opt_or (k_disc_sei k) (se_expiry se)) (c_session_expiry cf) else se_expiry se.

Definition ur_will (cid : str) (k : conn) (se : session) (expiry : N) (store : bool) (s : st) : st * list out :=
  match se_will se with
  | Some w =>
      if k_clean_will k then (s, [])
      else
        let delay := if expiry <=? se_will_delay se then expiry else se_will_delay se in
        if negb (delay =? 0) && store
        then (set_tables (b_sessions s) (b_online s) (b_offline s) (aset cid (w, b_rt s + delay * 1000) (b_wills s))
                         (b_queues s) (b_unacks s) s, [])
        else send_will cid w s
  | None => (s, [])
  end.

Definition stored_session (se : session) (expiry : N) : session :=
  {| se_will := se_will se; se_will_delay := se_will_delay se; se_connected_at := se_connected_at se; se_expiry := expiry |}.

Definition store_tables (cid : str) (se : session) (expiry : N) (s1 : st) : st :=
  set_tables (aset cid (stored_session se expiry) (b_sessions s1))
             (adel cid (b_online s1)) (aset cid (b_now s1 + expiry * 1000) (b_offline s1)) (b_wills s1)
             (b_queues s1) (b_unacks s1) s1.

Lemma unregister_eq c k s :
  unregister c k s =
  let cid := k_cid k in
  match aget cid (b_sessions s) with
  | None => (remove_session cid s, [])
  | Some se =>
      let expiry := ur_expiry k se (b_cfg s) in
      let store := negb (k_force_remove k) && negb (expiry =? 0) in
      let '(s1, o1) := ur_will cid k se expiry store s in
      if store then (store_tables cid se expiry s1, o1) else (remove_session cid s1, o1)
  end.
Proof. reflexivity. Qed.

Lemma ur_will_quiet cid k se expiry store s :
  frame s (fst (ur_will cid k se expiry store s)) /\ Forall isdrop (snd (ur_will cid k se expiry store s)).
Proof.
  unfold ur_will. destruct (se_will se) as [w|]; [|split; [apply frame_refl|constructor]].
  destruct (k_clean_will k); [split; [apply frame_refl|constructor]|]. cbv zeta.
  match goal with |- context [if ?b then (set_tables _ _ _ _ _ _ _, []) else _] => destruct b end.
  - cbn [fst snd]. split; [apply frame_wills_aset|constructor].
  - apply send_will_quiet.
Qed.

Inductive unreg_res (cid : str) (k : conn) (sess : list (str * session)) (cf : cfg) (s1 s' : st) : Prop :=
| UR_removed :
    (aget cid sess = None \/
     exists se, aget cid sess = Some se /\ (k_force_remove k = true \/ ur_expiry k se cf = 0)) ->
    s' = remove_session cid s1 -> unreg_res cid k sess cf s1 s'
| UR_stored se :
    aget cid sess = Some se -> k_force_remove k = false -> ur_expiry k se cf <> 0 ->
    s' = store_tables cid se (ur_expiry k se cf) s1 -> unreg_res cid k sess cf s1 s'.

Lemma unregister_spec c k s :
  exists s1, frame s s1 /\ Forall isdrop (snd (unregister c k s)) /\
             unreg_res (k_cid k) k (b_sessions s) (b_cfg s) s1 (fst (unregister c k s)).
Proof.
  rewrite unregister_eq. cbv zeta. destruct (aget (k_cid k) (b_sessions s)) as [se|] eqn:Es.
  - set (expiry := ur_expiry k se (b_cfg s)).
    destruct (ur_will_quiet (k_cid k) k se expiry (negb (k_force_remove k) && negb (expiry =? 0)) s) as [F D].
    destruct (ur_will (k_cid k) k se expiry (negb (k_force_remove k) && negb (expiry =? 0)) s) as [s1 o1].
    cbn [fst snd] in F, D. exists s1. split; [exact F|].
    destruct (k_force_remove k) eqn:Ef; cbn [negb andb fst snd].
    + split; [exact D|]. apply UR_removed; [|reflexivity]. right. exists se. auto.
    + destruct (N.eqb_spec expiry 0) as [E0|E0]; cbn [negb fst snd]; (split; [exact D|]).
      * apply UR_removed; [|reflexivity]. right. exists se. auto.
      * eapply UR_stored; eauto.
  - exists s. cbn [fst snd]. split; [apply frame_refl|]. split; [constructor|].
    apply UR_removed; [now left|reflexivity].
Qed.

Lemma unreg_res_inv cid k sess cf s1 s' :
  unreg_res cid k sess cf s1 s' -> BInvX cid s1 -> ksame sess (b_sessions s1) -> BInv s'.
Proof.
  intros [H ->|se Hs Hf He ->] HX [_ Hk].
  - now apply BInvX_remove.
  - apply BInvX_store; [exact HX|]. rewrite Hk. eapply ahas_some; eauto.
Qed.

Lemma unregister_inv c k s : BInvX (k_cid k) s -> BInv (fst (unregister c k s)).
Proof.
  intros HX. destruct (unregister_spec c k s) as (s1 & F & _ & HR).
  eapply unreg_res_inv; [exact HR|eapply BInvX_frame; eauto|rewrite (fr_sess _ _ F); apply ksame_refl].
Qed.

(* what conn_gone does to an attached socket *)
Definition closed_q (cid : str) (s : st) : st :=
  match aget cid (b_queues s) with
  | Some q => set_queues (aset cid (q_close q) (b_queues s)) s
  | None => s
  end.

Lemma closed_q_frame cid s : frame s (closed_q cid s).
Proof. unfold closed_q. destruct (aget cid (b_queues s)); [apply frame_set_queues_aset|apply frame_refl]. Qed.

Lemma closed_q_conns cid s : b_conns (closed_q cid s) = b_conns s.
Proof. unfold closed_q. destruct (aget cid (b_queues s)); reflexivity. Qed.
Lemma closed_q_sessions cid s : b_sessions (closed_q cid s) = b_sessions s.
Proof. unfold closed_q. destruct (aget cid (b_queues s)); reflexivity. Qed.
Lemma closed_q_cfg cid s : b_cfg (closed_q cid s) = b_cfg s.
Proof. unfold closed_q. destruct (aget cid (b_queues s)); reflexivity. Qed.
Lemma closed_q_now cid s : b_now (closed_q cid s) = b_now s.
Proof. unfold closed_q. destruct (aget cid (b_queues s)); reflexivity. Qed.
Lemma closed_q_online cid s : b_online (closed_q cid s) = b_online s.
Proof. unfold closed_q. destruct (aget cid (b_queues s)); reflexivity. Qed.
Lemma closed_q_offline cid s : b_offline (closed_q cid s) = b_offline s.
Proof. unfold closed_q. destruct (aget cid (b_queues s)); reflexivity. Qed.

Lemma conn_gone_att c k s :
  nget c (b_conns s) = Some k -> attached (k_phase k) = true ->
  conn_gone c s =
  (fst (unregister c (set_phase PhClosed k) (upd_conn c (set_phase PhClosed k) (closed_q (k_cid k) s))),
   OClose c :: snd (unregister c (set_phase PhClosed k) (upd_conn c (set_phase PhClosed k) (closed_q (k_cid k) s)))).
Proof.
  intros Hk Ha. unfold conn_gone, closed_q. rewrite Hk.
  destruct (k_phase k); try discriminate;
    match goal with |- context [unregister ?a ?b ?d] => destruct (unregister a b d) end; reflexivity.
Qed.

Lemma conn_gone_unatt c s :
  cv s c = None ->
  conn_gone c s = (s, []) \/
  exists k, nget c (b_conns s) = Some k /\ conn_gone c s = (upd_conn c (set_phase PhClosed k) s, [OClose c]).
Proof.
  unfold cv, cvk, conn_gone. destruct (nget c (b_conns s)) as [k|]; [|now left].
  destruct (k_phase k); cbn [attached]; try discriminate; intros _; try (now left); right; now exists k.
Qed.

Lemma conn_gone_inv_att c k s :
  nget c (b_conns s) = Some k -> attached (k_phase k) = true -> BInvG (Some (k_cid k)) s ->
  BInv (fst (conn_gone c s)).
Proof.
  intros Hk Ha HI. rewrite (conn_gone_att c k s Hk Ha). cbn [fst].
  apply (unregister_inv c (set_phase PhClosed k)).
  change (k_cid (set_phase PhClosed k)) with (k_cid k).
  apply BInvX_close; [|now rewrite closed_q_conns|exact Ha|reflexivity].
  eapply BInvG_frame; [apply closed_q_frame|exact HI].
Qed.

Lemma conn_gone_inv c s : BInv s -> BInv (fst (conn_gone c s)).
Proof.
  intros HI. destruct (cv s c) as [[cid f]|] eqn:Ec.
  - apply cv_some in Ec as (k & Hk & <- & Ha & _). eapply conn_gone_inv_att; eauto. now apply BInvG_weaken.
  - destruct (conn_gone_unatt c s Ec) as [->|(k & Hk & ->)]; [exact HI|]. cbn [fst].
    eapply BInvG_cframe; [|exact HI]. apply cframe_upd_conn. now rewrite Ec.
Qed.

(* ================================================================== *)
(* 7. CONNECT cut into stages                                          *)
(* ================================================================== *)

Definition hc_code (cn : connect) (s : st) : N :=
  if ((cn_ver cn =? 5) && match p_authmethod (cn_props cn) with Some _ => true | None => false end)
  then 128 else auth_code cn s.

(* the client id the connection is registered under *)
Definition hc_cid (cn : connect) (s : st) : str :=
  if is_empty (cn_cid cn) then AUTO_PREFIX ++ dec_str (b_auto s + 1) else cn_cid cn.
Definition hc_auto (cn : connect) (s : st) : st :=
  if is_empty (cn_cid cn) then set_auto (b_auto s + 1) s else s.

(* the Session Expiry Interval granted to a v5 client / the one stored for the session *)
Definition hc_sess_exp (cn : connect) (cf : cfg) : N :=
  if cn_ver cn =? 5 then match p_sei (cn_props cn) with
                         | None => 0
                         | Some i => if i <? c_session_expiry cf then i else c_session_expiry cf
                         end
  else c_session_expiry cf.
Definition hc_cmax (cn : connect) : N := if cn_ver cn =? 5 then opt_or (p_maxpkt (cn_props cn)) U32MAX else U32MAX.

Definition hc_takeover (cid : str) (s : st) : st * list out :=
  match aget cid (b_online s) with
  | Some oldc => conn_gone oldc s
  | None => (s, [])
  end.

Definition hc_resume0 (cid : str) (cn : connect) (s : st) : bool :=
  match aget cid (b_sessions s) with
  | Some se => negb (session_expired cid se s) && negb (cn_clean cn)
  | None => false
  end.

Definition hc_old (cid : str) (v5 : bool) (cmax : N) (resume0 : bool) (s : st) : st * list (str * msg) * bool :=
  match aget cid (b_sessions s) with
  | Some se =>
      if resume0 then
        match aget cid (b_queues s), aget cid (b_unacks s) with
        | Some q, Some u =>
            (set_tables (b_sessions s) (b_online s) (b_offline s) (adel cid (b_wills s))
                        (aset cid (q_init false v5 cmax q) (b_queues s)) (b_unacks s) s, [], true)
        | _, _ => (s, [], false)
        end
      else
        let s1 := remove_session cid s in
        match aget cid (b_wills s1) with
        | Some (w, _) =>
            let s2 := set_tables (b_sessions s1) (b_online s1) (b_offline s1) (adel cid (b_wills s1)) (b_queues s1) (b_unacks s1) s1 in
            (s2, [(cid, w)], false)
        | None => (s1, [], false)
        end
  | None => (s, [], false)
  end.

Definition hc_fresh (cid : str) (v5 : bool) (cmax : N) (cf : cfg) (resume : bool) (s : st) : st :=
  if resume then s
  else set_tables (b_sessions s) (b_online s) (b_offline s) (b_wills s)
                  (aset cid (q_init true v5 cmax (q_new (c_max_queued cf) (c_inflight_expiry cf * 1000))) (b_queues s))
                  (aset cid [] (b_unacks s)) s.

Definition hc_wd_exp (cn : connect) (cf : cfg) : N * N :=
  if negb (cn_ver cn =? 5) && negb (cn_clean cn) then (0, c_session_expiry cf)
  else if cn_ver cn =? 5 then (match cn_will cn with Some w => opt_or (p_willdelay (w_props w)) 0 | None => 0 end, hc_sess_exp cn cf)
  else (0, 0).

Definition hc_session (cn : connect) (wdelay expiry : N) (now : N) : session :=
  {| se_will := match cn_will cn with Some w => Some (will_msg w) | None => None end;
     se_will_delay := wdelay; se_connected_at := now; se_expiry := expiry |}.

Definition hc_ka (cn : connect) (cf : cfg) : N :=
  if cn_keepalive cn <? c_max_keepalive cf then cn_keepalive cn else c_max_keepalive cf.
Definition hc_max_inflight (cn : connect) (cf : cfg) : N :=
  if cn_ver cn =? 5 then
    match p_recvmax (cn_props cn) with
    | Some r => if r <? c_max_inflight cf then r else c_max_inflight cf
    | None => c_max_inflight cf
    end
  else c_max_inflight cf.
Definition hc_camax (cn : connect) : N := if cn_ver cn =? 5 then opt_or (p_aliasmax (cn_props cn)) 0 else 0.

Definition hc_conn (cid : str) (cn : connect) (cf : cfg) : conn :=
  {| k_cid := cid; k_v := cn_ver cn; k_phase := PhConnected; k_max_inflight := hc_max_inflight cn cf;
     k_client_max_packet := hc_cmax cn; k_client_alias_max := hc_camax cn; k_server_alias_max := c_alias_max cf;
     k_recv_max := c_recv_max cf; k_keepalive := if cn_ver cn =? 5 then hc_ka cn cf else cn_keepalive cn;
     k_session_expiry := hc_sess_exp cn cf;
     k_retain_avail := c_retain_avail cf; k_wildcard := c_wildcard cf; k_subid := c_subid cf;
     k_shared := c_shared cf;
     k_lim := lim_new (hc_max_inflight cn cf); k_held := None; k_alias_out := am_new (hc_camax cn); k_alias_in := [];
     k_alias_in_size := c_alias_max cf + 1;
     k_quota := c_recv_max cf; k_clean_will := false; k_disc_sei := None; k_got_disconnect := false;
     k_force_remove := false; k_drained := false |}.

Definition hc_register (c : N) (cid : str) (se : session) (k : conn) (s : st) : st :=
  set_tables (aset cid se (b_sessions s)) (aset cid c (b_online s)) (adel cid (b_offline s)) (b_wills s)
             (b_queues s) (b_unacks s) (upd_conn c k s).

Definition hc_props (cid : str) (cn : connect) (cf : cfg) : list prop :=
  if cn_ver cn =? 5 then
    [PSei (hc_sess_exp cn cf); PRecvMax (c_recv_max cf); PMaxQos (if 2 <=? c_max_qos cf then 1 else 0);
     PRetainAvail (if c_retain_avail cf then 1 else 0); PAliasMax (c_alias_max cf);
     PWildcard (if c_wildcard cf then 1 else 0); PSubIdAvail (if c_subid cf then 1 else 0);
     PSharedAvail (if c_shared cf then 1 else 0); PMaxPkt (c_max_packet cf); PKeepAlive (hc_ka cn cf)] ++
    (if is_empty (cn_cid cn) then [PAssigned cid] else [])
  else [].

Definition hc_wills (o_will : list (str * msg)) (s : st) : st * list out :=
  fold_left (fun acc cw => let '(s0, o0) := acc in
                           let '(s', o') := send_will (fst cw) (snd cw) s0 in (s', o0 ++ o'))
            o_will (s, []).

(* CONNECT is refused: empty client id not allowed / authentication *)
Definition hc_rejected (cn : connect) (s : st) : bool :=
  (negb (c_allow_zero_len (b_cfg s)) && is_empty (cn_cid cn)) || negb (hc_code cn s =? 0).

Definition hc_accept (c : N) (cn : connect) (s : st) : st * list out :=
  let cf := b_cfg s in
  let cid := hc_cid cn s in
  let '(s1, o_dup) := hc_takeover cid (hc_auto cn s) in
  let '(s2, o_will, resume) := hc_old cid (cn_ver cn =? 5) (hc_cmax cn) (hc_resume0 cid cn s1) s1 in
  let s3 := hc_fresh cid (cn_ver cn =? 5) (hc_cmax cn) cf resume s2 in
  let '(wdelay, expiry) := hc_wd_exp cn cf in
  let s4 := hc_register c cid (hc_session cn wdelay expiry (b_now s3)) (hc_conn cid cn cf) s3 in
  let '(s5, o_w) := hc_wills o_will s4 in
  (s5, o_dup ++ [OSend c (KConnack resume 0 (hc_props cid cn cf))] ++ o_w).

Lemma handle_connect_eq c cn s :
  handle_connect c cn s =
  if negb (c_allow_zero_len (b_cfg s)) && is_empty (cn_cid cn) then
    (upd_conn c (set_phase PhDead (fresh_conn [] 0)) s, [OSend c (KConnack false 133 [])])
  else if negb (hc_code cn s =? 0) then
    (upd_conn c (set_phase PhDead (fresh_conn (cn_cid cn) (cn_ver cn))) s,
     [OSend c (KConnack false (if negb (cn_ver cn =? 5) && (5 <? hc_code cn s) then 135 else hc_code cn s) [])])
  else hc_accept c cn s.
Proof. reflexivity. Qed.

Lemma unreg_res_conns cid k sess cf s1 s' : unreg_res cid k sess cf s1 s' -> b_conns s' = b_conns s1.
Proof. intros [H ->|se Hs Hf He ->]; reflexivity. Qed.
Lemma unreg_res_online cid k sess cf s1 s' : unreg_res cid k sess cf s1 s' -> b_online s' = adel cid (b_online s1).
Proof. intros [H ->|se Hs Hf He ->]; reflexivity. Qed.
Lemma unreg_res_cfg cid k sess cf s1 s' : unreg_res cid k sess cf s1 s' -> b_cfg s' = b_cfg s1.
Proof. intros [H ->|se Hs Hf He ->]; reflexivity. Qed.
Lemma unreg_res_now cid k sess cf s1 s' : unreg_res cid k sess cf s1 s' -> b_now s' = b_now s1.
Proof. intros [H ->|se Hs Hf He ->]; reflexivity. Qed.
Lemma unreg_res_hooks cid k sess cf s1 s' : unreg_res cid k sess cf s1 s' -> b_hooks s' = b_hooks s1.
Proof. intros [H ->|se Hs Hf He ->]; reflexivity. Qed.

(* conn_gone on an attached socket, summarised *)
Lemma conn_gone_att_spec c k s :
  nget c (b_conns s) = Some k -> attached (k_phase k) = true ->
  exists s1 o',
    conn_gone c s = (fst (conn_gone c s), OClose c :: o') /\ Forall isdrop o' /\
    frame (upd_conn c (set_phase PhClosed k) s) s1 /\
    unreg_res (k_cid k) (set_phase PhClosed k) (b_sessions s) (b_cfg s) s1 (fst (conn_gone c s)).
Proof.
  intros Hk Ha. rewrite (conn_gone_att c k s Hk Ha). cbn [fst].
  set (s0 := upd_conn c (set_phase PhClosed k) (closed_q (k_cid k) s)).
  destruct (unregister_spec c (set_phase PhClosed k) s0) as (s1 & F & D & R).
  exists s1, (snd (unregister c (set_phase PhClosed k) s0)). split; [reflexivity|]. split; [exact D|]. split.
  - eapply frame_trans; [|exact F]. unfold s0.
    replace (upd_conn c (set_phase PhClosed k) (closed_q (k_cid k) s))
      with (closed_q (k_cid k) (upd_conn c (set_phase PhClosed k) s)); [apply closed_q_frame|].
    unfold closed_q. proj. destruct (aget (k_cid k) (b_queues s)); reflexivity.
  - unfold s0 in R. proj_in R. rewrite closed_q_sessions, closed_q_cfg in R. exact R.
Qed.

Lemma conn_gone_frame_unatt c s : cv s c = None -> cframe s (fst (conn_gone c s)) /\ b_cfg (fst (conn_gone c s)) = b_cfg s /\ b_now (fst (conn_gone c s)) = b_now s.
Proof.
  intros Ec. destruct (conn_gone_unatt c s Ec) as [->|(k & Hk & ->)]; cbn [fst].
  - split; [apply frame_cframe, frame_refl|auto].
  - split; [|auto]. apply cframe_upd_conn. now rewrite Ec.
Qed.

Lemma hc_cid_ne cn s : hc_cid cn s <> [].
Proof.
  unfold hc_cid. destruct (is_empty (cn_cid cn)) eqn:E; [discriminate|]. now apply is_empty_false.
Qed.

Lemma hc_auto_frame cn s : wframe s (hc_auto cn s).
Proof. unfold hc_auto. destruct (is_empty (cn_cid cn)); [apply wframe_set_auto|apply wframe_refl]. Qed.

(* the take-over of an online duplicate *)
Lemma hc_takeover_spec cid c s :
  BInv s -> cv s c = None ->
  BInv (fst (hc_takeover cid s)) /\ ahas cid (b_online (fst (hc_takeover cid s))) = false /\
  cv (fst (hc_takeover cid s)) c = None /\
  b_cfg (fst (hc_takeover cid s)) = b_cfg s /\ b_now (fst (hc_takeover cid s)) = b_now s /\
  b_hooks (fst (hc_takeover cid s)) = b_hooks s.
Proof.
  intros HI Hc. unfold hc_takeover. destruct (aget cid (b_online s)) as [oldc|] eqn:Eo.
  - destruct (bi_on _ _ HI cid oldc Eo) as [f Hf]; [discriminate|].
    apply cv_some in Hf as (k & Hk & Hcid & Ha & _).
    split; [now apply conn_gone_inv|].
    destruct (conn_gone_att_spec oldc k s Hk Ha) as (s1 & o' & _ & _ & F & R).
    rewrite (unreg_res_online _ _ _ _ _ _ R), (unreg_res_cfg _ _ _ _ _ _ R), (unreg_res_now _ _ _ _ _ _ R),
      (unreg_res_hooks _ _ _ _ _ _ R).
    rewrite (fr_cfg _ _ F), (fr_now _ _ F), (fr_hooks _ _ F), (fr_on _ _ F). proj.
    split; [|split; [|auto]].
    + rewrite Hcid. rewrite ahas_adel by apply (bi_nd_on _ _ HI). now rewrite str_eqb_refl.
    + unfold cv. rewrite (unreg_res_conns _ _ _ _ _ _ R). fold (cv s1 c).
      rewrite (cf_cv _ _ (frame_cframe _ _ F)), cv_upd_conn.
      destruct (c =? oldc); [reflexivity|exact Hc].
  - cbn [fst]. split; [exact HI|]. split; [now apply ahas_none|auto].
Qed.

Lemma cv_remove_session cid s c : cv (remove_session cid s) c = cv s c.
Proof. reflexivity. Qed.

Ltac fin := cbn [fst snd]; repeat match goal with |- _ /\ _ => split end; auto;
            try (intros; discriminate); try congruence.

Lemma hc_old_spec cid v5 cmax r0 c s :
  BInv s -> ahas cid (b_online s) = false -> cv s c = None ->
  let s2 := fst (fst (hc_old cid v5 cmax r0 s)) in
  BInv s2 /\ ahas cid (b_online s2) = false /\ cv s2 c = None /\
  b_cfg s2 = b_cfg s /\ b_now s2 = b_now s /\ b_hooks s2 = b_hooks s /\
  (snd (hc_old cid v5 cmax r0 s) = true -> ahas cid (b_queues s2) = true /\ ahas cid (b_unacks s2) = true).
Proof.
  intros HI Hon Hc. unfold hc_old. destruct (aget cid (b_sessions s)) as [se|] eqn:Es.
  - destruct r0.
    + destruct (aget cid (b_queues s)) as [q|] eqn:Eq; [|fin].
      destruct (aget cid (b_unacks s)) as [u|] eqn:Eu; [|fin].
      cbn [fst snd]. split; [|proj; fin; intros _; split].
      * eapply BInvG_frame; [|exact HI]. apply frame_set_tables; auto using kext_aset.
        apply NoDup_adel.
      * rewrite ahas_aset, str_eqb_refl. reflexivity.
      * eapply ahas_some; eauto.
    + cbv zeta.
      assert (HR : BInv (remove_session cid s)) by (apply BInvX_remove; now apply BInvX_of_offline).
      assert (Hon' : ahas cid (b_online (remove_session cid s)) = false).
      { proj. rewrite ahas_adel by apply (bi_nd_on _ _ HI). now rewrite str_eqb_refl. }
      destruct (aget cid (b_wills (remove_session cid s))) as [[w t]|]; cbn [fst snd].
      * split; [eapply BInvG_frame; [apply frame_wills_adel|exact HR]|]. fin.
      * fin.
  - fin.
Qed.

Lemma hc_fresh_frame cid v5 cmax cf resume s : wframe s (hc_fresh cid v5 cmax cf resume s).
Proof.
  unfold hc_fresh. destruct resume; [apply wframe_refl|].
  constructor; proj; auto using ksame_refl, kext_aset.
Qed.

Lemma hc_fresh_has cid v5 cmax cf resume s :
  (resume = true -> ahas cid (b_queues s) = true /\ ahas cid (b_unacks s) = true) ->
  ahas cid (b_queues (hc_fresh cid v5 cmax cf resume s)) = true /\
  ahas cid (b_unacks (hc_fresh cid v5 cmax cf resume s)) = true.
Proof.
  unfold hc_fresh. destruct resume; [auto|]. intros _. proj. now rewrite !ahas_aset, str_eqb_refl.
Qed.

Lemma hc_wills_quiet o_will s :
  frame s (fst (hc_wills o_will s)) /\ Forall isdrop (snd (hc_wills o_will s)).
Proof.
  unfold hc_wills.
  match goal with |- context [fold_left ?f ?l (s, [])] =>
    cut (forall s0 o0 x, quiet s0 o0 (f (s0, o0) x));
    [intros Hb; destruct (fold_quiet f l Hb s []) as [H1 H2]; split; [exact H1|apply H2; constructor]|] end.
  intros s0 o0 cw. cbv beta iota. apply quiet_app; apply send_will_quiet.
Qed.

Lemma hc_accept_inv c cn s : BInv s -> cv s c = None -> BInv (fst (hc_accept c cn s)).
Proof.
  intros HI Hc. unfold hc_accept. cbv zeta. set (cid := hc_cid cn s).
  assert (HI0 : BInv (hc_auto cn s)) by (eapply BInvG_cframe; [apply wframe_cframe, hc_auto_frame|exact HI]).
  assert (Hc0 : cv (hc_auto cn s) c = None)
    by (rewrite (cf_cv _ _ (wframe_cframe _ _ (hc_auto_frame cn s))); exact Hc).
  destruct (hc_takeover_spec cid c (hc_auto cn s) HI0 Hc0) as (HI1 & Hon1 & Hc1 & _).
  destruct (hc_takeover cid (hc_auto cn s)) as [s1 o_dup]. cbn [fst] in *.
  destruct (hc_old_spec cid (cn_ver cn =? 5) (hc_cmax cn) (hc_resume0 cid cn s1) c s1 HI1 Hon1 Hc1)
    as (HI2 & Hon2 & Hc2 & _ & _ & _ & Hq2).
  destruct (hc_old cid (cn_ver cn =? 5) (hc_cmax cn) (hc_resume0 cid cn s1) s1) as [[s2 o_will] resume].
  cbn [fst snd] in *.
  set (s3 := hc_fresh cid (cn_ver cn =? 5) (hc_cmax cn) (b_cfg s) resume s2).
  pose proof (hc_fresh_frame cid (cn_ver cn =? 5) (hc_cmax cn) (b_cfg s) resume s2) as F3. fold s3 in F3.
  destruct (hc_fresh_has cid (cn_ver cn =? 5) (hc_cmax cn) (b_cfg s) resume s2 Hq2) as [Hq3 Hu3]. fold s3 in Hq3, Hu3.
  destruct (hc_wd_exp cn (b_cfg s)) as [wd ex].
  match goal with |- context [hc_wills o_will ?S] =>
    pose proof (hc_wills_quiet o_will S) as [F5 _]; set (s4 := S) in *; destruct (hc_wills o_will s4) as [s5 o_w] end.
  cbn [fst] in *. eapply BInvG_frame; [exact F5|]. unfold s4, hc_register.
  apply BInvX_connect; auto.
  - apply BInvX_of_offline; [eapply BInvG_cframe; [apply wframe_cframe|]; eauto|]. now rewrite (wf_on _ _ F3).
  - now rewrite (cf_cv _ _ (wframe_cframe _ _ F3)).
  - apply hc_cid_ne.
Qed.

Lemma handle_connect_inv c cn s : BInv s -> cv s c = None -> BInv (fst (handle_connect c cn s)).
Proof.
  intros HI Hc. rewrite handle_connect_eq.
  destruct (negb (c_allow_zero_len (b_cfg s)) && is_empty (cn_cid cn)).
  - cbn [fst]. eapply BInvG_cframe; [|exact HI]. apply cframe_upd_conn. now rewrite Hc.
  - destruct (negb (hc_code cn s =? 0)).
    + cbn [fst]. eapply BInvG_cframe; [|exact HI]. apply cframe_upd_conn. now rewrite Hc.
    + now apply hc_accept_inv.
Qed.

(* ================================================================== *)
(* 8. every event preserves the invariant                              *)
(* ================================================================== *)

Definition close_view (v : str * phase * bool) : str * phase * bool := (fst (fst v), PhClosed, snd v).

Lemma conn_gone_pv c s c' :
  pv (fst (conn_gone c s)) c' = if c' =? c then option_map close_view (pv s c) else pv s c'.
Proof.
  destruct (nget c (b_conns s)) as [k|] eqn:Hk.
  - destruct (attached (k_phase k)) eqn:Ha.
    + destruct (conn_gone_att_spec c k s Hk Ha) as (s1 & o' & _ & _ & F & R).
      unfold pv at 1. rewrite (unreg_res_conns _ _ _ _ _ _ R). fold (pv s1 c').
      rewrite (pv_frame _ _ c' F), pv_upd_conn. destruct (c' =? c); [|reflexivity].
      rewrite (pv_of _ _ _ Hk). reflexivity.
    + unfold conn_gone. rewrite Hk. destruct (k_phase k) eqn:Ep; try discriminate; cbn [fst];
        rewrite ?pv_upd_conn; destruct (N.eqb_spec c' c) as [->|E]; try reflexivity;
        rewrite (pv_of _ _ _ Hk); unfold kview; cbn [option_map close_view fst snd set_phase k_cid k_phase k_force_remove];
        rewrite ?Ep; reflexivity.
  - unfold conn_gone. rewrite Hk. cbn [fst]. destruct (N.eqb_spec c' c) as [->|E]; [|reflexivity].
    unfold pv. rewrite Hk. reflexivity.
Qed.

Lemma cv_of_pv s c :
  cv s c = match pv s c with Some (cid, ph, f) => if attached ph then Some (cid, f) else None | None => None end.
Proof. unfold cv, pv, cvk. destruct (nget c (b_conns s)); reflexivity. Qed.

Lemma conn_gone_cv_self c s : cv (fst (conn_gone c s)) c = None.
Proof.
  rewrite cv_of_pv, conn_gone_pv, N.eqb_refl. destruct (pv s c) as [[[cid ph] f]|]; reflexivity.
Qed.

Lemma conn_gone_cv_other c s c' : c' <> c -> cv (fst (conn_gone c s)) c' = cv s c'.
Proof.
  intros H. rewrite !cv_of_pv, conn_gone_pv. apply N.eqb_neq in H. now rewrite H.
Qed.

Lemma fail_conn_inv c code br s : BInv s -> BInv (fst (fail_conn c code br s)).
Proof.
  intros HI. unfold fail_conn. destruct (nget c (b_conns s)) as [k|] eqn:Hk; [|exact HI].
  destruct (k_phase k) eqn:Ep; try exact HI.
  match goal with |- context [if ?b then _ else _] => destruct b end.
  - pose proof (conn_gone_inv c s HI) as H. destruct (conn_gone c s) as [s' o]. exact H.
  - cbn [fst]. eapply BInvG_cframe; [|exact HI]. apply cframe_upd_conn.
    unfold cv, cvk. rewrite Hk. cbn [set_phase k_phase k_cid k_force_remove]. now rewrite Ep.
Qed.

Lemma cframe_set_time now rt s : cframe s (set_time now rt s).
Proof. constructor; proj; auto using ksame_refl, kext_refl. Qed.

Lemma fold_inv {A} (P : st -> Prop) (f : st * list out -> A -> st * list out) (l : list A) :
  (forall s0 o0 x, P s0 -> P (fst (f (s0, o0) x))) ->
  forall s0 o0, P s0 -> P (fst (fold_left f l (s0, o0))).
Proof.
  intros Hf. induction l as [|x r IH]; intros s0 o0 H0; cbn [fold_left]; [exact H0|].
  pose proof (Hf s0 o0 x H0) as H1. destruct (f (s0, o0) x) as [s1 o1]. now apply IH.
Qed.

Lemma BInv_remove_offline cid s : BInv s -> ahas cid (b_online s) = false -> BInv (remove_session cid s).
Proof. intros HI H. apply BInvX_remove. now apply BInvX_of_offline. Qed.

Lemma expire_inv s : BInv s ->
  BInv (fold_left (fun s0 cd => remove_session (fst cd) s0) (filter (fun cd => snd cd <? b_now s) (b_offline s)) s).
Proof.
  intros HI.
  assert (G : forall (l : list (str * N)) s0, (forall cd, In cd l -> ahas (fst cd) (b_online s0) = false) -> BInv s0 ->
              BInv (fold_left (fun s0 cd => remove_session (fst cd) s0) l s0)).
  { induction l as [|cd r IH]; intros s0 Hl H0; cbn [fold_left]; [exact H0|]. apply IH.
    - intros cd' Hin. proj. rewrite ahas_adel by apply (bi_nd_on _ _ H0). rewrite (Hl cd') by now right.
      apply andb_false_r.
    - apply BInv_remove_offline; [exact H0|]. apply Hl. now left. }
  apply G; [|exact HI]. intros [cid dl] Hin. apply filter_In in Hin as [Hin _]. cbn [fst].
  destruct (ahas cid (b_online s)) eqn:E; [|reflexivity].
  apply (bi_disj _ _ HI) in E. assert (ahas cid (b_offline s) = true); [|congruence].
  apply ahas_in_keys. apply in_map_iff. now exists (cid, dl).
Qed.

Lemma BInvG_set_force c k s :
  BInv s -> nget c (b_conns s) = Some k -> attached (k_phase k) = true ->
  BInvG (Some (k_cid k)) (upd_conn c (set_force k) s).
Proof.
  intros HI Hk Ha.
      pose proof (BInvG_weaken (Some (k_cid k)) s HI) as [].
      constructor; proj; auto using NoDup_nset.
      * intros cid' c' H1 H2. destruct (bi_on0 cid' c' H1 H2) as [f' Hf']. exists f'. rewrite cv_upd_conn.
        destruct (N.eqb_spec c' c) as [->|E]; [|exact Hf'].
        unfold cv in Hf'. rewrite Hk in Hf'. unfold cvk in Hf'. rewrite Ha in Hf'. congruence.
      * intros c' cid' f'. rewrite cv_upd_conn. destruct (N.eqb_spec c' c) as [->|E]; [|apply bi_conn0].
        unfold cvk. cbn [set_force k_phase k_cid k_force_remove]. rewrite Ha. intros [= <- <-].
        apply (bi_conn0 c (k_cid k) (k_force_remove k)). unfold cv, cvk. now rewrite Hk, Ha.
      * intros c' cid' f'. rewrite cv_upd_conn. destruct (N.eqb_spec c' c) as [->|E]; [|apply bi_force0].
        unfold cvk. cbn [set_force k_phase k_cid k_force_remove]. rewrite Ha. intros [= <- <-] H. congruence.
Qed.

Lemma send_unconnected_inv c k p s :
  BInv s -> nget c (b_conns s) = Some k -> k_phase k <> PhConnected -> BInv (fst (send_unconnected c k p s)).
Proof.
  intros HI Hk Hn. unfold send_unconnected. destruct (k_phase k) eqn:Ep; try exact HI; try congruence.
  - cbn [fst]. eapply BInvG_cframe; [|exact HI]. apply cframe_upd_conn.
    unfold cv, cvk. rewrite Hk, Ep. reflexivity.
  - destruct p; try exact HI.
    destruct ((k_v k =? 5) && (0 <? qos)); [|exact HI].
    destruct (k_quota k =? 0); [now apply conn_gone_inv|].
    cbn [fst]. eapply BInvG_frame; [|exact HI]. eapply frame_upd_conn_k; [exact Hk|reflexivity].
  - destruct p; try exact HI.
    destruct ((k_v k =? 5) && (0 <? qos)); [|exact HI]. now apply conn_gone_inv.
Qed.

Lemma step_event_inv s e : BInv s -> BInv (fst (step_event s e)).
Proof.
  intros HI.
  assert (HSend : forall c p, BInv (fst (step_event s (ESend c p)))).
  { intros c p. cbn [step_event].
    destruct (nget c (b_conns s)) as [k|] eqn:Hk; [|exact HI].
    destruct (k_phase k) eqn:Ep; try (apply send_unconnected_inv; [exact HI|exact Hk|congruence]).
    destruct (handle_packet_frame c k p s Hk) as [F _].
    destruct (handle_packet c k p s) as [s' o|s' o code|s' code]; cbn [hres_st] in F.
    * cbn [fst]. eapply BInvG_cframe; [apply wframe_cframe|]; eauto.
    * pose proof (fail_conn_inv c code false s' (BInvG_cframe _ _ _ (wframe_cframe _ _ F) HI)) as H.
      destruct (fail_conn c code false s') as [s'' o']. exact H.
    * apply fail_conn_inv. eapply BInvG_cframe; [apply wframe_cframe|]; eauto. }
  destruct e as [c cn|c|c p|c p n|c|m|cid|ms| |ms|]; cbn [step_event].
  - (* EConnect *)
    pose proof (conn_gone_inv c s HI) as H0. pose proof (conn_gone_cv_self c s) as Hc.
    destruct (conn_gone c s) as [s0 o0]. cbn [fst] in *.
    pose proof (handle_connect_inv c cn s0 H0 Hc) as H1. destruct (handle_connect c cn s0) as [s1 o1]. exact H1.
  - (* EOpen *)
    pose proof (conn_gone_inv c s HI) as H0. pose proof (conn_gone_cv_self c s) as Hc.
    destruct (conn_gone c s) as [s0 o0]. cbn [fst] in *.
    eapply BInvG_cframe; [|exact H0]. apply cframe_upd_conn. now rewrite Hc.
  - (* ESend *)
    apply (HSend c p).
  - (* ESendSz *)
    fold (step_event s (ESendSz c p n)).
    destruct (step_event_sz s c p n) as [E|(k & Hk & Hp & _ & [[code E]|[E|[q E]]])]; rewrite E.
    + apply HSend.
    + now apply fail_conn_inv.
    + now apply fail_conn_inv.
    + apply fail_conn_inv. eapply BInvG_frame; [|exact HI]. eapply frame_upd_conn_k; [exact Hk|reflexivity].
  - (* EClose *)
    pose proof (conn_gone_inv c s HI) as H0. destruct (conn_gone c s) as [s0 o0]. exact H0.
  - (* EApiPublish *)
    destruct (deliver_quiet [] m s) as [F _]. destruct (deliver [] m s) as [[s' o] b]. cbn [fst] in *.
    eapply BInvG_frame; eauto.
  - (* ETerminate *)
    destruct (aget cid (b_online s)) as [c|] eqn:Eo.
    + destruct (nget c (b_conns s)) as [k|] eqn:Hk; [|exact HI].
      destruct (bi_on _ _ HI cid c Eo) as [f Hf]; [discriminate|].
      apply cv_some in Hf as (k0 & Hk0 & Hcid & Ha & _). rewrite Hk in Hk0. injection Hk0 as <-.
      apply (conn_gone_inv_att c (set_force k)); [proj; apply nget_nset_same|exact Ha|].
      change (k_cid (set_force k)) with (k_cid k). now apply BInvG_set_force.
    + destruct (ahas cid (b_offline s)); [|exact HI].
      destruct (release_will_quiet cid (remove_session cid s)) as [F _].
      eapply BInvG_frame; [exact F|]. apply BInv_remove_offline; [exact HI|now apply ahas_none].
  - (* EAdvance *)
    cbn [fst]. eapply BInvG_cframe; [apply cframe_set_time|exact HI].
  - (* EExpireCheck *)
    apply (fold_inv BInv); [|now apply expire_inv].
    intros s0 o0 cd H0. destruct (release_will_quiet (fst cd) s0) as [F _].
    destruct (release_will (fst cd) s0) as [s' o']. cbn [fst] in *. eapply BInvG_frame; eauto.
  - (* ESleep *)
    set (s0 := set_time (b_now s + ms) (b_rt s + ms) s).
    assert (H0 : BInv s0) by (eapply BInvG_cframe; [apply cframe_set_time|exact HI]).
    match goal with |- context [fold_left ?f (b_conns s0) (s0, [])] =>
      pose proof (fold_inv BInv f (b_conns s0)) as HF; destruct (fold_left f (b_conns s0) (s0, [])) as [s1 o1] eqn:E1 end.
    assert (H1 : BInv s1).
    { specialize (fun H => HF H s0 [] H0). rewrite E1 in HF. apply HF.
      intros sa oa ck Ha. destruct (k_phase (snd ck)); try exact Ha;
        (match goal with |- context [if ?b then _ else _] => destruct b end; [|exact Ha]);
        pose proof (conn_gone_inv (fst ck) sa Ha) as Hg; destruct (conn_gone (fst ck) sa) as [sb ob]; exact Hg. }
    destruct (fire_wills_quiet s1) as [F _]. destruct (fire_wills s1) as [s2 o2]. cbn [fst] in *.
    eapply BInvG_frame; eauto.
  - exact HI.
Qed.

Lemma step_frame_poll s e : frame (fst (step_event s e)) (fst (step s e)).
Proof.
  unfold step. destruct (step_event s e) as [s1 o1]. destruct (poll_all_frame s1) as [F _].
  destruct (poll_all s1) as [s2 o2]. exact F.
Qed.

Theorem step_inv s e : BInv s -> BInv (fst (step s e)).
Proof. intros HI. eapply BInvG_frame; [apply step_frame_poll|]. now apply step_event_inv. Qed.

Theorem run_inv es : forall s, BInv s -> BInv (fst (run s es)).
Proof.
  induction es as [|e r IH]; intros s HI; cbn [run]; [exact HI|].
  pose proof (step_inv s e HI) as H1. destruct (step s e) as [s' o]. cbn [fst] in H1.
  specialize (IH s' H1). destruct (run s' r) as [s'' os]. exact IH.
Qed.

Theorem reachable_inv c h p es : BInv (fst (run (st_init c h p) es)).
Proof. apply run_inv, BInv_init. Qed.

(* ================================================================== *)
(* 9. C05: one connection per client id                                *)
(* ================================================================== *)

Theorem one_connection s c1 c2 k1 k2 :
  BInv s -> nget c1 (b_conns s) = Some k1 -> nget c2 (b_conns s) = Some k2 ->
  attached (k_phase k1) = true -> attached (k_phase k2) = true -> k_cid k1 = k_cid k2 -> c1 = c2.
Proof.
  intros HI H1 H2 A1 A2 E.
  assert (V1 : cv s c1 = Some (k_cid k1, k_force_remove k1)) by (apply cv_some; now exists k1).
  assert (V2 : cv s c2 = Some (k_cid k2, k_force_remove k2)) by (apply cv_some; now exists k2).
  apply (bi_conn _ _ HI) in V1, V2. congruence.
Qed.

(* the readable form of the invariant *)
Lemma BInv_online_attached s cid c :
  BInv s -> aget cid (b_online s) = Some c ->
  exists k, nget c (b_conns s) = Some k /\ k_cid k = cid /\ attached (k_phase k) = true /\ k_force_remove k = false.
Proof.
  intros HI H. destruct (bi_on _ _ HI cid c H) as [f Hf]; [discriminate|].
  pose proof (bi_force _ _ HI c cid f Hf) as E. rewrite E in Hf by discriminate. now apply cv_some in Hf.
Qed.

Lemma BInv_attached_online s c k :
  BInv s -> nget c (b_conns s) = Some k -> attached (k_phase k) = true -> aget (k_cid k) (b_online s) = Some c.
Proof.
  intros HI Hk Ha. apply (bi_conn _ _ HI c (k_cid k) (k_force_remove k)). apply cv_some. now exists k.
Qed.

(* ================================================================== *)
(* 10. C05: who is sent anything                                       *)
(* ================================================================== *)

Definition nosend (x : out) : Prop := match x with OSend _ _ => False | _ => True end.
Definition sendto (c : N) (x : out) : Prop := match x with OSend c' _ => c' = c | _ => True end.

Lemma isdrop_nosend o : Forall isdrop o -> Forall nosend o.
Proof. apply Forall_impl. intros [c' p|c'|cid m r]; cbn; auto. Qed.
Lemma nosend_sendto c o : Forall nosend o -> Forall (sendto c) o.
Proof. apply Forall_impl. intros [c' p|c'|cid m r]; cbn; auto. intros []. Qed.
Lemma okout_sendto c o : Forall (okout c) o -> Forall (sendto c) o.
Proof. apply Forall_impl. intros [c' p|c'|cid m r]; cbn; auto. Qed.
Lemma nosend_not_in o c p : Forall nosend o -> ~ In (OSend c p) o.
Proof. intros H Hin. rewrite Forall_forall in H. apply (H _ Hin). Qed.
Lemma sendto_in o c c' p : Forall (sendto c) o -> In (OSend c' p) o -> c' = c.
Proof. intros H Hin. rewrite Forall_forall in H. apply (H _ Hin). Qed.

Lemma conn_gone_nosend c s : Forall nosend (snd (conn_gone c s)).
Proof.
  destruct (cv s c) as [[cid f]|] eqn:Ec.
  - apply cv_some in Ec as (k & Hk & _ & Ha & _).
    destruct (conn_gone_att_spec c k s Hk Ha) as (s1 & o' & E & D & _). rewrite E. cbn [snd].
    constructor; [exact I|now apply isdrop_nosend].
  - destruct (conn_gone_unatt c s Ec) as [->|(k & Hk & ->)]; cbn [snd]; repeat constructor.
Qed.

Lemma fail_conn_sends c code br s :
  Forall (sendto c) (snd (fail_conn c code br s)) /\
  (forall c' p, In (OSend c' p) (snd (fail_conn c code br s)) ->
                exists k, nget c (b_conns s) = Some k /\ k_phase k = PhConnected).
Proof.
  unfold fail_conn. destruct (nget c (b_conns s)) as [k|] eqn:Hk; [|split; [constructor|intros c' p []]].
  destruct (k_phase k) eqn:Ep; try (split; [constructor|intros c' p []]).
  split; [|intros c' p _; now exists k].
  match goal with |- context [if ?b then _ else _] => destruct b end; [|constructor].
  pose proof (conn_gone_nosend c s) as H. destruct (conn_gone c s) as [s' o]. cbn [snd] in *.
  apply Forall_app. split; [|now apply nosend_sendto].
  destruct code as [cd|]; [|constructor]. destruct (k_v k =? 5); repeat constructor.
Qed.

Lemma hc_takeover_nosend cid s : Forall nosend (snd (hc_takeover cid s)).
Proof. unfold hc_takeover. destruct (aget cid (b_online s)); [apply conn_gone_nosend|constructor]. Qed.

Lemma handle_connect_sendto c cn s : Forall (sendto c) (snd (handle_connect c cn s)).
Proof.
  rewrite handle_connect_eq. destruct (negb (c_allow_zero_len (b_cfg s)) && is_empty (cn_cid cn)); [repeat constructor|].
  destruct (negb (hc_code cn s =? 0)); [repeat constructor|].
  unfold hc_accept. cbv zeta.
  pose proof (hc_takeover_nosend (hc_cid cn s) (hc_auto cn s)) as H1.
  destruct (hc_takeover (hc_cid cn s) (hc_auto cn s)) as [s1 o_dup].
  destruct (hc_old _ _ _ _ s1) as [[s2 o_will] resume]. destruct (hc_wd_exp cn (b_cfg s)) as [wd ex].
  match goal with |- context [hc_wills o_will ?S] =>
    pose proof (hc_wills_quiet o_will S) as [_ H5]; destruct (hc_wills o_will S) as [s5 o_w] end.
  cbn [snd] in *. apply Forall_app. split; [now apply nosend_sendto|].
  constructor; [reflexivity|]. now apply nosend_sendto, isdrop_nosend.
Qed.

Lemma fold_out {A} (P : out -> Prop) (f : st * list out -> A -> st * list out) (l : list A) :
  (forall s0 o0 x, Forall P o0 -> Forall P (snd (f (s0, o0) x))) ->
  forall s0 o0, Forall P o0 -> Forall P (snd (fold_left f l (s0, o0))).
Proof.
  intros Hf. induction l as [|x r IH]; intros s0 o0 H0; cbn [fold_left]; [exact H0|].
  pose proof (Hf s0 o0 x H0) as H1. destruct (f (s0, o0) x) as [s1 o1]. now apply IH.
Qed.

(* the packets written while an event is handled (before the poll loops run) *)
Lemma step_event_sends s e c' p :
  In (OSend c' p) (snd (step_event s e)) ->
  match e with
  | EConnect c _ => c' = c
  | ESend c _ | ESendSz c _ _ =>
      c' = c /\ exists k, nget c (b_conns s) = Some k /\ (k_phase k = PhConnected \/ k_phase k = PhFresh)
  | _ => False
  end.
Proof.
  assert (HSend : forall c pk, In (OSend c' p) (snd (step_event s (ESend c pk))) ->
            c' = c /\ exists k, nget c (b_conns s) = Some k /\ (k_phase k = PhConnected \/ k_phase k = PhFresh)).
  { intros c pk. cbn [step_event].
    destruct (nget c (b_conns s)) as [k|] eqn:Hk; [|intros []].
    destruct (k_phase k) eqn:Ep; unfold send_unconnected; rewrite ?Ep; [| | | |intros []].
    + cbn [snd]. intros [H|[]]. injection H as <- _. split; [reflexivity|]. exists k. auto.
    + intros Hin. assert (c' = c); [|split; [assumption|exists k; auto]].
      destruct (handle_packet_frame c k pk s Hk) as [_ Ho].
      destruct (handle_packet c k pk s) as [s' o|s' o code|s' code]; cbn [hres_out snd] in *.
      * eapply sendto_in; [apply okout_sendto|]; eauto.
      * destruct (fail_conn_sends c code false s') as [Hf _]. destruct (fail_conn c code false s') as [s'' o'].
        cbn [snd] in *. apply in_app_or in Hin as [Hin|Hin];
          [eapply sendto_in; [apply okout_sendto; exact Ho|exact Hin]|eapply sendto_in; [exact Hf|exact Hin]].
      * destruct (fail_conn_sends c code true s') as [Hf _]. eapply sendto_in; eauto.
    + intros Hin. exfalso. destruct pk; try destruct Hin.
      destruct ((k_v k =? 5) && (0 <? qos)); [|destruct Hin].
      destruct (k_quota k =? 0); [|destruct Hin]. now apply (nosend_not_in _ _ _ (conn_gone_nosend c s)) in Hin.
    + intros Hin. exfalso. destruct pk; try destruct Hin.
      destruct ((k_v k =? 5) && (0 <? qos)); [|destruct Hin].
      now apply (nosend_not_in _ _ _ (conn_gone_nosend c s)) in Hin. }
  destruct e as [c cn|c|c pk|c pk n|c|m|cid|ms| |ms|]; [| |apply HSend| |..]; cbn [step_event].
  - pose proof (conn_gone_nosend c s) as H0. destruct (conn_gone c s) as [s0 o0].
    pose proof (handle_connect_sendto c cn s0) as H1. destruct (handle_connect c cn s0) as [s1 o1]. cbn [snd] in *.
    intros Hin. apply in_app_or in Hin as [Hin|Hin].
    + apply filter_In in Hin as [Hin _]. now apply nosend_not_in in Hin.
    + eapply sendto_in; eauto.
  - pose proof (conn_gone_nosend c s) as H0. destruct (conn_gone c s) as [s0 o0]. cbn [snd] in *.
    now apply nosend_not_in.
  - (* ESendSz *)
    fold (step_event s (ESendSz c pk n)).
    destruct (step_event_sz s c pk n) as [E|(k & Hk & Hp & _ & [[code E]|[E|[q E]]])]; rewrite E; [apply HSend| | |];
      intros Hin; (assert (c' = c); [|split; [assumption|exists k; auto]]).
    + destruct (fail_conn_sends c code true s) as [Hf _]. eapply sendto_in; eauto.
    + destruct (fail_conn_sends c (Some 149) false s) as [Hf _]. eapply sendto_in; eauto.
    + destruct (fail_conn_sends c (Some 149) false (upd_conn c (set_quota q k) s)) as [Hf _]. eapply sendto_in; eauto.
  - pose proof (conn_gone_nosend c s) as H0. destruct (conn_gone c s) as [s0 o0]. cbn [snd] in *.
    intros Hin. apply filter_In in Hin as [Hin _]. now apply nosend_not_in in Hin.
  - destruct (deliver_quiet [] m s) as [_ D]. destruct (deliver [] m s) as [[s' o] b]. cbn [fst snd] in *.
    now apply nosend_not_in, isdrop_nosend.
  - destruct (aget cid (b_online s)) as [c|].
    + destruct (nget c (b_conns s)) as [k|]; [|intros []]. apply nosend_not_in, conn_gone_nosend.
    + destruct (ahas cid (b_offline s)); [|intros []].
      apply nosend_not_in, isdrop_nosend, release_will_quiet.
  - intros [].
  - apply nosend_not_in. apply (fold_out nosend); [|constructor].
    intros s0 o0 cd H0. destruct (release_will_quiet (fst cd) s0) as [_ D].
    destruct (release_will (fst cd) s0) as [s' o']. cbn [snd] in *. apply Forall_app. split; [exact H0|now apply isdrop_nosend].
  - match goal with |- context [fold_left ?f ?l (?s0, [])] =>
      pose proof (fold_out nosend f l) as HF; destruct (fold_left f l (s0, [])) as [s1 o1] eqn:E1;
      specialize (fun H => HF H s0 [] (Forall_nil _)); rewrite E1 in HF end.
    destruct (fire_wills_quiet s1) as [_ D]. destruct (fire_wills s1) as [s2 o2]. cbn [snd] in *.
    apply nosend_not_in, Forall_app. split; [|now apply isdrop_nosend]. apply HF.
    intros sa oa ck Ha. destruct (k_phase (snd ck)); try exact Ha;
      (match goal with |- context [if ?b then _ else _] => destruct b end; [|exact Ha]);
      pose proof (conn_gone_nosend (fst ck) sa) as Hg; destruct (conn_gone (fst ck) sa) as [sb ob]; cbn [snd] in *;
      apply Forall_app; now split.
  - intros [].
Qed.

(* ================================================================== *)
(* 11. C05: a closed socket stays closed and silent                    *)
(* ================================================================== *)

Definition phase_at (s : st) (c : N) : option phase := option_map k_phase (nget c (b_conns s)).
Definition closed_at (s : st) (c : N) : Prop := phase_at s c = Some PhClosed.

Lemma phase_at_pv s c : phase_at s c = option_map (fun v => snd (fst v)) (pv s c).
Proof. unfold phase_at, pv. destruct (nget c (b_conns s)); reflexivity. Qed.

Lemma phase_pv s s' c : pv s' c = pv s c -> phase_at s' c = phase_at s c.
Proof. intros H. now rewrite !phase_at_pv, H. Qed.

Lemma closed_frame s s' c : frame s s' -> closed_at s c -> closed_at s' c.
Proof. intros F. unfold closed_at. now rewrite (phase_pv _ _ c (pv_frame _ _ c F)). Qed.

Lemma closed_wframe s s' c : wframe s s' -> closed_at s c -> closed_at s' c.
Proof. intros F. unfold closed_at. now rewrite (phase_pv _ _ c (wf_pv _ _ F c)). Qed.

Lemma closed_not_att s c : closed_at s c -> ~ att s c.
Proof.
  unfold closed_at, phase_at. intros H (k & Hk & Ha). rewrite Hk in H. cbn [option_map] in H.
  injection H as H. now rewrite H in Ha.
Qed.

Lemma phase_upd_conn c' c k s : phase_at (upd_conn c k s) c' = if c' =? c then Some (k_phase k) else phase_at s c'.
Proof. unfold phase_at. proj. rewrite nget_nset. destruct (c' =? c); reflexivity. Qed.

Lemma closed_upd_other c' c k s : c' <> c -> closed_at s c' -> closed_at (upd_conn c k s) c'.
Proof. intros H. unfold closed_at. rewrite phase_upd_conn. apply N.eqb_neq in H. now rewrite H. Qed.

Lemma conn_gone_closed c s c0 : closed_at s c0 -> closed_at (fst (conn_gone c s)) c0.
Proof.
  unfold closed_at. rewrite !phase_at_pv, conn_gone_pv. destruct (N.eqb_spec c0 c) as [->|E]; [|auto].
  destruct (pv s c) as [[[cid ph] f]|]; cbn; [reflexivity|discriminate].
Qed.

Lemma fail_conn_closed c code br s c0 : closed_at s c0 -> closed_at (fst (fail_conn c code br s)) c0.
Proof.
  intros H. unfold fail_conn. destruct (nget c (b_conns s)) as [k|] eqn:Hk; [|exact H].
  destruct (k_phase k) eqn:Ep; try exact H.
  match goal with |- context [if ?b then _ else _] => destruct b end.
  - pose proof (conn_gone_closed c s c0 H) as H1. destruct (conn_gone c s) as [s' o]. exact H1.
  - cbn [fst]. apply closed_upd_other; [|exact H]. intros ->.
    unfold closed_at, phase_at in H. rewrite Hk in H. cbn in H. congruence.
Qed.

Lemma hc_old_pv cid v5 cmax r0 s c : pv (fst (fst (hc_old cid v5 cmax r0 s))) c = pv s c.
Proof.
  unfold hc_old. destruct (aget cid (b_sessions s)); [|reflexivity]. destruct r0.
  - destruct (aget cid (b_queues s)); [|reflexivity]. destruct (aget cid (b_unacks s)); reflexivity.
  - cbv zeta. destruct (aget cid (b_wills (remove_session cid s))) as [[w t]|]; reflexivity.
Qed.

Lemma hc_takeover_closed cid s c0 : closed_at s c0 -> closed_at (fst (hc_takeover cid s)) c0.
Proof. unfold hc_takeover. destruct (aget cid (b_online s)); [apply conn_gone_closed|auto]. Qed.

(* the sockets other than c, from the take-over on *)
Lemma hc_accept_pv_other c cn s c' :
  c' <> c -> pv (fst (hc_accept c cn s)) c' = pv (fst (hc_takeover (hc_cid cn s) (hc_auto cn s))) c'.
Proof.
  intros Hne. unfold hc_accept. cbv zeta.
  destruct (hc_takeover (hc_cid cn s) (hc_auto cn s)) as [s1 o_dup]. cbn [fst].
  match goal with |- context [hc_old ?a ?b ?d ?e s1] =>
    pose proof (hc_old_pv a b d e s1 c') as H2; destruct (hc_old a b d e s1) as [[s2 o_will] resume] end.
  cbn [fst] in H2. destruct (hc_wd_exp cn (b_cfg s)) as [wd ex].
  match goal with |- context [hc_wills o_will ?S] =>
    pose proof (hc_wills_quiet o_will S) as [F5 _]; destruct (hc_wills o_will S) as [s5 o_w] end.
  cbn [fst] in *. rewrite (pv_frame _ _ c' F5). unfold hc_register.
  change (pv (set_tables ?a ?b ?d ?e ?f ?g ?S) c') with (pv S c'). rewrite pv_upd_conn.
  apply N.eqb_neq in Hne. rewrite Hne.
  rewrite (wf_pv _ _ (hc_fresh_frame _ _ _ _ _ _) c'). exact H2.
Qed.

Lemma handle_connect_closed c cn s c0 : c0 <> c -> closed_at s c0 -> closed_at (fst (handle_connect c cn s)) c0.
Proof.
  intros Hne H. rewrite handle_connect_eq.
  destruct (negb (c_allow_zero_len (b_cfg s)) && is_empty (cn_cid cn)); [now apply closed_upd_other|].
  destruct (negb (hc_code cn s =? 0)); [now apply closed_upd_other|].
  unfold closed_at. rewrite (phase_pv _ _ c0 (hc_accept_pv_other c cn s c0 Hne)).
  apply hc_takeover_closed. eapply closed_wframe; [apply hc_auto_frame|exact H].
Qed.

Definition reopens (c0 : N) (e : event) : bool :=
  match e with EConnect c _ => c =? c0 | EOpen c => c =? c0 | _ => false end.

Lemma step_event_closed s e c0 : reopens c0 e = false -> closed_at s c0 -> closed_at (fst (step_event s e)) c0.
Proof.
  intros Hre H.
  assert (HSend : forall c pk, closed_at (fst (step_event s (ESend c pk))) c0).
  { intros c pk. cbn [step_event].
    destruct (nget c (b_conns s)) as [k|] eqn:Hk; [|exact H].
    assert (Hne : k_phase k <> PhClosed -> c0 <> c).
    { intros Hp ->. unfold closed_at, phase_at in H. rewrite Hk in H. cbn in H. congruence. }
    destruct (k_phase k) eqn:Ep; unfold send_unconnected; rewrite ?Ep; try exact H.
    + cbn [fst]. apply closed_upd_other; [apply Hne; discriminate|exact H].
    + destruct (handle_packet_frame c k pk s Hk) as [F _].
      destruct (handle_packet c k pk s) as [s' o|s' o code|s' code]; cbn [hres_st] in F.
      * cbn [fst]. eapply closed_wframe; eauto.
      * pose proof (fail_conn_closed c code false s' c0 (closed_wframe _ _ _ F H)) as H1.
        destruct (fail_conn c code false s') as [s'' o']. exact H1.
      * apply fail_conn_closed. eapply closed_wframe; eauto.
    + destruct pk; try exact H.
      destruct ((k_v k =? 5) && (0 <? qos)); [|exact H].
      destruct (k_quota k =? 0); [now apply conn_gone_closed|].
      cbn [fst]. apply closed_upd_other; [apply Hne; discriminate|exact H].
    + destruct pk; try exact H.
      destruct ((k_v k =? 5) && (0 <? qos)); [|exact H]. now apply conn_gone_closed. }
  destruct e as [c cn|c|c pk|c pk n|c|m|cid|ms| |ms|]; [| |apply HSend| |..]; cbn [step_event reopens] in *.
  - apply N.eqb_neq in Hre.
    pose proof (conn_gone_closed c s c0 H) as H0. destruct (conn_gone c s) as [s0 o0]. cbn [fst] in *.
    pose proof (handle_connect_closed c cn s0 c0 (not_eq_sym Hre) H0) as H1.
    destruct (handle_connect c cn s0) as [s1 o1]. exact H1.
  - apply N.eqb_neq in Hre.
    pose proof (conn_gone_closed c s c0 H) as H0. destruct (conn_gone c s) as [s0 o0]. cbn [fst] in *.
    apply closed_upd_other; auto.
  - (* ESendSz *)
    fold (step_event s (ESendSz c pk n)).
    destruct (step_event_sz s c pk n) as [E|(k & Hk & Hp & _ & [[code E]|[E|[q E]]])]; rewrite E; [apply HSend| | |];
      apply fail_conn_closed; try exact H.
    apply closed_upd_other; [|exact H].
    intros ->. unfold closed_at, phase_at in H. rewrite Hk in H. cbn in H. congruence.
  - pose proof (conn_gone_closed c s c0 H) as H0. destruct (conn_gone c s) as [s0 o0]. exact H0.
  - destruct (deliver_quiet [] m s) as [F _]. destruct (deliver [] m s) as [[s' o] b]. cbn [fst] in *.
    eapply closed_frame; eauto.
  - destruct (aget cid (b_online s)) as [c|].
    + destruct (nget c (b_conns s)) as [k|] eqn:Hk; [|exact H]. apply conn_gone_closed.
      unfold closed_at. rewrite phase_upd_conn. destruct (N.eqb_spec c0 c) as [->|E]; [|exact H].
      unfold closed_at, phase_at in H. rewrite Hk in H. exact H.
    + destruct (ahas cid (b_offline s)); [|exact H].
      destruct (release_will_quiet cid (remove_session cid s)) as [F _]. eapply closed_frame; [exact F|exact H].
  - exact H.
  - apply (fold_inv (fun s0 => closed_at s0 c0)).
    + intros s0 o0 cd H0. destruct (release_will_quiet (fst cd) s0) as [F _].
      destruct (release_will (fst cd) s0) as [s' o']. cbn [fst] in *. eapply closed_frame; eauto.
    + clear HSend. generalize (filter (fun cd => snd cd <? b_now s) (b_offline s)). intros l. revert s H.
      induction l as [|cd r IH]; intros s H; cbn [fold_left]; [exact H|]. apply IH. exact H.
  - set (s0 := set_time (b_now s + ms) (b_rt s + ms) s).
    assert (H0 : closed_at s0 c0) by exact H.
    match goal with |- context [fold_left ?f (b_conns s0) (s0, [])] =>
      pose proof (fold_inv (fun s0 => closed_at s0 c0) f (b_conns s0)) as HF;
      destruct (fold_left f (b_conns s0) (s0, [])) as [s1 o1] eqn:E1 end.
    assert (H1 : closed_at s1 c0).
    { specialize (fun H => HF H s0 [] H0). rewrite E1 in HF. apply HF.
      intros sa oa ck Ha. destruct (k_phase (snd ck)); try exact Ha;
        (match goal with |- context [if ?b then _ else _] => destruct b end; [|exact Ha]);
        pose proof (conn_gone_closed (fst ck) sa c0 Ha) as Hg; destruct (conn_gone (fst ck) sa) as [sb ob]; exact Hg. }
    destruct (fire_wills_quiet s1) as [F _]. destruct (fire_wills s1) as [s2 o2]. cbn [fst] in *.
    eapply closed_frame; eauto.
  - exact H.
Qed.

Theorem step_closed s e c0 : reopens c0 e = false -> closed_at s c0 -> closed_at (fst (step s e)) c0.
Proof.
  intros Hre H. eapply closed_frame; [apply step_frame_poll|]. now apply step_event_closed.
Qed.

Lemma step_outputs s e :
  snd (step s e) = snd (step_event s e) ++ snd (poll_all (fst (step_event s e))).
Proof. unfold step. destruct (step_event s e) as [s1 o1]. cbn [fst snd]. destruct (poll_all s1) as [s2 o2]. reflexivity. Qed.

Lemma poll_all_not_att s c p : ~ att s c -> ~ In (OSend c p) (snd (poll_all s)).
Proof.
  intros Hn Hin. destruct (poll_all_frame s) as [_ H]. rewrite Forall_forall in H. apply H in Hin. exact (Hn Hin).
Qed.

Theorem nothing_to_closed_step s e c0 p :
  reopens c0 e = false -> closed_at s c0 -> ~ In (OSend c0 p) (snd (step s e)).
Proof.
  intros Hre H Hin. rewrite step_outputs in Hin. apply in_app_or in Hin as [Hin|Hin].
  - apply step_event_sends in Hin. destruct e as [c cn|c|c pk|c pk n|c|m|cid|ms| |ms|]; try exact Hin.
    + cbn [reopens] in Hre. subst c. now rewrite N.eqb_refl in Hre.
    + destruct Hin as [-> (k & Hk & Hp)]. unfold closed_at, phase_at in H. rewrite Hk in H. cbn in H.
      destruct Hp; congruence.
    + destruct Hin as [-> (k & Hk & Hp)]. unfold closed_at, phase_at in H. rewrite Hk in H. cbn in H.
      destruct Hp; congruence.
  - revert Hin. apply poll_all_not_att, closed_not_att. now apply step_event_closed.
Qed.

Theorem nothing_to_closed_run es : forall s c0,
  closed_at s c0 -> forallb (fun e => negb (reopens c0 e)) es = true ->
  forall o p, In o (snd (run s es)) -> ~ In (OSend c0 p) o.
Proof.
  induction es as [|e r IH]; intros s c0 H Hes o p Hin; cbn [run] in Hin; [destruct Hin|].
  cbn [forallb] in Hes. apply andb_true_iff in Hes as [He Hr]. apply negb_true_iff in He.
  pose proof (step_closed s e c0 He H) as H1. pose proof (nothing_to_closed_step s e c0 p He H) as H2.
  destruct (step s e) as [s' o1]. cbn [fst snd] in *. specialize (IH s' c0 H1 Hr).
  destruct (run s' r) as [s'' os]. cbn [snd] in *. destruct Hin as [<-|Hin]; [exact H2|]. now apply IH.
Qed.

(* ================================================================== *)
(* 12. C05: the displaced connection is closed before the CONNACK      *)
(* ================================================================== *)

Lemma unreg_res_auto cid k sess cf s1 s' : unreg_res cid k sess cf s1 s' -> b_auto s' = b_auto s1.
Proof. intros [H ->|se Hs Hf He ->]; reflexivity. Qed.

Lemma conn_gone_misc c s :
  b_cfg (fst (conn_gone c s)) = b_cfg s /\ b_hooks (fst (conn_gone c s)) = b_hooks s /\
  b_now (fst (conn_gone c s)) = b_now s /\ b_auto (fst (conn_gone c s)) = b_auto s.
Proof.
  destruct (cv s c) as [[cid f]|] eqn:Ec.
  - apply cv_some in Ec as (k & Hk & _ & Ha & _).
    destruct (conn_gone_att_spec c k s Hk Ha) as (s1 & o' & _ & _ & F & R).
    rewrite (unreg_res_cfg _ _ _ _ _ _ R), (unreg_res_hooks _ _ _ _ _ _ R), (unreg_res_now _ _ _ _ _ _ R),
      (unreg_res_auto _ _ _ _ _ _ R), (fr_cfg _ _ F), (fr_hooks _ _ F), (fr_now _ _ F), (fr_auto _ _ F). auto.
  - destruct (conn_gone_unatt c s Ec) as [->|(k & Hk & ->)]; cbn [fst]; auto.
Qed.

Lemma conn_gone_online_other c s cid c0 :
  BInv s -> aget cid (b_online s) = Some c0 -> c0 <> c -> aget cid (b_online (fst (conn_gone c s))) = Some c0.
Proof.
  intros HI Ho Hne. destruct (cv s c) as [[cid' f]|] eqn:Ec.
  - pose proof (bi_conn _ _ HI _ _ _ Ec) as Hc'.
    apply cv_some in Ec as (k & Hk & Hcid & Ha & _).
    destruct (conn_gone_att_spec c k s Hk Ha) as (s1 & o' & _ & _ & F & R).
    rewrite (unreg_res_online _ _ _ _ _ _ R), (fr_on _ _ F). proj.
    rewrite aget_adel by apply (bi_nd_on _ _ HI). rewrite Hcid.
    destruct (str_eqb_spec cid cid') as [->|E]; [congruence|exact Ho].
  - destruct (conn_gone_frame_unatt c s Ec) as [F _]. now rewrite (cf_on _ _ F).
Qed.

Lemma hc_code_ext cn s s' : b_hooks s' = b_hooks s -> hc_code cn s' = hc_code cn s.
Proof. intros H. unfold hc_code, auth_code. now rewrite H. Qed.

Lemma hc_rejected_ext cn s s' : b_hooks s' = b_hooks s -> b_cfg s' = b_cfg s -> hc_rejected cn s' = hc_rejected cn s.
Proof. intros H1 H2. unfold hc_rejected. now rewrite (hc_code_ext cn s s' H1), H2. Qed.

Lemma handle_connect_accepted c cn s : hc_rejected cn s = false -> handle_connect c cn s = hc_accept c cn s.
Proof.
  unfold hc_rejected. intros H. apply orb_false_iff in H as [H1 H2]. now rewrite handle_connect_eq, H1, H2.
Qed.

Theorem displaced_closed_before_connack s c cn c0 :
  BInv s -> hc_rejected cn s = false -> aget (hc_cid cn s) (b_online s) = Some c0 -> c0 <> c ->
  exists o1 o2 o3 sp props,
    snd (step s (EConnect c cn)) = o1 ++ OClose c0 :: o2 ++ OSend c (KConnack sp 0 props) :: o3 /\
    Forall nosend o1 /\ Forall nosend o2 /\ (forall p, ~ In (OSend c0 p) o3) /\
    closed_at (fst (step s (EConnect c cn))) c0.
Proof.
  intros HI Hrej Hon Hne.
  assert (Hcl : closed_at (fst (step_event s (EConnect c cn))) c0 /\
                exists o1 o2 o3 sp props,
                  snd (step_event s (EConnect c cn)) = o1 ++ OClose c0 :: o2 ++ OSend c (KConnack sp 0 props) :: o3 /\
                  Forall nosend o1 /\ Forall nosend o2 /\ Forall nosend o3).
  { cbn [step_event].
    pose proof (conn_gone_inv c s HI) as HI0. pose proof (conn_gone_nosend c s) as Hn0.
    pose proof (conn_gone_misc c s) as (Hcfg & Hhooks & _ & Hauto).
    pose proof (conn_gone_online_other c s _ c0 HI Hon Hne) as Hon0.
    destruct (conn_gone c s) as [s0 o0]. cbn [fst snd] in *.
    assert (Hcid : hc_cid cn s0 = hc_cid cn s) by (unfold hc_cid; now rewrite Hauto).
    rewrite handle_connect_accepted by (now rewrite (hc_rejected_ext cn s s0 Hhooks Hcfg)).
    pose proof (hc_accept_pv_other c cn s0 c0 Hne) as Hpv.
    unfold hc_accept in *. cbv zeta in *. rewrite Hcid in *.
    set (sa := hc_auto cn s0) in *.
    assert (HIa : BInv sa) by (eapply BInvG_cframe; [apply wframe_cframe, hc_auto_frame|exact HI0]).
    assert (Hona : aget (hc_cid cn s) (b_online sa) = Some c0) by (unfold sa; now rewrite (wf_on _ _ (hc_auto_frame cn s0))).
    destruct (BInv_online_attached sa _ c0 HIa Hona) as (k & Hk & _ & Ha & _).
    destruct (conn_gone_att_spec c0 k sa Hk Ha) as (s1' & o' & E & D & _).
    pose proof (conn_gone_pv c0 sa c0) as Hpv0. rewrite N.eqb_refl, (pv_of _ _ _ Hk) in Hpv0.
    unfold hc_takeover in *. rewrite Hona in *.
    destruct (conn_gone c0 sa) as [s1 o_dup]. cbn [fst snd] in *. injection E as ->.
    destruct (hc_old _ _ _ _ s1) as [[s2 o_will] resume]. destruct (hc_wd_exp cn (b_cfg s0)) as [wd ex].
    match goal with |- context [hc_wills o_will ?S] =>
      pose proof (hc_wills_quiet o_will S) as [_ D5]; destruct (hc_wills o_will S) as [s5 o_w] end.
    cbn [fst snd] in *. split.
    - unfold closed_at. rewrite (phase_pv _ _ c0 Hpv), phase_at_pv, Hpv0. reflexivity.
    - exists (filter (fun x => match x with OClose c' => negb (c' =? c) | _ => true end) o0), o', o_w, resume.
      eexists. split; [|split; [now apply Forall_filter|split; now apply isdrop_nosend]].
      reflexivity. }
  destruct Hcl as (Hcl & o1 & o2 & o3 & sp & props & E & N1 & N2 & N3).
  exists o1, o2, (o3 ++ snd (poll_all (fst (step_event s (EConnect c cn))))), sp, props.
  split; [|split; [exact N1|split; [exact N2|split]]].
  - rewrite step_outputs, E. rewrite <- !app_assoc. cbn [app]. rewrite <- !app_assoc. reflexivity.
  - intros p Hin. apply in_app_or in Hin as [Hin|Hin]; [now apply nosend_not_in in Hin|].
    revert Hin. apply poll_all_not_att, closed_not_att, Hcl.
  - eapply closed_frame; [apply step_frame_poll|exact Hcl].
Qed.

(* ================================================================== *)
(* 13. C05: Session Present                                            *)
(* ================================================================== *)

(* the Session Expiry Interval in force when a connection ends: the stored one, or for a v5
   client that sent DISCONNECT the one carried by it (absent: the stored one), capped *)
Definition takeover_expiry (k : conn) (se : session) (cf : cfg) : N :=
  if (k_v k =? 5) && k_got_disconnect k
  then N.min (opt_or (k_disc_sei k) (se_expiry se)) (c_session_expiry cf) else se_expiry se.

Lemma ur_expiry_noforce k se cf : k_force_remove k = false -> ur_expiry k se cf = takeover_expiry k se cf.
Proof. unfold ur_expiry, takeover_expiry. now intros ->. Qed.

Definition session_alive (cid : str) (s : st) : Prop :=
  (exists dl, aget cid (b_offline s) = Some dl /\ b_now s <= dl) \/
  (exists c0 k0 se, aget cid (b_online s) = Some c0 /\ nget c0 (b_conns s) = Some k0 /\
                    aget cid (b_sessions s) = Some se /\ takeover_expiry k0 se (b_cfg s) <> 0).

Lemma hc_old_resume cid cn v5 cmax s :
  BInv s -> ahas cid (b_online s) = false ->
  (snd (hc_old cid v5 cmax (hc_resume0 cid cn s) s) = true <->
   cn_clean cn = false /\ exists dl, aget cid (b_offline s) = Some dl /\ b_now s <= dl).
Proof.
  intros HI Hon. unfold hc_old, hc_resume0. destruct (aget cid (b_sessions s)) as [se|] eqn:Es.
  - pose proof (bi_sess _ _ HI cid (ahas_some _ _ _ Es)) as Hoo. rewrite Hon in Hoo. cbn [orb] in Hoo.
    destruct (bi_has _ _ HI cid) as (_ & Hq & Hu); [now rewrite Hoo, orb_true_r|].
    apply ahas_true in Hoo as [dl Hdl], Hq as [q Hq], Hu as [u Hu].
    unfold session_expired. rewrite Hdl, Hq, Hu.
    destruct (dl <? b_now s) eqn:El; cbn [negb andb].
    + cbv zeta. destruct (aget cid (b_wills (remove_session cid s))) as [[w t]|]; cbn [snd];
        (split; [discriminate|]); intros [_ (dl' & [= <-] & Hle)]; lia.
    + destruct (cn_clean cn); cbn [negb snd].
      * cbv zeta. destruct (aget cid (b_wills (remove_session cid s))) as [[w t]|]; cbn [snd];
          (split; [discriminate|]); intros [? _]; discriminate.
      * split; [|reflexivity]. intros _. split; [reflexivity|]. exists dl. split; [reflexivity|lia].
  - cbn [snd]. split; [discriminate|]. intros [_ (dl & Hdl & _)].
    destruct (bi_has _ _ HI cid) as (Hs & _); [erewrite (ahas_some _ _ _ Hdl); apply orb_true_r|].
    apply ahas_none in Es. congruence.
Qed.

Lemma takeover_alive cid s :
  BInv s ->
  ((exists dl, aget cid (b_offline (fst (hc_takeover cid s))) = Some dl /\ b_now (fst (hc_takeover cid s)) <= dl) <->
   session_alive cid s).
Proof.
  intros HI. unfold hc_takeover, session_alive. destruct (aget cid (b_online s)) as [c0|] eqn:Eo.
  - destruct (BInv_online_attached s cid c0 HI Eo) as (k0 & Hk0 & Hcid & Ha & Hf).
    destruct (conn_gone_att_spec c0 k0 s Hk0 Ha) as (s1 & o' & _ & _ & F & R).
    assert (Hoff : aget cid (b_offline s) = None).
    { apply ahas_false. apply (bi_disj _ _ HI). eapply ahas_some; eauto. }
    rewrite Hcid in R.
    destruct R as [H E|se Hs Hfr He E]; rewrite E; unfold store_tables; proj; rewrite (fr_off _ _ F); proj;
      change (ur_expiry (set_phase PhClosed k0)) with (ur_expiry k0) in *;
      change (k_force_remove (set_phase PhClosed k0)) with (k_force_remove k0) in *.
    + split.
      * intros (dl & Hdl & _). rewrite aget_adel in Hdl by apply (bi_nd_off _ _ HI).
        rewrite str_eqb_refl in Hdl. discriminate.
      * intros [(dl & Hdl & _)|(c0' & k0' & se & H1 & H2 & H3 & H4)]; [congruence|].
        injection H1 as <-. rewrite Hk0 in H2. injection H2 as <-.
        destruct H as [H|(se' & Hs' & [Hf'|He'])]; try congruence.
        rewrite H3 in Hs'. injection Hs' as <-. rewrite (ur_expiry_noforce _ _ _ Hf) in He'. contradiction.
    + split.
      * intros _. right. exists c0, k0, se. rewrite <- (ur_expiry_noforce _ _ _ Hf). auto.
      * intros _. eexists. rewrite aget_aset_same. split; [reflexivity|]. rewrite (fr_now _ _ F). proj. lia.
  - cbn [fst]. split; [now left|]. intros [H|(c0' & k0' & se & H1 & _)]; [exact H|congruence].
Qed.

Lemma session_alive_auto cid cn s : session_alive cid (hc_auto cn s) <-> session_alive cid s.
Proof. unfold hc_auto. destruct (is_empty (cn_cid cn)); reflexivity. Qed.

Lemma accept_sends_connack c cn s :
  exists sp props, In (OSend c (KConnack sp 0 props)) (snd (hc_accept c cn s)).
Proof.
  unfold hc_accept. cbv zeta. destruct (hc_takeover _ _) as [s1 o_dup].
  destruct (hc_old _ _ _ _ s1) as [[s2 o_will] resume]. destruct (hc_wd_exp cn (b_cfg s)) as [wd ex].
  match goal with |- context [hc_wills o_will ?S] => destruct (hc_wills o_will S) as [s5 o_w] end.
  cbn [snd]. exists resume. eexists. apply in_or_app. right. left. reflexivity.
Qed.

Theorem resume_iff c cn s sp props :
  BInv s -> cv s c = None -> hc_rejected cn s = false ->
  In (OSend c (KConnack sp 0 props)) (snd (handle_connect c cn s)) ->
  (sp = true <-> cn_clean cn = false /\ session_alive (hc_cid cn s) s).
Proof.
  intros HI Hc Hrej Hin. rewrite handle_connect_accepted in Hin by exact Hrej.
  unfold hc_accept in Hin. cbv zeta in Hin. set (cid := hc_cid cn s) in *.
  assert (HI0 : BInv (hc_auto cn s)) by (eapply BInvG_cframe; [apply wframe_cframe, hc_auto_frame|exact HI]).
  assert (Hc0 : cv (hc_auto cn s) c = None)
    by (rewrite (cf_cv _ _ (wframe_cframe _ _ (hc_auto_frame cn s))); exact Hc).
  destruct (hc_takeover_spec cid c (hc_auto cn s) HI0 Hc0) as (HI1 & Hon1 & _).
  pose proof (takeover_alive cid (hc_auto cn s) HI0) as HB. rewrite session_alive_auto in HB.
  pose proof (hc_takeover_nosend cid (hc_auto cn s)) as Hn1.
  destruct (hc_takeover cid (hc_auto cn s)) as [s1 o_dup]. cbn [fst snd] in *.
  pose proof (hc_old_resume cid cn (cn_ver cn =? 5) (hc_cmax cn) s1 HI1 Hon1) as HA.
  destruct (hc_old cid (cn_ver cn =? 5) (hc_cmax cn) (hc_resume0 cid cn s1) s1) as [[s2 o_will] resume].
  destruct (hc_wd_exp cn (b_cfg s)) as [wd ex].
  match type of Hin with context [hc_wills o_will ?S] =>
    pose proof (hc_wills_quiet o_will S) as [_ D5]; destruct (hc_wills o_will S) as [s5 o_w] end.
  cbn [fst snd] in *.
  apply in_app_or in Hin as [Hin|Hin]; [now apply nosend_not_in in Hin|].
  destruct Hin as [Hin|Hin]; [|now apply nosend_not_in in Hin; [|apply isdrop_nosend]].
  injection Hin as <- _. rewrite HA, HB. reflexivity.
Qed.

(* the deadline of an offline session is counted from the end of its connection *)
Theorem offline_deadline_from_disconnect c k s dl :
  BInv s -> nget c (b_conns s) = Some k -> attached (k_phase k) = true ->
  aget (k_cid k) (b_offline (fst (conn_gone c s))) = Some dl ->
  exists se, aget (k_cid k) (b_sessions s) = Some se /\ takeover_expiry k se (b_cfg s) <> 0 /\
             dl = b_now s + takeover_expiry k se (b_cfg s) * 1000.
Proof.
  intros HI Hk Ha Hdl.
  assert (Hf : k_force_remove k = false).
  { apply (bi_force _ _ HI c (k_cid k)); [apply cv_some; now exists k|discriminate]. }
  destruct (conn_gone_att_spec c k s Hk Ha) as (s1 & o' & _ & _ & F & R).
  destruct R as [H E|se Hs Hfr He E]; rewrite E in Hdl; unfold store_tables in Hdl; proj_in Hdl;
    rewrite (fr_off _ _ F) in Hdl; proj_in Hdl;
    change (ur_expiry (set_phase PhClosed k)) with (ur_expiry k) in *;
    change (k_force_remove (set_phase PhClosed k)) with (k_force_remove k) in *.
  - rewrite aget_adel in Hdl by apply (bi_nd_off _ _ HI). rewrite str_eqb_refl in Hdl. discriminate.
  - rewrite aget_aset_same in Hdl. injection Hdl as <-. exists se.
    rewrite <- (ur_expiry_noforce _ _ _ Hf). rewrite (fr_now _ _ F). proj. auto.
Qed.

(* the Session Expiry Interval stored by a successful CONNECT *)
Definition connect_expiry (cn : connect) (cf : cfg) : N :=
  if cn_ver cn =? 5 then match p_sei (cn_props cn) with Some i => N.min i (c_session_expiry cf) | None => 0 end
  else if cn_clean cn then 0 else c_session_expiry cf.

Lemma hc_wd_exp_value cn cf : snd (hc_wd_exp cn cf) = connect_expiry cn cf.
Proof.
  unfold hc_wd_exp, connect_expiry, hc_sess_exp. destruct (cn_ver cn =? 5); cbn [negb andb snd].
  - destruct (p_sei (cn_props cn)) as [i|]; [|reflexivity]. destruct (i <? c_session_expiry cf) eqn:E; lia.
  - destruct (cn_clean cn); reflexivity.
Qed.

Theorem connect_session_expiry c cn s :
  hc_rejected cn s = false ->
  exists se, aget (hc_cid cn s) (b_sessions (fst (handle_connect c cn s))) = Some se /\
             se_expiry se = connect_expiry cn (b_cfg s).
Proof.
  intros Hrej. rewrite handle_connect_accepted by exact Hrej. unfold hc_accept. cbv zeta.
  destruct (hc_takeover _ _) as [s1 o_dup]. destruct (hc_old _ _ _ _ s1) as [[s2 o_will] resume].
  pose proof (hc_wd_exp_value cn (b_cfg s)) as Hv. destruct (hc_wd_exp cn (b_cfg s)) as [wd ex]. cbn [snd] in Hv.
  match goal with |- context [hc_wills o_will ?S] =>
    pose proof (hc_wills_quiet o_will S) as [F5 _]; destruct (hc_wills o_will S) as [s5 o_w] end.
  cbn [fst] in *. rewrite (fr_sess _ _ F5). unfold hc_register. proj. rewrite aget_aset_same.
  eexists. split; [reflexivity|]. exact Hv.
Qed.

(* a v5 DISCONNECT with a non-zero Session Expiry Interval x stores min(x, configured) and
   leaves the connection a zombie that remembers x *)
Lemma disconnect_step_event c k s code props se x :
  nget c (b_conns s) = Some k -> k_phase k = PhConnected -> k_v k = 5 ->
  aget (k_cid k) (b_sessions s) = Some se -> se_expiry se <> 0 -> p_sei props = Some x -> x <> 0 ->
  step_event s (ESend c (KDisconnect code props)) =
  (upd_conn c (set_phase PhZombie (set_disc (negb (code =? 4)) (Some x) k))
     (upd_conn c (set_disc (negb (code =? 4)) (Some x) k)
       (set_tables (aset (k_cid k) (stored_session se (N.min x (c_session_expiry (b_cfg s)))) (b_sessions s))
                   (b_online s) (b_offline s) (b_wills s) (b_queues s) (b_unacks s) s)), []).
Proof.
  intros Hk Hp Hv Hs Hse Hx Hx0.
  cbn [step_event]. rewrite Hk, Hp. cbn [handle_packet]. rewrite Hv. cbn [N.eqb Pos.eqb]. cbv zeta.
  rewrite Hs, Hx. apply N.eqb_neq in Hse, Hx0. rewrite Hse, Hx0. cbn [andb negb opt_or].
  unfold fail_conn. proj. rewrite nget_nset_same. cbn [set_disc k_phase]. rewrite Hp. cbn [orb app].
  reflexivity.
Qed.

Theorem disconnect_session_expiry c k s code props se x :
  nget c (b_conns s) = Some k -> k_phase k = PhConnected -> k_v k = 5 ->
  aget (k_cid k) (b_sessions s) = Some se -> se_expiry se <> 0 -> p_sei props = Some x -> x <> 0 ->
  aget (k_cid k) (b_sessions (fst (step s (ESend c (KDisconnect code props))))) =
  Some (stored_session se (N.min x (c_session_expiry (b_cfg s)))).
Proof.
  intros Hk Hp Hv Hs Hse Hx Hx0.
  rewrite (fr_sess _ _ (step_frame_poll s (ESend c (KDisconnect code props)))).
  rewrite (disconnect_step_event c k s code props se x) by assumption. cbn [fst]. proj. apply aget_aset_same.
Qed.

(* and when that zombie's connection ends, the interval in force is min(x, configured) *)
Lemma takeover_expiry_after_disconnect k se cf x clean_will :
  k_v k = 5 ->
  takeover_expiry (set_phase PhZombie (set_disc clean_will (Some x) k)) se cf = N.min x (c_session_expiry cf).
Proof. intros Hv. unfold takeover_expiry. cbn [set_phase set_disc k_v k_got_disconnect k_disc_sei opt_or]. now rewrite Hv. Qed.

(* ================================================================== *)
(* 14. the subscription store belongs to the sessions                  *)
(* ================================================================== *)

(* the store is the result of a well-formed history (so the refinement of SubTrieP applies)
   and only clients with a session have entries *)
Definition SubsInv (s : st) : Prop :=
  exists ops, wf_ops ops = true /\ b_subs s = db_run ops /\
              forall c g f, In (c, g, f) (map fst (spec_run ops)) -> ahas c (b_sessions s) = true.

Lemma db_run_snoc ops o : db_run (ops ++ [o]) = db_step (db_run ops) o.
Proof. unfold db_run. now rewrite fold_left_app. Qed.
Lemma spec_run_snoc ops o : spec_run (ops ++ [o]) = spec_step (spec_run ops) o.
Proof. unfold spec_run. now rewrite fold_left_app. Qed.
Lemma wf_ops_snoc ops o : wf_ops (ops ++ [o]) = wf_ops ops && wf_op o.
Proof. unfold wf_ops. rewrite forallb_app. cbn [forallb]. now rewrite andb_true_r. Qed.

Lemma SubsInv_init c h p : SubsInv (st_init c h p).
Proof. exists []. split; [reflexivity|]. split; [reflexivity|]. intros c0 g f []. Qed.

Lemma SubsInv_ext s s' :
  b_subs s' = b_subs s -> (forall c, ahas c (b_sessions s) = true -> ahas c (b_sessions s') = true) ->
  SubsInv s -> SubsInv s'.
Proof. intros Hs Hk (ops & Hwf & Hd & Hc). exists ops. rewrite Hs. eauto. Qed.

Lemma SubsInv_frame s s' : frame s s' -> SubsInv s -> SubsInv s'.
Proof. intros F. apply SubsInv_ext; [apply (fr_subs _ _ F)|]. rewrite (fr_sess _ _ F). auto. Qed.

Lemma SubsInv_remove cid s :
  cid <> [] -> NoDup (keys (b_sessions s)) -> SubsInv s -> SubsInv (remove_session cid s).
Proof.
  intros Hne Hnd (ops & Hwf & Hd & Hc). exists (ops ++ [OUnsubAll cid]).
  rewrite wf_ops_snoc, db_run_snoc, spec_run_snoc, Hwf. cbn [wf_op andb db_step spec_step].
  split; [now apply negb_true_iff, is_empty_false|]. proj. rewrite Hd. split; [reflexivity|].
  intros c g f Hin. unfold sp_del_client in Hin.
  rewrite (map_fst_filter (fun k => negb (str_eqb cid (fst (fst k))))) in Hin.
  apply filter_In in Hin as [Hin Hc']. cbn [fst] in Hc'. rewrite ahas_adel by exact Hnd.
  rewrite (Hc c g f Hin), andb_true_r. apply negb_true_iff in Hc'. apply str_eqb_neq in Hc'.
  apply negb_true_iff, str_eqb_neq. congruence.
Qed.

Lemma SubsInv_sessions_aset cid se s on off w q u :
  SubsInv s -> SubsInv (set_tables (aset cid se (b_sessions s)) on off w q u s).
Proof.
  apply SubsInv_ext; [reflexivity|]. intros c H. proj. rewrite ahas_aset, H. apply orb_true_r.
Qed.

Lemma SubsInv_subscribe cid sb s :
  cid <> [] -> no_slash (s_share sb) = true -> ahas cid (b_sessions s) = true ->
  SubsInv s -> SubsInv (set_subs (fst (db_subscribe cid sb (b_subs s))) s).
Proof.
  intros Hne Hns Hs (ops & Hwf & Hd & Hc). exists (ops ++ [OSub cid sb]).
  rewrite wf_ops_snoc, db_run_snoc, spec_run_snoc, Hwf. cbn [wf_op andb db_step spec_step].
  split; [rewrite Hns, andb_true_r; now apply negb_true_iff, is_empty_false|]. proj. rewrite Hd.
  split; [reflexivity|]. intros c g f Hin. rewrite map_fst_sp_set in Hin. revert Hin.
  match goal with |- context [sp_get ?k ?sp] => destruct (sp_get k sp) end; intros Hin; [eauto|].
  apply in_app_or in Hin as [Hin|[Hin|[]]]; [eauto|]. now injection Hin as <- _ _.
Qed.

Lemma SubsInv_unsubscribe cid t s :
  cid <> [] -> SubsInv s -> SubsInv (set_subs (db_unsubscribe cid t (b_subs s)) s).
Proof.
  intros Hne (ops & Hwf & Hd & Hc). exists (ops ++ [OUnsub cid t]).
  rewrite wf_ops_snoc, db_run_snoc, spec_run_snoc, Hwf. cbn [wf_op andb db_step].
  split; [now apply negb_true_iff, is_empty_false|]. proj. rewrite Hd. split; [reflexivity|].
  intros c g f Hin. rewrite spec_step_unsub in Hin. apply in_keys_sp_del in Hin. eauto.
Qed.

(* --- unregister / conn_gone --- *)
Lemma unreg_res_subsinv cid k sess cf s1 s' :
  unreg_res cid k sess cf s1 s' -> cid <> [] -> NoDup (keys (b_sessions s1)) -> SubsInv s1 -> SubsInv s'.
Proof.
  intros [H ->|se Hs Hf He ->] Hne Hnd HS.
  - now apply SubsInv_remove.
  - unfold store_tables. now apply SubsInv_sessions_aset.
Qed.

Lemma conn_gone_subsinv ex c s : BInvG ex s -> SubsInv s -> SubsInv (fst (conn_gone c s)).
Proof.
  intros HI HS. destruct (cv s c) as [[cid f]|] eqn:Ec.
  - pose proof (bi_conn _ _ HI _ _ _ Ec) as Hon.
    apply cv_some in Ec as (k & Hk & Hcid & Ha & _).
    destruct (conn_gone_att_spec c k s Hk Ha) as (s1 & o' & _ & _ & F & R).
    eapply unreg_res_subsinv; [exact R| | |].
    + rewrite Hcid. apply (bi_ne _ _ HI). apply (bi_has _ _ HI). now rewrite (ahas_some _ _ _ Hon).
    + rewrite (fr_sess _ _ F). proj. apply (bi_nd_sess _ _ HI).
    + eapply SubsInv_frame; [exact F|]. revert HS. apply SubsInv_ext; [reflexivity|auto].
  - destruct (conn_gone_unatt c s Ec) as [->|(k & Hk & ->)]; [exact HS|]. cbn [fst].
    revert HS. apply SubsInv_ext; [reflexivity|auto].
Qed.

Lemma fail_conn_subsinv c code br s : BInv s -> SubsInv s -> SubsInv (fst (fail_conn c code br s)).
Proof.
  intros HI HS. unfold fail_conn. destruct (nget c (b_conns s)) as [k|]; [|exact HS].
  destruct (k_phase k); try exact HS.
  match goal with |- context [if ?b then _ else _] => destruct b end.
  - pose proof (conn_gone_subsinv _ c s HI HS) as H. destruct (conn_gone c s) as [s' o]. exact H.
  - cbn [fst]. revert HS. apply SubsInv_ext; [reflexivity|auto].
Qed.

(* --- CONNECT --- *)
Lemma hc_takeover_subsinv cid s : BInv s -> SubsInv s -> SubsInv (fst (hc_takeover cid s)).
Proof.
  intros HI HS. unfold hc_takeover. destruct (aget cid (b_online s)); [now apply (conn_gone_subsinv None)|exact HS].
Qed.

Lemma hc_old_subsinv cid v5 cmax r0 s :
  cid <> [] -> BInv s -> SubsInv s -> SubsInv (fst (fst (hc_old cid v5 cmax r0 s))).
Proof.
  intros Hne HI HS. unfold hc_old. destruct (aget cid (b_sessions s)); [|exact HS]. destruct r0.
  - destruct (aget cid (b_queues s)); [|exact HS]. destruct (aget cid (b_unacks s)); [|exact HS].
    cbn [fst]. revert HS. apply SubsInv_ext; [reflexivity|auto].
  - cbv zeta. pose proof (SubsInv_remove cid s Hne (bi_nd_sess _ _ HI) HS) as HR.
    destruct (aget cid (b_wills (remove_session cid s))) as [[w t]|]; cbn [fst]; [|exact HR].
    revert HR. apply SubsInv_ext; [reflexivity|auto].
Qed.

Lemma hc_accept_subsinv c cn s : BInv s -> cv s c = None -> SubsInv s -> SubsInv (fst (hc_accept c cn s)).
Proof.
  intros HI Hc HS. unfold hc_accept. cbv zeta. set (cid := hc_cid cn s).
  assert (HI0 : BInv (hc_auto cn s)) by (eapply BInvG_cframe; [apply wframe_cframe, hc_auto_frame|exact HI]).
  assert (Hc0 : cv (hc_auto cn s) c = None)
    by (rewrite (cf_cv _ _ (wframe_cframe _ _ (hc_auto_frame cn s))); exact Hc).
  assert (HS0 : SubsInv (hc_auto cn s)).
  { revert HS. apply SubsInv_ext; unfold hc_auto; destruct (is_empty (cn_cid cn)); auto. }
  destruct (hc_takeover_spec cid c (hc_auto cn s) HI0 Hc0) as (HI1 & _).
  pose proof (hc_takeover_subsinv cid (hc_auto cn s) HI0 HS0) as HS1.
  destruct (hc_takeover cid (hc_auto cn s)) as [s1 o_dup]. cbn [fst] in *.
  pose proof (hc_old_subsinv cid (cn_ver cn =? 5) (hc_cmax cn) (hc_resume0 cid cn s1) s1 (hc_cid_ne cn s) HI1 HS1) as HS2.
  destruct (hc_old cid (cn_ver cn =? 5) (hc_cmax cn) (hc_resume0 cid cn s1) s1) as [[s2 o_will] resume].
  cbn [fst] in *. destruct (hc_wd_exp cn (b_cfg s)) as [wd ex].
  match goal with |- context [hc_wills o_will ?S] =>
    pose proof (hc_wills_quiet o_will S) as [F5 _]; destruct (hc_wills o_will S) as [s5 o_w] end.
  cbn [fst] in *. eapply SubsInv_frame; [exact F5|]. unfold hc_register.
  match goal with |- SubsInv (set_tables (aset cid ?se (b_sessions ?S3)) ?on ?off ?w ?q ?u (upd_conn c ?k ?S3)) =>
    apply (SubsInv_ext (set_tables (aset cid se (b_sessions S3)) on off w q u S3)); [reflexivity|auto|] end.
  apply SubsInv_sessions_aset. revert HS2. apply SubsInv_ext; unfold hc_fresh; destruct resume; auto.
Qed.

Lemma handle_connect_subsinv c cn s : BInv s -> cv s c = None -> SubsInv s -> SubsInv (fst (handle_connect c cn s)).
Proof.
  intros HI Hc HS. rewrite handle_connect_eq.
  destruct (negb (c_allow_zero_len (b_cfg s)) && is_empty (cn_cid cn)).
  - cbn [fst]. revert HS. apply SubsInv_ext; [reflexivity|auto].
  - destruct (negb (hc_code cn s =? 0)); [cbn [fst]; revert HS; apply SubsInv_ext; [reflexivity|auto]|].
    now apply hc_accept_subsinv.
Qed.

(* --- packets --- *)
Lemma bump_quota_subs c s (b : conn -> bool) :
  b_subs (match nget c (b_conns s) with
          | Some k1 => if b k1 then upd_conn c (set_quota (k_quota k1 + 1) k1) s else s
          | None => s
          end) = b_subs s.
Proof. destruct (nget c (b_conns s)) as [k1|]; [|reflexivity]. destruct (b k1); reflexivity. Qed.

Lemma hp_dupcheck_subs c k v5 qos pid s : b_subs (fst (hp_dupcheck c k v5 qos pid s)) = b_subs s.
Proof.
  unfold hp_dupcheck. destruct (qos =? 2); [|reflexivity]. cbv zeta.
  destruct (unack_set pid (opt_or (aget (k_cid k) (b_unacks s)) [])) as [u' ex]. cbn [fst].
  destruct (ex && v5); [|reflexivity].
  now rewrite (bump_quota_subs c _ (fun k1 => k_quota k1 <? k_recv_max k1)).
Qed.

Lemma hp_finish_subs c k v5 qos pid o matched err s :
  b_subs (hres_st (hp_finish c k v5 qos pid o matched err s)) = b_subs s.
Proof.
  unfold hp_finish. cbv zeta. cbn [hres_st].
  match goal with |- context [if ?b then set_unacks ?u s else s] =>
    assert (E : b_subs (if b then set_unacks u s else s) = b_subs s) by (destruct b; reflexivity);
    set (s1 := if b then set_unacks u s else s) in * end.
  match goal with |- context [if ?v && ?x && _ then _ else _] =>
    now rewrite (bump_quota_subs c s1 (fun k1 => v && x && (k_quota k1 <? k_recv_max k1))) end.
Qed.

Lemma handle_publish_subs c k dup qos retain topic payload pid props s :
  b_subs (hres_st (handle_publish c k dup qos retain topic payload pid props s)) = b_subs s.
Proof.
  rewrite handle_publish_eq. cbv zeta.
  destruct (negb (k_retain_avail k) && retain); [reflexivity|].
  destruct (hp_alias k (k_v k =? 5) topic props _) as [[[k' m']|]|code]; try reflexivity.
  pose proof (hp_dupcheck_subs c k' (k_v k =? 5) qos pid (upd_conn c k' s)) as E1.
  destruct (hp_dupcheck c k' (k_v k =? 5) qos pid (upd_conn c k' s)) as [s1 isdup]. cbn [fst] in E1.
  pose proof (hp_deliver_quiet k' m' isdup (hp_action m' s1) s1) as [F2 _].
  destruct (hp_deliver k' m' isdup (hp_action m' s1) s1) as [[[s2 o] matched] err]. cbn [fst] in F2.
  now rewrite hp_finish_subs, (fr_subs _ _ F2), E1.
Qed.

Lemma release_queue_subs c pid cid f s : b_subs (release_id c pid (queue_op cid f s)) = b_subs s.
Proof.
  unfold release_id, queue_op. destruct (aget cid (b_queues s)); proj;
    match goal with |- context [nget c ?l] => destruct (nget c l) end; reflexivity.
Qed.

Definition is_subpkt (p : pkt) : bool :=
  match p with KSubscribe _ _ _ => true | KUnsubscribe _ _ _ => true | _ => false end.

Lemma handle_packet_subs c k p s :
  is_subpkt p = false -> b_subs (hres_st (handle_packet c k p s)) = b_subs s.
Proof.
  intros Hp. destruct p; try discriminate; cbn [handle_packet]; try reflexivity.
  - destruct (has_wild topic); [reflexivity|].
    match goal with |- context [if ?b then HErrRead s (Some 148) else _] => destruct b end; [reflexivity|].
    match goal with |- context [if ?b then HErrRead s (Some 130) else _] => destruct b end; [reflexivity|].
    match goal with |- context [if ?b then HErrRead s (Some 147) else _] => destruct b end; [reflexivity|].
    now rewrite handle_publish_subs.
  - cbn [hres_st]. apply release_queue_subs.
  - destruct ((k_v k =? 5) && (128 <=? code)); cbn [hres_st]; [apply release_queue_subs|].
    unfold queue_op. destruct (aget (k_cid k) (b_queues s)); reflexivity.
  - cbv zeta. cbn [hres_st].
    match goal with |- b_subs (match nget c (b_conns ?S) with _ => _ end) = _ =>
      now rewrite (bump_quota_subs c S (fun k1 => (k_v k =? 5) && (k_quota k1 <? k_recv_max k1))) end.
  - cbn [hres_st]. apply release_queue_subs.
  - destruct (k_v k =? 5); [|reflexivity]. cbv zeta.
    destruct (aget (k_cid k) (b_sessions s)) as [se|]; [|reflexivity].
    match goal with |- context [if ?b then HErr s [] None else _] => destruct b end; [reflexivity|].
    cbn [hres_st]. destruct (p_sei props) as [x|]; [|reflexivity]. destruct (x =? 0); reflexivity.
Qed.

Lemma hs_fold_subsinv c k v5 subid all topics : forall acc,
  k_cid k <> [] -> ahas (k_cid k) (b_sessions (fst (fst acc))) = true -> SubsInv (fst (fst acc)) ->
  SubsInv (fst (fst (fold_left (hs_body c k v5 subid all) topics acc))).
Proof.
  induction topics as [|t r IH]; intros acc Hne Hs HS; cbn [fold_left]; [exact HS|].
  apply IH; [exact Hne| |].
  - destruct (hs_body_quiet c k v5 subid all acc t) as [[] _]. destruct wf_sess0 as [_ E]. now rewrite E.
  - destruct acc as [[s0 o0] cs]. cbn [fst] in *. unfold hs_body. cbv zeta.
    match goal with |- context [if ?b <? 128 then _ else _] => destruct (b <? 128) end; [|exact HS].
    match goal with |- context [db_subscribe ?a ?b ?d] =>
      pose proof (SubsInv_subscribe a b s0 Hne) as HH; destruct (db_subscribe a b d) as [d' existed]; set (sb := b) in * end.
    cbn [fst] in HH.
    assert (HS1 : SubsInv (set_subs d' s0)).
    { apply HH; [|exact Hs|exact HS]. unfold sb.
      match goal with |- context [opt_or ?x SAccept] => destruct (opt_or x SAccept) end;
        cbn [s_share]; unfold sub_of_req;
        match goal with |- context [split_topic ?t] =>
          pose proof (split_topic_no_slash t) as Hn; destruct (split_topic t) as [g f] end; exact Hn. }
    match goal with |- context [if ?b then replay_retained c k sb ?S else _] =>
      destruct b; [pose proof (replay_retained_quiet c k sb S) as [H1 _];
                   destruct (replay_retained c k sb S) as [s2 o2]|] end; cbn [fst] in *.
    + eapply SubsInv_frame; eauto.
    + exact HS1.
Qed.

Lemma handle_packet_subsinv c k p s :
  BInv s -> SubsInv s -> nget c (b_conns s) = Some k -> attached (k_phase k) = true ->
  SubsInv (hres_st (handle_packet c k p s)).
Proof.
  intros HI HS Hk Ha.
  pose proof (BInv_attached_online s c k HI Hk Ha) as Hon.
  assert (Hs : ahas (k_cid k) (b_sessions s) = true).
  { apply (bi_has _ _ HI). now rewrite (ahas_some _ _ _ Hon). }
  pose proof (bi_ne _ _ HI _ Hs) as Hne.
  destruct (is_subpkt p) eqn:Ep.
  - destruct p; try discriminate; cbn [handle_packet].
    + match goal with |- context [if ?b then handle_subscribe _ _ _ _ _ _ else _] => destruct b end; [|exact HS].
      rewrite handle_subscribe_eq. cbv zeta.
      match goal with |- context [if ?b then HErr s [] (Some 161) else _] => destruct b end; [exact HS|].
      destruct (h_sub_all (b_hooks s)); [exact HS|].
      match goal with |- context [fold_left (hs_body c k ?v ?sid topics) topics ?a] =>
        pose proof (hs_fold_subsinv c k v sid topics topics a Hne Hs HS) as HF;
        destruct (fold_left (hs_body c k v sid topics) topics a) as [[s' o] codes] end.
      exact HF.
    + unfold handle_unsubscribe. cbn [hres_st].
      assert (G : forall (l : list str) s0, b_sessions s0 = b_sessions s -> SubsInv s0 ->
                  SubsInv (set_subs (fold_left (fun d t => db_unsubscribe (k_cid k) t d) l (b_subs s0)) s)).
      { induction l as [|t r IH]; intros s0 Hse H0; cbn [fold_left].
        - revert H0. apply SubsInv_ext; [reflexivity|]. proj. now rewrite Hse.
        - apply (IH (set_subs (db_unsubscribe (k_cid k) t (b_subs s0)) s0)); [exact Hse|].
          now apply SubsInv_unsubscribe. }
      now apply (G topics s).
  - destruct (handle_packet_frame c k p s Hk) as [[] _]. revert HS. apply SubsInv_ext.
    + now apply handle_packet_subs.
    + intros c0 H. destruct wf_sess0 as [_ E]. now rewrite E.
Qed.

(* --- events --- *)
Definition BSInv (s : st) : Prop := BInv s /\ SubsInv s.

Lemma expire_subsinv s : BInv s -> SubsInv s ->
  SubsInv (fold_left (fun s0 cd => remove_session (fst cd) s0) (filter (fun cd => snd cd <? b_now s) (b_offline s)) s).
Proof.
  intros HI HS.
  assert (G : forall (l : list (str * N)) s0,
              (forall cd, In cd l -> ahas (fst cd) (b_online s0) = false /\ fst cd <> []) -> BInv s0 -> SubsInv s0 ->
              SubsInv (fold_left (fun s0 cd => remove_session (fst cd) s0) l s0)).
  { induction l as [|cd r IH]; intros s0 Hl H0 S0; cbn [fold_left]; [exact S0|]. apply IH.
    - intros cd' Hin. destruct (Hl cd') as [A B]; [now right|]. split; [|exact B].
      proj. rewrite ahas_adel by apply (bi_nd_on _ _ H0). rewrite A. apply andb_false_r.
    - apply BInv_remove_offline; [exact H0|]. apply Hl. now left.
    - apply SubsInv_remove; [apply Hl; now left|apply (bi_nd_sess _ _ H0)|exact S0]. }
  apply G; [|exact HI|exact HS]. intros [cid dl] Hin. apply filter_In in Hin as [Hin _]. cbn [fst].
  assert (Hoff : ahas cid (b_offline s) = true) by (apply ahas_in_keys; apply in_map_iff; now exists (cid, dl)).
  split.
  - destruct (ahas cid (b_online s)) eqn:E; [|reflexivity]. apply (bi_disj _ _ HI) in E. congruence.
  - apply (bi_ne _ _ HI). apply (bi_has _ _ HI). rewrite Hoff. apply orb_true_r.
Qed.

Lemma step_event_subsinv s e : BInv s -> SubsInv s -> SubsInv (fst (step_event s e)).
Proof.
  intros HI HS.
  assert (HSend : forall c p, SubsInv (fst (step_event s (ESend c p)))).
  { intros c p. cbn [step_event].
    destruct (nget c (b_conns s)) as [k|] eqn:Hk; [|exact HS].
    destruct (k_phase k) eqn:Ep; unfold send_unconnected; rewrite ?Ep; try exact HS.
    + assert (Ha : attached (k_phase k) = true) by now rewrite Ep.
      pose proof (handle_packet_subsinv c k p s HI HS Hk Ha) as S1.
      destruct (handle_packet_frame c k p s Hk) as [F _].
      pose proof (BInvG_cframe _ _ _ (wframe_cframe _ _ F) HI) as H1.
      destruct (handle_packet c k p s) as [s' o|s' o code|s' code]; cbn [hres_st] in *.
      * exact S1.
      * pose proof (fail_conn_subsinv c code false s' H1 S1) as H. destruct (fail_conn c code false s') as [s'' o']. exact H.
      * now apply fail_conn_subsinv.
    + destruct p; try exact HS.
      destruct ((k_v k =? 5) && (0 <? qos)); [|exact HS].
      destruct (k_quota k =? 0); [now apply (conn_gone_subsinv None)|].
      cbn [fst]. revert HS. apply SubsInv_ext; [reflexivity|auto].
    + destruct p; try exact HS.
      destruct ((k_v k =? 5) && (0 <? qos)); [|exact HS]. now apply (conn_gone_subsinv None). }
  destruct e as [c cn|c|c p|c p n|c|m|cid|ms| |ms|]; [| |apply HSend| |..]; cbn [step_event].
  - pose proof (conn_gone_inv c s HI) as H0. pose proof (conn_gone_cv_self c s) as Hc.
    pose proof (conn_gone_subsinv _ c s HI HS) as S0.
    destruct (conn_gone c s) as [s0 o0]. cbn [fst] in *.
    pose proof (handle_connect_subsinv c cn s0 H0 Hc S0) as S1. destruct (handle_connect c cn s0) as [s1 o1]. exact S1.
  - pose proof (conn_gone_subsinv _ c s HI HS) as S0. destruct (conn_gone c s) as [s0 o0]. cbn [fst] in *.
    revert S0. apply SubsInv_ext; [reflexivity|auto].
  - (* ESendSz *)
    fold (step_event s (ESendSz c p n)).
    destruct (step_event_sz s c p n) as [E|(k & Hk & Hp & _ & [[code E]|[E|[q E]]])]; rewrite E; [apply HSend| | |];
      try (now apply fail_conn_subsinv).
    apply fail_conn_subsinv.
    + eapply BInvG_frame; [|exact HI]. eapply frame_upd_conn_k; [exact Hk|reflexivity].
    + revert HS. apply SubsInv_ext; [reflexivity|auto].
  - pose proof (conn_gone_subsinv _ c s HI HS) as S0. destruct (conn_gone c s) as [s0 o0]. exact S0.
  - destruct (deliver_quiet [] m s) as [F _]. destruct (deliver [] m s) as [[s' o] b]. cbn [fst] in *.
    eapply SubsInv_frame; eauto.
  - destruct (aget cid (b_online s)) as [c|] eqn:Eo.
    + destruct (nget c (b_conns s)) as [k|] eqn:Hk; [|exact HS].
      destruct (BInv_online_attached s cid c HI Eo) as (k0 & Hk0 & Hcid & Ha & _).
      rewrite Hk in Hk0. injection Hk0 as <-.
      apply (conn_gone_subsinv (Some (k_cid k))); [now apply BInvG_set_force|].
      revert HS. apply SubsInv_ext; [reflexivity|auto].
    + destruct (ahas cid (b_offline s)) eqn:Eoff; [|exact HS].
      destruct (release_will_quiet cid (remove_session cid s)) as [F _].
      eapply SubsInv_frame; [exact F|]. apply SubsInv_remove; [|apply (bi_nd_sess _ _ HI)|exact HS].
      apply (bi_ne _ _ HI). apply (bi_has _ _ HI). rewrite Eoff. apply orb_true_r.
  - cbn [fst]. revert HS. apply SubsInv_ext; [reflexivity|auto].
  - apply (fold_inv SubsInv); [|now apply expire_subsinv].
    intros s0 o0 cd H0. destruct (release_will_quiet (fst cd) s0) as [F _].
    destruct (release_will (fst cd) s0) as [s' o']. cbn [fst] in *. eapply SubsInv_frame; eauto.
  - set (s0 := set_time (b_now s + ms) (b_rt s + ms) s).
    assert (H0 : BSInv s0).
    { split; [eapply BInvG_cframe; [apply cframe_set_time|exact HI]|]. revert HS. apply SubsInv_ext; [reflexivity|auto]. }
    match goal with |- context [fold_left ?f (b_conns s0) (s0, [])] =>
      pose proof (fold_inv BSInv f (b_conns s0)) as HF; destruct (fold_left f (b_conns s0) (s0, [])) as [s1 o1] eqn:E1 end.
    assert (H1 : BSInv s1).
    { specialize (fun H => HF H s0 [] H0). rewrite E1 in HF. apply HF.
      intros sa oa ck [Ha Sa]. destruct (k_phase (snd ck)); try (now split);
        (match goal with |- context [if ?b then _ else _] => destruct b end; [|now split]);
        pose proof (conn_gone_inv (fst ck) sa Ha) as Hg; pose proof (conn_gone_subsinv _ (fst ck) sa Ha Sa) as Sg;
        destruct (conn_gone (fst ck) sa) as [sb ob]; now split. }
    destruct (fire_wills_quiet s1) as [F _]. destruct (fire_wills s1) as [s2 o2]. cbn [fst] in *.
    eapply SubsInv_frame; [exact F|apply H1].
  - exact HS.
Qed.

Theorem step_subsinv s e : BInv s -> SubsInv s -> SubsInv (fst (step s e)).
Proof. intros HI HS. eapply SubsInv_frame; [apply step_frame_poll|]. now apply step_event_subsinv. Qed.

Theorem run_subsinv es : forall s, BInv s -> SubsInv s -> SubsInv (fst (run s es)).
Proof.
  induction es as [|e r IH]; intros s HI HS; cbn [run]; [exact HS|].
  pose proof (step_inv s e HI) as H1. pose proof (step_subsinv s e HI HS) as S1.
  destruct (step s e) as [s' o]. cbn [fst] in *.
  specialize (IH s' H1 S1). destruct (run s' r) as [s'' os]. exact IH.
Qed.

Theorem reachable_subsinv c h p es : SubsInv (fst (run (st_init c h p) es)).
Proof. apply run_subsinv; [apply BInv_init|apply SubsInv_init]. Qed.

(* ================================================================== *)
(* 15. who a message is delivered to                                   *)
(* ================================================================== *)

Fixpoint nsize (n : node) : nat :=
  match n with
  | Node _ _ _ ch => S (list_sum (map (fun p : level * node => let '(_, c) := p in nsize c) ch))
  end.

Lemma nsize_child lv c cl sh tn ch : In (lv, c) ch -> (nsize c < nsize (Node cl sh tn ch))%nat.
Proof.
  intros Hin. cbn [nsize]. induction ch as [|[lv0 c0] r IH]; [destruct Hin|].
  destruct Hin as [E|Hin]; [injection E as -> ->; simpl; lia|]. specialize (IH Hin). simpl in *. lia.
Qed.

(* every entry found by the pre-order traversal sits at some node *)
Lemma traverse_sound_n (m : nat) : forall n, (nsize n < m)%nat -> wfT n ->
  forall e, In e (traverse n) -> exists p, In e (set_rs (nd p n)).
Proof.
  induction m as [|m IH]; intros n Hm Hwf e Hin; [lia|].
  destruct n as [cl sh tn ch]. cbn [traverse] in Hin. apply in_app_or in Hin as [Hin|Hin].
  - exists []. cbn [nd]. destruct (is_empty tn); [destruct Hin|exact Hin].
  - apply in_flat_map in Hin as ([lv c] & Hc & Hin).
    pose proof (nsize_child lv c cl sh tn ch Hc) as Hlt.
    assert (Hsub : sub_child lv (Node cl sh tn ch) = c).
    { unfold sub_child, child. cbn [n_children]. now rewrite (In_aget lv c ch (Hwf [])). }
    destruct (IH c ltac:(lia) ltac:(rewrite <- Hsub; now apply wfT_child) e Hin) as [p Hp].
    exists (lv :: p). cbn [nd]. now rewrite Hsub.
Qed.

Lemma traverse_sound n e : wfT n -> In e (traverse n) -> exists p, In e (set_rs (nd p n)).
Proof. intros Hwf. apply (traverse_sound_n (S (nsize n)) n); [lia|exact Hwf]. Qed.

Lemma tmatch_sound ts n e : In e (tmatch ts n) -> exists p, In e (set_rs (nd p n)).
Proof. rewrite tmatch_cands. intros Hin. apply in_flat_map in Hin as (p & _ & Hin). now exists p. Qed.

Lemma tmatch_top_sound topic n e : In e (tmatch_top topic n) -> exists p, In e (set_rs (nd p n)).
Proof.
  unfold tmatch_top. destruct (starts_dollar topic); [|apply tmatch_sound].
  rewrite tmatch_lit_cands. intros Hin. apply in_flat_map in Hin as (p & _ & Hin). now exists p.
Qed.

Lemma node_entry_key k sp T p c sb :
  spec_ok sp -> TInv k (fun key => sp_get key sp) T -> In (c, sb) (set_rs (nd p T)) ->
  In (c, s_share sb, s_filter sb) (map fst sp).
Proof.
  intros Hok [_ HN] Hin. destruct (entry_sound k sp Hok p _ c sb (HN p) Hin) as (_ & _ & Hget).
  eapply sp_get_some_in; eauto.
Qed.

(* the entries deliverMessage iterates over all belong to clients with an entry in the specification *)
Lemma deliver_ents_clients topic d sp l :
  Inv d sp -> db_iterate (deliver_opts topic) d = IOk l ->
  forall c x, In (c, x) l -> exists sb, x = Some sb /\ In (c, s_share sb, s_filter sb) (map fst sp).
Proof.
  intros HI. pose proof (inv_ok _ _ HI) as Hok.
  assert (HT : forall k e, (In e (traverse (trie_of k d)) \/ In e (tmatch_top topic (trie_of k d))) ->
               In (fst e, s_share (snd e), s_filter (snd e)) (map fst sp)).
  { intros k [c sb] [Hin|Hin]; cbn [fst snd].
    - destruct (traverse_sound _ _ (proj1 (inv_trie _ _ HI k)) Hin) as [p Hp].
      eapply node_entry_key; eauto. apply (inv_trie _ _ HI k).
    - destruct (tmatch_top_sound _ _ _ Hin) as [p Hp]. eapply node_entry_key; eauto. apply (inv_trie _ _ HI k). }
  assert (HS : forall k (L : list (cid * sub)),
            (forall e, In e L -> In e (traverse (trie_of k d)) \/ In e (tmatch_top topic (trie_of k d))) ->
            forall c x, In (c, x) (some_ents L) -> exists sb, x = Some sb /\ In (c, s_share sb, s_filter sb) (map fst sp)).
  { intros k L HL c x Hin. unfold some_ents in Hin. apply in_map_iff in Hin as ([c' sb] & E & Hin).
    injection E as <- <-. exists sb. split; [reflexivity|]. apply (HT k (c', sb)). now apply HL. }
  unfold db_iterate, deliver_opts. cbn [io_shared io_nonshared io_sys io_topic].
  unfold iterate_shared, iterate_nonshared. cbn [io_client io_topic io_mt is_empty negb].
  change (sharedT d) with (trie_of KShared d). change (userT d) with (trie_of KUser d).
  change (sysT d) with (trie_of KSys d).
  destruct (is_empty topic) eqn:Et; cbn [negb andb].
  - intros [= <-] c x Hin. apply in_app_or in Hin as [Hin|Hin]; [|apply in_app_or in Hin as [Hin|Hin]].
    + apply (HS KShared _ (fun e H => or_introl H) c x Hin).
    + apply (HS KUser _ (fun e H => or_introl H) c x Hin).
    + apply (HS KSys _ (fun e H => or_introl H) c x Hin).
  - intros [= <-] c x Hin. apply in_app_or in Hin as [Hin|Hin]; [|apply in_app_or in Hin as [Hin|Hin]].
    + apply (HS KShared _ (fun e H => or_intror H) c x Hin).
    + destruct (starts_dollar topic); cbn [negb] in Hin; [destruct Hin|].
      apply (HS KUser _ (fun e H => or_intror H) c x Hin).
    + destruct (starts_dollar topic); cbn [negb] in Hin; [|destruct Hin].
      apply (HS KSys _ (fun e H => or_intror H) c x Hin).
Qed.

Lemma in_aset {V} (k : str) (v : V) l x : In x (aset k v l) -> x = (k, v) \/ In x l.
Proof.
  induction l as [|[k0 v0] r IH]; cbn [aset In]; intros H.
  - destruct H as [<-|[]]. now left.
  - destruct (str_eqb k k0); cbn [In] in H.
    + destruct H as [<-|H]; [now left|right; now right].
    + destruct H as [<-|H]; [right; now left|]. apply IH in H as [H|H]; [now left|right; now right].
Qed.

Lemma group_shared_other cid l : forall acc,
  (forall e, In e l -> fst e <> cid) -> (forall g, In g acc -> forall e, In e (snd g) -> fst e <> cid) ->
  forall g, In g (group_shared l acc) -> forall e, In e (snd g) -> fst e <> cid.
Proof.
  induction l as [|[c sb] r IH]; intros acc Hl Hacc; cbn [group_shared]; [exact Hacc|].
  apply IH; [intros e He; apply Hl; now right|].
  intros g Hg e He. apply in_aset in Hg as [->|Hg]; [|eapply Hacc; eauto].
  cbn [snd] in He. apply in_app_or in He as [He|[<-|[]]]; [|apply (Hl (c, sb)); now left].
  destruct (aget (full_name sb) acc) as [v|] eqn:E; cbn [opt_or] in He; [|destruct He].
  apply aget_In in E. eapply (Hacc _ E); eauto.
Qed.

Lemma group_by_client_other cid l : forall acc,
  (forall e, In e l -> fst e <> cid) -> (forall g, In g acc -> fst g <> cid) ->
  forall g, In g (group_by_client l acc) -> fst g <> cid.
Proof.
  induction l as [|[c sb] r IH]; intros acc Hl Hacc; cbn [group_by_client]; [exact Hacc|].
  apply IH; [intros e He; apply Hl; now right|].
  intros g Hg. apply in_aset in Hg as [->|Hg]; [|now apply Hacc]. cbn [fst]. apply (Hl (c, sb)). now left.
Qed.

Lemma fold_in_inv {A} (P : st -> Prop) (f : st * list out -> A -> st * list out) (l : list A) :
  (forall s0 o0 x, In x l -> P s0 -> P (fst (f (s0, o0) x))) ->
  forall s0 o0, P s0 -> P (fst (fold_left f l (s0, o0))).
Proof.
  induction l as [|x r IH]; intros Hf s0 o0 H0; cbn [fold_left]; [exact H0|].
  pose proof (Hf s0 o0 x (or_introl eq_refl) H0) as H1. destruct (f (s0, o0) x) as [s1 o1].
  apply IH; [|exact H1]. intros s2 o2 y Hy. apply Hf. now right.
Qed.

Lemma release_dropped_queues cid evs s : b_queues (release_dropped cid evs s) = b_queues s.
Proof.
  unfold release_dropped. destruct (aget cid (b_online s)) as [c|]; [|reflexivity].
  destruct (nget c (b_conns s)); reflexivity.
Qed.

Lemma add_to_queue_other cid cid' m sb ids s :
  cid' <> cid -> aget cid (b_queues (fst (add_to_queue cid' m sb ids s))) = aget cid (b_queues s).
Proof.
  intros Hne. unfold add_to_queue. destruct (aget cid' (b_queues s)) as [q|]; [|reflexivity].
  destruct (negb (c_queue_qos0 (b_cfg s)) && negb (ahas cid' (b_online s)) && (m_qos m =? 0)); [reflexivity|].
  match goal with |- context [q_add ?a ?b ?c] => destruct (q_add a b c) as [[q' evs]| | |] end; try reflexivity.
  cbn [fst]. rewrite release_dropped_queues. proj. apply aget_aset_other. congruence.
Qed.

Lemma take_pick_queues n s : b_queues (snd (take_pick n s)) = b_queues s.
Proof. unfold take_pick. destruct (b_picks s); reflexivity. Qed.

Lemma pick_queues {A} (l : list A) s i s' :
  match l with [_] => (0%nat, s) | _ => take_pick (length l) s end = (i, s') -> b_queues s' = b_queues s.
Proof.
  intros H. assert (E : s' = snd (match l with [_] => (0%nat, s) | _ => take_pick (length l) s end)) by now rewrite H.
  subst s'. destruct l as [|a [|b r]]; cbn [snd]; try apply take_pick_queues. reflexivity.
Qed.

(* a message is queued only for clients that have a matching entry *)
Lemma deliver_queue_other cid src m s :
  (forall l, db_iterate (deliver_opts (m_topic m)) (b_subs s) = IOk l -> forall c x, In (c, x) l -> c <> cid) ->
  aget cid (b_queues (fst (fst (deliver src m s)))) = aget cid (b_queues s).
Proof.
  intros Hdb. unfold deliver. cbv zeta.
  set (ents0 := match db_iterate (deliver_opts (m_topic m)) (b_subs s) with
                | IOk l => flat_map (fun e => match snd e with Some x => [(fst e, x)] | None => [] end) l
                | IPanic => []
                end).
  assert (H0 : forall e, In e ents0 -> fst e <> cid).
  { unfold ents0. destruct (db_iterate (deliver_opts (m_topic m)) (b_subs s)) as [l|]; [|intros e []].
    intros e He. apply in_flat_map in He as ([c x] & Hin & He). cbn [fst snd] in He.
    destruct x as [sb|]; [|destruct He]. destruct He as [<-|[]]. cbn [fst]. eapply Hdb; eauto. }
  set (ents := filter (fun e => negb (s_nl (snd e) && str_eqb (fst e) src)) ents0).
  assert (H1 : forall e, In e ents -> fst e <> cid).
  { intros e He. apply filter_In in He as [He _]. now apply H0. }
  set (Q := fun s0 : st => aget cid (b_queues s0) = aget cid (b_queues s)).
  dlet E1. rename s0 into s1, l into o1.
  assert (Q1 : Q s1).
  { change s1 with (fst (s1, o1)). rewrite <- E1. destruct (c_onlyonce (b_cfg s)); [reflexivity|].
    apply (fold_in_inv Q); [|reflexivity]. intros s0 o0 x Hx Hq. cbv beta iota.
    pose proof (add_to_queue_other cid (fst x) m (snd x) [s_id (snd x)] s0) as HA.
    destruct (add_to_queue (fst x) m (snd x) [s_id (snd x)] s0) as [s' o']. cbn [fst] in *. unfold Q.
    rewrite HA; [exact Hq|]. apply H1. apply filter_In in Hx. tauto. }
  dlet E2. rename s0 into s2, l into o2.
  assert (Q2 : Q s2).
  { change s2 with (fst (s2, o2)). rewrite <- E2. apply (fold_in_inv Q); [|exact Q1].
    intros s0 o0 g Hg Hq. cbv beta iota zeta.
    destruct (match snd g with [_] => (0%nat, s0) | _ => take_pick (length (snd g)) s0 end) as [i s0'] eqn:Ep.
    apply pick_queues in Ep.
    destruct (nth_error (snd g) i) as [[c s_]|] eqn:En; [|cbn [fst]; unfold Q; now rewrite Ep].
    pose proof (add_to_queue_other cid c m s_ [s_id s_] s0') as HA.
    destruct (add_to_queue c m s_ [s_id s_] s0') as [s' o']. cbn [fst] in *. unfold Q.
    rewrite HA, Ep; [exact Hq|]. apply nth_error_In in En.
    apply (group_shared_other cid _ [] (fun e He => H1 e (proj1 (proj1 (filter_In _ _ _) He)))
             (fun g0 (Hg0 : In g0 []) => match Hg0 with end) g Hg (c, s_) En). }
  dlet E3. rename s0 into s3, l into o3.
  assert (Q3 : Q s3).
  { change s3 with (fst (s3, o3)). rewrite <- E3. destruct (c_onlyonce (b_cfg s)); [|exact Q2].
    apply (fold_in_inv Q); [|exact Q2]. intros s0 o0 g Hg Hq. cbv beta iota zeta.
    match goal with |- context [nth_error ?L _] => set (best := L) end.
    destruct (match best with [_] => (0%nat, s0) | _ => take_pick (length best) s0 end) as [i s0'] eqn:Ep.
    apply pick_queues in Ep.
    destruct (nth_error best i) as [s_|]; [|cbn [fst]; unfold Q; now rewrite Ep].
    match goal with |- context [add_to_queue (fst g) m s_ ?ids s0'] =>
      pose proof (add_to_queue_other cid (fst g) m s_ ids s0') as HA;
      destruct (add_to_queue (fst g) m s_ ids s0') as [s' o'] end. cbn [fst] in *. unfold Q.
    rewrite HA, Ep; [exact Hq|].
    apply (group_by_client_other cid _ [] (fun e He => H1 e (proj1 (proj1 (filter_In _ _ _) He)))
             (fun g0 (Hg0 : In g0 []) => match Hg0 with end) g Hg). }
  cbn [fst]. exact Q3.
Qed.

(* ================================================================== *)
(* 16. C05: a fresh session is empty, a resumed one is intact          *)
(* ================================================================== *)

Definition NoSubs (cid : str) (s : st) : Prop :=
  exists ops, wf_ops ops = true /\ b_subs s = db_run ops /\
              forall g f, ~ In (cid, g, f) (map fst (spec_run ops)).

Lemma NoSubs_ext cid s s' : b_subs s' = b_subs s -> NoSubs cid s -> NoSubs cid s'.
Proof. intros E (ops & H1 & H2 & H3). exists ops. rewrite E. auto. Qed.

Lemma nil_of_no_member {A} (l : list A) : (forall x, ~ In x l) -> l = [].
Proof. destruct l as [|a r]; [reflexivity|]. intros H. exfalso. apply (H a). now left. Qed.

Lemma NoSubs_lookup cid s :
  NoSubs cid s -> cid <> [] ->
  db_iterate (q_client cid) (b_subs s) = IOk [] /\ db_iterate (q_sh_client cid) (b_subs s) = IOk [].
Proof.
  intros (ops & Hwf & Hd & Hno) Hne. rewrite Hd. split.
  - destruct (lookup_client_exact ops cid Hwf Hne) as (l & -> & _ & Hl).
    rewrite (nil_of_no_member l); [reflexivity|]. intros [c' sb] Hin. apply Hl in Hin as [-> Hget].
    apply sp_get_some_in in Hget. exact (Hno _ _ Hget).
  - destruct (sh_lookup_client_exact ops cid Hwf Hne) as (l & -> & _ & Hl).
    rewrite (nil_of_no_member l); [reflexivity|]. intros [c' sb] Hin. apply Hl in Hin as (-> & _ & Hget).
    apply sp_get_some_in in Hget. exact (Hno _ _ Hget).
Qed.

Lemma NoSubs_deliver cid s topic l :
  NoSubs cid s -> db_iterate (deliver_opts topic) (b_subs s) = IOk l -> forall c x, In (c, x) l -> c <> cid.
Proof.
  intros (ops & Hwf & Hd & Hno) Hl c x Hin ->. rewrite Hd in Hl.
  destruct (deliver_ents_clients topic _ _ l (Inv_run ops Hwf) Hl cid x Hin) as (sb & _ & Hk).
  exact (Hno _ _ Hk).
Qed.

Lemma send_will_queue_other cid cid' m s :
  NoSubs cid s -> aget cid (b_queues (fst (send_will cid' m s))) = aget cid (b_queues s).
Proof.
  intros HN. unfold send_will. destruct (will_action cid' s) as [|code| |t p q]; try reflexivity.
  - pose proof (deliver_queue_other cid cid' m (retain_update m s)) as HD.
    destruct (deliver cid' m (retain_update m s)) as [[s' o] b]. cbn [fst] in *. rewrite HD.
    + unfold retain_update. destruct (m_retained m); reflexivity.
    + intros l. apply NoSubs_deliver. revert HN. apply NoSubs_ext. unfold retain_update. destruct (m_retained m); reflexivity.
  - set (m' := with_topic_payload_qos t p q m).
    pose proof (deliver_queue_other cid cid' m' (retain_update m' s)) as HD.
    destruct (deliver cid' m' (retain_update m' s)) as [[s' o] b]. cbn [fst] in *. rewrite HD.
    + unfold retain_update. destruct (m_retained m'); reflexivity.
    + intros l. apply NoSubs_deliver. revert HN. apply NoSubs_ext. unfold retain_update. destruct (m_retained m'); reflexivity.
Qed.

Lemma hc_wills_queue_other cid o_will s :
  NoSubs cid s -> aget cid (b_queues (fst (hc_wills o_will s))) = aget cid (b_queues s).
Proof.
  intros HN. unfold hc_wills.
  apply (fold_inv (fun s0 => NoSubs cid s0 /\ aget cid (b_queues s0) = aget cid (b_queues s))); [|now split].
  intros s0 o0 cw [N0 Q0]. cbv beta iota.
  pose proof (send_will_queue_other cid (fst cw) (snd cw) s0 N0) as HQ.
  destruct (send_will_quiet (fst cw) (snd cw) s0) as [F _].
  destruct (send_will (fst cw) (snd cw) s0) as [s' o']. cbn [fst] in *. split; [|congruence].
  revert N0. apply NoSubs_ext. apply (fr_subs _ _ F).
Qed.

Lemma hc_old_nosubs cid v5 cmax r0 s :
  BInv s -> SubsInv s -> cid <> [] -> snd (hc_old cid v5 cmax r0 s) = false ->
  NoSubs cid (fst (fst (hc_old cid v5 cmax r0 s))).
Proof.
  intros HI (ops & Hwf & Hd & Hc) Hne. unfold hc_old. destruct (aget cid (b_sessions s)) as [se|] eqn:Es.
  - assert (HR : NoSubs cid (remove_session cid s)).
    { exists (ops ++ [OUnsubAll cid]).
      rewrite wf_ops_snoc, db_run_snoc, spec_run_snoc, Hwf. cbn [wf_op andb db_step spec_step].
      split; [now apply negb_true_iff, is_empty_false|]. proj. rewrite Hd. split; [reflexivity|].
      intros g f Hin. unfold sp_del_client in Hin.
      rewrite (map_fst_filter (fun k => negb (str_eqb cid (fst (fst k))))) in Hin.
      apply filter_In in Hin as [_ Hc']. cbn [fst] in Hc'. now rewrite str_eqb_refl in Hc'. }
    destruct r0.
    + pose proof (bi_has _ _ HI cid (bi_sess _ _ HI cid (ahas_some _ _ _ Es))) as (_ & Hq & Hu).
      apply ahas_true in Hq as [q Hq], Hu as [u Hu]. rewrite Hq, Hu. cbn [snd]. discriminate.
    + cbv zeta. intros _. destruct (aget cid (b_wills (remove_session cid s))) as [[w t]|]; cbn [fst]; [|exact HR].
      revert HR. apply NoSubs_ext. reflexivity.
  - intros _. cbn [fst]. exists ops. split; [exact Hwf|]. split; [exact Hd|]. intros g f Hin.
    apply Hc in Hin. apply ahas_none in Es. congruence.
Qed.

Theorem fresh_session_is_empty c cn s props :
  BInv s -> SubsInv s -> cv s c = None -> hc_rejected cn s = false ->
  In (OSend c (KConnack false 0 props)) (snd (handle_connect c cn s)) ->
  (exists q, aget (hc_cid cn s) (b_queues (fst (handle_connect c cn s))) = Some q /\ q_l q = []) /\
  aget (hc_cid cn s) (b_unacks (fst (handle_connect c cn s))) = Some [] /\
  db_iterate (q_client (hc_cid cn s)) (b_subs (fst (handle_connect c cn s))) = IOk [] /\
  db_iterate (q_sh_client (hc_cid cn s)) (b_subs (fst (handle_connect c cn s))) = IOk [].
Proof.
  intros HI HS Hc Hrej Hin. rewrite handle_connect_accepted in * by exact Hrej.
  unfold hc_accept in *. cbv zeta in *. set (cid := hc_cid cn s) in *.
  assert (HI0 : BInv (hc_auto cn s)) by (eapply BInvG_cframe; [apply wframe_cframe, hc_auto_frame|exact HI]).
  assert (Hc0 : cv (hc_auto cn s) c = None)
    by (rewrite (cf_cv _ _ (wframe_cframe _ _ (hc_auto_frame cn s))); exact Hc).
  assert (HS0 : SubsInv (hc_auto cn s)).
  { revert HS. apply SubsInv_ext; unfold hc_auto; destruct (is_empty (cn_cid cn)); auto. }
  destruct (hc_takeover_spec cid c (hc_auto cn s) HI0 Hc0) as (HI1 & _).
  pose proof (hc_takeover_subsinv cid (hc_auto cn s) HI0 HS0) as HS1.
  pose proof (hc_takeover_nosend cid (hc_auto cn s)) as Hn1.
  destruct (hc_takeover cid (hc_auto cn s)) as [s1 o_dup]. cbn [fst snd] in *.
  pose proof (hc_old_nosubs cid (cn_ver cn =? 5) (hc_cmax cn) (hc_resume0 cid cn s1) s1 HI1 HS1 (hc_cid_ne cn s)) as HN2.
  destruct (hc_old cid (cn_ver cn =? 5) (hc_cmax cn) (hc_resume0 cid cn s1) s1) as [[s2 o_will] resume].
  destruct (hc_wd_exp cn (b_cfg s)) as [wd ex].
  match type of Hin with context [hc_wills o_will ?S] =>
    pose proof (hc_wills_quiet o_will S) as [F5 D5]; pose proof (hc_wills_queue_other cid o_will S) as Q5;
    set (s4 := S) in *; destruct (hc_wills o_will s4) as [s5 o_w] end.
  cbn [fst snd] in *.
  assert (Er : resume = false).
  { apply in_app_or in Hin as [Hin|Hin]; [now apply nosend_not_in in Hin|].
    destruct Hin as [Hin|Hin]; [now injection Hin as ->|]. now apply nosend_not_in in Hin; [|apply isdrop_nosend]. }
  subst resume. specialize (HN2 eq_refl).
  assert (N4 : NoSubs cid s4) by (revert HN2; apply NoSubs_ext; reflexivity).
  rewrite (fr_u _ _ F5), (fr_subs _ _ F5), (Q5 N4).
  unfold s4, hc_register, hc_fresh. proj. rewrite !aget_aset_same.
  split; [eexists; split; [reflexivity|reflexivity]|]. split; [reflexivity|].
  apply NoSubs_lookup; [|apply hc_cid_ne]. revert HN2. apply NoSubs_ext. reflexivity.
Qed.

Lemma takeover_subs cid s :
  BInv s -> ahas cid (b_offline (fst (hc_takeover cid s))) = true -> b_subs (fst (hc_takeover cid s)) = b_subs s.
Proof.
  intros HI. unfold hc_takeover. destruct (aget cid (b_online s)) as [c0|] eqn:Eo; [|reflexivity].
  destruct (BInv_online_attached s cid c0 HI Eo) as (k0 & Hk0 & Hcid & Ha & Hf).
  destruct (conn_gone_att_spec c0 k0 s Hk0 Ha) as (s1 & o' & _ & _ & F & R). rewrite Hcid in R.
  destruct R as [H E|se Hs Hfr He E]; rewrite E; unfold store_tables; proj.
  - rewrite (fr_off _ _ F). proj. rewrite ahas_adel by apply (bi_nd_off _ _ HI). now rewrite str_eqb_refl.
  - intros _. apply (fr_subs _ _ F).
Qed.

Lemma hc_old_true cid v5 cmax r0 s s2 o_will :
  hc_old cid v5 cmax r0 s = (s2, o_will, true) ->
  exists q u, aget cid (b_queues s) = Some q /\ aget cid (b_unacks s) = Some u /\ o_will = [] /\
    s2 = set_tables (b_sessions s) (b_online s) (b_offline s) (adel cid (b_wills s))
                    (aset cid (q_init false v5 cmax q) (b_queues s)) (b_unacks s) s.
Proof.
  unfold hc_old. destruct (aget cid (b_sessions s)) as [se|]; [|discriminate]. destruct r0.
  - destruct (aget cid (b_queues s)) as [q|]; [|discriminate].
    destruct (aget cid (b_unacks s)) as [u|]; [|discriminate]. intros [= <- <-]. now exists q, u.
  - cbv zeta. destruct (aget cid (b_wills (remove_session cid s))) as [[w t]|]; discriminate.
Qed.

Theorem resumed_session_is_intact c cn s props :
  BInv s -> cv s c = None -> hc_rejected cn s = false ->
  In (OSend c (KConnack true 0 props)) (snd (handle_connect c cn s)) ->
  b_subs (fst (handle_connect c cn s)) = b_subs s /\
  aget (hc_cid cn s) (b_unacks (fst (handle_connect c cn s))) =
    aget (hc_cid cn s) (b_unacks (fst (hc_takeover (hc_cid cn s) (hc_auto cn s)))) /\
  exists q q', aget (hc_cid cn s) (b_queues (fst (hc_takeover (hc_cid cn s) (hc_auto cn s)))) = Some q /\
               aget (hc_cid cn s) (b_queues (fst (handle_connect c cn s))) = Some q' /\ q_l q' = q_l q.
Proof.
  intros HI Hc Hrej Hin. rewrite handle_connect_accepted in * by exact Hrej.
  unfold hc_accept in *. cbv zeta in *. set (cid := hc_cid cn s) in *.
  assert (HI0 : BInv (hc_auto cn s)) by (eapply BInvG_cframe; [apply wframe_cframe, hc_auto_frame|exact HI]).
  assert (Hc0 : cv (hc_auto cn s) c = None)
    by (rewrite (cf_cv _ _ (wframe_cframe _ _ (hc_auto_frame cn s))); exact Hc).
  destruct (hc_takeover_spec cid c (hc_auto cn s) HI0 Hc0) as (HI1 & Hon1 & _).
  pose proof (takeover_subs cid (hc_auto cn s) HI0) as HT.
  pose proof (hc_takeover_nosend cid (hc_auto cn s)) as Hn1.
  destruct (hc_takeover cid (hc_auto cn s)) as [s1 o_dup]. cbn [fst snd] in *.
  pose proof (hc_old_resume cid cn (cn_ver cn =? 5) (hc_cmax cn) s1 HI1 Hon1) as HA.
  destruct (hc_old cid (cn_ver cn =? 5) (hc_cmax cn) (hc_resume0 cid cn s1) s1) as [[s2 o_will] resume] eqn:E2.
  destruct (hc_wd_exp cn (b_cfg s)) as [wd ex].
  match type of Hin with context [hc_wills o_will ?S] =>
    pose proof (hc_wills_quiet o_will S) as [_ D5]; set (s4 := S) in *; destruct (hc_wills o_will s4) as [s5 o_w] eqn:E5 end.
  cbn [fst snd] in *.
  assert (Er : resume = true).
  { apply in_app_or in Hin as [Hin|Hin]; [now apply nosend_not_in in Hin|].
    destruct Hin as [Hin|Hin]; [now injection Hin as ->|]. now apply nosend_not_in in Hin; [|apply isdrop_nosend]. }
  subst resume. destruct (hc_old_true _ _ _ _ _ _ _ E2) as (q & u & Hq & Hu & -> & ->).
  destruct (proj1 HA eq_refl) as (_ & dl & Hdl & _).
  unfold hc_wills in E5. cbn [fold_left] in E5. injection E5 as <- <-.
  unfold s4, hc_register, hc_fresh. proj. split; [|split].
  - rewrite HT by (eapply ahas_some; eauto). unfold hc_auto. destruct (is_empty (cn_cid cn)); reflexivity.
  - reflexivity.
  - exists q. eexists. split; [exact Hq|]. rewrite aget_aset_same. split; reflexivity.
Qed.

(* ================================================================== *)
(* 17. the invariant, spelled out                                      *)
(* ================================================================== *)

Definition BInv_spec (s : st) : Prop :=
  (* (a) an online client id points to a socket attached to it *)
  (forall cid c, aget cid (b_online s) = Some c ->
     exists k, nget c (b_conns s) = Some k /\ k_cid k = cid /\ attached (k_phase k) = true) /\
  (* (b) an attached socket is the online entry of its client id *)
  (forall c k, nget c (b_conns s) = Some k -> attached (k_phase k) = true -> aget (k_cid k) (b_online s) = Some c) /\
  (* (c) online and offline are disjoint; they have a session, a queue, an unack set; sessions are online or offline *)
  (forall cid, ahas cid (b_online s) = true -> ahas cid (b_offline s) = false) /\
  (forall cid, ahas cid (b_online s) || ahas cid (b_offline s) = true ->
     ahas cid (b_sessions s) = true /\ ahas cid (b_queues s) = true /\ ahas cid (b_unacks s) = true) /\
  (forall cid, ahas cid (b_sessions s) = true -> ahas cid (b_online s) || ahas cid (b_offline s) = true) /\
  (* (d) no duplicate keys *)
  NoDup (map fst (b_online s)) /\ NoDup (map fst (b_offline s)) /\ NoDup (map fst (b_sessions s)) /\
  NoDup (map fst (b_queues s)) /\ NoDup (map fst (b_unacks s)) /\ NoDup (map fst (b_conns s)) /\
  NoDup (map fst (b_wills s)) /\
  (* (e) the forced-removal mark never survives on an attached socket; client ids are not empty *)
  (forall c k, nget c (b_conns s) = Some k -> attached (k_phase k) = true -> k_force_remove k = false) /\
  (forall cid, ahas cid (b_sessions s) = true -> cid <> []).

Lemma BInv_iff_spec s : BInv s <-> BInv_spec s.
Proof.
  split.
  - intros HI. unfold BInv_spec. repeat match goal with |- _ /\ _ => split end; try apply HI.
    + intros cid c H. destruct (BInv_online_attached s cid c HI H) as (k & A & B & C & _). now exists k.
    + intros c k. now apply BInv_attached_online.
    + intros c k Hk Ha. apply (bi_force _ _ HI c (k_cid k)); [apply cv_some; now exists k|discriminate].
  - intros (A & B & C1 & C2 & C3 & D1 & D2 & D3 & D4 & D5 & D6 & D7 & E1 & E2). constructor; auto.
    + intros cid c H _. destruct (A cid c H) as (k & Hk & Hc & Ha). exists (k_force_remove k). apply cv_some. now exists k.
    + intros c cid f H. apply cv_some in H as (k & Hk & <- & Ha & _). now apply B.
    + intros c cid f H _. apply cv_some in H as (k & Hk & _ & Ha & <-). now apply (E1 c).
Qed.

Lemma session_alive_def (cid : str) (s : st) :
  session_alive cid s <->
  (exists dl, aget cid (b_offline s) = Some dl /\ b_now s <= dl) \/
  (exists c0 k0 se, aget cid (b_online s) = Some c0 /\ nget c0 (b_conns s) = Some k0 /\
                    aget cid (b_sessions s) = Some se /\ takeover_expiry k0 se (b_cfg s) <> 0).
Proof. reflexivity. Qed.

Lemma takeover_expiry_def (k : conn) (se : session) (cf : cfg) :
  takeover_expiry k se cf =
  if (k_v k =? 5) && k_got_disconnect k
  then N.min (match k_disc_sei k with Some x => x | None => se_expiry se end) (c_session_expiry cf)
  else se_expiry se.
Proof. reflexivity. Qed.

Lemma connect_expiry_def (cn : connect) (cf : cfg) :
  connect_expiry cn cf =
  if cn_ver cn =? 5 then match p_sei (cn_props cn) with Some i => N.min i (c_session_expiry cf) | None => 0 end
  else if cn_clean cn then 0 else c_session_expiry cf.
Proof. reflexivity. Qed.

(* Session Present at the level of a whole step: the socket's previous connection, if any, ends first *)
Theorem resume_iff_step c cn s sp props :
  BInv s -> hc_rejected cn s = false ->
  In (OSend c (KConnack sp 0 props)) (snd (step_event s (EConnect c cn))) ->
  (sp = true <-> cn_clean cn = false /\
                 session_alive (hc_cid cn (fst (conn_gone c s))) (fst (conn_gone c s))).
Proof.
  intros HI Hrej Hin. cbn [step_event] in Hin.
  pose proof (conn_gone_inv c s HI) as H0. pose proof (conn_gone_cv_self c s) as Hc.
  pose proof (conn_gone_nosend c s) as Hn. pose proof (conn_gone_misc c s) as (Hcfg & Hhooks & _).
  destruct (conn_gone c s) as [s0 o0]. cbn [fst snd] in *.
  pose proof (resume_iff c cn s0 sp props H0 Hc) as HR.
  destruct (handle_connect c cn s0) as [s1 o1]. cbn [snd] in *.
  apply in_app_or in Hin as [Hin|Hin].
  - apply filter_In in Hin as [Hin _]. now apply nosend_not_in in Hin.
  - apply HR; [|exact Hin]. now rewrite (hc_rejected_ext cn s s0 Hhooks Hcfg).
Qed.

(* `hc_rejected cn s = false` is exactly "the CONNACK carries reason code 0" *)
Lemma connack_success_iff c cn s :
  hc_rejected cn s = false <-> exists sp props, In (OSend c (KConnack sp 0 props)) (snd (handle_connect c cn s)).
Proof.
  split.
  - intros H. rewrite (handle_connect_accepted c cn s H). apply accept_sends_connack.
  - intros (sp & props & Hin). rewrite handle_connect_eq in Hin. unfold hc_rejected.
    destruct (negb (c_allow_zero_len (b_cfg s)) && is_empty (cn_cid cn)); cbn [orb].
    + destruct Hin as [Hin|[]]. discriminate.
    + destruct (hc_code cn s =? 0) eqn:E0; [reflexivity|]. cbn [negb] in *. exfalso.
      destruct Hin as [Hin|[]]. injection Hin as _ Hc _. apply N.eqb_neq in E0.
      destruct (negb (cn_ver cn =? 5) && (5 <? hc_code cn s)); [discriminate|congruence].
Qed.

(* ================================================================== *)
(* 18. concrete scenarios (non-vacuity)                                *)
(* ================================================================== *)

Definition ex_cfg : cfg :=
  {| c_onlyonce := false; c_max_inflight := 10; c_max_queued := 10; c_queue_qos0 := true;
     c_session_expiry := 100; c_message_expiry := 0; c_recv_max := 10; c_alias_max := 0; c_max_packet := 1000;
     c_max_qos := 2; c_retain_avail := true; c_wildcard := true; c_subid := true; c_shared := true;
     c_max_keepalive := 60; c_allow_zero_len := true; c_inflight_expiry := 0 |}.

(* client "a", MQTT 3.1.1 *)
Definition ex_cn (clean : bool) : connect :=
  {| cn_ver := 4; cn_cid := [97]; cn_clean := clean; cn_keepalive := 0; cn_user := None; cn_pass := None;
     cn_will := None; cn_props := [] |}.
(* client "b", MQTT 5 with Session Expiry Interval 30 *)
Definition ex_cn5 : connect :=
  {| cn_ver := 5; cn_cid := [98]; cn_clean := false; cn_keepalive := 0; cn_user := None; cn_pass := None;
     cn_will := None; cn_props := [PSei 30] |}.
Definition ex_sub : pkt :=
  KSubscribe 1 [] [{| tq_name := [116]; tq_qos := 1; tq_nl := false; tq_rap := false; tq_rh := 0 |}].
Definition ex_msg : msg :=
  {| m_dup := false; m_qos := 1; m_retained := false; m_topic := [116]; m_payload := [120]; m_pid := 0;
     m_ctype := []; m_corr := []; m_expiry := 0; m_pfmt := 0; m_resp := []; m_subids := []; m_uprops := [] |}.

(* "a" connected on socket 1 and subscribed to "t" *)
Definition ex_s1 : st := fst (run (st_init ex_cfg no_hooks []) [EConnect 1 (ex_cn false); ESend 1 ex_sub]).
(* ... its connection closed, a message queued for it *)
Definition ex_s2 : st := fst (run ex_s1 [EClose 1; EApiPublish ex_msg]).
(* ... and its session expired *)
Definition ex_s3 : st := fst (run ex_s2 [EAdvance 200000]).
(* "b" (v5) connected on socket 3 *)
Definition ex_s5 : st := fst (run (st_init ex_cfg no_hooks []) [EConnect 3 ex_cn5]).
