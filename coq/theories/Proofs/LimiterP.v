(* Proofs about the models of Model/Limiter.v, for all histories:
   1. packet id limiter: invariant, freshness of polled ids, absence of the busy-loop hang
      (pigeonhole), window bound, refinement of the abstract window machine of Oracle/C03O.v;
   2. FIFO topic alias manager: invariant, no panic, refinement of the client-side alias table;
   3. unack set: refinement of the set specification, exactly-once core. *)
From Coq Require Import List NArith ZArith Bool Arith Lia ZifyN ZifyNat ZifyBool Permutation.
Import ListNotations.
From GM Require Import Base.Topic Model.Limiter Oracle.C03O Proofs.TopicP.
Open Scope N_scope.

Ltac Zify.zify_post_hook ::= Z.div_mod_to_equations.

(* ------------------------------------------------------------------ *)
(* 0. helpers                                                          *)
(* ------------------------------------------------------------------ *)

Lemma MAXPID_val : MAXPID = 65535. Proof. reflexivity. Qed.
Lemma U16_val : U16 = 65536. Proof. reflexivity. Qed.

(* arithmetic with the constants made visible to lia; never use simpl on such goals *)
Ltac clia := rewrite ?MAXPID_val, ?U16_val in *; lia.

Lemma mod_add1 u : u + 1 <= MAXPID -> (u + 1) mod U16 = u + 1.
Proof. intros Hu. clia. Qed.

Lemma mod_sub1 u : 1 <= u <= MAXPID -> (u + U16 - 1) mod U16 = u - 1.
Proof. intros Hu. clia. Qed.

Lemma mod_remain u lim : u < lim -> lim <= MAXPID -> (lim + U16 - u) mod U16 = lim - u.
Proof. intros Hu Hl. clia. Qed.

Lemma mod_small u : u <= MAXPID -> u mod U16 = u.
Proof. intros Hu. clia. Qed.

Lemma memN_In x l : memN x l = true <-> In x l.
Proof.
  induction l as [|y r IH]; cbn [memN In].
  - split; [discriminate | tauto].
  - rewrite orb_true_iff, IH, N.eqb_eq. split; intros [H|H]; auto.
Qed.

Lemma memN_notIn x l : memN x l = false <-> ~ In x l.
Proof. rewrite <- memN_In. destruct (memN x l); split; intros H; congruence. Qed.

Lemma memN_ext x a b : (forall i, In i a <-> In i b) -> memN x a = memN x b.
Proof.
  intros H. destruct (memN x b) eqn:E.
  - apply memN_In. apply H. now apply memN_In.
  - apply memN_notIn. intros Hin. apply memN_notIn in E. apply E. now apply H.
Qed.

Lemma In_delN x id l : In x (delN id l) <-> In x l /\ x <> id.
Proof.
  induction l as [|y r IH]; cbn [delN In]; [tauto|].
  destruct (id =? y) eqn:E.
  - apply N.eqb_eq in E. subst y. rewrite IH. split; [tauto|].
    intros [[H|H] Hn]; [congruence|tauto].
  - apply N.eqb_neq in E. cbn [In]. rewrite IH. split.
    + intros [H|[H Hn]]; [subst; split; auto|tauto].
    + intros [[H|H] Hn]; auto.
Qed.

Lemma NoDup_delN id l : NoDup l -> NoDup (delN id l).
Proof.
  induction 1 as [|y r Hy Hr IH]; cbn [delN]; [constructor|].
  destruct (id =? y); auto. constructor; auto. rewrite In_delN. tauto.
Qed.

Lemma delN_notIn id l : ~ In id l -> delN id l = l.
Proof.
  induction l as [|y r IH]; cbn [delN In]; intros H; [reflexivity|].
  destruct (id =? y) eqn:E.
  - apply N.eqb_eq in E. subst. tauto.
  - f_equal. apply IH. tauto.
Qed.

Lemma length_delN id l : NoDup l -> In id l -> S (length (delN id l)) = length l.
Proof.
  induction 1 as [|y r Hy Hr IH]; cbn [delN In length]; [tauto|].
  intros [H|H].
  - subst. rewrite N.eqb_refl. rewrite delN_notIn; auto.
  - destruct (id =? y) eqn:E.
    + apply N.eqb_eq in E; subst; contradiction.
    + cbn [length]. rewrite IH; auto.
Qed.

Lemma NoDup_snoc {A} (l : list A) x : NoDup l -> ~ In x l -> NoDup (l ++ [x]).
Proof.
  intros Hl Hx. apply Permutation_NoDup with (x :: l); [apply Permutation_cons_append|].
  constructor; auto.
Qed.

Lemma NoDup_map_inj {A B} (f : A -> B) l :
  (forall x y, In x l -> In y l -> f x = f y -> x = y) -> NoDup l -> NoDup (map f l).
Proof.
  intros Hinj Hnd. induction Hnd as [|x r Hx Hr IH]; cbn [map]; constructor.
  - intros Hin. apply in_map_iff in Hin. destruct Hin as [y [Hy Hiny]].
    assert (Hyx : y = x) by (apply Hinj; cbn [In]; auto). subst. contradiction.
  - apply IH. intros a b Ha Hb. apply Hinj; cbn [In]; auto.
Qed.

(* pigeonhole, size form: a duplicate-free list of ids in 1..M has at most M entries *)
Lemma bounded_length (l : list N) M :
  NoDup l -> (forall i, In i l -> 1 <= i <= M) -> N.of_nat (length l) <= M.
Proof.
  intros Hnd Hr.
  assert (Hincl : incl l (map N.of_nat (seq 1 (N.to_nat M)))).
  { intros i Hi. apply Hr in Hi. apply in_map_iff. exists (N.to_nat i). split; [lia|].
    apply in_seq. lia. }
  apply (NoDup_incl_length Hnd) in Hincl. rewrite map_length, seq_length in Hincl. lia.
Qed.

Lemma nodupN_NoDup l : NoDup l -> nodupN l = true.
Proof.
  induction 1 as [|y r Hy Hr IH]; cbn [nodupN]; [reflexivity|].
  rewrite IH, andb_true_r. apply negb_true_iff. now apply memN_notIn.
Qed.

(* ------------------------------------------------------------------ *)
(* 1. packet id limiter                                                *)
(* ------------------------------------------------------------------ *)

Definition LimInv (l : lim) : Prop :=
  NoDup (l_locked l) /\ ~ In 0%N (l_locked l) /\ (forall i, In i (l_locked l) -> (1 <= i <= MAXPID)%N) /\
  l_used l = N.of_nat (length (l_locked l)) /\ (1 <= l_free l <= MAXPID)%N.

(* callers never mark an id that is already locked, and only use ids in 1..65535 *)
Definition wf_lop (l : lim) (o : lop) : bool :=
  match o with
  | LMark id => (1 <=? id) && (id <=? MAXPID) && negb (memN id (l_locked l))
  | LSetFree p => (1 <=? p) && (p <=? MAXPID)
  | _ => true
  end.

Fixpoint wf_lrun (l : lim) (ops : list lop) : bool :=
  match ops with
  | [] => true
  | o :: r => wf_lop l o && wf_lrun (fst (lim_step l o)) r
  end.

Lemma lim_inv_init limit : LimInv (lim_new limit).
Proof.
  unfold LimInv, lim_new; cbn [l_locked l_used l_free length In].
  repeat split; try tauto; try constructor; try clia.
Qed.

Lemma lim_used_bound l : LimInv l -> l_used l <= MAXPID.
Proof.
  intros (Hnd & _ & Hr & Hu & _). rewrite Hu. now apply bounded_length.
Qed.

Lemma next_pid_range p : 1 <= p <= MAXPID -> 1 <= next_pid p <= MAXPID.
Proof. intros Hp. unfold next_pid. destruct (p =? MAXPID) eqn:E; clia. Qed.

Lemma find_free_some fuel locked : forall p q, 1 <= p <= MAXPID ->
  find_free fuel locked p = Some q -> 1 <= q <= MAXPID /\ ~ In q locked.
Proof.
  induction fuel as [|k IH]; intros p q Hp H; cbn [find_free] in H; [discriminate|].
  destruct (memN p locked) eqn:E.
  - eapply IH; [|exact H]. now apply next_pid_range.
  - injection H as <-. split; auto. now apply memN_notIn.
Qed.

(* the j-th id visited by the scan that starts at p *)
Definition orb (p : N) (j : nat) : N := (p - 1 + N.of_nat j) mod MAXPID + 1.

Lemma orb_0 p : 1 <= p <= MAXPID -> orb p 0 = p.
Proof. intros Hp. unfold orb. clia. Qed.

Lemma orb_S p j : 1 <= p <= MAXPID -> orb p (S j) = orb (next_pid p) j.
Proof.
  intros Hp. unfold orb, next_pid. destruct (p =? MAXPID) eqn:E; clia.
Qed.

Lemma orb_inj p j1 j2 : N.of_nat j1 < MAXPID -> N.of_nat j2 < MAXPID -> orb p j1 = orb p j2 -> j1 = j2.
Proof. unfold orb. intros H1 H2 H. clia. Qed.

Lemma find_free_none locked : forall fuel p, 1 <= p <= MAXPID -> find_free fuel locked p = None ->
  forall j, (j < fuel)%nat -> In (orb p j) locked.
Proof.
  induction fuel as [|k IH]; intros p Hp H j Hj; [lia|].
  cbn [find_free] in H. destruct (memN p locked) eqn:E; [|discriminate].
  destruct j as [|j].
  - rewrite orb_0 by exact Hp. now apply memN_In.
  - rewrite orb_S by exact Hp. apply IH; [now apply next_pid_range|exact H|lia].
Qed.

(* pigeonhole: the scan cannot see S (length locked) locked ids in a row *)
Lemma find_free_total locked p : 1 <= p <= MAXPID -> N.of_nat (length locked) < MAXPID ->
  find_free (S (length locked)) locked p <> None.
Proof.
  intros Hp Hlen H.
  pose proof (find_free_none locked _ p Hp H) as Hall.
  assert (Hnd : NoDup (map (orb p) (seq 0 (S (length locked))))).
  { apply NoDup_map_inj; [|apply seq_NoDup].
    intros x y Hx Hy Hxy. apply in_seq in Hx. apply in_seq in Hy.
    apply (orb_inj p); [lia|lia|exact Hxy]. }
  assert (Hincl : incl (map (orb p) (seq 0 (S (length locked)))) locked).
  { intros i Hi. apply in_map_iff in Hi. destruct Hi as [j [<- Hj]]. apply in_seq in Hj.
    apply Hall. lia. }
  apply (NoDup_incl_length Hnd) in Hincl. rewrite map_length, seq_length in Hincl. lia.
Qed.

Definition poll1 (l : lim) (p : N) : lim :=
  {| l_used := (l_used l + 1) mod U16; l_limit := l_limit l; l_exit := l_exit l;
     l_locked := p :: l_locked l; l_free := next_pid p |}.

Lemma poll_n_S k l acc :
  poll_n (S k) l acc =
  match find_free (S (length (l_locked l))) (l_locked l) (l_free l) with
  | None => None
  | Some p => poll_n k (poll1 l p) (acc ++ [p])
  end.
Proof. reflexivity. Qed.

Lemma poll1_inv l p : LimInv l -> l_used l + 1 <= MAXPID -> 1 <= p <= MAXPID -> ~ In p (l_locked l) ->
  LimInv (poll1 l p) /\ l_used (poll1 l p) = l_used l + 1.
Proof.
  intros (Hnd & H0 & Hr & Hu & Hf) Hb Hp Hfresh.
  unfold LimInv, poll1; cbn [l_locked l_used l_free length In].
  rewrite mod_add1 by exact Hb.
  repeat split.
  - constructor; auto.
  - intros [H|H]; [lia|tauto].
  - destruct H as [H|H]; [lia|apply Hr, H].
  - destruct H as [H|H]; [lia|apply Hr, H].
  - lia.
  - apply next_pid_range, Hp.
  - apply next_pid_range, Hp.
Qed.

Lemma poll_n_spec n : forall l acc l' ids,
  LimInv l -> l_used l + N.of_nat n <= l_limit l -> l_limit l <= MAXPID ->
  poll_n n l acc = Some (l', ids) ->
  LimInv l' /\ l_limit l' = l_limit l /\ l_exit l' = l_exit l /\ l_used l' = l_used l + N.of_nat n /\
  exists new, ids = acc ++ new /\ length new = n /\ NoDup new /\
    (forall i, In i new -> 1 <= i <= MAXPID /\ ~ In i (l_locked l)) /\
    (forall i, In i (l_locked l') <-> In i new \/ In i (l_locked l)).
Proof.
  induction n as [|k IH]; intros l acc l' ids Hinv Hwin Hlim H.
  - cbn [poll_n] in H. injection H as <- <-.
    refine (conj Hinv (conj eq_refl (conj eq_refl (conj _ _)))); [lia|].
    exists []. rewrite app_nil_r. cbn [In length].
    refine (conj eq_refl (conj eq_refl (conj (NoDup_nil _) (conj _ _)))); intros i; tauto.
  - rewrite poll_n_S in H.
    destruct (find_free (S (length (l_locked l))) (l_locked l) (l_free l)) as [p|] eqn:Eff; [|discriminate].
    assert (Hfree : 1 <= l_free l <= MAXPID) by apply Hinv.
    destruct (find_free_some _ _ _ _ Hfree Eff) as [Hp Hfresh].
    destruct (poll1_inv l p Hinv ltac:(lia) Hp Hfresh) as [Hinv1 Hu1].
    assert (Hlim1 : l_limit (poll1 l p) = l_limit l) by reflexivity.
    assert (Hex1 : l_exit (poll1 l p) = l_exit l) by reflexivity.
    assert (Hlk1 : l_locked (poll1 l p) = p :: l_locked l) by reflexivity.
    destruct (IH (poll1 l p) (acc ++ [p]) l' ids Hinv1 ltac:(lia) ltac:(lia) H)
      as (Hinv' & Hl' & He' & Hu' & new & Hids & Hlen & Hnd & Hfr & Hlk).
    refine (conj Hinv' (conj _ (conj _ (conj _ _)))); [congruence|congruence|lia|].
    exists (p :: new). rewrite Hlk1 in *.
    refine (conj _ (conj _ (conj _ (conj _ _)))).
    + rewrite Hids, <- app_assoc. reflexivity.
    + cbn [length]. lia.
    + constructor; auto. intros Hin. apply Hfr in Hin. cbn [In] in Hin. tauto.
    + intros i [<-|Hin]; [tauto|]. apply Hfr in Hin. cbn [In] in Hin. tauto.
    + intros i. rewrite Hlk. cbn [In]. tauto.
Qed.

Lemma poll_n_total n : forall l acc,
  LimInv l -> l_used l + N.of_nat n <= l_limit l -> l_limit l <= MAXPID ->
  poll_n n l acc <> None.
Proof.
  induction n as [|k IH]; intros l acc Hinv Hwin Hlim; [discriminate|].
  rewrite poll_n_S.
  destruct (find_free (S (length (l_locked l))) (l_locked l) (l_free l)) as [p|] eqn:Eff.
  - assert (Hfree : 1 <= l_free l <= MAXPID) by apply Hinv.
    destruct (find_free_some _ _ _ _ Hfree Eff) as [Hp Hfresh].
    destruct (poll1_inv l p Hinv ltac:(lia) Hp Hfresh) as [Hinv1 Hu1].
    apply IH; auto; cbn [poll1 l_limit]; lia.
  - exfalso. revert Eff. apply find_free_total; [apply Hinv|].
    destruct Hinv as (_ & _ & _ & Hu & _). lia.
Qed.

Lemma poll_count_min remain max : (if remain <? max then remain else max) = N.min max remain.
Proof. destruct (remain <? max) eqn:E; lia. Qed.

(* complete case analysis of pollPacketIDs under the invariant *)
Lemma lim_poll_cases l max : LimInv l -> l_limit l <= MAXPID ->
  (l_limit l <= l_used l /\ l_exit l = false /\ lim_poll max l = (l, PBlocked)) \/
  (l_exit l = true /\ lim_poll max l = (l, PExit)) \/
  (l_used l < l_limit l /\ l_exit l = false /\ max = 0 /\ lim_poll max l = (l, PExit)) \/
  (l_used l < l_limit l /\ l_exit l = false /\ 0 < max /\
   exists l' ids, lim_poll max l = (l', PIds ids) /\
                  poll_n (N.to_nat (N.min max (l_limit l - l_used l))) l [] = Some (l', ids)).
Proof.
  intros Hinv Hlim. unfold lim_poll.
  destruct (l_exit l) eqn:Eex.
  - right; left. split; [reflexivity|]. rewrite andb_false_r. reflexivity.
  - rewrite andb_true_r. destruct (l_limit l <=? l_used l) eqn:Ecmp.
    + left. repeat split; auto. lia.
    + right; right. assert (Hlt : l_used l < l_limit l) by lia.
      rewrite mod_remain by assumption. rewrite poll_count_min.
      remember (N.min max (l_limit l - l_used l)) as n eqn:En.
      destruct (poll_n (N.to_nat n) l []) as [[l' ids]|] eqn:Epoll.
      * destruct (poll_n_spec (N.to_nat n) l [] l' ids Hinv ltac:(lia) Hlim Epoll)
          as (_ & _ & _ & _ & new & Hids & Hlen & _).
        cbn [app] in Hids. subst new.
        destruct ids as [|i ids].
        -- left. cbn [length] in Hlen. assert (Hn : N.to_nat n = 0%nat) by lia.
           rewrite Hn in Epoll. cbn [poll_n] in Epoll. injection Epoll as <-.
           repeat split; auto. lia.
        -- right. cbn [length] in Hlen. repeat split; auto; [lia|].
           exists l', (i :: ids). split; reflexivity.
      * exfalso. revert Epoll. apply poll_n_total; auto. lia.
Qed.

Lemma lim_poll_fresh l max l' ids : LimInv l -> (l_limit l <= MAXPID)%N -> lim_poll max l = (l', PIds ids) ->
  NoDup ids /\ (forall i, In i ids -> (1 <= i <= MAXPID)%N /\ ~ In i (l_locked l)) /\
  N.of_nat (length ids) = N.min max (l_limit l - l_used l) /\ (l_used l' <= l_limit l)%N.
Proof.
  intros Hinv Hlim H.
  destruct (lim_poll_cases l max Hinv Hlim)
    as [(_ & _ & E)|[(_ & E)|[(_ & _ & _ & E)|(Hlt & Hex & Hmax & l2 & ids2 & E & Epoll)]]];
    rewrite E in H; try discriminate.
  destruct (poll_n_spec (N.to_nat (N.min max (l_limit l - l_used l))) l [] l2 ids2 Hinv ltac:(lia) Hlim Epoll)
    as (_ & _ & _ & Hu & new & Hids & Hlen & Hnd & Hfr & _).
  cbn [app] in Hids. subst new. injection H as El Ei. subst l' ids. repeat split; auto; try apply Hfr; auto; lia.
Qed.

Lemma lim_poll_never_hangs l max : LimInv l -> (l_limit l <= MAXPID)%N -> snd (lim_poll max l) <> PHang.
Proof.
  intros Hinv Hlim.
  destruct (lim_poll_cases l max Hinv Hlim)
    as [(_ & _ & E)|[(_ & E)|[(_ & _ & _ & E)|(_ & _ & _ & l2 & ids2 & E & _)]]];
    rewrite E; discriminate.
Qed.

(* what a poll does to the state *)
Lemma lim_poll_state l max : LimInv l -> l_limit l <= MAXPID ->
  LimInv (fst (lim_poll max l)) /\ l_limit (fst (lim_poll max l)) = l_limit l /\
  l_exit (fst (lim_poll max l)) = l_exit l /\
  l_used l <= l_used (fst (lim_poll max l)) <= N.max (l_used l) (l_limit l).
Proof.
  intros Hinv Hlim.
  destruct (lim_poll_cases l max Hinv Hlim)
    as [(_ & _ & E)|[(_ & E)|[(_ & _ & _ & E)|(Hlt & Hex & Hmax & l2 & ids2 & E & Epoll)]]];
    rewrite E; cbn [fst]; try (refine (conj Hinv (conj eq_refl (conj eq_refl _))); lia).
  destruct (poll_n_spec (N.to_nat (N.min max (l_limit l - l_used l))) l [] l2 ids2 Hinv ltac:(lia) Hlim Epoll) as (Hinv2 & Hl & He & Hu & _).
  refine (conj Hinv2 (conj Hl (conj He _))). lia.
Qed.

Lemma release_inv id l : LimInv l ->
  LimInv (lim_release id l) /\ l_limit (lim_release id l) = l_limit l /\
  l_exit (lim_release id l) = l_exit l /\ l_used (lim_release id l) <= l_used l /\
  l_used (lim_release id l) = (if memN id (l_locked l) then l_used l - 1 else l_used l) /\
  l_locked (lim_release id l) = delN id (l_locked l).
Proof.
  intros Hinv. pose proof (lim_used_bound l Hinv) as Hub.
  destruct Hinv as (Hnd & H0 & Hr & Hu & Hf).
  unfold lim_release. destruct (memN id (l_locked l)) eqn:E.
  - apply memN_In in E. pose proof (length_delN id _ Hnd E) as Hlen.
    unfold LimInv; cbn [l_locked l_used l_free l_limit l_exit].
    rewrite mod_sub1 by lia.
    repeat split; auto; try lia.
    + now apply NoDup_delN.
    + rewrite In_delN. tauto.
    + apply In_delN in H. apply Hr, H.
    + apply In_delN in H. apply Hr, H.
  - apply memN_notIn in E. rewrite delN_notIn by exact E.
    repeat split; auto; try lia; apply Hr; auto.
Qed.

Lemma batch_inv ids : forall l, LimInv l ->
  LimInv (lim_batch_release ids l) /\ l_limit (lim_batch_release ids l) = l_limit l /\
  l_exit (lim_batch_release ids l) = l_exit l /\ l_used (lim_batch_release ids l) <= l_used l.
Proof.
  unfold lim_batch_release.
  induction ids as [|id r IH]; intros l Hinv; cbn [fold_left].
  - refine (conj Hinv (conj eq_refl (conj eq_refl _))). lia.
  - destruct (release_inv id l Hinv) as (Hinv1 & Hl1 & He1 & Hu1 & _).
    destruct (IH _ Hinv1) as (Hinv2 & Hl2 & He2 & Hu2).
    refine (conj Hinv2 (conj _ (conj _ _))); [congruence|congruence|lia].
Qed.

Lemma mark_inv id l : LimInv l -> 1 <= id <= MAXPID -> ~ In id (l_locked l) ->
  LimInv (lim_mark id l) /\ l_used (lim_mark id l) = l_used l + 1 /\
  l_locked (lim_mark id l) = id :: l_locked l.
Proof.
  intros Hinv Hid Hfresh.
  assert (Hb : l_used l + 1 <= MAXPID).
  { destruct Hinv as (Hnd & H0 & Hr & Hu & Hf). rewrite Hu.
    assert (Hlen : N.of_nat (length (id :: l_locked l)) <= MAXPID).
    { apply bounded_length; [constructor; auto|]. intros i [<-|Hi]; auto. }
    cbn [length] in Hlen. lia. }
  destruct (poll1_inv l id Hinv Hb Hid Hfresh) as [(Hnd & H0 & Hr & Hu & _) Hu1].
  unfold poll1 in *. cbn [l_locked l_used l_free] in *.
  apply memN_notIn in Hfresh. unfold lim_mark, LimInv. rewrite Hfresh.
  cbn [l_locked l_used l_free].
  assert (Hf : 1 <= l_free l <= MAXPID) by apply Hinv.
  refine (conj (conj Hnd (conj H0 (conj Hr (conj Hu Hf)))) (conj Hu1 eq_refl)).
Qed.

Lemma wf_mark l id : wf_lop l (LMark id) = true -> 1 <= id <= MAXPID /\ ~ In id (l_locked l).
Proof.
  cbn [wf_lop]. rewrite !andb_true_iff, negb_true_iff, memN_notIn. intros [[H1 H2] H3].
  split; [lia|exact H3].
Qed.

Lemma lim_step_state l o : LimInv l -> l_limit l <= MAXPID -> wf_lop l o = true ->
  LimInv (fst (lim_step l o)) /\ l_limit (fst (lim_step l o)) = l_limit l.
Proof.
  intros Hinv Hlim Hwf. destruct o as [max|id|ids|id|  |p]; cbn [lim_step].
  - destruct (lim_poll max l) as [l' r] eqn:E. cbn [fst].
    pose proof (lim_poll_state l max Hinv Hlim) as Hs. rewrite E in Hs. cbn [fst] in Hs. tauto.
  - cbn [fst]. pose proof (release_inv id l Hinv). tauto.
  - cbn [fst]. pose proof (batch_inv ids l Hinv). tauto.
  - cbn [fst]. destruct (wf_mark _ _ Hwf) as [Hid Hfresh].
    split; [|reflexivity]. now apply mark_inv.
  - cbn [fst]. split; [|reflexivity]. exact Hinv.
  - cbn [fst]. split; [|reflexivity]. cbn [wf_lop] in Hwf.
    destruct Hinv as (Hnd & H0 & Hr & Hu & Hf).
    unfold LimInv, lim_set_free; cbn [l_locked l_used l_free].
    refine (conj Hnd (conj H0 (conj Hr (conj Hu _)))). lia.
Qed.

Lemma lim_inv_step l o : LimInv l -> (l_limit l <= MAXPID)%N -> wf_lop l o = true -> LimInv (fst (lim_step l o)).
Proof. intros Hinv Hlim Hwf. now apply lim_step_state. Qed.

(* The window: a poll never pushes `used` above max(used, limit) (so never above the limit when
   it was within it), a well-formed mark adds exactly one (it is not limited), releases never
   increase it, close/set-free leave it alone. *)
Lemma lim_window l : LimInv l -> l_limit l <= MAXPID -> forall o, wf_lop l o = true ->
  match o with
  | LPoll _ => l_used l <= l_used (fst (lim_step l o)) <= N.max (l_used l) (l_limit l)
  | LMark _ => l_used (fst (lim_step l o)) = l_used l + 1
  | LRelease id => l_used (fst (lim_step l o)) = if memN id (l_locked l) then l_used l - 1 else l_used l
  | LBatch _ => l_used (fst (lim_step l o)) <= l_used l
  | LClose | LSetFree _ => l_used (fst (lim_step l o)) = l_used l
  end.
Proof.
  intros Hinv Hlim o Hwf. destruct o as [max|id|ids|id|  |p]; cbn [lim_step].
  - destruct (lim_poll max l) as [l' r] eqn:E. cbn [fst].
    pose proof (lim_poll_state l max Hinv Hlim) as Hs. rewrite E in Hs. cbn [fst] in Hs. tauto.
  - cbn [fst]. pose proof (release_inv id l Hinv). tauto.
  - cbn [fst]. pose proof (batch_inv ids l Hinv). tauto.
  - cbn [fst]. destruct (wf_mark _ _ Hwf) as [Hid Hfresh]. now apply mark_inv.
  - reflexivity.
  - reflexivity.
Qed.

Fixpoint count_marks (ops : list lop) : N :=
  match ops with [] => 0 | LMark _ :: r => 1 + count_marks r | _ :: r => count_marks r end.

Lemma lim_run_window_gen ops : forall l, LimInv l -> l_limit l <= MAXPID -> wf_lrun l ops = true ->
  LimInv (fst (lim_run l ops)) /\ l_limit (fst (lim_run l ops)) = l_limit l /\
  l_used (fst (lim_run l ops)) <= N.max (l_used l) (l_limit l) + count_marks ops.
Proof.
  induction ops as [|o r IH]; intros l Hinv Hlim Hwf; cbn [lim_run wf_lrun] in *.
  - cbn [fst count_marks]. refine (conj Hinv (conj eq_refl _)). lia.
  - apply andb_true_iff in Hwf. destruct Hwf as [Hwo Hwr].
    destruct (lim_step_state l o Hinv Hlim Hwo) as [Hinv1 Hl1].
    pose proof (lim_window l Hinv Hlim o Hwo) as Hw.
    destruct (lim_step l o) as [l1 out] eqn:E1. cbn [fst] in *.
    destruct (IH l1 Hinv1 ltac:(lia) Hwr) as (Hinv2 & Hl2 & Hu2).
    destruct (lim_run l1 r) as [l2 outs] eqn:E2. cbn [fst] in *.
    split; [exact Hinv2|]. split; [congruence|].
    destruct o as [max|id|ids|id|  |p]; cbn [count_marks]; try lia.
    destruct (memN id (l_locked l)); lia.
Qed.

(* after any well-formed history from a fresh limiter: used <= limit + (number of marks) *)
Theorem lim_window_run limit ops : limit <= MAXPID -> wf_lrun (lim_new limit) ops = true ->
  LimInv (fst (lim_run (lim_new limit) ops)) /\
  l_used (fst (lim_run (lim_new limit) ops)) <= limit + count_marks ops.
Proof.
  intros Hlim Hwf.
  destruct (lim_run_window_gen ops (lim_new limit) (lim_inv_init limit) Hlim Hwf) as (Hinv & _ & Hu).
  split; [exact Hinv|]. cbn [lim_new l_used l_limit] in Hu. lia.
Qed.

(* ---- refinement of the abstract window machine ---- *)

(* simulation: same set of ids in use (as a set), same count, limit and exit flag *)
Definition LimSim (l : lim) (w : awin) : Prop :=
  (forall i, In i (w_set w) <-> In i (l_locked l)) /\ w_cnt w = l_used l /\
  w_limit w = l_limit l /\ w_exit w = l_exit l.

Definition win_release (id : N) (w : awin) : awin :=
  if memN id (w_set w)
  then {| w_set := delN id (w_set w); w_cnt := w_cnt w - 1; w_limit := w_limit w; w_exit := w_exit w |}
  else w.

Lemma release_sim id l w : LimInv l -> LimSim l w -> LimSim (lim_release id l) (win_release id w).
Proof.
  intros Hinv (Hset & Hcnt & Hl & He).
  destruct (release_inv id l Hinv) as (_ & Hl1 & He1 & _ & Hu1 & Hlk1).
  unfold win_release. rewrite (memN_ext id _ _ Hset).
  unfold LimSim. rewrite Hl1, He1, Hu1, Hlk1.
  destruct (memN id (l_locked l)) eqn:E; cbn [w_set w_cnt w_limit w_exit].
  - refine (conj _ (conj _ (conj Hl He))); [|lia].
    intros i. rewrite !In_delN, Hset. tauto.
  - apply memN_notIn in E. rewrite delN_notIn by exact E. auto.
Qed.

Lemma batch_sim ids : forall l w, LimInv l -> LimSim l w ->
  LimSim (lim_batch_release ids l) (fold_left (fun w id => win_release id w) ids w).
Proof.
  unfold lim_batch_release.
  induction ids as [|id r IH]; intros l w Hinv Hsim; cbn [fold_left]; [exact Hsim|].
  apply IH; [apply release_inv, Hinv|now apply release_sim].
Qed.

Lemma chk_ok (u c : N) (w' : awin) : u <= MAXPID -> c = u ->
  (if u =? c mod U16 then Some w' else None) = Some w'.
Proof. intros Hu Hc. rewrite Hc, mod_small by exact Hu. now rewrite N.eqb_refl. Qed.

Lemma win_step_sim l w o : LimInv l -> l_limit l <= MAXPID -> wf_lop l o = true -> LimSim l w ->
  exists w', win_step w o (snd (lim_step l o), l_used (fst (lim_step l o))) = Some w' /\
             LimSim (fst (lim_step l o)) w'.
Proof.
  intros Hinv Hlim Hwf Hsim.
  pose proof (lim_step_state l o Hinv Hlim Hwf) as [Hinv' _].
  pose proof (lim_used_bound _ Hinv') as Hub'.
  pose proof (lim_used_bound _ Hinv) as Hub.
  destruct w as [ws wc wl we]. pose proof Hsim as (Hset & Hcnt & Hl & He).
  cbn [w_set w_cnt w_limit w_exit] in Hset, Hcnt, Hl, He. subst wc wl we.
  destruct o as [max|id|ids|id|  |p]; cbn [lim_step] in *.
  - (* poll *)
    destruct (lim_poll_cases l max Hinv Hlim)
      as [(Hge & Hex & E)|[(Hex & E)|[(Hlt & Hex & Hmax & E)|(Hlt & Hex & Hmax & l2 & ids2 & E & Epoll)]]];
      rewrite E in *; cbn [fst snd] in *;
      cbv beta iota zeta delta [win_step]; cbn [w_set w_cnt w_limit w_exit].
    + assert (Hc : (l_limit l <=? l_used l) && negb (l_exit l) = true) by (rewrite Hex; cbn [negb]; lia).
      rewrite Hc. eexists. split; [apply chk_ok; [exact Hub|reflexivity]|exact Hsim].
    + replace (l_exit l || (max =? 0)) with true by (rewrite Hex; reflexivity). eexists. split; [apply chk_ok; [exact Hub|reflexivity]|exact Hsim].
    + assert (Hc : l_exit l || (max =? 0) = true) by (rewrite Hex; cbn [orb]; lia).
      rewrite Hc. eexists. split; [apply chk_ok; [exact Hub|reflexivity]|exact Hsim].
    + destruct (poll_n_spec (N.to_nat (N.min max (l_limit l - l_used l))) l [] l2 ids2 Hinv ltac:(lia) Hlim Epoll)
        as (_ & Hl2 & He2 & Hu2 & new & Hids & Hlen & Hnd & Hfr & Hlk).
      cbn [app] in Hids. subst new.
      assert (Hc : (l_used l <? l_limit l) && negb (l_exit l) = true) by (rewrite Hex; cbn [negb]; lia).
      rewrite Hc.
      assert (Hc2 : (N.of_nat (length ids2) =? N.min max (l_limit l - l_used l)) && nodupN ids2 &&
         forallb (fun i => (1 <=? i) && (i <=? MAXPID) && negb (memN i ws)) ids2 = true).
      { rewrite !andb_true_iff. split; [split|].
        - lia.
        - now apply nodupN_NoDup.
        - apply forallb_forall. intros i Hi. apply Hfr in Hi. destruct Hi as [Hi Hni].
          rewrite !andb_true_iff, negb_true_iff, memN_notIn, Hset. split; [lia|exact Hni]. }
      rewrite Hc2. eexists. split.
      * apply chk_ok; [exact Hub'|]. cbn [w_cnt]. lia.
      * unfold LimSim; cbn [w_set w_cnt w_limit w_exit].
        refine (conj _ (conj _ (conj (eq_sym Hl2) (eq_sym He2)))); [|lia].
        intros i. rewrite in_app_iff, Hlk, Hset. tauto.
  - (* release *)
    cbn [fst snd] in *. cbv beta iota zeta delta [win_step].
    change (if memN id (w_set ?w) then _ else ?w) with (win_release id w).
    pose proof (release_sim id l _ Hinv Hsim) as Hs.
    eexists. split; [apply chk_ok; [exact Hub'|apply Hs]|exact Hs].
  - (* batch *)
    cbn [fst snd] in *. cbv beta iota zeta delta [win_step].
    pose proof (batch_sim ids l _ Hinv Hsim) as Hs.
    eexists. split; [apply chk_ok; [exact Hub'|apply Hs]|exact Hs].
  - (* mark *)
    cbn [fst snd] in *. cbv beta iota zeta delta [win_step]. cbn [w_set w_cnt w_limit w_exit].
    destruct (wf_mark _ _ Hwf) as [Hid Hfresh].
    destruct (mark_inv id l Hinv Hid Hfresh) as (_ & Hu1 & Hlk1).
    assert (Hm : memN id ws = false) by (apply memN_notIn; rewrite Hset; exact Hfresh).
    rewrite Hm. eexists. split.
    + apply chk_ok; [exact Hub'|]. cbn [w_cnt]. lia.
    + unfold LimSim. rewrite Hu1, Hlk1. cbn [w_set w_cnt w_limit w_exit lim_mark l_limit l_exit].
      refine (conj _ (conj eq_refl (conj eq_refl eq_refl))).
      intros i. cbn [In]. rewrite Hset. tauto.
  - (* close *)
    cbn [fst snd] in *. cbv beta iota zeta delta [win_step]. cbn [w_set w_cnt w_limit w_exit].
    eexists. split; [apply chk_ok; [exact Hub'|reflexivity]|].
    unfold LimSim, lim_close; cbn [w_set w_cnt w_limit w_exit l_locked l_used l_limit l_exit]. auto.
  - (* set free *)
    cbn [fst snd] in *. cbv beta iota zeta delta [win_step]. cbn [w_set w_cnt w_limit w_exit].
    eexists. split; [apply chk_ok; [exact Hub'|reflexivity]|].
    unfold LimSim, lim_set_free; cbn [w_set w_cnt w_limit w_exit l_locked l_used l_limit l_exit]. auto.
Qed.

Lemma lim_refines_gen ops : forall l w, LimInv l -> l_limit l <= MAXPID -> wf_lrun l ops = true ->
  LimSim l w -> win_ok w ops (snd (lim_run l ops)) = true.
Proof.
  induction ops as [|o r IH]; intros l w Hinv Hlim Hwf Hsim; cbn [lim_run wf_lrun] in *; [reflexivity|].
  apply andb_true_iff in Hwf. destruct Hwf as [Hwo Hwr].
  destruct (lim_step_state l o Hinv Hlim Hwo) as [Hinv1 Hl1].
  destruct (win_step_sim l w o Hinv Hlim Hwo Hsim) as (w' & Hstep & Hsim').
  destruct (lim_step l o) as [l1 out] eqn:E1. cbn [fst snd] in *.
  specialize (IH l1 w' Hinv1 ltac:(lia) Hwr Hsim').
  destruct (lim_run l1 r) as [l2 outs] eqn:E2. cbn [fst snd win_ok] in *.
  rewrite Hstep. exact IH.
Qed.

Theorem lim_refines_window limit ops : (limit <= MAXPID)%N -> wf_lrun (lim_new limit) ops = true ->
  c03_lim_ok limit ops (lim_model limit ops) = true.
Proof.
  intros Hlim Hwf. unfold c03_lim_ok, lim_model.
  apply lim_refines_gen; auto.
  - apply lim_inv_init.
  - unfold LimSim, lim_new; cbn [w_set w_cnt w_limit w_exit l_locked l_used l_limit l_exit]. tauto.
Qed.

(* ------------------------------------------------------------------ *)
(* 2. FIFO topic alias manager                                         *)
(* ------------------------------------------------------------------ *)

Definition AliasInv (m : amgr) : Prop :=
  NoDup (map fst (am_list m)) /\ NoDup (map snd (am_list m)) /\
  (forall a, In a (map snd (am_list m)) -> 1 <= a <= am_max m) /\
  N.of_nat (length (am_list m)) <= am_max m /\
  (N.of_nat (length (am_list m)) < am_max m ->
   forall a, In a (map snd (am_list m)) <-> 1 <= a <= N.of_nat (length (am_list m))).

Lemma alias_inv_init max : AliasInv (am_new max).
Proof.
  unfold AliasInv, am_new; cbn [am_list am_max map length In].
  refine (conj (NoDup_nil _) (conj (NoDup_nil _) (conj _ (conj _ _)))).
  - intros a [].
  - lia.
  - intros _ a. split; [intros []|lia].
Qed.

Lemma am_find_some t l a : am_find t l = Some a -> In (t, a) l.
Proof.
  induction l as [|[t' a'] r IH]; cbn [am_find In]; [discriminate|].
  destruct (str_eqb t t') eqn:E.
  - apply str_eqb_eq in E. intros H. injection H as ->. subst. now left.
  - intros H. right. now apply IH.
Qed.

Lemma am_find_none t l : am_find t l = None -> ~ In t (map fst l).
Proof.
  induction l as [|[t' a'] r IH]; cbn [am_find map fst In]; [tauto|].
  destruct (str_eqb t t') eqn:E; [discriminate|].
  apply str_eqb_neq in E. intros H [H1|H1]; [congruence|]. now apply IH.
Qed.

Lemma am_check_max t m : am_max (fst (am_check t m)) = am_max m.
Proof.
  unfold am_check. destruct (am_find t (am_list m)); [reflexivity|].
  destruct (N.of_nat (length (am_list m)) =? am_max m); [|reflexivity].
  destruct (am_list m) as [|[t0 a0] rest]; reflexivity.
Qed.

Lemma am_check_inv t m : AliasInv m -> am_max m <= MAXPID -> AliasInv (fst (am_check t m)).
Proof.
  intros (Ht & Ha & Hr & Hlen & Hex) Hmax. unfold am_check.
  destruct (am_find t (am_list m)) as [a|] eqn:Ef.
  - cbn [fst]. unfold AliasInv. auto.
  - apply am_find_none in Ef.
    destruct (N.of_nat (length (am_list m)) =? am_max m) eqn:Efull.
    + (* full: evict the oldest entry and reuse its alias *)
      destruct (am_list m) as [|[t0 a0] rest] eqn:El.
      * cbn [fst]. unfold AliasInv. rewrite El. auto.
      * cbn [fst]. unfold AliasInv; cbn [am_list am_max].
        cbn [map fst snd In length] in *. rewrite !map_app, app_length. cbn [map fst snd length].
        inversion Ht as [|? ? Ht0 Htr]; subst. inversion Ha as [|? ? Ha0 Har]; subst.
        refine (conj _ (conj _ (conj _ (conj _ _)))).
        -- apply NoDup_snoc; tauto.
        -- apply NoDup_snoc; tauto.
        -- intros a Hin. apply in_app_iff in Hin. cbn [In] in Hin. apply Hr. tauto.
        -- lia.
        -- intros Hlt. lia.
    + (* room left: the next alias is len + 1 *)
      cbn [fst]. unfold AliasInv; cbn [am_list am_max].
      rewrite !map_app, app_length. cbn [map fst snd length].
      assert (Hlt : N.of_nat (length (am_list m)) < am_max m) by lia.
      specialize (Hex Hlt).
      assert (Hal : (N.of_nat (length (am_list m)) + 1) mod U16 = N.of_nat (length (am_list m)) + 1)
        by (apply mod_add1; lia).
      rewrite Hal.
      refine (conj _ (conj _ (conj _ (conj _ _)))).
      * apply NoDup_snoc; auto.
      * apply NoDup_snoc; auto. rewrite Hex. lia.
      * intros a Hin. apply in_app_iff in Hin. cbn [In] in Hin.
        destruct Hin as [Hin|[<-|[]]]; [now apply Hr|lia].
      * lia.
      * intros _ a. rewrite in_app_iff, Hex. cbn [In]. lia.
Qed.

Lemma am_check_no_panic t m : 1 <= am_max m -> snd (am_check t m) <> APanic.
Proof.
  intros Hmax. unfold am_check.
  destruct (am_find t (am_list m)); [discriminate|].
  destruct (N.of_nat (length (am_list m)) =? am_max m) eqn:Efull; [|discriminate].
  destruct (am_list m) as [|[t0 a0] rest]; [|discriminate].
  cbn [length] in Efull. lia.
Qed.

(* simulation: the client table maps exactly the aliases of am_list to their topics *)
Definition AliasSim (m : amgr) (tb : atable) : Prop :=
  forall a t, at_get a tb = Some t <-> In (t, a) (am_list m).

Lemma at_get_set a' a s tb : at_get a' (at_set a s tb) = if a' =? a then Some s else at_get a' tb.
Proof.
  induction tb as [|[b u] r IH]; cbn [at_set at_get].
  - reflexivity.
  - destruct (a =? b) eqn:Eab; cbn [at_get].
    + apply N.eqb_eq in Eab. subst b. destruct (a' =? a); reflexivity.
    + rewrite IH. destruct (a' =? b) eqn:Ea'b; [|reflexivity].
      apply N.eqb_eq in Ea'b. subst b. destruct (a' =? a) eqn:E; [|reflexivity].
      apply N.eqb_eq in E. subst. rewrite N.eqb_refl in Eab. discriminate.
Qed.

(* installing alias a for topic t: l2 is the old list without its (only possible) a-entry *)
Lemma alias_sim_set l l2 mx tb t a :
  AliasSim {| am_max := mx; am_list := l |} tb ->
  (forall t', ~ In (t', a) l2) ->
  (forall t' a', a' <> a -> (In (t', a') l <-> In (t', a') l2)) ->
  AliasSim {| am_max := mx; am_list := l2 ++ [(t, a)] |} (at_set a t tb).
Proof.
  unfold AliasSim; cbn [am_list]. intros Hsim Hno Hsame a' t'.
  rewrite at_get_set, in_app_iff. cbn [In].
  destruct (a' =? a) eqn:E.
  - apply N.eqb_eq in E. subst a'. split.
    + intros H. injection H as ->. auto.
    + intros [H|[H|[]]]; [exfalso; eapply Hno; eauto|congruence].
  - apply N.eqb_neq in E. rewrite Hsim, (Hsame t' a' E). split; [tauto|].
    intros [H|[H|[]]]; [exact H|congruence].
Qed.

Lemma in_map_snd {A B} (x : A) (y : B) l : In (x, y) l -> In y (map snd l).
Proof. intros H. apply in_map_iff. exists (x, y). auto. Qed.

Lemma alias_step_sim t m tb : AliasInv m -> 1 <= am_max m <= MAXPID -> AliasSim m tb ->
  exists tb', alias_step (am_max m) tb t (snd (am_check t m)) = Some tb' /\
              AliasSim (fst (am_check t m)) tb'.
Proof.
  intros (Ht & Ha & Hr & Hlen & Hex) Hmax Hsim. unfold am_check.
  destruct (am_find t (am_list m)) as [a|] eqn:Ef.
  - (* known topic: the client already has alias a -> t *)
    apply am_find_some in Ef. cbn [fst snd alias_step].
    pose proof (Hr a (in_map_snd _ _ _ Ef)) as Hra.
    assert (Hc : (1 <=? a) && (a <=? am_max m) = true) by lia. rewrite Hc.
    apply Hsim in Ef. rewrite Ef, str_eqb_refl. eauto.
  - destruct m as [mx l]. cbn [am_list am_max] in *.
    destruct (N.of_nat (length l) =? mx) eqn:Efull.
    + destruct l as [|[t0 a0] rest] eqn:El.
      * cbn [length] in Efull. lia.
      * (* full: alias a0 is re-bound to t *)
        cbn [fst snd alias_step am_list am_max].
        cbn [map fst snd] in *.
        inversion Ha as [|? ? Ha0 Har]; subst.
        pose proof (Hr a0 (or_introl eq_refl)) as Hra.
        assert (Hc : (1 <=? a0) && (a0 <=? mx) = true) by lia. rewrite Hc.
        eexists. split; [reflexivity|].
        apply alias_sim_set with (l := (t0, a0) :: rest); [exact Hsim| |].
        -- intros t' Hin. apply Ha0. eapply in_map_snd, Hin.
        -- intros t' a' Hne. cbn [In]. split; [|tauto].
           intros [H|H]; [congruence|exact H].
    + (* room left: a fresh alias len + 1 *)
      cbn [fst snd alias_step am_list am_max].
      assert (Hlt : N.of_nat (length l) < mx) by lia.
      specialize (Hex Hlt).
      assert (Hal : (N.of_nat (length l) + 1) mod U16 = N.of_nat (length l) + 1)
        by (apply mod_add1; lia).
      rewrite Hal.
      assert (Hc : (1 <=? N.of_nat (length l) + 1) && (N.of_nat (length l) + 1 <=? mx) = true) by lia.
      rewrite Hc.
      eexists. split; [reflexivity|].
      apply alias_sim_set with (l := l); [exact Hsim| |tauto].
      intros t' Hin. apply in_map_snd in Hin. apply Hex in Hin. lia.
Qed.

Lemma alias_refines_gen ts : forall m tb, AliasInv m -> 1 <= am_max m <= MAXPID -> AliasSim m tb ->
  alias_ok (am_max m) tb ts (am_run m ts) = true.
Proof.
  induction ts as [|t r IH]; intros m tb Hinv Hmax Hsim; cbn [am_run alias_ok]; [reflexivity|].
  destruct (alias_step_sim t m tb Hinv Hmax Hsim) as (tb' & Hstep & Hsim').
  pose proof (am_check_inv t m Hinv ltac:(lia)) as Hinv'.
  pose proof (am_check_max t m) as Hmx.
  destruct (am_check t m) as [m' x] eqn:E. cbn [fst snd alias_ok] in *.
  rewrite Hstep. rewrite <- Hmx. apply IH; auto. lia.
Qed.

Theorem alias_refines_client_table max ts : (1 <= max <= 65535)%N ->
  alias_ok max [] ts (am_run (am_new max) ts) = true.
Proof.
  intros Hmax.
  apply (alias_refines_gen ts (am_new max) []).
  - apply alias_inv_init.
  - cbn [am_new am_max]. clia.
  - intros a t. cbn [at_get am_new am_list In]. split; [discriminate|tauto].
Qed.

(* ------------------------------------------------------------------ *)
(* 3. unack set                                                        *)
(* ------------------------------------------------------------------ *)

(* the local fixpoint of unack_ok, named *)
Fixpoint ugo (s : list N) (ops : list uop) (outs : list (option bool)) : bool :=
  match ops, outs with
  | [], [] => true
  | UInit c :: r, None :: o => ugo (if c then [] else s) r o
  | USet id :: r, Some b :: o => Bool.eqb b (memN id s) && ugo (if memN id s then s else id :: s) r o
  | URemove id :: r, None :: o => ugo (delN id s) r o
  | _, _ => false
  end.

Lemma unack_ok_ugo ops outs : unack_ok ops outs = ugo [] ops outs.
Proof. reflexivity. Qed.

Lemma unack_refines_gen ops : forall u, ugo u ops (unack_run u ops) = true.
Proof.
  induction ops as [|[c|id|id] r IH]; intros u; cbn [unack_run ugo]; [reflexivity| | |].
  - apply IH.
  - unfold unack_set. destruct (memN id u) eqn:E; cbn [Bool.eqb andb]; apply IH.
  - apply IH.
Qed.

Theorem unack_refines_set ops : unack_ok ops (unack_run [] ops) = true.
Proof. rewrite unack_ok_ugo. apply unack_refines_gen. Qed.

(* exactly-once core: Set answers "already present" exactly when the id is in the set;
   the set has no duplicates, so one Remove forgets the id completely. *)
Lemma unack_set_true_iff id u : snd (unack_set id u) = true <-> In id u.
Proof.
  unfold unack_set. destruct (memN id u) eqn:E; cbn [snd].
  - apply memN_In in E. tauto.
  - apply memN_notIn in E. split; [discriminate|tauto].
Qed.

Lemma unack_set_In id u x : In x (fst (unack_set id u)) <-> x = id \/ In x u.
Proof.
  unfold unack_set. destruct (memN id u) eqn:E; cbn [fst In].
  - apply memN_In in E. split; [tauto|]. intros [->|H]; auto.
  - split; intros [H|H]; auto.
Qed.

Lemma unack_remove_In id u x : In x (unack_remove id u) <-> In x u /\ x <> id.
Proof. apply In_delN. Qed.

Lemma unack_set_NoDup id u : NoDup u -> NoDup (fst (unack_set id u)).
Proof.
  intros H. unfold unack_set. destruct (memN id u) eqn:E; cbn [fst]; [exact H|].
  constructor; [now apply memN_notIn|exact H].
Qed.

Lemma unack_remove_NoDup id u : NoDup u -> NoDup (unack_remove id u).
Proof. apply NoDup_delN. Qed.

Lemma unack_init_NoDup c u : NoDup u -> NoDup (unack_init c u).
Proof. destruct c; cbn [unack_init]; [constructor|auto]. Qed.

(* the state after a history, and "id was set earlier and not removed (or wiped) since" *)
Fixpoint unack_exec (u : unack) (ops : list uop) : unack :=
  match ops with
  | [] => u
  | UInit c :: r => unack_exec (unack_init c u) r
  | USet id :: r => unack_exec (fst (unack_set id u)) r
  | URemove id :: r => unack_exec (unack_remove id u) r
  end.

Fixpoint pending (id : N) (b : bool) (ops : list uop) : bool :=
  match ops with
  | [] => b
  | UInit c :: r => pending id (if c then false else b) r
  | USet i :: r => pending id ((id =? i) || b) r
  | URemove i :: r => pending id (negb (id =? i) && b) r
  end.

Lemma unack_exec_pending id ops : forall u b, NoDup u -> (In id u <-> b = true) ->
  NoDup (unack_exec u ops) /\ (In id (unack_exec u ops) <-> pending id b ops = true).
Proof.
  induction ops as [|[c|i|i] r IH]; intros u b Hnd Hb; cbn [unack_exec pending].
  - auto.
  - apply IH; [now apply unack_init_NoDup|].
    destruct c; cbn [unack_init In]; [split; [tauto|discriminate]|exact Hb].
  - apply IH; [now apply unack_set_NoDup|].
    rewrite unack_set_In, orb_true_iff, N.eqb_eq, Hb. tauto.
  - apply IH; [now apply unack_remove_NoDup|].
    rewrite unack_remove_In, andb_true_iff, negb_true_iff, N.eqb_neq, Hb. tauto.
Qed.

Theorem unack_exactly_once id ops :
  NoDup (unack_exec [] ops) /\
  (snd (unack_set id (unack_exec [] ops)) = true <-> pending id false ops = true).
Proof.
  destruct (unack_exec_pending id ops [] false (NoDup_nil _)) as [Hnd Hin].
  - cbn [In]. split; [tauto|discriminate].
  - split; [exact Hnd|]. rewrite unack_set_true_iff. exact Hin.
Qed.

(* the observable form: in any history, the answer to a Set is "set earlier and not removed since" *)
Lemma unack_run_app pre : forall u rest,
  unack_run u (pre ++ rest) = unack_run u pre ++ unack_run (unack_exec u pre) rest.
Proof.
  induction pre as [|[c|i|i] r IH]; intros u rest; cbn [app unack_run unack_exec]; [reflexivity| | |].
  - now rewrite IH.
  - destruct (unack_set i u) as [u' b]. cbn [fst app]. now rewrite IH.
  - now rewrite IH.
Qed.

Lemma unack_run_length ops : forall u, length (unack_run u ops) = length ops.
Proof.
  induction ops as [|[c|i|i] r IH]; intros u; cbn [unack_run length]; [reflexivity| | |].
  - now rewrite IH.
  - destruct (unack_set i u) as [u' b]. cbn [length]. now rewrite IH.
  - now rewrite IH.
Qed.

Theorem unack_run_answer pre id post :
  nth_error (unack_run [] (pre ++ USet id :: post)) (length pre) = Some (Some (pending id false pre)).
Proof.
  rewrite unack_run_app, nth_error_app2 by (rewrite unack_run_length; lia).
  rewrite unack_run_length, Nat.sub_diag. cbn [unack_run].
  destruct (unack_exactly_once id pre) as [_ Hiff].
  destruct (unack_set id (unack_exec [] pre)) as [u' b]. cbn [snd nth_error] in *.
  f_equal. f_equal. apply Bool.eq_iff_eq_true. exact Hiff.
Qed.

(* ------------------------------------------------------------------ *)
(* 4. the hypotheses are needed (computed witnesses)                   *)
(* ------------------------------------------------------------------ *)

(* marking an id that is already locked: `used` drifts away from the size of the set *)
Example mark_locked_breaks_count :
  let l := fst (lim_step (fst (lim_step (lim_new 10) (LMark 1))) (LMark 1)) in
  (l_used l, l_locked l) = (2, [1]).
Proof. vm_compute. reflexivity. Qed.

(* a free pointer outside 1..65535 hands out packet id 0 *)
Example set_free_zero_polls_zero :
  snd (lim_step (fst (lim_step (lim_new 10) (LSetFree 0))) (LPoll 1)) = Some (PIds [0]).
Proof. vm_compute. reflexivity. Qed.

(* limit = 65536 does not fit the uint16 arithmetic: a fresh limiter answers a nil slice *)
Example limit_65536_wraps : snd (lim_poll 1 (lim_new 65536)) = PExit.
Proof. vm_compute. reflexivity. Qed.

(* max = 0: Check panics on the first publish (Front() == nil) *)
Example alias_max0_panics : snd (am_check [] (am_new 0)) = APanic.
Proof. vm_compute. reflexivity. Qed.
