(* Message.TotalBytes(version) = number of bytes Pack writes for MessageToPublish(msg, version). *)
From Coq Require Import List NArith ZArith Bool Lia ZifyN ZifyNat ZifyBool.
Import ListNotations.
From GM Require Import Base.Topic Base.Msg Model.CodecBase Model.CodecProps Model.CodecPackets
  Proofs.CodecBaseP Proofs.CodecStrP Proofs.CodecSizeP.
Open Scope N_scope.

Ltac Zify.zify_post_hook ::= Z.div_mod_to_equations.

Lemma ok3_inj' : forall A B C (a a' : A) (b b' : B) (c c' : C),
  @Ok (A * B * C) (a, b, c) = Ok (a', b', c') -> a = a' /\ b = b' /\ c = c'.
Proof. intros. inversion H. auto. Qed.

Lemma varint_or_nil_len : forall n, len (encode_varint_or_nil n) = varlen n.
Proof.
  intros n. unfold varlen. destruct (N.ltb_spec n 268435456).
  - rewrite encode_varint_or_nil_bytes, varint_bytes_len by assumption.
    destruct (N.ltb_spec n 128); [replace (n <=? 127) with true by lia; reflexivity|].
    replace (n <=? 127) with false by lia.
    destruct (N.ltb_spec n 16384); [replace (n <=? 16383) with true by lia; reflexivity|].
    replace (n <=? 16383) with false by lia.
    destruct (N.ltb_spec n 2097152); [replace (n <=? 2097151) with true by lia; reflexivity|].
    replace (n <=? 2097151) with false by lia. replace (n <=? 268435455) with true by lia. reflexivity.
  - replace (n <=? 127) with false by lia. replace (n <=? 16383) with false by lia.
    replace (n <=? 2097151) with false by lia. replace (n <=? 268435455) with false by lia.
    unfold encode_varint_or_nil, encode_varint, varint_size.
    replace (n <? 128) with false by lia. replace (n <? 16384) with false by lia.
    replace (n <? 2097152) with false by lia. replace (n <? 268435456) with false by lia. reflexivity.
Qed.

Lemma fold_subids : forall l a, fold_left (fun a v => a + 1 + varlen v) l a = a + len (flat_map pack_subid l).
Proof.
  induction l; intros a0; cbn [fold_left flat_map]; [rewrite len_nil; lia|].
  rewrite IHl, len_app. unfold pack_subid at 2. rewrite len_cons, varint_or_nil_len. lia.
Qed.
Lemma fold_uprops : forall (l : list (str * str)) a,
  fold_left (fun a kv => a + 5 + len (fst kv) + len (snd kv)) l a = a + len (flat_map pack_user l).
Proof.
  induction l; intros a0; cbn [fold_left flat_map]; [rewrite len_nil; lia|].
  rewrite IHl, len_app. unfold pack_user at 2. rewrite len_cons, len_app, !len_put_bin. lia.
Qed.

Lemma len_props_pack : forall p, len (props_pack (Some p)) = varlen (len (props_body p)) + len (props_body p).
Proof. intros. unfold props_pack. rewrite len_app, varint_or_nil_len. reflexivity. Qed.

(* the property block of a message *)
Definition msg_props_len (m : msg) : N :=
  (if m_pfmt m =? 1 then 2 else 0)
  + (if len (m_ctype m) =? 0 then 0 else 3 + len (m_ctype m))
  + (if len (m_corr m) =? 0 then 0 else 3 + len (m_corr m))
  + fold_left (fun a v => a + 1 + varlen v) (m_subids m) 0
  + (if m_expiry m =? 0 then 0 else 5)
  + (if len (m_resp m) =? 0 then 0 else 3 + len (m_resp m))
  + fold_left (fun a kv => a + 5 + len (fst kv) + len (snd kv)) (m_uprops m) 0.

Lemma msg_props_body_len : forall m,
  match message_to_publish m 5 with
  | BPublish _ _ _ _ _ _ _ (Some p) => len (props_body p) = msg_props_len m
  | _ => False
  end.
Proof.
  intros m. unfold message_to_publish. cbn [N.eqb Pos.eqb]. unfold msg_props_len.
  rewrite fold_subids, fold_uprops. unfold props_body. cbn [pr_single pr_subid pr_user].
  unfold opt_nonempty.
  destruct (m_pfmt m =? 1); destruct (m_expiry m =? 0); destruct (m_ctype m) as [|c1 ct];
    destruct (m_resp m) as [|r1 rt]; destruct (m_corr m) as [|k1 kt];
    cbn [ps_set N.ltb N.compare Pos.compare Pos.compare_cont N.eqb Pos.eqb filter fst andb pack_singles flat_map pack_single app];
    repeat first [rewrite len_app | rewrite len_put32 | rewrite len_put_bin | rewrite len_cons | rewrite len_nil]; cbn [N.eqb]; try lia;
    repeat match goal with |- context [?a + ?b =? 0] => replace (a + b =? 0) with false by lia end; lia.
Qed.

Lemma pack_body_publish_len : forall ver dup qos retain topic pid payload pr t fl bytes,
  pack_body (BPublish ver dup qos retain topic pid payload pr) = Ok (t, fl, bytes) ->
  len bytes = 2 + len topic + (if (qos =? 1) || (qos =? 2) then 2 else 0)
              + (if ver =? 5 then len (props_pack pr) else 0) + len payload.
Proof.
  intros. cbn [pack_body] in H. apply ok3_inj' in H. destruct H as (_ & _ & <-).
  rewrite !len_app, len_put_bin.
  destruct ((qos =? 1) || (qos =? 2)); destruct (ver =? 5); rewrite ?len_put16, ?len_nil; lia.
Qed.

Lemma message_to_publish_shape : forall m v,
  exists pr, message_to_publish m v = BPublish v (m_dup m) (m_qos m) (m_retained m) (m_topic m) (m_pid m) (m_payload m) pr
             /\ (v = 5 -> exists p, pr = Some p /\ len (props_body p) = msg_props_len m).
Proof.
  intros m v. unfold message_to_publish. eexists. split; [reflexivity|]. intros ->.
  pose proof (msg_props_body_len m) as H. unfold message_to_publish in H. cbn [N.eqb Pos.eqb] in H |- *.
  eexists. split; [reflexivity|]. exact H.
Qed.

(* C06_size, second half *)
Theorem msg_total_bytes_pack : forall v m bs fh,
  m_qos m <= 2 -> pack_full (message_to_publish m v) = Ok (bs, fh) ->
  msg_total_bytes (v =? 5) m = len bs.
Proof.
  intros v m bs fh Hq Hp.
  pose proof (total_bytes_pack _ _ _ Hp) as Htb. rewrite <- Htb.
  destruct (pack_full_header _ _ _ Hp) as (h & body & -> & Hh & Hrl).
  apply pack_fixhdr_len in Hh. destruct Hh as [Hlt _].
  unfold total_bytes. cbn [p_fh]. rewrite Hrl in *.
  unfold pack_full in Hp.
  destruct (pack_body (message_to_publish m v)) as [[[t fl] bytes]| | |] eqn:Epb; cbn [bind] in Hp; try discriminate.
  destruct (pack_fixhdr _) as [l| | |] eqn:Eh; cbn [bind] in Hp; try discriminate.
  inversion Hp as [[Hbs Hfh]]. subst fh. cbn [fh_rl] in *. clear Hp.
  assert (Hbody : len body = len bytes) by (symmetry; exact Hrl).
  rewrite Hbody in *.
  destruct (message_to_publish_shape m v) as [pr [Hshape Hpr]]. rewrite Hshape in Epb.
  apply pack_body_publish_len in Epb.
  assert (Hpid : (if (m_qos m =? 1) || (m_qos m =? 2) then 2 else 0) = (if 0 <? m_qos m then 2 else 0)).
  { destruct (N.eqb_spec (m_qos m) 0) as [E|E]; [rewrite E; reflexivity|].
    replace ((m_qos m =? 1) || (m_qos m =? 2)) with true by lia. replace (0 <? m_qos m) with true by lia. reflexivity. }
  rewrite Hpid in Epb.
  assert (Hprops : (if v =? 5 then len (props_pack pr) else 0) = (if v =? 5 then msg_props_len m + varlen (msg_props_len m) else 0)).
  { destruct (N.eqb_spec v 5) as [E|E]; [|reflexivity]. destruct (Hpr E) as [p [-> Hl]].
    rewrite len_props_pack, Hl. lia. }
  rewrite Hprops in Epb.
  unfold msg_total_bytes. fold (msg_props_len m).
  assert (Hrl' : (let rl := len (m_payload m) + 2 + len (m_topic m) + (if 0 <? m_qos m then 2 else 0) in
                  if v =? 5 then rl + msg_props_len m + varlen (msg_props_len m) else rl) = len bytes).
  { cbv zeta. rewrite Epb. destruct (v =? 5); lia. }
  cbv zeta in Hrl'. rewrite Hrl'.
  destruct (len bytes <=? 127); [reflexivity|]. destruct (len bytes <=? 16383); [reflexivity|].
  destruct (len bytes <=? 2097151); [reflexivity|]. replace (len bytes <=? 268435455) with true by lia. reflexivity.
Qed.
