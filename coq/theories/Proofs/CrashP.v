(* Proofs about the redis persistence model (Model/Redis.v, Model/RQueue.v, Model/Crash.v):
   1. store typing: every command of every journal keeps the store loadable, so `recover`
      succeeds on the store left by ANY prefix of the journal of ANY history;
   2. the subscription hash, the session hash and the unack hash at any prefix lie between
      the acknowledged state and the state the request in flight would produce;
   3. witnesses (vm_compute) for the three deviations of the code as it is. *)
From Coq Require Import List NArith ZArith Bool Arith Lia.
Import ListNotations.
From GM Require Import Base.Topic Base.Msg Model.SubTrie Model.SubSpec Model.Queue Model.Redis Model.RQueue Model.Crash
  Proofs.TopicP Proofs.SubTrieP.
Open Scope N_scope.

(* ================================================================== *)
(* 1. keys                                                              *)
(* ================================================================== *)
Definition is_sess_key (k : str) : bool := has_prefix_str SESS_PREFIX k.
Definition is_sub_key (k : str) : bool := has_prefix_str SUBS_PREFIX k.

Definition is_unack_key (k : str) : bool := has_prefix_str UNACK_PREFIX k.
(* keys that only ever hold hashes: session:* and unack:* *)
Definition is_hash_key (k : str) : bool := is_sess_key k || is_unack_key k.

Lemma queue_key_not_sess c : is_sess_key (queue_key c) = false.
Proof. reflexivity. Qed.
Lemma queue_key_not_sub c : is_sub_key (queue_key c) = false.
Proof. reflexivity. Qed.
Lemma unack_key_not_sess c : is_sess_key (unack_key c) = false.
Proof. reflexivity. Qed.
Lemma unack_key_not_sub c : is_sub_key (unack_key c) = false.
Proof. reflexivity. Qed.
Lemma sess_key_not_sub c : is_sub_key (sess_key c) = false.
Proof. reflexivity. Qed.
Lemma sub_key_not_sess c : is_sess_key (sub_key c) = false.
Proof. reflexivity. Qed.
Lemma sess_key_is_sess c : is_sess_key (sess_key c) = true.
Proof.
  unfold is_sess_key, sess_key, SESS_PREFIX. cbn [app has_prefix_str].
  rewrite !N.eqb_refl. reflexivity.
Qed.
Lemma unack_key_is_unack c : is_unack_key (unack_key c) = true.
Proof.
  unfold is_unack_key, unack_key, UNACK_PREFIX. cbn [app has_prefix_str].
  rewrite !N.eqb_refl. reflexivity.
Qed.
Lemma hash_key_sess c : is_hash_key (sess_key c) = true.
Proof. unfold is_hash_key. now rewrite sess_key_is_sess. Qed.
Lemma hash_key_unack c : is_hash_key (unack_key c) = true.
Proof. unfold is_hash_key. rewrite unack_key_is_unack. apply orb_true_r. Qed.
Lemma sub_key_is_sub c : is_sub_key (sub_key c) = true.
Proof.
  unfold is_sub_key, sub_key, SUBS_PREFIX. cbn [app has_prefix_str].
  rewrite !N.eqb_refl. reflexivity.
Qed.

(* ================================================================== *)
(* 2. typing of the store                                               *)
(* ================================================================== *)
Definition sub_fv (fv : str * blob) : Prop := exists s, snd fv = BSub s /\ fst fv = full_topic s.
Definition all_subs (h : list (str * blob)) : Prop := Forall sub_fv h.

Definition wt_val (k : str) (v : rval) : Prop :=
  (is_hash_key k = true -> exists h, v = RHash h) /\
  (is_sub_key k = true -> exists h, v = RHash h /\ all_subs h) /\
  (forall h, v = RHash h -> NoDup (map fst h)).

Definition wt_store (s : rstore) : Prop :=
  NoDup (map fst s) /\ forall k v, aget k s = Some v -> wt_val k v.

Definition wt_cmd (c : rcmd) : Prop :=
  match c with
  | CHSet k fvs => is_sub_key k = true -> all_subs fvs
  | CHDel _ _ | CDel _ => True
  | CRPush k _ | CLRem k _ | CLSet k _ _ => is_hash_key k = false /\ is_sub_key k = false
  end.

Lemma all_subs_aset f v h : sub_fv (f, v) -> all_subs h -> all_subs (aset f v h).
Proof.
  intros Hv. induction h as [|[f0 v0] r IH]; cbn [aset]; intros Hh.
  - constructor; [exact Hv|constructor].
  - inversion Hh as [|x xs Hx Hr]; subst.
    destruct (str_eqb f f0).
    + constructor; [exact Hv|exact Hr].
    + constructor; [exact Hx|apply IH; exact Hr].
Qed.

Lemma all_subs_adel f h : all_subs h -> all_subs (adel f h).
Proof.
  induction h as [|[f0 v0] r IH]; cbn [adel]; intros Hh; [exact Hh|].
  inversion Hh as [|x xs Hx Hr]; subst.
  destruct (str_eqb f f0); [exact Hr|].
  constructor; [exact Hx|apply IH; exact Hr].
Qed.

Lemma all_subs_hset_all fvs h : all_subs fvs -> all_subs h -> all_subs (hset_all fvs h).
Proof.
  revert h. induction fvs as [|[f v] r IH]; cbn [hset_all]; intros h Hf Hh; [exact Hh|].
  inversion Hf as [|x xs Hx Hr]; subst.
  apply IH; [exact Hr|]. apply all_subs_aset; [exact Hx|exact Hh].
Qed.

Lemma NoDup_hset_all fvs (h : list (str * blob)) : NoDup (map fst h) -> NoDup (map fst (hset_all fvs h)).
Proof.
  revert h. induction fvs as [|[f v] r IH]; cbn [hset_all]; intros h Hh; [exact Hh|].
  apply IH. now apply NoDup_aset.
Qed.

Lemma NoDup_hdel_all fs (h : list (str * blob)) : NoDup (map fst h) -> NoDup (map fst (hdel_all fs h)).
Proof.
  revert h. induction fs as [|f r IH]; cbn [hdel_all]; intros h Hh; [exact Hh|].
  apply IH. now apply NoDup_adel.
Qed.

Lemma all_subs_hdel_all fs h : all_subs h -> all_subs (hdel_all fs h).
Proof.
  revert h. induction fs as [|f r IH]; cbn [hdel_all]; intros h Hh; [exact Hh|].
  apply IH. now apply all_subs_adel.
Qed.

Lemma wt_store_nil : wt_store [].
Proof. split; [constructor|]. intros k v H. discriminate. Qed.

Lemma wt_store_aset k v s : wt_store s -> wt_val k v -> wt_store (aset k v s).
Proof.
  intros [Hnd Hs] Hv. split; [now apply NoDup_aset|].
  intros k' v' Hget. rewrite aget_aset in Hget.
  destruct (str_eqb_spec k' k) as [E|E].
  - subst k'. injection Hget as <-. exact Hv.
  - now apply Hs.
Qed.

Lemma wt_store_adel k s : wt_store s -> wt_store (adel k s).
Proof.
  intros [Hnd Hs]. split; [now apply NoDup_adel|].
  intros k' v' Hget. rewrite aget_adel in Hget by exact Hnd.
  destruct (str_eqb k' k); [discriminate|]. now apply Hs.
Qed.

Lemma wt_val_list k l : is_hash_key k = false -> is_sub_key k = false -> wt_val k (RList l).
Proof.
  intros H1 H2. split; [|split].
  - intros H. rewrite H1 in H. discriminate.
  - intros H. rewrite H2 in H. discriminate.
  - intros h E. discriminate.
Qed.

Lemma wt_val_hash k h : (is_sub_key k = true -> all_subs h) -> NoDup (map fst h) -> wt_val k (RHash h).
Proof.
  intros Hh Hnd. split; [|split].
  - intros _. now exists h.
  - intros H. exists h. split; [reflexivity|now apply Hh].
  - intros h' E. injection E as <-. exact Hnd.
Qed.

Lemma wt_hash_inv s k h : wt_store s -> aget k s = Some (RHash h) ->
  NoDup (map fst h) /\ (is_sub_key k = true -> all_subs h).
Proof.
  intros [_ Hs] E. destruct (Hs _ _ E) as (_ & H2 & H3). split; [now apply H3|].
  intros Hk. destruct (H2 Hk) as (h' & Eh & Hh). injection Eh as <-. exact Hh.
Qed.

Lemma exec_wt s c : wt_store s -> wt_cmd c -> wt_store (exec s c).
Proof.
  intros Hs Hc. destruct c as [k fvs|k fs|k|k v|k v|k i v]; cbn [exec wt_cmd] in *.
  - destruct (aget k s) as [[h|l]|] eqn:E.
    + destruct (wt_hash_inv s k h Hs E) as [Hnd Hsub].
      apply wt_store_aset; [exact Hs|]. apply wt_val_hash; [|now apply NoDup_hset_all].
      intros Hk. apply all_subs_hset_all; [now apply Hc|now apply Hsub].
    + exact Hs.
    + apply wt_store_aset; [exact Hs|]. apply wt_val_hash; [|apply NoDup_hset_all; constructor].
      intros Hk. apply all_subs_hset_all; [now apply Hc|constructor].
  - destruct (aget k s) as [[h|l]|] eqn:E; try exact Hs.
    destruct (wt_hash_inv s k h Hs E) as [Hnd Hsub].
    destruct (hdel_all fs h) as [|x r] eqn:Eh.
    + now apply wt_store_adel.
    + apply wt_store_aset; [exact Hs|]. rewrite <- Eh. apply wt_val_hash; [|now apply NoDup_hdel_all].
      intros Hk. apply all_subs_hdel_all. now apply Hsub.
  - now apply wt_store_adel.
  - destruct Hc as [H1 H2]. destruct (aget k s) as [[h|l]|] eqn:E; try exact Hs;
      (apply wt_store_aset; [exact Hs|now apply wt_val_list]).
  - destruct Hc as [H1 H2]. destruct (aget k s) as [[h|l]|] eqn:E; try exact Hs.
    destruct (remove_first v l) as [|x r].
    + now apply wt_store_adel.
    + apply wt_store_aset; [exact Hs|now apply wt_val_list].
  - destruct Hc as [H1 H2]. destruct (aget k s) as [[h|l]|] eqn:E; try exact Hs.
    destruct (norm_index i (length l)); [|exact Hs].
    apply wt_store_aset; [exact Hs|now apply wt_val_list].
Qed.

Lemma exec_all_wt cs s : wt_store s -> Forall wt_cmd cs -> wt_store (exec_all s cs).
Proof.
  unfold exec_all. revert s. induction cs as [|c r IH]; cbn [fold_left]; intros s Hs Hc; [exact Hs|].
  inversion Hc as [|x xs Hx Hr]; subst. apply IH; [|exact Hr]. now apply exec_wt.
Qed.

Lemma Forall_firstn {A} (P : A -> Prop) (n : nat) (l : list A) : Forall P l -> Forall P (firstn n l).
Proof.
  revert l. induction n as [|n IH]; intros [|x l] H; cbn [firstn]; try constructor.
  - inversion H; subst. assumption.
  - inversion H; subst. now apply IH.
Qed.

(* ================================================================== *)
(* 3. `recover` succeeds on every well-typed store                      *)
(* ================================================================== *)
Lemma subs_of_hash_total h : all_subs h -> subs_of_hash h <> None.
Proof.
  induction h as [|[f v] r IH]; cbn [subs_of_hash]; intros Hh; [discriminate|].
  inversion Hh as [|x xs Hx Hr]; subst. destruct Hx as (s & Hs & _). cbn [snd] in Hs. subst v.
  specialize (IH Hr). destruct (subs_of_hash r); [discriminate|congruence].
Qed.

Lemma load_subs_total fx s cids : wt_store s -> load_subs fx s cids <> None.
Proof.
  intros [Hnd Hs]. induction cids as [|c r IH]; cbn [load_subs]; [discriminate|].
  unfold hgetall. destruct (aget (sub_key c) s) as [v|] eqn:E.
  - destruct (Hs _ _ E) as (_ & H2 & _). destruct (H2 (sub_key_is_sub c)) as (h & -> & Hh).
    pose proof (subs_of_hash_total h Hh) as Ht.
    destruct (subs_of_hash h); [|congruence].
    destruct (load_subs fx s r); [discriminate|congruence].
  - cbn [subs_of_hash]. destruct (load_subs fx s r); [discriminate|congruence].
Qed.

Lemma no_wrongtype_session s : wt_store s -> has_wrongtype_session s = false.
Proof.
  intros [Hnd Hs]. unfold has_wrongtype_session.
  apply not_true_is_false. intros H. apply existsb_exists in H as ([k v] & Hin & Hb).
  cbn [fst snd] in Hb. apply andb_true_iff in Hb as [Hk Hv].
  pose proof (In_aget k v s Hnd Hin) as Hget.
  destruct (Hs _ _ Hget) as [H1 _].
  assert (Hk' : is_hash_key k = true) by (unfold is_hash_key, is_sess_key; now rewrite Hk).
  destruct (H1 Hk') as [h ->]. discriminate.
Qed.

Lemma load_bsubs_total fx s cids m : wt_store s -> load_bsubs fx s cids m <> None.
Proof.
  intros [Hnd Hs]. revert m. induction cids as [|c r IH]; intros m; cbn [load_bsubs]; [discriminate|].
  unfold hgetall. destruct (aget (sub_key c) s) as [v|] eqn:E.
  - destruct (Hs _ _ E) as (_ & H2 & _). destruct (H2 (sub_key_is_sub c)) as (h & -> & Hh).
    pose proof (subs_of_hash_total h Hh) as Ht.
    destruct (subs_of_hash h); [apply IH|congruence].
  - cbn [subs_of_hash]. apply IH.
Qed.

Lemma recover_total fx s : wt_store s -> recover fx s <> None.
Proof.
  intros Hs. unfold recover. rewrite (no_wrongtype_session s Hs).
  pose proof (load_bsubs_total fx s (map fst (stored_sessions s (scan_prefix SESS_PREFIX s))) [] Hs) as Hl.
  destruct (load_bsubs fx s _ _); [discriminate|congruence].
Qed.

(* ================================================================== *)
(* 4. the queue object only issues commands on its own key              *)
(* ================================================================== *)
Definition qcmd (k : str) (c : rcmd) : Prop :=
  match c with
  | CRPush k' _ | CLRem k' _ | CLSet k' _ _ | CDel k' => k' = k
  | _ => False
  end.

Definition res_ok (q : rq) (x : rqres) : Prop :=
  Forall (qcmd (rq_key q)) (r_cmds x) /\ rq_key (r_q x) = rq_key q.

Lemma rq_init_ok c v l s q : res_ok q (rq_init c v l s q).
Proof.
  unfold rq_init, res_ok. cbn [r_cmds r_q rq_key]. split; [|reflexivity].
  destruct c; [constructor; [reflexivity|constructor]|constructor].
Qed.

Lemma rq_close_ok s q : res_ok q (rq_close s q).
Proof. unfold rq_close, res_ok. cbn [r_cmds r_q rq_key]. split; [constructor|reflexivity]. Qed.

Lemma rq_restart_ok s q : res_ok q (rq_restart s q).
Proof. unfold rq_restart, res_ok. cbn [r_cmds r_q rq_key]. split; [constructor|reflexivity]. Qed.

Lemma done_ok q s q' o cs : rq_key q' = rq_key q -> Forall (qcmd (rq_key q)) cs -> res_ok q (done s q' o cs).
Proof. intros Hk Hc. unfold done, res_ok. cbn [r_cmds r_q]. now split. Qed.

Lemma rq_add_finish_ok s q e victim r bk p : res_ok q (rq_add_finish s q e victim r bk p).
Proof.
  unfold rq_add_finish. destruct victim as [d|]; apply done_ok; try reflexivity.
  - repeat constructor.
  - constructor.
Qed.

Lemma rq_add_ok now e s q : res_ok q (rq_add now e s q).
Proof.
  unfold rq_add. destruct (rq_max q <=? rq_len q)%Z.
  - destruct (rq_add_scan _ _ _ _ _ _) as [d r bk|cand|cand front]; try apply rq_add_finish_ok.
    destruct (rq_drained q && (rq_len q <=? rq_cur q)%Z); [apply rq_add_finish_ok|].
    destruct cand; [apply rq_add_finish_ok|].
    destruct (e_body e) as [m|p]; [|apply rq_add_finish_ok].
    destruct (m_qos m =? 0); apply rq_add_finish_ok.
  - apply done_ok; [reflexivity|]. repeat constructor.
Qed.

Lemma rq_replace_ok e s q : res_ok q (rq_replace e s q).
Proof.
  unfold rq_replace. destruct (rq_cur q <=? 0)%Z; [apply done_ok; [reflexivity|constructor]|]. destruct (find_id_z _ _ _) as [k|].
  - destruct (rq_cache q); apply done_ok; try reflexivity; repeat constructor.
  - apply done_ok; [reflexivity|constructor].
Qed.

Lemma rq_remove_ok pid s q : res_ok q (rq_remove pid s q).
Proof.
  unfold rq_remove. destruct (rq_cache q) as [c|]; [|apply done_ok; [reflexivity|constructor]].
  destruct (cache_get pid c); apply done_ok; try reflexivity; repeat constructor.
Qed.

Lemma rq_read_loop_cmds now key limit v5 ifexp l a :
  Forall (qcmd key) (ra_cmds a) ->
  Forall (qcmd key) (ra_cmds (fst (rq_read_loop now key limit v5 ifexp l a))).
Proof.
  revert a. induction l as [|v r IH]; intros a Ha; cbn [rq_read_loop]; [exact Ha|].
  destruct (expired now v).
  - apply IH. cbn [ra_cmds]. apply Forall_app. split; [exact Ha|repeat constructor].
  - destruct (e_body v) as [m|p]; [|exact Ha].
    destruct (limit <? msg_total_bytes v5 m).
    + apply IH. cbn [ra_cmds]. apply Forall_app. split; [exact Ha|repeat constructor].
    + destruct (m_qos m =? 0).
      * apply IH. cbn [ra_cmds]. apply Forall_app. split; [exact Ha|repeat constructor].
      * destruct (ra_pids a) as [|p pids']; [exact Ha|].
        destruct (ra_cache a) as [c|].
        -- apply IH. cbn [ra_cmds]. apply Forall_app. split; [exact Ha|repeat constructor].
        -- cbn [fst ra_cmds]. apply Forall_app. split; [exact Ha|repeat constructor].
Qed.

Lemma rq_read_ok now pids s q : res_ok q (rq_read now pids s q).
Proof.
  unfold rq_read. destruct (negb (rq_drained q)); [apply done_ok; [reflexivity|constructor]|].
  destruct (rq_closed q); [apply done_ok; [reflexivity|constructor]|].
  destruct (rq_len q <=? rq_cur q)%Z; [apply done_ok; [reflexivity|constructor]|].
  destruct (length pids =? 0)%nat; [apply done_ok; [reflexivity|constructor]|].
  match goal with |- context [rq_read_loop ?a ?b ?c ?d ?e ?l ?acc] =>
    pose proof (rq_read_loop_cmds a b c d e l acc) as H; destruct (rq_read_loop a b c d e l acc) as [a' p] end.
  cbn [fst ra_cmds] in H. specialize (H (Forall_nil _)).
  destruct p; apply done_ok; try reflexivity; exact H.
Qed.

Lemma rq_rif_loop_cmds now key ifexp l idx cur cache rs cmds :
  Forall (qcmd key) cmds ->
  let '(_, _, _, cmds', _, _) := rq_rif_loop now key ifexp l idx cur cache rs cmds in Forall (qcmd key) cmds'.
Proof.
  revert idx cur cache rs cmds. induction l as [|e r IH]; intros idx cur cache rs cmds Hc; cbn [rq_rif_loop]; [exact Hc|].
  destruct (e_id e =? 0); [exact Hc|].
  assert (Hc' : Forall (qcmd key) (if ifexp =? 0 then cmds
                                     else cmds ++ [CLSet key idx (BElem (if ifexp =? 0 then e else with_expiry (Some (now + ifexp)) e))])).
  { destruct (ifexp =? 0); [exact Hc|]. apply Forall_app. split; [exact Hc|repeat constructor]. }
  destruct cache as [c|]; [|exact Hc'].
  apply IH. exact Hc'.
Qed.

Lemma rq_read_inflight_ok now n s q : res_ok q (rq_read_inflight now n s q).
Proof.
  unfold rq_read_inflight. destruct n as [|n']; [apply done_ok; [reflexivity|constructor]|].
  destruct (elems_of _) as [|e l] eqn:El; [apply done_ok; [reflexivity|constructor]|].
  match goal with |- context [rq_rif_loop ?a ?b ?c ?d ?e0 ?f ?g ?h ?i] =>
    pose proof (rq_rif_loop_cmds a b c d e0 f g h i (Forall_nil _)) as H;
    destruct (rq_rif_loop a b c d e0 f g h i) as [[[[[cur cache] rs] cmds] dr] panicked] end.
  destruct panicked; apply done_ok; try reflexivity; exact H.
Qed.

Lemma qcmd_wt c k : qcmd (queue_key c) k -> wt_cmd k.
Proof.
  destruct k as [k fvs|k fs|k|k v|k v|k i v]; cbn [qcmd wt_cmd]; intros H; try exact I; try contradiction;
    subst k; split; reflexivity.
Qed.

(* ================================================================== *)
(* 5. every command of every journal is well typed                      *)
(* ================================================================== *)
Definition qkey_ok (q : rq) : Prop := exists c, rq_key q = queue_key c.
Definition client_ok (x : bclient) : Prop := forall q, bc_q x = Some q -> qkey_ok q.
Definition cl_ok (cl : list (cid * bclient)) : Prop := Forall (fun cx => client_ok (snd cx)) cl.
Definition binv (b : broker) : Prop := cl_ok (b_clients b).

Lemma cl_ok_aset c x cl : cl_ok cl -> client_ok x -> cl_ok (aset c x cl).
Proof.
  intros Hcl Hx. induction cl as [|[c0 x0] r IH]; cbn [aset].
  - constructor; [exact Hx|constructor].
  - inversion Hcl as [|y ys Hy Hr]; subst. destruct (str_eqb c c0).
    + constructor; [exact Hx|exact Hr].
    + constructor; [exact Hy|now apply IH].
Qed.

Lemma cl_ok_get c x cl : cl_ok cl -> aget c cl = Some x -> client_ok x.
Proof.
  intros Hcl Hg. apply aget_In in Hg. unfold cl_ok in Hcl. rewrite Forall_forall in Hcl.
  exact (Hcl _ Hg).
Qed.

Lemma qkey_res q x : qkey_ok q -> res_ok q x -> qkey_ok (r_q x) /\ Forall wt_cmd (r_cmds x).
Proof.
  intros [c Hc] [Hcmds Hk]. split.
  - exists c. now rewrite Hk.
  - rewrite Hc in Hcmds. eapply Forall_impl; [|exact Hcmds]. intros k. apply qcmd_wt.
Qed.

Lemma jcmds_app a b : jcmds (a ++ b) = jcmds a ++ jcmds b.
Proof.
  induction a as [|[c|o] r IH]; cbn [app jcmds]; [reflexivity| |exact IH]. now rewrite IH.
Qed.
Lemma jcmds_map_cmd l : jcmds (map JCmd l) = l.
Proof. induction l as [|c r IH]; cbn [map jcmds]; [reflexivity|now rewrite IH]. Qed.
Lemma jcmds_deliveries c d l : jcmds (deliveries_of c d l) = [].
Proof.
  unfold deliveries_of. induction l as [|e r IH]; cbn [map jcmds]; [reflexivity|].
  destruct (e_body e); exact IH.
Qed.

Lemma wt_sess_set c e : wt_cmd (sess_set_cmd c e).
Proof. cbn [sess_set_cmd wt_cmd]. rewrite sess_key_not_sub. discriminate. Qed.

Lemma wt_sop fx o : Forall wt_cmd (sop_cmds fx o).
Proof.
  destruct o as [c subs|c ts|c]; cbn [sop_cmds].
  - induction subs as [|s r IH]; cbn [map]; constructor; [|exact IH].
    cbn [wt_cmd]. intros _. constructor; [exists s; split; reflexivity|constructor].
  - destruct (fix_hdel fx); repeat constructor.
  - repeat constructor.
Qed.

Lemma poll_new_ok c pids s q :
  qkey_ok q -> let '(_, q', j) := poll_new c pids s q in qkey_ok q' /\ Forall wt_cmd (jcmds j).
Proof.
  intros Hq. unfold poll_new.
  destruct (qkey_res q _ Hq (rq_read_ok 0 (pids ++ filler (MAXINFLIGHT - length pids)) s q)) as [Hq' Hc].
  destruct (r_out _); (split; [exact Hq'|]); rewrite ?jcmds_app, ?jcmds_map_cmd, ?jcmds_deliveries, ?app_nil_r; exact Hc.
Qed.

Lemma poll_inflight_ok fuel c s q :
  qkey_ok q -> let '(_, q', j) := poll_inflight fuel c s q in qkey_ok q' /\ Forall wt_cmd (jcmds j).
Proof.
  revert s q. induction fuel as [|k IH]; intros s q Hq; cbn [poll_inflight].
  - split; [exact Hq|constructor].
  - destruct (qkey_res q _ Hq (rq_read_inflight_ok 0 MAXINFLIGHT s q)) as [Hq' Hc].
    destruct (r_out (rq_read_inflight 0 MAXINFLIGHT s q)) as [| |[|e rs]| | | | | |];
      try (split; [exact Hq'|rewrite jcmds_map_cmd; exact Hc]).
    specialize (IH (r_store (rq_read_inflight 0 MAXINFLIGHT s q)) (r_q (rq_read_inflight 0 MAXINFLIGHT s q)) Hq').
    destruct (poll_inflight k c _ _) as [[s' q''] j]. destruct IH as [Hq'' Hj]. split; [exact Hq''|].
    rewrite !jcmds_app, jcmds_map_cmd, jcmds_deliveries. cbn [app]. apply Forall_app. now split.
Qed.

Lemma deliver_ok topic payload qos publisher sp cl s :
  cl_ok cl ->
  let '(cl', _, cmds) := deliver topic payload qos publisher sp cl s in cl_ok cl' /\ Forall wt_cmd cmds.
Proof.
  revert s. induction cl as [|[c x] r IH]; intros s Hcl; cbn [deliver].
  - split; constructor.
  - inversion Hcl as [|y ys Hy Hr]; subst. cbn [snd] in Hy.
    destruct (bc_q x) as [q|] eqn:Eq.
    + destruct (client_match topic publisher c sp) as [[sq ids]|].
      * destruct (qkey_res q _ (Hy q Eq) (rq_add_ok 0 (mk_elem (mk_msg (N.min qos sq) topic payload ids)) s q)) as [Hq' Hc].
        specialize (IH (r_store (rq_add 0 (mk_elem (mk_msg (N.min qos sq) topic payload ids)) s q)) Hr).
        destruct (deliver topic payload qos publisher sp r _) as [[r' s'] cmds]. destruct IH as [Hr' Hcm]. split.
        -- constructor; [|exact Hr']. cbn [snd]. intros q0 E0. cbn [bc_q] in E0. injection E0 as <-. exact Hq'.
        -- apply Forall_app. now split.
      * specialize (IH s Hr). destruct (deliver topic payload qos publisher sp r s) as [[r' s'] cmds].
        destruct IH as [Hr' Hcm]. split; [|exact Hcm]. constructor; [exact Hy|exact Hr'].
    + specialize (IH s Hr). destruct (deliver topic payload qos publisher sp r s) as [[r' s'] cmds].
      destruct IH as [Hr' Hcm]. split; [|exact Hcm]. constructor; [exact Hy|exact Hr'].
Qed.

Lemma remove_session_ok id b :
  binv b -> let '(b', cmds) := remove_session id b in binv b' /\ Forall wt_cmd cmds.
Proof.
  intros Hb. unfold remove_session. split.
  - unfold binv. cbn [b_clients]. destruct (b_get id b) as [x|] eqn:E; [|exact Hb].
    apply cl_ok_aset; [exact Hb|]. intros q Hq. discriminate.
  - apply Forall_app. split.
    + destruct (b_get id b) as [x|]; [|constructor]. destruct (bc_q x); repeat constructor.
    + repeat constructor.
Qed.

Lemma binv_set c x b : binv b -> client_ok x -> binv (b_set c x b).
Proof. intros Hb Hx. unfold binv, b_set. cbn [b_clients]. now apply cl_ok_aset. Qed.
Lemma binv_with_store s b : binv b -> binv (b_with_store s b).
Proof. intros Hb. exact Hb. Qed.

Lemma qkey_new n i c : qkey_ok (rq_new n i c).
Proof. exists c. reflexivity. Qed.

Ltac split_ok := split; [|rewrite ?jcmds_app, ?jcmds_map_cmd; cbn [jcmds]; rewrite ?app_nil_r].

Lemma bstep_ok fx b ev :
  binv b -> binv (fst (bstep fx b ev)) /\ Forall wt_cmd (jcmds (snd (bstep fx b ev))).
Proof.
  intros Hb. destruct ev as [c clean expiry pids|c|c pid subs|c pid ts|c qos pid topic payload|c pid|c pids|c pid|c pid|c pid];
    cbn [bstep].
  - (* connect *)
    destruct (match b_get c b with Some x => bc_online x | None => false end); [split; [exact Hb|constructor]|].
    destruct (sess_get c (b_store b)) as [[old_id old_exp]|]; [|split; [exact Hb|constructor]].
    set (resume0 := negb (is_empty old_id) && negb (old_exp =? 0) && negb clean).
    set (have := match b_get c b with
                 | Some x => match bc_q x, bc_ua x with Some _, Some _ => true | _, _ => false end
                 | None => false end).
    assert (H1 : let '(b1, cmds1) := (if resume0 || negb (negb (is_empty old_id)) then (b, []) else remove_session old_id b) in binv b1 /\ Forall wt_cmd cmds1).
    { destruct (resume0 || negb (negb (is_empty old_id))); [split; [exact Hb|constructor]|]. now apply remove_session_ok. }
    destruct (if resume0 || negb (negb (is_empty old_id)) then (b, []) else remove_session old_id b) as [b1 cmds1]. destruct H1 as [Hb1 Hc1].
    destruct (resume0 && have) eqn:Eres.
    + destruct (b_get c b) as [x|] eqn:Ex; [|split; [exact Hb|constructor]].
      destruct (bc_q x) as [q|] eqn:Eq; [|split; [exact Hb|constructor]].
      pose proof (cl_ok_get _ _ _ Hb Ex q Eq) as Hq.
      destruct (qkey_res q _ Hq (rq_init_ok false true MAXPACKET (b_store b1) q)) as [Hq1 Hci].
      pose proof (poll_inflight_ok 3 c (exec (r_store (rq_init false true MAXPACKET (b_store b1) q)) (sess_set_cmd c (N.min expiry SESSION_CAP)))
                    (r_q (rq_init false true MAXPACKET (b_store b1) q)) Hq1) as Hp.
      destruct (poll_inflight 3 c _ _) as [[s3 q3] j3]. destruct Hp as [Hq3 Hj3].
      assert (H4 : let '(_, q4, j4) := (if (rq_cur q3 <? rq_len q3)%Z then poll_new c pids s3 q3 else (s3, q3, [])) in
                   qkey_ok q4 /\ Forall wt_cmd (jcmds j4)).
      { destruct (rq_cur q3 <? rq_len q3)%Z; [now apply poll_new_ok|split; [exact Hq3|constructor]]. }
      destruct (if (rq_cur q3 <? rq_len q3)%Z then poll_new c pids s3 q3 else (s3, q3, [])) as [[s4 q4] j4].
      destruct H4 as [Hq4 Hj4]. cbn [fst snd]. split.
      * apply binv_set; [exact Hb1|]. intros q0 E0. cbn [bc_q] in E0. injection E0 as <-. exact Hq4.
      * rewrite !jcmds_app, jcmds_map_cmd. cbn [jcmds app].
        repeat (apply Forall_app; split); try assumption. constructor; [apply wt_sess_set|constructor].
    + destruct (qkey_res _ _ (qkey_new MAXQ IFEXP c) (rq_init_ok true true MAXPACKET (b_store b1) (rq_new MAXQ IFEXP c))) as [Hq1 Hci].
      pose proof (poll_inflight_ok 3 c (exec_all (r_store (rq_init true true MAXPACKET (b_store b1) (rq_new MAXQ IFEXP c)))
                                                 [CDel (unack_key c); sess_set_cmd c (N.min expiry SESSION_CAP)])
                    (r_q (rq_init true true MAXPACKET (b_store b1) (rq_new MAXQ IFEXP c))) Hq1) as Hp.
      destruct (poll_inflight 3 c _ _) as [[s3 q3] j3]. destruct Hp as [Hq3 Hj3]. cbn [fst snd]. split.
      * apply binv_set; [exact Hb1|]. intros q0 E0. cbn [bc_q] in E0. injection E0 as <-. exact Hq3.
      * rewrite !jcmds_app, jcmds_map_cmd. cbn [jcmds app].
        repeat (apply Forall_app; split); try assumption.
        constructor; [exact I|]. constructor; [apply wt_sess_set|constructor].
  - (* close *)
    destruct (negb _); [split; [exact Hb|constructor]|].
    destruct (b_get c b) as [x|] eqn:Ex; [|split; [exact Hb|constructor]].
    destruct (sess_get c (b_store b)) as [[id exp]|]; [|split; [exact Hb|constructor]].
    assert (Hb' : binv (b_set c {| bc_online := false;
                                   bc_q := match bc_q x with Some q => Some (r_q (rq_close (b_store b) q)) | None => None end;
                                   bc_ua := bc_ua x |} b)).
    { apply binv_set; [exact Hb|]. intros q0 E0. cbn [bc_q] in E0.
      destruct (bc_q x) as [q|] eqn:Eq; [|discriminate]. injection E0 as <-.
      destruct (cl_ok_get _ _ _ Hb Ex q Eq) as [c' Hc']. exists c'. exact Hc'. }
    destruct (exp =? 0).
    + pose proof (remove_session_ok c _ Hb') as Hr. destruct (remove_session c _) as [b2 cmds]. destruct Hr as [Hb2 Hc].
      cbn [fst snd]. split; [exact Hb2|]. now rewrite jcmds_map_cmd.
    + split; [exact Hb'|constructor].
  - (* subscribe *)
    destruct (negb _); [split; [exact Hb|constructor]|]. cbn [fst snd]. split; [exact Hb|].
    rewrite jcmds_app, jcmds_map_cmd. cbn [jcmds]. rewrite app_nil_r. apply (wt_sop fx (SSub c subs)).
  - (* unsubscribe *)
    destruct (negb _); [split; [exact Hb|constructor]|]. cbn [fst snd]. split; [exact Hb|].
    rewrite jcmds_app, jcmds_map_cmd. cbn [jcmds]. rewrite app_nil_r.
    induction ts as [|t r IH]; cbn [map concat]; [constructor|].
    apply Forall_app. split; [apply (wt_sop fx (SUnsub c [t]))|exact IH].
  - (* publish *)
    destruct (negb _); [split; [exact Hb|constructor]|].
    destruct (b_get c b) as [x|] eqn:Ex; [|split; [exact Hb|constructor]].
    set (cache := match bc_ua x with Some u => u | None => [] end).
    set (dup := (qos =? 2) && memN pid cache).
    set (ucmds := if (qos =? 2) && negb dup then [CHSet (unack_key c) [(dec pid, BRaw ONE)]] else []).
    set (x' := if (qos =? 2) && negb dup then {| bc_online := bc_online x; bc_q := bc_q x; bc_ua := Some (pid :: cache) |} else x).
    assert (Hx' : client_ok x').
    { unfold x'. destruct ((qos =? 2) && negb dup); [|exact (cl_ok_get _ _ _ Hb Ex)].
      intros q0 E0. cbn [bc_q] in E0. exact (cl_ok_get _ _ _ Hb Ex q0 E0). }
    assert (Hb1 : binv (b_set c x' (b_with_store (exec_all (b_store b) ucmds) b))) by (apply binv_set; [exact Hb|exact Hx']).
    assert (Hu : Forall wt_cmd ucmds).
    { unfold ucmds. destruct ((qos =? 2) && negb dup); [|constructor].
      constructor; [|constructor]. cbn [wt_cmd]. rewrite unack_key_not_sub. discriminate. }
    assert (Hd : let '(cl, _, dcmds) := (if dup then (b_clients (b_set c x' (b_with_store (exec_all (b_store b) ucmds) b)),
                                                     b_store (b_set c x' (b_with_store (exec_all (b_store b) ucmds) b)), [])
                                         else deliver topic payload qos c (b_subs (b_set c x' (b_with_store (exec_all (b_store b) ucmds) b)))
                                                (b_clients (b_set c x' (b_with_store (exec_all (b_store b) ucmds) b)))
                                                (b_store (b_set c x' (b_with_store (exec_all (b_store b) ucmds) b)))) in
                 cl_ok cl /\ Forall wt_cmd dcmds).
    { destruct dup; [split; [exact Hb1|constructor]|]. now apply deliver_ok. }
    destruct (if dup then _ else _) as [[cl s2] dcmds]. destruct Hd as [Hcl Hdc]. cbn [fst snd]. split; [exact Hcl|].
    rewrite jcmds_app, jcmds_map_cmd.
    assert (Hack : jcmds (if qos =? 1 then [JOut (OPuback c pid)] else if qos =? 2 then [JOut (OPubrec c pid)] else []) = []).
    { destruct (qos =? 1); [reflexivity|]. destruct (qos =? 2); reflexivity. }
    rewrite Hack, app_nil_r. apply Forall_app. now split.
  - (* pubrel *)
    destruct (negb _); [split; [exact Hb|constructor]|].
    destruct (b_get c b) as [x|] eqn:Ex; [|split; [exact Hb|constructor]]. cbn [fst snd]. split.
    + apply binv_set; [exact Hb|]. intros q0 E0. cbn [bc_q] in E0. exact (cl_ok_get _ _ _ Hb Ex q0 E0).
    + rewrite jcmds_app, jcmds_map_cmd. cbn [jcmds]. repeat constructor.
  - (* poll *)
    destruct (negb _); [split; [exact Hb|constructor]|].
    destruct (b_get c b) as [x|] eqn:Ex; [|split; [exact Hb|constructor]].
    destruct (bc_q x) as [q|] eqn:Eq; [|split; [exact Hb|constructor]].
    pose proof (poll_new_ok c pids (b_store b) q (cl_ok_get _ _ _ Hb Ex q Eq)) as Hp.
    destruct (poll_new c pids (b_store b) q) as [[s' q'] j]. destruct Hp as [Hq' Hj]. cbn [fst snd]. split; [|exact Hj].
    apply binv_set; [exact Hb|]. intros q0 E0. cbn [with_q bc_q] in E0. injection E0 as <-. exact Hq'.
  - (* puback *)
    destruct (negb _); [split; [exact Hb|constructor]|].
    destruct (b_get c b) as [x|] eqn:Ex; [|split; [exact Hb|constructor]].
    destruct (bc_q x) as [q|] eqn:Eq; [|split; [exact Hb|constructor]].
    destruct (qkey_res q _ (cl_ok_get _ _ _ Hb Ex q Eq) (rq_remove_ok pid (b_store b) q)) as [Hq' Hc]. cbn [fst snd]. split.
    + apply binv_set; [exact Hb|]. intros q0 E0. cbn [with_q bc_q] in E0. injection E0 as <-. exact Hq'.
    + now rewrite jcmds_map_cmd.
  - (* pubrec *)
    destruct (negb _); [split; [exact Hb|constructor]|].
    destruct (b_get c b) as [x|] eqn:Ex; [|split; [exact Hb|constructor]].
    destruct (bc_q x) as [q|] eqn:Eq; [|split; [exact Hb|constructor]].
    destruct (qkey_res q _ (cl_ok_get _ _ _ Hb Ex q Eq)
                (rq_replace_ok {| e_tag := 0; e_at := 0; e_expiry := None; e_body := QRel pid |} (b_store b) q)) as [Hq' Hc].
    cbn [fst snd]. split.
    + apply binv_set; [exact Hb|]. intros q0 E0. cbn [with_q bc_q] in E0. injection E0 as <-. exact Hq'.
    + rewrite jcmds_app, jcmds_map_cmd. cbn [jcmds]. now rewrite app_nil_r.
  - (* pubcomp *)
    destruct (negb _); [split; [exact Hb|constructor]|].
    destruct (b_get c b) as [x|] eqn:Ex; [|split; [exact Hb|constructor]].
    destruct (bc_q x) as [q|] eqn:Eq; [|split; [exact Hb|constructor]].
    destruct (qkey_res q _ (cl_ok_get _ _ _ Hb Ex q Eq) (rq_remove_ok pid (b_store b) q)) as [Hq' Hc]. cbn [fst snd]. split.
    + apply binv_set; [exact Hb|]. intros q0 E0. cbn [with_q bc_q] in E0. injection E0 as <-. exact Hq'.
    + now rewrite jcmds_map_cmd.
Qed.

Lemma brun_ok fx h b :
  binv b -> binv (fst (brun fx b h)) /\ Forall wt_cmd (jcmds (snd (brun fx b h))).
Proof.
  revert b. induction h as [|ev r IH]; intros b Hb; cbn [brun].
  - split; [exact Hb|constructor].
  - destruct (bstep_ok fx b ev Hb) as [Hb1 Hc1]. destruct (bstep fx b ev) as [b1 j1]. cbn [fst snd] in *.
    destruct (IH b1 Hb1) as [Hb2 Hc2]. destruct (brun fx b1 r) as [b2 j2]. cbn [fst snd] in *.
    split; [exact Hb2|]. rewrite jcmds_app. apply Forall_app. now split.
Qed.

Lemma binv0 : binv broker0.
Proof. constructor. Qed.

Lemma journal_wt fx h : Forall wt_cmd (jcmds (journal fx h)).
Proof. unfold journal. exact (proj2 (brun_ok fx h broker0 binv0)). Qed.

(* start-up succeeds on the store left by any prefix of the storage commands of any history *)
Theorem startup_any_prefix (fx : fixes) (h : list bevent) (k : nat) :
  recover fx (exec_all [] (firstn k (jcmds (journal fx h)))) <> None.
Proof.
  apply recover_total. apply exec_all_wt; [exact wt_store_nil|].
  apply Forall_firstn. apply journal_wt.
Qed.

(* the same from any broker state reached after a recovery: the journal of the events that
   follow a restart, cut anywhere, again leaves a loadable store (crash after crash) *)
Lemma recover_binv fx s b : recover fx s = Some b -> binv b.
Proof.
  unfold recover. destruct (has_wrongtype_session s); [discriminate|].
  destruct (load_bsubs fx s _ _) as [ops|]; [|discriminate]. intros E. injection E as <-.
  unfold binv. cbn [b_clients].
  set (cids := map fst (stored_sessions s (scan_prefix SESS_PREFIX s))).
  assert (H : forall cl, cl_ok cl ->
            cl_ok (fold_left (fun cl c => aset c {| bc_online := false; bc_q := Some (rq_fresh s MAXQ IFEXP c);
                                                   bc_ua := Some [] |} cl) cids cl)).
  { induction cids as [|c r IH]; intros cl Hcl; cbn [fold_left]; [exact Hcl|].
    apply IH. apply cl_ok_aset; [exact Hcl|]. intros q E. cbn [bc_q] in E. injection E as <-. exists c. reflexivity. }
  apply H. constructor.
Qed.

Theorem startup_after_restart (fx : fixes) (s : rstore) (b : broker) (h : list bevent) (k : nat) :
  wt_store s -> recover fx s = Some b ->
  recover fx (exec_all s (firstn k (jcmds (snd (brun fx b h))))) <> None.
Proof.
  intros Hs Hr. apply recover_total. apply exec_all_wt; [exact Hs|].
  apply Forall_firstn. exact (proj2 (brun_ok fx h b (recover_binv fx s b Hr))).
Qed.

(* ================================================================== *)
(* 6. the three repaired defects: regression histories (old_code vs now) *)
(* ================================================================== *)
Definition C1 : cid := [99; 49].                       (* "c1" *)
Definition SUB1 : cid := [115; 117; 98; 49].           (* "sub1" *)
Definition TA : str := [97].                           (* "a" *)
Definition sub_a : sub := {| s_share := []; s_filter := TA; s_id := 0; s_qos := 1; s_nl := false; s_rap := false; s_rh := 0 |}.

Definition recovered_subs (fx : fixes) (h : list bevent) (k : nat) : option (list (cid * sub)) :=
  match recover fx (exec_all [] (firstn k (jcmds (journal fx h)))) with
  | Some b => Some (bs_entries (b_subs b))
  | None => None
  end.

(* UNSUBACK was sent (the history is complete), the subscription is back after a restart *)
Definition h_unsub : list bevent :=
  [EConnect C1 true 3600 []; ESubscribe C1 10 [sub_a]; EUnsubscribe C1 11 [TA]].

Lemma unsub_lost_old_code :
  bs_entries (b_subs (fst (brun old_code broker0 h_unsub))) = [] /\
  recovered_subs old_code h_unsub (length (jcmds (journal old_code h_unsub))) = Some [(C1, sub_a)].
Proof. split; vm_compute; reflexivity. Qed.

Lemma unsub_kept_now :
  recovered_subs cur_code h_unsub (length (jcmds (journal cur_code h_unsub))) = Some [].
Proof. vm_compute. reflexivity. Qed.

(* SUBACK was sent to client "sub1"; after a restart the subscription belongs to client "1" *)
Definition h_trim : list bevent := [EConnect SUB1 true 3600 []; ESubscribe SUB1 10 [sub_a]].

Lemma clientid_mangled_old_code :
  recovered_subs old_code h_trim (length (jcmds (journal old_code h_trim))) = Some [([49], sub_a)].
Proof. vm_compute. reflexivity. Qed.

Lemma clientid_kept_now :
  recovered_subs cur_code h_trim (length (jcmds (journal cur_code h_trim))) = Some [(SUB1, sub_a)].
Proof. vm_compute. reflexivity. Qed.

(* PUBREC was sent for QoS 2 packet id 7; after a restart and a reconnection without clean
   start the same PUBLISH is appended to the subscriber's queue a second time *)
Definition C2 : cid := [99; 50].
Definition PM : str := [109; 49].
Definition h_q2 : list bevent :=
  [EConnect C1 true 3600 []; EConnect C2 true 3600 []; ESubscribe C2 10 [sub_a]; EClose C2; EPublish C1 2 7 TA PM].

Definition resend_appends (fx : fixes) : option nat :=
  match recover fx (exec_all [] (jcmds (journal fx h_q2))) with
  | Some b =>
      let '(b1, _) := bstep fx b (EConnect C1 false 3600 []) in
      let '(_, j) := bstep fx b1 (EPublish C1 2 7 TA PM) in
      Some (length (filter (fun e => match e with JCmd (CRPush _ _) => true | _ => false end) j))
  | None => None
  end.

Lemma qos2_duplicate_accepted_old_code : resend_appends old_code = Some 1%nat.
Proof. vm_compute. reflexivity. Qed.
Lemma qos2_duplicate_recognised_now : resend_appends cur_code = Some 0%nat.
Proof. vm_compute. reflexivity. Qed.

(* ================================================================== *)
(* 7. subscriptions: the store at ANY prefix of the journal              *)
(* ================================================================== *)
Definition cmd_key (c : rcmd) : str :=
  match c with CHSet k _ | CHDel k _ | CDel k | CRPush k _ | CLRem k _ | CLSet k _ _ => k end.

Lemma exec_frame s c k' : NoDup (map fst s) -> cmd_key c <> k' -> aget k' (exec s c) = aget k' s.
Proof.
  intros Hnd Hk. assert (Hk' : k' <> cmd_key c) by congruence.
  destruct c as [k fvs|k fs|k|k v|k v|k i v]; cbn [exec cmd_key] in *.
  - destruct (aget k s) as [[h|l]|]; try reflexivity; now apply aget_aset_other.
  - destruct (aget k s) as [[h|l]|]; try reflexivity.
    destruct (hdel_all fs h); [|now apply aget_aset_other].
    rewrite aget_adel by exact Hnd. apply str_eqb_neq in Hk'. now rewrite Hk'.
  - rewrite aget_adel by exact Hnd. apply str_eqb_neq in Hk'. now rewrite Hk'.
  - destruct (aget k s) as [[h|l]|]; try reflexivity; now apply aget_aset_other.
  - destruct (aget k s) as [[h|l]|]; try reflexivity.
    destruct (remove_first v l); [|now apply aget_aset_other].
    rewrite aget_adel by exact Hnd. apply str_eqb_neq in Hk'. now rewrite Hk'.
  - destruct (aget k s) as [[h|l]|]; try reflexivity.
    destruct (norm_index i (length l)); [|reflexivity]. now apply aget_aset_other.
Qed.

Lemma has_prefix_split p k : has_prefix_str p k = true -> k = p ++ skipn (length p) k.
Proof.
  revert k. induction p as [|x p IH]; intros k H; cbn [has_prefix_str length skipn app] in *; [reflexivity|].
  destruct k as [|y k]; [discriminate|]. apply andb_true_iff in H as [H1 H2].
  apply N.eqb_eq in H1. subst y. f_equal. now apply IH.
Qed.

Definition sub_client (k : str) : option cid := if is_sub_key k then Some (skipn 4 k) else None.

Lemma sub_client_key c : sub_client (sub_key c) = Some c.
Proof. unfold sub_client. rewrite sub_key_is_sub. reflexivity. Qed.

Lemma sub_client_inv k c : sub_client k = Some c -> k = sub_key c.
Proof.
  unfold sub_client. destruct (is_sub_key k) eqn:E; [|discriminate]. intros H. injection H as <-.
  exact (has_prefix_split SUBS_PREFIX k E).
Qed.

Lemma sub_client_none k c : sub_client k = None -> k <> sub_key c.
Proof. intros H E. subst k. rewrite sub_client_key in H. discriminate. Qed.

Lemma sub_key_inj c c' : sub_key c = sub_key c' -> c = c'.
Proof. unfold sub_key. apply app_inv_head. Qed.

(* the in-memory index, updated field by field *)
Definition bs_setf (c : cid) (f : str) (x : sub) (m : bsubs) : bsubs := aset c (aset f x (bs_table c m)) m.

(* the effect of one storage command on the subscription tables *)
Definition mem_eff (m : bsubs) (cmd : rcmd) : bsubs :=
  match cmd with
  | CHSet k fvs =>
      match sub_client k with
      | Some c => fold_left (fun m fv => match snd fv with BSub x => bs_setf c (fst fv) x m | _ => m end) fvs m
      | None => m
      end
  | CHDel k fs => match sub_client k with Some c => fold_left (fun m f => bs_unsub c f m) fs m | None => m end
  | CDel k => match sub_client k with Some c => bs_clear c m | None => m end
  | _ => m
  end.

Definition store_tb (c : cid) (s : rstore) : list (str * blob) :=
  match aget (sub_key c) s with Some (RHash h) => h | _ => [] end.

Definition tb_rel (h : list (str * blob)) (tb : list (str * sub)) : Prop :=
  forall t, aget t h = option_map BSub (aget t tb).

(* the stored hashes hold exactly the tables *)
Definition sub_rel (s : rstore) (m : bsubs) : Prop := forall c, tb_rel (store_tb c s) (bs_table c m).

Definition bs_ok (m : bsubs) : Prop :=
  NoDup (map fst m) /\ forall c tb, aget c m = Some tb -> NoDup (map fst tb).

Lemma bs_table_nodup c m : bs_ok m -> NoDup (map fst (bs_table c m)).
Proof.
  intros [_ H]. unfold bs_table. destruct (aget c m) as [tb|] eqn:E; [now apply (H c)|constructor].
Qed.

Lemma bs_table_set_same c tb m : bs_table c (aset c tb m) = tb.
Proof. unfold bs_table. now rewrite aget_aset_same. Qed.
Lemma bs_table_set_other c c' tb m : c' <> c -> bs_table c' (aset c tb m) = bs_table c' m.
Proof. intros H. unfold bs_table. now rewrite aget_aset_other. Qed.

Lemma bs_ok_set c tb m : bs_ok m -> NoDup (map fst tb) -> bs_ok (aset c tb m).
Proof.
  intros [H1 H2] Htb. split; [now apply NoDup_aset|].
  intros c' tb' E. rewrite aget_aset in E. destruct (str_eqb c' c).
  - injection E as <-. exact Htb.
  - now apply (H2 c').
Qed.

Lemma bs_ok_clear c m : bs_ok m -> bs_ok (bs_clear c m).
Proof.
  intros [H1 H2]. unfold bs_clear. split; [now apply NoDup_adel|].
  intros c' tb' E. rewrite aget_adel in E by exact H1. destruct (str_eqb c' c); [discriminate|now apply (H2 c')].
Qed.

Lemma bs_table_clear c c' m : bs_ok m -> bs_table c' (bs_clear c m) = if str_eqb c' c then [] else bs_table c' m.
Proof.
  intros [H1 _]. unfold bs_table, bs_clear. rewrite aget_adel by exact H1. now destruct (str_eqb c' c).
Qed.

Lemma tb_rel_nil : tb_rel [] [].
Proof. intros t. reflexivity. Qed.

Lemma tb_rel_aset f x h tb : tb_rel h tb -> tb_rel (aset f (BSub x) h) (aset f x tb).
Proof. intros H t. rewrite !aget_aset. destruct (str_eqb t f); [reflexivity|apply H]. Qed.

Lemma tb_rel_adel f h tb :
  NoDup (map fst h) -> NoDup (map fst tb) -> tb_rel h tb -> tb_rel (adel f h) (adel f tb).
Proof.
  intros H1 H2 H t. rewrite !aget_adel by assumption. destruct (str_eqb t f); [reflexivity|apply H].
Qed.

Lemma tb_rel_nil_l tb : tb_rel [] tb -> forall t, aget t tb = None.
Proof. intros H t. specialize (H t). cbn [aget] in H. destruct (aget t tb); [discriminate|reflexivity]. Qed.

(* HSET of subscription values *)
Lemma hset_rel c fvs : forall h m,
  all_subs fvs -> bs_ok m -> tb_rel h (bs_table c m) ->
  let m' := fold_left (fun m fv => match snd fv with BSub x => bs_setf c (fst fv) x m | _ => m end) fvs m in
  tb_rel (hset_all fvs h) (bs_table c m') /\ (forall c', c' <> c -> bs_table c' m' = bs_table c' m) /\ bs_ok m'.
Proof.
  induction fvs as [|[f v] r IH]; intros h m Hf Hm Hr; cbn [fold_left hset_all].
  - split; [exact Hr|]. split; [reflexivity|exact Hm].
  - inversion Hf as [|y ys Hy Hrest]; subst. destruct Hy as (x & Hx & _). cbn [snd fst] in *. subst v.
    assert (Hm1 : bs_ok (bs_setf c f x m)).
    { apply bs_ok_set; [exact Hm|]. apply NoDup_aset. now apply bs_table_nodup. }
    assert (Hr1 : tb_rel (aset f (BSub x) h) (bs_table c (bs_setf c f x m))).
    { unfold bs_setf. rewrite bs_table_set_same. now apply tb_rel_aset. }
    destruct (IH (aset f (BSub x) h) (bs_setf c f x m) Hrest Hm1 Hr1) as (H1 & H2 & H3).
    split; [exact H1|]. split; [|exact H3].
    intros c' Hc'. rewrite (H2 c' Hc'). unfold bs_setf. now apply bs_table_set_other.
Qed.

Lemma hdel_rel c fs : forall h m,
  NoDup (map fst h) -> bs_ok m -> tb_rel h (bs_table c m) ->
  let m' := fold_left (fun m f => bs_unsub c f m) fs m in
  tb_rel (hdel_all fs h) (bs_table c m') /\ (forall c', c' <> c -> bs_table c' m' = bs_table c' m) /\ bs_ok m'.
Proof.
  induction fs as [|f r IH]; intros h m Hh Hm Hr; cbn [fold_left hdel_all].
  - split; [exact Hr|]. split; [reflexivity|exact Hm].
  - assert (Hm1 : bs_ok (bs_unsub c f m)).
    { apply bs_ok_set; [exact Hm|]. apply NoDup_adel. now apply bs_table_nodup. }
    assert (Hr1 : tb_rel (adel f h) (bs_table c (bs_unsub c f m))).
    { unfold bs_unsub. rewrite bs_table_set_same. apply tb_rel_adel; [exact Hh|now apply bs_table_nodup|exact Hr]. }
    destruct (IH (adel f h) (bs_unsub c f m) (NoDup_adel _ _ Hh) Hm1 Hr1) as (H1 & H2 & H3).
    split; [exact H1|]. split; [|exact H3].
    intros c' Hc'. rewrite (H2 c' Hc'). unfold bs_unsub. now apply bs_table_set_other.
Qed.

Lemma store_tb_frame s cmd c : NoDup (map fst s) -> cmd_key cmd <> sub_key c -> store_tb c (exec s cmd) = store_tb c s.
Proof. intros Hnd Hk. unfold store_tb. now rewrite exec_frame. Qed.

Lemma store_tb_inv s c : wt_store s ->
  NoDup (map fst (store_tb c s)) /\
  (aget (sub_key c) s = None \/ aget (sub_key c) s = Some (RHash (store_tb c s))).
Proof.
  intros Hs. unfold store_tb. destruct (aget (sub_key c) s) as [[h|l]|] eqn:E.
  - split; [exact (proj1 (wt_hash_inv s _ h Hs E))|now right].
  - exfalso. destruct Hs as [_ Hs]. destruct (Hs _ _ E) as (_ & H2 & _).
    destruct (H2 (sub_key_is_sub c)) as (h & Eh & _). discriminate.
  - split; [constructor|now left].
Qed.

(* one command keeps the stored hashes and the tables in step *)
Lemma step_sub_rel s m cmd :
  wt_store s -> bs_ok m -> wt_cmd cmd -> sub_rel s m ->
  sub_rel (exec s cmd) (mem_eff m cmd) /\ bs_ok (mem_eff m cmd).
Proof.
  intros Hs Hm Hc Hrel. pose proof (proj1 Hs) as Hnd.
  assert (Hframe : sub_client (cmd_key cmd) = None -> mem_eff m cmd = m ->
                   sub_rel (exec s cmd) (mem_eff m cmd) /\ bs_ok (mem_eff m cmd)).
  { intros Hn He. rewrite He. split; [|exact Hm]. intros c.
    rewrite store_tb_frame; [apply Hrel|exact Hnd|]. now apply sub_client_none. }
  destruct cmd as [k fvs|k fs|k|k v|k v|k i v]; cbn [mem_eff cmd_key] in *.
  - destruct (sub_client k) as [c0|] eqn:Ek; [|now apply Hframe].
    apply sub_client_inv in Ek. subst k.
    cbn [wt_cmd] in Hc. specialize (Hc (sub_key_is_sub c0)).
    destruct (store_tb_inv s c0 Hs) as [Hnd0 Hget].
    destruct (hset_rel c0 fvs (store_tb c0 s) m Hc Hm (Hrel c0)) as (H1 & H2 & H3).
    split; [|exact H3]. intros c.
    destruct (str_eqb_spec c c0) as [E|E].
    + subst c. assert (Etb : store_tb c0 (exec s (CHSet (sub_key c0) fvs)) = hset_all fvs (store_tb c0 s)).
      { unfold store_tb at 1. cbn [exec]. destruct Hget as [Hg|Hg]; rewrite Hg; rewrite aget_aset_same.
        - unfold store_tb. now rewrite Hg.
        - reflexivity. }
      rewrite Etb. exact H1.
    + rewrite store_tb_frame; [|exact Hnd|cbn [cmd_key]; intros E'; apply sub_key_inj in E'; congruence].
      rewrite (H2 c E). apply Hrel.
  - destruct (sub_client k) as [c0|] eqn:Ek; [|now apply Hframe].
    apply sub_client_inv in Ek. subst k.
    destruct (store_tb_inv s c0 Hs) as [Hnd0 Hget].
    destruct (hdel_rel c0 fs (store_tb c0 s) m Hnd0 Hm (Hrel c0)) as (H1 & H2 & H3).
    split; [|exact H3]. intros c.
    destruct (str_eqb_spec c c0) as [E|E].
    + subst c. assert (Etb : store_tb c0 (exec s (CHDel (sub_key c0) fs)) = hdel_all fs (store_tb c0 s)).
      { unfold store_tb at 1. cbn [exec]. destruct Hget as [Hg|Hg]; rewrite Hg.
        - rewrite Hg. unfold store_tb. rewrite Hg.
          clear. induction fs as [|f r IH]; cbn [hdel_all adel]; [reflexivity|exact IH].
        - destruct (hdel_all fs (store_tb c0 s)) as [|x r] eqn:Eh.
          + rewrite aget_adel by exact Hnd. now rewrite str_eqb_refl.
          + now rewrite aget_aset_same. }
      rewrite Etb. exact H1.
    + rewrite store_tb_frame; [|exact Hnd|cbn [cmd_key]; intros E'; apply sub_key_inj in E'; congruence].
      rewrite (H2 c E). apply Hrel.
  - destruct (sub_client k) as [c0|] eqn:Ek; [|now apply Hframe].
    apply sub_client_inv in Ek. subst k. split; [|now apply bs_ok_clear].
    intros c. rewrite bs_table_clear by exact Hm. destruct (str_eqb_spec c c0) as [E|E].
    + subst c. unfold store_tb. cbn [exec]. rewrite aget_adel by exact Hnd. rewrite str_eqb_refl. apply tb_rel_nil.
    + rewrite store_tb_frame; [apply Hrel|exact Hnd|cbn [cmd_key]; intros E'; apply sub_key_inj in E'; congruence].
  - apply Hframe; [|reflexivity]. destruct Hc as [_ H2]. unfold sub_client. now rewrite H2.
  - apply Hframe; [|reflexivity]. destruct Hc as [_ H2]. unfold sub_client. now rewrite H2.
  - apply Hframe; [|reflexivity]. destruct Hc as [_ H2]. unfold sub_client. now rewrite H2.
Qed.

Lemma steps_sub_rel cs : forall s m,
  wt_store s -> bs_ok m -> Forall wt_cmd cs -> sub_rel s m ->
  sub_rel (exec_all s cs) (fold_left mem_eff cs m) /\ bs_ok (fold_left mem_eff cs m).
Proof.
  unfold exec_all. induction cs as [|c r IH]; intros s m Hs Hm Hc Hrel; cbn [fold_left].
  - now split.
  - inversion Hc as [|x xs Hx Hr]; subst.
    destruct (step_sub_rel s m c Hs Hm Hx Hrel) as [H1 H2].
    apply IH; [now apply exec_wt|exact H2|exact Hr|exact H1].
Qed.

Lemma bs_ok_nil : bs_ok [].
Proof. split; [constructor|]. intros c tb E. discriminate. Qed.
Lemma sub_rel_nil : sub_rel [] [].
Proof. intros c t. reflexivity. Qed.

(* THEOREM A (no hypothesis on the history, any behaviour flags): after ANY prefix of the
   storage commands of ANY history the stored subscription hashes are exactly the tables
   obtained by replaying the subscription effects of the same prefix *)
Theorem subs_any_prefix (fx : fixes) (h : list bevent) (k : nat) :
  let cmds := firstn k (jcmds (journal fx h)) in
  sub_rel (exec_all [] cmds) (fold_left mem_eff cmds []).
Proof.
  cbn zeta. apply steps_sub_rel; [exact wt_store_nil|exact bs_ok_nil| |exact sub_rel_nil].
  apply Forall_firstn. apply journal_wt.
Qed.

(* ================================================================== *)
(* 8. the journal is the broker's store; the replay is its index        *)
(* ================================================================== *)
Definition nosub (c : rcmd) : Prop := sub_client (cmd_key c) = None.

Lemma mem_eff_nosub cs : forall m, Forall nosub cs -> fold_left mem_eff cs m = m.
Proof.
  induction cs as [|c r IH]; intros m H; cbn [fold_left]; [reflexivity|].
  inversion H as [|x xs Hx Hr]; subst. rewrite <- (IH m Hr) at 2. f_equal.
  unfold nosub in Hx. destruct c as [k fvs|k fs|k|k v|k v|k i v]; cbn [mem_eff cmd_key] in *; try reflexivity; now rewrite Hx.
Qed.

Lemma qcmd_nosub c k : qcmd (queue_key c) k -> nosub k.
Proof.
  destruct k as [k fvs|k fs|k|k v|k v|k i v]; cbn [qcmd]; intros H; try contradiction; subst k; reflexivity.
Qed.

Lemma qkey_res_nosub q x : qkey_ok q -> res_ok q x -> Forall nosub (r_cmds x).
Proof.
  intros [c Hc] [Hcmds _]. rewrite Hc in Hcmds. eapply Forall_impl; [|exact Hcmds]. intros k. apply qcmd_nosub.
Qed.

Lemma exec_all_app s a b : exec_all s (a ++ b) = exec_all (exec_all s a) b.
Proof. unfold exec_all. now rewrite fold_left_app. Qed.

(* every queue method leaves the store it computed by executing its own commands *)
Definition res_store (s : rstore) (x : rqres) : Prop := r_store x = exec_all s (r_cmds x).

Lemma done_store s q o cs : res_store s (done s q o cs).
Proof. reflexivity. Qed.

Lemma rq_init_store c v l s q : res_store s (rq_init c v l s q).
Proof. reflexivity. Qed.
Lemma rq_add_store now e s q : res_store s (rq_add now e s q).
Proof.
  unfold rq_add. destruct (rq_max q <=? rq_len q)%Z; [|apply done_store].
  assert (H : forall victim r bk p, res_store s (rq_add_finish s q e victim r bk p)).
  { intros victim r bk p. unfold rq_add_finish. destruct victim; apply done_store. }
  destruct (rq_add_scan _ _ _ _ _ _) as [d r bk|cand|cand front]; try apply H.
  destruct (rq_drained q && (rq_len q <=? rq_cur q)%Z); [apply H|].
  destruct cand; [apply H|]. destruct (e_body e) as [m|p]; [|apply H]. destruct (m_qos m =? 0); apply H.
Qed.
Lemma rq_replace_store e s q : res_store s (rq_replace e s q).
Proof.
  unfold rq_replace. destruct (rq_cur q <=? 0)%Z; [apply done_store|]. destruct (find_id_z _ _ _); [|apply done_store]. destruct (rq_cache q); apply done_store.
Qed.
Lemma rq_remove_store pid s q : res_store s (rq_remove pid s q).
Proof.
  unfold rq_remove. destruct (rq_cache q) as [c|]; [|apply done_store]. destruct (cache_get pid c); apply done_store.
Qed.
Lemma rq_read_store now pids s q : res_store s (rq_read now pids s q).
Proof.
  unfold rq_read. destruct (negb (rq_drained q)); [apply done_store|].
  destruct (rq_closed q); [apply done_store|]. destruct (rq_len q <=? rq_cur q)%Z; [apply done_store|].
  destruct (length pids =? 0)%nat; [apply done_store|].
  destruct (rq_read_loop _ _ _ _ _ _ _) as [a p]. destruct p; apply done_store.
Qed.
Lemma rq_read_inflight_store now n s q : res_store s (rq_read_inflight now n s q).
Proof.
  unfold rq_read_inflight. destruct n as [|n']; [apply done_store|]. destruct (elems_of _); [apply done_store|].
  destruct (rq_rif_loop _ _ _ _ _ _ _ _ _) as [[[[[cur cache] rs] cmds] dr] p]. destruct p; apply done_store.
Qed.

Lemma poll_new_q c pids s q :
  qkey_ok q -> let '(s', _, j) := poll_new c pids s q in s' = exec_all s (jcmds j) /\ Forall nosub (jcmds j).
Proof.
  intros Hq. unfold poll_new.
  pose proof (rq_read_store 0 (pids ++ filler (MAXINFLIGHT - length pids)) s q) as Hst.
  pose proof (qkey_res_nosub q _ Hq (rq_read_ok 0 (pids ++ filler (MAXINFLIGHT - length pids)) s q)) as Hn.
  unfold res_store in Hst.
  destruct (r_out _); rewrite ?jcmds_app, ?jcmds_map_cmd, ?jcmds_deliveries, ?app_nil_r; now split.
Qed.

Lemma poll_inflight_q fuel c : forall s q,
  qkey_ok q -> let '(s', _, j) := poll_inflight fuel c s q in s' = exec_all s (jcmds j) /\ Forall nosub (jcmds j).
Proof.
  induction fuel as [|k IH]; intros s q Hq; cbn [poll_inflight].
  - split; [reflexivity|constructor].
  - pose proof (rq_read_inflight_store 0 MAXINFLIGHT s q) as Hst. unfold res_store in Hst.
    pose proof (qkey_res_nosub q _ Hq (rq_read_inflight_ok 0 MAXINFLIGHT s q)) as Hn.
    destruct (qkey_res q _ Hq (rq_read_inflight_ok 0 MAXINFLIGHT s q)) as [Hq' _].
    destruct (r_out (rq_read_inflight 0 MAXINFLIGHT s q)) as [| |[|e rs]| | | | | |];
      try (rewrite jcmds_map_cmd; now split).
    specialize (IH (r_store (rq_read_inflight 0 MAXINFLIGHT s q)) (r_q (rq_read_inflight 0 MAXINFLIGHT s q)) Hq').
    destruct (poll_inflight k c _ _) as [[s' q''] j]. destruct IH as [Hs' Hj].
    rewrite !jcmds_app, jcmds_map_cmd, jcmds_deliveries. cbn [app]. split.
    + rewrite exec_all_app, <- Hst. exact Hs'.
    + apply Forall_app. now split.
Qed.

Lemma deliver_q topic payload qos publisher sp cl : forall s,
  cl_ok cl ->
  let '(_, s', cmds) := deliver topic payload qos publisher sp cl s in s' = exec_all s cmds /\ Forall nosub cmds.
Proof.
  induction cl as [|[c x] r IH]; intros s Hcl; cbn [deliver].
  - split; [reflexivity|constructor].
  - inversion Hcl as [|y ys Hy Hr]; subst. cbn [snd] in Hy.
    destruct (bc_q x) as [q|] eqn:Eq.
    + destruct (client_match topic publisher c sp) as [[sq ids]|].
      * pose proof (rq_add_store 0 (mk_elem (mk_msg (N.min qos sq) topic payload ids)) s q) as Hst. unfold res_store in Hst.
        pose proof (qkey_res_nosub q _ (Hy q Eq) (rq_add_ok 0 (mk_elem (mk_msg (N.min qos sq) topic payload ids)) s q)) as Hn.
        specialize (IH (r_store (rq_add 0 (mk_elem (mk_msg (N.min qos sq) topic payload ids)) s q)) Hr).
        destruct (deliver topic payload qos publisher sp r _) as [[r' s'] cmds]. destruct IH as [Hs' Hcm]. split.
        -- rewrite exec_all_app, <- Hst. exact Hs'.
        -- apply Forall_app. now split.
      * specialize (IH s Hr). now destruct (deliver topic payload qos publisher sp r s) as [[r' s'] cmds].
    + specialize (IH s Hr). now destruct (deliver topic payload qos publisher sp r s) as [[r' s'] cmds].
Qed.

Lemma nosub_sess c e : nosub (sess_set_cmd c e).
Proof. reflexivity. Qed.
Lemma nosub_del_sess c : nosub (CDel (sess_key c)).
Proof. reflexivity. Qed.
Lemma nosub_del_queue c : nosub (CDel (queue_key c)).
Proof. reflexivity. Qed.
Lemma nosub_del_unack c : nosub (CDel (unack_key c)).
Proof. reflexivity. Qed.

Lemma remove_session_eff id b :
  let '(b', cmds) := remove_session id b in
  b_store b' = exec_all (b_store b) cmds /\ b_subs b' = fold_left mem_eff cmds (b_subs b).
Proof.
  unfold remove_session. cbn [b_store b_subs]. split; [reflexivity|].
  rewrite fold_left_app. cbn [fold_left mem_eff].
  assert (E : fold_left mem_eff (match b_get id b with
                                 | Some x => match bc_q x with Some _ => [CDel (queue_key id)] | None => [] end
                                 | None => [] end) (b_subs b) = b_subs b).
  { apply mem_eff_nosub. destruct (b_get id b) as [x|]; [|constructor].
    destruct (bc_q x); [|constructor]. constructor; [apply nosub_del_queue|constructor]. }
  rewrite E. change (sub_client (sess_key id)) with (@None cid). now rewrite sub_client_key.
Qed.

Definition no_unsub (ev : bevent) : Prop := match ev with EUnsubscribe _ _ _ => False | _ => True end.

(* THEOREM B: one complete event.  The store is the execution of the event's commands, and -
   when Unsubscribe reaches redis (fix_hdel), or the event is not an UNSUBSCRIBE - the
   subscription index of the broker is the replay of the same commands *)
Lemma bstep_coherent fx b ev :
  binv b ->
  b_store (fst (bstep fx b ev)) = exec_all (b_store b) (jcmds (snd (bstep fx b ev))) /\
  (fix_hdel fx = true \/ no_unsub ev ->
   b_subs (fst (bstep fx b ev)) = fold_left mem_eff (jcmds (snd (bstep fx b ev))) (b_subs b)).
Proof.
  intros Hb.
  assert (Hnil : b_store b = exec_all (b_store b) (jcmds []) /\
                 (fix_hdel fx = true \/ no_unsub ev -> b_subs b = fold_left mem_eff (jcmds []) (b_subs b))) by (split; reflexivity).
  destruct ev as [c clean expiry pids|c|c pid subs|c pid ts|c qos pid topic payload|c pid|c pids|c pid|c pid|c pid];
    cbn [bstep].
  - (* connect *)
    destruct (match b_get c b with Some x => bc_online x | None => false end); [exact Hnil|].
    destruct (sess_get c (b_store b)) as [[old_id old_exp]|]; [|exact Hnil].
    set (resume0 := negb (is_empty old_id) && negb (old_exp =? 0) && negb clean).
    assert (H1 : let '(b1, cmds1) := (if resume0 || negb (negb (is_empty old_id)) then (b, []) else remove_session old_id b) in
                 binv b1 /\ b_store b1 = exec_all (b_store b) cmds1 /\ b_subs b1 = fold_left mem_eff cmds1 (b_subs b)).
    { destruct (resume0 || negb (negb (is_empty old_id))); [split; [exact Hb|split; reflexivity]|].
      pose proof (remove_session_ok old_id b Hb) as H. pose proof (remove_session_eff old_id b) as H'.
      destruct (remove_session old_id b) as [b1 cmds1]. destruct H as [H _]. now split. }
    destruct (if resume0 || negb (negb (is_empty old_id)) then (b, []) else remove_session old_id b) as [b1 cmds1]. destruct H1 as (Hb1 & Hs1 & Hm1).
    destruct (resume0 && _) eqn:Eres.
    + destruct (b_get c b) as [x|] eqn:Ex; [|exact Hnil].
      destruct (bc_q x) as [q|] eqn:Eq; [|exact Hnil].
      pose proof (cl_ok_get _ _ _ Hb Ex q Eq) as Hq.
      destruct (qkey_res q _ Hq (rq_init_ok false true MAXPACKET (b_store b1) q)) as [Hq1 _].
      pose proof (qkey_res_nosub q _ Hq (rq_init_ok false true MAXPACKET (b_store b1) q)) as Hni.
      pose proof (rq_init_store false true MAXPACKET (b_store b1) q) as Hsi. unfold res_store in Hsi.
      pose proof (poll_inflight_q 3 c (exec (r_store (rq_init false true MAXPACKET (b_store b1) q)) (sess_set_cmd c (N.min expiry SESSION_CAP)))
                    (r_q (rq_init false true MAXPACKET (b_store b1) q)) Hq1) as Hp.
      pose proof (poll_inflight_ok 3 c (exec (r_store (rq_init false true MAXPACKET (b_store b1) q)) (sess_set_cmd c (N.min expiry SESSION_CAP)))
                    (r_q (rq_init false true MAXPACKET (b_store b1) q)) Hq1) as Hp'.
      destruct (poll_inflight 3 c _ _) as [[s3 q3] j3]. destruct Hp as [Hs3 Hn3]. destruct Hp' as [Hq3 _].
      assert (H4 : let '(s4, _, j4) := (if (rq_cur q3 <? rq_len q3)%Z then poll_new c pids s3 q3 else (s3, q3, [])) in
                   s4 = exec_all s3 (jcmds j4) /\ Forall nosub (jcmds j4)).
      { destruct (rq_cur q3 <? rq_len q3)%Z; [now apply poll_new_q|split; [reflexivity|constructor]]. }
      destruct (if (rq_cur q3 <? rq_len q3)%Z then poll_new c pids s3 q3 else (s3, q3, [])) as [[s4 q4] j4].
      destruct H4 as [Hs4 Hn4]. cbn [fst snd b_store b_subs b_set b_with_store].
      rewrite !jcmds_app, jcmds_map_cmd. cbn [jcmds app]. split.
      * rewrite !exec_all_app, <- Hs1, <- Hsi. cbn [exec_all fold_left] in *. rewrite Hs4, Hs3. reflexivity.
      * intros _. rewrite !fold_left_app, <- Hm1.
        rewrite (mem_eff_nosub _ _ Hn4), (mem_eff_nosub _ _ Hn3).
        rewrite (mem_eff_nosub [sess_set_cmd c (N.min expiry SESSION_CAP)]) by (constructor; [apply nosub_sess|constructor]).
        now rewrite (mem_eff_nosub _ _ Hni).
    + pose proof (qkey_res_nosub _ _ (qkey_new MAXQ IFEXP c) (rq_init_ok true true MAXPACKET (b_store b1) (rq_new MAXQ IFEXP c))) as Hni.
      destruct (qkey_res _ _ (qkey_new MAXQ IFEXP c) (rq_init_ok true true MAXPACKET (b_store b1) (rq_new MAXQ IFEXP c))) as [Hq1 _].
      pose proof (rq_init_store true true MAXPACKET (b_store b1) (rq_new MAXQ IFEXP c)) as Hsi. unfold res_store in Hsi.
      pose proof (poll_inflight_q 3 c (exec_all (r_store (rq_init true true MAXPACKET (b_store b1) (rq_new MAXQ IFEXP c)))
                                                 [CDel (unack_key c); sess_set_cmd c (N.min expiry SESSION_CAP)])
                    (r_q (rq_init true true MAXPACKET (b_store b1) (rq_new MAXQ IFEXP c))) Hq1) as Hp.
      destruct (poll_inflight 3 c _ _) as [[s3 q3] j3]. destruct Hp as [Hs3 Hn3].
      cbn [fst snd b_store b_subs b_set b_with_store].
      rewrite !jcmds_app, jcmds_map_cmd. cbn [jcmds app]. split.
      * rewrite !exec_all_app, <- Hs1, <- Hsi. exact Hs3.
      * intros _. rewrite !fold_left_app, <- Hm1. rewrite (mem_eff_nosub _ _ Hn3).
        rewrite (mem_eff_nosub [CDel (unack_key c); sess_set_cmd c (N.min expiry SESSION_CAP)])
          by (constructor; [apply nosub_del_unack|constructor; [apply nosub_sess|constructor]]).
        now rewrite (mem_eff_nosub _ _ Hni).
  - (* close *)
    destruct (negb _); [exact Hnil|].
    destruct (b_get c b) as [x|] eqn:Ex; [|exact Hnil].
    destruct (sess_get c (b_store b)) as [[id exp]|]; [|exact Hnil].
    destruct (exp =? 0).
    + match goal with |- context [remove_session c ?bb] => pose proof (remove_session_eff c bb) as Hr; destruct (remove_session c bb) as [b2 cmds] end.
      destruct Hr as [Hs Hm]. cbn [fst snd]. rewrite jcmds_map_cmd. split; [exact Hs|intros _; exact Hm].
    + cbn [fst snd]. exact Hnil.
  - (* subscribe *)
    destruct (negb _); [exact Hnil|]. cbn [fst snd b_store b_subs].
    rewrite jcmds_app, jcmds_map_cmd. cbn [jcmds]. rewrite app_nil_r. split; [reflexivity|]. intros _.
    cbn [sop_cmds]. clear Hnil. generalize (b_subs b). induction subs as [|s r IH]; intros m; cbn [map fold_left]; [reflexivity|].
    rewrite IH. reflexivity.
  - (* unsubscribe *)
    destruct (negb _); [exact Hnil|]. cbn [fst snd b_store b_subs].
    rewrite jcmds_app, jcmds_map_cmd. cbn [jcmds]. rewrite app_nil_r. split; [reflexivity|].
    intros [Hfix|[]]. clear Hnil. generalize (b_subs b). induction ts as [|t r IH]; intros m; cbn [map concat fold_left]; [reflexivity|].
    rewrite fold_left_app, IH. cbn [sop_cmds]. rewrite Hfix. reflexivity.
  - (* publish *)
    destruct (negb _); [exact Hnil|].
    destruct (b_get c b) as [x|] eqn:Ex; [|exact Hnil].
    set (cache := match bc_ua x with Some u => u | None => [] end).
    set (dup := (qos =? 2) && memN pid cache).
    set (ucmds := if (qos =? 2) && negb dup then [CHSet (unack_key c) [(dec pid, BRaw ONE)]] else []).
    set (x' := if (qos =? 2) && negb dup then {| bc_online := bc_online x; bc_q := bc_q x; bc_ua := Some (pid :: cache) |} else x).
    assert (Hx' : client_ok x').
    { unfold x'. destruct ((qos =? 2) && negb dup); [|exact (cl_ok_get _ _ _ Hb Ex)].
      intros q0 E0. cbn [bc_q] in E0. exact (cl_ok_get _ _ _ Hb Ex q0 E0). }
    assert (Hb1 : binv (b_set c x' (b_with_store (exec_all (b_store b) ucmds) b))) by (apply binv_set; [exact Hb|exact Hx']).
    assert (Hu : Forall nosub ucmds).
    { unfold ucmds. destruct ((qos =? 2) && negb dup); [|constructor]. constructor; [reflexivity|constructor]. }
    assert (Hd : let '(_, s2, dcmds) := (if dup then (b_clients (b_set c x' (b_with_store (exec_all (b_store b) ucmds) b)),
                                                     b_store (b_set c x' (b_with_store (exec_all (b_store b) ucmds) b)), [])
                                         else deliver topic payload qos c (b_subs (b_set c x' (b_with_store (exec_all (b_store b) ucmds) b)))
                                                (b_clients (b_set c x' (b_with_store (exec_all (b_store b) ucmds) b)))
                                                (b_store (b_set c x' (b_with_store (exec_all (b_store b) ucmds) b)))) in
                 s2 = exec_all (exec_all (b_store b) ucmds) dcmds /\ Forall nosub dcmds).
    { destruct dup; [split; [reflexivity|constructor]|]. apply (deliver_q topic payload qos c _ _ _ Hb1). }
    destruct (if dup then _ else _) as [[cl s2] dcmds]. destruct Hd as [Hs2 Hdc]. cbn [fst snd b_store b_subs].
    rewrite jcmds_app, jcmds_map_cmd.
    assert (Hack : jcmds (if qos =? 1 then [JOut (OPuback c pid)] else if qos =? 2 then [JOut (OPubrec c pid)] else []) = []).
    { destruct (qos =? 1); [reflexivity|]. destruct (qos =? 2); reflexivity. }
    rewrite Hack, app_nil_r. split.
    + now rewrite exec_all_app.
    + intros _. cbn [b_set b_with_store b_subs]. symmetry. apply mem_eff_nosub. apply Forall_app. now split.
  - (* pubrel *)
    destruct (negb _); [exact Hnil|].
    destruct (b_get c b) as [x|] eqn:Ex; [|exact Hnil]. cbn [fst snd b_store b_subs b_set b_with_store].
    rewrite jcmds_app, jcmds_map_cmd. cbn [jcmds]. rewrite app_nil_r. split; [reflexivity|]. intros _.
    cbn [fold_left mem_eff]. reflexivity.
  - (* poll *)
    destruct (negb _); [exact Hnil|].
    destruct (b_get c b) as [x|] eqn:Ex; [|exact Hnil].
    destruct (bc_q x) as [q|] eqn:Eq; [|exact Hnil].
    pose proof (poll_new_q c pids (b_store b) q (cl_ok_get _ _ _ Hb Ex q Eq)) as Hp.
    destruct (poll_new c pids (b_store b) q) as [[s' q'] j]. destruct Hp as [Hs' Hn].
    cbn [fst snd b_store b_subs b_set b_with_store]. split; [exact Hs'|]. intros _. symmetry. now apply mem_eff_nosub.
  - (* puback *)
    destruct (negb _); [exact Hnil|].
    destruct (b_get c b) as [x|] eqn:Ex; [|exact Hnil].
    destruct (bc_q x) as [q|] eqn:Eq; [|exact Hnil].
    pose proof (rq_remove_store pid (b_store b) q) as Hst. unfold res_store in Hst.
    pose proof (qkey_res_nosub q _ (cl_ok_get _ _ _ Hb Ex q Eq) (rq_remove_ok pid (b_store b) q)) as Hn.
    cbn [fst snd b_store b_subs b_set b_with_store]. rewrite jcmds_map_cmd. split; [exact Hst|]. intros _. symmetry. now apply mem_eff_nosub.
  - (* pubrec *)
    destruct (negb _); [exact Hnil|].
    destruct (b_get c b) as [x|] eqn:Ex; [|exact Hnil].
    destruct (bc_q x) as [q|] eqn:Eq; [|exact Hnil].
    pose proof (rq_replace_store {| e_tag := 0; e_at := 0; e_expiry := None; e_body := QRel pid |} (b_store b) q) as Hst. unfold res_store in Hst.
    pose proof (qkey_res_nosub q _ (cl_ok_get _ _ _ Hb Ex q Eq)
                  (rq_replace_ok {| e_tag := 0; e_at := 0; e_expiry := None; e_body := QRel pid |} (b_store b) q)) as Hn.
    cbn [fst snd b_store b_subs b_set b_with_store]. rewrite jcmds_app, jcmds_map_cmd. cbn [jcmds]. rewrite app_nil_r.
    split; [exact Hst|]. intros _. symmetry. now apply mem_eff_nosub.
  - (* pubcomp *)
    destruct (negb _); [exact Hnil|].
    destruct (b_get c b) as [x|] eqn:Ex; [|exact Hnil].
    destruct (bc_q x) as [q|] eqn:Eq; [|exact Hnil].
    pose proof (rq_remove_store pid (b_store b) q) as Hst. unfold res_store in Hst.
    pose proof (qkey_res_nosub q _ (cl_ok_get _ _ _ Hb Ex q Eq) (rq_remove_ok pid (b_store b) q)) as Hn.
    cbn [fst snd b_store b_subs b_set b_with_store]. rewrite jcmds_map_cmd. split; [exact Hst|]. intros _. symmetry. now apply mem_eff_nosub.
Qed.

Lemma brun_coherent fx h : forall b,
  binv b ->
  b_store (fst (brun fx b h)) = exec_all (b_store b) (jcmds (snd (brun fx b h))) /\
  (fix_hdel fx = true \/ Forall no_unsub h ->
   b_subs (fst (brun fx b h)) = fold_left mem_eff (jcmds (snd (brun fx b h))) (b_subs b)).
Proof.
  induction h as [|ev r IH]; intros b Hb; cbn [brun].
  - split; reflexivity.
  - destruct (bstep_coherent fx b ev Hb) as [Hs1 Hm1]. destruct (bstep_ok fx b ev Hb) as [Hb1 _].
    destruct (bstep fx b ev) as [b1 j1]. cbn [fst snd] in *.
    destruct (IH b1 Hb1) as [Hs2 Hm2]. destruct (brun fx b1 r) as [b2 j2]. cbn [fst snd] in *.
    rewrite jcmds_app. split.
    + now rewrite exec_all_app, <- Hs1.
    + intros Hc. rewrite fold_left_app, <- Hm1, <- Hm2; [reflexivity| |].
      * destruct Hc as [Hc|Hc]; [now left|right]. now inversion Hc.
      * destruct Hc as [Hc|Hc]; [now left|right]. now inversion Hc.
Qed.

(* the store the live broker holds after a history is the execution of its journal *)
Corollary journal_store fx h : b_store (fst (brun fx broker0 h)) = exec_all [] (jcmds (journal fx h)).
Proof. exact (proj1 (brun_coherent fx h broker0 binv0)). Qed.

(* THEOREM B for whole histories: the live broker's subscription index (what its SUBACKs and
   UNSUBACKs report, what deliveries are matched against) is the replay of its journal *)
Corollary journal_subs fx h :
  fix_hdel fx = true \/ Forall no_unsub h ->
  b_subs (fst (brun fx broker0 h)) = fold_left mem_eff (jcmds (journal fx h)) [].
Proof. exact (proj2 (brun_coherent fx h broker0 binv0)). Qed.

(* ================================================================== *)
(* 9. what `recover` loads                                               *)
(* ================================================================== *)
Definition unblob (o : option blob) : option sub := match o with Some (BSub x) => Some x | _ => None end.

Lemma bs_ok_sub c x m : bs_ok m -> bs_ok (bs_sub c x m).
Proof. intros Hm. apply bs_ok_set; [exact Hm|]. apply NoDup_aset. now apply bs_table_nodup. Qed.

Lemma load_table c : forall h l m,
  all_subs h -> NoDup (map fst h) -> subs_of_hash h = Some l -> bs_ok m ->
  let m' := fold_left (fun m x => bs_sub c x m) l m in
  bs_ok m' /\
  (forall t, aget t (bs_table c m') = match aget t h with Some (BSub x) => Some x | _ => aget t (bs_table c m) end) /\
  (forall c', c' <> c -> bs_table c' m' = bs_table c' m).
Proof.
  induction h as [|[f v] r IH]; intros l m Hh Hnd Hl Hm; cbn [subs_of_hash] in Hl.
  - injection Hl as <-. cbn [fold_left]. split; [exact Hm|]. split; [reflexivity|reflexivity].
  - inversion Hh as [|y ys Hy Hr]; subst. destruct Hy as (x & Hx & Hf). cbn [fst snd] in *. subst v f.
    destruct (subs_of_hash r) as [l'|] eqn:El; [|discriminate]. injection Hl as <-.
    cbn [map] in Hnd. inversion Hnd as [|z zs Hz Hnd']; subst.
    cbn [fold_left].
    destruct (IH l' (bs_sub c x m) Hr Hnd' eq_refl (bs_ok_sub c x m Hm)) as (H1 & H2 & H3).
    split; [exact H1|]. split.
    + assert (Ht : forall t, aget t (bs_table c (bs_sub c x m)) =
                               if str_eqb t (full_topic x) then Some x else aget t (bs_table c m)).
      { intros t. unfold bs_sub. rewrite bs_table_set_same. apply aget_aset. }
      intros t. rewrite H2, Ht. cbn [aget].
      destruct (str_eqb_spec t (full_topic x)) as [E|E].
      * subst t. rewrite (aget_notin _ _ Hz). reflexivity.
      * reflexivity.
    + intros c' Hc'. rewrite (H3 c' Hc'). unfold bs_sub. now apply bs_table_set_other.
Qed.

Fixpoint mem_cid (c : cid) (l : list cid) : bool := match l with [] => false | x :: r => str_eqb x c || mem_cid c r end.

Lemma load_bsubs_get fx s : forall cids m m',
  wt_store s -> bs_ok m ->
  (fix_trim fx = true \/ Forall (fun c => trim_left c = c) cids) ->
  load_bsubs fx s cids m = Some m' ->
  bs_ok m' /\
  forall c t, bs_get c t m' = if mem_cid c cids
                              then match unblob (aget t (store_tb c s)) with Some x => Some x | None => bs_get c t m end
                              else bs_get c t m.
Proof.
  induction cids as [|c0 r IH]; intros m m' Hs Hm Htrim Hl; cbn [load_bsubs] in Hl.
  - injection Hl as <-. split; [exact Hm|]. intros c t. reflexivity.
  - assert (Hc0 : load_cid fx c0 = c0).
    { unfold load_cid. destruct Htrim as [->|H]; [reflexivity|]. inversion H; subst. destruct (fix_trim fx); [reflexivity|assumption]. }
    assert (Hr : fix_trim fx = true \/ Forall (fun c => trim_left c = c) r).
    { destruct Htrim as [H|H]; [now left|right; now inversion H]. }
    destruct (store_tb_inv s c0 Hs) as [Hnd0 Hget].
    assert (Hhg : hgetall (sub_key c0) s = Some (store_tb c0 s)).
    { unfold hgetall. destruct Hget as [Hg|Hg]; rewrite Hg; [|reflexivity]. unfold store_tb. now rewrite Hg. }
    rewrite Hhg, Hc0 in Hl.
    assert (Hall : all_subs (store_tb c0 s)).
    { destruct Hget as [Hg|Hg]; [unfold store_tb; rewrite Hg; constructor|].
      exact (proj2 (wt_hash_inv s _ _ Hs Hg) (sub_key_is_sub c0)). }
    destruct (subs_of_hash (store_tb c0 s)) as [l|] eqn:El; [|discriminate].
    destruct (load_table c0 (store_tb c0 s) l m Hall Hnd0 El Hm) as (Hm1 & Ht1 & Ho1).
    destruct (IH _ m' Hs Hm1 Hr Hl) as [Hm' Hget'].
    split; [exact Hm'|]. intros c t. rewrite Hget'. cbn [mem_cid].
    set (mm := fold_left (fun m0 x => bs_sub c0 x m0) l m) in *.
    destruct (str_eqb_spec c0 c) as [E|E]; cbn [orb].
    + subst c0.
      assert (Hmm : bs_get c t mm = match unblob (aget t (store_tb c s)) with Some x => Some x | None => bs_get c t m end).
      { unfold bs_get. rewrite Ht1. unfold unblob. destruct (aget t (store_tb c s)) as [[b|x|e]|]; reflexivity. }
      rewrite Hmm. destruct (mem_cid c r); [|reflexivity]. destruct (unblob _); reflexivity.
    + assert (Hmm : bs_get c t mm = bs_get c t m).
      { unfold bs_get. rewrite (Ho1 c) by congruence. reflexivity. }
      rewrite Hmm. reflexivity.
Qed.

(* the client ids of the sessions found at start-up *)
Definition session_ids (s : rstore) : list cid := map fst (stored_sessions s (scan_prefix SESS_PREFIX s)).

(* THEOREM C: a fresh broker started on a well-typed store registers, for every client that
   has a stored session, exactly the subscriptions stored for that client - under the same
   client id when the id is not trimmed (fix_trim, or no stored id starts with s,u,b,:) *)
Theorem recover_subs (fx : fixes) (s : rstore) :
  wt_store s ->
  (fix_trim fx = true \/ Forall (fun c => trim_left c = c) (session_ids s)) ->
  exists b, recover fx s = Some b /\
    forall c t, bs_get c t (b_subs b) = if mem_cid c (session_ids s) then unblob (aget t (store_tb c s)) else None.
Proof.
  intros Hs Htrim. unfold recover. rewrite (no_wrongtype_session s Hs).
  fold (session_ids s).
  destruct (load_bsubs fx s (session_ids s) []) as [m|] eqn:El; [|exfalso; now apply (load_bsubs_total fx s (session_ids s) [] Hs)].
  eexists. split; [reflexivity|]. cbn [b_subs]. intros c t.
  destruct (load_bsubs_get fx s (session_ids s) [] m Hs bs_ok_nil Htrim El) as [_ Hg]. rewrite Hg.
  destruct (mem_cid c (session_ids s)); [|reflexivity].
  destruct (unblob (aget t (store_tb c s))); reflexivity.
Qed.

(* THE SUBSCRIPTION CLAUSE OF C09.  Cut the storage commands of any history anywhere and start
   a broker on what is left: start-up succeeds and, for every client with a stored session,
   the broker's subscription index holds exactly the replay of the subscription effects of
   the commands before the cut.  Every effect belongs to one SUBSCRIBE / UNSUBSCRIBE / session
   end, all effects of a request precede its acknowledgement in the journal, and for complete
   histories the replay is the live broker's own index (journal_subs): the recovered
   subscriptions are those acknowledged, plus/minus a part of the one request in flight. *)
Theorem subs_recovered_any_prefix (fx : fixes) (h : list bevent) (k : nat) :
  let cmds := firstn k (jcmds (journal fx h)) in
  let s := exec_all [] cmds in
  (fix_trim fx = true \/ Forall (fun c => trim_left c = c) (session_ids s)) ->
  exists b, recover fx s = Some b /\
    forall c t, bs_get c t (b_subs b) =
                if mem_cid c (session_ids s) then bs_get c t (fold_left mem_eff cmds []) else None.
Proof.
  cbn zeta. intros Htrim.
  assert (Hs : wt_store (exec_all [] (firstn k (jcmds (journal fx h))))).
  { apply exec_all_wt; [exact wt_store_nil|]. apply Forall_firstn. apply journal_wt. }
  destruct (recover_subs fx _ Hs Htrim) as (b & Hb & Hg). exists b. split; [exact Hb|].
  intros c t. rewrite Hg. destruct (mem_cid c _); [|reflexivity].
  pose proof (subs_any_prefix fx h k c t) as Hrel. cbn zeta in Hrel. rewrite Hrel.
  unfold bs_get. destruct (aget t (bs_table c _)); reflexivity.
Qed.

(* ================================================================== *)
(* 10. sessions                                                          *)
(* ================================================================== *)
(* the session hash of client c exists and names c *)
Definition has_session (c : cid) (s : rstore) : Prop :=
  exists h, aget (sess_key c) s = Some (RHash h) /\ aget F_CLIENT_ID h = Some (BRaw c).

Lemma sess_key_inj c c' : sess_key c = sess_key c' -> c = c'.
Proof. unfold sess_key. apply app_inv_head. Qed.

Definition sess_client (k : str) : option cid := if is_sess_key k then Some (skipn 8 k) else None.
Lemma sess_client_key c : sess_client (sess_key c) = Some c.
Proof. unfold sess_client. rewrite sess_key_is_sess. reflexivity. Qed.
Lemma sess_client_inv k c : sess_client k = Some c -> k = sess_key c.
Proof.
  unfold sess_client. destruct (is_sess_key k) eqn:E; [|discriminate]. intros H. injection H as <-.
  exact (has_prefix_split SESS_PREFIX k E).
Qed.

(* every session hash names the client of its key: a per-command invariant *)
Definition names_ok (s : rstore) : Prop :=
  forall c h, aget (sess_key c) s = Some (RHash h) -> aget F_CLIENT_ID h = Some (BRaw c).

Definition sess_cmd_ok (cmd : rcmd) : Prop :=
  match cmd with
  | CHSet k fvs => forall c, k = sess_key c -> forall h, aget F_CLIENT_ID (hset_all fvs h) = Some (BRaw c)
  | CHDel k _ => is_sess_key k = false
  | _ => True
  end.

Lemma exec_names s cmd : wt_store s -> wt_cmd cmd -> sess_cmd_ok cmd -> names_ok s -> names_ok (exec s cmd).
Proof.
  intros Hs Hw Hc Hn c h. pose proof (proj1 Hs) as Hnd.
  destruct (str_eqb_spec (cmd_key cmd) (sess_key c)) as [E|E].
  - destruct cmd as [k fvs|k fs|k|k v|k v|k i v]; cbn [cmd_key exec sess_cmd_ok wt_cmd] in *; subst k.
    + destruct (aget (sess_key c) s) as [[h0|l]|] eqn:Eg; rewrite ?aget_aset_same.
      * intros H. injection H as <-. now apply Hc.
      * rewrite Eg. discriminate.
      * intros H. injection H as <-. now apply Hc.
    + rewrite sess_key_is_sess in Hc. discriminate.
    + rewrite aget_adel by exact Hnd. rewrite str_eqb_refl. discriminate.
    + destruct Hw as [Hw _]. rewrite hash_key_sess in Hw. discriminate.
    + destruct Hw as [Hw _]. rewrite hash_key_sess in Hw. discriminate.
    + destruct Hw as [Hw _]. rewrite hash_key_sess in Hw. discriminate.
  - rewrite exec_frame by assumption. apply Hn.
Qed.

Lemma sess_set_names c e : sess_cmd_ok (sess_set_cmd c e).
Proof.
  cbn [sess_set_cmd sess_cmd_ok]. intros c' E h. apply sess_key_inj in E. subst c'.
  cbn [hset_all]. rewrite !aget_aset. reflexivity.
Qed.

Lemma qcmd_names c k : qcmd (queue_key c) k -> sess_cmd_ok k.
Proof. destruct k; cbn [qcmd sess_cmd_ok]; intros H; try exact I; contradiction. Qed.

(* the commands of one event by key: queue keys, and the session / subscription / unack keys
   of the event's client and of the client id found in its stored session *)
Definition evc (ev : bevent) : cid :=
  match ev with
  | EConnect c _ _ _ | EClose c | ESubscribe c _ _ | EUnsubscribe c _ _ | EPublish c _ _ _ _ | EPubrel c _
  | EPoll c _ | EPuback c _ | EPubrec c _ | EPubcomp c _ => c
  end.

Definition old_id_of (b : broker) (c : cid) : cid :=
  match sess_get c (b_store b) with Some (id, _) => id | None => [] end.

(* CONNECT and connection close are the only events that touch session keys *)
Definition is_conn (ev : bevent) : Prop := match ev with EConnect _ _ _ _ | EClose _ => True | _ => False end.

Definition foot (b : broker) (ev : bevent) (cmd : rcmd) : Prop :=
  sess_cmd_ok cmd /\
  ((exists c0, qcmd (queue_key c0) cmd) \/
   cmd_key cmd = unack_key (evc ev) \/ cmd_key cmd = sub_key (evc ev) \/
   (is_conn ev /\ (cmd_key cmd = sess_key (evc ev) \/
                  cmd = CDel (sess_key (old_id_of b (evc ev))) \/ cmd = CDel (sub_key (old_id_of b (evc ev)))))).

Lemma foot_q b ev c0 cmd : qcmd (queue_key c0) cmd -> foot b ev cmd.
Proof. intros H. split; [now apply (qcmd_names c0)|left; now exists c0]. Qed.

Lemma qkey_res_foot b ev q x : qkey_ok q -> res_ok q x -> Forall (foot b ev) (r_cmds x).
Proof.
  intros [c Hc] [Hcmds _]. rewrite Hc in Hcmds. eapply Forall_impl; [|exact Hcmds]. intros k. apply foot_q.
Qed.

Lemma poll_new_foot b ev c pids s q :
  qkey_ok q -> let '(_, _, j) := poll_new c pids s q in Forall (foot b ev) (jcmds j).
Proof.
  intros Hq. unfold poll_new.
  pose proof (qkey_res_foot b ev q _ Hq (rq_read_ok 0 (pids ++ filler (MAXINFLIGHT - length pids)) s q)) as Hn.
  destruct (r_out _); rewrite ?jcmds_app, ?jcmds_map_cmd, ?jcmds_deliveries, ?app_nil_r; exact Hn.
Qed.

Lemma poll_inflight_foot b ev fuel c : forall s q,
  qkey_ok q -> let '(_, _, j) := poll_inflight fuel c s q in Forall (foot b ev) (jcmds j).
Proof.
  induction fuel as [|k IH]; intros s q Hq; cbn [poll_inflight]; [constructor|].
  pose proof (qkey_res_foot b ev q _ Hq (rq_read_inflight_ok 0 MAXINFLIGHT s q)) as Hn.
  destruct (qkey_res q _ Hq (rq_read_inflight_ok 0 MAXINFLIGHT s q)) as [Hq' _].
  destruct (r_out (rq_read_inflight 0 MAXINFLIGHT s q)) as [| |[|e rs]| | | | | |];
    try (rewrite jcmds_map_cmd; exact Hn).
  specialize (IH (r_store (rq_read_inflight 0 MAXINFLIGHT s q)) (r_q (rq_read_inflight 0 MAXINFLIGHT s q)) Hq').
  destruct (poll_inflight k c _ _) as [[s' q''] j].
  rewrite !jcmds_app, jcmds_map_cmd, jcmds_deliveries. cbn [app]. apply Forall_app. now split.
Qed.

Lemma deliver_foot b ev topic payload qos publisher sp cl : forall s,
  cl_ok cl -> let '(_, _, cmds) := deliver topic payload qos publisher sp cl s in Forall (foot b ev) cmds.
Proof.
  induction cl as [|[c x] r IH]; intros s Hcl; cbn [deliver]; [constructor|].
  inversion Hcl as [|y ys Hy Hr]; subst. cbn [snd] in Hy.
  destruct (bc_q x) as [q|] eqn:Eq.
  - destruct (client_match topic publisher c sp) as [[sq ids]|].
    + pose proof (qkey_res_foot b ev q _ (Hy q Eq) (rq_add_ok 0 (mk_elem (mk_msg (N.min qos sq) topic payload ids)) s q)) as Hn.
      specialize (IH (r_store (rq_add 0 (mk_elem (mk_msg (N.min qos sq) topic payload ids)) s q)) Hr).
      destruct (deliver topic payload qos publisher sp r _) as [[r' s'] cmds]. apply Forall_app. now split.
    + specialize (IH s Hr). now destruct (deliver topic payload qos publisher sp r s) as [[r' s'] cmds].
  - specialize (IH s Hr). now destruct (deliver topic payload qos publisher sp r s) as [[r' s'] cmds].
Qed.

Lemma foot_sess_set b ev e : is_conn ev -> foot b ev (sess_set_cmd (evc ev) e).
Proof. intros Hc. split; [apply sess_set_names|]. right. right. right. split; [exact Hc|]. left. reflexivity. Qed.

Lemma remove_session_foot b0 ev id b :
  is_conn ev ->
  id = old_id_of b0 (evc ev) \/ id = evc ev ->
  Forall (foot b0 ev) (snd (remove_session id b)).
Proof.
  intros Hcn Hid. unfold remove_session. cbn [snd]. apply Forall_app. split.
  - destruct (b_get id b) as [x|]; [|constructor]. destruct (bc_q x); [|constructor].
    constructor; [|constructor]. apply (foot_q b0 ev id). reflexivity.
  - constructor; [|constructor; [|constructor]]; (split; [exact I|]).
    + right. right. right. split; [exact Hcn|].
      destruct Hid as [->| ->]; [right; left; reflexivity|left; reflexivity].
    + destruct Hid as [->| ->]; [right; right; right; split; [exact Hcn|]; right; right; reflexivity|right; right; left; reflexivity].
Qed.

Lemma bstep_foot fx b ev : binv b -> Forall (foot b ev) (jcmds (snd (bstep fx b ev))).
Proof.
  intros Hb.
  destruct ev as [c clean expiry pids|c|c pid subs|c pid ts|c qos pid topic payload|c pid|c pids|c pid|c pid|c pid];
    cbn [bstep].
  - (* connect *)
    destruct (match b_get c b with Some x => bc_online x | None => false end); [constructor|].
    destruct (sess_get c (b_store b)) as [[old_id old_exp]|] eqn:Esg; [|constructor].
    assert (Hold : old_id = old_id_of b (evc (EConnect c clean expiry pids))).
    { unfold old_id_of. cbn [evc]. now rewrite Esg. }
    assert (Hcn : is_conn (EConnect c clean expiry pids)) by exact I.
    set (ev := EConnect c clean expiry pids) in *.
    set (resume0 := negb (is_empty old_id) && negb (old_exp =? 0) && negb clean).
    assert (H1 : let '(b1, cmds1) := (if resume0 || negb (negb (is_empty old_id)) then (b, []) else remove_session old_id b) in
                 binv b1 /\ Forall (foot b ev) cmds1).
    { destruct (resume0 || negb (negb (is_empty old_id))); [split; [exact Hb|constructor]|].
      pose proof (remove_session_ok old_id b Hb) as H.
      pose proof (remove_session_foot b ev old_id b Hcn (or_introl Hold)) as H'.
      destruct (remove_session old_id b) as [b1 cmds1]. destruct H as [H _]. now split. }
    destruct (if resume0 || negb (negb (is_empty old_id)) then (b, []) else remove_session old_id b) as [b1 cmds1]. destruct H1 as (Hb1 & Hc1).
    destruct (resume0 && _) eqn:Eres.
    + destruct (b_get c b) as [x|] eqn:Ex; [|constructor].
      destruct (bc_q x) as [q|] eqn:Eq; [|constructor].
      pose proof (cl_ok_get _ _ _ Hb Ex q Eq) as Hq.
      destruct (qkey_res q _ Hq (rq_init_ok false true MAXPACKET (b_store b1) q)) as [Hq1 _].
      pose proof (qkey_res_foot b ev q _ Hq (rq_init_ok false true MAXPACKET (b_store b1) q)) as Hni.
      pose proof (poll_inflight_foot b ev 3 c (exec (r_store (rq_init false true MAXPACKET (b_store b1) q)) (sess_set_cmd c (N.min expiry SESSION_CAP)))
                    (r_q (rq_init false true MAXPACKET (b_store b1) q)) Hq1) as Hp.
      pose proof (poll_inflight_ok 3 c (exec (r_store (rq_init false true MAXPACKET (b_store b1) q)) (sess_set_cmd c (N.min expiry SESSION_CAP)))
                    (r_q (rq_init false true MAXPACKET (b_store b1) q)) Hq1) as Hp'.
      destruct (poll_inflight 3 c _ _) as [[s3 q3] j3]. destruct Hp' as [Hq3 _].
      assert (H4 : let '(_, _, j4) := (if (rq_cur q3 <? rq_len q3)%Z then poll_new c pids s3 q3 else (s3, q3, [])) in
                   Forall (foot b ev) (jcmds j4)).
      { destruct (rq_cur q3 <? rq_len q3)%Z; [now apply poll_new_foot|constructor]. }
      destruct (if (rq_cur q3 <? rq_len q3)%Z then poll_new c pids s3 q3 else (s3, q3, [])) as [[s4 q4] j4].
      cbn [fst snd]. rewrite !jcmds_app, jcmds_map_cmd. cbn [jcmds app].
      repeat (apply Forall_app; split); try assumption. constructor; [apply (foot_sess_set b ev _ Hcn)|constructor].
    + pose proof (qkey_res_foot b ev _ _ (qkey_new MAXQ IFEXP c) (rq_init_ok true true MAXPACKET (b_store b1) (rq_new MAXQ IFEXP c))) as Hni.
      destruct (qkey_res _ _ (qkey_new MAXQ IFEXP c) (rq_init_ok true true MAXPACKET (b_store b1) (rq_new MAXQ IFEXP c))) as [Hq1 _].
      pose proof (poll_inflight_foot b ev 3 c (exec_all (r_store (rq_init true true MAXPACKET (b_store b1) (rq_new MAXQ IFEXP c)))
                                                 [CDel (unack_key c); sess_set_cmd c (N.min expiry SESSION_CAP)])
                    (r_q (rq_init true true MAXPACKET (b_store b1) (rq_new MAXQ IFEXP c))) Hq1) as Hp.
      destruct (poll_inflight 3 c _ _) as [[s3 q3] j3].
      cbn [fst snd]. rewrite !jcmds_app, jcmds_map_cmd. cbn [jcmds app].
      repeat (apply Forall_app; split); try assumption.
      constructor; [split; [exact I|right; left; reflexivity]|]. constructor; [apply (foot_sess_set b ev _ Hcn)|constructor].
  - (* close *)
    destruct (negb _); [constructor|].
    destruct (b_get c b) as [x|] eqn:Ex; [|constructor].
    destruct (sess_get c (b_store b)) as [[id exp]|]; [|constructor].
    destruct (exp =? 0); [|constructor].
    match goal with |- context [remove_session c ?bb] =>
      pose proof (remove_session_foot b (EClose c) c bb I (or_intror eq_refl)) as Hr; destruct (remove_session c bb) as [b2 cmds] end.
    cbn [fst snd] in *. now rewrite jcmds_map_cmd.
  - (* subscribe *)
    destruct (negb _); [constructor|]. cbn [fst snd].
    rewrite jcmds_app, jcmds_map_cmd. cbn [jcmds]. rewrite app_nil_r. cbn [sop_cmds].
    induction subs as [|s r IH]; cbn [map]; constructor; [|exact IH].
    split; [|right; right; left; reflexivity].
    cbn [sess_cmd_ok]. intros c' E. exfalso. pose proof (sub_key_not_sess c) as H. rewrite E, sess_key_is_sess in H. discriminate.
  - (* unsubscribe *)
    destruct (negb _); [constructor|]. cbn [fst snd].
    rewrite jcmds_app, jcmds_map_cmd. cbn [jcmds]. rewrite app_nil_r.
    induction ts as [|t r IH]; cbn [map concat]; [constructor|].
    apply Forall_app. split; [|exact IH]. cbn [sop_cmds].
    destruct (fix_hdel fx); (constructor; [|constructor]); (split; [apply sub_key_not_sess|right; right; left; reflexivity]).
  - (* publish *)
    destruct (negb _); [constructor|].
    destruct (b_get c b) as [x|] eqn:Ex; [|constructor].
    set (cache := match bc_ua x with Some u => u | None => [] end).
    set (dup := (qos =? 2) && memN pid cache).
    set (ucmds := if (qos =? 2) && negb dup then [CHSet (unack_key c) [(dec pid, BRaw ONE)]] else []).
    set (x' := if (qos =? 2) && negb dup then {| bc_online := bc_online x; bc_q := bc_q x; bc_ua := Some (pid :: cache) |} else x).
    assert (Hx' : client_ok x').
    { unfold x'. destruct ((qos =? 2) && negb dup); [|exact (cl_ok_get _ _ _ Hb Ex)].
      intros q0 E0. cbn [bc_q] in E0. exact (cl_ok_get _ _ _ Hb Ex q0 E0). }
    assert (Hb1 : binv (b_set c x' (b_with_store (exec_all (b_store b) ucmds) b))) by (apply binv_set; [exact Hb|exact Hx']).
    set (ev := EPublish c qos pid topic payload).
    assert (Hu : Forall (foot b ev) ucmds).
    { unfold ucmds. destruct ((qos =? 2) && negb dup); [|constructor]. constructor; [|constructor].
      split; [|right; left; reflexivity]. cbn [sess_cmd_ok]. intros c' E. exfalso.
      pose proof (unack_key_not_sess c) as H. rewrite E, sess_key_is_sess in H. discriminate. }
    assert (Hd : let '(_, _, dcmds) := (if dup then (b_clients (b_set c x' (b_with_store (exec_all (b_store b) ucmds) b)),
                                                     b_store (b_set c x' (b_with_store (exec_all (b_store b) ucmds) b)), [])
                                         else deliver topic payload qos c (b_subs (b_set c x' (b_with_store (exec_all (b_store b) ucmds) b)))
                                                (b_clients (b_set c x' (b_with_store (exec_all (b_store b) ucmds) b)))
                                                (b_store (b_set c x' (b_with_store (exec_all (b_store b) ucmds) b)))) in
                 Forall (foot b ev) dcmds).
    { destruct dup; [constructor|]. apply (deliver_foot b ev topic payload qos c _ _ _ Hb1). }
    destruct (if dup then _ else _) as [[cl s2] dcmds]. cbn [fst snd].
    rewrite jcmds_app, jcmds_map_cmd.
    assert (Hack : jcmds (if qos =? 1 then [JOut (OPuback c pid)] else if qos =? 2 then [JOut (OPubrec c pid)] else []) = []).
    { destruct (qos =? 1); [reflexivity|]. destruct (qos =? 2); reflexivity. }
    rewrite Hack, app_nil_r. apply Forall_app. now split.
  - (* pubrel *)
    destruct (negb _); [constructor|].
    destruct (b_get c b) as [x|] eqn:Ex; [|constructor]. cbn [fst snd].
    rewrite jcmds_app, jcmds_map_cmd. cbn [jcmds]. constructor; [|constructor].
    split; [apply unack_key_not_sess|right; left; reflexivity].
  - (* poll *)
    destruct (negb _); [constructor|].
    destruct (b_get c b) as [x|] eqn:Ex; [|constructor].
    destruct (bc_q x) as [q|] eqn:Eq; [|constructor].
    pose proof (poll_new_foot b (EPoll c pids) c pids (b_store b) q (cl_ok_get _ _ _ Hb Ex q Eq)) as Hp.
    now destruct (poll_new c pids (b_store b) q) as [[s' q'] j].
  - (* puback *)
    destruct (negb _); [constructor|].
    destruct (b_get c b) as [x|] eqn:Ex; [|constructor].
    destruct (bc_q x) as [q|] eqn:Eq; [|constructor].
    cbn [fst snd]. rewrite jcmds_map_cmd.
    exact (qkey_res_foot b _ q _ (cl_ok_get _ _ _ Hb Ex q Eq) (rq_remove_ok pid (b_store b) q)).
  - (* pubrec *)
    destruct (negb _); [constructor|].
    destruct (b_get c b) as [x|] eqn:Ex; [|constructor].
    destruct (bc_q x) as [q|] eqn:Eq; [|constructor].
    cbn [fst snd]. rewrite jcmds_app, jcmds_map_cmd. cbn [jcmds]. rewrite app_nil_r.
    exact (qkey_res_foot b _ q _ (cl_ok_get _ _ _ Hb Ex q Eq)
             (rq_replace_ok {| e_tag := 0; e_at := 0; e_expiry := None; e_body := QRel pid |} (b_store b) q)).
  - (* pubcomp *)
    destruct (negb _); [constructor|].
    destruct (b_get c b) as [x|] eqn:Ex; [|constructor].
    destruct (bc_q x) as [q|] eqn:Eq; [|constructor].
    cbn [fst snd]. rewrite jcmds_map_cmd.
    exact (qkey_res_foot b _ q _ (cl_ok_get _ _ _ Hb Ex q Eq) (rq_remove_ok pid (b_store b) q)).
Qed.

Lemma frame_all cmds : forall s key,
  wt_store s -> Forall wt_cmd cmds -> Forall (fun c => cmd_key c <> key) cmds ->
  aget key (exec_all s cmds) = aget key s.
Proof.
  unfold exec_all. induction cmds as [|c r IH]; intros s key Hs Hw Hk; cbn [fold_left]; [reflexivity|].
  inversion Hw as [|x xs Hx Hr]; subst. inversion Hk as [|y ys Hy Hr']; subst.
  rewrite IH; [|now apply exec_wt|exact Hr|exact Hr']. apply exec_frame; [exact (proj1 Hs)|exact Hy].
Qed.

Lemma exec_all_names cmds : forall s,
  wt_store s -> Forall wt_cmd cmds -> Forall sess_cmd_ok cmds -> names_ok s -> names_ok (exec_all s cmds).
Proof.
  unfold exec_all. induction cmds as [|c r IH]; intros s Hs Hw Hc Hn; cbn [fold_left]; [exact Hn|].
  inversion Hw as [|x xs Hx Hr]; subst. inversion Hc as [|y ys Hy Hr']; subst.
  apply IH; [now apply exec_wt|exact Hr|exact Hr'|now apply exec_names].
Qed.

Lemma old_id_cases b c : wt_store (b_store b) -> names_ok (b_store b) -> old_id_of b c = [] \/ old_id_of b c = c.
Proof.
  intros Hs Hn. unfold old_id_of, sess_get, hgetall.
  destruct (aget (sess_key c) (b_store b)) as [[h|l]|] eqn:E.
  - right. rewrite (Hn c h E). reflexivity.
  - now left.
  - now left.
Qed.

Lemma qcmd_key k cmd : qcmd k cmd -> cmd_key cmd = k.
Proof. destruct cmd; cbn [qcmd cmd_key]; intros H; try contradiction; exact H. Qed.

(* an event leaves the session key of c alone unless it is a CONNECT / close of c itself *)
Definition spares (c : cid) (ev : bevent) : Prop := evc ev <> c \/ ~ is_conn ev.

Lemma foot_nosess b ev cmd c :
  wt_store (b_store b) -> names_ok (b_store b) -> foot b ev cmd -> spares c ev -> c <> [] ->
  cmd_key cmd <> sess_key c.
Proof.
  intros Hs Hn [_ Hf] Hev Hc E.
  assert (Hk : is_sess_key (cmd_key cmd) = true) by (rewrite E; apply sess_key_is_sess).
  destruct Hf as [[c0 Hq]|[Hf|[Hf|[Hcn [Hf|[Hf|Hf]]]]]].
  - rewrite (qcmd_key _ _ Hq) in Hk. discriminate.
  - rewrite Hf in Hk. discriminate.
  - rewrite Hf in Hk. discriminate.
  - destruct Hev as [Hev|Hev]; [|contradiction]. rewrite Hf in E. apply sess_key_inj in E. congruence.
  - destruct Hev as [Hev|Hev]; [|contradiction]. subst cmd. cbn [cmd_key] in E. apply sess_key_inj in E.
    destruct (old_id_cases b (evc ev) Hs Hn) as [H|H]; congruence.
  - subst cmd. cbn [cmd_key] in Hk. discriminate.
Qed.

(* SESSION CLAUSE, any prefix.  Once the session hash of client c is in the store (it is
   written by the HSET that precedes c's CONNACK), no prefix of the storage commands of any
   continuation of the history removes or renames it, as long as the continuation contains
   no CONNECT and no connection close of c itself (`spares`) *)
Theorem session_survives_any_prefix (fx : fixes) (c : cid) : forall (h : list bevent) (b : broker) (k : nat),
  binv b -> wt_store (b_store b) -> names_ok (b_store b) ->
  c <> [] -> Forall (spares c) h ->
  aget (sess_key c) (exec_all (b_store b) (firstn k (jcmds (snd (brun fx b h))))) = aget (sess_key c) (b_store b).
Proof.
  induction h as [|ev r IH]; intros b k Hb Hs Hn Hc Hev; cbn [brun].
  - cbn [snd jcmds]. rewrite firstn_nil. reflexivity.
  - inversion Hev as [|x xs Hx Hr]; subst.
    pose proof (bstep_foot fx b ev Hb) as Hf.
    destruct (bstep_ok fx b ev Hb) as [Hb1 Hw1].
    destruct (bstep_coherent fx b ev Hb) as [Hst _].
    destruct (bstep fx b ev) as [b1 j1]. cbn [fst snd] in *.
    specialize (IH b1).
    destruct (brun fx b1 r) as [b2 j2]. cbn [fst snd] in *.
    assert (Hns : Forall (fun cmd => cmd_key cmd <> sess_key c) (jcmds j1)).
    { eapply Forall_impl; [|exact Hf]. intros cmd Hcmd. now apply (foot_nosess b ev). }
    assert (Hsc : Forall sess_cmd_ok (jcmds j1)).
    { eapply Forall_impl; [|exact Hf]. intros cmd Hcmd. exact (proj1 Hcmd). }
    rewrite jcmds_app, firstn_app, exec_all_app.
    assert (Hs' : wt_store (exec_all (b_store b) (firstn k (jcmds j1)))).
    { apply exec_all_wt; [exact Hs|now apply Forall_firstn]. }
    destruct (Nat.le_gt_cases (length (jcmds j1)) k) as [Hle|Hgt].
    + rewrite (firstn_all2 (jcmds j1)) by exact Hle. rewrite <- Hst.
      rewrite IH; [|exact Hb1|rewrite Hst; now apply exec_all_wt|rewrite Hst; now apply exec_all_names|exact Hc|exact Hr].
      rewrite Hst. now apply frame_all.
    + replace (k - length (jcmds j1))%nat with 0%nat by lia. rewrite firstn_O. cbn [exec_all fold_left].
      apply frame_all; [exact Hs|now apply Forall_firstn|now apply Forall_firstn].
Qed.

(* ---- the CONNECT that is answered by CONNACK leaves the session hash in the store ---- *)
Definition isq (cmd : rcmd) : Prop := exists c0, qcmd (queue_key c0) cmd.

Lemma isq_nosess cmd c : isq cmd -> cmd_key cmd <> sess_key c.
Proof.
  intros [c0 Hq] E. rewrite (qcmd_key _ _ Hq) in E.
  pose proof (queue_key_not_sess c0) as H. rewrite E, sess_key_is_sess in H. discriminate.
Qed.

Lemma qkey_res_isq q x : qkey_ok q -> res_ok q x -> Forall isq (r_cmds x).
Proof.
  intros [c Hc] [Hcmds _]. rewrite Hc in Hcmds. eapply Forall_impl; [|exact Hcmds]. intros k Hk. now exists c.
Qed.

Lemma poll_new_isq c pids s q : qkey_ok q -> let '(_, _, j) := poll_new c pids s q in Forall isq (jcmds j).
Proof.
  intros Hq. unfold poll_new.
  pose proof (qkey_res_isq q _ Hq (rq_read_ok 0 (pids ++ filler (MAXINFLIGHT - length pids)) s q)) as Hn.
  destruct (r_out _); rewrite ?jcmds_app, ?jcmds_map_cmd, ?jcmds_deliveries, ?app_nil_r; exact Hn.
Qed.

Lemma poll_inflight_isq fuel c : forall s q,
  qkey_ok q -> let '(_, _, j) := poll_inflight fuel c s q in Forall isq (jcmds j).
Proof.
  induction fuel as [|k IH]; intros s q Hq; cbn [poll_inflight]; [constructor|].
  pose proof (qkey_res_isq q _ Hq (rq_read_inflight_ok 0 MAXINFLIGHT s q)) as Hn.
  destruct (qkey_res q _ Hq (rq_read_inflight_ok 0 MAXINFLIGHT s q)) as [Hq' _].
  destruct (r_out (rq_read_inflight 0 MAXINFLIGHT s q)) as [| |[|e rs]| | | | | |];
    try (rewrite jcmds_map_cmd; exact Hn).
  specialize (IH (r_store (rq_read_inflight 0 MAXINFLIGHT s q)) (r_q (rq_read_inflight 0 MAXINFLIGHT s q)) Hq').
  destruct (poll_inflight k c _ _) as [[s' q''] j].
  rewrite !jcmds_app, jcmds_map_cmd, jcmds_deliveries. cbn [app]. apply Forall_app. now split.
Qed.

Lemma isq_wt cmd : isq cmd -> wt_cmd cmd.
Proof. intros [c0 H]. now apply (qcmd_wt c0). Qed.

Lemma hset_session s c e : wt_store s -> has_session c (exec s (sess_set_cmd c e)).
Proof.
  intros Hs. unfold has_session. cbn [sess_set_cmd exec].
  destruct (aget (sess_key c) s) as [[h|l]|] eqn:E.
  - eexists. split; [apply aget_aset_same|]. cbn [hset_all]. rewrite !aget_aset. reflexivity.
  - exfalso. destruct Hs as [_ Hs]. destruct (Hs _ _ E) as (H1 & _). destruct (H1 (hash_key_sess c)) as [h Eh]. discriminate.
  - eexists. split; [apply aget_aset_same|]. cbn [hset_all]. rewrite !aget_aset. reflexivity.
Qed.

Lemma has_session_frame c s cmds :
  wt_store s -> Forall isq cmds -> has_session c s -> has_session c (exec_all s cmds).
Proof.
  intros Hs Hq (h & Hg & Hn). exists h. split; [|exact Hn]. rewrite <- Hg.
  apply frame_all; [exact Hs| |].
  - eapply Forall_impl; [|exact Hq]. apply isq_wt.
  - eapply Forall_impl; [|exact Hq]. intros cmd H. now apply isq_nosess.
Qed.

(* whenever the journal of a CONNECT contains a CONNACK, the store after it has the session *)
Theorem connack_has_session (fx : fixes) (b : broker) (c : cid) (clean : bool) (expiry : N) (pids : list N) (sp : bool) :
  binv b -> wt_store (b_store b) ->
  In (JOut (OConnack c sp)) (snd (bstep fx b (EConnect c clean expiry pids))) ->
  has_session c (b_store (fst (bstep fx b (EConnect c clean expiry pids)))).
Proof.
  intros Hb Hs. cbn [bstep].
  destruct (match b_get c b with Some x => bc_online x | None => false end); [intros []|].
  destruct (sess_get c (b_store b)) as [[old_id old_exp]|]; [|intros []].
  set (resume0 := negb (is_empty old_id) && negb (old_exp =? 0) && negb clean).
  assert (H1 : let '(b1, cmds1) := (if resume0 || negb (negb (is_empty old_id)) then (b, []) else remove_session old_id b) in
               binv b1 /\ wt_store (b_store b1)).
  { destruct (resume0 || negb (negb (is_empty old_id))); [now split|].
    pose proof (remove_session_ok old_id b Hb) as H. pose proof (remove_session_eff old_id b) as H'.
    destruct (remove_session old_id b) as [b1 cmds1]. destruct H as [H Hw]. destruct H' as [Hst _].
    split; [exact H|]. rewrite Hst. now apply exec_all_wt. }
  destruct (if resume0 || negb (negb (is_empty old_id)) then (b, []) else remove_session old_id b) as [b1 cmds1]. destruct H1 as (Hb1 & Hs1).
  destruct (resume0 && _) eqn:Eres.
  - destruct (b_get c b) as [x|] eqn:Ex; [|intros []].
    destruct (bc_q x) as [q|] eqn:Eq; [|intros []].
    pose proof (cl_ok_get _ _ _ Hb Ex q Eq) as Hq.
    destruct (qkey_res q _ Hq (rq_init_ok false true MAXPACKET (b_store b1) q)) as [Hq1 Hwi].
    pose proof (rq_init_store false true MAXPACKET (b_store b1) q) as Hsi. unfold res_store in Hsi.
    assert (Hsri : wt_store (r_store (rq_init false true MAXPACKET (b_store b1) q))) by (rewrite Hsi; now apply exec_all_wt).
    set (s2 := exec (r_store (rq_init false true MAXPACKET (b_store b1) q)) (sess_set_cmd c (N.min expiry SESSION_CAP))).
    assert (Hs2 : wt_store s2) by (apply exec_wt; [exact Hsri|apply wt_sess_set]).
    assert (Hh2 : has_session c s2) by now apply hset_session.
    pose proof (poll_inflight_q 3 c s2 (r_q (rq_init false true MAXPACKET (b_store b1) q)) Hq1) as Hp.
    pose proof (poll_inflight_isq 3 c s2 (r_q (rq_init false true MAXPACKET (b_store b1) q)) Hq1) as Hpi.
    pose proof (poll_inflight_ok 3 c s2 (r_q (rq_init false true MAXPACKET (b_store b1) q)) Hq1) as Hp'.
    destruct (poll_inflight 3 c s2 _) as [[s3 q3] j3]. destruct Hp as [Hs3 _]. destruct Hp' as [Hq3 Hw3].
    assert (H4 : let '(s4, _, j4) := (if (rq_cur q3 <? rq_len q3)%Z then poll_new c pids s3 q3 else (s3, q3, [])) in
                 s4 = exec_all s3 (jcmds j4) /\ Forall isq (jcmds j4)).
    { destruct (rq_cur q3 <? rq_len q3)%Z; [|split; [reflexivity|constructor]].
      pose proof (poll_new_q c pids s3 q3 Hq3) as A. pose proof (poll_new_isq c pids s3 q3 Hq3) as B.
      destruct (poll_new c pids s3 q3) as [[s4 q4] j4]. split; [exact (proj1 A)|exact B]. }
    destruct (if (rq_cur q3 <? rq_len q3)%Z then poll_new c pids s3 q3 else (s3, q3, [])) as [[s4 q4] j4].
    destruct H4 as [Hs4 Hi4]. intros _. cbn [fst b_store b_set b_with_store].
    rewrite Hs4. apply has_session_frame; [|exact Hi4|].
    + rewrite Hs3. now apply exec_all_wt.
    + rewrite Hs3. now apply has_session_frame.
  - destruct (qkey_res _ _ (qkey_new MAXQ IFEXP c) (rq_init_ok true true MAXPACKET (b_store b1) (rq_new MAXQ IFEXP c))) as [Hq1 Hwi].
    pose proof (rq_init_store true true MAXPACKET (b_store b1) (rq_new MAXQ IFEXP c)) as Hsi. unfold res_store in Hsi.
    assert (Hsri : wt_store (r_store (rq_init true true MAXPACKET (b_store b1) (rq_new MAXQ IFEXP c)))) by (rewrite Hsi; now apply exec_all_wt).
    set (s2 := exec_all (r_store (rq_init true true MAXPACKET (b_store b1) (rq_new MAXQ IFEXP c)))
                        [CDel (unack_key c); sess_set_cmd c (N.min expiry SESSION_CAP)]).
    assert (Hs2 : wt_store s2).
    { apply exec_all_wt; [exact Hsri|]. constructor; [exact I|]. constructor; [apply wt_sess_set|constructor]. }
    assert (Hh2 : has_session c s2).
    { unfold s2. cbn [exec_all fold_left]. apply hset_session. apply exec_wt; [exact Hsri|exact I]. }
    pose proof (poll_inflight_q 3 c s2 (r_q (rq_init true true MAXPACKET (b_store b1) (rq_new MAXQ IFEXP c))) Hq1) as Hp.
    pose proof (poll_inflight_isq 3 c s2 (r_q (rq_init true true MAXPACKET (b_store b1) (rq_new MAXQ IFEXP c))) Hq1) as Hpi.
    destruct (poll_inflight 3 c s2 _) as [[s3 q3] j3]. destruct Hp as [Hs3 _].
    intros _. cbn [fst b_store b_set b_with_store]. rewrite Hs3. now apply has_session_frame.
Qed.

(* ---- a stored session is found by start-up, under its client id ---- *)
Lemma stored_sessions_in s c keys h :
  In (sess_key c) keys -> aget (sess_key c) s = Some (RHash h) -> aget F_CLIENT_ID h = Some (BRaw c) ->
  In c (map fst (stored_sessions s keys)).
Proof.
  intros Hin Hg Hn. induction keys as [|k r IH]; [destruct Hin|].
  cbn [stored_sessions]. destruct Hin as [->|Hin].
  - unfold hgetall. rewrite Hg. cbn [map fst]. left. now rewrite Hn.
  - destruct (hgetall k s); [right|]; now apply IH.
Qed.

Lemma scan_prefix_in p k v s : aget k s = Some v -> has_prefix_str p k = true -> In k (scan_prefix p s).
Proof.
  intros Hg Hp. unfold scan_prefix. apply in_map_iff. exists (k, v). split; [reflexivity|].
  apply filter_In. split; [now apply aget_In|exact Hp].
Qed.

Lemma mem_cid_in c l : In c l -> mem_cid c l = true.
Proof.
  induction l as [|x r IH]; [intros []|]. intros [->|H]; cbn [mem_cid].
  - now rewrite str_eqb_refl.
  - rewrite (IH H). apply orb_true_r.
Qed.

Lemma has_session_listed c s : has_session c s -> mem_cid c (session_ids s) = true.
Proof.
  intros (h & Hg & Hn). apply mem_cid_in. unfold session_ids.
  apply (stored_sessions_in s c _ h); [|exact Hg|exact Hn].
  apply (scan_prefix_in SESS_PREFIX _ _ _ Hg). apply sess_key_is_sess.
Qed.

Lemma fold_clients_in (f : cid -> bclient) cids : forall cl c,
  In c cids \/ aget c cl <> None ->
  aget c (fold_left (fun cl c => aset c (f c) cl) cids cl) <> None.
Proof.
  induction cids as [|c0 r IH]; intros cl c H; cbn [fold_left].
  - destruct H as [[]|H]; exact H.
  - apply IH. destruct H as [[->|H]|H].
    + right. rewrite aget_aset_same. discriminate.
    + now left.
    + right. rewrite aget_aset. destruct (str_eqb c c0); [discriminate|exact H].
Qed.

Lemma mem_cid_true c l : mem_cid c l = true -> In c l.
Proof.
  induction l as [|x r IH]; cbn [mem_cid]; [discriminate|]. intros H. apply orb_true_iff in H as [H|H].
  - left. now apply str_eqb_eq.
  - right. now apply IH.
Qed.

(* a client with a stored session reappears, under the same client id, in the session table
   of the broker started on that store *)
Theorem recovered_session (fx : fixes) (s : rstore) (b : broker) (c : cid) :
  recover fx s = Some b -> has_session c s -> b_get c b <> None.
Proof.
  intros Hr Hh. pose proof (has_session_listed c s Hh) as Hm. unfold recover in Hr.
  destruct (has_wrongtype_session s); [discriminate|]. fold (session_ids s) in Hr.
  destruct (load_bsubs fx s (session_ids s) []); [|discriminate]. injection Hr as <-.
  unfold b_get. cbn [b_clients]. apply fold_clients_in. left. now apply mem_cid_true.
Qed.

Lemma bstep_inv fx b ev :
  binv b -> wt_store (b_store b) -> names_ok (b_store b) ->
  binv (fst (bstep fx b ev)) /\ wt_store (b_store (fst (bstep fx b ev))) /\ names_ok (b_store (fst (bstep fx b ev))).
Proof.
  intros Hb Hs Hn. destruct (bstep_ok fx b ev Hb) as [Hb1 Hw]. destruct (bstep_coherent fx b ev Hb) as [Hst _].
  pose proof (bstep_foot fx b ev Hb) as Hf.
  split; [exact Hb1|]. rewrite Hst. split; [now apply exec_all_wt|].
  apply exec_all_names; try assumption. eapply Forall_impl; [|exact Hf]. intros cmd H. exact (proj1 H).
Qed.

Lemma brun_inv fx h : forall b,
  binv b -> wt_store (b_store b) -> names_ok (b_store b) ->
  binv (fst (brun fx b h)) /\ wt_store (b_store (fst (brun fx b h))) /\ names_ok (b_store (fst (brun fx b h))).
Proof.
  induction h as [|ev r IH]; intros b Hb Hs Hn; cbn [brun]; [now split|].
  destruct (bstep_inv fx b ev Hb Hs Hn) as (H1 & H2 & H3). destruct (bstep fx b ev) as [b1 j1]. cbn [fst] in *.
  specialize (IH b1 H1 H2 H3). destruct (brun fx b1 r) as [b2 j2]. exact IH.
Qed.

Lemma names_ok_nil : names_ok [].
Proof. intros c h E. discriminate. Qed.

(* THE SESSION CLAUSE OF C09.  History h1, then a CONNECT of c that is answered by a CONNACK,
   then any continuation h2 without a CONNECT / close of c, cut after ANY number k of its storage commands:
   a broker started on the store finds the session of c under the client id c. *)
Theorem session_recovered_any_prefix (fx : fixes) (h1 h2 : list bevent) (c : cid) (clean : bool) (expiry : N)
        (pids : list N) (sp : bool) (k : nat) :
  let b1 := fst (brun fx broker0 h1) in
  let ev := EConnect c clean expiry pids in
  let b2 := fst (bstep fx b1 ev) in
  In (JOut (OConnack c sp)) (snd (bstep fx b1 ev)) ->
  c <> [] -> Forall (spares c) h2 ->
  exists br, recover fx (exec_all (b_store b2) (firstn k (jcmds (snd (brun fx b2 h2))))) = Some br /\ b_get c br <> None.
Proof.
  cbn zeta. intros Hack Hc Hev.
  destruct (brun_inv fx h1 broker0 binv0 wt_store_nil names_ok_nil) as (Hb1 & Hs1 & Hn1).
  destruct (bstep_inv fx _ (EConnect c clean expiry pids) Hb1 Hs1 Hn1) as (Hb2 & Hs2 & Hn2).
  pose proof (connack_has_session fx _ c clean expiry pids sp Hb1 Hs1 Hack) as Hh.
  set (b2 := fst (bstep fx (fst (brun fx broker0 h1)) (EConnect c clean expiry pids))) in *.
  set (s := exec_all (b_store b2) (firstn k (jcmds (snd (brun fx b2 h2))))).
  assert (Hws : wt_store s).
  { apply exec_all_wt; [exact Hs2|]. apply Forall_firstn. exact (proj2 (brun_ok fx h2 b2 Hb2)). }
  destruct (recover fx s) as [br|] eqn:Er; [|exfalso; now apply (recover_total fx s Hws)].
  exists br. split; [reflexivity|]. apply (recovered_session fx s br c Er).
  destruct Hh as (h & Hg & Hnm). exists h. split; [|exact Hnm]. rewrite <- Hg.
  apply (session_survives_any_prefix fx c h2 b2 k Hb2 Hs2 Hn2 Hc Hev).
Qed.

(* ================================================================== *)
(* 11. QoS 2 packet ids awaiting PUBREL                                  *)
(* ================================================================== *)
(* decimal printing and parsing are inverse on packet ids (16 bit): checked exhaustively *)
Definition dec_ok (n : N) : bool :=
  negb (is_empty (dec n)) && match undec (dec n) 0 with Some m => m =? n | None => false end.

Fixpoint all_from (fuel : nat) (n : N) (P : N -> bool) : bool :=
  match fuel with O => true | S k => P n && all_from k (n + 1) P end.

Lemma all_from_spec fuel : forall n P, all_from fuel n P = true ->
  forall m, n <= m -> m < n + N.of_nat fuel -> P m = true.
Proof.
  induction fuel as [|k IH]; intros n P H m Hle Hlt; cbn [all_from] in H.
  - cbn in Hlt. lia.
  - apply andb_true_iff in H as [H0 H1]. destruct (N.eq_dec m n) as [->|Hne]; [exact H0|].
    apply (IH (n + 1) P H1 m); lia.
Qed.

Lemma dec_ok_u16_all : all_from (N.to_nat 65536) 0 dec_ok = true.
Proof. vm_compute. reflexivity. Qed.

Lemma dec_ok_u16 n : n < 65536 -> dec_ok n = true.
Proof.
  intros H. apply (all_from_spec (N.to_nat 65536) 0 dec_ok dec_ok_u16_all n); [lia|].
  rewrite N2Nat.id. lia.
Qed.

Lemma ids_of_hash_in f v n (h : list (str * blob)) :
  aget f h = Some v -> f <> [] -> undec f 0 = Some n -> memN n (ids_of_hash h) = true.
Proof.
  intros Hg Hf Hu. induction h as [|[f0 v0] r IH]; cbn [aget] in Hg; [discriminate|].
  cbn [ids_of_hash]. destruct (str_eqb_spec f f0) as [E|E].
  - subst f0. destruct f as [|x f']; [congruence|]. rewrite Hu. cbn [memN]. now rewrite N.eqb_refl.
  - specialize (IH Hg). destruct f0 as [|y f0']; [exact IH|].
    destruct (undec (y :: f0') 0); [|exact IH]. cbn [memN]. rewrite IH. apply orb_true_r.
Qed.

Definition unack_tb (c : cid) (s : rstore) : list (str * blob) :=
  match aget (unack_key c) s with Some (RHash h) => h | _ => [] end.

Lemma stored_unack_tb c s : wt_store s -> stored_unack c s = ids_of_hash (unack_tb c s).
Proof.
  intros _. unfold stored_unack, unack_tb, hgetall.
  destruct (aget (unack_key c) s) as [[h|l]|]; reflexivity.
Qed.

(* the HSET that precedes PUBREC puts the id into the stored set *)
Lemma unack_hset_stored s c pid :
  wt_store s -> pid < 65536 ->
  memN pid (stored_unack c (exec s (CHSet (unack_key c) [(dec pid, BRaw ONE)]))) = true.
Proof.
  intros Hs Hp.
  assert (Hw : wt_store (exec s (CHSet (unack_key c) [(dec pid, BRaw ONE)]))).
  { apply exec_wt; [exact Hs|]. cbn [wt_cmd]. rewrite unack_key_not_sub. discriminate. }
  rewrite (stored_unack_tb c _ Hw).
  pose proof (dec_ok_u16 pid Hp) as Hd. unfold dec_ok in Hd. apply andb_true_iff in Hd as [Hne Hud].
  destruct (undec (dec pid) 0) as [m|] eqn:Eu; [|discriminate]. apply N.eqb_eq in Hud. subst m.
  apply (ids_of_hash_in (dec pid) (BRaw ONE)); [| |exact Eu].
  - unfold unack_tb. cbn [exec]. destruct (aget (unack_key c) s) as [[h|l]|] eqn:E.
    + rewrite aget_aset_same. cbn [hset_all]. apply aget_aset_same.
    + exfalso. destruct Hs as [_ Hs]. destruct (Hs _ _ E) as (H1 & _). destruct (H1 (hash_key_unack c)) as [h Eh]. discriminate.
    + rewrite aget_aset_same. cbn [hset_all]. apply aget_aset_same.
  - intros E. rewrite E in Hne. discriminate.
Qed.

Lemma unack_key_inj c c' : unack_key c = unack_key c' -> c = c'.
Proof. unfold unack_key. apply app_inv_head. Qed.

(* commands of an event of another client never touch unack:<c> *)
Lemma foot_nounack b ev cmd c : foot b ev cmd -> evc ev <> c -> cmd_key cmd <> unack_key c.
Proof.
  intros [_ Hf] Hev E.
  assert (Hk : is_unack_key (cmd_key cmd) = true) by (rewrite E; apply unack_key_is_unack).
  destruct Hf as [[c0 Hq]|[Hf|[Hf|[Hcn [Hf|[Hf|Hf]]]]]].
  - rewrite (qcmd_key _ _ Hq) in Hk. discriminate.
  - rewrite Hf in E. apply unack_key_inj in E. congruence.
  - rewrite Hf in Hk. discriminate.
  - rewrite Hf in Hk. discriminate.
  - subst cmd. cbn [cmd_key] in Hk. discriminate.
  - subst cmd. cbn [cmd_key] in Hk. discriminate.
Qed.

Lemma unack_survives_any_prefix (fx : fixes) (c : cid) : forall (h : list bevent) (b : broker) (k : nat),
  binv b -> wt_store (b_store b) -> Forall (fun ev => evc ev <> c) h ->
  aget (unack_key c) (exec_all (b_store b) (firstn k (jcmds (snd (brun fx b h))))) = aget (unack_key c) (b_store b).
Proof.
  induction h as [|ev r IH]; intros b k Hb Hs Hev; cbn [brun].
  - cbn [snd jcmds]. rewrite firstn_nil. reflexivity.
  - inversion Hev as [|x xs Hx Hr]; subst.
    pose proof (bstep_foot fx b ev Hb) as Hf.
    destruct (bstep_ok fx b ev Hb) as [Hb1 Hw1].
    destruct (bstep_coherent fx b ev Hb) as [Hst _].
    destruct (bstep fx b ev) as [b1 j1]. cbn [fst snd] in *.
    specialize (IH b1).
    destruct (brun fx b1 r) as [b2 j2]. cbn [fst snd] in *.
    assert (Hns : Forall (fun cmd => cmd_key cmd <> unack_key c) (jcmds j1)).
    { eapply Forall_impl; [|exact Hf]. intros cmd Hcmd. now apply (foot_nounack b ev). }
    rewrite jcmds_app, firstn_app, exec_all_app.
    destruct (Nat.le_gt_cases (length (jcmds j1)) k) as [Hle|Hgt].
    + rewrite (firstn_all2 (jcmds j1)) by exact Hle. rewrite <- Hst.
      rewrite IH; [|exact Hb1|rewrite Hst; now apply exec_all_wt|exact Hr].
      rewrite Hst. now apply frame_all.
    + replace (k - length (jcmds j1))%nat with 0%nat by lia. rewrite firstn_O. cbn [exec_all fold_left].
      apply frame_all; [exact Hs|now apply Forall_firstn|now apply Forall_firstn].
Qed.

Lemma stored_unack_eq c s s' : aget (unack_key c) s' = aget (unack_key c) s -> stored_unack c s' = stored_unack c s.
Proof. intros E. unfold stored_unack, hgetall. now rewrite E. Qed.

Lemma deliver_isq topic payload qos publisher sp cl : forall s,
  cl_ok cl -> let '(_, _, cmds) := deliver topic payload qos publisher sp cl s in Forall isq cmds.
Proof.
  induction cl as [|[c x] r IH]; intros s Hcl; cbn [deliver]; [constructor|].
  inversion Hcl as [|y ys Hy Hr]; subst. cbn [snd] in Hy.
  destruct (bc_q x) as [q|] eqn:Eq.
  - destruct (client_match topic publisher c sp) as [[sq ids]|].
    + pose proof (qkey_res_isq q _ (Hy q Eq) (rq_add_ok 0 (mk_elem (mk_msg (N.min qos sq) topic payload ids)) s q)) as Hn.
      specialize (IH (r_store (rq_add 0 (mk_elem (mk_msg (N.min qos sq) topic payload ids)) s q)) Hr).
      destruct (deliver topic payload qos publisher sp r _) as [[r' s'] cmds]. apply Forall_app. now split.
    + specialize (IH s Hr). now destruct (deliver topic payload qos publisher sp r s) as [[r' s'] cmds].
  - specialize (IH s Hr). now destruct (deliver topic payload qos publisher sp r s) as [[r' s'] cmds].
Qed.

Lemma isq_nounack cmd c : isq cmd -> cmd_key cmd <> unack_key c.
Proof.
  intros [c0 Hq] E. rewrite (qcmd_key _ _ Hq) in E.
  assert (H : is_unack_key (queue_key c0) = false) by reflexivity. rewrite E, unack_key_is_unack in H. discriminate.
Qed.

(* a QoS 2 PUBLISH that is new to the broker (the HSET is in its journal): after the event the
   id is in the stored set *)
Lemma publish_stores_id fx b c pid topic payload :
  binv b -> wt_store (b_store b) -> pid < 65536 ->
  In (CHSet (unack_key c) [(dec pid, BRaw ONE)]) (jcmds (snd (bstep fx b (EPublish c 2 pid topic payload)))) ->
  memN pid (stored_unack c (b_store (fst (bstep fx b (EPublish c 2 pid topic payload))))) = true.
Proof.
  intros Hb Hs Hp. cbn [bstep].
  destruct (negb _); [intros []|].
  destruct (b_get c b) as [x|] eqn:Ex; [|intros []].
  set (cache := match bc_ua x with Some u => u | None => [] end).
  set (dup := (2 =? 2) && memN pid cache).
  set (ucmds := if (2 =? 2) && negb dup then [CHSet (unack_key c) [(dec pid, BRaw ONE)]] else []).
  set (x' := if (2 =? 2) && negb dup then {| bc_online := bc_online x; bc_q := bc_q x; bc_ua := Some (pid :: cache) |} else x).
  assert (Hx' : client_ok x').
  { unfold x'. destruct ((2 =? 2) && negb dup); [|exact (cl_ok_get _ _ _ Hb Ex)].
    intros q0 E0. cbn [bc_q] in E0. exact (cl_ok_get _ _ _ Hb Ex q0 E0). }
  assert (Hb1 : binv (b_set c x' (b_with_store (exec_all (b_store b) ucmds) b))) by (apply binv_set; [exact Hb|exact Hx']).
  assert (Hd : let '(_, s2, dcmds) := (if dup then (b_clients (b_set c x' (b_with_store (exec_all (b_store b) ucmds) b)),
                                                   b_store (b_set c x' (b_with_store (exec_all (b_store b) ucmds) b)), [])
                                       else deliver topic payload 2 c (b_subs (b_set c x' (b_with_store (exec_all (b_store b) ucmds) b)))
                                              (b_clients (b_set c x' (b_with_store (exec_all (b_store b) ucmds) b)))
                                              (b_store (b_set c x' (b_with_store (exec_all (b_store b) ucmds) b)))) in
               s2 = exec_all (exec_all (b_store b) ucmds) dcmds /\ Forall isq dcmds).
  { destruct dup; [split; [reflexivity|constructor]|].
    pose proof (deliver_q topic payload 2 c (b_subs (b_set c x' (b_with_store (exec_all (b_store b) ucmds) b))) _
                  (b_store (b_set c x' (b_with_store (exec_all (b_store b) ucmds) b))) Hb1) as A.
    pose proof (deliver_isq topic payload 2 c (b_subs (b_set c x' (b_with_store (exec_all (b_store b) ucmds) b))) _
                  (b_store (b_set c x' (b_with_store (exec_all (b_store b) ucmds) b))) Hb1) as B.
    destruct (deliver _ _ _ _ _ _ _) as [[cl s2] dcmds]. split; [exact (proj1 A)|exact B]. }
  destruct (if dup then _ else _) as [[cl s2] dcmds]. destruct Hd as [Hs2 Hq]. cbn [fst snd b_store].
  rewrite jcmds_app, jcmds_map_cmd. intros Hin.
  assert (Hu : ucmds = [CHSet (unack_key c) [(dec pid, BRaw ONE)]]).
  { unfold ucmds in *. destruct ((2 =? 2) && negb dup); [reflexivity|].
    exfalso. rewrite app_nil_l in Hin.
    assert (Hnil : jcmds (if 2 =? 1 then [JOut (OPuback c pid)] else if 2 =? 2 then [JOut (OPubrec c pid)] else []) = []) by reflexivity.
    rewrite Hnil, app_nil_r in Hin. rewrite Forall_forall in Hq. specialize (Hq _ Hin).
    apply (isq_nounack _ c Hq). reflexivity. }
  rewrite Hs2, Hu.
  change (exec_all (b_store b) [CHSet (unack_key c) [(dec pid, BRaw ONE)]])
    with (exec (b_store b) (CHSet (unack_key c) [(dec pid, BRaw ONE)])).
  rewrite (stored_unack_eq c (exec (b_store b) (CHSet (unack_key c) [(dec pid, BRaw ONE)])) _).
  - now apply unack_hset_stored.
  - apply frame_all.
    + apply exec_wt; [exact Hs|]. cbn [wt_cmd]. rewrite unack_key_not_sub. discriminate.
    + eapply Forall_impl; [|exact Hq]. apply isq_wt.
    + eapply Forall_impl; [|exact Hq]. intros cmd H. now apply isq_nounack.
Qed.

(* UNACK CLAUSE, the store.  After any history h1, a QoS 2 PUBLISH of c with packet id pid that is
   new to the broker, and any continuation h2 by other clients cut after ANY number k of its
   storage commands: pid is in the stored set of c *)
Theorem qos2_id_stored_any_prefix (fx : fixes) (h1 h2 : list bevent) (c : cid) (pid : N) (topic payload : str) (k : nat) :
  let b1 := fst (brun fx broker0 h1) in
  let ev := EPublish c 2 pid topic payload in
  let b2 := fst (bstep fx b1 ev) in
  In (CHSet (unack_key c) [(dec pid, BRaw ONE)]) (jcmds (snd (bstep fx b1 ev))) ->
  pid < 65536 -> Forall (fun e => evc e <> c) h2 ->
  memN pid (stored_unack c (exec_all (b_store b2) (firstn k (jcmds (snd (brun fx b2 h2)))))) = true.
Proof.
  cbn zeta. intros Hin Hp Hev.
  destruct (brun_inv fx h1 broker0 binv0 wt_store_nil names_ok_nil) as (Hb1 & Hs1 & Hn1).
  destruct (bstep_inv fx _ (EPublish c 2 pid topic payload) Hb1 Hs1 Hn1) as (Hb2 & Hs2 & Hn2).
  rewrite (stored_unack_eq c _ _ (unack_survives_any_prefix fx c h2 _ k Hb2 Hs2 Hev)).
  now apply publish_stores_id.
Qed.

Lemma fold_clients_get (f : cid -> bclient) cids : forall cl c,
  In c cids \/ aget c cl = Some (f c) ->
  aget c (fold_left (fun cl c => aset c (f c) cl) cids cl) = Some (f c).
Proof.
  induction cids as [|c0 r IH]; intros cl c H; cbn [fold_left].
  - destruct H as [[]|H]; exact H.
  - apply IH. destruct H as [[->|H]|H].
    + right. apply aget_aset_same.
    + now left.
    + right. rewrite aget_aset. destruct (str_eqb_spec c c0) as [->|E]; [reflexivity|exact H].
Qed.

Lemma memN_app x a b : memN x (a ++ b) = memN x a || memN x b.
Proof. induction a as [|y r IH]; cbn [app memN]; [reflexivity|]. now rewrite IH, orb_assoc. Qed.

(* UNACK CLAUSE, the restart.  A broker started on a store in which c has a persistent session
   and pid is in the stored set of c: c reconnects without clean start, sends the QoS 2 PUBLISH
   with pid again - the broker answers PUBREC and does nothing else (no storage command, in
   particular nothing is appended to any queue).  Needs the reload of 892f3ad (fix_unack). *)
Theorem qos2_duplicate_recognised (fx : fixes) (s : rstore) (b : broker) (c : cid) (exp expiry pid : N)
        (pids : list N) (topic payload : str) :
  fix_unack fx = true ->
  recover fx s = Some b ->
  sess_get c s = Some (c, exp) -> exp <> 0 -> c <> [] -> mem_cid c (session_ids s) = true ->
  memN pid (stored_unack c s) = true ->
  snd (bstep fx (fst (bstep fx b (EConnect c false expiry pids))) (EPublish c 2 pid topic payload)) = [JOut (OPubrec c pid)].
Proof.
  intros Hfix Hr Hsg Hexp Hc Hm Hpid.
  unfold recover in Hr. destruct (has_wrongtype_session s); [discriminate|]. fold (session_ids s) in Hr.
  destruct (load_bsubs fx s (session_ids s) []) as [m|]; [|discriminate]. injection Hr as <-.
  match goal with |- context [bstep fx ?bb (EConnect c false expiry pids)] => set (b := bb) end.
  assert (Hget : b_get c b = Some {| bc_online := false; bc_q := Some (rq_fresh s MAXQ IFEXP c); bc_ua := Some [] |}).
  { unfold b_get, b. cbn [b_clients].
    apply (fold_clients_get (fun c0 => {| bc_online := false; bc_q := Some (rq_fresh s MAXQ IFEXP c0); bc_ua := Some [] |})).
    left. now apply mem_cid_true. }
  assert (Hb1 : exists q4 s4 b1', fst (bstep fx b (EConnect c false expiry pids)) =
            b_set c {| bc_online := true; bc_q := Some q4; bc_ua := Some (stored_unack c s ++ []) |} (b_with_store s4 b1')).
  { cbn [bstep]. rewrite Hget. cbn [bc_online bc_q bc_ua]. change (b_store b) with s. rewrite Hsg.
    assert (E1 : is_empty c = false) by (destruct c; [congruence|reflexivity]).
    assert (E2 : (exp =? 0) = false) by now apply N.eqb_neq.
    rewrite E1, E2. cbn [negb andb orb bc_q bc_ua].
    destruct (poll_inflight 3 c _ _) as [[s3 q3] j3].
    destruct (if (rq_cur q3 <? rq_len q3)%Z then poll_new c pids s3 q3 else (s3, q3, [])) as [[s4 q4] j4].
    cbn [fst]. rewrite Hfix. change (b_store b) with s. exists q4, s4, b. reflexivity. }
  destruct Hb1 as (q4 & s4 & b1' & ->).
  cbn [bstep].
  assert (Hg1 : b_get c (b_set c {| bc_online := true; bc_q := Some q4; bc_ua := Some (stored_unack c s ++ []) |} (b_with_store s4 b1'))
                = Some {| bc_online := true; bc_q := Some q4; bc_ua := Some (stored_unack c s ++ []) |}).
  { unfold b_get, b_set. cbn [b_clients]. apply aget_aset_same. }
  rewrite Hg1. cbn [bc_online negb bc_ua].
  assert (Hdup : memN pid (stored_unack c s ++ []) = true) by (rewrite memN_app, Hpid; reflexivity).
  rewrite Hdup. cbn [N.eqb Pos.eqb andb negb snd app map]. reflexivity.
Qed.
