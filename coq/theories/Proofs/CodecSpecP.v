(* The independent codec (Model/CodecSpec.v) against the model of pkg/packets, for PUBLISH under
   MQTT 3.1 / 3.1.1: same bytes from both encoders, and each decoder reads the other's bytes
   back to the same value.  (The other packet types and v5 are covered by the differential
   suites `codec` and `cenc`, not by a theorem.) *)
From Coq Require Import List NArith ZArith Bool Lia ZifyN ZifyNat ZifyBool.
Import ListNotations.
From GM Require Import Base.Topic Base.Msg Model.TopicMatch Model.CodecBase Model.CodecProps Model.CodecPackets
  Model.CodecSpec Oracle.C06O
  Proofs.CodecBaseP Proofs.CodecStrP Proofs.CodecTotalP Proofs.CodecPropsP Proofs.CodecPropsInvP
  Proofs.CodecRoundP Proofs.CodecReencP Proofs.CodecUtf8P Proofs.CodecTopicP.
Open Scope N_scope.
Ltac Zify.zify_post_hook ::= Z.div_mod_to_equations.

(* ---------------------------------------------------------------- primitives agree *)
Lemma e_varint_bytes : forall n, n < 268435456 -> e_varint n = varint_bytes n.
Proof.
  intros n Hn. unfold e_varint, varint_bytes. cbn [e_varint_fuel].
  destruct (N.ltb_spec n 128); [reflexivity|].
  destruct (N.ltb_spec n 16384).
  { replace (n / 128 <? 128) with true by lia. reflexivity. }
  replace (n / 128 <? 128) with false by lia.
  destruct (N.ltb_spec n 2097152).
  { replace (n / 128 / 128 <? 128) with true by lia. replace (n / 128 / 128) with (n / 16384) by lia. reflexivity. }
  replace (n / 128 / 128 <? 128) with false by lia.
  replace (n / 128 / 128 / 128 <? 128) with true by lia.
  replace (n / 128 / 128 / 128) with (n / 2097152) by lia. replace (n / 128 / 128) with (n / 16384) by lia. reflexivity.
Qed.

Lemma s_varint_bytes : forall m n rest, n < 268435456 -> s_varint m (varint_bytes n ++ rest) = SOk (n, rest).
Proof.
  intros m n rest Hn. unfold varint_bytes, s_varint.
  destruct (N.ltb_spec n 128).
  { cbn [app]. replace (n <? 128) with true by lia. cbn [N.ltb N.compare andb]. rewrite andb_false_r. reflexivity. }
  destruct (N.ltb_spec n 16384).
  { cbn [app]. replace (n mod 128 + 128 <? 128) with false by lia. replace (n / 128 <? 128) with true by lia.
    replace (n / 128 =? 0) with false by lia. rewrite andb_false_r. cbn [andb]. f_equal. f_equal. lia. }
  destruct (N.ltb_spec n 2097152).
  { cbn [app]. replace (n mod 128 + 128 <? 128) with false by lia.
    replace (n / 128 mod 128 + 128 <? 128) with false by lia. replace (n / 16384 <? 128) with true by lia.
    replace (n / 16384 =? 0) with false by lia. rewrite andb_false_r. cbn [andb]. f_equal. f_equal. lia. }
  cbn [app]. replace (n mod 128 + 128 <? 128) with false by lia.
  replace (n / 128 mod 128 + 128 <? 128) with false by lia.
  replace (n / 16384 mod 128 + 128 <? 128) with false by lia. replace (n / 2097152 <? 128) with true by lia.
  replace (n / 2097152 =? 0) with false by lia. rewrite andb_false_r. cbn [andb]. f_equal. f_equal. lia.
Qed.

Lemma e_u16_put16 : forall x, x < 65536 -> e_u16 x = put16 x.
Proof. intros. unfold e_u16, put16. f_equal. lia. Qed.
Lemma e_bin_put_bin : forall s, len s <= 65535 -> e_bin s = put_bin s.
Proof. intros. unfold e_bin, put_bin. rewrite N.mod_small by lia. rewrite e_u16_put16 by lia. reflexivity. Qed.

Lemma s_u16_put16 : forall x r, x < 65536 -> s_u16 (put16 x ++ r) = SOk (x, r).
Proof. intros. unfold put16, s_u16. cbn [app]. f_equal. f_equal. lia. Qed.
Lemma s_bin_put_bin : forall s r, len s <= 65535 -> s_bin (put_bin s ++ r) = SOk (s, r).
Proof.
  intros s r H. unfold s_bin, put_bin. rewrite N.mod_small by lia. rewrite <- app_assoc.
  rewrite s_u16_put16 by lia. cbn [sbind]. rewrite len_app. replace (len s + len r <? len s) with false by lia.
  rewrite len_length. rewrite firstn_app, Nat.sub_diag, firstn_all. cbn [firstn]. rewrite app_nil_r.
  rewrite skipn_app, Nat.sub_diag, skipn_all. reflexivity.
Qed.
Lemma s_str_put_bin : forall s r, len s <= 65535 -> spec_utf8 s = true -> s_str (put_bin s ++ r) = SOk (s, r).
Proof. intros s r H Hu. unfold s_str. rewrite s_bin_put_bin by assumption. cbn [sbind]. rewrite Hu. reflexivity. Qed.

(* ---------------------------------------------------------------- PUBLISH, protocol versions 3 and 4 *)
Definition publish3 (v : N) (dup : bool) (qos : N) (retain : bool) (topic : str) (pid : N) (payload : str) : body :=
  BPublish v dup qos retain topic pid payload None.

Lemma publish_flag_bytes : forall dup qos retain, qos <= 2 ->
  let f := e_flag dup 8 + 2 * qos + e_flag retain 1 in
  f = N.lor (N.lor (b2n dup 8) (b2n retain 1)) ((qos * 2) mod 256) /\ f < 16
  /\ (16 * PUBLISH + f) / 16 = PUBLISH /\ (16 * PUBLISH + f) mod 16 = f
  /\ 16 * PUBLISH + f = N.lor ((PUBLISH * 16) mod 256) f
  /\ N.testbit f 3 = dup /\ (f / 2) mod 4 = qos /\ N.testbit f 0 = retain.
Proof.
  intros dup qos retain Hq. assert (Hc : qos = 0 \/ qos = 1 \/ qos = 2) by lia.
  destruct Hc as [ -> | [ -> | -> ] ]; destruct dup, retain; vm_compute; repeat split.
Qed.

Section Publish3.
  Variables (v : N) (dup : bool) (qos : N) (retain : bool) (topic : str) (pid : N) (payload : str).
  Let b := publish3 v dup qos retain topic pid payload.
  Hypothesis Hv : v = 3 \/ v = 4.
  Hypothesis Hwf : wf_packet b = true.

  Lemma p3_facts :
    qos <= 2 /\ negb ((qos =? 0) && dup) = true /\ len topic <= 65535 /\ spec_utf8 topic = true
    /\ has_ctl topic = false /\ has_wild topic = false /\ topic <> [] /\ pid < 65536
    /\ (qos = 0 -> pid = 0) /\ (qos <> 0 -> 1 <= pid) /\ (v =? 5) = false.
  Proof.
    pose proof Hwf as Hwf'. unfold wf_packet, b, publish3 in Hwf'. cbn [wf_body] in Hwf'. unfold wf_str, wf_pid, wf_oprops in Hwf'.
    assert (Hv5 : (v =? 5) = false) by (destruct Hv as [E|E]; rewrite E; reflexivity). rewrite Hv5 in Hwf'.
    destruct (spec_utf8 topic), (has_ctl topic), (has_wild topic), dup; destruct topic; cbn in Hwf' |- *;
      destruct (N.eqb_spec qos 0); repeat split; try discriminate; try lia.
  Qed.

  Let body_bytes : list N := put_bin topic ++ (if (qos =? 1) || (qos =? 2) then put16 pid else []) ++ payload.

  Lemma p3_spec_body : snd (spec_encode_body b) = body_bytes.
  Proof.
    destruct p3_facts as (Hq & Hd & Hl & Hu & Hc & Hw & Hne & Hp & Hp0 & Hp1 & Hv5).
    unfold b, publish3, body_bytes. cbn [spec_encode_body snd]. rewrite Hv5.
    rewrite e_bin_put_bin by assumption. cbn [app]. f_equal.
    destruct (N.eqb_spec qos 0) as [->|Hq0]; [reflexivity|].
    replace ((qos =? 1) || (qos =? 2)) with true by lia. rewrite e_u16_put16 by assumption. reflexivity.
  Qed.

  Lemma p3_len : len body_bytes < 268435456.
  Proof.
    pose proof Hwf as Hwf'. unfold wf_packet in Hwf'. apply andb_prop in Hwf'. destruct Hwf' as [_ Hl].
    rewrite p3_spec_body in Hl. lia.
  Qed.

  (* both encoders write the same bytes *)
  Theorem p3_same_bytes : pack b = Ok (spec_encode b).
  Proof.
    destruct p3_facts as (Hq & Hd & Hl & Hu & Hc & Hw & Hne & Hp & Hp0 & Hp1 & Hv5).
    destruct (publish_flag_bytes dup qos retain Hq) as (Hf & Hf16 & _ & _ & Hfirst & _).
    unfold spec_encode. pose proof p3_spec_body as Hsb.
    destruct (spec_encode_body b) as [[t f] bytes] eqn:Eb. cbn [snd] in Hsb. subst bytes.
    assert (Ht : t = PUBLISH /\ f = e_flag dup 8 + 2 * qos + e_flag retain 1).
    { unfold b, publish3 in Eb. cbn [spec_encode_body] in Eb. inversion Eb. auto. }
    destruct Ht as [-> ->].
    unfold pack, pack_full, b, publish3. cbn [pack_body]. rewrite Hv5. cbn [bind app].
    fold body_bytes. unfold pack_fixhdr. cbn [fh_rl fh_type fh_flags].
    rewrite encode_varint_bytes by apply p3_len. cbn [bind]. rewrite e_varint_bytes by apply p3_len.
    rewrite <- Hf. rewrite <- Hfirst. reflexivity.
  Qed.

  Lemma p3_dec_inv : dec_inv v b.
  Proof.
    destruct p3_facts as (Hq & Hd & Hl & Hu & Hc & Hw & Hne & Hp & Hp0 & Hp1 & Hv5).
    assert (Hutf : valid_utf8_impl topic = Ok true).
    { apply wf_str_accepted. unfold wf_str. rewrite Hu, Hc. cbn. lia. }
    unfold b, publish3. cbn [dec_inv]. unfold oprops_inv. rewrite Hv5.
    split; [reflexivity|]. split; [assumption|]. split; [assumption|].
    split; [unfold istr_ok, impl_utf8; rewrite Hutf; lia|].
    split.
    { right. unfold impl_name. rewrite name_decoder_exact by assumption.
      unfold spec_topic_name, valid_name_spec. rewrite Hu, Hw. destruct topic; [congruence|reflexivity]. }
    split; [assumption|]. split; [assumption|].
    split; [intros Hq0; specialize (Hp1 Hq0); lia|].
    split; [reflexivity|].
    unfold pub_topic_ok. destruct topic; [congruence|reflexivity].
  Qed.

  (* the decoder of pkg/packets reads the specification encoder's bytes back to the same value *)
  Theorem p3_read_spec_encode :
    exists p', read_packet v (spec_encode b) = Ok (p', []) /\ p_body p' = b.
  Proof.
    pose proof p3_same_bytes as Hpack. unfold pack in Hpack.
    destruct (pack_full b) as [[bs fh]| | |] eqn:Ef; cbn [bind] in Hpack; try discriminate.
    inversion Hpack; subst bs; clear Hpack.
    unfold pack_full in Ef.
    destruct (pack_body b) as [[[t fl] bytes]| | |] eqn:Epb; cbn [bind] in Ef; try discriminate.
    destruct (pack_fixhdr _) as [h| | |] eqn:Eh; cbn [bind] in Ef; try discriminate.
    assert (Hbs : h ++ bytes = spec_encode b) by congruence. rewrite <- Hbs.
    assert (Hlen : len bytes < BIG) by (apply pack_fixhdr_len' in Eh; exact Eh).
    destruct (rt_publish v dup qos retain topic pid payload None t fl bytes p3_dec_inv Epb Hlen) as (-> & Hfl & Hpf & Hparse).
    eapply (read_packet_packed v PUBLISH fl bytes _ h); [reflexivity|exact Hfl|exact Hlen| |exact Eh].
    left. split.
    - unfold precheck. cbn [fh_type fh_flags]. cbn [N.eqb Pos.eqb PUBLISH CONNECT CONNACK]. rewrite Hpf. reflexivity.
    - unfold parse_body. cbn [fh_type fh_flags]. cbn [N.eqb Pos.eqb PUBLISH CONNECT CONNACK]. rewrite Hpf. exact Hparse.
  Qed.

  (* the specification decoder reads Pack's bytes back to the same value *)
  Theorem p3_spec_decode_pack : forall bs, pack b = Ok bs -> spec_decode v bs = SOk (b, []).
  Proof.
    intros bs Hbs. rewrite p3_same_bytes in Hbs. inversion Hbs; subst bs; clear Hbs.
    destruct p3_facts as (Hq & Hd & Hl & Hu & Hc & Hw & Hne & Hp & Hp0 & Hp1 & Hv5).
    destruct (publish_flag_bytes dup qos retain Hq) as (_ & Hf16 & Hdiv & Hmod & _ & Hb3 & Hqq & Hb0).
    unfold spec_encode. pose proof p3_spec_body as Hsb.
    destruct (spec_encode_body b) as [[t f] bytes] eqn:Eb. cbn [snd] in Hsb. subst bytes.
    assert (Ht : t = PUBLISH /\ f = e_flag dup 8 + 2 * qos + e_flag retain 1).
    { unfold b, publish3 in Eb. cbn [spec_encode_body] in Eb. inversion Eb. auto. }
    destruct Ht as [-> ->].
    unfold spec_decode. rewrite Hdiv, Hmod. rewrite e_varint_bytes by apply p3_len.
    rewrite s_varint_bytes by apply p3_len. cbn [sbind].
    assert (Hv3 : v =? 5 = false) by exact Hv5. rewrite Hv3.
    cbn [PUBLISH CONNECT CONNACK PUBREL SUBSCRIBE UNSUBSCRIBE N.eqb Pos.eqb negb andb orb guard sbind].
    replace (len body_bytes <=? len body_bytes) with true by lia. cbn [guard sbind].
    rewrite len_length, firstn_all, skipn_all.
    (* s_publish *)
    unfold s_publish. rewrite Hb3, Hqq, Hb0.
    replace (negb (qos =? 3)) with true by lia. cbn [guard sbind]. rewrite Hd. cbn [guard sbind].
    unfold body_bytes. rewrite s_str_put_bin by assumption. cbn [sbind].
    rewrite Hw. cbn [negb guard sbind]. rewrite Hv3.
    assert (Hne' : is_empty topic = false) by (destruct topic; [congruence|reflexivity]).
    rewrite Hne'. cbn [negb orb guard sbind].
    destruct (N.eqb_spec qos 0) as [Hq0|Hq0].
    - unfold b, publish3. rewrite (Hp0 Hq0), Hq0. cbn [N.eqb orb app sbind guard]. reflexivity.
    - replace ((qos =? 1) || (qos =? 2)) with true by lia. rewrite s_u16_put16 by assumption. cbn [sbind].
      replace (negb (pid =? 0)) with true by lia. rewrite orb_true_r. cbn [guard sbind]. unfold b, publish3. reflexivity.
  Qed.
End Publish3.

(* C06_spec_agree for PUBLISH under MQTT 3.1 / 3.1.1 *)
Theorem spec_agree_publish3 : forall v dup qos retain topic pid payload,
  (v = 3 \/ v = 4) ->
  let b := BPublish v dup qos retain topic pid payload None in
  wf_packet b = true ->
  pack b = Ok (spec_encode b)
  /\ spec_decode v (spec_encode b) = SOk (b, [])
  /\ exists p', read_packet v (spec_encode b) = Ok (p', []) /\ p_body p' = b.
Proof.
  intros v dup qos retain topic pid payload Hv b Hwf.
  split; [exact (p3_same_bytes v dup qos retain topic pid payload Hv Hwf)|].
  split; [|exact (p3_read_spec_encode v dup qos retain topic pid payload Hv Hwf)].
  apply (p3_spec_decode_pack v dup qos retain topic pid payload Hv Hwf).
  exact (p3_same_bytes v dup qos retain topic pid payload Hv Hwf).
Qed.
