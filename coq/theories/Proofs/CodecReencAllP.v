(* C06_reencode for all fifteen packet types, on every input. *)
From Coq Require Import List NArith ZArith Bool Lia ZifyN ZifyNat ZifyBool Sorted.
Import ListNotations.
From GM Require Import Base.Topic Base.Msg Model.CodecBase Model.CodecProps Model.CodecPackets Oracle.C06O
  Proofs.TopicP Proofs.CodecBaseP Proofs.CodecStrP Proofs.CodecTotalP Proofs.CodecPropsP Proofs.CodecPropsInvP
  Proofs.CodecWillP Proofs.CodecRoundP Proofs.CodecReencP Proofs.CodecRound2P Proofs.CodecConnectP.
Open Scope N_scope.

Ltac Zify.zify_post_hook ::= Z.div_mod_to_equations.

Definition dec_inv_all (v : N) (b : body) : Prop :=
  match b with
  | BConnect c => connect_inv c
  | BSubscribe _ _ _ _ => subscribe_inv v b
  | BUnsubscribe _ _ _ _ => unsubscribe_inv v b
  | _ => dec_inv v b
  end.

Lemma parse_body_inv_all : forall v fh b body,
  parse_body v fh b = Ok body -> bytes_ok b -> dec_inv_all v body.
Proof.
  intros v fh b body H Hb. unfold parse_body in H.
  destruct (fh_type fh =? CONNECT).
  { destruct (parse_connect_inv _ _ H Hb) as [c [-> Hc]]. exact Hc. }
  destruct (fh_type fh =? CONNACK).
  { destruct (parse_connack_inv v _ _ H Hb) as [Hd (code & sp & pr & ->)]. exact Hd. }
  destruct (fh_type fh =? PUBLISH).
  { destruct (publish_flags (fh_flags fh)) as [[[dup qos] retain]| | |] eqn:Ef; cbn [bind] in H; try discriminate.
    apply publish_flags_inv in Ef. destruct Ef as [Hq Hd0].
    destruct (parse_publish_inv _ _ _ _ _ _ Hq Hd0 H Hb) as [Hd (topic & pid & payload & pr & ->)]. exact Hd. }
  destruct ((fh_type fh =? PUBACK) || (fh_type fh =? PUBREC) || (fh_type fh =? PUBCOMP)) eqn:E4.
  { assert (Ht : fh_type fh = PUBACK \/ fh_type fh = PUBREC \/ fh_type fh = PUBCOMP)
      by (unfold PUBACK, PUBREC, PUBCOMP in *; lia).
    destruct (parse_ack_inv _ _ _ _ _ Ht H Hb) as [Hd (pid & code & pr & ->)]. exact Hd. }
  destruct (fh_type fh =? PUBREL).
  { destruct (parse_pubrel_inv v _ _ _ H Hb) as [Hd (pid & code & pr & ->)]. exact Hd. }
  destruct (fh_type fh =? SUBSCRIBE).
  { destruct (parse_subscribe_inv _ _ _ H Hb) as [Hd (pid & ts & pr & ->)]. exact Hd. }
  destruct (fh_type fh =? SUBACK).
  { destruct (parse_suback_inv _ _ _ H Hb) as [Hd (pid & pl & pr & ->)]. exact Hd. }
  destruct (fh_type fh =? UNSUBSCRIBE).
  { destruct (parse_unsubscribe_inv _ _ _ H Hb) as [Hd (pid & ts & pr & ->)]. exact Hd. }
  destruct (fh_type fh =? UNSUBACK).
  { destruct (parse_unsuback_inv _ _ _ H Hb) as [Hd (pid & pl & pr & ->)]. exact Hd. }
  destruct (fh_type fh =? DISCONNECT).
  { destruct (parse_disconnect_inv _ _ _ _ H Hb) as [Hd (code & pr & ->)]. exact Hd. }
  destruct (fh_type fh =? AUTH).
  { destruct (parse_auth_inv v _ _ H Hb) as [Hd (code & pr & ->)]. exact Hd. }
  discriminate.
Qed.

(* the decoder establishes the invariant on everything it accepts *)
Theorem read_packet_inv : forall v bs p rest,
  read_packet v bs = Ok (p, rest) -> bytes_ok bs -> dec_inv_all v (p_body p).
Proof.
  intros v bs p rest Hr Hb.
  destruct (read_packet_body _ _ _ _ Hr Hb) as [[fh [b [Hpb Hbb]]]|[ -> | [ -> | -> ] ]].
  - eapply parse_body_inv_all; eauto.
  - exact I.
  - exact I.
  - left. auto.
Qed.

(* the re-encoding property, as a predicate of one decoding *)
Definition reencodes (v : N) (bs : list N) : Prop :=
  forall p rest, read_packet v bs = Ok (p, rest) ->
  forall bs', pack (p_body p) = Ok bs' ->
  exists p', read_packet v bs' = Ok (p', []) /\ p_body p' = p_body p.

(* former counterexamples (repaired in /repo): a 3.1 CONNECT ("MQIsdp", level 3) now re-encodes to
   the same bytes; a CONNECT with Will QoS 3 is refused *)
Definition connect31 : list N := [16; 18; 0; 6; 77; 81; 73; 115; 100; 112; 3; 2; 0; 60; 0; 4; 97; 98; 99; 100].
Definition connect_wq3 : list N := [16; 19; 0; 4; 77; 81; 84; 84; 4; 30; 0; 60; 0; 1; 99; 0; 1; 116; 0; 1; 109].
Lemma connect31_reencodes :
  match read_packet 4 connect31 with Ok (p, []) => pack (p_body p) = Ok connect31 | _ => False end.
Proof. vm_compute. reflexivity. Qed.
Lemma connect_wq3_refused : read_packet 4 connect_wq3 = Err MALFORMED.
Proof. vm_compute. reflexivity. Qed.

(* C06_reencode, all packet types *)
Theorem reencode_all : forall v bs,
  (v = 3 \/ v = 4 \/ v = 5) -> bytes_ok bs -> reencodes v bs.
Proof.
  intros v bs Hv Hb p rest Hr bs' Hp.
  destruct (simple_body (p_body p)) eqn:Hs.
  { eapply reencode_simple; eauto. }
  pose proof (read_packet_inv _ _ _ _ Hr Hb) as Hinv.
  unfold pack in Hp. destruct (pack_full (p_body p)) as [[bs0 fh0]| | |] eqn:Ef; cbn [bind] in Hp; try discriminate.
  apply ok_inj in Hp. subst bs0.
  unfold pack_full in Ef.
  destruct (pack_body (p_body p)) as [[[t fl] bytes]| | |] eqn:Epb; cbn [bind] in Ef; try discriminate.
  destruct (pack_fixhdr _) as [h| | |] eqn:Eh; cbn [bind] in Ef; try discriminate.
  apply ok_inj in Ef. injection Ef as <- <-.
  assert (Hlen : len bytes < BIG) by (apply pack_fixhdr_len' in Eh; exact Eh).
  destruct (p_body p) as [c| | | | |ver pid ts pr| |ver pid ts pr| | | | | ] eqn:Ebody; try discriminate.
  - (* CONNECT *) cbn [dec_inv_all] in Hinv.
    destruct (rt_connect c t fl bytes Hinv Epb Hlen) as (-> & -> & Hparse).
    eapply (read_packet_packed v CONNECT 0 bytes _ h); [reflexivity|reflexivity|exact Hlen| |exact Eh].
    left. split; [reflexivity|exact Hparse].
  - (* SUBSCRIBE *) cbn [dec_inv_all] in Hinv. assert (ver = v) by (destruct Hinv; assumption). subst ver.
    destruct (rt_subscribe v pid ts pr t fl bytes Hinv Epb Hlen) as (-> & -> & Hparse).
    eapply (read_packet_packed v SUBSCRIBE 2 bytes _ h); [reflexivity|reflexivity|exact Hlen| |exact Eh].
    left. split; [reflexivity|exact Hparse].
  - (* UNSUBSCRIBE *) cbn [dec_inv_all] in Hinv. assert (ver = v) by (destruct Hinv; assumption). subst ver.
    destruct (rt_unsubscribe v pid ts pr t fl bytes Hinv Epb Hlen) as (-> & -> & Hparse).
    eapply (read_packet_packed v UNSUBSCRIBE 2 bytes _ h); [reflexivity|reflexivity|exact Hlen| |exact Eh].
    left. split; [reflexivity|exact Hparse].
Qed.
