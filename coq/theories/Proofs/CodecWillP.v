(* PackWillProperties followed by UnpackWillProperties is the identity on the values
   UnpackWillProperties produces. *)
From Coq Require Import List NArith ZArith Bool Lia ZifyN ZifyNat ZifyBool Sorted.
Import ListNotations.
From GM Require Import Base.Topic Base.Msg Model.CodecBase Model.CodecProps
  Proofs.CodecBaseP Proofs.CodecStrP Proofs.CodecTotalP Proofs.CodecPropsP Proofs.CodecPropsInvP.
Open Scope N_scope.

Ltac Zify.zify_post_hook ::= Z.div_mod_to_equations.

Definition will_reader (id : N) (p : props) (r : list N) : res (props * list N) :=
  if id =? 38 then read_user p r
  else if will_prop_known id then
    match prop_kind id with Some kd => read_single id kd p r | None => Err MALFORMED end
  else Err MALFORMED.

Lemma will_reader_safe : forall id p r, safe_rd r (will_reader id p r).
Proof.
  intros. unfold will_reader. destruct (id =? 38); [apply read_user_safe|].
  destruct (will_prop_known id); [|exact I]. destruct (prop_kind id); [apply read_single_safe|exact I].
Qed.

Lemma will_loop_step : forall fuel p id r,
  will_props_loop (S fuel) p (id :: r) = do '(p', r') <- will_reader id p r; will_props_loop fuel p' r'.
Proof. reflexivity. Qed.

Lemma will_loop_fuel : forall f1 f2 p b, (length b < f1)%nat -> (length b < f2)%nat ->
  will_props_loop f1 p b = will_props_loop f2 p b.
Proof.
  induction f1; intros f2 p b H1 H2; [lia|]. destruct f2; [lia|].
  destruct b as [|id r]; [reflexivity|]. rewrite !will_loop_step.
  pose proof (will_reader_safe id p r) as Hs.
  destruct (will_reader id p r) as [[p' r']| | |]; cbn [bind safe_rd] in Hs |- *; try reflexivity.
  apply IHf1; cbn [length] in *; lia.
Qed.

Definition will_run (p : props) (b : list N) : res props := will_props_loop (S (length b)) p b.
Lemma will_run_nil : forall p, will_run p [] = Ok p. Proof. reflexivity. Qed.
Lemma will_run_cons : forall p id r,
  will_run p (id :: r) = do '(p', r') <- will_reader id p r; will_run p' r'.
Proof.
  intros. unfold will_run. rewrite will_loop_step.
  pose proof (will_reader_safe id p r) as Hs.
  destruct (will_reader id p r) as [[p' r']| | |]; cbn [bind safe_rd] in Hs |- *; try reflexivity.
  apply will_loop_fuel; cbn [length]; lia.
Qed.

Lemma will_reader_eq : forall id v p r, will_prop_known id = true -> sval_ok id v = true ->
  will_reader id p r = prop_reader id p r.
Proof.
  intros id v p r Hk Hs. destruct (sval_ok_id id v Hs) as [N11 N38].
  unfold will_reader, prop_reader. rewrite Hk.
  replace (id =? 11) with false by lia. replace (id =? 38) with false by lia. reflexivity.
Qed.

Lemma will_run_singles : forall seg p rest,
  StronglySorted id_lt seg ->
  (forall e, In e seg -> will_prop_known (fst e) = true /\ sval_ok (fst e) (snd e) = true) ->
  (forall e e0, In e seg -> In e0 (pr_single p) -> fst e0 < fst e) ->
  will_run p (pack_singles seg ++ rest) = will_run (with_singles p (pr_single p ++ seg)) rest.
Proof.
  induction seg as [|[id v] seg IH]; intros p rest Hs Hok Hlt.
  - cbn [pack_singles flat_map app]. rewrite app_nil_r. destruct p; reflexivity.
  - unfold pack_singles. cbn [flat_map]. fold (pack_singles seg). rewrite <- app_assoc.
    destruct (Hok (id, v) (or_introl eq_refl)) as [Hv Hsv]. cbn [fst snd] in Hv, Hsv.
    assert (Hget : ps_get id (pr_single p) = None).
    { apply ps_get_none. intros e0 He0. apply (Hlt (id, v) e0); [left; reflexivity|assumption]. }
    destruct (prop_reader_single id v p (pack_singles seg ++ rest) Hsv Hget) as [t [Et Er]].
    rewrite Et. cbn [app]. rewrite will_run_cons. rewrite (will_reader_eq id v) by assumption.
    rewrite Er. cbn [bind].
    inversion Hs as [|a l Hs' Hall]; subst.
    rewrite IH.
    + f_equal. unfold set_single, with_singles. cbn [pr_single pr_subid pr_user].
      rewrite ps_set_snoc by (intros e0 He0; apply (Hlt (id, v) e0); [left; reflexivity|assumption]).
      rewrite <- app_assoc. reflexivity.
    + assumption.
    + intros e He. apply Hok. right. assumption.
    + intros e e0 He He0. unfold set_single in He0. cbn [pr_single] in He0.
      rewrite ps_set_snoc in He0 by (intros e1 He1; apply (Hlt (id, v) e1); [left; reflexivity|assumption]).
      apply in_app_or in He0. destruct He0 as [He0|[<-|[]]].
      * apply (Hlt e e0); [right; assumption|assumption].
      * rewrite Forall_forall in Hall. apply (Hall e He).
Qed.

Lemma will_run_users : forall us p rest,
  (forall kv, In kv us -> istr_ok (fst kv) = true /\ istr_ok (snd kv) = true) ->
  will_run p (flat_map pack_user us ++ rest) =
  will_run {| pr_single := pr_single p; pr_subid := pr_subid p; pr_user := pr_user p ++ us |} rest.
Proof.
  induction us as [|[k v] us IH]; intros p rest Hok.
  - cbn [flat_map app]. rewrite app_nil_r. destruct p; reflexivity.
  - cbn [flat_map]. unfold pack_user at 1. cbn [fst snd]. cbn [app]. rewrite <- !app_assoc.
    rewrite will_run_cons. unfold will_reader. cbn [N.eqb Pos.eqb]. unfold read_user.
    destruct (Hok (k, v) (or_introl eq_refl)) as [Hk Hvv]. cbn [fst snd] in Hk, Hvv.
    rewrite istr_ok_rt by assumption. cbn [remap bind].
    rewrite istr_ok_rt by assumption. cbn [remap bind].
    rewrite IH.
    + cbn [pr_single pr_subid pr_user]. rewrite <- app_assoc. reflexivity.
    + intros kv Hkv. apply Hok. right. assumption.
Qed.

Definition will_inv (p : props) : Prop := props_invw will_okid p /\ pr_subid p = [].

Lemma will_known : forall p e, will_inv p -> In e (pr_single p) ->
  will_prop_known (fst e) = true /\ sval_ok (fst e) (snd e) = true.
Proof.
  intros p e [(Hs & Hok & _) _] He. destruct (Hok e He) as [H1 H2]. split; [|assumption].
  unfold will_okid in H1. destruct (sval_ok_id _ _ H2) as [_ N38].
  destruct (will_prop_known (fst e)); [reflexivity|]. cbn [orb] in H1. lia.
Qed.

Lemma will_run_body : forall p, will_inv p -> will_run props_empty (will_props_body p) = Ok p.
Proof.
  intros p Hinv. pose proof Hinv as [(Hs & Hok & Hsub & Hu & Huok) Hnil]. unfold will_props_body.
  rewrite (filter_all _ (fun e => will_prop_known (fst e)) (pr_single p))
    by (intros e He; apply (will_known p e Hinv He)).
  rewrite will_run_singles; [|assumption| intros e He; apply (will_known p e Hinv He) | intros e e0 _ []].
  cbn [props_empty pr_single app with_singles pr_subid pr_user].
  rewrite <- (app_nil_r (flat_map pack_user (pr_user p))).
  rewrite will_run_users by assumption. rewrite will_run_nil.
  cbn [pr_single pr_subid pr_user app]. destruct p as [sg sb us]. cbn [pr_subid] in Hnil. subst. reflexivity.
Qed.

Lemma will_props_body_nil : forall p, will_inv p -> will_props_body p = [] -> p = props_empty.
Proof.
  intros p Hinv H. unfold will_props_body in H.
  rewrite (filter_all _ (fun e => will_prop_known (fst e)) (pr_single p)) in H
    by (intros e He; apply (will_known p e Hinv He)).
  apply app_eq_nil in H. destruct H as [H1 H2].
  destruct Hinv as [_ Hnil]. destruct p as [sg sb us]. cbn [pr_single pr_subid pr_user] in *. subst sb.
  assert (us = []). { destruct us as [|[k v] us]; [reflexivity|]. cbn in H2. discriminate. }
  assert (sg = []).
  { destruct sg as [|e sg]; [reflexivity|]. exfalso. unfold pack_singles in H1. cbn [flat_map] in H1.
    apply app_eq_nil in H1. destruct H1 as [H1 _]. pose proof (pack_single_len e) as Hl. rewrite H1 in Hl. cbn in Hl. lia. }
  subst. reflexivity.
Qed.

Theorem will_props_unpack_pack : forall p rest,
  will_inv p -> len (will_props_body p) < 268435456 ->
  will_props_unpack (will_props_pack (Some p) ++ rest) = Ok (p, rest).
Proof.
  intros p rest Hinv Hlen. unfold will_props_pack, will_props_unpack.
  rewrite encode_varint_or_nil_bytes by assumption. rewrite <- app_assoc.
  rewrite varint_roundtrip by assumption. cbn [bind].
  destruct (N.eqb_spec (len (will_props_body p)) 0) as [E|E].
  - assert (Hb : will_props_body p = []) by (destruct (will_props_body p); [reflexivity|rewrite len_cons in E; lia]).
    rewrite Hb. cbn [app]. apply will_props_body_nil in Hb; [|assumption]. subst. reflexivity.
  - rewrite shorter_spec. replace (len (will_props_body p ++ rest) <? len (will_props_body p)) with false by (rewrite len_app; lia).
    unfold buf_next. rewrite takeN_app_exact, dropN_app_exact.
    fold (will_run props_empty (will_props_body p)). rewrite will_run_body by assumption. reflexivity.
Qed.
