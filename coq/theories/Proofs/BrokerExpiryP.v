(* C12 at the level of the broker model (Model/Broker.v + Model/Queue.v): the deadline an element is
   queued with, the expiry check of the first transmission (Read), its lifting to the poll loop, the
   Message Expiry Interval forwarded to the subscriber; and what is NOT checked: the replay of the
   in-flight messages (ReadInflight), an interval of 0. *)
From Coq Require Import List NArith ZArith Bool Arith Lia ZifyN ZifyNat ZifyBool.
Import ListNotations.
From GM Require Import Base.Topic Base.Msg Model.SubTrie Model.RetTrie Model.Queue Model.Limiter Model.TopicMatch Model.Broker.
From GM Require Import Proofs.TopicP Proofs.QueueP Proofs.BrokerBasicP.
Open Scope N_scope.

(* ------------------------------------------------------------------ *)
(* 0. association lists, projections of the setters that are used      *)
(* ------------------------------------------------------------------ *)

Lemma xp_aget_aset_eq {V} k (v : V) l : aget k (aset k v l) = Some v.
Proof.
  induction l as [|[k' v'] r IH]; cbn [aset aget].
  - now rewrite str_eqb_refl.
  - destruct (str_eqb k k') eqn:E; cbn [aget]; [now rewrite str_eqb_refl|now rewrite E].
Qed.

Lemma release_dropped_queues cid evs s : b_queues (release_dropped cid evs s) = b_queues s.
Proof.
  unfold release_dropped. destruct (aget cid (b_online s)) as [c|]; [|reflexivity].
  destruct (nget c (b_conns s)) as [k|]; reflexivity.
Qed.

Lemma release_dropped_now cid evs s : b_now (release_dropped cid evs s) = b_now s.
Proof.
  unfold release_dropped. destruct (aget cid (b_online s)) as [c|]; [|reflexivity].
  destruct (nget c (b_conns s)) as [k|]; reflexivity.
Qed.

Lemma release_dropped_cfg cid evs s : b_cfg (release_dropped cid evs s) = b_cfg s.
Proof.
  unfold release_dropped. destruct (aget cid (b_online s)) as [c|]; [|reflexivity].
  destruct (nget c (b_conns s)) as [k|]; reflexivity.
Qed.

Lemma release_dropped_tag cid evs s : b_tag (release_dropped cid evs s) = b_tag s.
Proof.
  unfold release_dropped. destruct (aget cid (b_online s)) as [c|]; [|reflexivity].
  destruct (nget c (b_conns s)) as [k|]; reflexivity.
Qed.

Lemma fold_left_ext' {A B} (f g : A -> B -> A) : (forall a b, f a b = g a b) ->
  forall l a, fold_left f l a = fold_left g l a.
Proof. intros H l. induction l as [|b r IH]; intros a; cbn [fold_left]; [reflexivity|]. now rewrite H, IH. Qed.

(* ------------------------------------------------------------------ *)
(* 1. the deadline an element is queued with                           *)
(* ------------------------------------------------------------------ *)

(* the lifetime (seconds) of a message published with interval pe (0 = none given) under the configured
   maximum ce (0 = none configured), as addMsgToQueueLocked computes it; 0 = the message never expires *)
Definition eff_lifetime (ce pe : N) : N :=
  if ce =? 0 then pe else if (pe =? 0) || (ce <? pe) then ce else pe.

Definition deadline_of (now L : N) : option N := if L =? 0 then None else Some (now + L * 1000).

Lemma eff_lifetime_publisher ce pe : 0 < pe -> ce = 0 \/ pe <= ce -> eff_lifetime ce pe = pe.
Proof. unfold eff_lifetime. intros Hp H. destruct (ce =? 0) eqn:E1; [reflexivity|]. destruct ((pe =? 0) || (ce <? pe)) eqn:E2; lia. Qed.

Lemma eff_lifetime_capped ce pe : 0 < ce -> ce < pe -> eff_lifetime ce pe = ce.
Proof. unfold eff_lifetime. intros Hc H. destruct (ce =? 0) eqn:E1; [lia|]. destruct ((pe =? 0) || (ce <? pe)) eqn:E2; lia. Qed.

Lemma eff_lifetime_default ce : eff_lifetime ce 0 = ce.
Proof. unfold eff_lifetime. destruct (ce =? 0) eqn:E1; [lia|]. reflexivity. Qed.

Lemma eff_lifetime_zero ce pe : eff_lifetime ce pe = 0 <-> ce = 0 /\ pe = 0.
Proof. unfold eff_lifetime. destruct (ce =? 0) eqn:E1; [lia|]. destruct ((pe =? 0) || (ce <? pe)) eqn:E2; lia. Qed.

(* min (publisher, maximum), each taken as "infinite" when 0 *)
Lemma eff_lifetime_le ce pe : (0 < pe -> eff_lifetime ce pe <= pe) /\ (0 < ce -> eff_lifetime ce pe <= ce).
Proof. unfold eff_lifetime. destruct (ce =? 0) eqn:E1; [lia|]. destruct ((pe =? 0) || (ce <? pe)) eqn:E2; lia. Qed.

Lemma deadline_of_none now L : deadline_of now L = None <-> L = 0.
Proof. unfold deadline_of. destruct (L =? 0) eqn:E; split; intros H; try discriminate; try reflexivity; lia. Qed.

Lemma deadline_of_some now L : 0 < L -> deadline_of now L = Some (now + L * 1000).
Proof. unfold deadline_of. intros H. destruct (L =? 0) eqn:E; [lia|reflexivity]. Qed.

(* the message and the element addMsgToQueueLocked builds *)
Definition atq_msg (m : msg) (s_ : sub) (ids : list N) : msg :=
  with_qos_etc m (if s_qos s_ <? m_qos m then s_qos s_ else m_qos m) (filter (fun i => negb (i =? 0)) ids) (m_retained m && s_rap s_).

Definition atq_elem (m : msg) (s_ : sub) (ids : list N) (s : st) : elem :=
  {| e_tag := b_tag s; e_at := b_now s;
     e_expiry := deadline_of (b_now s) (eff_lifetime (c_message_expiry (b_cfg s)) (m_expiry m));
     e_body := QPub (atq_msg m s_ ids) |}.

Definition atq_skip (cid : str) (m : msg) (s : st) : bool :=
  negb (c_queue_qos0 (b_cfg s)) && negb (ahas cid (b_online s)) && (m_qos m =? 0).

Lemma atq_expiry_eq now ce pe :
  (if negb (ce =? 0) then
     if negb (pe =? 0) && (pe <=? ce) then Some (now + pe * 1000) else Some (now + ce * 1000)
   else if negb (pe =? 0) then Some (now + pe * 1000) else None) = deadline_of now (eff_lifetime ce pe).
Proof.
  unfold deadline_of, eff_lifetime.
  destruct (ce =? 0) eqn:E1; cbn [negb].
  - destruct (pe =? 0) eqn:E2; reflexivity.
  - destruct (pe =? 0) eqn:E2; cbn [negb andb orb].
    + rewrite E1. reflexivity.
    + destruct (pe <=? ce) eqn:E3; destruct (ce <? pe) eqn:E4; try lia.
      * rewrite E2. reflexivity.
      * rewrite E1. reflexivity.
Qed.

(* add_to_queue with the element named *)
Lemma add_to_queue_eq cid m s_ ids s :
  add_to_queue cid m s_ ids s =
  match aget cid (b_queues s) with
  | None => (s, [])
  | Some q =>
      if atq_skip cid m s then (s, [])
      else match q_add (b_now s) (atq_elem m s_ ids s) q with
           | QOk (q', evs) =>
               (release_dropped cid evs (set_picks_tag (b_picks s) (b_tag s + 1) (set_queues (aset cid q' (b_queues s)) s)),
                drops_of cid evs)
           | _ => (s, [])
           end
  end.
Proof.
  unfold add_to_queue, atq_skip. destruct (aget cid (b_queues s)) as [q|]; [|reflexivity].
  destruct (negb (c_queue_qos0 (b_cfg s)) && negb (ahas cid (b_online s)) && (m_qos m =? 0)); [reflexivity|].
  cbv zeta.
  match goal with |- context [q_add _ ?e q] => replace e with (atq_elem m s_ ids s) end; [reflexivity|].
  unfold atq_elem, atq_msg. f_equal. symmetry. apply atq_expiry_eq.
Qed.

(* what Add does with the newcomer: it is the one sacrificed (the queue is unchanged), or it is the last
   element of the new queue, whose other elements are elements of the old one *)
Lemma q_add_shape now e q q' evs : q_add now e q = QOk (q', evs) ->
  (exists r, q' = q /\ evs = [EvDropped e r]) \/
  (exists l0, q_l q' = l0 ++ [e] /\ subseq l0 (q_l q) /\ forall d r, In (EvDropped d r) evs -> In d (q_l q)).
Proof.
  unfold q_add. destruct (q_max q <=? length (q_l q))%nat.
  - destruct (add_victim now e q) as [|r|i r]; [discriminate| |].
    + intros H. inversion H; subst. left. now exists r.
    + destruct (nth_error (q_l q) i) as [d|] eqn:Hn; [|discriminate].
      intros H. inversion H; subst. right. exists (remove_nth i (q_l q)). cbn [q_set q_l].
      split; [reflexivity|]. split; [apply subseq_remove_nth|].
      intros d0 r0 Hin. apply in_app_or in Hin. destruct Hin as [Hin|Hin].
      * destruct r; cbn in Hin; try contradiction. destruct Hin as [Hin|[]]. discriminate.
      * destruct Hin as [Hin|[]]. inversion Hin; subst. eapply nth_error_In; eauto.
  - intros H. inversion H; subst. right. exists (q_l q). cbn [q_set q_l].
    split; [reflexivity|]. split; [apply subseq_refl|].
    intros d r [Hin|[]]. discriminate.
Qed.

(* C12_deadline: the element add_to_queue appends *)
Theorem add_to_queue_deadline cid m s_ ids s s' o q :
  aget cid (b_queues s) = Some q ->
  add_to_queue cid m s_ ids s = (s', o) ->
  let e := atq_elem m s_ ids s in
  e_at e = b_now s /\ e_tag e = b_tag s /\
  e_expiry e = deadline_of (b_now s) (eff_lifetime (c_message_expiry (b_cfg s)) (m_expiry m)) /\
  (exists m', e_body e = QPub m' /\ m_expiry m' = m_expiry m /\ m_dup m' = false /\ m_payload m' = m_payload m /\ m_topic m' = m_topic m) /\
  ((s' = s /\ o = []) \/
   exists q' evs, q_add (b_now s) e q = QOk (q', evs) /\ aget cid (b_queues s') = Some q' /\ o = drops_of cid evs /\
                  b_now s' = b_now s /\ b_cfg s' = b_cfg s /\
                  ((exists r, q' = q /\ evs = [EvDropped e r]) \/
                   (exists l0, q_l q' = l0 ++ [e] /\ subseq l0 (q_l q) /\ forall d r, In (EvDropped d r) evs -> In d (q_l q)))).
Proof.
  intros Hq H e. split; [reflexivity|]. split; [reflexivity|]. split; [reflexivity|].
  split. { exists (atq_msg m s_ ids). repeat split. }
  rewrite add_to_queue_eq, Hq in H.
  destruct (atq_skip cid m s). { inversion H. now left. }
  fold e in H. destruct (q_add (b_now s) e q) as [[q' evs]| | |] eqn:Ha; try (inversion H; now left).
  inversion H; subst s' o. right. exists q', evs. split; [reflexivity|].
  split. { rewrite release_dropped_queues. cbn [set_picks_tag set_queues b_queues]. apply xp_aget_aset_eq. }
  split; [reflexivity|]. split; [now rewrite release_dropped_now|]. split; [now rewrite release_dropped_cfg|].
  eapply q_add_shape; eauto.
Qed.

(* the three cases (and the fourth: nothing configured) *)
Corollary atq_deadline_publisher m s_ ids s :
  0 < m_expiry m -> c_message_expiry (b_cfg s) = 0 \/ m_expiry m <= c_message_expiry (b_cfg s) ->
  e_expiry (atq_elem m s_ ids s) = Some (b_now s + m_expiry m * 1000).
Proof. intros Hp H. cbn [atq_elem e_expiry]. rewrite eff_lifetime_publisher by assumption. now apply deadline_of_some. Qed.

Corollary atq_deadline_capped m s_ ids s :
  0 < c_message_expiry (b_cfg s) -> c_message_expiry (b_cfg s) < m_expiry m ->
  e_expiry (atq_elem m s_ ids s) = Some (b_now s + c_message_expiry (b_cfg s) * 1000).
Proof. intros Hc H. cbn [atq_elem e_expiry]. rewrite eff_lifetime_capped by assumption. now apply deadline_of_some. Qed.

Corollary atq_deadline_default m s_ ids s :
  m_expiry m = 0 -> 0 < c_message_expiry (b_cfg s) ->
  e_expiry (atq_elem m s_ ids s) = Some (b_now s + c_message_expiry (b_cfg s) * 1000).
Proof. intros Hp Hc. cbn [atq_elem e_expiry]. rewrite Hp, eff_lifetime_default. now apply deadline_of_some. Qed.

Corollary atq_deadline_none m s_ ids s :
  e_expiry (atq_elem m s_ ids s) = None <-> (m_expiry m = 0 /\ c_message_expiry (b_cfg s) = 0).
Proof. cbn [atq_elem e_expiry]. rewrite deadline_of_none, eff_lifetime_zero. tauto. Qed.

(* an element without deadline never expires *)
Lemma no_deadline_never_expired e : e_expiry e = None -> forall now, expired now e = false.
Proof. intros H now. unfold expired. now rewrite H. Qed.

(* --- the retained messages replayed to a new subscription --- *)
Definition rr_msg (sb : sub) (m : msg) : msg :=
  let qos := if s_qos sb <? m_qos m then s_qos sb else m_qos m in
  if s_id sb =? 0 then with_qos_etc m qos [] (m_retained m && s_rap sb)
  else with_qos_etc (as_dup m) qos [s_id sb] (m_retained m && s_rap sb).

(* the configured maximum is not applied, and the clock starts at the replay *)
Definition rr_elem (sb : sub) (m : msg) (s0 : st) : elem :=
  {| e_tag := b_tag s0; e_at := b_now s0; e_expiry := deadline_of (b_now s0) (m_expiry m); e_body := QPub (rr_msg sb m) |}.

Definition rr_step (cid : str) (sb : sub) (acc : st * list out) (m : msg) : st * list out :=
  let '(s0, o0) := acc in
  match aget cid (b_queues s0) with
  | None => (s0, o0)
  | Some q =>
      match q_add (b_now s0) (rr_elem sb m s0) q with
      | QOk (q', evs) =>
          (release_dropped cid evs (set_picks_tag (b_picks s0) (b_tag s0 + 1) (set_queues (aset cid q' (b_queues s0)) s0)),
           o0 ++ drops_of cid evs)
      | _ => (s0, o0)
      end
  end.

Lemma replay_retained_eq c k sb s :
  replay_retained c k sb s = fold_left (rr_step (k_cid k) sb) (rdb_matched (s_filter sb) (b_ret s)) (s, []).
Proof.
  unfold replay_retained. apply fold_left_ext'. intros [s0 o0] m. unfold rr_step.
  destruct (aget (k_cid k) (b_queues s0)) as [q|]; reflexivity.
Qed.

Theorem replay_step_deadline cid sb m s0 o0 s' o q :
  aget cid (b_queues s0) = Some q ->
  rr_step cid sb (s0, o0) m = (s', o) ->
  let e := rr_elem sb m s0 in
  e_at e = b_now s0 /\ e_tag e = b_tag s0 /\
  e_expiry e = (if m_expiry m =? 0 then None else Some (b_now s0 + m_expiry m * 1000)) /\
  (exists m', e_body e = QPub m' /\ m_expiry m' = m_expiry m /\ m_dup m' = false /\ m_payload m' = m_payload m /\ m_topic m' = m_topic m) /\
  ((s' = s0 /\ o = o0) \/
   exists q' evs, q_add (b_now s0) e q = QOk (q', evs) /\ aget cid (b_queues s') = Some q' /\ o = o0 ++ drops_of cid evs /\
                  b_now s' = b_now s0 /\ b_cfg s' = b_cfg s0 /\
                  ((exists r, q' = q /\ evs = [EvDropped e r]) \/
                   (exists l0, q_l q' = l0 ++ [e] /\ subseq l0 (q_l q) /\ forall d r, In (EvDropped d r) evs -> In d (q_l q)))).
Proof.
  intros Hq H e. split; [reflexivity|]. split; [reflexivity|]. split; [reflexivity|].
  split. { exists (rr_msg sb m). unfold e, rr_elem, rr_msg. cbn [e_body]. destruct (s_id sb =? 0); repeat split. }
  unfold rr_step in H. rewrite Hq in H. fold e in H.
  destruct (q_add (b_now s0) e q) as [[q' evs]| | |] eqn:Ha; try (inversion H; now left).
  inversion H; subst s' o. right. exists q', evs. split; [reflexivity|].
  split. { rewrite release_dropped_queues. cbn [set_picks_tag set_queues b_queues]. apply xp_aget_aset_eq. }
  split; [reflexivity|]. split; [now rewrite release_dropped_now|]. split; [now rewrite release_dropped_cfg|].
  eapply q_add_shape; eauto.
Qed.

Lemma rr_step_now cid sb acc m : b_now (fst (rr_step cid sb acc m)) = b_now (fst acc).
Proof.
  destruct acc as [s0 o0]. unfold rr_step. cbn [fst]. destruct (aget cid (b_queues s0)) as [q|]; [|reflexivity].
  destruct (q_add (b_now s0) (rr_elem sb m s0) q) as [[q' evs]| | |]; try reflexivity.
  cbn [fst]. now rewrite release_dropped_now.
Qed.

(* every replayed copy is stamped with the time of the SUBSCRIBE *)
Lemma replay_retained_now c k sb s : b_now (fst (replay_retained c k sb s)) = b_now s.
Proof.
  rewrite replay_retained_eq.
  assert (G : forall l acc, b_now (fst (fold_left (rr_step (k_cid k) sb) l acc)) = b_now (fst acc)).
  { induction l as [|m r IH]; intros acc; cbn [fold_left]; [reflexivity|]. now rewrite IH, rr_step_now. }
  apply G.
Qed.

(* ------------------------------------------------------------------ *)
(* 2. Read: the first transmission checks the deadline                 *)
(* ------------------------------------------------------------------ *)

Lemma skipn_nth_cons {A} (l : list A) : forall cur v, nth_error l cur = Some v -> skipn cur l = v :: skipn (S cur) l.
Proof.
  induction l as [|x r IH]; intros [|cur] v H; cbn in H; try discriminate.
  - inversion H; reflexivity.
  - cbn [skipn]. rewrite (IH cur v H). reflexivity.
Qed.

Lemma skipn_remove_nth {A} (l : list A) : forall cur, skipn cur (remove_nth cur l) = skipn (S cur) l.
Proof.
  induction l as [|x r IH]; intros [|cur]; try reflexivity.
  cbn [remove_nth]. change (skipn (S cur) (x :: remove_nth cur r)) with (skipn cur (remove_nth cur r)).
  rewrite IH. reflexivity.
Qed.

Lemma skipn_S_replace_nth {A} (y : A) (l : list A) : forall cur, skipn (S cur) (replace_nth cur y l) = skipn (S cur) l.
Proof.
  induction l as [|x r IH]; intros [|cur]; try reflexivity.
  cbn [replace_nth]. change (skipn (S (S cur)) (x :: replace_nth cur y r)) with (skipn (S cur) (replace_nth cur y r)).
  rewrite IH. reflexivity.
Qed.

Lemma skipn_nth_none {A} (l : list A) cur : nth_error l cur = None -> skipn cur l = [].
Proof. intros H. apply skipn_all2. now apply nth_error_None. Qed.

(* how a queued element v appears in the result of Read: unchanged (QoS 0), or with a packet id and,
   when an in-flight expiry is configured, with the in-flight deadline in place of its own *)
Definition sent_as (now ifexp : N) (v r : elem) : Prop :=
  r = v \/ exists p m, e_body v = QPub m /\ r = hand now ifexp p m v.

Lemma sent_as_at now ifexp v r : sent_as now ifexp v r -> e_at r = e_at v /\ e_tag r = e_tag v.
Proof.
  intros [->|(p & m & Hb & ->)]; [auto|]. unfold hand. destruct (ifexp =? 0); cbn; auto.
Qed.

Lemma sent_as_body now ifexp v r m : sent_as now ifexp v r -> e_body r = QPub m ->
  exists mv, e_body v = QPub mv /\ (m = mv \/ exists p, m = set_pid p mv).
Proof.
  intros [->|(p & m0 & Hb & ->)] Hr; [exists m; auto|].
  exists m0. split; [exact Hb|]. right. exists p.
  unfold hand in Hr. destruct (ifexp =? 0); cbn in Hr; congruence.
Qed.

Lemma sent_as_expiry now ifexp v r : sent_as now ifexp v r ->
  e_expiry r = e_expiry v \/ (ifexp <> 0 /\ e_expiry r = Some (now + ifexp)).
Proof.
  intros [->|(p & m & Hb & ->)]; [auto|]. unfold hand. destruct (ifexp =? 0) eqn:E; cbn; [auto|].
  right. split; [lia|reflexivity].
Qed.

Lemma not_expired_iff now e : expired now e = false <-> (e_expiry e = None \/ exists d, e_expiry e = Some d /\ now <= d).
Proof.
  unfold expired. destruct (e_expiry e) as [d|].
  - split.
    + intros H. right. exists d. split; [reflexivity|lia].
    + intros [H|(d' & H & Hle)]; [discriminate|]. inversion H; subst. lia.
  - split; auto.
Qed.

Lemma expired_iff now e : expired now e = true <-> exists d, e_expiry e = Some d /\ d < now.
Proof.
  unfold expired. destruct (e_expiry e) as [d|].
  - split.
    + intros H. exists d. split; [reflexivity|lia].
    + intros (d' & H & Hlt). inversion H; subst. lia.
  - split; [discriminate|]. intros (d & H & _). discriminate.
Qed.

(* the relation between the part of the queue Read starts on (suf, from the cursor on) with the events and
   results so far, and the same at the end *)
Record RL (now ifexp : N) (suf : list elem) (evs : list qev) (rs : list elem)
          (suf' : list elem) (evs' : list qev) (rs' : list elem) : Prop := {
  rl_sent : forall r, In r rs' -> In r rs \/ exists v, In v suf /\ expired now v = false /\ sent_as now ifexp v r;
  rl_drop : forall d rsn, In (EvDropped d rsn) evs' -> In (EvDropped d rsn) evs \/
              (In d suf /\ ((rsn = DExpired /\ expired now d = true) \/ (rsn = DExceedsMax /\ expired now d = false)));
  rl_all : forall v, In v suf ->
              In v suf' \/ (expired now v = true /\ In (EvDropped v DExpired) evs') \/
              (expired now v = false /\ (In (EvDropped v DExceedsMax) evs' \/ exists r, In r rs' /\ sent_as now ifexp v r));
  rl_evs_mono : forall x, In x evs -> In x evs';
  rl_rs_mono : forall x, In x rs -> In x rs' }.

Lemma RL_refl now ifexp suf evs rs : RL now ifexp suf evs rs suf evs rs.
Proof. constructor; auto. Qed.

Lemma RL_drop_expired now ifexp v suf evs rs suf' evs' rs' :
  expired now v = true ->
  RL now ifexp suf (evs ++ [EvDropped v DExpired]) rs suf' evs' rs' ->
  RL now ifexp (v :: suf) evs rs suf' evs' rs'.
Proof.
  intros Hx [H1 H2 H3 H4 H5]. constructor.
  - intros r Hr. destruct (H1 r Hr) as [Hin|(v0 & Hv0 & Hrest)]; [now left|]. right. exists v0. split; [now right|exact Hrest].
  - intros d rsn Hd. destruct (H2 d rsn Hd) as [Hin|(Hin & Hrest)].
    + apply in_app_or in Hin. destruct Hin as [Hin|[Hin|[]]]; [now left|]. inversion Hin; subst. right. split; [now left|]. left. auto.
    + right. split; [now right|exact Hrest].
  - intros v0 [->|Hin].
    + right. left. split; [exact Hx|]. apply H4. apply in_or_app. right. now left.
    + apply H3. exact Hin.
  - intros x Hin. apply H4. apply in_or_app. now left.
  - exact H5.
Qed.

Lemma RL_drop_big now ifexp v suf evs rs suf' evs' rs' :
  expired now v = false ->
  RL now ifexp suf (evs ++ [EvDropped v DExceedsMax]) rs suf' evs' rs' ->
  RL now ifexp (v :: suf) evs rs suf' evs' rs'.
Proof.
  intros Hx [H1 H2 H3 H4 H5]. constructor.
  - intros r Hr. destruct (H1 r Hr) as [Hin|(v0 & Hv0 & Hrest)]; [now left|]. right. exists v0. split; [now right|exact Hrest].
  - intros d rsn Hd. destruct (H2 d rsn Hd) as [Hin|(Hin & Hrest)].
    + apply in_app_or in Hin. destruct Hin as [Hin|[Hin|[]]]; [now left|]. inversion Hin; subst. right. split; [now left|]. right. auto.
    + right. split; [now right|exact Hrest].
  - intros v0 [->|Hin].
    + right. right. split; [exact Hx|]. left. apply H4. apply in_or_app. right. now left.
    + apply H3. exact Hin.
  - intros x Hin. apply H4. apply in_or_app. now left.
  - exact H5.
Qed.

Lemma RL_send now ifexp v r0 suf evs rs suf' evs' rs' :
  expired now v = false -> sent_as now ifexp v r0 ->
  RL now ifexp suf evs (rs ++ [r0]) suf' evs' rs' ->
  RL now ifexp (v :: suf) evs rs suf' evs' rs'.
Proof.
  intros Hx Hs [H1 H2 H3 H4 H5]. constructor.
  - intros r Hr. destruct (H1 r Hr) as [Hin|(v0 & Hv0 & Hrest)].
    + apply in_app_or in Hin. destruct Hin as [Hin|[Hin|[]]]; [now left|]. subst r0. right. exists v. split; [now left|]. auto.
    + right. exists v0. split; [now right|exact Hrest].
  - intros d rsn Hd. destruct (H2 d rsn Hd) as [Hin|(Hin & Hrest)]; [now left|]. right. split; [now right|exact Hrest].
  - intros v0 [->|Hin].
    + right. right. split; [exact Hx|]. right. exists r0. split; [|exact Hs]. apply H5. apply in_or_app. right. now left.
    + apply H3. exact Hin.
  - exact H4.
  - intros x Hin. apply H5. apply in_or_app. now left.
Qed.

Lemma read_loop_expiry now limit v5 ifexp : forall n pids l cur dq di evs rs l' cur' dq' di' evs' rs',
  read_loop now n pids l cur limit v5 ifexp dq di evs rs = Some (l', cur', dq', di', evs', rs') ->
  RL now ifexp (skipn cur l) evs rs (skipn cur' l') evs' rs'.
Proof.
  induction n as [|k IH]; intros pids l cur dq di evs rs l' cur' dq' di' evs' rs' H; cbn [read_loop] in H.
  - inversion H; subst. apply RL_refl.
  - destruct (nth_error l cur) as [v|] eqn:Hn.
    2:{ inversion H; subst. apply RL_refl. }
    rewrite (skipn_nth_cons l cur v Hn).
    destruct (expired now v) eqn:Hx.
    { apply IH in H. rewrite skipn_remove_nth in H. now apply RL_drop_expired. }
    destruct (e_body v) as [m|p] eqn:Hb; [|discriminate].
    destruct (limit <? msg_total_bytes v5 m) eqn:Hlim.
    { apply IH in H. rewrite skipn_remove_nth in H. now apply RL_drop_big. }
    destruct (m_qos m =? 0) eqn:Hq.
    { apply IH in H. rewrite skipn_remove_nth in H. eapply RL_send; [exact Hx| |exact H]. now left. }
    destruct pids as [|p pids']; [discriminate|].
    apply IH in H. rewrite skipn_S_replace_nth in H. eapply RL_send; [exact Hx| |exact H].
    right. exists p, m. split; [exact Hb|]. unfold hand. destruct (ifexp =? 0); reflexivity.
Qed.

(* with an id for every element the walk reaches the end of the queue *)
Lemma read_loop_all now limit v5 ifexp : forall n pids l cur dq di evs rs l' cur' dq' di' evs' rs',
  read_loop now n pids l cur limit v5 ifexp dq di evs rs = Some (l', cur', dq', di', evs', rs') ->
  (length (skipn cur l) <= n)%nat -> skipn cur' l' = [].
Proof.
  induction n as [|k IH]; intros pids l cur dq di evs rs l' cur' dq' di' evs' rs' H Hlen; cbn [read_loop] in H.
  - inversion H; subst. destruct (skipn cur' l'); [reflexivity|cbn in Hlen; lia].
  - destruct (nth_error l cur) as [v|] eqn:Hn.
    2:{ inversion H; subst. now apply skipn_nth_none. }
    rewrite (skipn_nth_cons l cur v Hn) in Hlen. cbn [length] in Hlen.
    destruct (expired now v) eqn:Hx.
    { apply IH in H; [exact H|]. rewrite skipn_remove_nth. lia. }
    destruct (e_body v) as [m|p] eqn:Hb; [|discriminate].
    destruct (limit <? msg_total_bytes v5 m) eqn:Hlim.
    { apply IH in H; [exact H|]. rewrite skipn_remove_nth. lia. }
    destruct (m_qos m =? 0) eqn:Hq.
    { apply IH in H; [exact H|]. rewrite skipn_remove_nth. lia. }
    destruct pids as [|p pids']; [discriminate|].
    apply IH in H; [exact H|]. rewrite skipn_S_replace_nth. lia.
Qed.

Lemma in_evs_tail d rsn evs dq di : In (EvDropped d rsn) (evs ++ [EvQueue dq; EvInflight di]) <-> In (EvDropped d rsn) evs.
Proof.
  split.
  - intros H. apply in_app_or in H. destruct H as [H|[H|[H|[]]]]; [exact H|discriminate|discriminate].
  - intros H. apply in_or_app. now left.
Qed.

(* the queued part of a queue: from the cursor on *)
Definition q_queued (q : queue) : list elem := skipn (q_cur q) (q_l q).

(* q_read, concretely *)
Theorem q_read_expiry now ids q q' rs evs :
  q_read now ids q = QOk (q', rs, evs) ->
  (* what is handed out had not expired at `now` *)
  (forall r, In r rs -> exists v, In v (q_queued q) /\ expired now v = false /\ sent_as now (q_ifexp q) v r) /\
  (* the drops that are reported are elements of the queue: expired ones, and unexpired ones that are too big *)
  (forall d rsn, In (EvDropped d rsn) evs ->
     In d (q_queued q) /\ ((rsn = DExpired /\ expired now d = true) \/ (rsn = DExceedsMax /\ expired now d = false))) /\
  (* every queued element is still queued (not reached), or reported expired, or - unexpired - too big or handed out *)
  (forall v, In v (q_queued q) ->
     In v (q_queued q') \/ (expired now v = true /\ In (EvDropped v DExpired) evs) \/
     (expired now v = false /\ (In (EvDropped v DExceedsMax) evs \/ exists r, In r rs /\ sent_as now (q_ifexp q) v r))) /\
  (* and with enough ids nothing is left unreached *)
  ((length (q_queued q) <= length ids)%nat -> q_queued q' = []).
Proof.
  unfold q_read, q_queued. destruct (negb (q_drained q)); [discriminate|]. destruct (q_closed q); [discriminate|].
  destruct (q_cur q =? length (q_l q))%nat; [discriminate|].
  destruct (read_loop now (Nat.min (length (q_l q)) (length ids)) ids (q_l q) (q_cur q) (q_limit q) (q_v5 q) (q_ifexp q) 0 0 [] [])
    as [[[[[[l cur] dq] di] evs0] rs0]|] eqn:Hr; [|discriminate].
  intros H. inversion H; subst q' rs evs. cbn [q_set q_l q_cur].
  pose proof (read_loop_expiry _ _ _ _ _ _ _ _ _ _ _ _ _ _ _ _ _ _ Hr) as [H1 H2 H3 H4 H5].
  split; [|split; [|split]].
  - intros r Hin. destruct (H1 r Hin) as [[]|Hv]. exact Hv.
  - intros d rsn Hin. apply in_evs_tail in Hin. destruct (H2 d rsn Hin) as [[]|Hv]. exact Hv.
  - intros v Hin. destruct (H3 v Hin) as [Hv|[(Hx & Hv)|(Hx & [Hv|Hv])]].
    + now left.
    + right. left. split; [exact Hx|]. now apply in_evs_tail.
    + right. right. split; [exact Hx|]. left. now apply in_evs_tail.
    + right. right. split; [exact Hx|]. now right.
  - intros Hlen. eapply read_loop_all; [exact Hr|].
    pose proof (skipn_length (q_cur q) (q_l q)) as Hsl. rewrite Hsl in *. lia.
Qed.

(* C12_never_first_sent_after_deadline.  `expired now e` is `deadline < now`: an element is handed out as
   long as now <= deadline, the instant of the deadline included *)
Theorem q_read_never_after_deadline now ids q q' rs evs :
  q_read now ids q = QOk (q', rs, evs) ->
  (forall r, In r rs ->
     (* the deadline of the handed-out copy (the in-flight deadline, when one is configured) ... *)
     (e_expiry r = None \/ exists d, e_expiry r = Some d /\ now <= d) /\
     (* ... and the deadline the element was queued with *)
     exists v, In v (q_queued q) /\ sent_as now (q_ifexp q) v r /\
               (e_expiry v = None \/ exists d, e_expiry v = Some d /\ now <= d)) /\
  (* a queued element whose deadline has passed is reported, unless the walk stopped before it *)
  (forall v d, In v (q_queued q) -> e_expiry v = Some d -> d < now ->
     In (EvDropped v DExpired) evs \/ In v (q_queued q')) /\
  (* it is not left behind when there are enough ids *)
  ((length (q_queued q) <= length ids)%nat ->
   forall v d, In v (q_queued q) -> e_expiry v = Some d -> d < now -> In (EvDropped v DExpired) evs) /\
  (* and only such elements are reported as expired *)
  (forall v, In (EvDropped v DExpired) evs -> In v (q_queued q) /\ exists d, e_expiry v = Some d /\ d < now).
Proof.
  intros H. destruct (q_read_expiry _ _ _ _ _ _ H) as (H1 & H2 & H3 & H4).
  assert (G : forall v d, In v (q_queued q) -> e_expiry v = Some d -> d < now ->
                          In (EvDropped v DExpired) evs \/ In v (q_queued q')).
  { intros v d Hv He Hd.
    assert (Hx : expired now v = true) by (apply expired_iff; eauto).
    destruct (H3 v Hv) as [Hq|[(_ & Hdrop)|(Hx' & _)]]; [now right|now left|congruence]. }
  split; [|split; [exact G|split]].
  - intros r Hin. destruct (H1 r Hin) as (v & Hv & Hx & Hs). split.
    + destruct (sent_as_expiry _ _ _ _ Hs) as [He|[Hne He]].
      * rewrite He. now apply not_expired_iff.
      * right. exists (now + q_ifexp q). split; [exact He|lia].
    + exists v. split; [exact Hv|]. split; [exact Hs|]. now apply not_expired_iff.
  - intros Hlen v d Hv He Hd. destruct (G v d Hv He Hd) as [Hdrop|Hq]; [exact Hdrop|].
    rewrite (H4 Hlen) in Hq. destruct Hq.
  - intros v Hin. destruct (H2 v DExpired Hin) as (Hv & [(_ & Hx)|(Hne & _)]); [|discriminate].
    split; [exact Hv|]. now apply expired_iff.
Qed.

(* the boundary: at the instant of the deadline the element is still handed out; one millisecond later it is dropped *)
Definition xq_elem (d : N) : elem :=
  {| e_tag := 1; e_at := 0; e_expiry := Some d; e_body := QPub (xm 0) |}.
Definition xq_queue (d : N) : queue := q_set [xq_elem d] 0 true (q_init true true 1000 (q_new 10 0)).

Example q_read_at_deadline :
  q_read 5000 [1] (xq_queue 5000) = QOk (q_set [] 0 true (xq_queue 5000), [xq_elem 5000], [EvQueue (-1); EvInflight 0]) /\
  q_read 5001 [1] (xq_queue 5000) = QOk (q_set [] 0 true (xq_queue 5000), [], [EvDropped (xq_elem 5000) DExpired; EvQueue (-1); EvInflight 0]).
Proof. vm_compute. split; reflexivity. Qed.

(* ------------------------------------------------------------------ *)
(* 3. the poll loop: what is sent for the first time                   *)
(* ------------------------------------------------------------------ *)

Lemma p_msgexpiry_app a b : p_msgexpiry (a ++ b) = match p_msgexpiry a with Some x => Some x | None => p_msgexpiry b end.
Proof. induction a as [|x r IH]; [reflexivity|]. destruct x; cbn [app p_msgexpiry]; auto. Qed.

Lemma p_msgexpiry_subids l : p_msgexpiry (map PSubId l) = None.
Proof. induction l; cbn; auto. Qed.

Lemma p_msgexpiry_users (l : list (str * str)) : p_msgexpiry (map (fun kv => PUser (fst kv) (snd kv)) l) = None.
Proof. induction l; cbn; auto. Qed.

(* the Message Expiry Interval property of an outgoing PUBLISH *)
Lemma msg_props_expiry v5 m :
  p_msgexpiry (msg_props v5 m) = if v5 && negb (m_expiry m =? 0) then Some (m_expiry m) else None.
Proof.
  unfold msg_props. destruct v5; [|reflexivity]. cbn [andb].
  rewrite p_msgexpiry_app. destruct (m_pfmt m =? 1); cbn [p_msgexpiry].
  all: rewrite p_msgexpiry_app; destruct (m_expiry m =? 0); cbn [p_msgexpiry negb]; try reflexivity.
  all: rewrite p_msgexpiry_app; destruct (m_ctype m); cbn [p_msgexpiry].
  all: rewrite p_msgexpiry_app; destruct (m_resp m); cbn [p_msgexpiry].
  all: rewrite p_msgexpiry_app; destruct (m_corr m); cbn [p_msgexpiry].
  all: rewrite p_msgexpiry_app, p_msgexpiry_subids, p_msgexpiry_users; reflexivity.
Qed.

Lemma write_publish_v c k m : k_v (fst (write_publish c k m)) = k_v k.
Proof.
  unfold write_publish.
  destruct ((k_v k =? 5) && (0 <? k_client_alias_max k) && (msg_total_bytes true m + 5 <=? k_client_max_packet k)); [|reflexivity].
  destruct (am_check (m_topic m) (k_alias_out k)) as [am' [a ex|]]; reflexivity.
Qed.

(* what writeLoop writes for message m: at most one PUBLISH, which carries the fields of m; the Topic Alias
   machinery touches the topic name and adds a Topic Alias property, nothing else *)
Lemma write_publish_out c k m x : In x (snd (write_publish c k m)) ->
  exists t props, x = OSend c (KPublish (m_dup m) (m_qos m) (m_retained m) t (m_payload m) (m_pid m) props) /\
    (t = m_topic m \/ t = []) /\
    p_msgexpiry props = if (k_v k =? 5) && negb (m_expiry m =? 0) then Some (m_expiry m) else None.
Proof.
  unfold write_publish.
  destruct ((k_v k =? 5) && (0 <? k_client_alias_max k) && (msg_total_bytes true m + 5 <=? k_client_max_packet k)) eqn:Hc.
  - apply andb_true_iff in Hc. destruct Hc as [Hc _]. apply andb_true_iff in Hc. destruct Hc as [Hv _]. rewrite Hv.
    destruct (am_check (m_topic m) (k_alias_out k)) as [am' [a ex|]]; cbn [snd]; [|intros []].
    intros [<-|[]]. do 2 eexists. split; [reflexivity|]. split; [destruct ex; auto|].
    rewrite p_msgexpiry_app, msg_props_expiry. cbn [andb].
    destruct (negb (m_expiry m =? 0)); [reflexivity|]. destruct (a =? 0); reflexivity.
  - cbn [snd]. intros [<-|[]]. do 2 eexists. split; [reflexivity|]. split; [auto|]. apply msg_props_expiry.
Qed.

(* the fields of the aged copy *)
Lemma aged_fields v5 now e m :
  m_dup (aged v5 now e m) = m_dup m /\ m_qos (aged v5 now e m) = m_qos m /\ m_retained (aged v5 now e m) = m_retained m /\
  m_topic (aged v5 now e m) = m_topic m /\ m_payload (aged v5 now e m) = m_payload m /\ m_pid (aged v5 now e m) = m_pid m.
Proof. unfold aged. destruct (v5 && negb (m_expiry m =? 0)); cbn; repeat split. Qed.

Lemma aged_expiry v5 now e m :
  m_expiry (aged v5 now e m) =
  if v5 && negb (m_expiry m =? 0) then remaining (m_expiry m) ((now - e_at e) / 1000) else m_expiry m.
Proof. unfold aged. destruct (v5 && negb (m_expiry m =? 0)); reflexivity. Qed.

Lemma aged_at v5 now e e' m : e_at e = e_at e' -> aged v5 now e m = aged v5 now e' m.
Proof. unfold aged. now intros ->. Qed.

(* the interval written on the wire for the aged copy *)
Lemma aged_wire_expiry v5 now e m :
  (if v5 && negb (m_expiry (aged v5 now e m) =? 0) then Some (m_expiry (aged v5 now e m)) else None) =
  (if v5 && negb (m_expiry m =? 0) then Some (remaining (m_expiry m) ((now - e_at e) / 1000)) else None).
Proof.
  rewrite aged_expiry. destruct v5; [|reflexivity]. cbn [andb].
  destruct (m_expiry m =? 0) eqn:E; cbn [negb]; [now rewrite E|].
  assert (H : 0 < m_expiry m) by lia.
  pose proof (remaining_bounds (m_expiry m) ((now - e_at e) / 1000) H) as Hb.
  destruct (remaining (m_expiry m) ((now - e_at e) / 1000) =? 0) eqn:E2; [lia|reflexivity].
Qed.

(* the two folds of the sending branch of poll_once *)
Definition send_step (c : N) (acc : conn * list out) (e : elem) : conn * list out :=
  let '(k0, o0) := acc in
  match e_body e with
  | QPub m => let '(k1, o1) := write_publish c k0 m in (k1, o0 ++ o1)
  | QRel _ => (k0, o0)
  end.

Definition age_elem (v5 : bool) (now : N) (e : elem) : elem :=
  match e_body e with
  | QPub m => with_body (QPub (aged v5 now e m)) e
  | QRel _ => e
  end.

Lemma send_fold_out c : forall l k0 o0 x, In x (snd (fold_left (send_step c) l (k0, o0))) ->
  In x o0 \/ exists e m k1, In e l /\ e_body e = QPub m /\ k_v k1 = k_v k0 /\ In x (snd (write_publish c k1 m)).
Proof.
  induction l as [|e r IH]; intros k0 o0 x H; cbn [fold_left] in H; [now left|].
  unfold send_step at 2 in H. destruct (e_body e) as [m|p] eqn:Hb.
  - destruct (write_publish c k0 m) as [k1 o1] eqn:Hw.
    apply IH in H. destruct H as [H|(e' & m' & k2 & Hin & Hb' & Hv & Hx)].
    + apply in_app_or in H. destruct H as [H|H]; [now left|].
      right. exists e, m, k0. split; [now left|]. split; [exact Hb|]. split; [reflexivity|]. now rewrite Hw.
    + right. exists e', m', k2. split; [now right|]. split; [exact Hb'|]. split; [|exact Hx].
      rewrite Hv. replace k1 with (fst (write_publish c k0 m)) by now rewrite Hw. apply write_publish_v.
  - apply IH in H. destruct H as [H|(e' & m' & k2 & Hin & Hb' & Hv & Hx)]; [now left|].
    right. exists e', m', k2. split; [now right|]. auto.
Qed.

Lemma drops_of_in cid evs x : In x (drops_of cid evs) ->
  exists d m r, In (EvDropped d r) evs /\ e_body d = QPub m /\ x = ODropped cid m r.
Proof.
  unfold drops_of. intros H. apply in_flat_map in H. destruct H as (ev & Hin & Hx).
  destruct ev as [d r|z|z]; try destruct Hx. destruct (e_body d) as [m|p] eqn:Hb; [|destruct Hx].
  destruct Hx as [<-|[]]. exists d, m, r. auto.
Qed.

Lemma in_drops_of cid evs d m r : In (EvDropped d r) evs -> e_body d = QPub m -> In (ODropped cid m r) (drops_of cid evs).
Proof.
  intros Hin Hb. unfold drops_of. apply in_flat_map. exists (EvDropped d r). split; [exact Hin|]. rewrite Hb. now left.
Qed.

(* the sending branch of poll_once (the replay is over, the loop holds packet ids), with its parts named *)
Lemma poll_once_send c s k q ids s' o :
  nget c (b_conns s) = Some k -> aget (k_cid k) (b_queues s) = Some q ->
  k_drained k = true -> k_held k = Some ids ->
  poll_once c s = Some (s', o) ->
  exists q' rs evs k0,
    q_read (b_now s) ids q = QOk (q', rs, evs) /\ k_v k0 = k_v k /\
    o = drops_of (k_cid k) evs ++ snd (fold_left (send_step c) (map (age_elem (k_v k =? 5) (b_now s)) rs) (k0, [])) /\
    aget (k_cid k) (b_queues s') = Some q' /\ b_now s' = b_now s.
Proof.
  intros Hk Hq Hdr Hh H. unfold poll_once in H. rewrite Hk, Hq, Hdr, Hh in H. cbn [negb] in H.
  assert (G : match q_read (b_now s) ids q with
              | QOk (q', rs, evs) =>
                  let used := length (filter (fun e => match e_body e with QPub m => negb (m_qos m =? 0) | QRel _ => false end) rs) in
                  let l' := lim_batch_release (skipn used ids) (k_lim k) in
                  let '(k', o) := fold_left (send_step c) (map (age_elem (k_v k =? 5) (b_now s)) rs) (set_lim_held l' None true k, []) in
                  Some (upd_conn c k' (set_queues (aset (k_cid k) q' (b_queues s)) s), drops_of (k_cid k) evs ++ o)
              | _ => None
              end = Some (s', o)).
  { destruct (k_phase k); try discriminate; exact H. }
  clear H. destruct (q_read (b_now s) ids q) as [[[q' rs] evs]| | |]; try discriminate. cbv zeta in G.
  match type of G with context [fold_left _ _ (?k0, [])] => set (k0_ := k0) in * end.
  destruct (fold_left (send_step c) (map (age_elem (k_v k =? 5) (b_now s)) rs) (k0_, [])) as [k' o'] eqn:Hf.
  inversion G; subst s' o. exists q', rs, evs, k0_. split; [reflexivity|]. split; [reflexivity|].
  split; [now rewrite Hf|]. split; [|reflexivity].
  cbn [upd_conn set_queues b_queues]. apply xp_aget_aset_eq.
Qed.

(* C12_poll_first_send.  Every PUBLISH of that turn of the poll loop is the copy of a queued element whose
   deadline has not passed (now <= deadline), with the fields of the stored message; for a v5 subscriber and a message
   with an interval, the property is the interval minus the whole seconds the element waited (at least 1);
   otherwise there is no such property *)
Theorem poll_first_send c s k q ids s' o :
  nget c (b_conns s) = Some k -> aget (k_cid k) (b_queues s) = Some q ->
  k_drained k = true -> k_held k = Some ids ->
  poll_once c s = Some (s', o) ->
  forall c' dup qos ret t pl pid props, In (OSend c' (KPublish dup qos ret t pl pid props)) o ->
  exists v mv, In v (q_queued q) /\ e_body v = QPub mv /\
    expired (b_now s) v = false /\ (e_expiry v = None \/ exists d, e_expiry v = Some d /\ b_now s <= d) /\
    c' = c /\ dup = m_dup mv /\ qos = m_qos mv /\ ret = m_retained mv /\ pl = m_payload mv /\ (t = m_topic mv \/ t = []) /\
    p_msgexpiry props =
      if (k_v k =? 5) && negb (m_expiry mv =? 0)
      then Some (remaining (m_expiry mv) ((b_now s - e_at v) / 1000)) else None.
Proof.
  intros Hk Hq Hdr Hh H c' dup qos ret t pl pid props Hin.
  destruct (poll_once_send _ _ _ _ _ _ _ Hk Hq Hdr Hh H) as (q' & rs & evs & k0 & Hr & Hv0 & -> & _ & _).
  apply in_app_or in Hin. destruct Hin as [Hin|Hin].
  { apply drops_of_in in Hin. destruct Hin as (d & m & r & _ & _ & Hx). discriminate. }
  apply send_fold_out in Hin. destruct Hin as [[]|(e & m & k1 & He & Hb & Hv1 & Hx)].
  apply in_map_iff in He. destruct He as (r & <- & Hr_in).
  apply write_publish_out in Hx. destruct Hx as (t0 & props0 & Hx & Ht & Hp). inversion Hx; subst; clear Hx.
  destruct (q_read_expiry _ _ _ _ _ _ Hr) as (H1 & _).
  destruct (H1 r Hr_in) as (v & Hv & Hx & Hs).
  unfold age_elem in Hb. destruct (e_body r) as [m0|p0] eqn:Hbr; [|rewrite Hbr in Hb; discriminate].
  cbn [with_body e_body] in Hb. inversion Hb; subst m; clear Hb.
  destruct (sent_as_body _ _ _ _ _ Hs Hbr) as (mv & Hbv & Hm0).
  destruct (sent_as_at _ _ _ _ Hs) as [Hat _].
  exists v, mv. split; [exact Hv|]. split; [exact Hbv|]. split; [exact Hx|]. split; [now apply not_expired_iff|].
  split; [reflexivity|].
  destruct (aged_fields (k_v k =? 5) (b_now s) r m0) as (F1 & F2 & F3 & F4 & F5 & F6).
  assert (Hf : m_dup m0 = m_dup mv /\ m_qos m0 = m_qos mv /\ m_retained m0 = m_retained mv /\ m_payload m0 = m_payload mv /\
               m_topic m0 = m_topic mv /\ m_expiry m0 = m_expiry mv).
  { destruct Hm0 as [->|(p & ->)]; repeat split. }
  destruct Hf as (G1 & G2 & G3 & G4 & G5 & G6).
  rewrite F1, F2, F3, F5, G1, G2, G3, G4. repeat (split; [reflexivity|]).
  split. { rewrite F4, G5 in Ht. exact Ht. }
  rewrite Hp, Hv1, Hv0, aged_wire_expiry, G6, Hat. reflexivity.
Qed.

(* the same with the value of BrokerBasicP: as long as the whole seconds waited are fewer than the interval, the
   subscriber is told interval - waited *)
Corollary poll_first_send_v5_value c s k q ids s' o :
  nget c (b_conns s) = Some k -> aget (k_cid k) (b_queues s) = Some q ->
  k_drained k = true -> k_held k = Some ids -> k_v k = 5 ->
  poll_once c s = Some (s', o) ->
  forall c' dup qos ret t pl pid props, In (OSend c' (KPublish dup qos ret t pl pid props)) o ->
  exists v mv, In v (q_queued q) /\ e_body v = QPub mv /\ expired (b_now s) v = false /\ pl = m_payload mv /\
    (m_expiry mv = 0 -> p_msgexpiry props = None) /\
    (0 < m_expiry mv -> p_msgexpiry props = Some (m_expiry (aged true (b_now s) v mv)) /\
                        1 <= m_expiry (aged true (b_now s) v mv) <= m_expiry mv) /\
    (0 < m_expiry mv -> (b_now s - e_at v) / 1000 < m_expiry mv ->
       p_msgexpiry props = Some (m_expiry mv - (b_now s - e_at v) / 1000)).
Proof.
  intros Hk Hq Hdr Hh Hv5 H c' dup qos ret t pl pid props Hin.
  destruct (poll_first_send _ _ _ _ _ _ _ Hk Hq Hdr Hh H _ _ _ _ _ _ _ _ Hin)
    as (v & mv & Hv & Hb & Hx & _ & _ & _ & _ & _ & Hpl & _ & Hp).
  exists v, mv. split; [exact Hv|]. split; [exact Hb|]. split; [exact Hx|]. split; [exact Hpl|].
  rewrite Hv5 in Hp. change (5 =? 5) with true in Hp. cbn [andb] in Hp.
  split; [|split].
  - intros H0. rewrite H0 in Hp. exact Hp.
  - intros H0. split; [|now apply aged_v5_bounds].
    rewrite Hp, aged_expiry. cbn [andb]. destruct (m_expiry mv =? 0) eqn:E; [lia|reflexivity].
  - intros H0 Hw. rewrite Hp. destruct (m_expiry mv =? 0) eqn:E; [lia|]. cbn [negb].
    now rewrite remaining_exact.
Qed.

(* a v3 subscriber is never given the property *)
Corollary poll_first_send_v3 c s k q ids s' o :
  nget c (b_conns s) = Some k -> aget (k_cid k) (b_queues s) = Some q ->
  k_drained k = true -> k_held k = Some ids -> k_v k <> 5 ->
  poll_once c s = Some (s', o) ->
  forall c' dup qos ret t pl pid props, In (OSend c' (KPublish dup qos ret t pl pid props)) o -> p_msgexpiry props = None.
Proof.
  intros Hk Hq Hdr Hh Hv H c' dup qos ret t pl pid props Hin.
  destruct (poll_first_send _ _ _ _ _ _ _ Hk Hq Hdr Hh H _ _ _ _ _ _ _ _ Hin)
    as (v & mv & _ & _ & _ & _ & _ & _ & _ & _ & _ & _ & Hp).
  apply N.eqb_neq in Hv. rewrite Hv in Hp. exact Hp.
Qed.

(* the drops of that turn: every queued element whose deadline has passed is reported (DExpired) or was not
   reached; what is reported as expired had expired *)
Theorem poll_expired_reported c s k q ids s' o :
  nget c (b_conns s) = Some k -> aget (k_cid k) (b_queues s) = Some q ->
  k_drained k = true -> k_held k = Some ids ->
  poll_once c s = Some (s', o) ->
  exists q', aget (k_cid k) (b_queues s') = Some q' /\
  (forall v d m, In v (q_queued q) -> e_expiry v = Some d -> d < b_now s -> e_body v = QPub m ->
     In (ODropped (k_cid k) m DExpired) o \/ In v (q_queued q')) /\
  ((length (q_queued q) <= length ids)%nat ->
   forall v d m, In v (q_queued q) -> e_expiry v = Some d -> d < b_now s -> e_body v = QPub m ->
     In (ODropped (k_cid k) m DExpired) o) /\
  (forall cid m, In (ODropped cid m DExpired) o ->
     cid = k_cid k /\ exists v d, In v (q_queued q) /\ e_body v = QPub m /\ e_expiry v = Some d /\ d < b_now s).
Proof.
  intros Hk Hq Hdr Hh H.
  destruct (poll_once_send _ _ _ _ _ _ _ Hk Hq Hdr Hh H) as (q' & rs & evs & k0 & Hr & Hv0 & -> & Hq' & _).
  exists q'. split; [exact Hq'|].
  destruct (q_read_never_after_deadline _ _ _ _ _ _ Hr) as (_ & H2 & H3 & H4).
  split; [|split].
  - intros v d m Hv He Hd Hb. destruct (H2 v d Hv He Hd) as [Hdrop|Hrest]; [|now right].
    left. apply in_or_app. left. eapply in_drops_of; eauto.
  - intros Hlen v d m Hv He Hd Hb. apply in_or_app. left. eapply in_drops_of; eauto.
  - intros cid m Hin. apply in_app_or in Hin. destruct Hin as [Hin|Hin].
    + apply drops_of_in in Hin. destruct Hin as (d & m' & r & Hev & Hb & Hx). inversion Hx; subst.
      split; [reflexivity|]. destruct (H4 d Hev) as (Hv & dl & He & Hlt). exists d, dl. auto.
    + apply send_fold_out in Hin. destruct Hin as [[]|(e & m' & k1 & _ & _ & _ & Hx)].
      apply write_publish_out in Hx. destruct Hx as (t0 & props0 & Hx & _). discriminate.
Qed.

(* for the elements add_to_queue makes: not expired = at most the lifetime L has been waited; the property
   forwarded is computed from the PUBLISHER's interval (which the configured maximum may have cut short) *)
Lemma not_expired_waited now v L : e_expiry v = Some (e_at v + L * 1000) -> expired now v = false -> (now - e_at v) / 1000 <= L.
Proof.
  intros He Hx. apply not_expired_iff in Hx. destruct Hx as [Hx|(d & Hd & Hle)]; [congruence|].
  rewrite He in Hd. inversion Hd; subst d.
  assert (Hl : now - e_at v <= L * 1000) by lia.
  apply N.div_le_upper_bound; lia.
Qed.

Lemma before_deadline_waited now v L : 0 < L -> now < e_at v + L * 1000 -> (now - e_at v) / 1000 < L.
Proof. intros H0 H. apply N.div_lt_upper_bound; lia. Qed.

(* the interval forwarded for an element add_to_queue made (deadline = e_at + lifetime, lifetime =
   eff_lifetime ce p with p the publisher's interval): p minus the whole seconds waited, exactly, whenever the
   deadline has not been reached; at the instant of the deadline of an uncapped message it is 1 *)
Lemma atq_forwarded_interval now v ce p :
  0 < p -> e_expiry v = deadline_of (e_at v) (eff_lifetime ce p) -> expired now v = false ->
  let waited := (now - e_at v) / 1000 in
  waited <= eff_lifetime ce p <= p /\
  (now < e_at v + eff_lifetime ce p * 1000 -> remaining p waited = p - waited /\ 1 <= p - waited) /\
  (0 < ce -> ce < p -> remaining p waited = p - waited /\ p - ce <= p - waited).
Proof.
  intros Hp He Hx waited.
  assert (HL : 0 < eff_lifetime ce p).
  { destruct (N.eq_dec (eff_lifetime ce p) 0) as [E|E]; [apply eff_lifetime_zero in E; lia|lia]. }
  rewrite deadline_of_some in He by exact HL.
  pose proof (not_expired_waited now v _ He Hx) as Hw. fold waited in Hw.
  destruct (eff_lifetime_le ce p) as [H1 H2]. specialize (H1 Hp).
  split; [lia|]. split.
  - intros Hlt. pose proof (before_deadline_waited now v _ HL Hlt) as Hw'. fold waited in Hw'.
    rewrite remaining_exact by lia. lia.
  - intros Hc Hcp. rewrite (eff_lifetime_capped ce p Hc Hcp) in *. rewrite remaining_exact by lia. lia.
Qed.

(* --- every turn of the poll loop, every connection: a PUBLISH with DUP=0 is a first transmission --- *)

Definition replay_step (c now : N) (acc : conn * list out) (e : elem) : conn * list out :=
  let '(k0, o0) := acc in
  match e_body e with
  | QPub m =>
      let k1 := set_lim_held (lim_mark (m_pid m) (k_lim k0)) (k_held k0) (k_drained k0) k0 in
      let '(k2, o2) := write_publish c k1 (aged (k_v k0 =? 5) now e (as_dup m)) in (k2, o0 ++ o2)
  | QRel p => (set_lim_held (lim_mark p (k_lim k0)) (k_held k0) (k_drained k0) k0, o0 ++ [OSend c (KPubrel p 0 [])])
  end.

(* the replay writes PUBRELs and PUBLISHes with DUP=1 only *)
Lemma replay_fold_out c now : forall l k0 o0 x, In x (snd (fold_left (replay_step c now) l (k0, o0))) ->
  In x o0 \/ (exists p, x = OSend c (KPubrel p 0 [])) \/
  exists qos ret t pl pid props, x = OSend c (KPublish true qos ret t pl pid props).
Proof.
  induction l as [|e r IH]; intros k0 o0 x H; cbn [fold_left] in H; [now left|].
  unfold replay_step at 2 in H. destruct (e_body e) as [m|p] eqn:Hb.
  - cbv zeta in H.
    destruct (write_publish c (set_lim_held (lim_mark (m_pid m) (k_lim k0)) (k_held k0) (k_drained k0) k0)
                            (aged (k_v k0 =? 5) now e (as_dup m))) as [k2 o2] eqn:Hw.
    apply IH in H. destruct H as [H|H]; [|now right].
    apply in_app_or in H. destruct H as [H|H]; [now left|]. right. right.
    replace o2 with (snd (write_publish c (set_lim_held (lim_mark (m_pid m) (k_lim k0)) (k_held k0) (k_drained k0) k0)
                                        (aged (k_v k0 =? 5) now e (as_dup m)))) in H by now rewrite Hw.
    apply write_publish_out in H. destruct H as (t & props & -> & _ & _).
    destruct (aged_fields (k_v k0 =? 5) now e (as_dup m)) as (F1 & _). rewrite F1. cbn [as_dup m_dup].
    now do 6 eexists.
  - apply IH in H. destruct H as [H|H]; [|now right].
    apply in_app_or in H. destruct H as [H|[<-|[]]]; [now left|]. right. left. now exists p.
Qed.

(* one turn of the poll loop does not move the clock, and a PUBLISH with DUP=0 comes from its sending branch *)
Lemma poll_once_cases c s s' o :
  poll_once c s = Some (s', o) ->
  b_now s' = b_now s /\
  exists k q, nget c (b_conns s) = Some k /\ aget (k_cid k) (b_queues s) = Some q /\
    ((k_drained k = true /\ exists ids, k_held k = Some ids) \/
     (forall x, In x o -> (exists p, x = OSend c (KPubrel p 0 [])) \/
                          exists qos ret t pl pid props, x = OSend c (KPublish true qos ret t pl pid props))).
Proof.
  intros H. pose proof H as H0. unfold poll_once in H.
  destruct (nget c (b_conns s)) as [k|] eqn:Hk; [|discriminate].
  assert (G : match aget (k_cid k) (b_queues s) with
              | None => None
              | Some q =>
                  if negb (k_drained k) then
                    let '(q', rs) := q_read_inflight (b_now s) (N.to_nat (k_max_inflight k)) q in
                    let s1 := set_queues (aset (k_cid k) q' (b_queues s)) s in
                    match rs with
                    | [] => Some (upd_conn c (set_lim_held (k_lim k) (k_held k) true k) s1, [])
                    | _ =>
                        let '(k', o) := fold_left (replay_step c (b_now s)) rs (k, []) in
                        let q'' := q_set (map (fun e => match e_body e with
                                                        | QPub m => if existsb (fun r => e_tag r =? e_tag e) rs
                                                                    then with_body (QPub (as_dup m)) e else e
                                                        | QRel _ => e
                                                        end) (q_l q')) (q_cur q') (q_drained q') q' in
                        Some (upd_conn c k' (set_queues (aset (k_cid k) q'' (b_queues s1)) s1), o)
                    end
                  else
                    match k_held k with
                    | None =>
                        let max := if k_max_inflight k <? 100 then k_max_inflight k else 100 in
                        match lim_poll max (k_lim k) with
                        | (l', PIds ids) => Some (upd_conn c (set_lim_held l' (Some ids) true k) s, [])
                        | _ => None
                        end
                    | Some ids => poll_once c s
                    end
              end = Some (s', o)).
  { destruct (aget (k_cid k) (b_queues s)) as [q|] eqn:Hq.
    2:{ destruct (k_phase k); discriminate. }
    destruct (negb (k_drained k)) eqn:Hdr.
    - destruct (k_phase k); try discriminate; exact H.
    - destruct (k_held k) as [ids|] eqn:Hh; [exact H0|]. destruct (k_phase k); try discriminate; exact H. }
  clear H. destruct (aget (k_cid k) (b_queues s)) as [q|] eqn:Hq; [|discriminate].
  destruct (negb (k_drained k)) eqn:Hdr.
  - destruct (q_read_inflight (b_now s) (N.to_nat (k_max_inflight k)) q) as [q' rs]. cbv zeta in G.
    destruct rs as [|e0 r0].
    + inversion G; subst. split; [reflexivity|]. exists k, q. split; [reflexivity|]. split; [exact Hq|].
      right. intros x [].
    + destruct (fold_left (replay_step c (b_now s)) (e0 :: r0) (k, [])) as [k' o'] eqn:Hf.
      inversion G; subst. split; [reflexivity|]. exists k, q. split; [reflexivity|]. split; [exact Hq|].
      right. intros x Hx.
      replace o with (snd (fold_left (replay_step c (b_now s)) (e0 :: r0) (k, []))) in Hx by now rewrite Hf.
      apply replay_fold_out in Hx. destruct Hx as [[]|Hx]. exact Hx.
  - apply negb_false_iff in Hdr. destruct (k_held k) as [ids|] eqn:Hh.
    + destruct (poll_once_send _ _ _ _ _ _ _ Hk Hq Hdr Hh G) as (q' & rs & evs & k0 & _ & _ & _ & _ & Hnow).
      split; [exact Hnow|]. exists k, q. split; [reflexivity|]. split; [exact Hq|]. left. split; [exact Hdr|]. now exists ids.
    + cbv zeta in G. destruct (lim_poll (if k_max_inflight k <? 100 then k_max_inflight k else 100) (k_lim k)) as [l' [| | |ids]]; try discriminate.
      inversion G; subst. split; [reflexivity|]. exists k, q. split; [reflexivity|]. split; [exact Hq|].
      right. intros x [].
Qed.

(* what the statements below say about one PUBLISH written at time `now` to socket c *)
Definition first_send_ok (now c : N) (k : conn) (q : queue) (c' : N) (dup : bool) (qos : N) (ret : bool) (t pl : str) (props : list prop) : Prop :=
  exists v mv, In v (q_queued q) /\ e_body v = QPub mv /\
    expired now v = false /\ (e_expiry v = None \/ exists d, e_expiry v = Some d /\ now <= d) /\
    c' = c /\ dup = m_dup mv /\ qos = m_qos mv /\ ret = m_retained mv /\ pl = m_payload mv /\ (t = m_topic mv \/ t = []) /\
    p_msgexpiry props =
      if (k_v k =? 5) && negb (m_expiry mv =? 0)
      then Some (remaining (m_expiry mv) ((now - e_at v) / 1000)) else None.

Theorem poll_once_first_send c s s' o :
  poll_once c s = Some (s', o) ->
  forall c' qos ret t pl pid props, In (OSend c' (KPublish false qos ret t pl pid props)) o ->
  exists k q, nget c (b_conns s) = Some k /\ aget (k_cid k) (b_queues s) = Some q /\
              first_send_ok (b_now s) c k q c' false qos ret t pl props.
Proof.
  intros H c' qos ret t pl pid props Hin.
  destruct (poll_once_cases _ _ _ _ H) as (_ & k & q & Hk & Hq & [(Hdr & ids & Hh)|Hrep]).
  - exists k, q. split; [exact Hk|]. split; [exact Hq|].
    exact (poll_first_send _ _ _ _ _ _ _ Hk Hq Hdr Hh H _ _ _ _ _ _ _ _ Hin).
  - destruct (Hrep _ Hin) as [(p & Hx)|(q1 & r1 & t1 & pl1 & pid1 & pr1 & Hx)]; discriminate.
Qed.

(* the poll loop of one connection until it parks *)
Theorem poll_conn_first_send c : forall fuel s s' o,
  poll_conn fuel c s = (s', o) ->
  b_now s' = b_now s /\
  forall c' qos ret t pl pid props, In (OSend c' (KPublish false qos ret t pl pid props)) o ->
  exists si k q, b_now si = b_now s /\ nget c (b_conns si) = Some k /\ aget (k_cid k) (b_queues si) = Some q /\
                 first_send_ok (b_now s) c k q c' false qos ret t pl props.
Proof.
  induction fuel as [|f IH]; intros s s' o H; cbn [poll_conn] in H.
  - inversion H; subst. split; [reflexivity|]. intros c' qos ret t pl pid props [].
  - destruct (poll_once c s) as [[s1 o1]|] eqn:Hp.
    2:{ inversion H; subst. split; [reflexivity|]. intros c' qos ret t pl pid props []. }
    destruct (poll_conn f c s1) as [s2 o2] eqn:Hc. inversion H; subst s' o; clear H.
    destruct (poll_once_cases _ _ _ _ Hp) as (Hnow & _).
    destruct (IH _ _ _ Hc) as (Hnow2 & IH2). split; [congruence|].
    intros c' qos ret t pl pid props Hin. apply in_app_or in Hin. destruct Hin as [Hin|Hin].
    + assert (Hin' : In (OSend c' (KPublish false qos ret t pl pid props)) o1).
      { destruct (nget c (b_conns s)) as [k|]; [|exact Hin]. destruct (k_phase k); try exact Hin.
        apply filter_In in Hin. apply Hin. }
      destruct (poll_once_first_send _ _ _ _ Hp _ _ _ _ _ _ _ Hin') as (k & q & Hk & Hq & Hok).
      exists s, k, q. auto.
    + destruct (IH2 _ _ _ _ _ _ _ Hin) as (si & k & q & Hsi & Hk & Hq & Hok).
      exists si, k, q. rewrite <- Hnow. split; [congruence|]. split; [exact Hk|]. split; [exact Hq|]. exact Hok.
Qed.

(* all connections: the polling that follows every event *)
Theorem poll_all_first_send s s' o :
  poll_all s = (s', o) ->
  b_now s' = b_now s /\
  forall c' qos ret t pl pid props, In (OSend c' (KPublish false qos ret t pl pid props)) o ->
  exists si c k q, b_now si = b_now s /\ nget c (b_conns si) = Some k /\ aget (k_cid k) (b_queues si) = Some q /\
                   first_send_ok (b_now s) c k q c' false qos ret t pl props.
Proof.
  unfold poll_all.
  assert (G : forall l s0 o0 s' o,
             fold_left (fun acc (ck : N * conn) => let '(s0, o0) := acc in
                                      let '(s', o') := poll_conn 400 (fst ck) s0 in (s', o0 ++ o')) l (s0, o0) = (s', o) ->
             b_now s' = b_now s0 /\
             forall c' qos ret t pl pid props, In (OSend c' (KPublish false qos ret t pl pid props)) o ->
               In (OSend c' (KPublish false qos ret t pl pid props)) o0 \/
               exists si c k q, b_now si = b_now s0 /\ nget c (b_conns si) = Some k /\ aget (k_cid k) (b_queues si) = Some q /\
                                first_send_ok (b_now s0) c k q c' false qos ret t pl props).
  { induction l as [|ck r IH]; intros s0 o0 s1 o1 H; cbn [fold_left] in H.
    - inversion H; subst. split; [reflexivity|]. intros; now left.
    - destruct (poll_conn 400 (fst ck) s0) as [s2 o2] eqn:Hc.
      destruct (poll_conn_first_send _ _ _ _ _ Hc) as (Hnow & Hc2).
      destruct (IH _ _ _ _ H) as (Hnow2 & IH2). split; [congruence|].
      intros c' qos ret t pl pid props Hin. destruct (IH2 _ _ _ _ _ _ _ Hin) as [Hin0|(si & c & k & q & Hsi & Hrest)].
      + apply in_app_or in Hin0. destruct Hin0 as [Hin0|Hin0]; [now left|]. right.
        destruct (Hc2 _ _ _ _ _ _ _ Hin0) as (si & k & q & Hrest). exists si, (fst ck), k, q. exact Hrest.
      + right. exists si, c, k, q. rewrite <- Hnow. split; [congruence|exact Hrest]. }
  intros H. destruct (G _ _ _ _ _ H) as (Hnow & G2). split; [exact Hnow|].
  intros c' qos ret t pl pid props Hin. destruct (G2 _ _ _ _ _ _ _ Hin) as [[]|Hx]. exact Hx.
Qed.

(* a step of the model: its output is what the event handler wrote, then what the poll loops wrote *)
Theorem step_first_send s e s2 o :
  step s e = (s2, o) ->
  exists s1 o1 o2, step_event s e = (s1, o1) /\ o = o1 ++ o2 /\ b_now s2 = b_now s1 /\
  forall c' qos ret t pl pid props, In (OSend c' (KPublish false qos ret t pl pid props)) o2 ->
  exists si c k q, b_now si = b_now s1 /\ nget c (b_conns si) = Some k /\ aget (k_cid k) (b_queues si) = Some q /\
                   first_send_ok (b_now s1) c k q c' false qos ret t pl props.
Proof.
  unfold step. destruct (step_event s e) as [s1 o1]. destruct (poll_all s1) as [s2' o2] eqn:Hp.
  intros H. inversion H; subst. exists s1, o1, o2. split; [reflexivity|]. split; [reflexivity|].
  exact (poll_all_first_send _ _ _ Hp).
Qed.

(* ------------------------------------------------------------------ *)
(* 4. witnesses: the hypotheses are satisfiable; what is not checked   *)
(* ------------------------------------------------------------------ *)

Definition x_cfg (ce ifexp : N) : cfg :=
  {| c_onlyonce := false; c_max_inflight := 10; c_max_queued := 100; c_queue_qos0 := true;
     c_session_expiry := 100000000; c_message_expiry := ce; c_recv_max := 100; c_alias_max := 10; c_max_packet := 0;
     c_max_qos := 2; c_retain_avail := true; c_wildcard := true; c_subid := true; c_shared := true;
     c_max_keepalive := 300; c_allow_zero_len := true; c_inflight_expiry := ifexp |}.
Definition x_connect (v : N) (cid : str) (clean : bool) (props : list prop) : connect :=
  {| cn_ver := v; cn_cid := cid; cn_clean := clean; cn_keepalive := 0; cn_user := None; cn_pass := None;
     cn_will := None; cn_props := props |}.
Definition x_T : str := [116].      (* "t" *)
Definition x_S : str := [115].      (* "s": the subscriber, socket 1 *)
Definition x_P : str := [112].      (* "p": the publisher, socket 2 *)
Definition x_R : str := [114].      (* "r": a late subscriber, socket 3 *)
Definition x_treq (q : N) : topic_req := {| tq_name := x_T; tq_qos := q; tq_nl := false; tq_rap := false; tq_rh := 0 |}.
Definition x_sub (q : N) : event := ESend 1 (KSubscribe 1 [] [x_treq q]).
Definition x_pub (q pid : N) (retain : bool) (pl : str) (props : list prop) : event :=
  ESend 2 (KPublish false q retain x_T pl pid props).
Definition x_init (ce ifexp : N) : st := st_init (x_cfg ce ifexp) no_hooks [].
Definition x_back (v : N) : event := EConnect 1 (x_connect v x_S false [PSei 100000000]).
(* "s" (version v, persistent session) subscribed to "t" with QoS 1; "p" (v5) connected *)
Definition x_pre (v : N) : list event := [x_back v; x_sub 1; EConnect 2 (x_connect 5 x_P true [])].
(* "s" goes away; "p" publishes with interval p (None: no property); w ms pass; "s" comes back *)
Definition x_off (v : N) (p : option N) (w : N) : list event :=
  x_pre v ++ [EClose 1; x_pub 1 11 false [1] (match p with Some i => [PMsgExpiry i] | None => [] end); EAdvance w; x_back v].
Definition x_last (o : list (list out)) : list out := last o [].
Definition x_connack : out :=
  OSend 1 (KConnack true 0 [PSei 100000000; PRecvMax 100; PMaxQos 1; PRetainAvail 1; PAliasMax 10; PWildcard 1;
                            PSubIdAvail 1; PSharedAvail 1; PMaxPkt 0; PKeepAlive 0]).
Definition x_msg (p : N) : msg := msg_of_publish true false 1 false x_T [1] 11 [PMsgExpiry p].
Definition x_subn : sub := {| s_share := []; s_filter := x_T; s_id := 0; s_qos := 1; s_nl := false; s_rap := false; s_rh := 0 |}.

(* add_to_queue_deadline and its corollaries: publisher's interval; capped; default; none *)
Definition x_s0 (ce : N) : st := fst (run (x_init ce 0) (x_pre 5)).
Definition x_deadlines (ce p : N) : option (list (option N)) :=
  option_map (fun q => map (fun e => option_map (fun d => d - e_at e) (e_expiry e)) (q_l q))
             (aget x_S (b_queues (fst (add_to_queue x_S (x_msg p) x_subn [0] (x_s0 ce))))).

Example x_add_to_queue :
  (exists q, aget x_S (b_queues (x_s0 0)) = Some q) /\
  x_deadlines 0 10 = Some [Some 10000] /\ x_deadlines 7200 10 = Some [Some 10000] /\   (* the publisher's interval *)
  x_deadlines 4 10 = Some [Some 4000] /\                                               (* capped *)
  x_deadlines 4 0 = Some [Some 4000] /\                                                (* the configured maximum *)
  x_deadlines 0 0 = Some [None].                                                       (* no deadline *)
Proof. split; [eexists; vm_compute; reflexivity|]. vm_compute. repeat split. Qed.

(* poll_first_send, poll_expired_reported: "s" is back, its poll loop has finished the replay and taken ids *)
Definition x_polls (n : nat) (s : st) : st :=
  Nat.iter n (fun s0 => match poll_once 1 s0 with Some (s', _) => s' | None => s0 end) s.
Definition x_s2 (v : N) (p : option N) (w ce : N) : st :=
  x_polls 2 (fst (step_event (fst (run (x_init ce 0) (removelast (x_off v p w)))) (x_back v))).

Definition x_hyps (s : st) : Prop :=
  exists k q ids, nget 1 (b_conns s) = Some k /\ aget (k_cid k) (b_queues s) = Some q /\
                  k_drained k = true /\ k_held k = Some ids /\ (length (q_queued q) <= length ids)%nat.

Example x_poll_v5 :
  x_hyps (x_s2 5 (Some 10) 3500 0) /\
  option_map snd (poll_once 1 (x_s2 5 (Some 10) 3500 0)) = Some [OSend 1 (KPublish false 1 false x_T [1] 1 [PMsgExpiry 7])].
Proof. split; [do 3 eexists; vm_compute; repeat split; repeat constructor|vm_compute; reflexivity]. Qed.

(* the configured maximum (4 s) shortens the life of the message, not the interval the subscriber is told *)
Example x_poll_v5_capped :
  x_hyps (x_s2 5 (Some 10) 3500 4) /\
  option_map snd (poll_once 1 (x_s2 5 (Some 10) 3500 4)) = Some [OSend 1 (KPublish false 1 false x_T [1] 1 [PMsgExpiry 7])] /\
  (exists m, option_map snd (poll_once 1 (x_s2 5 (Some 10) 4500 4)) = Some [ODropped x_S m DExpired]).
Proof.
  split; [do 3 eexists; vm_compute; repeat split; repeat constructor|]. split; [vm_compute; reflexivity|].
  eexists. vm_compute. reflexivity.
Qed.

Example x_poll_v3 :
  x_hyps (x_s2 4 (Some 10) 3500 0) /\
  option_map snd (poll_once 1 (x_s2 4 (Some 10) 3500 0)) = Some [OSend 1 (KPublish false 1 false x_T [1] 1 [])].
Proof. split; [do 3 eexists; vm_compute; repeat split; repeat constructor|vm_compute; reflexivity]. Qed.

Example x_poll_no_interval :
  x_hyps (x_s2 5 None 3500 0) /\
  option_map snd (poll_once 1 (x_s2 5 None 3500 0)) = Some [OSend 1 (KPublish false 1 false x_T [1] 1 [])].
Proof. split; [do 3 eexists; vm_compute; repeat split; repeat constructor|vm_compute; reflexivity]. Qed.

(* < or <= : at the very millisecond of the deadline the message is still sent (with interval 1: the whole interval
   has been waited); one millisecond later it is dropped and reported *)
Example x_poll_at_deadline :
  x_hyps (x_s2 5 (Some 10) 10000 0) /\
  option_map snd (poll_once 1 (x_s2 5 (Some 10) 10000 0)) = Some [OSend 1 (KPublish false 1 false x_T [1] 1 [PMsgExpiry 1])] /\
  x_hyps (x_s2 5 (Some 10) 10001 0) /\
  (exists m, option_map snd (poll_once 1 (x_s2 5 (Some 10) 10001 0)) = Some [ODropped x_S m DExpired] /\ m_payload m = [1]).
Proof.
  split; [do 3 eexists; vm_compute; repeat split; repeat constructor|]. split; [vm_compute; reflexivity|].
  split; [do 3 eexists; vm_compute; repeat split; repeat constructor|].
  eexists. vm_compute. split; reflexivity.
Qed.

(* the same through `run`: the whole scenarios *)
Example x_run_offline :
  x_last (snd (run (x_init 0 0) (x_off 5 (Some 10) 3500))) = [x_connack; OSend 1 (KPublish false 1 false x_T [1] 1 [PMsgExpiry 7])] /\
  (exists m, x_last (snd (run (x_init 0 0) (x_off 5 (Some 10) 10001))) = [x_connack; ODropped x_S m DExpired]).
Proof. split; [vm_compute; reflexivity|]. eexists. vm_compute. reflexivity. Qed.

(* --- C12_redelivery_after_expiry_refuted (kf_redelivery_after_expiry) ---
   the message (interval 5 s) is sent to "s" and not acknowledged; "s" goes away and comes back after 61.2 s: the replay
   (ReadInflight) retransmits it, DUP=1, with interval 1 - 56 s after its deadline.  Whether an in-flight expiry is
   configured (30 s: the in-flight deadline has passed too) or not *)
Definition x_redeliv : list event :=
  x_pre 5 ++ [x_pub 1 11 false [1] [PMsgExpiry 5]; EClose 1; EAdvance 61200; x_back 5].

Example x_redelivery_after_expiry :
  nth 3 (snd (run (x_init 0 0) x_redeliv)) [] = [OSend 2 (KPuback 11 0 []); OSend 1 (KPublish false 1 false x_T [1] 1 [PMsgExpiry 5])] /\
  x_last (snd (run (x_init 0 0) x_redeliv)) = [x_connack; OSend 1 (KPublish true 1 false x_T [1] 1 [PMsgExpiry 1])] /\
  x_last (snd (run (x_init 7200 30) x_redeliv)) = [x_connack; OSend 1 (KPublish true 1 false x_T [1] 1 [PMsgExpiry 1])].
Proof. vm_compute. repeat split. Qed.

(* the state in which it happens: the replay turn of the poll loop (k_drained = false) meets an in-flight element whose
   deadline has passed, and sends it *)
Definition x_s_redeliv : st := fst (step_event (fst (run (x_init 0 0) (removelast x_redeliv))) (x_back 5)).
Example x_redelivery_poll :
  option_map (fun k => (k_cid k, k_drained k)) (nget 1 (b_conns x_s_redeliv)) = Some (x_S, false) /\
  option_map (fun q => map (fun e => (e_id e, e_expiry e, expired (b_now x_s_redeliv) e)) (q_l q)) (aget x_S (b_queues x_s_redeliv))
    = Some [(1, Some (b_now x_s_redeliv - 56200), true)] /\
  option_map snd (poll_once 1 x_s_redeliv) = Some [OSend 1 (KPublish true 1 false x_T [1] 1 [PMsgExpiry 1])].
Proof. vm_compute. repeat split. Qed.

(* at the level of the queue: ReadInflight hands out an expired element *)
Example x_read_inflight_expired :
  let e := {| e_tag := 1; e_at := 0; e_expiry := Some 5000; e_body := QPub (set_pid 1 (xm 1)) |} in
  let q := q_set [e] 0 false (q_init false true 1000 (q_new 10 0)) in
  expired 61200 e = true /\ snd (q_read_inflight 61200 10 q) = [e].
Proof. vm_compute. split; reflexivity. Qed.

(* --- C12_expiry_zero_is_absent (kf_expiry_zero_treated_as_absent) ---
   Message Expiry Interval 0 with no configured maximum: the element has no deadline, so it is never expired ... *)
Theorem expiry_zero_is_absent m s_ ids s :
  m_expiry m = 0 -> c_message_expiry (b_cfg s) = 0 ->
  e_expiry (atq_elem m s_ ids s) = None /\ forall now, expired now (atq_elem m s_ ids s) = false.
Proof.
  intros Hm Hc. assert (H : e_expiry (atq_elem m s_ ids s) = None) by (apply atq_deadline_none; auto).
  split; [exact H|]. now apply no_deadline_never_expired.
Qed.

(* ... a PUBLISH with the property set to 0 is the same message as one without the property ... *)
Lemma msg_of_publish_expiry_zero v5 dup qos retain topic payload pid :
  msg_of_publish v5 dup qos retain topic payload pid [PMsgExpiry 0] = msg_of_publish v5 dup qos retain topic payload pid [].
Proof. unfold msg_of_publish. destruct v5; reflexivity. Qed.

(* ... and it is delivered, without the property, after 50 000 000 seconds (1.5 years) of waiting; with a configured
   maximum of 4 s it gets the lifetime of a message without interval *)
Example x_expiry_zero :
  x_last (snd (run (x_init 0 0) (x_off 5 (Some 0) 50000000000))) = [x_connack; OSend 1 (KPublish false 1 false x_T [1] 1 [])] /\
  x_last (snd (run (x_init 0 0) (x_off 5 None 50000000000))) = [x_connack; OSend 1 (KPublish false 1 false x_T [1] 1 [])] /\
  x_last (snd (run (x_init 4 0) (x_off 5 (Some 0) 3500))) = [x_connack; OSend 1 (KPublish false 1 false x_T [1] 1 [])] /\
  x_deadlines 4 0 = Some [Some 4000].
Proof. vm_compute. repeat split. Qed.

(* --- retained messages: replay_step_deadline ---
   the retained store keeps no time: a retained message published with interval 5 s is given to a subscriber that
   arrives an hour later, with the full interval; the configured maximum is not applied either *)
Definition x_retained (ce w : N) : list event :=
  [EConnect 2 (x_connect 5 x_P true []); x_pub 0 0 true [1] [PMsgExpiry 5]; EAdvance w;
   EConnect 3 (x_connect 5 x_R true []); ESend 3 (KSubscribe 1 [] [x_treq 1])].

Example x_retained_never_expires :
  x_last (snd (run (x_init 0 0) (x_retained 0 3600000))) =
    [OSend 3 (KSuback 1 [1] []); OSend 3 (KPublish false 0 false x_T [1] 0 [PMsgExpiry 5])] /\
  x_last (snd (run (x_init 2 0) (x_retained 2 3600000))) =
    [OSend 3 (KSuback 1 [1] []); OSend 3 (KPublish false 0 false x_T [1] 0 [PMsgExpiry 5])].
Proof. vm_compute. repeat split. Qed.

Definition x_s_ret : st := fst (run (x_init 2 0) (removelast (x_retained 2 3600000))).
Definition x_m_ret : msg := hd (xm 0) (rdb_matched x_T (b_ret x_s_ret)).
Example x_replay_step :
  (exists q, aget x_R (b_queues x_s_ret) = Some q) /\ rdb_matched x_T (b_ret x_s_ret) = [x_m_ret] /\ m_expiry x_m_ret = 5 /\
  option_map (fun q => map (fun e => (e_at e, e_expiry e)) (q_l q))
             (aget x_R (b_queues (fst (rr_step x_R x_subn (x_s_ret, []) x_m_ret)))) =
    Some [(b_now x_s_ret, Some (b_now x_s_ret + 5000))].
Proof. split; [eexists; vm_compute; reflexivity|]. vm_compute. repeat split. Qed.
