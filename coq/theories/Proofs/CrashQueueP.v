(* C09, the two remaining clauses of the crash property, for ANY prefix of the command journal:

   PART A - unack store (persistence/unack/redis; Model/Crash.v `ru_step`): every operation
   issues at most one command, so a cut never falls inside an operation: the store left by any
   prefix of the journal is the store after a whole number j of operations, and the set of
   QoS 2 packet ids a restarted broker reloads from it (HKEYS = `stored_unack`) is the abstract
   set after those j operations.

   PART B - session queue (persistence/queue/redis; Model/RQueue.v as repaired): the list a
   restarted broker reloads (`lview` = what LRANGE on the key returns) after any prefix of the
   journal is the list after the last completed operation with a prefix of the commands of the
   operation in progress applied to it (`queue_cut_decomposition`), and
     - which intermediate lists exist, per operation (`*_shape`, `add_cut_lists`, ...);
     - provenance, run level: every reloaded element is an element supplied by an Add / a Replace
       of the history (or stored initially) up to packet id and expiry (`queue_cut_provenance`);
     - no duplication, run level: the list has at most one slot per RPUSH executed, only Add
       issues RPUSH, at most one per call (`queue_cut_length`, `only_add_pushes`);
     - no loss / order, one operation in progress on a consistent store (in-flight entries in
       front of the queued ones, cursor behind the in-flight entries): `add_cut_lists`,
       `readinflight_cut`, `read_cut`. *)
From Coq Require Import List NArith ZArith Bool Arith Lia.
Import ListNotations.
From GM Require Import Base.Topic Base.Msg Model.SubTrie Model.SubSpec Model.Queue Model.Redis Model.RQueue Model.Crash
  Proofs.TopicP Proofs.SubTrieP Proofs.CrashP.
Open Scope N_scope.

(* ================================================================== *)
(* PART A. the unack store                                              *)
(* ================================================================== *)

(* the abstract set of packet ids awaiting PUBREL *)
Definition ua_spec (st : list N) (o : ruop) : list N :=
  match o with
  | RUInit clean => if clean then [] else st
  | RUSet id => if memN id st then st else id :: st
  | RURemove id => delN id st
  | RURestart => st
  end.

Definition u16 (n : N) : Prop := n < 65536.
Definition seteq16 (a b : list N) : Prop := forall x, u16 x -> memN x a = memN x b.

Definition ruop_u16 (o : ruop) : Prop :=
  match o with RUSet id | RURemove id => u16 id | _ => True end.

(* the stored hash: distinct fields, every field the decimal form of a packet id *)
Definition uh_ok (h : list (str * blob)) : Prop :=
  NoDup (map fst h) /\ Forall (fun fv => exists n, u16 n /\ fst fv = dec n) h.

Definition ustore_ok (c : cid) (s : rstore) : Prop :=
  NoDup (map fst s) /\ (forall l, aget (unack_key c) s <> Some (RList l)) /\ uh_ok (unack_tb c s).

Lemma dec_u16 n : u16 n -> dec n <> [] /\ undec (dec n) 0 = Some n.
Proof.
  intros H. pose proof (dec_ok_u16 n H) as Hd. unfold dec_ok in Hd. apply andb_true_iff in Hd as [Hne Hud].
  split.
  - intros E. rewrite E in Hne. discriminate.
  - destruct (undec (dec n) 0) as [m|]; [|discriminate]. apply N.eqb_eq in Hud. now subst m.
Qed.

Lemma dec_inj16 a b : u16 a -> u16 b -> dec a = dec b -> a = b.
Proof.
  intros Ha Hb E. destruct (dec_u16 a Ha) as [_ H1]. destruct (dec_u16 b Hb) as [_ H2].
  rewrite E in H1. congruence.
Qed.

Lemma ids_mem h x : uh_ok h -> u16 x ->
  memN x (ids_of_hash h) = match aget (dec x) h with Some _ => true | None => false end.
Proof.
  intros [Hnd Hf] Hx. induction h as [|[f v] r IH]; [reflexivity|].
  inversion Hnd as [|? ? Hn Hnd']; subst. inversion Hf as [|? ? (n & Hn16 & Hfn) Hf']; subst.
  cbn [fst] in Hfn. subst f. destruct (dec_u16 n Hn16) as [Hne Hud].
  cbn [ids_of_hash aget]. destruct (dec n) as [|y f'] eqn:Ed; [congruence|]. rewrite <- Ed in *.
  rewrite Hud. cbn [memN].
  destruct (str_eqb_spec (dec x) (dec n)) as [E|E].
  - apply dec_inj16 in E; [|exact Hx|exact Hn16]. subst n. now rewrite N.eqb_refl.
  - destruct (N.eqb_spec x n) as [->|Hne']; [congruence|]. cbn [orb]. now apply IH.
Qed.

Lemma uh_ok_aset n v h : u16 n -> uh_ok h -> uh_ok (aset (dec n) v h).
Proof.
  intros Hn [Hnd Hf]. split; [now apply NoDup_aset|].
  clear Hnd. induction h as [|[f0 v0] r IH]; cbn [aset].
  - constructor; [exists n; now split|constructor].
  - inversion Hf as [|? ? H0 Hr]; subst. destruct (str_eqb (dec n) f0).
    + constructor; [exists n; now split|exact Hr].
    + constructor; [exact H0|now apply IH].
Qed.

Lemma uh_ok_adel f h : uh_ok h -> uh_ok (adel f h).
Proof.
  intros [Hnd Hf]. split; [now apply NoDup_adel|].
  clear Hnd. induction h as [|[f0 v0] r IH]; cbn [adel]; [constructor|].
  inversion Hf as [|? ? H0 Hr]; subst. destruct (str_eqb f f0); [exact Hr|].
  constructor; [exact H0|now apply IH].
Qed.

Lemma uh_ok_nil : uh_ok [].
Proof. split; constructor. Qed.

Lemma stored_unack_view c s : stored_unack c s = ids_of_hash (unack_tb c s).
Proof. unfold stored_unack, unack_tb, hgetall. destruct (aget (unack_key c) s) as [[h|l]|]; reflexivity. Qed.

(* effect of the three commands on the stored hash of c *)
Lemma utb_hset c s f v : ustore_ok c s ->
  unack_tb c (exec s (CHSet (unack_key c) [(f, v)])) = aset f v (unack_tb c s) /\
  NoDup (map fst (exec s (CHSet (unack_key c) [(f, v)]))) /\
  (forall l, aget (unack_key c) (exec s (CHSet (unack_key c) [(f, v)])) <> Some (RList l)).
Proof.
  intros (Hnd & Hl & _). unfold unack_tb. cbn [exec hset_all].
  destruct (aget (unack_key c) s) as [[h|l]|] eqn:E.
  - rewrite aget_aset_same. split; [reflexivity|]. split; [now apply NoDup_aset|]. intros l H. discriminate.
  - exfalso. now apply (Hl l).
  - rewrite aget_aset_same. split; [reflexivity|]. split; [now apply NoDup_aset|]. intros l H. discriminate.
Qed.

Lemma utb_hdel c s f : ustore_ok c s ->
  unack_tb c (exec s (CHDel (unack_key c) [f])) = adel f (unack_tb c s) /\
  NoDup (map fst (exec s (CHDel (unack_key c) [f]))) /\
  (forall l, aget (unack_key c) (exec s (CHDel (unack_key c) [f])) <> Some (RList l)).
Proof.
  intros (Hnd & Hl & _). unfold unack_tb. cbn [exec hdel_all].
  destruct (aget (unack_key c) s) as [[h|l]|] eqn:E.
  - destruct (adel f h) as [|x r] eqn:Ea.
    + rewrite (aget_adel _ _ _ Hnd), str_eqb_refl. split; [reflexivity|]. split; [now apply NoDup_adel|].
      intros l H. discriminate.
    + rewrite aget_aset_same. split; [reflexivity|]. split; [now apply NoDup_aset|]. intros l H. discriminate.
  - exfalso. now apply (Hl l).
  - rewrite E. split; [reflexivity|]. split; [exact Hnd|]. intros l H. discriminate.
Qed.

Lemma utb_del c s : ustore_ok c s ->
  unack_tb c (exec s (CDel (unack_key c))) = [] /\
  NoDup (map fst (exec s (CDel (unack_key c)))) /\
  (forall l, aget (unack_key c) (exec s (CDel (unack_key c))) <> Some (RList l)).
Proof.
  intros (Hnd & Hl & _). unfold unack_tb. cbn [exec].
  rewrite (aget_adel _ _ _ Hnd), str_eqb_refl. split; [reflexivity|]. split; [now apply NoDup_adel|]. intros l H. discriminate.
Qed.

Lemma memN_delN x y l : memN x (delN y l) = negb (x =? y) && memN x l.
Proof.
  induction l as [|z r IH]; cbn [delN memN]; [now rewrite andb_false_r|].
  destruct (N.eqb_spec y z) as [->|Hne].
  - rewrite IH. destruct (N.eqb_spec x z); cbn; [reflexivity|reflexivity].
  - cbn [memN]. rewrite IH. destruct (N.eqb_spec x z) as [->|H1]; cbn.
    + destruct (N.eqb_spec z y) as [->|H2]; [congruence|reflexivity].
    + reflexivity.
Qed.

(* the cache of the store object only holds stored ids *)
Definition ucache_ok (c : cid) (s : rstore) (cache : list N) : Prop :=
  Forall (fun x => u16 x /\ memN x (stored_unack c s) = true) cache.

Lemma memN_In x l : memN x l = true <-> In x l.
Proof.
  induction l as [|y r IH]; cbn [memN In]; [split; [discriminate|tauto]|].
  rewrite orb_true_iff, IH. destruct (N.eqb_spec x y) as [->|H]; split; intros [A|A]; auto; try discriminate; congruence.
Qed.

Lemma stored_u16 c s x : ustore_ok c s -> memN x (stored_unack c s) = true -> u16 x.
Proof.
  intros (_ & _ & _ & Hf). rewrite stored_unack_view. induction (unack_tb c s) as [|[f v] r IH]; cbn [ids_of_hash memN]; [discriminate|].
  inversion Hf as [|? ? (n & Hn & Hfn) Hr]; subst. cbn [fst] in Hfn. subst f.
  destruct (dec_u16 n Hn) as [Hne Hud]. destruct (dec n) as [|y f'] eqn:Ed; [congruence|]. rewrite <- Ed in *. rewrite Hud.
  cbn [memN]. destruct (N.eqb_spec x n) as [->|Hx]; [intros _; exact Hn|]. cbn [orb]. now apply IH.
Qed.

(* one operation: at most one command; the typing, the cache invariant and the abstract set follow *)
Lemma ru_step_spec fx c s cache o :
  ustore_ok c s -> ucache_ok c s cache -> ruop_u16 o ->
  let '(cache', _, cmds) := ru_step fx c s cache o in
  (length cmds <= 1)%nat /\
  ustore_ok c (exec_all s cmds) /\ ucache_ok c (exec_all s cmds) cache' /\
  seteq16 (stored_unack c (exec_all s cmds)) (ua_spec (stored_unack c s) o).
Proof.
  intros Hs Hc Ho. destruct o as [clean|id|id|]; cbn [ru_step ua_spec].
  - destruct clean.
    + cbn [exec_all fold_left length]. destruct (utb_del c s Hs) as (Ht & Hnd & Hl).
      split; [lia|]. split; [split; [exact Hnd|split; [exact Hl|rewrite Ht; apply uh_ok_nil]]|].
      split; [constructor|]. intros x _. rewrite stored_unack_view, Ht. reflexivity.
    + cbn [exec_all fold_left length]. split; [lia|]. split; [exact Hs|]. split; [|intros x _; reflexivity].
      destruct (fix_unack fx); [|exact Hc]. apply Forall_app. split; [|exact Hc].
      apply Forall_forall. intros x Hx. apply memN_In in Hx. split; [now apply (stored_u16 c s)|exact Hx].
  - cbn [ruop_u16] in Ho. destruct (memN id cache) eqn:Em.
    + cbn [exec_all fold_left length]. split; [lia|]. split; [exact Hs|]. split; [exact Hc|].
      apply memN_In in Em. unfold ucache_ok in Hc. rewrite Forall_forall in Hc. destruct (Hc id Em) as [_ Hst].
      rewrite Hst. intros x _. reflexivity.
    + cbn [exec_all fold_left length]. destruct (utb_hset c s (dec id) (BRaw ONE) Hs) as (Ht & Hnd & Hl).
      destruct Hs as (Hnd0 & Hl0 & Hu).
      assert (Hs' : ustore_ok c (exec s (CHSet (unack_key c) [(dec id, BRaw ONE)]))).
      { split; [exact Hnd|]. split; [exact Hl|]. rewrite Ht. now apply uh_ok_aset. }
      assert (Hset : forall x, u16 x -> memN x (stored_unack c (exec s (CHSet (unack_key c) [(dec id, BRaw ONE)])))
                                         = (x =? id) || memN x (stored_unack c s)).
      { intros x Hx. rewrite !stored_unack_view, Ht. rewrite (ids_mem _ x (uh_ok_aset id _ _ Ho Hu) Hx), (ids_mem _ x Hu Hx).
        rewrite aget_aset. destruct (str_eqb_spec (dec x) (dec id)) as [E|E].
        - apply dec_inj16 in E; [|exact Hx|exact Ho]. subst x. now rewrite N.eqb_refl.
        - destruct (N.eqb_spec x id) as [->|Hne]; [congruence|reflexivity]. }
      split; [lia|]. split; [exact Hs'|]. split.
      * constructor; [split; [exact Ho|rewrite (Hset id Ho), N.eqb_refl; reflexivity]|].
        eapply Forall_impl; [|exact Hc]. intros x [Hx Hm]. split; [exact Hx|]. rewrite (Hset x Hx), Hm. apply orb_true_r.
      * intros x Hx. rewrite (Hset x Hx). destruct (memN id (stored_unack c s)) eqn:Eid.
        -- destruct (N.eqb_spec x id) as [->|Hne]; [now rewrite Eid|reflexivity].
        -- reflexivity.
  - cbn [ruop_u16] in Ho. cbn [exec_all fold_left length].
    destruct (utb_hdel c s (dec id) Hs) as (Ht & Hnd & Hl). destruct Hs as (Hnd0 & Hl0 & Hu).
    assert (Hset : forall x, u16 x -> memN x (stored_unack c (exec s (CHDel (unack_key c) [dec id])))
                                       = negb (x =? id) && memN x (stored_unack c s)).
    { intros x Hx. rewrite !stored_unack_view, Ht. rewrite (ids_mem _ x (uh_ok_adel _ _ Hu) Hx), (ids_mem _ x Hu Hx).
      rewrite (aget_adel _ _ _ (proj1 Hu)). destruct (str_eqb_spec (dec x) (dec id)) as [E|E].
      - apply dec_inj16 in E; [|exact Hx|exact Ho]. subst x. now rewrite N.eqb_refl.
      - destruct (N.eqb_spec x id) as [->|Hne]; [congruence|reflexivity]. }
    split; [lia|]. split; [split; [exact Hnd|split; [exact Hl|rewrite Ht; now apply uh_ok_adel]]|]. split.
    + apply Forall_forall. intros x Hx. apply memN_In in Hx. rewrite memN_delN in Hx. apply andb_true_iff in Hx as [Hne Hx].
      apply memN_In in Hx. unfold ucache_ok in Hc. rewrite Forall_forall in Hc. destruct (Hc x Hx) as [Hx16 Hm].
      split; [exact Hx16|]. rewrite (Hset x Hx16), Hne, Hm. reflexivity.
    + intros x Hx. rewrite (Hset x Hx), memN_delN. reflexivity.
  - cbn [exec_all fold_left length]. split; [lia|]. split; [exact Hs|]. split; [constructor|]. intros x _. reflexivity.
Qed.

Lemma ua_spec_seteq a b o : ruop_u16 o -> seteq16 a b -> seteq16 (ua_spec a o) (ua_spec b o).
Proof.
  intros Ho H. destruct o as [clean|id|id|]; cbn [ua_spec ruop_u16] in *.
  - destruct clean; [intros x _; reflexivity|exact H].
  - rewrite (H id Ho). destruct (memN id b); [exact H|]. intros x Hx. cbn [memN]. now rewrite (H x Hx).
  - intros x Hx. rewrite !memN_delN, (H x Hx). reflexivity.
  - exact H.
Qed.

Lemma ua_fold_seteq ops : forall a b, Forall ruop_u16 ops -> seteq16 a b ->
  seteq16 (fold_left ua_spec ops a) (fold_left ua_spec ops b).
Proof.
  induction ops as [|o r IH]; intros a b Hops H; [exact H|].
  inversion Hops as [|? ? Ho Hr]; subst. cbn [fold_left]. apply IH; [exact Hr|]. now apply ua_spec_seteq.
Qed.

(* C09, unack clause, for any prefix of the journal *)
Theorem unack_any_prefix fx c : forall (ops : list ruop) (s : rstore) (cache : list N) (k : nat),
  ustore_ok c s -> ucache_ok c s cache -> Forall ruop_u16 ops ->
  exists j, (j <= length ops)%nat /\
    firstn k (snd (ru_run fx c s cache ops)) = snd (ru_run fx c s cache (firstn j ops)) /\
    seteq16 (stored_unack c (exec_all s (firstn k (snd (ru_run fx c s cache ops)))))
            (fold_left ua_spec (firstn j ops) (stored_unack c s)).
Proof.
  induction ops as [|o r IH]; intros s cache k Hs Hc Hops.
  - exists 0%nat. cbn [ru_run snd length firstn]. rewrite firstn_nil. cbn [exec_all fold_left].
    split; [lia|]. split; [reflexivity|]. intros x _. reflexivity.
  - inversion Hops as [|? ? Ho Hr]; subst.
    pose proof (ru_step_spec fx c s cache o Hs Hc Ho) as Hst.
    cbn [ru_run]. destruct (ru_step fx c s cache o) as [[cache' out] cmds] eqn:Est.
    destruct Hst as (Hlen & Hs' & Hc' & Hset).
    specialize (IH (exec_all s cmds) cache').
    destruct (ru_run fx c (exec_all s cmds) cache' r) as [outs cmds'] eqn:Er. cbn [snd] in *.
    destruct (Nat.le_gt_cases (length cmds) k) as [Hle|Hgt].
    + destruct (IH (k - length cmds)%nat Hs' Hc' Hr) as (j & Hj & Hcut & Hseq).
      exists (S j). cbn [length firstn ru_run]. rewrite Est.
      destruct (ru_run fx c (exec_all s cmds) cache' (firstn j r)) as [outs2 cmds2] eqn:Er2. cbn [snd] in *.
      split; [lia|]. rewrite firstn_app, (firstn_all2 cmds) by exact Hle. split; [now rewrite Hcut|].
      rewrite exec_all_app. cbn [fold_left].
      intros x Hx. rewrite (Hseq x Hx).
      apply (ua_fold_seteq (firstn j r)); [now apply Forall_firstn|exact Hset|exact Hx].
    + assert (k = 0%nat) by lia. subst k. exists 0%nat. cbn [firstn ru_run snd exec_all fold_left].
      split; [lia|]. split; [reflexivity|]. intros x _. reflexivity.
Qed.

(* ================================================================== *)
(* PART B. the session queue                                            *)
(* ================================================================== *)

(* ---------- B1. the list under the queue key, and the commands as list operations ---------- *)
Definition lview (K : str) (s : rstore) : list blob :=
  match aget K s with Some (RList l) => l | _ => [] end.

Definition lexec (l : list blob) (c : rcmd) : list blob :=
  match c with
  | CRPush _ v => l ++ [v]
  | CLRem _ v => remove_first v l
  | CLSet _ i v => match norm_index i (length l) with Some j => replace_nth j v l | None => l end
  | CDel _ => []
  | _ => l
  end.
Definition lexec_all (l : list blob) (cs : list rcmd) : list blob := fold_left lexec cs l.

(* the key holds a list or nothing (redis: no WRONGTYPE on it) *)
Definition qstore_ok (K : str) (s : rstore) : Prop :=
  NoDup (map fst s) /\ forall h, aget K s <> Some (RHash h).

Lemma norm_index_0 i : norm_index i 0 = None.
Proof. unfold norm_index. cbn [Z.of_nat]. rewrite Z.add_0_r. destruct (i <? 0)%Z eqn:E; rewrite E; reflexivity. Qed.

Lemma lview_exec K s c : qstore_ok K s -> qcmd K c ->
  qstore_ok K (exec s c) /\ lview K (exec s c) = lexec (lview K s) c.
Proof.
  intros Hs0 Hc. pose proof Hs0 as [Hnd Hh].
  destruct c as [k fvs|k fs|k|k v|k v|k i v]; cbn [qcmd] in Hc; try contradiction; subst k;
    unfold lview; cbn [exec lexec].
  - split; [split; [now apply NoDup_adel|intros h H; rewrite (aget_adel _ _ _ Hnd), str_eqb_refl in H; discriminate]|].
    now rewrite (aget_adel _ _ _ Hnd), str_eqb_refl.
  - destruct (aget K s) as [[h|l]|] eqn:E.
    + exfalso. now apply (Hh h).
    + split; [split; [now apply NoDup_aset|intros h H; rewrite aget_aset_same in H; discriminate]|]. now rewrite aget_aset_same.
    + split; [split; [now apply NoDup_aset|intros h H; rewrite aget_aset_same in H; discriminate]|]. now rewrite aget_aset_same.
  - destruct (aget K s) as [[h|l]|] eqn:E.
    + exfalso. now apply (Hh h).
    + destruct (remove_first v l) as [|x r] eqn:Er.
      * split; [split; [now apply NoDup_adel|intros h H; rewrite (aget_adel _ _ _ Hnd), str_eqb_refl in H; discriminate]|].
        now rewrite (aget_adel _ _ _ Hnd), str_eqb_refl.
      * split; [split; [now apply NoDup_aset|intros h H; rewrite aget_aset_same in H; discriminate]|]. now rewrite aget_aset_same.
    + split; [exact Hs0|]. now rewrite E.
  - destruct (aget K s) as [[h|l]|] eqn:E.
    + exfalso. now apply (Hh h).
    + destruct (norm_index i (length l)) as [j|] eqn:En.
      * split; [split; [now apply NoDup_aset|intros h H; rewrite aget_aset_same in H; discriminate]|]. now rewrite aget_aset_same.
      * split; [exact Hs0|]. now rewrite E.
    + split; [exact Hs0|]. rewrite E. cbn [length]. now rewrite norm_index_0.
Qed.

Lemma lview_exec_all K cs : forall s, qstore_ok K s -> Forall (qcmd K) cs ->
  qstore_ok K (exec_all s cs) /\ lview K (exec_all s cs) = lexec_all (lview K s) cs.
Proof.
  induction cs as [|c r IH]; intros s Hs Hc; [split; [exact Hs|reflexivity]|].
  inversion Hc as [|? ? H0 Hr]; subst. destruct (lview_exec K s c Hs H0) as [Hs' Hv].
  cbn [exec_all lexec_all fold_left]. destruct (IH (exec s c) Hs' Hr) as [Hs'' Hv'']. split; [exact Hs''|].
  unfold exec_all, lexec_all in Hv''. rewrite Hv'', Hv. reflexivity.
Qed.

Lemma lexec_all_app l a b : lexec_all l (a ++ b) = lexec_all (lexec_all l a) b.
Proof. unfold lexec_all. apply fold_left_app. Qed.

(* ---------- B2. the journal of a history, and where a cut falls ---------- *)
Fixpoint rq_journal (s : rstore) (q : rq) (ops : list rqop) : list rcmd :=
  match ops with
  | [] => []
  | o :: r =>
      let x := rq_step s q o in
      match r_out x with
      | RPanic => r_cmds x
      | _ => r_cmds x ++ rq_journal (r_store x) (r_q x) r
      end
  end.

Lemma rq_journal_run ops : forall s q, snd (rq_run s q ops) = rq_journal s q ops.
Proof.
  induction ops as [|o r IH]; intros s q; cbn [rq_run rq_journal]; [reflexivity|].
  specialize (IH (r_store (rq_step s q o)) (r_q (rq_step s q o))).
  destruct (rq_run (r_store (rq_step s q o)) (r_q (rq_step s q o)) r) as [[[s' q'] outs] cmds]. cbn [snd] in IH.
  destruct (r_out (rq_step s q o)); cbn [snd]; try (now rewrite IH); reflexivity.
Qed.

Lemma rq_step_ok s q o : res_ok q (rq_step s q o).
Proof.
  destruct o as [o|]; [destruct o|]; cbn [rq_step].
  - apply rq_add_ok.
  - apply rq_read_ok.
  - apply rq_read_inflight_ok.
  - apply rq_remove_ok.
  - apply rq_replace_ok.
  - apply rq_init_ok.
  - apply rq_close_ok.
  - apply rq_restart_ok.
Qed.

Lemma rq_step_store s q o : r_store (rq_step s q o) = exec_all s (r_cmds (rq_step s q o)).
Proof.
  destruct o as [o|]; [destruct o|]; cbn [rq_step].
  - apply rq_add_store.
  - apply rq_read_store.
  - apply rq_read_inflight_store.
  - apply rq_remove_store.
  - apply rq_replace_store.
  - apply rq_init_store.
  - reflexivity.
  - reflexivity.
Qed.

(* (s', q', rest): the state after some completed operations of the history, and what is left of it *)
Inductive reach : rstore -> rq -> list rqop -> rstore -> rq -> list rqop -> Prop :=
| reach_here s q ops : reach s q ops s q ops
| reach_step s q o r s' q' rest :
    r_out (rq_step s q o) <> RPanic ->
    reach (r_store (rq_step s q o)) (r_q (rq_step s q o)) r s' q' rest ->
    reach s q (o :: r) s' q' rest.

(* C09, queue clause, the frame: after ANY prefix of the journal the stored list is the list after
   the last completed operation with a prefix of the commands of the next one applied *)
Theorem queue_cut_decomposition : forall (ops : list rqop) (s : rstore) (q : rq) (k : nat),
  qstore_ok (rq_key q) s ->
  exists s' q' rest k',
    reach s q ops s' q' rest /\ rq_key q' = rq_key q /\ qstore_ok (rq_key q) s' /\
    lview (rq_key q) (exec_all s (firstn k (rq_journal s q ops))) =
      match rest with
      | [] => lview (rq_key q) s'
      | o :: _ => lexec_all (lview (rq_key q) s') (firstn k' (r_cmds (rq_step s' q' o)))
      end.
Proof.
  induction ops as [|o r IH]; intros s q k Hs.
  - exists s, q, [], 0%nat. cbn [rq_journal]. rewrite firstn_nil. repeat split; try apply Hs. constructor.
  - pose proof (rq_step_ok s q o) as [Hc Hk]. pose proof (rq_step_store s q o) as Hst.
    cbn [rq_journal].
    assert (Hin : forall n, lview (rq_key q) (exec_all s (firstn n (r_cmds (rq_step s q o)))) =
                            lexec_all (lview (rq_key q) s) (firstn n (r_cmds (rq_step s q o)))).
    { intros n. apply (lview_exec_all (rq_key q)); [exact Hs|now apply Forall_firstn]. }
    destruct (Nat.le_gt_cases k (length (r_cmds (rq_step s q o)))) as [Hle|Hgt].
    + exists s, q, (o :: r), k. split; [constructor|]. split; [reflexivity|]. split; [exact Hs|].
      rewrite <- Hin. f_equal. f_equal.
      destruct (r_out (rq_step s q o)); try (rewrite firstn_app; replace (k - length (r_cmds (rq_step s q o)))%nat with 0%nat by lia;
        rewrite firstn_O, app_nil_r); reflexivity.
    + destruct (r_out (rq_step s q o)) eqn:Eo;
        try (assert (Hnp : r_out (rq_step s q o) <> RPanic) by (rewrite Eo; discriminate);
             destruct (lview_exec_all (rq_key q) (r_cmds (rq_step s q o)) s Hs Hc) as [Hs1 _]; rewrite <- Hst in Hs1;
             rewrite <- Hk in Hs1;
             destruct (IH (r_store (rq_step s q o)) (r_q (rq_step s q o)) (k - length (r_cmds (rq_step s q o)))%nat Hs1)
               as (s' & q' & rest & k' & Hr & Hk' & Hs' & Hv);
             exists s', q', rest, k'; split; [now apply reach_step|]; split; [congruence|]; rewrite Hk in Hs', Hv;
             split; [exact Hs'|];
             rewrite firstn_app, (firstn_all2 (r_cmds (rq_step s q o))) by lia; rewrite exec_all_app, <- Hst; exact Hv).
      (* the panicking operation ends the journal *)
      exists s, q, (o :: r), k. split; [constructor|]. split; [reflexivity|]. split; [exact Hs|]. now rewrite <- Hin.
Qed.

(* invariants travel along `reach` *)
Lemma reach_inv (Inv : rstore -> rq -> Prop) (A : rqop -> Prop) :
  (forall s q o, A o -> Inv s q -> r_out (rq_step s q o) <> RPanic -> Inv (r_store (rq_step s q o)) (r_q (rq_step s q o))) ->
  forall s q ops s' q' rest, reach s q ops s' q' rest -> Forall A ops -> Inv s q -> Inv s' q' /\ Forall A rest.
Proof.
  intros Hstep s q ops s' q' rest Hr. induction Hr as [s q ops|s q o r s' q' rest Hnp Hr IH]; intros HA HI; [now split|].
  inversion HA as [|? ? Ho HAr]; subst. apply IH; [exact HAr|]. now apply Hstep.
Qed.

Lemma rq_journal_ok ops : forall s q, Forall (qcmd (rq_key q)) (rq_journal s q ops).
Proof.
  induction ops as [|o r IH]; intros s q; cbn [rq_journal]; [constructor|].
  pose proof (rq_step_ok s q o) as [Hc Hk]. specialize (IH (r_store (rq_step s q o)) (r_q (rq_step s q o))). rewrite Hk in IH.
  destruct (r_out (rq_step s q o)); try (apply Forall_app; split; assumption); exact Hc.
Qed.

(* ---------- B3. what the commands of one operation are ---------- *)
(* v' is v with a packet id and/or an in-flight expiry written into it *)
Definition rewritten (v v' : elem) : Prop :=
  (exists x, v' = with_expiry x v) \/
  (exists m p, e_body v = QPub m /\ (v' = with_body (QPub (set_pid p m)) v \/ exists x, v' = with_expiry x (with_body (QPub (set_pid p m)) v))).

Lemma read_loop_cmds (P : rcmd -> Prop) now key limit v5 ifexp (L : list elem) :
  (forall v, In v L -> P (CLRem key (BElem v))) ->
  (forall v v' i, In v L -> rewritten v v' -> P (CLSet key i (BElem v'))) ->
  forall l a, incl l L -> Forall P (ra_cmds a) ->
  Forall P (ra_cmds (fst (rq_read_loop now key limit v5 ifexp l a))).
Proof.
  intros Hrem Hset. induction l as [|v r IH]; intros a Hl Ha; cbn [rq_read_loop]; [exact Ha|].
  assert (Hv : In v L) by (apply Hl; now left). assert (Hr : incl r L) by (intros x Hx; apply Hl; now right).
  destruct (expired now v).
  - apply IH; [exact Hr|]. cbn [ra_cmds]. apply Forall_app. split; [exact Ha|]. constructor; [now apply Hrem|constructor].
  - destruct (e_body v) as [m|p] eqn:Eb; [|exact Ha].
    destruct (limit <? msg_total_bytes v5 m).
    + apply IH; [exact Hr|]. cbn [ra_cmds]. apply Forall_app. split; [exact Ha|]. constructor; [now apply Hrem|constructor].
    + destruct (m_qos m =? 0).
      * apply IH; [exact Hr|]. cbn [ra_cmds]. apply Forall_app. split; [exact Ha|]. constructor; [now apply Hrem|constructor].
      * destruct (ra_pids a) as [|p pids']; [exact Ha|].
        assert (Hp : P (CLSet key (ra_cur a) (BElem (if ifexp =? 0 then with_body (QPub (set_pid p m)) v
                                                      else with_expiry (Some (now + ifexp)) (with_body (QPub (set_pid p m)) v))))).
        { apply (Hset v); [exact Hv|]. right. exists m, p. split; [exact Eb|]. destruct (ifexp =? 0); [now left|right; now eexists]. }
        destruct (ra_cache a) as [c|].
        -- apply IH; [exact Hr|]. cbn [ra_cmds]. apply Forall_app. split; [exact Ha|]. constructor; [exact Hp|constructor].
        -- cbn [fst ra_cmds]. apply Forall_app. split; [exact Ha|]. constructor; [exact Hp|constructor].
Qed.

Lemma rif_loop_cmds (P : rcmd -> Prop) now key ifexp (L : list elem) :
  (forall e x i, In e L -> P (CLSet key i (BElem (with_expiry x e)))) ->
  forall l idx cur cache rs cmds, incl l L -> Forall P cmds ->
  let '(_, _, _, cmds', _, _) := rq_rif_loop now key ifexp l idx cur cache rs cmds in Forall P cmds'.
Proof.
  intros Hset. induction l as [|e r IH]; intros idx cur cache rs cmds Hl Hc; cbn [rq_rif_loop]; [exact Hc|].
  destruct (e_id e =? 0); [exact Hc|].
  assert (He : In e L) by (apply Hl; now left). assert (Hr : incl r L) by (intros x Hx; apply Hl; now right).
  assert (Hc' : Forall P (if ifexp =? 0 then cmds
                          else cmds ++ [CLSet key idx (BElem (if ifexp =? 0 then e else with_expiry (Some (now + ifexp)) e))])).
  { destruct (ifexp =? 0); [exact Hc|]. apply Forall_app. split; [exact Hc|]. constructor; [now apply Hset|constructor]. }
  destruct cache as [c|]; [|exact Hc'].
  apply IH; [exact Hr|exact Hc'].
Qed.

Lemma elems_of_in v l : In v (elems_of l) -> In (BElem v) l.
Proof.
  induction l as [|b r IH]; cbn [elems_of]; [tauto|]. destruct b as [x|x|x]; cbn [In]; try (intros H; right; now apply IH).
  intros [->|H]; [now left|right; now apply IH].
Qed.

Lemma In_firstn {A} (x : A) n l : In x (firstn n l) -> In x l.
Proof. revert l. induction n as [|n IH]; intros [|y r]; cbn [firstn In]; try tauto. intros [->|H]; [now left|right; now apply IH]. Qed.
Lemma In_skipn {A} (x : A) n l : In x (skipn n l) -> In x l.
Proof. revert l. induction n as [|n IH]; intros [|y r]; cbn [skipn In]; try tauto. intros H. right. now apply IH. Qed.

Lemma lrange_in K a b s x : In x (lrange K a b s) -> In x (lview K s).
Proof.
  unfold lrange, lview, lget. destruct (aget K s) as [[h|l]|]; cbn; try tauto.
  - destruct (lrange_window a b (length l)) as [st c]. intros H. eapply In_skipn, In_firstn, H.
  - destruct (lrange_window a b 0) as [st c]. intros H. apply In_firstn, In_skipn in H. exact H.
Qed.

(* the commands of Read and ReadInflight, in terms of the elements of the stored list *)
Lemma read_cmds (P : rcmd -> Prop) now pids s q :
  (forall v, In (BElem v) (lview (rq_key q) s) -> P (CLRem (rq_key q) (BElem v))) ->
  (forall v v' i, In (BElem v) (lview (rq_key q) s) -> rewritten v v' -> P (CLSet (rq_key q) i (BElem v'))) ->
  Forall P (r_cmds (rq_read now pids s q)).
Proof.
  intros Hrem Hset. unfold rq_read.
  destruct (negb (rq_drained q)); [constructor|]. destruct (rq_closed q); [constructor|].
  destruct (rq_len q <=? rq_cur q)%Z; [constructor|]. destruct (length pids =? 0)%nat; [constructor|].
  match goal with |- context [rq_read_loop ?a ?b ?c ?d ?e ?l ?acc] =>
    pose proof (read_loop_cmds P a b c d e (elems_of (lrange (rq_key q) (rq_cur q) (rq_cur q + Z.of_nat (length pids) - 1)%Z s))) as H;
    destruct (rq_read_loop a b c d e l acc) as [a' p] eqn:El end.
  assert (Hin : forall v, In v (elems_of (lrange (rq_key q) (rq_cur q) (rq_cur q + Z.of_nat (length pids) - 1)%Z s)) ->
                          In (BElem v) (lview (rq_key q) s)).
  { intros v Hv. eapply lrange_in, elems_of_in, Hv. }
  pose proof (fun v Hv => Hrem v (Hin v Hv)) as Hrem'. pose proof (fun v v' j Hv Hw => Hset v v' j (Hin v Hv) Hw) as Hset'.
  match type of El with rq_read_loop _ _ _ _ _ ?l ?acc = _ =>
    specialize (H Hrem' Hset' l acc (incl_refl _) (Forall_nil _)) end.
  rewrite El in H. cbn [fst] in H. destruct p; exact H.
Qed.

Lemma read_inflight_cmds (P : rcmd -> Prop) now n s q :
  (forall e x i, In (BElem e) (lview (rq_key q) s) -> P (CLSet (rq_key q) i (BElem (with_expiry x e)))) ->
  Forall P (r_cmds (rq_read_inflight now n s q)).
Proof.
  intros Hset. unfold rq_read_inflight. destruct n as [|n']; [constructor|].
  destruct (elems_of _) as [|e0 l0] eqn:El; [constructor|].
  assert (Hin : forall v, In v (e0 :: l0) -> In (BElem v) (lview (rq_key q) s)).
  { intros v Hv. rewrite <- El in Hv. eapply lrange_in, elems_of_in, Hv. }
  pose proof (fun e x j He => Hset e x j (Hin e He)) as Hset'.
  match goal with |- context [rq_rif_loop ?a ?b ?c ?d ?e1 ?f ?g ?h ?i1] =>
    pose proof (rif_loop_cmds P a b c (e0 :: l0) Hset' d e1 f g h i1 (incl_refl _) (Forall_nil _)) as H;
    destruct (rq_rif_loop a b c d e1 f g h i1) as [[[[[cur cache] rs] cmds] dr] panicked] end.
  destruct panicked; exact H.
Qed.

(* Add: nothing, the RPUSH of the newcomer, or the LREM of one victim followed by that RPUSH.  The
   victim is an element of the stored list and is the element reported dropped *)
Lemma add_scan_in now cur L : forall l i cand front,
  incl l L -> (forall c, cand = Some c -> In c L) -> (forall c, front = Some c -> In c L) ->
  match rq_add_scan now cur l i cand front with
  | ASReturn d _ _ => In d L
  | ASPanic c => forall x, c = Some x -> In x L
  | ASEnd c f => (forall x, c = Some x -> In x L) /\ (forall x, f = Some x -> In x L)
  end.
Proof.
  induction l as [|e r IH]; intros i cand front Hl Hc Hf; cbn [rq_add_scan]; [now split|].
  assert (He : In e L) by (apply Hl; now left). assert (Hr : incl r L) by (intros x Hx; apply Hl; now right).
  destruct (negb (e_id e =? 0)).
  - destruct (expired now e); [exact He|]. now apply IH.
  - assert (Hf' : forall c, match front with None => Some e | Some _ => front end = Some c -> In c L).
    { intros c. destruct front as [f0|]; [apply Hf|]. intros E. injection E as <-. exact He. }
    destruct (e_body e) as [m|p]; [|exact Hc].
    destruct (expired now e); [exact He|].
    destruct ((m_qos m =? 0) && match cand with None => true | Some _ => false end).
    + apply IH; [exact Hr| |exact Hf']. intros c E. injection E as <-. exact He.
    + now apply IH.
Qed.

Definition add_reports (out : qout) (d : elem) : Prop :=
  out = RPanic \/ exists pre r, out = RAdd (pre ++ [EvDropped d r]).

Lemma add_finish_shape s q e victim r bk p :
  let x := rq_add_finish s q e victim r bk p in
  match victim with
  | None => r_cmds x = [] /\ add_reports (r_out x) e
  | Some d => r_cmds x = [CLRem (rq_key q) (BElem d); CRPush (rq_key q) (BElem e)] /\ add_reports (r_out x) d
  end.
Proof.
  unfold rq_add_finish. destruct victim as [d|]; cbn [done r_cmds r_out]; (split; [reflexivity|]);
    (destruct p; [now left|right; now eexists _, _]).
Qed.

Theorem add_shape now e s q :
  let x := rq_add now e s q in
  (r_cmds x = [] /\ add_reports (r_out x) e) \/
  (r_cmds x = [CRPush (rq_key q) (BElem e)] /\ r_out x = RAdd [EvQueue 1]) \/
  (exists d, r_cmds x = [CLRem (rq_key q) (BElem d); CRPush (rq_key q) (BElem e)] /\
             add_reports (r_out x) d /\ In (BElem d) (lview (rq_key q) s)).
Proof.
  cbn zeta. unfold rq_add. destruct (rq_max q <=? rq_len q)%Z; [|right; left; now split].
  assert (Hin : forall v, In v (elems_of (lrange (rq_key q) 0 (rq_len q) s)) -> In (BElem v) (lview (rq_key q) s)).
  { intros v Hv. eapply lrange_in, elems_of_in, Hv. }
  pose proof (add_scan_in now (rq_cur q) (elems_of (lrange (rq_key q) 0 (rq_len q) s))
                (elems_of (lrange (rq_key q) 0 (rq_len q) s)) 0%Z None None (incl_refl _)) as Hsc.
  assert (Hn : forall c : elem, @None elem = Some c -> In c (elems_of (lrange (rq_key q) 0 (rq_len q) s))) by (intros c E; discriminate).
  specialize (Hsc Hn Hn).
  assert (Hfin : forall victim r bk p, (forall d, victim = Some d -> In d (elems_of (lrange (rq_key q) 0 (rq_len q) s))) ->
    (r_cmds (rq_add_finish s q e victim r bk p) = [] /\ add_reports (r_out (rq_add_finish s q e victim r bk p)) e) \/
    (r_cmds (rq_add_finish s q e victim r bk p) = [CRPush (rq_key q) (BElem e)] /\ r_out (rq_add_finish s q e victim r bk p) = RAdd [EvQueue 1]) \/
    (exists d, r_cmds (rq_add_finish s q e victim r bk p) = [CLRem (rq_key q) (BElem d); CRPush (rq_key q) (BElem e)] /\
               add_reports (r_out (rq_add_finish s q e victim r bk p)) d /\ In (BElem d) (lview (rq_key q) s))).
  { intros victim r bk p Hv. pose proof (add_finish_shape s q e victim r bk p) as H. destruct victim as [d|].
    - right. right. exists d. destruct H as [H1 H2]. split; [exact H1|]. split; [exact H2|]. apply Hin. now apply Hv.
    - left. exact H. }
  destruct (rq_add_scan now (rq_cur q) _ 0 None None) as [d r bk|cand|cand front].
  - apply Hfin. intros d' E. injection E as <-. exact Hsc.
  - apply Hfin. exact Hsc.
  - destruct Hsc as [Hc Hf].
    destruct (rq_drained q && (rq_len q <=? rq_cur q)%Z); [apply Hfin; exact Hc|].
    destruct cand as [d|]; [apply Hfin; intros d' E; injection E as <-; now apply Hc|].
    destruct (e_body e) as [m|p]; [|apply Hfin; intros d' E; discriminate].
    destruct (m_qos m =? 0); [apply Hfin; intros d' E; discriminate|apply Hfin; exact Hf].
Qed.

(* the operations that issue at most one command: a cut never falls inside them *)
Theorem atomic_ops s q o :
  match o with
  | ROp (OAdd _ _) | ROp (ORead _ _) | ROp (OReadInflight _ _) => True
  | _ => (length (r_cmds (rq_step s q o)) <= 1)%nat
  end.
Proof.
  destruct o as [o|]; [destruct o|]; cbn [rq_step]; try exact I.
  - unfold rq_remove. destruct (rq_cache q) as [c|]; [destruct (cache_get pid c)|]; cbn; lia.
  - unfold rq_replace. destruct (rq_cur q <=? 0)%Z; [cbn; lia|]. destruct (find_id_z _ _ _); [destruct (rq_cache q)|]; cbn; lia.
  - unfold rq_init. destruct clean; cbn; lia.
  - cbn. lia.
  - cbn. lia.
Qed.

(* ---------- B4. no duplication: one list slot per RPUSH, and only Add pushes, once ---------- *)
Definition is_rpush (c : rcmd) : bool := match c with CRPush _ _ => true | _ => false end.

Lemma remove_first_len v l : (length (remove_first v l) <= length l)%nat.
Proof. induction l as [|x r IH]; cbn [remove_first length]; [lia|]. destruct (blob_eqb x v); cbn [length]; lia. Qed.

Lemma replace_nth_len {A} j (v : A) l : length (replace_nth j v l) = length l.
Proof. revert j. induction l as [|x r IH]; intros [|j]; cbn [replace_nth length]; try reflexivity. now rewrite IH. Qed.

Lemma lexec_all_len cs : forall l, (length (lexec_all l cs) <= length l + length (filter is_rpush cs))%nat.
Proof.
  induction cs as [|c r IH]; intros l; cbn [lexec_all fold_left filter]; [lia|].
  specialize (IH (lexec l c)). unfold lexec_all in IH.
  destruct c as [k fvs|k fs|k|k v|k v|k i v]; cbn [lexec is_rpush length] in *; try lia.
  - rewrite app_length in IH. cbn [length] in IH. lia.
  - pose proof (remove_first_len v l). lia.
  - destruct (norm_index i (length l)); [rewrite replace_nth_len in IH|]; lia.
Qed.

Theorem queue_cut_length : forall (ops : list rqop) (s : rstore) (q : rq) (k : nat),
  qstore_ok (rq_key q) s ->
  (length (lview (rq_key q) (exec_all s (firstn k (rq_journal s q ops)))) <=
   length (lview (rq_key q) s) + length (filter is_rpush (firstn k (rq_journal s q ops))))%nat.
Proof.
  intros ops s q k Hs.
  destruct (lview_exec_all (rq_key q) (firstn k (rq_journal s q ops)) s Hs (Forall_firstn _ _ _ (rq_journal_ok ops s q))) as [_ Hv].
  rewrite Hv. apply lexec_all_len.
Qed.

Lemma filter_none {A} (f : A -> bool) l : Forall (fun x => f x = false) l -> filter f l = [].
Proof. induction 1 as [|x r Hx Hr IH]; cbn [filter]; [reflexivity|]. now rewrite Hx. Qed.

Theorem only_add_pushes s q o :
  match o with
  | ROp (OAdd _ _) => (length (filter is_rpush (r_cmds (rq_step s q o))) <= 1)%nat
  | _ => filter is_rpush (r_cmds (rq_step s q o)) = []
  end.
Proof.
  destruct o as [o|]; [destruct o|]; cbn [rq_step].
  - destruct (add_shape now e s q) as [[H _]|[[H _]|(d & H & _)]]; rewrite H; cbn; lia.
  - apply filter_none. apply read_cmds; intros; reflexivity.
  - apply filter_none. apply read_inflight_cmds; intros; reflexivity.
  - unfold rq_remove. destruct (rq_cache q) as [c|]; [destruct (cache_get pid c)|]; reflexivity.
  - unfold rq_replace. destruct (rq_cur q <=? 0)%Z; [reflexivity|]. destruct (find_id_z _ _ _); [destruct (rq_cache q)|]; reflexivity.
  - unfold rq_init. destruct clean; reflexivity.
  - reflexivity.
  - reflexivity.
Qed.

(* ---------- B5. Add in progress: the only element that can be missing is its reported victim ---------- *)
Theorem add_cut_lists now e s q k' :
  let L := lview (rq_key q) s in
  let x := rq_add now e s q in
  let L' := lexec_all L (firstn k' (r_cmds x)) in
  L' = L \/ L' = L ++ [BElem e] \/
  exists d, add_reports (r_out x) d /\ In (BElem d) L /\
            (L' = remove_first (BElem d) L \/ L' = remove_first (BElem d) L ++ [BElem e]).
Proof.
  cbn zeta. destruct (add_shape now e s q) as [[H _]|[[H _]|(d & H & Hr & Hin)]]; rewrite H.
  - left. destruct k'; reflexivity.
  - destruct k' as [|k']; [left; reflexivity|right; left; destruct k'; reflexivity].
  - destruct k' as [|[|k']]; [left; reflexivity| |]; right; right; exists d; (split; [exact Hr|]); (split; [exact Hin|]).
    + left. reflexivity.
    + right. destruct k'; reflexivity.
Qed.

(* ---------- B6. provenance: nothing is invented ---------- *)
Definition base_body (b : qbody) : qbody := match b with QPub m => QPub (set_pid 0 m) | QRel p => QRel p end.
(* x is e up to packet id and expiry *)
Definition fam (e x : elem) : Prop :=
  e_tag x = e_tag e /\ e_at x = e_at e /\ base_body (e_body x) = base_body (e_body e).

Lemma fam_refl e : fam e e.
Proof. repeat split. Qed.
Lemma fam_trans a b c : fam a b -> fam b c -> fam a c.
Proof. intros (H1 & H2 & H3) (H4 & H5 & H6). repeat split; congruence. Qed.
Lemma fam_rewritten v v' : rewritten v v' -> fam v v'.
Proof.
  intros [[x ->]|(m & p & Eb & [->|[x ->]])]; unfold fam, with_expiry, with_body; cbn [e_tag e_at e_body]; repeat split;
    rewrite Eb; reflexivity.
Qed.

Definition supplied_by (o : rqop) : list elem :=
  match o with ROp (OAdd _ e) => [e] | ROp (OReplace e) => [e] | _ => [] end.
Definition supplied (ops : list rqop) : list elem := flat_map supplied_by ops.

Definition prov (G : list elem) (b : blob) : Prop := exists x e, b = BElem x /\ In e G /\ fam e x.
Definition cmd_prov (G : list elem) (c : rcmd) : Prop :=
  match c with CRPush _ v | CLSet _ _ v => prov G v | _ => True end.

Lemma remove_first_incl v l x : In x (remove_first v l) -> In x l.
Proof. induction l as [|y r IH]; cbn [remove_first]; [tauto|]. destruct (blob_eqb y v); cbn [In]; [tauto|]. intros [->|H]; [now left|right; now apply IH]. Qed.

Lemma replace_nth_in {A} j (v : A) l x : In x (replace_nth j v l) -> x = v \/ In x l.
Proof.
  revert j. induction l as [|y r IH]; intros [|j]; cbn [replace_nth In]; try tauto.
  - intros [<-|H]; [now left|right; now right].
  - intros [<-|H]; [right; now left|]. apply IH in H as [H|H]; [now left|right; now right].
Qed.

Lemma lexec_prov G l c : Forall (prov G) l -> cmd_prov G c -> Forall (prov G) (lexec l c).
Proof.
  intros Hl Hc. destruct c as [k fvs|k fs|k|k v|k v|k i v]; cbn [lexec cmd_prov] in *; try exact Hl.
  - constructor.
  - apply Forall_app. split; [exact Hl|]. constructor; [exact Hc|constructor].
  - rewrite Forall_forall in *. intros x Hx. apply Hl. eapply remove_first_incl, Hx.
  - destruct (norm_index i (length l)) as [j|]; [|exact Hl].
    rewrite Forall_forall in *. intros x Hx. apply replace_nth_in in Hx as [->|Hx]; [exact Hc|now apply Hl].
Qed.

Lemma lexec_all_prov G cs : forall l, Forall (prov G) l -> Forall (cmd_prov G) cs -> Forall (prov G) (lexec_all l cs).
Proof.
  induction cs as [|c r IH]; intros l Hl Hc; [exact Hl|]. inversion Hc as [|? ? H0 Hr]; subst.
  cbn [lexec_all fold_left]. apply IH; [now apply lexec_prov|exact Hr].
Qed.

Lemma prov_in G l v : Forall (prov G) l -> In (BElem v) l -> exists e, In e G /\ fam e v.
Proof.
  intros Hl Hv. rewrite Forall_forall in Hl. destruct (Hl _ Hv) as (x & e & E & He & Hf). injection E as <-. now exists e.
Qed.

(* every value an operation writes is a supplied element or a rewritten element of the stored list *)
Lemma step_prov G s q o :
  Forall (prov G) (lview (rq_key q) s) -> incl (supplied_by o) G -> Forall (cmd_prov G) (r_cmds (rq_step s q o)).
Proof.
  intros HL HG. destruct o as [o|]; [destruct o|]; cbn [rq_step supplied_by] in *.
  - assert (He : prov G (BElem e)) by (exists e, e; split; [reflexivity|split; [apply HG; now left|apply fam_refl]]).
    destruct (add_shape now e s q) as [[H _]|[[H _]|(d & H & _)]]; rewrite H; repeat constructor; exact He.
  - apply read_cmds; cbn [cmd_prov]; [intros; exact I|].
    intros v v' i Hv Hw. destruct (prov_in G _ v HL Hv) as (e0 & He0 & Hf). exists v', e0. split; [reflexivity|]. split; [exact He0|].
    eapply fam_trans; [exact Hf|now apply fam_rewritten].
  - apply read_inflight_cmds. cbn [cmd_prov]. intros e x i He.
    destruct (prov_in G _ e HL He) as (e0 & He0 & Hf). exists (with_expiry x e), e0. split; [reflexivity|]. split; [exact He0|].
    eapply fam_trans; [exact Hf|]. apply fam_rewritten. left. now exists x.
  - unfold rq_remove. destruct (rq_cache q) as [c|]; [destruct (cache_get pid c)|]; repeat constructor.
  - assert (He : prov G (BElem e)) by (exists e, e; split; [reflexivity|split; [apply HG; now left|apply fam_refl]]).
    unfold rq_replace. destruct (rq_cur q <=? 0)%Z; [constructor|].
    destruct (find_id_z _ _ _); [destruct (rq_cache q)|]; repeat constructor; exact He.
  - unfold rq_init. destruct clean; repeat constructor.
  - constructor.
  - constructor.
Qed.

Lemma supplied_incl_cons o r G : incl (supplied (o :: r)) G -> incl (supplied_by o) G /\ incl (supplied r) G.
Proof. unfold supplied. cbn [flat_map]. intros H. split; intros x Hx; apply H, in_or_app; [now left|now right]. Qed.

Lemma journal_prov G ops : forall s q,
  qstore_ok (rq_key q) s -> Forall (prov G) (lview (rq_key q) s) -> incl (supplied ops) G ->
  Forall (cmd_prov G) (rq_journal s q ops).
Proof.
  induction ops as [|o r IH]; intros s q Hs HL HG; cbn [rq_journal]; [constructor|].
  destruct (supplied_incl_cons o r G HG) as [Ho Hr].
  pose proof (step_prov G s q o HL Ho) as Hc. pose proof (rq_step_ok s q o) as [Hqc Hk]. pose proof (rq_step_store s q o) as Hst.
  destruct (lview_exec_all (rq_key q) _ s Hs Hqc) as [Hs1 Hv1]. rewrite <- Hst in Hs1, Hv1.
  assert (HL1 : Forall (prov G) (lview (rq_key q) (r_store (rq_step s q o)))) by (rewrite Hv1; now apply lexec_all_prov).
  rewrite <- Hk in Hs1, HL1. specialize (IH _ _ Hs1 HL1 Hr).
  destruct (r_out (rq_step s q o)); try (apply Forall_app; split; assumption); exact Hc.
Qed.

(* C09, queue clause (b): after ANY prefix of the journal every stored element is, up to packet id and
   expiry, an element supplied by an Add or a Replace of the history (or stored initially) *)
Theorem queue_cut_provenance : forall (G : list elem) (ops : list rqop) (s : rstore) (q : rq) (k : nat),
  qstore_ok (rq_key q) s -> Forall (prov G) (lview (rq_key q) s) -> incl (supplied ops) G ->
  Forall (prov G) (lview (rq_key q) (exec_all s (firstn k (rq_journal s q ops)))).
Proof.
  intros G ops s q k Hs HL HG.
  destruct (lview_exec_all (rq_key q) (firstn k (rq_journal s q ops)) s Hs (Forall_firstn _ _ _ (rq_journal_ok ops s q))) as [_ Hv].
  rewrite Hv. apply lexec_all_prov; [exact HL|]. apply Forall_firstn. now apply journal_prov.
Qed.

(* ================================================================== *)
(* B7. one operation in progress on a consistent store                  *)
(* ================================================================== *)
(* the stored list is a list of queue elements E; `lrange` on it *)
Lemma lrange_lview K a b s : qstore_ok K s ->
  lrange K a b s = let '(st, c) := lrange_window a b (length (lview K s)) in firstn c (skipn st (lview K s)).
Proof.
  intros [_ Hh]. unfold lrange, lview, lget. destruct (aget K s) as [[h|l]|] eqn:E; [exfalso; now apply (Hh h)|reflexivity|reflexivity].
Qed.

Lemma firstn_more {A} n m (l : list A) : (length l <= n)%nat -> (length l <= m)%nat -> firstn n l = firstn m l.
Proof. intros H1 H2. now rewrite !firstn_all2. Qed.

(* LRANGE st (st+n-1) with 0 <= st, 1 <= n: the n elements from position st *)
Lemma window_spec {A} (l : list A) st n : (0 <= st)%Z -> (1 <= n)%nat ->
  (let '(a, c) := lrange_window st (st + Z.of_nat n - 1)%Z (length l) in firstn c (skipn a l)) = firstn n (skipn (Z.to_nat st) l).
Proof.
  intros Hst Hn. unfold lrange_window.
  assert (E1 : (st <? 0)%Z = false) by (apply Z.ltb_ge; lia). rewrite E1.
  assert (E2 : (st + Z.of_nat n - 1 <? 0)%Z = false) by (apply Z.ltb_ge; lia). rewrite E2, E1.
  destruct (Z.of_nat (length l) <=? st + Z.of_nat n - 1)%Z eqn:E3.
  - apply Z.leb_le in E3. destruct (Z.of_nat (length l) - 1 <? st)%Z eqn:E4.
    + apply Z.ltb_lt in E4. cbn [firstn]. rewrite skipn_all2 by lia. now rewrite firstn_nil.
    + apply Z.ltb_ge in E4. apply firstn_more; rewrite skipn_length; lia.
  - apply Z.leb_gt in E3. assert (E4 : (st + Z.of_nat n - 1 <? st)%Z = false) by (apply Z.ltb_ge; lia). rewrite E4.
    f_equal. lia.
Qed.

Lemma elems_of_map E : elems_of (map BElem E) = E.
Proof. induction E as [|e r IH]; cbn [map elems_of]; [reflexivity|now rewrite IH]. Qed.

Lemma window_elems K s q E n : qstore_ok K s -> lview K s = map BElem E -> (0 <= rq_cur q)%Z -> (1 <= n)%nat ->
  elems_of (lrange K (rq_cur q) (rq_cur q + Z.of_nat n - 1)%Z s) = firstn n (skipn (Z.to_nat (rq_cur q)) E).
Proof.
  intros Hs HL Hc Hn. rewrite (lrange_lview K _ _ s Hs), HL.
  rewrite (window_spec (map BElem E) (rq_cur q) n Hc Hn). rewrite skipn_map, firstn_map. apply elems_of_map.
Qed.

(* LSET at the position of an element, LREM of an element behind entries with other packet ids *)
Lemma norm_index_at (A X : list elem) (v : elem) :
  norm_index (Z.of_nat (length A)) (length (map BElem (A ++ v :: X))) = Some (length A).
Proof.
  unfold norm_index. rewrite map_length, app_length. cbn [length].
  assert (E1 : (Z.of_nat (length A) <? 0)%Z = false) by (apply Z.ltb_ge; lia). rewrite E1, E1.
  assert (E2 : (Z.of_nat (length A) <? Z.of_nat (length A + S (length X)))%Z = true) by (apply Z.ltb_lt; lia). rewrite E2.
  now rewrite Nat2Z.id.
Qed.

Lemma replace_nth_at {A} (P X : list A) (v v' : A) : replace_nth (length P) v' (P ++ v :: X) = P ++ v' :: X.
Proof. induction P as [|x r IH]; cbn [length app replace_nth]; [reflexivity|now rewrite IH]. Qed.

Lemma lset_exact key (A X : list elem) v v' :
  lexec (map BElem (A ++ v :: X)) (CLSet key (Z.of_nat (length A)) (BElem v')) = map BElem (A ++ v' :: X).
Proof.
  cbn [lexec]. rewrite norm_index_at. rewrite !map_app. cbn [map].
  rewrite <- (map_length BElem A). apply replace_nth_at.
Qed.

Lemma cq_list_eqb_refl {A} (eqb : A -> A -> bool) (l : list A) : (forall x, eqb x x = true) -> list_eqb eqb l l = true.
Proof. intros H. induction l as [|x r IH]; cbn [list_eqb]; [reflexivity|]. now rewrite H, IH. Qed.

Lemma cq_msg_eqb_refl m : msg_eqb m m = true.
Proof.
  unfold msg_eqb. rewrite !Bool.eqb_reflx, !N.eqb_refl, !str_eqb_refl.
  rewrite (cq_list_eqb_refl N.eqb) by apply N.eqb_refl.
  rewrite (cq_list_eqb_refl (fun x y : str * str => str_eqb (fst x) (fst y) && str_eqb (snd x) (snd y))); [reflexivity|].
  intros x. now rewrite !str_eqb_refl.
Qed.

Lemma elem_eqb_refl e : elem_eqb e e = true.
Proof.
  unfold elem_eqb. rewrite N.eqb_refl. cbn [andb].
  assert (H1 : optN_eqb (e_expiry e) (e_expiry e) = true) by (destruct (e_expiry e); cbn; [apply N.eqb_refl|reflexivity]).
  rewrite H1. cbn [andb]. destruct (e_body e); cbn [qbody_eqb]; [apply cq_msg_eqb_refl|apply N.eqb_refl].
Qed.

Lemma msg_eqb_pid a b : msg_eqb a b = true -> m_pid a = m_pid b.
Proof. unfold msg_eqb. intros H. repeat (apply andb_true_iff in H as [H ?]). now apply N.eqb_eq. Qed.

Lemma elem_eqb_id x v : elem_eqb x v = true -> e_id x = e_id v.
Proof.
  unfold elem_eqb, e_id. intros H. apply andb_true_iff in H as [_ H].
  destruct (e_body x), (e_body v); cbn [qbody_eqb] in H; try discriminate; [now apply msg_eqb_pid|now apply N.eqb_eq].
Qed.

Lemma lrem_exact key (A X : list elem) v :
  Forall (fun e => e_id e <> 0) A -> e_id v = 0 ->
  lexec (map BElem (A ++ v :: X)) (CLRem key (BElem v)) = map BElem (A ++ X).
Proof.
  intros HA Hv. cbn [lexec]. induction A as [|x r IH]; cbn [app map remove_first blob_eqb].
  - now rewrite elem_eqb_refl.
  - inversion HA as [|? ? Hx Hr]; subst. destruct (elem_eqb x v) eqn:E; [apply elem_eqb_id in E; congruence|].
    now rewrite (IH Hr).
Qed.

(* ---------- ReadInflight in progress ---------- *)
Definition rif_cmds (x : Z * option (list (N * elem)) * list elem * list rcmd * bool * bool) : list rcmd :=
  let '(_, _, _, c, _, _) := x in c.

(* e' is e, possibly with another in-flight expiry *)
Definition upto_expiry (e' e : elem) : Prop := e' = e \/ exists x, e' = with_expiry x e.

Lemma Forall2_refl_upto l : Forall2 upto_expiry l l.
Proof. induction l; constructor; [now left|assumption]. Qed.

Lemma rif_loop_exec now key ifexp (R : list elem) : forall l A cur cache rs cmds,
  exists cs, rif_cmds (rq_rif_loop now key ifexp l (Z.of_nat (length A)) cur cache rs cmds) = cmds ++ cs /\
    forall k', exists l', lexec_all (map BElem (A ++ l ++ R)) (firstn k' cs) = map BElem (A ++ l' ++ R) /\ Forall2 upto_expiry l' l.
Proof.
  induction l as [|e r IH]; intros A cur cache rs cmds; cbn [rq_rif_loop rif_cmds].
  - exists []. split; [now rewrite app_nil_r|]. intros k'. exists []. rewrite firstn_nil. split; [reflexivity|constructor].
  - destruct (e_id e =? 0).
    + exists []. cbn [rif_cmds]. split; [now rewrite app_nil_r|]. intros k'. exists (e :: r). rewrite firstn_nil. split; [reflexivity|apply Forall2_refl_upto].
    + destruct (ifexp =? 0) eqn:Ei.
      * destruct cache as [c|].
        -- specialize (IH (A ++ [e]) (cur + 1)%Z (Some (cache_set (e_id e) e c)) (rs ++ [e]) cmds).
           rewrite app_length in IH. cbn [length] in IH. replace (Z.of_nat (length A + 1)) with (Z.of_nat (length A) + 1)%Z in IH by lia.
           destruct IH as (cs & Hcs & Hk). exists cs. split; [exact Hcs|]. intros k'. destruct (Hk k') as (l' & Hl & Hf).
           exists (e :: l'). rewrite <- !app_assoc in Hl. cbn [app] in Hl. split; [exact Hl|constructor; [now left|exact Hf]].
        -- exists []. cbn [rif_cmds]. split; [now rewrite app_nil_r|]. intros k'. exists (e :: r). rewrite firstn_nil. split; [reflexivity|apply Forall2_refl_upto].
      * set (e' := with_expiry (Some (now + ifexp)) e).
        destruct cache as [c|].
        -- specialize (IH (A ++ [e']) (cur + 1)%Z (Some (cache_set (e_id e) e' c)) (rs ++ [e']) (cmds ++ [CLSet key (Z.of_nat (length A)) (BElem e')])).
           rewrite app_length in IH. cbn [length] in IH. replace (Z.of_nat (length A + 1)) with (Z.of_nat (length A) + 1)%Z in IH by lia.
           destruct IH as (cs & Hcs & Hk). exists (CLSet key (Z.of_nat (length A)) (BElem e') :: cs).
           split; [rewrite Hcs, <- app_assoc; reflexivity|]. intros [|k'].
           ++ exists (e :: r). split; [reflexivity|apply Forall2_refl_upto].
           ++ destruct (Hk k') as (l' & Hl & Hf). exists (e' :: l'). cbn [firstn lexec_all fold_left].
              change ((e :: r) ++ R) with (e :: r ++ R). rewrite lset_exact.
              rewrite <- !app_assoc in Hl. cbn [app] in Hl. split; [exact Hl|]. constructor; [right; now eexists|exact Hf].
        -- exists [CLSet key (Z.of_nat (length A)) (BElem e')]. cbn [rif_cmds]. split; [reflexivity|]. intros [|k'].
           ++ exists (e :: r). split; [reflexivity|apply Forall2_refl_upto].
           ++ exists (e' :: r). cbn [firstn]. rewrite firstn_nil. cbn [lexec_all fold_left].
              change ((e :: r) ++ R) with (e :: r ++ R). rewrite lset_exact. split; [reflexivity|].
              constructor; [right; now eexists|apply Forall2_refl_upto].
Qed.

Lemma Forall2_app_upto a a' b b' : Forall2 upto_expiry a' a -> Forall2 upto_expiry b' b -> Forall2 upto_expiry (a' ++ b') (a ++ b).
Proof. intros H1 H2. now apply Forall2_app. Qed.

(* C09, queue clause, ReadInflight in progress: whatever part of its LSETs was executed, the stored
   list has the same elements in the same order, some in-flight expiries rewritten *)
Theorem readinflight_cut now n s q E k' :
  qstore_ok (rq_key q) s -> lview (rq_key q) s = map BElem E -> (0 <= rq_cur q)%Z ->
  exists E', lexec_all (lview (rq_key q) s) (firstn k' (r_cmds (rq_read_inflight now n s q))) = map BElem E' /\
             Forall2 upto_expiry E' E.
Proof.
  intros Hs HL Hc. unfold rq_read_inflight. destruct n as [|n'].
  { exists E. cbn [done r_cmds]. rewrite firstn_nil. split; [exact HL|apply Forall2_refl_upto]. }
  rewrite (window_elems _ s q E (S n') Hs HL Hc) by lia.
  set (c := Z.to_nat (rq_cur q)). set (W := firstn (S n') (skipn c E)).
  destruct W as [|e0 W0] eqn:EW.
  { exists E. cbn [done r_cmds]. rewrite firstn_nil. split; [exact HL|apply Forall2_refl_upto]. }
  assert (Hlen : (c <= length E)%nat).
  { destruct (Nat.le_gt_cases c (length E)) as [H|H]; [exact H|]. unfold W in EW. rewrite skipn_all2 in EW by lia. now rewrite firstn_nil in EW. }
  assert (HE : E = firstn c E ++ (e0 :: W0) ++ skipn (S n') (skipn c E)).
  { rewrite <- EW. unfold W. rewrite firstn_skipn. now rewrite firstn_skipn. }
  assert (Hidx : rq_cur q = Z.of_nat (length (firstn c E))) by (rewrite firstn_length_le by exact Hlen; unfold c; lia).
  clear EW Hlen. clear W.
  remember (firstn c E) as P eqn:EP. remember (skipn (S n') (skipn c E)) as R eqn:ER. clear EP ER. subst E.
  destruct (rif_loop_exec now (rq_key q) (rq_ifexp q) R (e0 :: W0) P (rq_cur q) (rq_cache q) [] [])
    as (cs & Hcs & Hk).
  rewrite <- Hidx in Hcs. cbn [app] in Hcs.
  destruct (rq_rif_loop now (rq_key q) (rq_ifexp q) (e0 :: W0) (rq_cur q) (rq_cur q) (rq_cache q) [] []) as [[[[[cur cache] rs] cmds] dr] panicked].
  cbn [rif_cmds] in Hcs. subst cmds.
  destruct (Hk k') as (l' & Hl & Hf). exists (P ++ l' ++ R).
  split.
  - rewrite HL. destruct panicked; cbn [done r_cmds]; exact Hl.
  - apply Forall2_app_upto; [apply Forall2_refl_upto|]. apply Forall2_app_upto; [exact Hf|apply Forall2_refl_upto].
Qed.

(* ---------- Read in progress ---------- *)
(* processing a prefix of the window l behind the in-flight entries A: an element is removed (D),
   or rewritten (packet id, in-flight expiry) and thereby joins the in-flight entries, in order *)
Inductive rd : list elem -> list elem -> list elem -> list elem -> list elem -> Prop :=
| rd_here A l : rd A l [] A l
| rd_drop A v l D A' l' : rd A l D A' l' -> rd A (v :: l) (v :: D) A' l'
| rd_keep A v v' l D A' l' : rewritten v v' -> e_id v' <> 0 -> rd (A ++ [v']) l D A' l' -> rd A (v :: l) D A' l'.

(* the documented reasons for which Read removes an element *)
Definition removable (now limit : N) (v5 : bool) (v : elem) : Prop :=
  expired now v = true \/
  exists m, e_body v = QPub m /\ ((limit <? msg_total_bytes v5 m) = true \/ (m_qos m =? 0) = true).

Lemma e_id_rewritten_pub v m p x :
  e_id (with_body (QPub (set_pid p m)) v) = p /\ e_id (with_expiry x (with_body (QPub (set_pid p m)) v)) = p.
Proof. split; reflexivity. Qed.

Lemma read_loop_exec now key limit v5 ifexp (R : list elem) : forall l a A,
  ra_cur a = Z.of_nat (length A) -> Forall (fun e => e_id e <> 0) A -> Forall (fun e => e_id e = 0) l ->
  Forall (fun p => p <> 0) (ra_pids a) ->
  exists cs, ra_cmds (fst (rq_read_loop now key limit v5 ifexp l a)) = ra_cmds a ++ cs /\
    forall k', exists D A' l',
      rd A l D A' l' /\ Forall (removable now limit v5) D /\
      lexec_all (map BElem (A ++ l ++ R)) (firstn k' cs) = map BElem (A' ++ l' ++ R).
Proof.
  induction l as [|v r IH]; intros a A Hcur HA Hl Hp; cbn [rq_read_loop].
  - exists []. cbn [fst]. split; [now rewrite app_nil_r|]. intros k'. exists [], A, []. rewrite firstn_nil.
    split; [constructor|]. split; [constructor|reflexivity].
  - inversion Hl as [|? ? Hv Hr]; subst.
    (* the three removals share one argument *)
    assert (Hrm : forall a1, removable now limit v5 v -> ra_cur a1 = ra_cur a -> ra_pids a1 = ra_pids a ->
                   ra_cmds a1 = ra_cmds a ++ [CLRem key (BElem v)] ->
      exists cs, ra_cmds (fst (rq_read_loop now key limit v5 ifexp r a1)) = ra_cmds a ++ cs /\
        forall k', exists D A' l', rd A (v :: r) D A' l' /\ Forall (removable now limit v5) D /\
          lexec_all (map BElem (A ++ (v :: r) ++ R)) (firstn k' cs) = map BElem (A' ++ l' ++ R)).
    { intros a1 Hrem H1 H2 H3.
      destruct (IH a1 A) as (cs & Hcs & Hk); [congruence|exact HA|exact Hr|now rewrite H2|].
      exists (CLRem key (BElem v) :: cs). split; [rewrite Hcs, H3, <- app_assoc; reflexivity|].
      intros [|k'].
      - exists [], A, (v :: r). split; [constructor|]. split; [constructor|reflexivity].
      - destruct (Hk k') as (D & A' & l' & Hrd & HD & Hx). exists (v :: D), A', l'.
        split; [now constructor|]. split; [now constructor|].
        cbn [firstn lexec_all fold_left]. change ((v :: r) ++ R) with (v :: r ++ R). rewrite (lrem_exact key A (r ++ R) v HA Hv). exact Hx. }
    assert (Hstop : exists cs, ra_cmds a = ra_cmds a ++ cs /\
        forall k', exists D A' l', rd A (v :: r) D A' l' /\ Forall (removable now limit v5) D /\
          lexec_all (map BElem (A ++ (v :: r) ++ R)) (firstn k' cs) = map BElem (A' ++ l' ++ R)).
    { exists []. split; [now rewrite app_nil_r|]. intros k'. exists [], A, (v :: r). rewrite firstn_nil.
      split; [constructor|]. split; [constructor|reflexivity]. }
    destruct (expired now v) eqn:Ex.
    + apply Hrm; try reflexivity. now left.
    + destruct (e_body v) as [m|p0] eqn:Eb; [|exact Hstop].
      destruct (limit <? msg_total_bytes v5 m) eqn:Elim.
      * apply Hrm; try reflexivity. right. exists m. split; [exact Eb|now left].
      * destruct (m_qos m =? 0) eqn:Eq.
        -- apply Hrm; try reflexivity. right. exists m. split; [exact Eb|now right].
        -- destruct (ra_pids a) as [|p pids'] eqn:Epids; [exact Hstop|].
           inversion Hp as [|? ? Hp0 Hpr]; subst.
           set (v' := if ifexp =? 0 then with_body (QPub (set_pid p m)) v
                      else with_expiry (Some (now + ifexp)) (with_body (QPub (set_pid p m)) v)).
           assert (Hid : e_id v' = p) by (unfold v'; destruct (ifexp =? 0); reflexivity).
           assert (Hrw : rewritten v v').
           { right. exists m, p. split; [exact Eb|]. unfold v'. destruct (ifexp =? 0); [now left|right; now eexists]. }
           assert (Hset : lexec (map BElem (A ++ (v :: r) ++ R)) (CLSet key (ra_cur a) (BElem v')) = map BElem ((A ++ [v']) ++ r ++ R)).
           { rewrite Hcur. change ((v :: r) ++ R) with (v :: r ++ R). rewrite lset_exact. now rewrite <- app_assoc. }
           destruct (ra_cache a) as [c|].
           ++ match goal with |- context [rq_read_loop _ _ _ _ _ r ?acc] => destruct (IH acc (A ++ [v'])) as (cs & Hcs & Hk) end.
              ** cbn [ra_cur]. rewrite Hcur, app_length. cbn [length]. lia.
              ** apply Forall_app. split; [exact HA|]. constructor; [congruence|constructor].
              ** exact Hr.
              ** cbn [ra_pids]. exact Hpr.
              ** cbn [ra_cmds] in Hcs. exists (CLSet key (ra_cur a) (BElem v') :: cs).
                 split; [rewrite Hcs, <- app_assoc; reflexivity|]. intros [|k'].
                 --- exists [], A, (v :: r). split; [constructor|]. split; [constructor|reflexivity].
                 --- destruct (Hk k') as (D & A' & l' & Hrd & HD & Hx). exists D, A', l'.
                     split; [eapply rd_keep; [exact Hrw|congruence|exact Hrd]|]. split; [exact HD|].
                     cbn [firstn lexec_all fold_left]. rewrite Hset. exact Hx.
           ++ cbn [fst ra_cmds]. exists [CLSet key (ra_cur a) (BElem v')]. split; [reflexivity|]. intros [|k'].
              ** exists [], A, (v :: r). split; [constructor|]. split; [constructor|reflexivity].
              ** exists [], (A ++ [v']), r. split; [eapply rd_keep; [exact Hrw|congruence|constructor]|]. split; [constructor|].
                 cbn [firstn]. rewrite firstn_nil. cbn [lexec_all fold_left]. exact Hset.
Qed.

(* what `rd` says: the in-flight entries stay in front, untouched and in order, the handed-out elements
   follow them in the order of the window, the rest of the window is a suffix of it; no element is gone
   except the removed ones *)
Lemma rd_front A l D A' l' : rd A l D A' l' ->
  Forall (fun e => e_id e <> 0) A -> Forall (fun e => e_id e = 0) l ->
  (exists H, A' = A ++ H) /\ (exists pre, l = pre ++ l') /\ Forall (fun e => e_id e <> 0) A' /\ Forall (fun e => e_id e = 0) l'.
Proof.
  induction 1 as [A l|A v l D A' l' Hrd IH|A v v' l D A' l' Hrw Hid Hrd IH]; intros HA Hl.
  - split; [exists []; now rewrite app_nil_r|]. split; [now exists []|]. now split.
  - inversion Hl as [|? ? Hv Hr]; subst. destruct (IH HA Hr) as ((H & ->) & (pre & ->) & H3 & H4).
    split; [now exists H|]. split; [now exists (v :: pre)|]. now split.
  - inversion Hl as [|? ? Hv Hr]; subst.
    destruct IH as ((H & ->) & (pre & ->) & H3 & H4); [apply Forall_app; split; [exact HA|constructor; [exact Hid|constructor]]|exact Hr|].
    split; [exists (v' :: H); now rewrite <- app_assoc|]. split; [now exists (v :: pre)|]. now split.
Qed.

Lemma rd_complete A l D A' l' : rd A l D A' l' ->
  (forall a, In a A -> In a A') /\
  (forall v, In v l -> In v D \/ (exists v', rewritten v v' /\ In v' A') \/ In v l').
Proof.
  induction 1 as [A l|A v l D A' l' Hrd [IH1 IH2]|A v v' l D A' l' Hrw Hid Hrd [IH1 IH2]].
  - split; [tauto|]. intros v Hv. right. now right.
  - split; [exact IH1|]. intros x [<-|Hx]; [left; now left|]. destruct (IH2 x Hx) as [H|[H|H]]; [left; now right|right; now left|right; now right].
  - split; [intros a Ha; apply IH1, in_or_app; now left|].
    intros x [<-|Hx]; [right; left; exists v'; split; [exact Hrw|apply IH1, in_or_app; right; now left]|now apply IH2].
Qed.

(* C09, queue clause, Read in progress on a consistent store (in-flight entries `infl` in front of the
   queued ones `qd`, read cursor at the first queued one, non-zero packet ids supplied) *)
Theorem read_cut now pids s q infl qd k' :
  qstore_ok (rq_key q) s -> lview (rq_key q) s = map BElem (infl ++ qd) ->
  Forall (fun e => e_id e <> 0) infl -> Forall (fun e => e_id e = 0) qd ->
  rq_cur q = Z.of_nat (length infl) -> Forall (fun p => p <> 0) pids ->
  exists D A' l',
    rd infl (firstn (length pids) qd) D A' l' /\ Forall (removable now (rq_limit q) (rq_v5 q)) D /\
    lexec_all (lview (rq_key q) s) (firstn k' (r_cmds (rq_read now pids s q))) =
      map BElem (A' ++ l' ++ skipn (length pids) qd).
Proof.
  intros Hs HL Hi Hq Hcur Hp.
  assert (Hnone : exists D A' l', rd infl (firstn (length pids) qd) D A' l' /\ Forall (removable now (rq_limit q) (rq_v5 q)) D /\
            lexec_all (lview (rq_key q) s) (firstn k' []) = map BElem (A' ++ l' ++ skipn (length pids) qd)).
  { exists [], infl, (firstn (length pids) qd). rewrite firstn_nil. split; [constructor|]. split; [constructor|].
    cbn [lexec_all fold_left]. now rewrite firstn_skipn. }
  unfold rq_read. destruct (negb (rq_drained q)); [exact Hnone|]. destruct (rq_closed q); [exact Hnone|].
  destruct (rq_len q <=? rq_cur q)%Z; [exact Hnone|]. destruct (length pids =? 0)%nat eqn:En; [exact Hnone|].
  apply Nat.eqb_neq in En.
  rewrite (window_elems _ s q (infl ++ qd) (length pids) Hs HL) by lia.
  rewrite Hcur, Nat2Z.id, skipn_app, skipn_all, Nat.sub_diag. cbn [skipn app].
  match goal with |- context [rq_read_loop ?a ?b ?c ?d ?e ?l ?acc] =>
    destruct (read_loop_exec a b c d e (skipn (length pids) qd) l acc infl) as (cs & Hcs & Hk) end.
  - reflexivity.
  - exact Hi.
  - apply Forall_firstn. exact Hq.
  - cbn [ra_pids]. exact Hp.
  - cbn [ra_cmds app] in Hcs.
    destruct (rq_read_loop now (rq_key q) (rq_limit q) (rq_v5 q) (rq_ifexp q) (firstn (length pids) qd) _) as [a' p].
    cbn [fst] in Hcs. destruct (Hk k') as (D & A' & l' & Hrd & HD & Hx). exists D, A', l'. split; [exact Hrd|]. split; [exact HD|].
    rewrite HL. rewrite <- (firstn_skipn (length pids) qd) at 1.
    destruct p; cbn [done r_cmds]; rewrite Hcs; exact Hx.
Qed.

(* ---------- B8. (c) for every operation in progress: the in-flight entries stay in front ---------- *)
(* `fi E`: no queued element (packet id 0) is followed by an in-flight one *)
Fixpoint fi (l : list elem) : Prop :=
  match l with
  | [] => True
  | x :: r => (e_id x <> 0 /\ fi r) \/ Forall (fun e => e_id e = 0) (x :: r)
  end.

Lemma fi_zero l : Forall (fun e => e_id e = 0) l -> fi l.
Proof. destruct l as [|x r]; cbn [fi]; [trivial|now right]. Qed.

Lemma fi_parts a b : Forall (fun e => e_id e <> 0) a -> Forall (fun e => e_id e = 0) b -> fi (a ++ b).
Proof. intros Ha Hb. induction Ha as [|x r Hx Hr IH]; cbn [app]; [now apply fi_zero|]. cbn [fi]. left. now split. Qed.

Lemma fi_split l : fi l -> exists a b, l = a ++ b /\ Forall (fun e => e_id e <> 0) a /\ Forall (fun e => e_id e = 0) b.
Proof.
  induction l as [|x r IH]; cbn [fi]; intros H.
  - exists [], []. repeat split; constructor.
  - destruct H as [[Hx Hr]|Hz].
    + destruct (IH Hr) as (a & b & -> & Ha & Hb). exists (x :: a), b. repeat split; [now constructor|exact Hb].
    + exists [], (x :: r). repeat split; [constructor|exact Hz].
Qed.

Lemma fi_remove P x X : fi (P ++ x :: X) -> fi (P ++ X).
Proof.
  induction P as [|p P' IH]; cbn [app fi].
  - intros [[_ H]|H]; [exact H|]. inversion H; subst. now apply fi_zero.
  - intros [[Hp H]|H].
    + left. split; [exact Hp|now apply IH].
    + right. inversion H as [|? ? Hp Hr]; subst. constructor; [exact Hp|].
      apply Forall_app in Hr as [H1 H2]. inversion H2; subst. apply Forall_app. now split.
Qed.

Lemma fi_push l e : fi l -> e_id e = 0 -> fi (l ++ [e]).
Proof.
  intros Hl He. induction l as [|x r IH]; cbn [app]; [cbn [fi]; right; now repeat constructor|].
  cbn [fi] in Hl. destruct Hl as [[Hx Hr]|Hz].
  - cbn [fi]. left. split; [exact Hx|now apply IH].
  - change (x :: r ++ [e]) with ((x :: r) ++ [e]). apply fi_zero. apply Forall_app. split; [exact Hz|now repeat constructor].
Qed.

Lemma fi_ids l l' : map e_id l' = map e_id l -> fi l -> fi l'.
Proof.
  revert l'. induction l as [|x r IH]; intros [|x' r'] E; cbn [map] in E; try discriminate; [trivial|].
  injection E as Ex Er. cbn [fi]. intros [[Hx Hr]|Hz].
  - left. split; [congruence|now apply IH].
  - right. assert (Hm : Forall (fun n => n = 0) (map e_id (x' :: r'))).
    { cbn [map]. rewrite Ex, Er. change (Forall (fun n => n = 0) (map e_id (x :: r))). rewrite Forall_map. exact Hz. }
    rewrite Forall_map in Hm. exact Hm.
Qed.

Lemma upto_expiry_ids l' l : Forall2 upto_expiry l' l -> map e_id l' = map e_id l.
Proof. induction 1 as [|x' x r' r [->|[y ->]] Hr IH]; cbn [map]; [reflexivity|now rewrite IH|now rewrite IH]. Qed.

(* LREM on a list of elements removes one element, or nothing *)
Lemma remove_first_elems d E :
  remove_first (BElem d) (map BElem E) = map BElem E \/
  exists P x X, E = P ++ x :: X /\ remove_first (BElem d) (map BElem E) = map BElem (P ++ X).
Proof.
  induction E as [|y r IH]; cbn [map remove_first blob_eqb]; [now left|].
  destruct (elem_eqb y d).
  - right. exists [], y, r. now split.
  - destruct IH as [IH|(P & x & X & -> & IH)]; [left; now rewrite IH|].
    right. exists (y :: P), x, X. split; [reflexivity|]. now rewrite IH.
Qed.

Lemma fi_lrem d E : fi E -> exists E', remove_first (BElem d) (map BElem E) = map BElem E' /\ fi E'.
Proof.
  intros H. destruct (remove_first_elems d E) as [Hr|(P & x & X & -> & Hr)]; [now exists E|].
  exists (P ++ X). split; [exact Hr|now apply (fi_remove P x X)].
Qed.

Lemma find_id_split pid : forall l i k, find_id_z pid l i = Some k ->
  exists P x X, l = P ++ x :: X /\ e_id x = pid /\ k = (i + Z.of_nat (length P))%Z.
Proof.
  induction l as [|e r IH]; intros i k H; cbn [find_id_z] in H; [discriminate|].
  destruct (N.eqb_spec (e_id e) pid) as [E|E].
  - injection H as <-. exists [], e, r. cbn [length]. repeat split; [exact E|lia].
  - destruct (IH _ _ H) as (P & x & X & -> & Hx & ->). exists (e :: P), x, X. cbn [length]. repeat split; [exact Hx|lia].
Qed.

Lemma lexec_all_1 l c n : lexec_all l (firstn n [c]) = l \/ lexec_all l (firstn n [c]) = lexec l c.
Proof. destruct n as [|n]; [now left|right]. cbn [firstn]. now rewrite firstn_nil. Qed.

(* the operation's own consistency requirement: Add appends a not yet delivered element, Read is given
   non-zero packet ids and its cursor is behind the in-flight entries, the cursor is not negative *)
Definition op_pre (q : rq) (E : list elem) (o : rqop) : Prop :=
  match o with
  | ROp (OAdd _ e) => e_id e = 0
  | ROp (ORead _ pids) =>
      Forall (fun p => p <> 0) pids /\
      exists infl qd, E = infl ++ qd /\ Forall (fun e => e_id e <> 0) infl /\ Forall (fun e => e_id e = 0) qd /\
                      rq_cur q = Z.of_nat (length infl)
  | ROp (OReadInflight _ _) => (0 <= rq_cur q)%Z
  | _ => True
  end.

(* C09, queue clause (c), one operation in progress: if the stored list has the in-flight entries in
   front of the queued ones, so has the list left by ANY part of the operation's commands: a
   ReadInflight after the restart meets the in-flight entries first *)
Theorem one_op_order s q o E k' :
  qstore_ok (rq_key q) s -> lview (rq_key q) s = map BElem E -> fi E -> op_pre q E o ->
  exists E', lexec_all (lview (rq_key q) s) (firstn k' (r_cmds (rq_step s q o))) = map BElem E' /\ fi E'.
Proof.
  intros Hs HL Hfi Hpre.
  assert (Hsame : exists E', lexec_all (lview (rq_key q) s) (firstn k' []) = map BElem E' /\ fi E').
  { exists E. rewrite firstn_nil. now split. }
  destruct o as [o|]; [destruct o|]; cbn [rq_step op_pre] in *.
  - (* Add *)
    destruct (add_cut_lists now e s q k') as [H|[H|(d & _ & _ & [H|H])]]; cbn zeta in H; rewrite H, HL.
    + now exists E.
    + exists (E ++ [e]). split; [now rewrite map_app|now apply fi_push].
    + now apply fi_lrem.
    + destruct (fi_lrem d E Hfi) as (E' & Hr & Hf). exists (E' ++ [e]). split; [now rewrite Hr, map_app|now apply fi_push].
  - (* Read *)
    destruct Hpre as (Hp & infl & qd & -> & Hi & Hq & Hcur).
    destruct (read_cut now pids s q infl qd k' Hs HL Hi Hq Hcur Hp) as (D & A' & l' & Hrd & _ & Hx).
    exists (A' ++ l' ++ skipn (length pids) qd). split; [exact Hx|].
    destruct (rd_front _ _ _ _ _ Hrd Hi (Forall_firstn _ _ _ Hq)) as (_ & _ & HA' & Hl').
    apply fi_parts; [exact HA'|]. apply Forall_app. split; [exact Hl'|].
    rewrite Forall_forall in *. intros x Hx'. apply Hq. eapply In_skipn, Hx'.
  - (* ReadInflight *)
    destruct (readinflight_cut now maxsize s q E k' Hs HL Hpre) as (E' & Hx & Hf). exists E'. split; [exact Hx|].
    apply (fi_ids E); [now apply upto_expiry_ids|exact Hfi].
  - (* Remove *)
    unfold rq_remove. destruct (rq_cache q) as [c|]; [|exact Hsame]. destruct (cache_get pid c) as [b|]; [|exact Hsame].
    cbn [done r_cmds]. destruct (lexec_all_1 (lview (rq_key q) s) (CLRem (rq_key q) (BElem b)) k') as [H|H]; rewrite H, HL.
    + now exists E.
    + cbn [lexec]. now apply fi_lrem.
  - (* Replace *)
    unfold rq_replace. destruct (rq_cur q <=? 0)%Z eqn:Ec; [exact Hsame|]. apply Z.leb_gt in Ec.
    assert (Hw : elems_of (lrange (rq_key q) 0 (rq_cur q - 1) s) = firstn (Z.to_nat (rq_cur q)) E).
    { rewrite (lrange_lview _ _ _ s Hs), HL.
      replace (rq_cur q - 1)%Z with (0 + Z.of_nat (Z.to_nat (rq_cur q)) - 1)%Z by lia.
      rewrite (window_spec (map BElem E) 0 (Z.to_nat (rq_cur q))) by lia.
      cbn [Z.to_nat skipn]. rewrite firstn_map. apply elems_of_map. }
    rewrite Hw. destruct (find_id_z (e_id e) _ 0) as [k|] eqn:Ef; [|exact Hsame].
    destruct (find_id_split _ _ _ _ Ef) as (P & x & X & HPX & Hx & ->). cbn [Z.add].
    assert (HE : E = P ++ x :: (X ++ skipn (Z.to_nat (rq_cur q)) E)).
    { rewrite <- (firstn_skipn (Z.to_nat (rq_cur q)) E) at 1. rewrite HPX, <- app_assoc. reflexivity. }
    assert (Hres : exists E', lexec_all (lview (rq_key q) s) (firstn k' [CLSet (rq_key q) (Z.of_nat (length P)) (BElem e)]) = map BElem E' /\ fi E').
    { destruct (lexec_all_1 (lview (rq_key q) s) (CLSet (rq_key q) (Z.of_nat (length P)) (BElem e)) k') as [H|H]; rewrite H, HL.
      - now exists E.
      - exists (P ++ e :: (X ++ skipn (Z.to_nat (rq_cur q)) E)). split; [rewrite HE at 1; apply lset_exact|].
        apply (fi_ids E); [|exact Hfi]. rewrite HE at 2. rewrite !map_app. cbn [map]. now rewrite Hx. }
    destruct (rq_cache q); cbn [done r_cmds]; exact Hres.
  - (* Init *)
    unfold rq_init. cbn [r_cmds]. destruct clean; [|exact Hsame].
    destruct (lexec_all_1 (lview (rq_key q) s) (CDel (rq_key q)) k') as [H|H]; rewrite H; [rewrite HL; now exists E|].
    exists []. now split.
  - exact Hsame.
  - exact Hsame.
Qed.

(* ================================================================== *)
(* the fresh broker: nothing stored yet                                  *)
(* ================================================================== *)
Lemma ustore_ok_nil c : ustore_ok c [].
Proof. split; [constructor|]. split; [intros l H; discriminate|apply uh_ok_nil]. Qed.

Corollary unack_any_prefix_fresh fx c (ops : list ruop) (k : nat) :
  Forall ruop_u16 ops ->
  exists j, (j <= length ops)%nat /\
    firstn k (snd (ru_run fx c [] [] ops)) = snd (ru_run fx c [] [] (firstn j ops)) /\
    seteq16 (stored_unack c (exec_all [] (firstn k (snd (ru_run fx c [] [] ops))))) (fold_left ua_spec (firstn j ops) []).
Proof. intros H. exact (unack_any_prefix fx c ops [] [] k (ustore_ok_nil c) (Forall_nil _) H). Qed.

Lemma qstore_ok_nil K : qstore_ok K [].
Proof. split; [constructor|intros h H; discriminate]. Qed.

(* ================================================================== *)
(* examples (non-vacuity)                                               *)
(* ================================================================== *)
Definition xq_msg (qos : N) (payload : str) : msg :=
  {| m_dup := false; m_qos := qos; m_retained := false; m_topic := [116]; m_payload := payload; m_pid := 0;
     m_ctype := []; m_corr := []; m_expiry := 0; m_pfmt := 0; m_resp := []; m_subids := []; m_uprops := [] |}.
Definition xq_elem (tag qos : N) : elem :=
  {| e_tag := tag; e_at := 1000; e_expiry := None; e_body := QPub (xq_msg qos [48 + tag]) |}.

(* unack: DEL, HSET 5, HSET 7, HDEL 5; after the restart the reloaded cache answers Set 7 without a command *)
Definition xu_ops : list ruop := [RUInit true; RUSet 5; RUSet 7; RURemove 5; RURestart; RUInit false; RUSet 7].
Example unack_example :
  length (snd (ru_run cur_code [99] [] [] xu_ops)) = 4%nat /\
  map (fun k => stored_unack [99] (exec_all [] (firstn k (snd (ru_run cur_code [99] [] [] xu_ops))))) [0; 1; 2; 3; 4]%nat
  = [[]; []; [5]; [5; 7]; [7]].
Proof. vm_compute. split; reflexivity. Qed.

(* queue, bound 2: the third Add drops the queued QoS 0 message: LREM e2, RPUSH e3.  Cut between the two:
   the victim is gone, the newcomer (not yet reported queued) is absent, e1 is there *)
Definition xq_hist : list rqop :=
  [ROp (OInit true true 1000); ROp (OReadInflight 1000 10); ROp (OAdd 1000 (xq_elem 1 1)); ROp (OAdd 1000 (xq_elem 2 0));
   ROp (OAdd 1000 (xq_elem 3 1)); ROp (ORead 1000 [7; 8])].
Example queue_example :
  let q0 := rq_new 2 0 [99] in
  let J := rq_journal [] q0 xq_hist in
  J = snd (rq_run [] q0 xq_hist) /\ length J = 7%nat /\
  map (fun k => map e_tag (elems_of (lview (rq_key q0) (exec_all [] (firstn k J))))) [3; 4; 5; 6; 7]%nat
    = [[1; 2]; [1]; [1; 3]; [1; 3]; [1; 3]] /\
  map (fun k => map e_id (elems_of (lview (rq_key q0) (exec_all [] (firstn k J))))) [5; 6; 7]%nat
    = [[0; 0]; [7; 0]; [7; 8]].
Proof. vm_compute. repeat split; reflexivity. Qed.
