(* C11 (wire level) - shared subscriptions in the broker model Model/Broker.v: what LEAVING a
   share group does, for all reachable states.

   A member leaves by UNSUBSCRIBE (`handle_unsubscribe`) or by the end of its session
   (`remove_session`: clean-start CONNECT, close with expiry 0, DISCONNECT then close with expiry 0,
   take-over with clean start, ETerminate, EExpireCheck after the deadline).  Every one of these
   steps appends `OUnsub` / `OUnsubAll` operations of the leaver - and nothing else - to the history
   of the subscription store (`hist_ext`, sections 5, 6; `leaving`, `leaving_hist`, section 10).
   From the store refinement (Proofs/SubTrieP.v) the flat specification then changes at the leaver's
   keys only (`leave_spec`, `leaving_spec`), the leaver is no longer found by `deliver`
   (`found_sound`, `not_member_not_selected`, `leaver_not_selected`), and the lists `deliver` works on
   are the old ones with the leaver's entries filtered out, in the same order (section 11:
   `found_after_leave`, `groups_filter`, `leaving_groups`).
   A connection that ends while the session persists leaves the store alone (section 7).
   A SUBSCRIBE to a shared filter replays no retained message (section 8); the copy queued for the
   picked member has that member's granted QoS cap and subscription identifier (section 9). *)
From Coq Require Import List NArith ZArith Bool Arith Lia ZifyN ZifyNat ZifyBool.
Import ListNotations.
From GM Require Import Base.Topic Base.Msg Model.SubTrie Model.SubSpec Model.RetTrie Model.Queue Model.Limiter
  Model.TopicMatch Model.Broker Proofs.TopicP Proofs.SubTrieP Proofs.BrokerBasicP Proofs.BrokerRetainP
  Proofs.DeliverP Proofs.BrokerInvP.
Open Scope N_scope.

(* ================================================================== *)
(* 1. histories of the subscription store                              *)
(* ================================================================== *)

(* the store of s is the result of the well-formed history ops *)
Definition sub_hist (s : st) (ops : list op) : Prop := wf_ops ops = true /\ b_subs s = db_run ops.

(* the store of s' is the store of s after the operations extra *)
Definition hist_ext (s s' : st) (extra : list op) : Prop :=
  wf_ops extra = true /\ b_subs s' = fold_left db_step extra (b_subs s).

Lemma wf_ops_app a b : wf_ops (a ++ b) = wf_ops a && wf_ops b.
Proof. unfold wf_ops. apply forallb_app. Qed.

Lemma db_run_app a b : db_run (a ++ b) = fold_left db_step b (db_run a).
Proof. unfold db_run. apply fold_left_app. Qed.

Lemma spec_run_app a b : spec_run (a ++ b) = fold_left spec_step b (spec_run a).
Proof. unfold spec_run. apply fold_left_app. Qed.

Lemma hist_ext_hist s s' extra ops : hist_ext s s' extra -> sub_hist s ops -> sub_hist s' (ops ++ extra).
Proof.
  intros [Hw He] [Hwf Hd]. split; [now rewrite wf_ops_app, Hwf, Hw|]. now rewrite db_run_app, He, Hd.
Qed.

Lemma hist_ext_refl s : hist_ext s s [].
Proof. split; reflexivity. Qed.

Lemma hist_ext_same s s' : b_subs s' = b_subs s -> hist_ext s s' [].
Proof. intros H. split; [reflexivity|exact H]. Qed.

Lemma hist_ext_trans a b c e1 e2 : hist_ext a b e1 -> hist_ext b c e2 -> hist_ext a c (e1 ++ e2).
Proof.
  intros [W1 E1] [W2 E2]. split; [now rewrite wf_ops_app, W1, W2|]. now rewrite fold_left_app, <- E1.
Qed.

Lemma hist_ext_subs_l a a' b e : b_subs a' = b_subs a -> hist_ext a b e -> hist_ext a' b e.
Proof. intros H [W E]. split; [exact W|]. now rewrite H. Qed.

Lemma hist_ext_subs_r a b b' e : b_subs b' = b_subs b -> hist_ext a b e -> hist_ext a b' e.
Proof. intros H [W E]. split; [exact W|]. now rewrite H. Qed.

Lemma hist_ext_frame_r a b b' e : frame b b' -> hist_ext a b e -> hist_ext a b' e.
Proof. intros F. apply hist_ext_subs_r. apply (fr_subs _ _ F). Qed.

Lemma SubsInv_hist s : SubsInv s -> exists ops, sub_hist s ops.
Proof. intros (ops & H1 & H2 & _). exists ops. now split. Qed.

(* ================================================================== *)
(* 2. the specification after leaving                                  *)
(* ================================================================== *)

Definition key_of (e : cid * sub) : skey := (fst e, s_share (snd e), s_filter (snd e)).

(* the keys an operation removes *)
Definition op_removes (o : op) (key : skey) : bool :=
  match o with
  | OSub _ _ => false
  | OUnsub c t => skey_eqb key (c, fst (split_topic t), snd (split_topic t))
  | OUnsubAll c => str_eqb c (fst (fst key))
  end.
Definition removes (extra : list op) (key : skey) : bool := existsb (fun o => op_removes o key) extra.

Definition is_leave (o : op) : bool := match o with OSub _ _ => false | _ => true end.
Definition leave_only (extra : list op) : bool := forallb is_leave extra.

Lemma spec_step_leave sp o key :
  is_leave o = true -> NoDup (map fst sp) ->
  sp_get key (spec_step sp o) = if op_removes o key then None else sp_get key sp.
Proof.
  intros Hl Hnd. destruct o as [c sb|c t|c]; [discriminate| |].
  - rewrite spec_step_unsub. cbn [op_removes]. now apply sp_get_del.
  - cbn [spec_step op_removes]. unfold sp_del_client.
    rewrite (sp_get_filter (fun k => negb (str_eqb c (fst (fst k))))).
    destruct (str_eqb c (fst (fst key))); reflexivity.
Qed.

Lemma spec_nodup ops : wf_ops ops = true -> NoDup (map fst (spec_run ops)).
Proof. intros H. apply (inv_ok _ _ (Inv_run ops H)). Qed.

(* targets 1/2, specification level: leaving operations remove exactly the keys they name *)
Theorem leave_spec ops extra key :
  wf_ops (ops ++ extra) = true -> leave_only extra = true ->
  sp_get key (spec_run (ops ++ extra)) = if removes extra key then None else sp_get key (spec_run ops).
Proof.
  revert ops. induction extra as [|o r IH]; intros ops Hwf Hl.
  - now rewrite app_nil_r.
  - cbn [leave_only forallb] in Hl. apply andb_true_iff in Hl as [Ho Hr].
    replace (ops ++ o :: r) with ((ops ++ [o]) ++ r) in * by now rewrite <- app_assoc.
    rewrite IH by assumption. cbn [removes existsb]. fold (removes r key).
    rewrite spec_run_snoc.
    assert (Hwf0 : wf_ops ops = true).
    { rewrite !wf_ops_app in Hwf. now apply andb_true_iff in Hwf as [Hwf _]; apply andb_true_iff in Hwf as [Hwf _]. }
    rewrite (spec_step_leave _ o key Ho (spec_nodup ops Hwf0)).
    destruct (op_removes o key); cbn [orb]; [now destruct (removes r key)|reflexivity].
Qed.

Lemma removes_unsub_all c n key : removes (repeat (OUnsubAll c) (S n)) key = str_eqb c (fst (fst key)).
Proof.
  induction n as [|n IH]; cbn [repeat removes existsb op_removes] in *.
  - apply orb_false_r.
  - fold (removes (repeat (OUnsubAll c) n) key) in *. rewrite IH. apply orb_diag.
Qed.

Lemma leave_only_repeat c n : leave_only (repeat (OUnsubAll c) n) = true.
Proof. induction n; [reflexivity|exact IHn]. Qed.

Lemma leave_only_unsubs c topics : leave_only (map (OUnsub c) topics) = true.
Proof. induction topics; [reflexivity|assumption]. Qed.

Lemma leave_only_app a b : leave_only (a ++ b) = leave_only a && leave_only b.
Proof. apply forallb_app. Qed.

Lemma removes_app a b key : removes (a ++ b) key = removes a key || removes b key.
Proof. apply existsb_app. Qed.

Lemma removes_unsubs c topics key :
  removes (map (OUnsub c) topics) key =
  existsb (fun t => skey_eqb key (c, fst (split_topic t), snd (split_topic t))) topics.
Proof. induction topics as [|t r IH]; [reflexivity|]. cbn [map removes existsb op_removes]. now rewrite <- IH. Qed.

(* ================================================================== *)
(* 3. what the store returns is in the specification (any topic)       *)
(* ================================================================== *)

Lemma node_entry_get k sp T p c sb :
  spec_ok sp -> TInv k (fun key => sp_get key sp) T -> In (c, sb) (set_rs (nd p T)) ->
  p = split (s_filter sb) /\ kind_of (s_share sb) (s_filter sb) = k /\
  sp_get (c, s_share sb, s_filter sb) sp = Some sb.
Proof. intros Hok [_ HN] Hin. exact (entry_sound k sp Hok p _ c sb (HN p) Hin). Qed.

Lemma iterate_sound topic d sp l :
  Inv d sp -> db_iterate (deliver_opts topic) d = IOk l ->
  forall c x, In (c, x) l -> exists sb, x = Some sb /\ sp_get (c, s_share sb, s_filter sb) sp = Some sb.
Proof.
  intros HI. pose proof (inv_ok _ _ HI) as Hok.
  assert (HT : forall k e, (In e (traverse (trie_of k d)) \/ In e (tmatch_top topic (trie_of k d))) ->
               sp_get (fst e, s_share (snd e), s_filter (snd e)) sp = Some (snd e)).
  { intros k [c sb] [Hin|Hin]; cbn [fst snd].
    - destruct (traverse_sound _ _ (proj1 (inv_trie _ _ HI k)) Hin) as [p Hp].
      now destruct (node_entry_get k sp _ p c sb Hok (inv_trie _ _ HI k) Hp) as (_ & _ & H).
    - destruct (tmatch_top_sound _ _ _ Hin) as [p Hp].
      now destruct (node_entry_get k sp _ p c sb Hok (inv_trie _ _ HI k) Hp) as (_ & _ & H). }
  assert (HS : forall k (L : list (cid * sub)),
            (forall e, In e L -> In e (traverse (trie_of k d)) \/ In e (tmatch_top topic (trie_of k d))) ->
            forall c x, In (c, x) (some_ents L) ->
              exists sb, x = Some sb /\ sp_get (c, s_share sb, s_filter sb) sp = Some sb).
  { intros k L HL c x Hin. unfold some_ents in Hin. apply in_map_iff in Hin as ([c' sb] & E & Hin).
    injection E as <- <-. exists sb. split; [reflexivity|]. apply (HT k (c', sb)). now apply HL. }
  unfold db_iterate, deliver_opts. cbn [io_shared io_nonshared io_sys io_topic].
  unfold iterate_shared, iterate_nonshared. cbn [io_client io_topic io_mt is_empty negb].
  change (sharedT d) with (trie_of KShared d). change (userT d) with (trie_of KUser d).
  change (sysT d) with (trie_of KSys d).
  destruct (is_empty topic) eqn:Et; cbn [negb andb].
  - intros [= <-] c x Hin. apply in_app_or in Hin as [Hin|Hin]; [|apply in_app_or in Hin as [Hin|Hin]].
    + apply (HS KShared _ (fun e H => or_introl H) c x Hin).
    + apply (HS KUser _ (fun e H => or_introl H) c x Hin).
    + apply (HS KSys _ (fun e H => or_introl H) c x Hin).
  - intros [= <-] c x Hin. apply in_app_or in Hin as [Hin|Hin]; [|apply in_app_or in Hin as [Hin|Hin]].
    + apply (HS KShared _ (fun e H => or_intror H) c x Hin).
    + destruct (starts_dollar topic); cbn [negb] in Hin; [destruct Hin|].
      apply (HS KUser _ (fun e H => or_intror H) c x Hin).
    + destruct (starts_dollar topic); cbn [negb] in Hin; [|destruct Hin].
      apply (HS KSys _ (fun e H => or_intror H) c x Hin).
Qed.

(* every entry `deliver` looks at is the entry of the specification at its own key *)
Theorem found_sound m s ops (c : str) sb :
  sub_hist s ops -> In (c, sb) (d_found m s) -> sp_get (c, s_share sb, s_filter sb) (spec_run ops) = Some sb.
Proof.
  intros [Hwf Hd] Hin. unfold d_found in Hin. rewrite Hd in Hin.
  destruct (db_iterate (deliver_opts (m_topic m)) (db_run ops)) as [l|] eqn:El; [|destruct Hin].
  apply in_flat_map in Hin as ([c' x] & Hl & Hin). cbn [fst snd] in Hin.
  destruct (iterate_sound _ _ _ l (Inv_run ops Hwf) El c' x Hl) as (sb' & -> & Hget).
  destruct Hin as [E|[]]. injection E as <- <-. exact Hget.
Qed.

Lemma shared_in_found src m s e : In e (d_shared src m s) -> In e (d_found m s) /\ s_share (snd e) <> [].
Proof.
  unfold d_shared, d_ents. intros H. apply filter_In in H as [H Hs]. apply filter_In in H as [H _].
  split; [exact H|]. unfold is_plain in Hs. apply negb_true_iff in Hs. now apply is_empty_false.
Qed.

(* ================================================================== *)
(* 4. target 1 (core): who is not a member is not selected             *)
(* ================================================================== *)

(* the call is made for client cid through its shared subscription (g, f) *)
Definition call_through (cid g f : str) (cl : call) : Prop :=
  call_cid cl = cid /\ s_share (call_sub cl) = g /\ s_filter (call_sub cl) = f.

Lemma not_member_not_in_groups src m s ops (cid g f : str) :
  sub_hist s ops -> sp_get (cid, g, f) (spec_run ops) = None ->
  forall k members, In (k, members) (d_groups src m s) ->
  forall sb, In (cid, sb) members -> ~ (s_share sb = g /\ s_filter sb = f).
Proof.
  intros Hh Hnone k members Hg sb Hin [<- <-].
  apply d_groups_spec in Hg as [-> _]. apply filter_In in Hin as [Hin _].
  apply shared_in_found in Hin as [Hin _].
  rewrite (found_sound m s ops cid sb Hh Hin) in Hnone. discriminate.
Qed.

(* in any state whose specification has no entry (cid, g, f): `deliver`, for any message and any pick
   values, is a sequence of add_to_queue calls none of which is for cid through (g, f) *)
Theorem not_member_not_selected src m s ops (cid g f : str) :
  sub_hist s ops -> g <> [] -> sp_get (cid, g, f) (spec_run ops) = None ->
  exists cl1 picked cl3 p n,
    deliver src m s = (set_pk p n (fst (run_calls m (cl1 ++ picked ++ cl3) (s, []))),
                       snd (run_calls m (cl1 ++ picked ++ cl3) (s, [])), nonnil (d_ents src m s)) /\
    Forall2 group_call (d_groups src m s) picked /\
    Forall (fun cl => ~ call_through cid g f cl) (cl1 ++ picked ++ cl3).
Proof.
  intros Hh Hg Hnone.
  destruct (C11_one_member_per_group_l src m s) as (cl1 & picked & cl3 & p & n & E & F2 & Fs & Fp).
  exists cl1, picked, cl3, p, n. split; [exact E|]. split; [exact F2|].
  assert (Hpk : Forall (fun cl => ~ call_through cid g f cl) picked).
  { eapply Forall_impl; [|exact Fs]. cbn beta. intros cl Hin (<- & <- & <-).
    apply shared_in_found in Hin as [Hin _].
    rewrite (found_sound m s ops _ _ Hh Hin) in Hnone. discriminate. }
  apply Forall_app in Fp as [Fp1 Fp3].
  assert (Hplain : forall l, Forall (fun cl => is_empty (s_share (call_sub cl)) = true) l ->
                             Forall (fun cl => ~ call_through cid g f cl) l).
  { intros l Hl. eapply Forall_impl; [|exact Hl]. cbn beta. intros cl He (_ & Hs & _).
    apply is_empty_true in He. congruence. }
  apply Forall_app. split; [now apply Hplain|]. apply Forall_app. split; [exact Hpk|now apply Hplain].
Qed.

(* the same for a client that has no entry at all: it is in no group, and its queue is not touched *)
Theorem no_entry_not_selected src m s ops (cid : str) :
  sub_hist s ops -> (forall g f, sp_get (cid, g, f) (spec_run ops) = None) ->
  (forall k members, In (k, members) (d_groups src m s) -> forall sb, ~ In (cid, sb) members) /\
  aget cid (b_queues (fst (fst (deliver src m s)))) = aget cid (b_queues s).
Proof.
  intros Hh Hnone. split.
  - intros k members Hg sb Hin.
    exact (not_member_not_in_groups src m s ops cid _ _ Hh (Hnone _ _) k members Hg sb Hin (conj eq_refl eq_refl)).
  - apply deliver_frame. unfold of_cl.
    match goal with |- filter ?p ?l = [] => destruct (filter p l) as [|[c sb] r] eqn:E; [reflexivity|] end.
    assert (Hin : In (c, sb) (filter (fun e : str * sub => str_eqb cid (fst e)) (d_ents src m s))) by (rewrite E; now left).
    apply filter_In in Hin as [Hin Hc]. cbn [fst] in Hc. apply str_eqb_eq in Hc. subst c.
    unfold d_ents in Hin. apply filter_In in Hin as [Hin _].
    pose proof (found_sound m s ops cid sb Hh Hin) as Hf. rewrite Hnone in Hf. discriminate.
Qed.

(* ================================================================== *)
(* 5. the leaving mechanisms, as extensions of the store's history     *)
(* ================================================================== *)

Lemma wf_unsub_all (cid : str) : cid <> [] -> wf_ops [OUnsubAll cid] = true.
Proof. intros H. apply is_empty_false in H. unfold wf_ops. cbn [forallb wf_op]. now rewrite H. Qed.

Lemma wf_unsub_all_repeat (cid : str) n : cid <> [] -> wf_ops (repeat (OUnsubAll cid) n) = true.
Proof.
  intros H. apply is_empty_false in H. unfold wf_ops. induction n as [|n IH]; [reflexivity|].
  cbn [repeat forallb wf_op]. now rewrite H, IH.
Qed.

Lemma wf_unsubs (cid : str) topics : cid <> [] -> wf_ops (map (OUnsub cid) topics) = true.
Proof.
  intros H. apply is_empty_false in H. unfold wf_ops. induction topics as [|t r IH]; [reflexivity|].
  cbn [map forallb wf_op]. now rewrite H, IH.
Qed.

(* --- the end of a session --- *)
Lemma remove_session_hist (cid : str) s : cid <> [] -> hist_ext s (remove_session cid s) [OUnsubAll cid].
Proof. intros H. split; [now apply wf_unsub_all|reflexivity]. Qed.

(* --- UNSUBSCRIBE --- *)
Lemma fold_unsub_ops (cid : str) topics : forall d,
  fold_left (fun d t => db_unsubscribe cid t d) topics d = fold_left db_step (map (OUnsub cid) topics) d.
Proof. induction topics as [|t r IH]; intros d; [reflexivity|]. cbn [fold_left map db_step]. apply IH. Qed.

Lemma handle_unsubscribe_hist c k pid topics s :
  k_cid k <> [] -> hist_ext s (hres_st (handle_unsubscribe c k pid topics s)) (map (OUnsub (k_cid k)) topics).
Proof.
  intros H. split; [now apply wf_unsubs|]. unfold handle_unsubscribe. cbn [hres_st]. proj. apply fold_unsub_ops.
Qed.

(* --- the end of a connection: the session ends with it iff the expiry in force is 0 (or the
       client was terminated by the administrator) --- *)
Definition ends_session (k : conn) (se : session) (cf : cfg) : bool :=
  k_force_remove k || (ur_expiry k se cf =? 0).

Lemma unreg_res_hist (cid : str) k sess cf s1 s' se :
  unreg_res cid k sess cf s1 s' -> aget cid sess = Some se -> cid <> [] ->
  hist_ext s1 s' (if ends_session k se cf then [OUnsubAll cid] else []) /\
  (if ends_session k se cf then s' = remove_session cid s1
   else s' = store_tables cid se (ur_expiry k se cf) s1).
Proof.
  intros [H ->|se' Hs Hf He ->] Hse Hne.
  - assert (E : ends_session k se cf = true).
    { unfold ends_session. destruct H as [H|(se' & H & [Hf|He])]; [congruence| |];
        rewrite Hse in H; injection H as <-.
      - now rewrite Hf.
      - rewrite He. apply orb_true_r. }
    rewrite E. split; [now apply remove_session_hist|reflexivity].
  - rewrite Hse in Hs. injection Hs as <-.
    assert (E : ends_session k se cf = false).
    { unfold ends_session. rewrite Hf. cbn [orb]. now apply N.eqb_neq. }
    rewrite E. split; [now apply hist_ext_same|reflexivity].
Qed.

Lemma conn_gone_att_res c k s se :
  nget c (b_conns s) = Some k -> attached (k_phase k) = true ->
  aget (k_cid k) (b_sessions s) = Some se -> k_cid k <> [] ->
  exists s1, frame (upd_conn c (set_phase PhClosed k) s) s1 /\
    hist_ext s (fst (conn_gone c s)) (if ends_session k se (b_cfg s) then [OUnsubAll (k_cid k)] else []) /\
    (if ends_session k se (b_cfg s) then fst (conn_gone c s) = remove_session (k_cid k) s1
     else fst (conn_gone c s) = store_tables (k_cid k) se (ur_expiry k se (b_cfg s)) s1).
Proof.
  intros Hk Ha Hse Hne. destruct (conn_gone_att_spec c k s Hk Ha) as (s1 & o' & _ & _ & F & R).
  destruct (unreg_res_hist _ _ _ _ _ _ se R Hse Hne) as [H1 H2].
  change (ends_session (set_phase PhClosed k) se (b_cfg s)) with (ends_session k se (b_cfg s)) in *.
  change (ur_expiry (set_phase PhClosed k) se (b_cfg s)) with (ur_expiry k se (b_cfg s)) in *.
  exists s1. split; [exact F|]. split; [|exact H2].
  eapply hist_ext_subs_l; [|exact H1]. now rewrite (fr_subs _ _ F).
Qed.

Lemma conn_gone_att_hist c k s se :
  nget c (b_conns s) = Some k -> attached (k_phase k) = true ->
  aget (k_cid k) (b_sessions s) = Some se -> k_cid k <> [] ->
  hist_ext s (fst (conn_gone c s)) (if ends_session k se (b_cfg s) then [OUnsubAll (k_cid k)] else []).
Proof. intros Hk Ha Hse Hne. now destruct (conn_gone_att_res c k s se Hk Ha Hse Hne) as (s1 & _ & H & _). Qed.

(* the session table after the connection has gone *)
Lemma conn_gone_att_sessions c k s se (cid' : str) :
  NoDup (keys (b_sessions s)) ->
  nget c (b_conns s) = Some k -> attached (k_phase k) = true ->
  aget (k_cid k) (b_sessions s) = Some se -> k_cid k <> [] ->
  ahas cid' (b_sessions (fst (conn_gone c s))) =
  if ends_session k se (b_cfg s) then negb (str_eqb cid' (k_cid k)) && ahas cid' (b_sessions s)
  else ahas cid' (b_sessions s).
Proof.
  intros Hnd Hk Ha Hse Hne. destruct (conn_gone_att_res c k s se Hk Ha Hse Hne) as (s1 & F & _ & H).
  pose proof (fr_sess _ _ F) as Es. proj_in Es.
  destruct (ends_session k se (b_cfg s)); rewrite H.
  - proj. rewrite Es. now apply ahas_adel.
  - unfold store_tables. proj. rewrite Es, ahas_aset.
    destruct (str_eqb_spec cid' (k_cid k)) as [->|E]; [|reflexivity].
    cbn [orb]. symmetry. eapply ahas_some; eauto.
Qed.

(* a connection that goes away, seen from a client id: nothing, or that client's session ends *)
Lemma conn_gone_hist_for (cid : str) c s :
  BInv s -> (forall cid' f, cv s c = Some (cid', f) -> cid' = cid) ->
  exists n, hist_ext s (fst (conn_gone c s)) (repeat (OUnsubAll cid) n) /\
            ahas cid (b_sessions (fst (conn_gone c s))) =
            match n with O => ahas cid (b_sessions s) | S _ => false end.
Proof.
  intros HI Hc. destruct (cv s c) as [[cid' f]|] eqn:Ec.
  - specialize (Hc cid' f eq_refl). subst cid'.
    pose proof (bi_conn _ _ HI _ _ _ Ec) as Hon.
    apply cv_some in Ec as (k & Hk & Hcid & Ha & _).
    destruct (bi_has _ _ HI cid) as (Hs & _); [now rewrite (ahas_some _ _ _ Hon)|].
    pose proof (bi_ne _ _ HI _ Hs) as Hne. apply ahas_true in Hs as [se Hse].
    rewrite <- Hcid in Hse, Hne.
    pose proof (conn_gone_att_hist c k s se Hk Ha Hse Hne) as HH.
    pose proof (conn_gone_att_sessions c k s se cid (bi_nd_sess _ _ HI) Hk Ha Hse Hne) as HS.
    rewrite Hcid in *. destruct (ends_session k se (b_cfg s)).
    + exists 1%nat. split; [exact HH|]. rewrite HS, str_eqb_refl. reflexivity.
    + exists 0%nat. split; [exact HH|exact HS].
  - exists 0%nat. destruct (conn_gone_unatt c s Ec) as [->|(k & Hk & ->)]; cbn [fst repeat];
      (split; [now apply hist_ext_same|reflexivity]).
Qed.

(* --- CONNECT with Clean Start --- *)
Lemma hc_old_hist (cid : str) v5 cmax r0 s :
  cid <> [] ->
  hist_ext s (fst (fst (hc_old cid v5 cmax r0 s))) (if ahas cid (b_sessions s) && negb r0 then [OUnsubAll cid] else []).
Proof.
  intros Hne. unfold hc_old, ahas. destruct (aget cid (b_sessions s)) as [se|]; cbn [andb].
  - destruct r0; cbn [negb].
    + destruct (aget cid (b_queues s)); [|apply hist_ext_refl].
      destruct (aget cid (b_unacks s)); [|apply hist_ext_refl]. cbn [fst]. now apply hist_ext_same.
    + cbv zeta. pose proof (remove_session_hist cid s Hne) as HR.
      destruct (aget cid (b_wills (remove_session cid s))) as [[w t]|]; cbn [fst]; [|exact HR].
      revert HR. now apply hist_ext_subs_r.
  - apply hist_ext_refl.
Qed.

Lemma hc_resume0_clean (cid : str) cn s : cn_clean cn = true -> hc_resume0 cid cn s = false.
Proof.
  intros H. unfold hc_resume0. destruct (aget cid (b_sessions s)); [|reflexivity]. rewrite H. apply andb_false_r.
Qed.

Lemma repeat_app_unsub (cid : str) a b : repeat (OUnsubAll cid) a ++ repeat (OUnsubAll cid) b = repeat (OUnsubAll cid) (a + b).
Proof. symmetry. apply repeat_app. Qed.

Lemma hc_accept_hist c cn s :
  BInv s -> cv s c = None -> cn_clean cn = true ->
  exists n, hist_ext s (fst (hc_accept c cn s)) (repeat (OUnsubAll (hc_cid cn s)) n) /\
            (ahas (hc_cid cn s) (b_sessions s) = true -> (1 <= n)%nat).
Proof.
  intros HI Hc Hclean. unfold hc_accept. cbv zeta. set (cid := hc_cid cn s).
  pose proof (hc_cid_ne cn s) as Hne. fold cid in Hne.
  assert (HI0 : BInv (hc_auto cn s)) by (eapply BInvG_cframe; [apply wframe_cframe, hc_auto_frame|exact HI]).
  assert (Hc0 : cv (hc_auto cn s) c = None)
    by (rewrite (cf_cv _ _ (wframe_cframe _ _ (hc_auto_frame cn s))); exact Hc).
  assert (Hsub0 : b_subs (hc_auto cn s) = b_subs s) by (unfold hc_auto; now destruct (is_empty (cn_cid cn))).
  assert (Hses0 : b_sessions (hc_auto cn s) = b_sessions s) by (unfold hc_auto; now destruct (is_empty (cn_cid cn))).
  destruct (hc_takeover_spec cid c (hc_auto cn s) HI0 Hc0) as (HI1 & _).
  assert (HT : exists n1, hist_ext (hc_auto cn s) (fst (hc_takeover cid (hc_auto cn s))) (repeat (OUnsubAll cid) n1) /\
                 ahas cid (b_sessions (fst (hc_takeover cid (hc_auto cn s)))) =
                 match n1 with O => ahas cid (b_sessions (hc_auto cn s)) | S _ => false end).
  { unfold hc_takeover. destruct (aget cid (b_online (hc_auto cn s))) as [oldc|] eqn:Eo.
    - apply conn_gone_hist_for; [exact HI0|]. intros cid' f Hcv.
      pose proof (bi_conn _ _ HI0 _ _ _ Hcv) as Hon'.
      destruct (bi_on _ _ HI0 cid oldc Eo) as [f' Hf']; [discriminate|]. congruence.
    - exists 0%nat. cbn [fst repeat]. split; [apply hist_ext_refl|reflexivity]. }
  destruct HT as (n1 & HT1 & HT2).
  destruct (hc_takeover cid (hc_auto cn s)) as [s1 o_dup]. cbn [fst] in *.
  pose proof (hc_old_hist cid (cn_ver cn =? 5) (hc_cmax cn) (hc_resume0 cid cn s1) s1 Hne) as HO.
  rewrite (hc_resume0_clean cid cn s1 Hclean) in *. cbn [negb] in HO. rewrite andb_true_r in HO.
  destruct (hc_old cid (cn_ver cn =? 5) (hc_cmax cn) false s1) as [[s2 o_will] resume].
  cbn [fst] in *. destruct (hc_wd_exp cn (b_cfg s)) as [wd ex].
  match goal with |- context [hc_wills o_will ?S] =>
    pose proof (hc_wills_quiet o_will S) as [F5 _]; set (s4 := S) in *; destruct (hc_wills o_will s4) as [s5 o_w] end.
  cbn [fst] in *.
  assert (E4 : b_subs s4 = b_subs s2) by (unfold s4, hc_register, hc_fresh; destruct resume; reflexivity).
  exists (n1 + (if ahas cid (b_sessions s1) then 1 else 0))%nat. split.
  - eapply hist_ext_frame_r; [exact F5|]. eapply hist_ext_subs_r; [exact E4|].
    rewrite <- repeat_app_unsub. eapply hist_ext_trans; [eapply hist_ext_subs_l; [symmetry; exact Hsub0|exact HT1]|].
    destruct (ahas cid (b_sessions s1)); exact HO.
  - intros Hs. rewrite HT2, Hses0 in *. destruct n1 as [|n1]; [|lia]. rewrite Hs. cbn. lia.
Qed.

Lemma handle_connect_hist c cn s :
  BInv s -> cv s c = None -> hc_rejected cn s = false -> cn_clean cn = true ->
  exists n, hist_ext s (fst (handle_connect c cn s)) (repeat (OUnsubAll (hc_cid cn s)) n) /\
            (ahas (hc_cid cn s) (b_sessions s) = true -> (1 <= n)%nat).
Proof. intros HI Hc Hr Hcl. rewrite (handle_connect_accepted c cn s Hr). now apply hc_accept_hist. Qed.

(* ================================================================== *)
(* 6. the leaving steps of the broker                                  *)
(* ================================================================== *)

Lemma step_hist s e extra : hist_ext s (fst (step_event s e)) extra -> hist_ext s (fst (step s e)) extra.
Proof. apply hist_ext_frame_r, step_frame_poll. Qed.

Lemma attached_session s c k :
  BInv s -> nget c (b_conns s) = Some k -> attached (k_phase k) = true ->
  k_cid k <> [] /\ ahas (k_cid k) (b_sessions s) = true /\ k_force_remove k = false.
Proof.
  intros HI Hk Ha. pose proof (BInv_attached_online s c k HI Hk Ha) as Hon.
  destruct (bi_has _ _ HI (k_cid k)) as (Hs & _); [now rewrite (ahas_some _ _ _ Hon)|].
  split; [now apply (bi_ne _ _ HI)|]. split; [exact Hs|].
  apply (bi_force _ _ HI c (k_cid k)); [|discriminate]. apply cv_some. now exists k.
Qed.

(* (a) UNSUBSCRIBE *)
Theorem unsubscribe_step_hist s c k pid props topics :
  BInv s -> nget c (b_conns s) = Some k -> k_phase k = PhConnected ->
  hist_ext s (fst (step s (ESend c (KUnsubscribe pid props topics)))) (map (OUnsub (k_cid k)) topics).
Proof.
  intros HI Hk Hp. apply step_hist. cbn [step_event]. rewrite Hk, Hp. cbn [handle_packet handle_unsubscribe fst].
  assert (Ha : attached (k_phase k) = true) by now rewrite Hp.
  destruct (attached_session s c k HI Hk Ha) as (Hne & _).
  exact (handle_unsubscribe_hist c k pid topics s Hne).
Qed.

(* (b) the connection ends (closed by the peer, or by the broker after an error): the session ends
   with it iff the Session Expiry Interval in force is 0 *)
Theorem close_step_hist s c k se :
  BInv s -> nget c (b_conns s) = Some k -> attached (k_phase k) = true ->
  aget (k_cid k) (b_sessions s) = Some se ->
  hist_ext s (fst (step s (EClose c))) (if ur_expiry k se (b_cfg s) =? 0 then [OUnsubAll (k_cid k)] else []).
Proof.
  intros HI Hk Ha Hse. apply step_hist. cbn [step_event].
  destruct (attached_session s c k HI Hk Ha) as (Hne & _ & Hf).
  pose proof (conn_gone_att_hist c k s se Hk Ha Hse Hne) as H.
  unfold ends_session in H. rewrite Hf in H. cbn [orb] in H.
  destruct (conn_gone c s) as [s' o]. exact H.
Qed.

(* (c) ETerminate: the administrator removes the client, online or offline *)
Theorem terminate_step_hist s (cid : str) :
  BInv s -> ahas cid (b_sessions s) = true ->
  hist_ext s (fst (step s (ETerminate cid))) [OUnsubAll cid].
Proof.
  intros HI Hs. apply step_hist. cbn [step_event].
  pose proof (bi_ne _ _ HI _ Hs) as Hne.
  destruct (aget cid (b_online s)) as [c|] eqn:Eo.
  - destruct (BInv_online_attached s cid c HI Eo) as (k & Hk & Hcid & Ha & _). rewrite Hk.
    apply ahas_true in Hs as [se Hse].
    pose proof (conn_gone_att_hist c (set_force k) (upd_conn c (set_force k) s) se) as H.
    change (k_cid (set_force k)) with (k_cid k) in H. rewrite Hcid in H.
    change (ends_session (set_force k) se (b_cfg (upd_conn c (set_force k) s))) with true in H.
    eapply hist_ext_subs_l; [|apply H]; [reflexivity|proj; apply nget_nset_same|exact Ha|exact Hse|exact Hne].
  - pose proof (bi_sess _ _ HI _ Hs) as Hoo. rewrite (ahas_none _ _ Eo) in Hoo. cbn [orb] in Hoo. rewrite Hoo.
    destruct (release_will_quiet cid (remove_session cid s)) as [F _].
    eapply hist_ext_frame_r; [exact F|]. now apply remove_session_hist.
Qed.

(* (d) EExpireCheck: the sessions whose deadline has passed end *)
Definition expired_now (s : st) : list (str * N) := filter (fun cd => snd cd <? b_now s) (b_offline s).

Lemma fold_remove_subs (l : list (str * N)) : forall s,
  b_subs (fold_left (fun s0 cd => remove_session (fst cd) s0) l s) =
  fold_left db_step (map (fun cd => OUnsubAll (fst cd)) l) (b_subs s).
Proof. induction l as [|cd r IH]; intros s; [reflexivity|]. cbn [fold_left map]. rewrite IH. reflexivity. Qed.

Theorem expire_step_hist s :
  BInv s -> hist_ext s (fst (step s EExpireCheck)) (map (fun cd => OUnsubAll (fst cd)) (expired_now s)).
Proof.
  intros HI. apply step_hist. cbn [step_event]. fold (expired_now s).
  set (s1 := fold_left (fun s0 cd => remove_session (fst cd) s0) (expired_now s) s).
  assert (H1 : hist_ext s s1 (map (fun cd => OUnsubAll (fst cd)) (expired_now s))).
  { split; [|apply fold_remove_subs]. unfold wf_ops. rewrite forallb_forall. intros o Ho.
    apply in_map_iff in Ho as ([cid dl] & <- & Hin). cbn [wf_op fst].
    apply filter_In in Hin as [Hin _].
    assert (Hoff : ahas cid (b_offline s) = true) by (apply ahas_in_keys; apply in_map_iff; now exists (cid, dl)).
    apply negb_true_iff, is_empty_false. apply (bi_ne _ _ HI). apply (bi_has _ _ HI). rewrite Hoff. apply orb_true_r. }
  apply (fold_inv (fun s0 => hist_ext s s0 (map (fun cd => OUnsubAll (fst cd)) (expired_now s)))); [|exact H1].
  intros s0 o0 cd H0. destruct (release_will_quiet (fst cd) s0) as [F _].
  destruct (release_will (fst cd) s0) as [s' o']. cbn [fst] in *. eapply hist_ext_frame_r; eauto.
Qed.

(* (e) CONNECT with Clean Start (take-over included) on a socket that is not in use by another client *)
Theorem clean_connect_step_hist s c cn :
  BInv s -> (forall cid' f, cv s c = Some (cid', f) -> cid' = cn_cid cn) ->
  hc_rejected cn s = false -> cn_cid cn <> [] -> cn_clean cn = true ->
  ahas (cn_cid cn) (b_sessions s) = true ->
  exists n, hist_ext s (fst (step s (EConnect c cn))) (repeat (OUnsubAll (cn_cid cn)) (S n)).
Proof.
  intros HI Hsock Hrej Hne Hclean Hs.
  assert (Hcid : forall s0, hc_cid cn s0 = cn_cid cn).
  { intros s0. unfold hc_cid. apply is_empty_false in Hne. now rewrite Hne. }
  destruct (conn_gone_hist_for (cn_cid cn) c s HI Hsock) as (n0 & H0 & S0).
  pose proof (conn_gone_inv c s HI) as HI0. pose proof (conn_gone_cv_self c s) as Hc0.
  pose proof (conn_gone_misc c s) as (Hcfg & Hhooks & _ & _).
  assert (Hex : exists m, hist_ext s (fst (step_event s (EConnect c cn))) (repeat (OUnsubAll (cn_cid cn)) m) /\ (1 <= m)%nat).
  { cbn [step_event]. destruct (conn_gone c s) as [s0 o0]. cbn [fst] in *.
    assert (Hrej0 : hc_rejected cn s0 = false) by now rewrite (hc_rejected_ext cn s s0 Hhooks Hcfg).
    destruct (handle_connect_hist c cn s0 HI0 Hc0 Hrej0 Hclean) as (n1 & H1 & S1). rewrite Hcid in *.
    destruct (handle_connect c cn s0) as [s1 o1]. cbn [fst] in *.
    exists (n0 + n1)%nat. split; [rewrite <- repeat_app_unsub; eapply hist_ext_trans; eauto|].
    destruct n0 as [|n0]; [|lia]. rewrite Hs in S0. specialize (S1 S0). lia. }
  destruct Hex as (m & Hm & Hle). destruct m as [|m]; [lia|]. exists m. now apply step_hist.
Qed.

(* ================================================================== *)
(* 7. target 3: a member whose connection ended but whose session      *)
(*    persists stays in its groups                                     *)
(* ================================================================== *)

(* what `deliver` finds depends on the store only *)
Lemma d_found_ext m s s' : b_subs s' = b_subs s -> d_found m s' = d_found m s.
Proof. intros H. unfold d_found. now rewrite H. Qed.

Lemma d_shared_ext src m s s' : b_subs s' = b_subs s -> d_shared src m s' = d_shared src m s.
Proof. intros H. unfold d_shared, d_ents. now rewrite (d_found_ext m s s' H). Qed.

Lemma d_groups_ext src m s s' : b_subs s' = b_subs s -> d_groups src m s' = d_groups src m s.
Proof. intros H. unfold d_groups. now rewrite (d_shared_ext src m s s' H). Qed.

(* unregisterClient with a session that is kept: the store is not touched, the session, its queue
   and its offline deadline are there *)
Theorem unregister_stored c k s se :
  aget (k_cid k) (b_sessions s) = Some se -> ends_session k se (b_cfg s) = false ->
  let s' := fst (unregister c k s) in
  b_subs s' = b_subs s /\
  aget (k_cid k) (b_sessions s') = Some (stored_session se (ur_expiry k se (b_cfg s))) /\
  ahas (k_cid k) (b_offline s') = true /\
  (ahas (k_cid k) (b_queues s) = true -> ahas (k_cid k) (b_queues s') = true).
Proof.
  intros Hse He. cbv zeta. destruct (unregister_spec c k s) as (s1 & F & _ & R).
  unfold ends_session in He. apply orb_false_iff in He as [Hf He]. apply N.eqb_neq in He.
  destruct R as [H E|se' Hs' Hf' He' E].
  - exfalso. destruct H as [H|(se' & H & [H1|H1])]; [congruence| |]; rewrite Hse in H; injection H as <-; congruence.
  - rewrite Hse in Hs'. injection Hs' as <-. rewrite E. unfold store_tables. proj.
    split; [apply (fr_subs _ _ F)|]. split; [apply aget_aset_same|].
    split; [now rewrite ahas_aset, str_eqb_refl|]. apply (proj2 (fr_q _ _ F)).
Qed.

(* the same for a connection that goes away *)
Theorem conn_gone_stored c k s se :
  nget c (b_conns s) = Some k -> attached (k_phase k) = true ->
  aget (k_cid k) (b_sessions s) = Some se -> ends_session k se (b_cfg s) = false ->
  let s' := fst (conn_gone c s) in
  b_subs s' = b_subs s /\
  (forall src m, d_groups src m s' = d_groups src m s) /\
  aget (k_cid k) (b_sessions s') = Some (stored_session se (ur_expiry k se (b_cfg s))) /\
  ahas (k_cid k) (b_offline s') = true /\
  (ahas (k_cid k) (b_queues s) = true -> ahas (k_cid k) (b_queues s') = true).
Proof.
  intros Hk Ha Hse He. cbv zeta. rewrite (conn_gone_att c k s Hk Ha). cbn [fst].
  set (s0 := upd_conn c (set_phase PhClosed k) (closed_q (k_cid k) s)).
  assert (Hse0 : aget (k_cid (set_phase PhClosed k)) (b_sessions s0) = Some se).
  { unfold s0. proj. now rewrite closed_q_sessions. }
  assert (He0 : ends_session (set_phase PhClosed k) se (b_cfg s0) = false).
  { unfold s0. proj. now rewrite closed_q_cfg. }
  destruct (unregister_stored c (set_phase PhClosed k) s0 se Hse0 He0) as (U1 & U2 & U3 & U4).
  change (k_cid (set_phase PhClosed k)) with (k_cid k) in *.
  change (ur_expiry (set_phase PhClosed k) se (b_cfg s0)) with (ur_expiry k se (b_cfg s0)) in U2.
  assert (Es : b_subs s0 = b_subs s) by (unfold s0; proj; apply (fr_subs _ _ (closed_q_frame (k_cid k) s))).
  assert (Ec : b_cfg s0 = b_cfg s) by (unfold s0; proj; apply closed_q_cfg).
  rewrite Ec in U2. rewrite Es in U1.
  split; [exact U1|]. split; [intros src m; now apply d_groups_ext|]. split; [exact U2|]. split; [exact U3|].
  intros Hq. apply U4. unfold s0. proj. apply (proj2 (fr_q _ _ (closed_q_frame (k_cid k) s))). exact Hq.
Qed.

(* wire level: the peer closes the connection of a client whose Session Expiry Interval in force is
   not 0.  The store, hence every group list, is what it was; the client is offline with its session
   and its queue: `deliver` still picks among the same members, and a copy for this member goes to
   the stored queue (C01_add_to_queue) *)
Theorem close_step_stored s c k se :
  BInv s -> nget c (b_conns s) = Some k -> attached (k_phase k) = true ->
  aget (k_cid k) (b_sessions s) = Some se -> ur_expiry k se (b_cfg s) <> 0 ->
  let s' := fst (step s (EClose c)) in
  b_subs s' = b_subs s /\
  (forall src m, d_groups src m s' = d_groups src m s) /\
  ahas (k_cid k) (b_sessions s') = true /\ ahas (k_cid k) (b_online s') = false /\
  ahas (k_cid k) (b_offline s') = true /\ ahas (k_cid k) (b_queues s') = true.
Proof.
  intros HI Hk Ha Hse He. cbv zeta.
  destruct (attached_session s c k HI Hk Ha) as (Hne & Hs & Hf).
  assert (Hends : ends_session k se (b_cfg s) = false).
  { unfold ends_session. rewrite Hf. cbn [orb]. now apply N.eqb_neq. }
  pose proof (step_frame_poll s (EClose c)) as F.
  pose proof (step_inv s (EClose c) HI) as HI'.
  assert (E0 : fst (step_event s (EClose c)) = fst (conn_gone c s)).
  { cbn [step_event]. now destruct (conn_gone c s). }
  rewrite E0 in F.
  destruct (conn_gone_stored c k s se Hk Ha Hse Hends) as (C1 & C2 & C3 & C4 & C5).
  assert (Esub : b_subs (fst (step s (EClose c))) = b_subs s) by now rewrite (fr_subs _ _ F).
  split; [exact Esub|]. split; [intros src m; now apply d_groups_ext|].
  assert (Hoff : ahas (k_cid k) (b_offline (fst (step s (EClose c)))) = true) by now rewrite (fr_off _ _ F).
  destruct (bi_has _ _ HI' (k_cid k)) as (B1 & B2 & _); [rewrite Hoff; apply orb_true_r|].
  split; [exact B1|]. split; [|split; [exact Hoff|exact B2]].
  destruct (ahas (k_cid k) (b_online (fst (step s (EClose c))))) eqn:Eon; [|reflexivity].
  apply (bi_disj _ _ HI') in Eon. congruence.
Qed.

(* ================================================================== *)
(* 8. target 4: no retained message on a shared subscribe              *)
(* ================================================================== *)

(* the topic name of a SUBSCRIBE entry is a shared one: "$share/<group>/<filter>", group not empty *)
Definition shared_name (name : str) : bool := negb (is_empty (fst (split_topic name))).

Lemma last_with_name_name name l : forall d, tq_name d = name -> tq_name (last_with_name name l d) = name.
Proof.
  induction l as [|t r IH]; intros d Hd; cbn [last_with_name]; [exact Hd|]. apply IH.
  destruct (str_eqb_spec (tq_name t) name) as [E|E]; [exact E|exact Hd].
Qed.

Lemma sub_of_req_share t id : s_share (sub_of_req t id) = fst (split_topic (tq_name t)).
Proof. unfold sub_of_req. now destruct (split_topic (tq_name t)). Qed.

Lemma entry_sub_share k subid topics t s :
  s_share (entry_sub k subid topics t s) = fst (split_topic (tq_name t)).
Proof.
  unfold entry_sub. cbv zeta.
  assert (E : s_share (sub_of_req (last_with_name (tq_name t) topics t) subid) = fst (split_topic (tq_name t))).
  { rewrite sub_of_req_share. now rewrite (last_with_name_name (tq_name t) topics t eq_refl). }
  destruct (sub_action_of k t s); cbn [s_share]; exact E.
Qed.

(* one entry with a shared name: it is refused, or it is subscribed; in neither case is
   `replay_retained` called (v3 and v5 alike: k is arbitrary) *)
Theorem shared_entry_no_replay c k subid topics s0 o0 cs t :
  shared_name (tq_name t) = true ->
  let sb := entry_sub k subid topics t s0 in
  let code := entry_code k subid topics t s0 in
  sub_entry_step c k subid topics (s0, o0, cs) t =
  if code <? 128 then (set_subs (fst (db_subscribe (k_cid k) sb (b_subs s0))) s0, o0, cs ++ [code])
  else (s0, o0, cs ++ [code]).
Proof.
  intros Hsh. cbv zeta.
  pose proof (replay_gate_entry c k subid topics s0 o0 cs t) as G. cbv zeta in G.
  destruct G as (Gref & _ & Gclosed & _).
  destruct (entry_code k subid topics t s0 <? 128) eqn:Ec.
  - apply Gclosed; [lia|].
    match goal with |- replay_gate ?a ?b ?r = false => destruct (replay_gate_clauses a b r) as (Hc1 & _) end.
    apply Hc1. rewrite entry_sub_share. exact Hsh.
  - apply Gref. lia.
Qed.

Lemma set_subs_same s : set_subs (b_subs s) s = s.
Proof. now destruct s. Qed.

(* a SUBSCRIBE all of whose entries are shared: the only output is the SUBACK, the state changes in the
   subscription store only - nothing is queued, whatever the retained store holds *)
Theorem shared_subscribe_no_replay c k pid props topics s :
  forallb (fun t => shared_name (tq_name t)) topics = true ->
  handle_subscribe c k pid props topics s = HErr s [] (Some 161) \/
  exists d codes, handle_subscribe c k pid props topics s = HOk (set_subs d s) [OSend c (KSuback pid codes [])].
Proof.
  intros Hall. rewrite handle_subscribe_unfold. cbv zeta.
  match goal with |- context [if ?b then HErr s [] (Some 161) else _] => destruct b end; [now left|]. right.
  destruct (h_sub_all (b_hooks s)) as [code|].
  - exists (b_subs s). eexists. rewrite set_subs_same. reflexivity.
  - assert (G : forall l, forallb (fun t => shared_name (tq_name t)) l = true ->
              forall d o cs, exists d' cs',
                fold_left (sub_entry_step c k (sub_subid k props) topics) l (set_subs d s, o, cs) = (set_subs d' s, o, cs')).
    { induction l as [|t r IH]; intros Hl d o cs; [now exists d, cs|].
      cbn [forallb] in Hl. apply andb_true_iff in Hl as [Ht Hr]. cbn [fold_left].
      rewrite (shared_entry_no_replay c k _ topics (set_subs d s) o cs t Ht).
      match goal with |- context [if ?b then _ else _] => destruct b end; [|now apply IH].
      match goal with |- context [set_subs ?D (set_subs d s)] => change (set_subs D (set_subs d s)) with (set_subs D s) end.
      now apply IH. }
    destruct (G topics Hall (b_subs s) [] []) as (d' & cs' & E). rewrite set_subs_same in E. rewrite E.
    exists d', cs'. reflexivity.
Qed.

(* ================================================================== *)
(* 9. target 5: the copy queued for the picked member                  *)
(* ================================================================== *)

(* when nothing is dropped (every addressed queue has room and the queue_qos0 rule does not apply):
   for every share group with a matching member `deliver` picks one member; it is a member of the
   specification with a matching shared subscription; its queue is extended, and one of the new
   elements is the copy made through THAT member's subscription: QoS min(published, granted), that
   subscription's identifier (if it has one), RETAIN only under Retain-As-Published, never DUP *)
Theorem picked_member_copy src m s ops :
  sub_hist s ops -> nodrop_ok src m s = true ->
  exists picked,
    Forall2 group_call (d_groups src m s) picked /\
    Forall (fun cl =>
      let c := call_cid cl in let sb := call_sub cl in
      s_share sb <> [] /\ sp_get (c, s_share sb, s_filter sb) (spec_run ops) = Some sb /\
      forall q, aget c (b_queues s) = Some q ->
        exists app e m',
          aget c (b_queues (fst (fst (deliver src m s)))) = Some (q_extend app q) /\
          In e app /\ e_body e = QPub m' /\
          m_qos m' = N.min (m_qos m) (s_qos sb) /\
          m_subids m' = m_subids m ++ (if s_id sb =? 0 then [] else [s_id sb]) /\
          m_retained m' = m_retained m && s_rap sb /\ m_dup m' = false /\
          m_topic m' = m_topic m /\ m_payload m' = m_payload m) picked.
Proof.
  intros Hh Hn. destruct (deliver_nodrop src m s Hn) as (cl1 & cl2 & cl3 & [H1 H2 H3] & _ & _ & _ & D).
  exists cl2. split; [exact H2|].
  assert (Hmem : Forall (fun cl => In (call_cid cl, call_sub cl) (d_shared src m s) /\ call_ids cl = [s_id (call_sub cl)]) cl2).
  { eapply Forall2_right; [exact H2|]. intros g cl Hg Hc. cbn beta.
    split; [now destruct (group_call_member src m s g cl Hg Hc)|apply Hc]. }
  rewrite Forall_forall in Hmem. apply Forall_forall. intros cl Hcl. cbv zeta.
  destruct (Hmem cl Hcl) as [Hin Hids]. apply shared_in_found in Hin as [Hin Hsh]. cbn [snd] in Hsh.
  split; [exact Hsh|]. split; [exact (found_sound m s ops _ _ Hh Hin)|].
  intros q Hq. set (c := call_cid cl). set (calls := cl1 ++ cl2 ++ cl3).
  assert (Hhas : ahas c (b_queues s) = true) by (eapply ahas_some; eauto).
  assert (Hcf : In cl (calls_for c calls)).
  { unfold calls_for. apply filter_In. split; [|unfold c; apply str_eqb_refl].
    unfold calls. apply in_or_app. right. apply in_or_app. now left. }
  pose proof (appended_bodies m s c calls (b_tag s) Hhas) as Hb.
  assert (Hbody : In (call_body m cl) (map e_body (appended m s c calls (b_tag s)))).
  { rewrite Hb. now apply in_map. }
  apply in_map_iff in Hbody as (e & He & Hein).
  exists (appended m s c calls (b_tag s)), e, (copy_of m (call_sub cl) (call_ids cl)).
  split; [rewrite D; fold calls; unfold c; rewrite Hq; reflexivity|]. split; [exact Hein|]. split; [exact He|].
  split; [apply copy_qos|]. split; [|repeat split].
  rewrite copy_subids, Hids. cbn [filter]. unfold nz. now destruct (s_id (call_sub cl) =? 0).
Qed.

(* ================================================================== *)
(* 10. targets 1 and 2: the leaving steps, and what they do            *)
(* ================================================================== *)

Definition client_key (cid : str) (key : skey) : bool := str_eqb cid (fst (fst key)).

(* `leaving s e rm`: in state s the event e makes a member leave; rm tells the keys (client, group,
   filter) of the specification that are removed.
   - UNSUBSCRIBE of a connected client: the named keys of that client;
   - the connection of a client ends (EClose: the peer closes; after a DISCONNECT the connection is in
     PhZombie and `ur_expiry` is the interval the DISCONNECT asked for) while the Session Expiry Interval
     in force is 0: all keys of that client;
   - accepted CONNECT with Clean Start of a client id that has a session (online on another socket: the
     take-over; offline; or online on this very socket): all keys of that client;
   - ETerminate of a client id that has a session: all its keys;
   - EExpireCheck: all keys of the offline sessions whose deadline has passed. *)
Inductive leaving (s : st) : event -> (skey -> bool) -> Prop :=
| L_unsubscribe c k pid props topics :
    nget c (b_conns s) = Some k -> k_phase k = PhConnected ->
    leaving s (ESend c (KUnsubscribe pid props topics))
            (fun key => existsb (fun t => skey_eqb key (k_cid k, fst (split_topic t), snd (split_topic t))) topics)
| L_unsubscribe_sz c k pid props topics n :          (* the same packet with its wire size, not too big *)
    nget c (b_conns s) = Some k -> k_phase k = PhConnected -> too_big k n s = false ->
    leaving s (ESendSz c (KUnsubscribe pid props topics) n)
            (fun key => existsb (fun t => skey_eqb key (k_cid k, fst (split_topic t), snd (split_topic t))) topics)
| L_close c k se :
    nget c (b_conns s) = Some k -> attached (k_phase k) = true ->
    aget (k_cid k) (b_sessions s) = Some se -> ur_expiry k se (b_cfg s) = 0 ->
    leaving s (EClose c) (client_key (k_cid k))
| L_clean_connect c cn :
    (forall cid' f, cv s c = Some (cid', f) -> cid' = cn_cid cn) ->
    hc_rejected cn s = false -> cn_cid cn <> [] -> cn_clean cn = true ->
    ahas (cn_cid cn) (b_sessions s) = true ->
    leaving s (EConnect c cn) (client_key (cn_cid cn))
| L_terminate (cid : str) :
    ahas cid (b_sessions s) = true -> leaving s (ETerminate cid) (client_key cid)
| L_expire :
    leaving s EExpireCheck (fun key => existsb (fun cd : str * N => client_key (fst cd) key) (expired_now s)).

Lemma removes_expired (l : list (str * N)) key :
  removes (map (fun cd => OUnsubAll (fst cd)) l) key = existsb (fun cd : str * N => client_key (fst cd) key) l.
Proof. induction l as [|cd r IH]; [reflexivity|]. cbn [map removes existsb op_removes]. now rewrite <- IH. Qed.

Lemma leave_only_expired (l : list (str * N)) : leave_only (map (fun cd => OUnsubAll (fst cd)) l) = true.
Proof. induction l as [|cd r IH]; [reflexivity|exact IH]. Qed.

(* every leaving step appends leaving operations - and nothing else - to the history of the store *)
Theorem leaving_hist s e rm :
  BInv s -> leaving s e rm ->
  exists extra, hist_ext s (fst (step s e)) extra /\ leave_only extra = true /\
                forall key, removes extra key = rm key.
Proof.
  intros HI [c k pid props topics Hk Hp|c k pid props topics n Hk Hp Hb|c k se Hk Ha Hse He|c cn Hsock Hrej Hne Hcl Hs|cid Hs|].
  - exists (map (OUnsub (k_cid k)) topics). split; [now apply unsubscribe_step_hist|].
    split; [apply leave_only_unsubs|]. intros key. apply removes_unsubs.
  - exists (map (OUnsub (k_cid k)) topics). split.
    + destruct (step_sz_small s c (KUnsubscribe pid props topics) n) as [_ E].
      { intros k0 Hk0 _. rewrite Hk in Hk0. injection Hk0 as <-. exact Hb. }
      rewrite E. now apply unsubscribe_step_hist.
    + split; [apply leave_only_unsubs|]. intros key. apply removes_unsubs.
  - exists [OUnsubAll (k_cid k)]. split.
    + pose proof (close_step_hist s c k se HI Hk Ha Hse) as H. now rewrite He in H.
    + split; [reflexivity|]. intros key. apply (removes_unsub_all (k_cid k) 0).
  - destruct (clean_connect_step_hist s c cn HI Hsock Hrej Hne Hcl Hs) as (n & H).
    exists (repeat (OUnsubAll (cn_cid cn)) (S n)). split; [exact H|]. split; [apply leave_only_repeat|].
    intros key. apply removes_unsub_all.
  - exists [OUnsubAll cid]. split; [now apply terminate_step_hist|]. split; [reflexivity|].
    intros key. apply (removes_unsub_all cid 0).
  - exists (map (fun cd => OUnsubAll (fst cd)) (expired_now s)). split; [now apply expire_step_hist|].
    split; [apply leave_only_expired|]. intros key. apply removes_expired.
Qed.

(* target 2: after a leaving step the specification is the old one without the removed keys: every
   other key - other members of the same group, other groups and filters, plain subscriptions - has
   the entry it had *)
Theorem leaving_spec s e rm ops :
  BInv s -> sub_hist s ops -> leaving s e rm ->
  exists ops', sub_hist (fst (step s e)) ops' /\
    forall key, sp_get key (spec_run ops') = if rm key then None else sp_get key (spec_run ops).
Proof.
  intros HI Hh HL. destruct (leaving_hist s e rm HI HL) as (extra & HE & Hlo & Hrm).
  exists (ops ++ extra). pose proof (hist_ext_hist _ _ _ _ HE Hh) as Hh'. split; [exact Hh'|].
  intros key. rewrite (leave_spec ops extra key (proj1 Hh') Hlo). now rewrite Hrm.
Qed.

Corollary others_unaffected s e rm ops :
  BInv s -> sub_hist s ops -> leaving s e rm ->
  exists ops', sub_hist (fst (step s e)) ops' /\
    (forall key, rm key = false -> sp_get key (spec_run ops') = sp_get key (spec_run ops)) /\
    (forall key, rm key = true -> sp_get key (spec_run ops') = None).
Proof.
  intros HI Hh HL. destruct (leaving_spec s e rm ops HI Hh HL) as (ops' & Hh' & Hsp).
  exists ops'. split; [exact Hh'|]. split; intros key Hk; rewrite Hsp, Hk; reflexivity.
Qed.

(* target 1: after a leaving step that removes (cid, g, f), in the resulting state - and in any state
   with the same store, whatever its pick values, queues, connections - `deliver` of any message
   makes no add_to_queue call for cid through the shared subscription (g, f) *)
Theorem leaver_not_selected s e rm ops (cid g f : str) :
  BInv s -> sub_hist s ops -> leaving s e rm -> rm (cid, g, f) = true -> g <> [] ->
  forall s'' src m, b_subs s'' = b_subs (fst (step s e)) ->
  exists cl1 picked cl3 p n,
    deliver src m s'' = (set_pk p n (fst (run_calls m (cl1 ++ picked ++ cl3) (s'', []))),
                         snd (run_calls m (cl1 ++ picked ++ cl3) (s'', [])), nonnil (d_ents src m s'')) /\
    Forall2 group_call (d_groups src m s'') picked /\
    Forall (fun cl => ~ call_through cid g f cl) (cl1 ++ picked ++ cl3).
Proof.
  intros HI Hh HL Hrm Hg s'' src m Hs''.
  destruct (leaving_spec s e rm ops HI Hh HL) as (ops' & [Hw' Hd'] & Hsp).
  apply (not_member_not_selected src m s'' ops' cid g f); [split; [exact Hw'|congruence]|exact Hg|].
  now rewrite Hsp, Hrm.
Qed.

(* ... and it is in no member list *)
Theorem leaver_not_member s e rm ops (cid g f : str) :
  BInv s -> sub_hist s ops -> leaving s e rm -> rm (cid, g, f) = true ->
  forall s'' src m, b_subs s'' = b_subs (fst (step s e)) ->
  forall k members, In (k, members) (d_groups src m s'') ->
  forall sb, In (cid, sb) members -> ~ (s_share sb = g /\ s_filter sb = f).
Proof.
  intros HI Hh HL Hrm s'' src m Hs''.
  destruct (leaving_spec s e rm ops HI Hh HL) as (ops' & [Hw' Hd'] & Hsp).
  apply (not_member_not_in_groups src m s'' ops' cid g f); [split; [exact Hw'|congruence]|].
  now rewrite Hsp, Hrm.
Qed.

(* the same for the states the broker can reach *)
Lemma reachable_hist cf h pk es : exists ops, sub_hist (fst (run (st_init cf h pk) es)) ops.
Proof. apply SubsInv_hist, reachable_subsinv. Qed.

(* ================================================================== *)
(* 11. the store after leaving, as lists: what a topic lookup returns  *)
(*     is the old list without the removed entries, IN THE SAME ORDER  *)
(* ================================================================== *)

Lemma filter_flat_map {A B} (p : B -> bool) (f : A -> list B) (l : list A) :
  filter p (flat_map f l) = flat_map (fun x => filter p (f x)) l.
Proof. induction l as [|x r IH]; [reflexivity|]. cbn [flat_map]. now rewrite filter_app, IH. Qed.

Lemma filter_true_in {A} (p : A -> bool) (l : list A) : (forall x, In x l -> p x = true) -> filter p l = l.
Proof.
  induction l as [|x r IH]; intros H; [reflexivity|]. cbn [filter]. rewrite (H x (or_introl eq_refl)).
  f_equal. apply IH. intros y Hy. apply H. now right.
Qed.

Lemma flat_map_ext_in {A B} (f g : A -> list B) (l : list A) :
  (forall a, In a l -> f a = g a) -> flat_map f l = flat_map g l.
Proof.
  induction l as [|x r IH]; intros H; [reflexivity|]. cbn [flat_map]. rewrite (H x (or_introl eq_refl)).
  f_equal. apply IH. intros y Hy. apply H. now right.
Qed.

Lemma adel_filter {V} (c : str) (l : list (str * V)) :
  NoDup (map fst l) -> adel c l = filter (fun e => negb (str_eqb c (fst e))) l.
Proof.
  induction l as [|[k0 v0] r IH]; intros Hnd; [reflexivity|]. cbn [adel filter fst map] in *.
  inversion Hnd as [|x xs Hx Hnd']; subst.
  destruct (str_eqb_spec c k0) as [->|E]; cbn [negb].
  - symmetry. apply filter_true_in. intros [k1 v1] Hin. cbn [fst]. apply negb_true_iff, str_eqb_neq.
    intros <-. apply Hx. apply in_map_iff. now exists (k0, v1).
  - f_equal. now apply IH.
Qed.

Lemma flat_map_aset {V} (g : str) (l2 : list V) (sh : list (str * list V)) :
  ahas g sh = true -> NoDup (map fst sh) ->
  flat_map snd (aset g l2 sh) = flat_map (fun gl => if str_eqb g (fst gl) then l2 else snd gl) sh.
Proof.
  induction sh as [|[k0 v0] r IH]; intros Hh Hnd; [discriminate|]. cbn [aset flat_map fst snd map] in *.
  inversion Hnd as [|x xs Hx Hnd']; subst. unfold ahas in Hh. cbn [aget] in Hh.
  destruct (str_eqb_spec g k0) as [->|E]; cbn [flat_map snd].
  - f_equal. apply flat_map_ext_in. intros [k1 v1] Hin. cbn [fst snd].
    destruct (str_eqb_spec k0 k1) as [<-|E1]; [|reflexivity].
    exfalso. apply Hx. apply in_map_iff. now exists (k0, v1).
  - f_equal. now apply IH.
Qed.

Lemma flat_map_adel {V} (g : str) (sh : list (str * list V)) :
  NoDup (map fst sh) ->
  flat_map snd (adel g sh) = flat_map (fun gl => if str_eqb g (fst gl) then [] else snd gl) sh.
Proof.
  induction sh as [|[k0 v0] r IH]; intros Hnd; [reflexivity|]. cbn [adel flat_map fst snd map] in *.
  inversion Hnd as [|x xs Hx Hnd']; subst.
  destruct (str_eqb_spec g k0) as [->|E]; cbn [flat_map snd app].
  - apply flat_map_ext_in. intros [k1 v1] Hin. cbn [fst snd].
    destruct (str_eqb_spec k0 k1) as [<-|E1]; [|reflexivity].
    exfalso. apply Hx. apply in_map_iff. now exists (k0, v1).
  - f_equal. now apply IH.
Qed.

Lemma skey_eqb_same_gf (c' c g f : str) : skey_eqb (c', g, f) (c, g, f) = str_eqb c' c.
Proof. cbn [skey_eqb]. now rewrite !str_eqb_refl, !andb_true_r. Qed.

(* keep every entry but the one with this key *)
Definition keep1 (key : skey) (e : cid * sub) : bool := negb (skey_eqb (key_of e) key).

  Lemma obs_entry_gf k sp (Hok : spec_ok sp) q x (g' c' : str) s (f : str) :
    NInv k (fun key => sp_get key sp) q x -> q = split f -> In (c', s) (obs g' x) ->
    s_share s = g' /\ s_filter s = f.
  Proof.
    intros HN Hq Hin. destruct (obs_entry k sp Hok q x g' c' s HN Hin) as (H1 & H2 & _).
    split; [exact H1|]. apply split_inj. congruence.
  Qed.

  (* the node reached by tunsubscribe: its entries are the old ones without (c, g, f), in order *)
  Lemma leave_res_set_rs k sp (Hok : spec_ok sp) q x (c g f : str) :
    NInv k (fun key => sp_get key sp) q x -> kind_of g f = k -> q = split f ->
    set_rs (leave_res c g x) = filter (keep1 (c, g, f)) (set_rs x).
  Proof.
    intros HN Hk Hq.
    assert (Hkeep_g : forall l, (forall e, In e l -> In e (obs g x)) -> NoDup (map fst l) ->
                                adel c l = filter (keep1 (c, g, f)) l).
    { intros l Hl Hnd. rewrite (adel_filter c l Hnd). apply filter_ext_in. intros [c' s] Hin.
      destruct (obs_entry_gf k sp Hok q x g c' s f HN Hq (Hl _ Hin)) as [E1 E2].
      unfold keep1, key_of. cbn [fst snd]. rewrite E1, E2, skey_eqb_same_gf. now rewrite str_eqb_sym. }
    destruct g as [|a g0].
    - (* plain *)
      assert (Hs : n_shared x = []).
      { pose proof (ni_pure _ _ _ _ HN) as Hp. destruct k; [exact Hp|exact Hp|now apply kind_of_nil_ns in Hk]. }
      destruct (leave_res_plain c x Hs) as [Hc' Hs']. unfold set_rs. rewrite Hc', Hs', Hs. cbn [flat_map].
      rewrite !app_nil_r. apply Hkeep_g; [intros e He; now rewrite obs_nil|]. rewrite <- obs_nil. apply (ni_nd _ _ _ _ HN).
    - (* shared *)
      assert (Hne : a :: g0 <> []) by discriminate. set (g := a :: g0) in *.
      rewrite (kind_of_shared _ f Hne) in Hk. subst k.
      destruct (ni_pure _ _ _ _ HN) as [Hcl _]. pose proof (ni_shnd _ _ _ _ HN) as Hshnd.
      assert (Hother : forall g' l', In (g', l') (n_shared x) -> g' <> g -> filter (keep1 (c, g, f)) l' = l').
      { intros g' l' Hin Hg'. apply filter_true_in. intros [c' s] He.
        assert (Hl' : l' <> []) by (intros E; rewrite E in He; destruct He).
        destruct (in_shared_obs KShared sp q x g' l' HN Hin Hl') as [_ Ho]. rewrite <- Ho in He.
        destruct (obs_entry_gf KShared sp Hok q x g' c' s f HN Hq He) as [E1 _].
        unfold keep1, key_of. cbn [fst snd skey_eqb]. rewrite E1.
        apply str_eqb_neq in Hg'. now rewrite Hg', andb_false_r. }
      unfold leave_res, leave_node. change (is_empty g) with false. cbn iota.
      destruct (aget g (n_shared x)) as [l|] eqn:El.
      + set (sh' := match adel c l with [] => adel g (n_shared x) | _ :: _ => aset g (adel c l) (n_shared x) end).
        assert (G : flat_map snd sh' = filter (keep1 (c, g, f)) (flat_map snd (n_shared x))).
        { transitivity (flat_map (fun gl : str * copts => if str_eqb g (fst gl) then adel c l else snd gl) (n_shared x)).
          - unfold sh'. destruct (adel c l) as [|e0 r0] eqn:Ead.
            + now apply flat_map_adel.
            + apply flat_map_aset; [eapply ahas_some; eauto|exact Hshnd].
          - rewrite filter_flat_map. apply flat_map_ext_in. intros [g' l'] Hin. cbn [fst snd].
            destruct (str_eqb_spec g g') as [<-|E].
            + pose proof (In_aget g l' (n_shared x) Hshnd Hin) as El'. rewrite El in El'. injection El' as <-.
              apply Hkeep_g.
              * intros e He. rewrite obs_ne by exact Hne. unfold grp. now rewrite El.
              * pose proof (ni_nd _ _ _ _ HN g) as Hnd. rewrite obs_ne in Hnd by exact Hne. unfold grp in Hnd. now rewrite El in Hnd.
            + symmetry. apply (Hother g' l' Hin). congruence. }
        assert (Ex : set_rs x = flat_map snd (n_shared x)) by (unfold set_rs; now rewrite Hcl).
        rewrite Ex. refine (eq_trans _ G).
        destruct (is_nil sh' && is_nil (n_children (Node (n_clients x) sh' (n_tname x) (n_children x)))) eqn:Epr.
        * apply andb_true_iff in Epr as [E1 _]. apply is_nil_true in E1. now rewrite E1.
        * unfold set_rs. cbn [n_clients n_shared]. now rewrite Hcl.
      + cbn iota. symmetry. apply filter_true_in. intros [c' s] He. unfold set_rs in He. rewrite Hcl in He. cbn [app] in He.
        apply in_flat_map in He as ([g' l'] & Hin & He). cbn [snd] in He.
        assert (Hg' : g' <> g).
        { intros ->. pose proof (In_aget g l' (n_shared x) Hshnd Hin) as El'.
          pose proof (eq_trans (eq_sym El') El) as X. discriminate X. }
        rewrite <- (Hother g' l' Hin Hg') in He. now apply filter_In in He as [_ He].
  Qed.

(* T' holds, at every path, the entries of T that `keep` keeps, in the same order *)
Definition FiltT (keep : cid * sub -> bool) (T T' : node) : Prop :=
  forall p, set_rs (nd p T') = filter keep (set_rs (nd p T)).

Lemma FiltT_trans k1 k2 T T' T'' :
  FiltT k1 T T' -> FiltT k2 T' T'' -> FiltT (fun e => k1 e && k2 e) T T''.
Proof. intros H1 H2 p. now rewrite H2, H1, filter_filter. Qed.

Lemma FiltT_ext k1 k2 T T' :
  (forall p e, In e (set_rs (nd p T)) -> k1 e = k2 e) -> FiltT k1 T T' -> FiltT k2 T T'.
Proof. intros He H p. rewrite H. apply filter_ext_in. intros e. apply He. Qed.

Lemma FiltT_id keep T : (forall p e, In e (set_rs (nd p T)) -> keep e = true) -> FiltT keep T T.
Proof. intros H p. symmetry. apply filter_true_in. apply H. Qed.

Lemma FiltT_tmatch_top keep T T' t : FiltT keep T T' -> tmatch_top t T' = filter keep (tmatch_top t T).
Proof.
  intros H. unfold tmatch_top. destruct (starts_dollar t).
  - rewrite !tmatch_lit_cands, filter_flat_map. apply flat_map_ext. intros p. apply H.
  - rewrite !tmatch_cands, filter_flat_map. apply flat_map_ext. intros p. apply H.
Qed.

Lemma set_rs_same3 a b : same3 a b -> set_rs a = set_rs b.
Proof. intros (H1 & H2 & _). unfold set_rs. now rewrite H1, H2. Qed.

Lemma keep1_other (key : skey) (e : cid * sub) : key_of e <> key -> keep1 key e = true.
Proof. intros H. unfold keep1. destruct (skey_eqb_spec (key_of e) key); [contradiction|reflexivity]. Qed.

(* one tunsubscribe *)
Lemma tunsub_filt k sp T (c g f : str) :
  spec_ok sp -> TInv k (fun key => sp_get key sp) T -> kind_of g f = k ->
  FiltT (keep1 (c, g, f)) T (tunsubscribe (split f) c g T).
Proof.
  intros Hok [Hwf HN] Hk p. destruct (path_eq_dec p (split f)) as [->|Hne].
  - rewrite nd_tunsub_same; [|apply split_nonempty|exact Hwf].
    now apply (leave_res_set_rs k sp Hok (split f)).
  - rewrite (set_rs_same3 _ _ (nd_tunsub_other (split f) c g p T Hne Hwf)).
    symmetry. apply filter_true_in. intros [c' s] Hin. apply keep1_other.
    destruct (entry_sound k sp Hok p _ c' s (HN p) Hin) as (Hp & _).
    unfold key_of. cbn [fst snd]. intros E. injection E as _ _ E. subst f. contradiction.
Qed.

Lemma spec_ok_del key sp : spec_ok sp -> spec_ok (sp_del key sp).
Proof.
  intros [Hnd Hgood]. split; [now apply NoDup_sp_del|]. intros e Hin. apply Hgood. now apply in_sp_del in Hin.
Qed.

Lemma TInv_unsub_sp k sp T (c g f : str) :
  spec_ok sp -> TInv k (fun key => sp_get key sp) T -> kind_of g f = k ->
  TInv k (fun key => sp_get key (sp_del (c, g, f) sp)) (tunsubscribe (split f) c g T).
Proof.
  intros Hok HT Hk. apply (TInv_ext k (get_del (c, g, f) (fun key0 => sp_get key0 sp))).
  - intros c' g' f' _. unfold get_del. rewrite sp_get_del by apply Hok. reflexivity.
  - now apply TInv_unsub.
Qed.

(* the index entries of one client, one kind, one after the other (unsubscribeAll) *)
Lemma fold_unsub_filt k (c : str) : forall (L : list skey) sp T,
  spec_ok sp -> (forall c' g f, In (c', g, f) L -> kind_of g f = k /\ no_slash g = true /\ c' = c) ->
  TInv k (fun key => sp_get key sp) T ->
  FiltT (fun e => negb (existsb (skey_eqb (key_of e)) L)) T
        (fold_left (fun t key => unsub_entry (is_shared_kind k) c key t) (map ikey L) T).
Proof.
  induction L as [|[[c0 g] f] L IH]; intros sp T Hok HL HT.
  - cbn [map fold_left existsb negb]. now apply FiltT_id.
  - cbn [map fold_left ikey]. destruct (HL c0 g f (or_introl eq_refl)) as (Hk & Hg & ->).
    rewrite (unsub_entry_key k c g f T Hk Hg).
    pose proof (tunsub_filt k sp T c g f Hok HT Hk) as F1.
    assert (F2 := IH (sp_del (c, g, f) sp) (tunsubscribe (split f) c g T) (spec_ok_del _ _ Hok)
                     (fun c' g' f' Hin => HL c' g' f' (or_intror Hin)) (TInv_unsub_sp k sp T c g f Hok HT Hk)).
    eapply FiltT_ext; [|exact (FiltT_trans _ _ _ _ _ F1 F2)].
    intros p e _. cbn [existsb]. unfold keep1. now rewrite negb_orb.
Qed.

Lemma unsub_all_kind_other k k' (c : str) d : k' <> k -> trie_of k' (db_unsub_all_kind k c d) = trie_of k' d.
Proof.
  intros H. rewrite db_unsub_all_kind_nf, trie_of_upd. destruct (kind_eqb_spec k' k); [contradiction|reflexivity].
Qed.

Lemma unsub_all_kind_filt k (c : str) d sp :
  Inv d sp ->
  FiltT (fun e => negb (str_eqb c (fst e))) (trie_of k d) (trie_of k (db_unsub_all_kind k c d)).
Proof.
  intros HI. pose proof (inv_ok _ _ HI) as Hok. pose proof (inv_trie _ _ HI k) as HT.
  rewrite db_unsub_all_kind_nf, trie_of_upd, kind_eqb_refl, (inv_idx _ _ HI k c). unfold keys_of.
  eapply FiltT_ext; [|apply (fold_unsub_filt k c _ sp _ Hok); [|exact HT]].
  - intros p [c' s] Hin. cbn [fst]. f_equal.
    destruct (entry_sound k sp Hok p _ c' s (proj2 HT p) Hin) as (_ & Hk & Hget).
    apply sp_get_some_in in Hget.
    destruct (str_eqb_spec c c') as [->|E].
    + apply existsb_skey. apply filter_In. split; [exact Hget|].
      unfold key_of. cbn [fst snd selk]. now rewrite str_eqb_refl, Hk, kind_eqb_refl.
    + destruct (existsb (skey_eqb (key_of (c', s))) (filter (selk k c) (map fst sp))) eqn:Ee; [|reflexivity].
      apply existsb_skey in Ee. apply filter_In in Ee as [_ Ee]. unfold key_of in Ee. cbn [fst snd selk] in Ee.
      apply andb_true_iff in Ee as [Ee _]. apply str_eqb_eq in Ee. contradiction.
  - intros c' g f Hin. apply filter_In in Hin as [Hin Hs]. cbn [selk] in Hs.
    apply andb_true_iff in Hs as [Hc Hk]. apply str_eqb_eq in Hc.
    destruct (kind_eqb_spec (kind_of g f) k) as [Hk'|]; [|discriminate].
    split; [exact Hk'|]. split; [now apply (in_keys_good c' g f sp)|now symmetry].
Qed.

(* one leaving operation, any of the three tries *)
Lemma db_step_filt d sp o k' :
  Inv d sp -> is_leave o = true ->
  FiltT (fun e => negb (op_removes o (key_of e))) (trie_of k' d) (trie_of k' (db_step d o)).
Proof.
  intros HI Hl. pose proof (inv_ok _ _ HI) as Hok. destruct o as [c sb|c t|c]; [discriminate| |]; cbn [db_step op_removes].
  - rewrite db_unsubscribe_nf. cbv zeta. rewrite trie_of_upd.
    set (g := fst (split_topic t)). set (f := snd (split_topic t)).
    destruct (kind_eqb_spec k' (kind_of g f)) as [->|E].
    + exact (tunsub_filt _ sp _ c g f Hok (inv_trie _ _ HI _) eq_refl).
    + apply FiltT_id. intros p [c' s] Hin. apply (keep1_other (c, g, f)).
      destruct (entry_sound k' sp Hok p _ c' s (proj2 (inv_trie _ _ HI k') p) Hin) as (_ & Hk & _).
      unfold key_of. cbn [fst snd]. intros E1. injection E1 as _ E2 E3. apply E. now rewrite <- Hk, E2, E3.
  - unfold db_unsubscribe_all.
    set (d1 := db_unsub_all_kind KUser c d). set (d2 := db_unsub_all_kind KSys c d1).
    pose proof (Inv_unsub_all_kind d sp KUser c HI) as HI1. fold d1 in HI1.
    pose proof (Inv_unsub_all_kind d1 _ KSys c HI1) as HI2. fold d2 in HI2.
    assert (Hkey : forall e : cid * sub, fst (fst (key_of e)) = fst e) by reflexivity.
    destruct k'.
    + replace (trie_of KUser (db_unsub_all_kind KShared c d2)) with (trie_of KUser d1)
        by (unfold d2; now rewrite !unsub_all_kind_other by discriminate).
      exact (unsub_all_kind_filt KUser c d sp HI).
    + replace (trie_of KSys (db_unsub_all_kind KShared c d2)) with (trie_of KSys d2)
        by (now rewrite !unsub_all_kind_other by discriminate).
      replace (trie_of KSys d) with (trie_of KSys d1)
        by (unfold d1; now rewrite !unsub_all_kind_other by discriminate).
      exact (unsub_all_kind_filt KSys c d1 _ HI1).
    + replace (trie_of KShared d) with (trie_of KShared d2)
        by (unfold d2, d1; now rewrite !unsub_all_kind_other by discriminate).
      exact (unsub_all_kind_filt KShared c d2 _ HI2).
Qed.

(* what deliverMessage's store lookup returns for a non-empty topic: the shared trie, then the user or
   the system trie *)
Definition found_db (t : str) (d : db) : list (cid * sub) :=
  tmatch_top t (trie_of KShared d) ++
  (if starts_dollar t then [] else tmatch_top t (trie_of KUser d)) ++
  (if starts_dollar t then tmatch_top t (trie_of KSys d) else []).

Lemma d_found_db m s : m_topic m <> [] -> d_found m s = found_db (m_topic m) (b_subs s).
Proof.
  intros Hne. unfold d_found, found_db, db_iterate, deliver_opts. cbn [io_shared io_nonshared io_sys io_topic].
  unfold iterate_shared, iterate_nonshared. cbn [io_client io_topic io_mt is_empty negb].
  apply is_empty_false in Hne. rewrite Hne. cbn [negb andb trie_of].
  destruct (starts_dollar (m_topic m)); cbn [negb app];
    rewrite ?app_nil_r, <- ?some_ents_app; apply unsome_some_ents.
Qed.

Lemma found_db_step t d sp o :
  Inv d sp -> is_leave o = true ->
  found_db t (db_step d o) = filter (fun e => negb (op_removes o (key_of e))) (found_db t d).
Proof.
  intros HI Hl. unfold found_db.
  rewrite !(FiltT_tmatch_top _ _ _ t (db_step_filt d sp o _ HI Hl)).
  destruct (starts_dollar t); now rewrite !filter_app.
Qed.

Lemma found_db_leave t : forall extra d sp,
  Inv d sp -> leave_only extra = true -> wf_ops extra = true ->
  found_db t (fold_left db_step extra d) = filter (fun e => negb (removes extra (key_of e))) (found_db t d).
Proof.
  induction extra as [|o r IH]; intros d sp HI Hl Hwf.
  - cbn [fold_left removes existsb negb]. symmetry. now apply filter_true_in.
  - cbn [leave_only forallb] in Hl. apply andb_true_iff in Hl as [Ho Hr].
    unfold wf_ops in Hwf. cbn [forallb] in Hwf. apply andb_true_iff in Hwf as [Hwo Hwr].
    cbn [fold_left]. rewrite (IH (db_step d o) (spec_step sp o) (Inv_step d sp o HI Hwo) Hr Hwr).
    rewrite (found_db_step t d sp o HI Ho), filter_filter. apply filter_ext. intros e.
    cbn [removes existsb]. now rewrite negb_orb.
Qed.

(* target 2, corollary (lists): after leaving operations the entries `deliver` finds for a message
   are the old ones without the removed keys, in the old order *)
Theorem found_after_leave s s' extra ops m :
  sub_hist s ops -> hist_ext s s' extra -> leave_only extra = true -> m_topic m <> [] ->
  d_found m s' = filter (fun e => negb (removes extra (key_of e))) (d_found m s).
Proof.
  intros [Hwf Hd] [Hwe He] Hl Ht. rewrite !d_found_db by exact Ht. rewrite He, Hd.
  exact (found_db_leave (m_topic m) extra _ _ (Inv_run ops Hwf) Hl Hwe).
Qed.

Lemma filter_comm {A} (p q : A -> bool) (l : list A) : filter p (filter q l) = filter q (filter p l).
Proof. rewrite !filter_filter. apply filter_ext. intros a. apply andb_comm. Qed.

Lemma shared_plain_filter keep src m s s' :
  d_found m s' = filter keep (d_found m s) ->
  d_shared src m s' = filter keep (d_shared src m s) /\ d_plain src m s' = filter keep (d_plain src m s).
Proof.
  intros H. unfold d_shared, d_plain, d_ents. rewrite H. split.
  - now rewrite (filter_comm (nl_keep src) keep), (filter_comm _ keep).
  - now rewrite (filter_comm (nl_keep src) keep), (filter_comm _ keep).
Qed.

(* the share groups after the step: each group keeps its name and its remaining members, in the old
   order; a group none of whose members remains is gone; there is no new group *)
Theorem groups_filter keep src m s s' :
  d_shared src m s' = filter keep (d_shared src m s) ->
  (forall k members', In (k, members') (d_groups src m s') <->
     members' = filter keep (filter (fun e : cid * sub => str_eqb (full_name (snd e)) k) (d_shared src m s)) /\
     members' <> []) /\
  (forall k members, In (k, members) (d_groups src m s) -> filter keep members <> [] ->
     In (k, filter keep members) (d_groups src m s')) /\
  (forall k members', In (k, members') (d_groups src m s') ->
     exists members, In (k, members) (d_groups src m s) /\ members' = filter keep members).
Proof.
  intros H.
  assert (H1 : forall k members', In (k, members') (d_groups src m s') <->
     members' = filter keep (filter (fun e : cid * sub => str_eqb (full_name (snd e)) k) (d_shared src m s)) /\
     members' <> []).
  { intros k members'. rewrite d_groups_spec, H, filter_comm. reflexivity. }
  split; [exact H1|]. split.
  - intros k members Hin Hne. apply d_groups_spec in Hin as [-> _]. apply H1. now split.
  - intros k members' Hin. apply H1 in Hin as [-> Hne].
    exists (filter (fun e : cid * sub => str_eqb (full_name (snd e)) k) (d_shared src m s)). split; [|reflexivity].
    apply d_groups_spec. split; [reflexivity|]. intros E. rewrite E in Hne. now apply Hne.
Qed.

(* target 2, corollary: for any message (with a topic), what `deliver` finds after a leaving step - the
   matching entries, the shared ones, the plain ones, the member list of every group - is what it found
   before with the leaver's removed entries taken out; nothing else moves *)
Theorem leaving_groups s e rm ops src m :
  BInv s -> sub_hist s ops -> leaving s e rm -> m_topic m <> [] ->
  let s' := fst (step s e) in
  let keep := fun en : cid * sub => negb (rm (key_of en)) in
  d_found m s' = filter keep (d_found m s) /\
  d_shared src m s' = filter keep (d_shared src m s) /\
  d_plain src m s' = filter keep (d_plain src m s) /\
  (forall k members, In (k, members) (d_groups src m s) -> filter keep members <> [] ->
     In (k, filter keep members) (d_groups src m s')) /\
  (forall k members', In (k, members') (d_groups src m s') ->
     exists members, In (k, members) (d_groups src m s) /\ members' = filter keep members).
Proof.
  intros HI Hh HL Ht. cbv zeta.
  destruct (leaving_hist s e rm HI HL) as (extra & HE & Hlo & Hrm).
  assert (Hf : d_found m (fst (step s e)) = filter (fun en : cid * sub => negb (rm (key_of en))) (d_found m s)).
  { rewrite (found_after_leave s _ extra ops m Hh HE Hlo Ht). apply filter_ext. intros en. now rewrite Hrm. }
  destruct (shared_plain_filter _ src m s _ Hf) as [Hs Hp].
  destruct (groups_filter _ src m s _ Hs) as (_ & G2 & G3).
  repeat split; assumption.
Qed.

(* the statements above for the states the broker reaches from its initial state *)
Theorem reachable_leaving_spec cf h pk es e rm :
  let s := fst (run (st_init cf h pk) es) in
  leaving s e rm ->
  exists ops ops', sub_hist s ops /\ sub_hist (fst (step s e)) ops' /\
    forall key, sp_get key (spec_run ops') = if rm key then None else sp_get key (spec_run ops).
Proof.
  cbv zeta. intros HL. destruct (reachable_hist cf h pk es) as [ops Hh].
  destruct (leaving_spec _ e rm ops (reachable_inv cf h pk es) Hh HL) as (ops' & Hh' & Hsp).
  now exists ops, ops'.
Qed.

Theorem reachable_leaver_not_selected cf h pk es e rm (cid g f : str) :
  let s := fst (run (st_init cf h pk) es) in
  leaving s e rm -> rm (cid, g, f) = true -> g <> [] ->
  forall s'' src m, b_subs s'' = b_subs (fst (step s e)) ->
  exists cl1 picked cl3 p n,
    deliver src m s'' = (set_pk p n (fst (run_calls m (cl1 ++ picked ++ cl3) (s'', []))),
                         snd (run_calls m (cl1 ++ picked ++ cl3) (s'', [])), nonnil (d_ents src m s'')) /\
    Forall2 group_call (d_groups src m s'') picked /\
    Forall (fun cl => ~ call_through cid g f cl) (cl1 ++ picked ++ cl3).
Proof.
  cbv zeta. intros HL Hrm Hg. destruct (reachable_hist cf h pk es) as [ops Hh].
  exact (leaver_not_selected _ e rm ops cid g f (reachable_inv cf h pk es) Hh HL Hrm Hg).
Qed.

Theorem reachable_leaving_groups cf h pk es e rm src m :
  let s := fst (run (st_init cf h pk) es) in
  leaving s e rm -> m_topic m <> [] ->
  let s' := fst (step s e) in
  let keep := fun en : cid * sub => negb (rm (key_of en)) in
  d_found m s' = filter keep (d_found m s) /\
  d_shared src m s' = filter keep (d_shared src m s) /\
  d_plain src m s' = filter keep (d_plain src m s) /\
  (forall k members, In (k, members) (d_groups src m s) -> filter keep members <> [] ->
     In (k, filter keep members) (d_groups src m s')) /\
  (forall k members', In (k, members') (d_groups src m s') ->
     exists members, In (k, members) (d_groups src m s) /\ members' = filter keep members).
Proof.
  cbv zeta. intros HL Ht. destruct (reachable_hist cf h pk es) as [ops Hh].
  exact (leaving_groups _ e rm ops src m (reachable_inv cf h pk es) Hh HL Ht).
Qed.

(* "DISCONNECT then close with expiry 0": a v5 DISCONNECT that asks for Session Expiry Interval 0 leaves the
   store alone and turns the connection into a zombie that remembers the request; when the socket is then
   closed, `ur_expiry` of that zombie is min(0, configured) = 0 and `L_close` applies *)
Lemma disconnect_zero_step_event c k s code props se :
  nget c (b_conns s) = Some k -> k_phase k = PhConnected -> k_v k = 5 ->
  aget (k_cid k) (b_sessions s) = Some se -> p_sei props = Some 0 ->
  step_event s (ESend c (KDisconnect code props)) =
  (upd_conn c (set_phase PhZombie (set_disc (negb (code =? 4)) (Some 0) k))
     (upd_conn c (set_disc (negb (code =? 4)) (Some 0) k) s), []).
Proof.
  intros Hk Hp Hv Hs Hx.
  cbn [step_event]. rewrite Hk, Hp. cbn [handle_packet]. rewrite Hv. cbn [N.eqb Pos.eqb]. cbv zeta.
  rewrite Hs, Hx. cbn [opt_or N.eqb negb]. rewrite andb_false_r.
  unfold fail_conn. proj. rewrite nget_nset_same. cbn [set_disc k_phase]. rewrite Hp. cbn [orb app].
  reflexivity.
Qed.

Lemma ur_expiry_disconnect_zero k se cf clean_will :
  k_v k = 5 -> k_force_remove k = false ->
  ur_expiry (set_phase PhZombie (set_disc clean_will (Some 0) k)) se cf = 0.
Proof.
  intros Hv Hf. unfold ur_expiry. cbn [set_phase set_disc k_v k_got_disconnect k_disc_sei k_force_remove opt_or].
  rewrite Hv, Hf. cbn [negb andb N.eqb Pos.eqb]. apply N.min_0_l.
Qed.

(* the poll loops do not touch what a connection remembers of its DISCONNECT *)
Definition dv (k : conn) : N * bool * option N := (k_v k, k_got_disconnect k, k_disc_sei k).
Definition dvs (s : st) (c : N) : option (N * bool * option N) := option_map dv (nget c (b_conns s)).

Lemma dvs_upd_conn c' c k s : dvs (upd_conn c k s) c' = if c' =? c then Some (dv k) else dvs s c'.
Proof. unfold dvs. proj. rewrite nget_nset. destruct (c' =? c); reflexivity. Qed.

Lemma dvs_upd_same c k k' s0 s c' :
  b_conns s0 = b_conns s -> nget c (b_conns s) = Some k -> dv k' = dv k -> dvs (upd_conn c k' s0) c' = dvs s c'.
Proof.
  intros H0 Hk E. rewrite dvs_upd_conn. unfold dvs. rewrite H0.
  destruct (N.eqb_spec c' c) as [->|]; [|reflexivity]. now rewrite Hk, E.
Qed.

Lemma write_publish_dv c k m : dv (fst (write_publish c k m)) = dv k.
Proof.
  unfold write_publish.
  destruct ((k_v k =? 5) && (0 <? k_client_alias_max k) && (msg_total_bytes true m + 5 <=? k_client_max_packet k)); [|reflexivity].
  destruct (am_check (m_topic m) (k_alias_out k)) as [am' [a ex|]]; reflexivity.
Qed.

Lemma poll_once_dv c s s' o : poll_once c s = Some (s', o) -> forall c', dvs s' c' = dvs s c'.
Proof.
  unfold poll_once. destruct (nget c (b_conns s)) as [k|] eqn:Ek; [|discriminate].
  intros H.
  assert (H' : match aget (k_cid k) (b_queues s) with
               | None => None
               | Some q => _ end = Some (s', o)) by (destruct (k_phase k); try discriminate; exact H).
  clear H. destruct (aget (k_cid k) (b_queues s)) as [q|]; [|discriminate].
  pose (R := fun b b' : conn * list out => dv (fst b') = dv (fst b)).
  assert (Rr : forall b, R b b) by (intros b; reflexivity).
  assert (Rt : forall a b d, R a b -> R b d -> R a d) by (unfold R; intros a b d H1 H2; congruence).
  destruct (negb (k_drained k)).
  - destruct (q_read_inflight (b_now s) (N.to_nat (k_max_inflight k)) q) as [q' rs].
    destruct rs as [|r0 rs0].
    + injection H' as <- <-. intros c'. now apply (dvs_upd_same c k).
    + set (rs := r0 :: rs0) in *. cbv zeta in H'.
      match type of H' with context [fold_left ?f rs (k, [])] =>
        pose proof (fold_rel R f rs Rr Rt) as HF; destruct (fold_left f rs (k, [])) as [k' o'] eqn:Ef end.
      assert (HK : R (k, []) (k', o')).
      { rewrite <- Ef. apply HF. intros [k0 o0] e. unfold R. destruct (e_body e) as [m|p0]; [|reflexivity].
        match goal with |- context [write_publish c ?K ?M] =>
          pose proof (write_publish_dv c K M) as W; destruct (write_publish c K M) as [k2 o2] end.
        cbn [fst] in *. exact W. }
      unfold R in HK. cbn [fst] in HK. injection H' as <- <-. intros c'. now apply (dvs_upd_same c k).
  - destruct (k_held k) as [ids|].
    + destruct (q_read (b_now s) ids q) as [[[q' rs] evs]| | |]; try discriminate.
      cbv zeta in H'.
      match type of H' with context [fold_left ?f ?l (?k0, [])] =>
        pose proof (fold_rel R f l Rr Rt) as HF;
        destruct (fold_left f l (k0, [])) as [k' o'] eqn:Ef; set (kk := k0) in * end.
      assert (HK : R (kk, []) (k', o')).
      { rewrite <- Ef. apply HF. intros [k0 o0] e. unfold R. destruct (e_body e) as [m|p0]; [|reflexivity].
        pose proof (write_publish_dv c k0 m) as W. destruct (write_publish c k0 m) as [k2 o2]. exact W. }
      unfold R in HK. cbn [fst] in HK. injection H' as <- <-. intros c'. now apply (dvs_upd_same c k).
    + match type of H' with context [lim_poll ?a ?b] => destruct (lim_poll a b) as [l' [| | |ids]] end; try discriminate.
      injection H' as <- <-. intros c'. now apply (dvs_upd_same c k).
Qed.

Lemma poll_conn_dv fuel c : forall s c', dvs (fst (poll_conn fuel c s)) c' = dvs s c'.
Proof.
  induction fuel as [|f IH]; intros s c'; cbn [poll_conn]; [reflexivity|].
  destruct (poll_once c s) as [[s1 o]|] eqn:E; [|reflexivity].
  pose proof (poll_once_dv c s s1 o E c') as H1. specialize (IH s1 c').
  destruct (poll_conn f c s1) as [s2 o2]. cbn [fst] in *. congruence.
Qed.

Lemma poll_all_dv s c' : dvs (fst (poll_all s)) c' = dvs s c'.
Proof.
  unfold poll_all.
  assert (G : forall (l : list (N * conn)) s0 o0,
            dvs (fst (fold_left (fun acc ck => let '(s0, o0) := acc in
                                   let '(s', o') := poll_conn 400 (fst ck) s0 in (s', o0 ++ o')) l (s0, o0))) c' = dvs s0 c').
  { induction l as [|ck r IH]; intros s0 o0; cbn [fold_left]; [reflexivity|].
    pose proof (poll_conn_dv 400 (fst ck) s0 c') as H1. destruct (poll_conn 400 (fst ck) s0) as [s1 o1].
    cbn [fst] in H1. now rewrite IH. }
  apply G.
Qed.

(* the two steps together: after the DISCONNECT step the store is what it was, and the close of the socket
   is a leaving step of that client *)
Theorem disconnect_then_close s c k code props se :
  BInv s -> nget c (b_conns s) = Some k -> k_phase k = PhConnected -> k_v k = 5 ->
  aget (k_cid k) (b_sessions s) = Some se -> p_sei props = Some 0 ->
  let s1 := fst (step s (ESend c (KDisconnect code props))) in
  b_subs s1 = b_subs s /\ leaving s1 (EClose c) (client_key (k_cid k)).
Proof.
  intros HI Hk Hp Hv Hse Hx. cbv zeta.
  assert (Ha : attached (k_phase k) = true) by now rewrite Hp.
  destruct (attached_session s c k HI Hk Ha) as (_ & _ & Hf).
  pose proof (step_frame_poll s (ESend c (KDisconnect code props))) as F.
  assert (Edv : dvs (fst (step s (ESend c (KDisconnect code props)))) c =
                dvs (fst (step_event s (ESend c (KDisconnect code props)))) c).
  { unfold step. destruct (step_event s (ESend c (KDisconnect code props))) as [sz oz].
    pose proof (poll_all_dv sz c) as H. destruct (poll_all sz) as [s2 o2]. exact H. }
  rewrite (disconnect_zero_step_event c k s code props se Hk Hp Hv Hse Hx) in F, Edv. cbn [fst] in F, Edv.
  set (kz := set_phase PhZombie (set_disc (negb (code =? 4)) (Some 0) k)) in *.
  set (s1 := fst (step s (ESend c (KDisconnect code props)))) in *.
  split; [rewrite (fr_subs _ _ F); reflexivity|].
  pose proof (fr_pv _ _ F c) as Hpv. rewrite pv_upd_conn, N.eqb_refl in Hpv.
  apply pv_some in Hpv as (k1 & Hk1 & Hkv). unfold kview in Hkv. injection Hkv as Hc1 Hp1 Hf1.
  rewrite dvs_upd_conn, N.eqb_refl in Edv. unfold dvs in Edv. rewrite Hk1 in Edv. cbn [option_map] in Edv.
  injection Edv as Hv1 Hg1 Hd1.
  change (k_cid kz) with (k_cid k) in Hc1. change (k_phase kz) with PhZombie in Hp1.
  change (k_force_remove kz) with (k_force_remove k) in Hf1.
  change (k_v kz) with (k_v k) in Hv1. change (k_got_disconnect kz) with true in Hg1.
  change (k_disc_sei kz) with (Some 0) in Hd1.
  rewrite <- Hc1. apply (L_close s1 c k1 se); [exact Hk1|now rewrite Hp1| |].
  - rewrite Hc1, (fr_sess _ _ F). proj. exact Hse.
  - unfold ur_expiry. rewrite Hf1, Hf, Hv1, Hv, Hg1, Hd1. cbn [negb andb N.eqb Pos.eqb opt_or]. apply N.min_0_l.
Qed.

(* ================================================================== *)
(* 12. examples: three members in two groups; one leaves by each       *)
(*     mechanism; then a publish                                       *)
(* ================================================================== *)

Definition sx_cfg : cfg :=
  {| c_onlyonce := false; c_max_inflight := 10; c_max_queued := 100; c_queue_qos0 := true;
     c_session_expiry := 100; c_message_expiry := 0; c_recv_max := 10; c_alias_max := 0; c_max_packet := 0;
     c_max_qos := 2; c_retain_avail := true; c_wildcard := true; c_subid := true; c_shared := true;
     c_max_keepalive := 0; c_allow_zero_len := true; c_inflight_expiry := 0 |}.

(* a v5 client with Session Expiry Interval sei; a v3.1.1 client (session kept unless clean) *)
Definition sx_cn5 (id : str) (clean : bool) (sei : N) : connect :=
  {| cn_ver := 5; cn_cid := id; cn_clean := clean; cn_keepalive := 0; cn_user := None; cn_pass := None;
     cn_will := None; cn_props := [PSei sei] |}.
Definition sx_cn3 (id : str) (clean : bool) : connect :=
  {| cn_ver := 4; cn_cid := id; cn_clean := clean; cn_keepalive := 0; cn_user := None; cn_pass := None;
     cn_will := None; cn_props := [] |}.
Definition sx_tq (name : str) (q : N) : topic_req := {| tq_name := name; tq_qos := q; tq_nl := false; tq_rap := false; tq_rh := 0 |}.

Definition sx_A : str := [97].          (* "a" *)
Definition sx_B : str := [98].          (* "b" *)
Definition sx_C : str := [99].          (* "c" *)
Definition sx_P : str := [112].         (* "p", the publisher *)
Definition sx_t : str := [116].         (* "t" *)
Definition sx_g1_t : str := SHARE_PREFIX ++ [103; 49; 47; 116].   (* "$share/g1/t" *)
Definition sx_g2_t : str := SHARE_PREFIX ++ [103; 50; 47; 116].   (* "$share/g2/t" *)
Definition sx_g1 : str := [103; 49].
Definition sx_g2 : str := [103; 50].

(* a (v5, expiry 0) and b (v5, expiry 50) are the members of g1/t, c (v3, session kept) the member of g2/t
   and - second subscription - of g1/t too; p publishes.  Sockets 1, 2, 3, 4. *)
Definition sx_events (sei_a : N) : list event :=
  [EConnect 1 (sx_cn5 sx_A true sei_a); EConnect 2 (sx_cn5 sx_B true 50); EConnect 3 (sx_cn3 sx_C false);
   EConnect 4 (sx_cn5 sx_P true 0);
   ESend 1 (KSubscribe 1 [PSubId 7] [sx_tq sx_g1_t 1]);
   ESend 2 (KSubscribe 1 [] [sx_tq sx_g1_t 2]);
   ESend 3 (KSubscribe 1 [] [sx_tq sx_g2_t 1; sx_tq sx_g1_t 0])].
Definition sx_state (sei_a : N) (picks : list nat) : st := fst (run (st_init sx_cfg no_hooks picks) (sx_events sei_a)).

Definition sx_pub : pkt := KPublish false 2 false sx_t [120] 9 [].
Definition sx_msg : msg := msg_of_publish true false 2 false sx_t [120] 9 [].
Definition sx_sub (g : str) (id q : N) : sub :=
  {| s_share := g; s_filter := sx_t; s_id := id; s_qos := q; s_nl := false; s_rap := false; s_rh := 0 |}.

(* who is in which group, as `deliver` sees it *)
Definition sx_groups (s : st) : list (str * list (cid * sub)) := d_groups sx_P sx_msg s.
Definition grp_names (s : st) : list (str * list cid) := map (fun g => (fst g, map fst (snd g))) (sx_groups s).
(* the PUBLISH packets of an output trace: (socket, qos, subscription identifiers) *)
Definition sx_pubs (o : list (list out)) : list (N * N * list prop) :=
  flat_map (fun x => match x with OSend c (KPublish _ q _ _ _ _ pr) => [(c, q, pr)] | _ => [] end) (concat o).

(* the start: g1/t = [a; b; c], g2/t = [c] *)
Example sx_start :
  sx_groups (sx_state 0 []) =
  [(sx_g1_t, [(sx_A, sx_sub sx_g1 7 1); (sx_B, sx_sub sx_g1 0 2); (sx_C, sx_sub sx_g1 0 0)]);
   (sx_g2_t, [(sx_C, sx_sub sx_g2 0 1)])].
Proof. vm_compute. reflexivity. Qed.

(* the connection / the session of a socket / a client in a concrete state (examples) *)
Definition sx_conn (c : N) (s : st) : conn := match nget c (b_conns s) with Some k => k | None => fresh_conn [] 0 end.
Definition sx_sess (cid : str) (s : st) : session :=
  match aget cid (b_sessions s) with
  | Some se => se
  | None => {| se_will := None; se_will_delay := 0; se_connected_at := 0; se_expiry := 0 |}
  end.

(* the same broker with queue_qos0 = false (QoS 0 messages are not queued for offline sessions) *)
Definition sx_cfg0 : cfg :=
  {| c_onlyonce := false; c_max_inflight := 10; c_max_queued := 100; c_queue_qos0 := false;
     c_session_expiry := 100; c_message_expiry := 0; c_recv_max := 10; c_alias_max := 0; c_max_packet := 0;
     c_max_qos := 2; c_retain_avail := true; c_wildcard := true; c_subid := true; c_shared := true;
     c_max_keepalive := 0; c_allow_zero_len := true; c_inflight_expiry := 0 |}.
Definition sx_state0 (picks : list nat) : st := fst (run (st_init sx_cfg0 no_hooks picks) (sx_events 0)).
Definition sx_pub0 : pkt := KPublish false 0 false sx_t [120] 0 [].
