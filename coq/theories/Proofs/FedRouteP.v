(* Proofs about the federation routing model (Model/FedRoute.v). *)
From Coq Require Import List NArith Bool Arith Lia ZifyN ZifyNat ZifyBool.
Import ListNotations.
From GM Require Import Base.Topic Base.Msg Model.SubTrie Model.SubSpec Model.RetTrie Model.FedQueue Model.FedRoute
  Oracle.C02O Proofs.TopicP Proofs.SubTrieP Proofs.RetTrieP.
Open Scope N_scope.

(* ------------------------------------------------------------------ *)
(* 1. what a lookup by topic on a store returns (all subscription types) *)
(* ------------------------------------------------------------------ *)

Lemma ents_some l : ents (IOk (some_ents l)) = l.
Proof.
  unfold ents, some_ents. induction l as [|[c s] r IH]; cbn [map flat_map snd fst app]; [reflexivity|].
  now rewrite IH.
Qed.

Lemma some_ents_app a b : some_ents (a ++ b) = some_ents a ++ some_ents b.
Proof. unfold some_ents. apply map_app. Qed.

(* TypeAll = shared part ++ plain part, each exactly the stored matching subscriptions *)
Lemma lookup_all_exact ops t :
  wf_ops ops = true -> t <> [] -> no_wild_levels (split t) = true ->
  exists lsh lpl,
    ents (db_iterate (q_match true true true t) (db_run ops)) = lsh ++ lpl /\
    ents (db_iterate (q_match false true false t) (db_run ops)) = lsh /\
    ents (db_iterate (q_match true false true t) (db_run ops)) = lpl /\
    NoDup lsh /\ NoDup lpl /\
    (forall c s, In (c, s) lsh <->
       (s_share s <> [] /\ sp_get (c, s_share s, s_filter s) (spec_run ops) = Some s /\
        topic_match t (s_filter s) = true)) /\
    (forall c s, In (c, s) lpl <->
       (s_share s = [] /\ sp_get (c, [], s_filter s) (spec_run ops) = Some s /\ topic_match t (s_filter s) = true)).
Proof.
  intros Hwf Ht Hnw.
  destruct (sh_lookup_topic_exact ops t [] Hwf Ht Hnw) as (lsh & Hsh & Hnd1 & Hin1).
  destruct (lookup_topic_exact ops t [] Hwf Ht Hnw) as (lpl & Hpl & Hnd2 & Hin2).
  exists lsh, lpl.
  assert (E1 : q_match false true false t = q_sh_topic t []) by reflexivity.
  assert (E2 : q_match true false true t = q_topic t []) by reflexivity.
  rewrite E1, E2, Hsh, Hpl, !ents_some.
  split.
  { revert Hsh Hpl. unfold db_iterate, q_sh_topic, q_topic, q_match.
    cbn [io_sys io_shared io_nonshared io_topic io_client io_mt andb negb].
    unfold iterate_shared, iterate_nonshared. cbn [io_sys io_shared io_nonshared io_topic io_client io_mt].
    apply is_empty_false in Ht. rewrite Ht. cbn [negb andb is_empty].
    intros Hsh Hpl. injection Hsh as Hsh. injection Hpl as Hpl. cbn [app] in Hsh, Hpl. rewrite !app_nil_r in Hsh.
    rewrite Hsh, Hpl, <- some_ents_app. apply ents_some. }
  split; [reflexivity|]. split; [reflexivity|]. split; [exact Hnd1|]. split; [exact Hnd2|].
  split.
  - intros c s. rewrite Hin1. unfold want_client. tauto.
  - intros c s. rewrite Hin2. unfold want_client. split.
    + intros (Hg & Hm & _). split; [|now split].
      pose proof (inv_ok _ _ (Inv_run ops Hwf)) as Hok. now destruct (sp_get_good _ _ _ _ _ Hok Hg).
    + intros (_ & Hg & Hm). split; [exact Hg|]. split; [exact Hm|now left].
Qed.

(* ------------------------------------------------------------------ *)
(* 2. list helpers                                                     *)
(* ------------------------------------------------------------------ *)

Lemma in_aset_pair {V} (k' k : str) (v' v : V) l : In (k', v') (aset k v l) -> (k', v') = (k, v) \/ In (k', v') l.
Proof.
  induction l as [|[k0 v0] r IH]; cbn [aset In]; intros H.
  - destruct H as [H|[]]. left. now symmetry.
  - destruct (str_eqb k k0); cbn [In] in H.
    + destruct H as [H|H]; [left; now symmetry|right; now right].
    + destruct H as [H|H]; [right; now left|]. apply IH in H as [H|H]; [now left|right; now right].
Qed.

Lemma in_ins_str x y l : In x (ins_str y l) <-> x = y \/ In x l.
Proof.
  induction l as [|z r IH]; cbn [ins_str In]; [intuition|].
  destruct (str_leb y z); cbn [In]; [intuition|]. rewrite IH. intuition.
Qed.

Lemma in_sort_strs x l : In x (sort_strs l) <-> In x l.
Proof.
  unfold sort_strs. induction l as [|y r IH]; cbn [fold_right In]; [tauto|].
  rewrite in_ins_str, IH. intuition.
Qed.

Lemma length_ins_str y l : length (ins_str y l) = S (length l).
Proof. induction l as [|z r IH]; cbn [ins_str length]; [reflexivity|]. destruct (str_leb y z); cbn [length]; [reflexivity|now rewrite IH]. Qed.

Lemma length_sort_strs l : length (sort_strs l) = length l.
Proof. unfold sort_strs. induction l as [|y r IH]; cbn [fold_right length]; [reflexivity|]. now rewrite length_ins_str, IH. Qed.

Lemma nth_mod_in (l : list str) (c : N) : l <> [] -> In (nth (N.to_nat (c mod N.of_nat (length l))) l []) l.
Proof.
  intros Hne. apply nth_In. destruct l as [|x r]; [congruence|].
  assert (N.of_nat (length (x :: r)) <> 0) by (cbn [length]; lia).
  pose proof (N.mod_lt c _ H). lia.
Qed.

Lemma in_add_set x y l : In x (add_set y l) <-> x = y \/ In x l.
Proof.
  unfold add_set. destruct (mem_str y l) eqn:Hm.
  - apply mem_str_In in Hm. split; [now right|]. intros [->|H]; assumption.
  - rewrite in_app_iff. cbn [In]. intuition.
Qed.

Lemma NoDup_snoc' {A} (l : list A) x : NoDup l -> ~ In x l -> NoDup (l ++ [x]).
Proof.
  induction l as [|y r IH]; cbn [app]; intros Hnd Hx; [constructor; [intros []|constructor]|].
  inversion Hnd as [|? ? Hy Hr]; subst. constructor.
  - rewrite in_app_iff. cbn [In]. intros [H|[H|[]]]; [contradiction|]. apply Hx. now left.
  - apply IH; [exact Hr|]. intros H. apply Hx. now right.
Qed.

Lemma NoDup_add_set y l : NoDup l -> NoDup (add_set y l).
Proof.
  intros H. unfold add_set. destruct (mem_str y l) eqn:Hm; [exact H|].
  apply NoDup_snoc'; [exact H|]. intros Hx. apply mem_str_In in Hx. congruence.
Qed.

(* ------------------------------------------------------------------ *)
(* 3. sendMessage                                                      *)
(* ------------------------------------------------------------------ *)

Lemma aget_push n n' e ps :
  aget n (push_event n' e ps) =
  if str_eqb n n' then option_map (fun q => q ++ [e]) (aget n ps) else aget n ps.
Proof.
  unfold push_event. destruct (str_eqb_spec n n') as [->|Hne].
  - destruct (aget n' ps) as [q|] eqn:Hq; [|now rewrite Hq]. now rewrite aget_aset_same.
  - destruct (aget n' ps) as [q|]; [|reflexivity]. now apply aget_aset_other.
Qed.

(* the values of sharedList: non-empty lists of the local node and of nodes that hold a
   matching shared entry of that topic in the federation tree *)
Definition vals_ok (st : rstate) (t : str) (l : list (str * list str)) : Prop :=
  forall k v, In (k, v) l -> v <> [] /\
    forall x, In x v -> x = r_node st \/
      exists s, In (x, s) (ents (db_iterate (q_match true true true t) (r_fed st))) /\ is_empty (s_share s) = false /\ sub_full s = k.

Lemma vals_ok_append st t k x l :
  vals_ok st t l ->
  (x = r_node st \/ exists s, In (x, s) (ents (db_iterate (q_match true true true t) (r_fed st))) /\ is_empty (s_share s) = false /\ sub_full s = k) ->
  vals_ok st t (al_append k x l).
Proof.
  intros Hok Hx k' v' Hin. unfold al_append in Hin. apply in_aset_pair in Hin as [E|Hin]; [|now apply Hok].
  injection E as -> ->. split; [destruct (aget k l); intros H; now apply app_eq_nil in H as [_ H]|].
  intros y Hy. apply in_app_or in Hy as [Hy|[<-|[]]]; [|exact Hx].
  destruct (aget k l) as [vs|] eqn:Hg; [|destruct Hy]. apply aget_In in Hg. now apply (Hok k vs Hg).
Qed.

Lemma shared_list_ok st t : vals_ok st t (fr_shared_list st t).
Proof.
  unfold fr_shared_list.
  set (F := ents (db_iterate (q_match true true true t) (r_fed st))).
  assert (H1 : vals_ok st t (fold_left (fun acc cs => al_append (sub_full (snd cs)) (r_node st) acc)
                                       (ents (db_iterate (q_match false true false t) (r_local st))) [])).
  { generalize (ents (db_iterate (q_match false true false t) (r_local st))).
    assert (H0 : vals_ok st t []) by (intros k v []).
    revert H0. generalize (@nil (str * list str)). intros acc Hacc l. revert acc Hacc.
    induction l as [|cs r IH]; intros acc Hacc; cbn [fold_left]; [exact Hacc|].
    apply IH. apply vals_ok_append; [exact Hacc|now left]. }
  revert H1. generalize (fold_left (fun acc cs => al_append (sub_full (snd cs)) (r_node st) acc)
                                   (ents (db_iterate (q_match false true false t) (r_local st))) []).
  assert (Hsub : forall cs, In cs F -> In cs F) by auto. revert Hsub. generalize F at 1 3.
  intros l. induction l as [|cs r IH]; intros Hsub acc Hacc; cbn [fold_left]; [exact Hacc|].
  apply IH; [intros cs' Hc; apply Hsub; now right|].
  destruct cs as [c s]. cbn [fst snd]. destruct (is_empty (s_share s)) eqn:He; [exact Hacc|].
  apply vals_ok_append; [exact Hacc|]. right. exists s. split; [|now split].
  apply Hsub. now left.
Qed.

(* a node that is never chosen keeps its queue through the shared part *)
Lemma shared_step_other st m a k v n :
  v <> [] -> (forall x, In x v -> x = r_node st \/ x <> n) ->
  aget n (sa_peers (fr_shared_step st m a (k, v))) = aget n (sa_peers a).
Proof.
  intros Hne Hv. unfold fr_shared_step.
  set (chosen := nth _ (sort_strs v) []).
  assert (Hc : chosen = r_node st \/ chosen <> n).
  { apply Hv. apply in_sort_strs. subst chosen. apply nth_mod_in.
    intros E. apply Hne. destruct v; [reflexivity|]. apply (f_equal (@length str)) in E. rewrite length_sort_strs in E. discriminate. }
  destruct (str_eqb_spec chosen (r_node st)) as [E|E]; [reflexivity|].
  destruct Hc as [Hc|Hc]; [congruence|].
  destruct (mem_str chosen (sa_sent a)); [reflexivity|].
  destruct (ahas chosen (sa_peers a)); [|reflexivity].
  assert (Hp : aget n (push_event chosen (EMsg (msg_event_form m)) (sa_peers a)) = aget n (sa_peers a)).
  { rewrite aget_push. destruct (str_eqb_spec n chosen); [congruence|reflexivity]. }
  destruct (fr_local_plain st (m_topic m)); exact Hp.
Qed.

Lemma shared_fold_other st m n l : forall a,
  (forall k v, In (k, v) l -> v <> [] /\ forall x, In x v -> x = r_node st \/ x <> n) ->
  aget n (sa_peers (fold_left (fr_shared_step st m) l a)) = aget n (sa_peers a).
Proof.
  induction l as [|[k v] r IH]; intros a H; cbn [fold_left]; [reflexivity|].
  rewrite IH by (intros k' v' Hin; apply (H k' v'); now right).
  destruct (H k v (or_introl eq_refl)) as [Hne Hv]. now apply (shared_step_other st m a k v n).
Qed.

Lemma nonshared_in st t x :
  In x (fr_nonshared st t) <->
  exists s, In (x, s) (ents (db_iterate (q_match true true true t) (r_fed st))) /\ is_empty (s_share s) = true.
Proof.
  unfold fr_nonshared. generalize (ents (db_iterate (q_match true true true t) (r_fed st))). intros l.
  assert (G : forall acc, In x (fold_left (fun acc cs => if is_empty (s_share (snd cs)) then add_set (fst cs) acc else acc) l acc) <->
                          In x acc \/ exists s, In (x, s) l /\ is_empty (s_share s) = true).
  { induction l as [|[c s] r IH]; intros acc; cbn [fold_left].
    - split; [now left|]. intros [H|(s & [] & _)]. exact H.
    - rewrite IH. cbn [fst snd]. destruct (is_empty (s_share s)) eqn:He.
      + rewrite in_add_set. split.
        * intros [[->|H]|(s' & H & He')]; [right; exists s; split; [now left|exact He]|now left|right; exists s'; split; [now right|exact He']].
        * intros [H|(s' & [E|H] & He')]; [left; now right|injection E as -> ->; left; now left|right; now exists s'].
      + split.
        * intros [H|(s' & H & He')]; [now left|right; exists s'; split; [now right|exact He']].
        * intros [H|(s' & [E|H] & He')]; [now left|injection E as -> ->; congruence|right; now exists s']. }
  rewrite G. split; [intros [[]|H]; exact H|now right].
Qed.

Lemma nonshared_nodup st t : NoDup (fr_nonshared st t).
Proof.
  unfold fr_nonshared. generalize (ents (db_iterate (q_match true true true t) (r_fed st))). intros l.
  assert (G : forall acc, NoDup acc -> NoDup (fold_left (fun acc cs => if is_empty (s_share (snd cs)) then add_set (fst cs) acc else acc) l acc)).
  { induction l as [|[c s] r IH]; intros acc H; cbn [fold_left]; [exact H|]. apply IH. cbn [fst snd].
    destruct (is_empty (s_share s)); [now apply NoDup_add_set|exact H]. }
  apply G. constructor.
Qed.

(* the last loop of sendMessage on one queue *)
Lemma nonshared_fold_queue e sent n : forall ns ps, NoDup ns ->
  aget n (fold_left (fun ps x => if mem_str x sent then ps else push_event x e ps) ns ps) =
  if mem_str n ns && negb (mem_str n sent) then option_map (fun q => q ++ [e]) (aget n ps) else aget n ps.
Proof.
  induction ns as [|x r IH]; intros ps Hnd; cbn [fold_left mem_str]; [reflexivity|].
  inversion Hnd as [|? ? Hx Hr]; subst. rewrite (IH _ Hr).
  destruct (str_eqb_spec n x) as [->|Hne]; cbn [orb].
  - assert (Hm : mem_str x r = false) by (destruct (mem_str x r) eqn:E; [apply mem_str_In in E; contradiction|reflexivity]).
    rewrite Hm. cbn [andb]. destruct (mem_str x sent); cbn [negb andb]; [reflexivity|].
    rewrite aget_push. destruct (str_eqb_spec x x); [reflexivity|congruence].
  - destruct (mem_str x sent); [reflexivity|]. rewrite aget_push.
    destruct (str_eqb_spec n x); [congruence|]. reflexivity.
Qed.

(* ------------------------------------------------------------------ *)
(* 4. the statements                                                   *)
(* ------------------------------------------------------------------ *)

(* node n holds (in the federation tree described by sp) a subscription matching topic t *)
Definition node_matches (sp : spec) (n t : str) : Prop :=
  exists g f s, sp_get (n, g, f) sp = Some s /\
                topic_match t f = true.
Definition node_plain_matches (sp : spec) (n t : str) : Prop :=
  exists f s, sp_get (n, [], f) sp = Some s /\ topic_match t f = true.

Lemma ents_node_matches ops t x s :
  wf_ops ops = true -> t <> [] -> no_wild_levels (split t) = true ->
  In (x, s) (ents (db_iterate (q_match true true true t) (db_run ops))) -> node_matches (spec_run ops) x t.
Proof.
  intros Hwf Ht Hnw Hin. destruct (lookup_all_exact ops t Hwf Ht Hnw) as (lsh & lpl & Hall & _ & _ & _ & _ & Hsh & Hpl).
  rewrite Hall in Hin. apply in_app_or in Hin as [Hin|Hin].
  - apply Hsh in Hin as (Hg & Hget & Hlm). exists (s_share s), (s_filter s), s. split; [exact Hget|exact Hlm].
  - apply Hpl in Hin as (Hg & Hget & Hm). exists [], (s_filter s), s. split; [exact Hget|exact Hm].
Qed.

(* none unmatched: a node without a matching subscription in the federation tree gets nothing *)
Lemma fr_none_unmatched st fed_ops m n :
  r_fed st = db_run fed_ops -> wf_ops fed_ops = true ->
  m_retained m = false -> m_topic m <> [] -> no_wild_levels (split (m_topic m)) = true ->
  ~ node_matches (spec_run fed_ops) n (m_topic m) ->
  aget n (r_peers (fst (fst (fr_send_message st m)))) = aget n (r_peers st).
Proof.
  intros Hfed Hwf Hret Ht Hnw Hno. unfold fr_send_message. rewrite Hret. cbn [fst r_peers].
  rewrite nonshared_fold_queue by apply nonshared_nodup.
  assert (Hnot : forall s, ~ In (n, s) (ents (db_iterate (q_match true true true (m_topic m)) (r_fed st)))).
  { intros s Hin. rewrite Hfed in Hin. apply Hno. now apply (ents_node_matches fed_ops _ n s). }
  assert (Hm : mem_str n (fr_nonshared st (m_topic m)) = false).
  { destruct (mem_str n (fr_nonshared st (m_topic m))) eqn:E; [|reflexivity].
    apply mem_str_In, nonshared_in in E as (s & Hin & _). now destruct (Hnot s). }
  rewrite Hm. cbn [andb]. rewrite shared_fold_other; [reflexivity|].
  intros k v Hin. destruct (shared_list_ok st (m_topic m) k v Hin) as [Hne Hv]. split; [exact Hne|].
  intros x Hx. destruct (Hv x Hx) as [->|(s & Hs & _)]; [now left|right]. intros ->. now destruct (Hnot s).
Qed.

Lemma fold_shared_all_plain (node : str) (l : list (cid * sub)) acc :
  (forall cs, In cs l -> is_empty (s_share (snd cs)) = true) ->
  fold_left (fun acc cs => if is_empty (s_share (snd cs)) then acc else al_append (sub_full (snd cs)) (fst cs) acc) l acc = acc.
Proof.
  revert acc. induction l as [|[c s] r IH]; intros acc H; cbn [fold_left]; [reflexivity|].
  cbn [fst snd]. pose proof (H (c, s) (or_introl eq_refl)) as He. cbn [snd] in He. rewrite He.
  apply IH. intros cs Hc. apply H. now right.
Qed.

(* plain routing: with no matching shared subscription anywhere, exactly the peers with a
   matching non-shared subscription get the message, once; nothing is dropped or rewritten *)
Lemma fr_plain_exact st local_ops fed_ops m :
  r_local st = db_run local_ops -> r_fed st = db_run fed_ops ->
  wf_ops local_ops = true -> wf_ops fed_ops = true ->
  m_retained m = false -> m_topic m <> [] -> no_wild_levels (split (m_topic m)) = true ->
  (forall c g f s, g <> [] -> sp_get (c, g, f) (spec_run local_ops) = Some s -> topic_match (m_topic m) f = false) ->
  (forall c g f s, g <> [] -> sp_get (c, g, f) (spec_run fed_ops) = Some s -> topic_match (m_topic m) f = false) ->
  snd (fst (fr_send_message st m)) = false /\ snd (fr_send_message st m) = None /\
  forall n q, aget n (r_peers st) = Some q ->
    (node_plain_matches (spec_run fed_ops) n (m_topic m) ->
       aget n (r_peers (fst (fst (fr_send_message st m)))) = Some (q ++ [EMsg (msg_event_form m)])) /\
    (~ node_plain_matches (spec_run fed_ops) n (m_topic m) ->
       aget n (r_peers (fst (fst (fr_send_message st m)))) = Some q).
Proof.
  intros Hloc Hfed Hwl Hwf Hret Ht Hnw Hnsl Hnsf.
  set (t := m_topic m) in *.
  destruct (lookup_all_exact local_ops t Hwl Ht Hnw) as (lshL & lplL & _ & HshL & _ & _ & _ & HinL & _).
  destruct (lookup_all_exact fed_ops t Hwf Ht Hnw) as (lsh & lpl & Hall & _ & _ & _ & _ & Hsh & Hpl).
  assert (HL : lshL = []).
  { destruct lshL as [|[c s] r]; [reflexivity|]. exfalso.
    destruct (proj1 (HinL c s) (or_introl eq_refl)) as (Hg & Hget & Hlm). rewrite (Hnsl _ _ _ _ Hg Hget) in Hlm. discriminate. }
  assert (HF : lsh = []).
  { destruct lsh as [|[c s] r]; [reflexivity|]. exfalso.
    destruct (proj1 (Hsh c s) (or_introl eq_refl)) as (Hg & Hget & Hlm). rewrite (Hnsf _ _ _ _ Hg Hget) in Hlm. discriminate. }
  assert (Hlist : fr_shared_list st t = []).
  { unfold fr_shared_list. rewrite Hloc, HshL, HL, Hfed, Hall, HF. cbn [fold_left app].
    apply (fold_shared_all_plain (r_node st)). intros [c s] Hin. apply Hpl in Hin as (Hg & _). cbn [snd]. now rewrite Hg. }
  unfold fr_send_message. rewrite Hret. fold t. rewrite Hlist. cbn [fold_left fst snd sa_drop sa_opts sa_sent sa_peers r_peers].
  split; [reflexivity|]. split; [reflexivity|].
  intros n q Hq. rewrite nonshared_fold_queue by apply nonshared_nodup. cbn [mem_str negb]. rewrite andb_true_r, Hq. cbn [option_map].
  assert (Hiff : mem_str n (fr_nonshared st t) = true <-> node_plain_matches (spec_run fed_ops) n t).
  { rewrite mem_str_In, nonshared_in, Hfed, Hall, HF. cbn [app]. split.
    - intros (s & Hin & _). apply Hpl in Hin as (_ & Hget & Hm). now exists (s_filter s), s.
    - intros (f & s & Hget & Hm).
      pose proof (inv_ok _ _ (Inv_run fed_ops Hwf)) as Hok. destruct (sp_get_good _ _ _ _ _ Hok Hget) as [Hg Hf].
      exists s. split; [|now rewrite Hg]. apply Hpl. rewrite Hf. now split. }
  split.
  - intros Hm. apply Hiff in Hm. now rewrite Hm.
  - intros Hm. destruct (mem_str n (fr_nonshared st t)) eqn:E; [|reflexivity]. exfalso. apply Hm, Hiff. reflexivity.
Qed.

(* retained: every peer gets the message (in event form), once; nothing is dropped or rewritten *)
Lemma fr_retained_broadcast st m :
  m_retained m = true ->
  snd (fst (fr_send_message st m)) = false /\ snd (fr_send_message st m) = None /\
  r_peers (fst (fst (fr_send_message st m))) = map (fun p => (fst p, snd p ++ [EMsg (msg_event_form m)])) (r_peers st).
Proof. intros H. unfold fr_send_message. rewrite H. now repeat split. Qed.

(* ---- the receiving side ---- *)
Definition fr_store_after (ms : list msg) : rdb :=
  fold_left (fun r m => snd (fr_receive (msg_event_form m) r)) ms rdb_init.

(* the operations the broker's own rule (publishHandler: RETAIN with an empty payload clears
   the topic, otherwise the message is kept) performs for the retained ones among `ms` *)
Definition recv_ops_spec (ms : list msg) : list rop :=
  flat_map (fun m => if m_retained m then [retain_op (msg_event_form m)] else []) ms.

Lemma fr_store_after_run ms : fr_store_after ms = rdb_run (recv_ops_spec ms).
Proof.
  unfold fr_store_after, rdb_run, recv_ops_spec. generalize rdb_init.
  induction ms as [|m r IH]; intros d; cbn [fold_left flat_map]; [reflexivity|].
  rewrite fold_left_app, IH. unfold fr_receive. cbn [snd m_retained msg_event_form].
  destruct (m_retained m); reflexivity.
Qed.

(* the receiver's retained store is, after any sequence of received messages, what the
   broker's own rule gives: per topic the last retained message with a non-empty payload,
   nothing after a retained message with an empty payload *)
Lemma fr_receiver_retained ms t :
  rdb_get t (fr_store_after ms) = aget t (rspec_run (recv_ops_spec ms)).
Proof. now rewrite fr_store_after_run, ret_get_exact. Qed.

Definition ex_clear : msg :=
  {| m_dup := false; m_qos := 0; m_retained := true; m_topic := [97]; m_payload := []; m_pid := 0;
     m_ctype := []; m_corr := []; m_expiry := 0; m_pfmt := 0; m_resp := []; m_subids := []; m_uprops := [] |}.
Definition ex_set : msg :=
  {| m_dup := false; m_qos := 0; m_retained := true; m_topic := [97]; m_payload := [49]; m_pid := 0;
     m_ctype := []; m_corr := []; m_expiry := 0; m_pfmt := 0; m_resp := []; m_subids := []; m_uprops := [] |}.

(* the witness of the repaired finding (stored instead of cleared): set, then clear *)
Lemma fr_receiver_clear_witness :
  rdb_get [97] (fr_store_after [ex_set]) = Some ex_set /\ rdb_get [97] (fr_store_after [ex_set; ex_clear]) = None /\
  rdb_all (fr_store_after [ex_set; ex_clear]) = [].
Proof. vm_compute. repeat split. Qed.

(* ---- a share group spanning nodes: exactly-once is false of the code ---- *)
From GM Require Import Oracle.C17O.

Definition ex_pub : msg :=
  {| m_dup := false; m_qos := 1; m_retained := false; m_topic := [97]; m_payload := [49]; m_pid := 0;
     m_ctype := []; m_corr := []; m_expiry := 0; m_pfmt := 0; m_resp := []; m_subids := []; m_uprops := [] |}.

(* n1 holds a plain subscriber of "a" and a member of $share/g/a, n2 another member; when the
   group's turn is n2's, n1 still gets the message for its plain subscriber and serves its
   member as well: two deliveries *)
Definition ex_span_double : rcase :=
  {| rc_node := [110; 48];
     rc_nodes := [([110; 48], []);
                  ([110; 49], [([99], [], [97]); ([100], [103], [97])]);
                  ([110; 50], [([99], [103], [97])])];
     rc_peers := [[110; 49]; [110; 50]] |}.

(* two groups: the remote turn of g1 makes the origin skip its own shared subscribers, the
   local turn of g2 sends nothing: the origin's member of g2 is not served at all *)
Definition ex_span_zero : rcase :=
  {| rc_node := [110; 48];
     rc_nodes := [([110; 48], [([99], [103; 50], [97])]);
                  ([110; 49], [([99], [103; 49], [97])])];
     rc_peers := [[110; 49]] |}.

Lemma fr_shared_one_refuted :
  (exists c counters m, kf_shared_span c m = true /\ plain_ok c m (case_obs c counters m) = true /\
     exists G, In G (groups (m_topic m) c) /\ group_deliveries c (m_topic m) G (case_obs c counters m) = 2) /\
  (exists c counters m, kf_shared_span c m = true /\ plain_ok c m (case_obs c counters m) = true /\
     exists G, In G (groups (m_topic m) c) /\ group_deliveries c (m_topic m) G (case_obs c counters m) = 0).
Proof.
  split.
  - exists ex_span_double, [([36; 115; 104; 97; 114; 101; 47; 103; 47; 97], 1)], ex_pub.
    split; [vm_compute; reflexivity|]. split; [vm_compute; reflexivity|].
    exists [36; 115; 104; 97; 114; 101; 47; 103; 47; 97]. split; [vm_compute; now left|vm_compute; reflexivity].
  - exists ex_span_zero, [], ex_pub.
    split; [vm_compute; reflexivity|]. split; [vm_compute; reflexivity|].
    exists [36; 115; 104; 97; 114; 101; 47; 103; 50; 47; 97]. split; [vm_compute; tauto|vm_compute; reflexivity].
Qed.
