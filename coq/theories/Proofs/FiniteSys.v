(* Finite transition systems given by an executable successor function: breadth-first search
   of the reachable set inside Coq (visited set of injective state codes, fuel = number of
   levels) and the generic lemmas that turn boolean checks over the computed list into
   statements about ALL runs.  Used by ConnLifeP.v and StopLifeP.v (C15). *)
From Coq Require Import List Arith Bool PArith MSets.MSetPositive Lia.
Import ListNotations.

Module PS := PositiveSet.

(* ---------------------------------------------------------------- an injective code for lists of numbers *)

(* each number n as n one-bits followed by a zero-bit *)
Fixpoint enc (l : list nat) : positive :=
  match l with
  | [] => xH
  | n :: tl => Nat.iter n xI (xO (enc tl))
  end.

Lemma iter_xI_xO_inj n : forall m a b, Nat.iter n xI (xO a) = Nat.iter m xI (xO b) -> n = m /\ a = b.
Proof.
  induction n as [|n IH]; intros [|m] a b H; cbn in H.
  - inversion H. auto.
  - discriminate.
  - discriminate.
  - inversion H as [H']. apply IH in H' as [-> ->]. auto.
Qed.

Lemma iter_xI_xO_not_xH n a : Nat.iter n xI (xO a) <> xH.
Proof. destruct n; cbn; discriminate. Qed.

Lemma enc_inj : forall l1 l2, enc l1 = enc l2 -> l1 = l2.
Proof.
  induction l1 as [|n l1 IH]; intros [|m l2] H; cbn in H.
  - reflexivity.
  - symmetry in H. now apply iter_xI_xO_not_xH in H.
  - now apply iter_xI_xO_not_xH in H.
  - apply iter_xI_xO_inj in H as [-> H]. f_equal. now apply IH.
Qed.

Lemma b2n_inj b b' : Nat.b2n b = Nat.b2n b' -> b = b'.
Proof. destruct b, b'; cbn; congruence. Qed.

Definition is_some {A} (o : option A) : bool := match o with Some _ => true | None => false end.

Section Sys.
  Context {St : Type}.
  Context (next : St -> list St).
  Context (code : St -> positive).
  Context (code_inj : forall s s', code s = code s' -> s = s').

  (* ---------------------------------------------------------------- search *)

  Definition add_new (acc : PS.t * list St) (s : St) : PS.t * list St :=
    let '(seen, fresh) := acc in
    if PS.mem (code s) seen then acc else (PS.add (code s) seen, s :: fresh).

  Fixpoint bfs (fuel : nat) (frontier : list St) (seen : PS.t) (all : list St) : option (list St) :=
    match fuel with
    | 0 => match frontier with [] => Some all | _ => None end
    | S f =>
        match frontier with
        | [] => Some all
        | _ =>
            let '(seen', fresh) := fold_left add_new (flat_map next frontier) (seen, []) in
            bfs f fresh seen' (fresh ++ all)
        end
    end.

  Definition explore (fuel : nat) (i0 : St) : option (list St) :=
    bfs fuel [i0] (PS.singleton (code i0)) [i0].

  Definition set_of (l : list St) : PS.t := fold_left (fun acc s => PS.add (code s) acc) l PS.empty.

  (* ---------------------------------------------------------------- checks *)

  Definition closedb_with (S : PS.t) (i0 : St) (l : list St) : bool :=
    PS.mem (code i0) S && forallb (fun s => forallb (fun s' => PS.mem (code s') S) (next s)) l.

  (* i0 is in l and l is closed under `next` *)
  Definition closedb_of (i0 : St) (l : list St) : bool :=
    let S := set_of l in closedb_with S i0 l.

  Definition stuck (s : St) : bool := match next s with [] => true | _ => false end.

  (* every state of l without successor satisfies goodb *)
  Definition no_stuckb_of (goodb : St -> bool) (l : list St) : bool :=
    forallb (fun s => negb (stuck s) || goodb s) l.

  (* every transition from a state of l decreases the measure *)
  Definition measureb_of (measure : St -> nat) (l : list St) : bool :=
    forallb (fun s => forallb (fun s' => Nat.ltb (measure s') (measure s)) (next s)) l.

  (* a state predicate holds on all of l *)
  Definition invb_of (inv : St -> bool) (l : list St) : bool := forallb inv l.

  (* ---------------------------------------------------------------- semantics *)

  Inductive reachable_from (i0 : St) : St -> Prop :=
  | reach_init : reachable_from i0 i0
  | reach_step : forall s s', reachable_from i0 s -> In s' (next s) -> reachable_from i0 s'.

  (* every maximal run from s is finite and ends in a state satisfying P *)
  Inductive ends_in (P : St -> Prop) : St -> Prop :=
  | ends_here : forall s, next s = [] -> P s -> ends_in P s
  | ends_step : forall s, next s <> [] -> (forall s', In s' (next s) -> ends_in P s') -> ends_in P s.

  (* a run given by the index of the chosen successor at every step *)
  Fixpoint replay (choices : list nat) (s : St) : option St :=
    match choices with
    | [] => Some s
    | c :: tl => match nth_error (next s) c with Some s' => replay tl s' | None => None end
    end.

  Lemma replay_reachable i0 : forall choices s s',
    reachable_from i0 s -> replay choices s = Some s' -> reachable_from i0 s'.
  Proof.
    induction choices as [|c tl IH]; intros s s' R H; cbn in H.
    - inversion H. now subst.
    - destruct (nth_error (next s) c) as [x|] eqn:E; [|discriminate].
      eapply IH; [|exact H]. eapply reach_step; [exact R|]. eapply nth_error_In; exact E.
  Qed.

  (* ---------------------------------------------------------------- from checks to statements *)

  Lemma set_of_spec_gen l : forall acc p,
    PS.mem p (fold_left (fun acc s => PS.add (code s) acc) l acc) = true ->
    PS.mem p acc = true \/ In p (map code l).
  Proof.
    induction l as [|s l IH]; intros acc p H; cbn in *; [auto|].
    apply IH in H as [H|H]; [|auto].
    apply PS.mem_spec in H. apply PS.add_spec in H as [H|H].
    - right. left. now subst.
    - left. now apply PS.mem_spec.
  Qed.

  Lemma set_of_spec l p : PS.mem p (set_of l) = true -> In p (map code l).
  Proof.
    intros H. apply set_of_spec_gen in H as [H|H]; [|exact H].
    apply PS.mem_spec in H. now apply PS.empty_spec in H.
  Qed.

  Lemma mem_set_of l s : PS.mem (code s) (set_of l) = true -> In s l.
  Proof.
    intros H. apply set_of_spec in H. apply in_map_iff in H as [s0 [E Hin]].
    apply code_inj in E. now subst.
  Qed.

  Section Generic.
    Context (i0 : St) (l : list St).
    Context (Hclosed : closedb_of i0 l = true).

    (* every state reachable by ANY run is in the list *)
    Lemma reach_complete_gen : forall s, reachable_from i0 s -> In s l.
    Proof.
      pose proof Hclosed as C. unfold closedb_of, closedb_with in C. cbv zeta in C.
      apply andb_true_iff in C as [Ci Cs].
      induction 1 as [|s s' _ IH Hin].
      - now apply mem_set_of.
      - rewrite forallb_forall in Cs. specialize (Cs s IH). rewrite forallb_forall in Cs.
        apply mem_set_of. now apply Cs.
    Qed.

    Lemma inv_gen (inv : St -> bool) : invb_of inv l = true ->
      forall s, reachable_from i0 s -> inv s = true.
    Proof.
      intros H s R. apply reach_complete_gen in R. unfold invb_of in H.
      rewrite forallb_forall in H. now apply H.
    Qed.

    Lemma stuck_classified_gen (goodb : St -> bool) : no_stuckb_of goodb l = true ->
      forall s, reachable_from i0 s -> next s = [] -> goodb s = true.
    Proof.
      intros N s R Hn. apply reach_complete_gen in R. unfold no_stuckb_of in N.
      rewrite forallb_forall in N. specialize (N s R). unfold stuck in N. rewrite Hn in N. exact N.
    Qed.

    Context (measure : St -> nat).
    Context (Hmeasure : measureb_of measure l = true).

    Lemma measure_decreases_gen : forall s s', reachable_from i0 s -> In s' (next s) -> measure s' < measure s.
    Proof.
      intros s s' R Hn. apply reach_complete_gen in R. pose proof Hmeasure as M. unfold measureb_of in M.
      rewrite forallb_forall in M. specialize (M s R). rewrite forallb_forall in M.
      specialize (M s' Hn). now apply Nat.ltb_lt in M.
    Qed.

    Lemma all_runs_end_gen (goodb : St -> bool) : no_stuckb_of goodb l = true ->
      forall s, reachable_from i0 s -> ends_in (fun s => goodb s = true) s.
    Proof.
      intros N s. remember (measure s) as n eqn:E. revert s E.
      induction n as [n IH] using lt_wf_ind. intros s E R.
      destruct (next s) as [|x xs] eqn:Hn.
      - apply ends_here; [exact Hn|]. now apply (stuck_classified_gen goodb N).
      - apply ends_step; [rewrite Hn; discriminate|]. intros s' Hin.
        apply (IH (measure s')).
        + subst n. apply measure_decreases_gen; [exact R|exact Hin].
        + reflexivity.
        + eapply reach_step; eassumption.
    Qed.

    Lemma run_length_bounded_gen : forall s, reachable_from i0 s -> measure s <= measure i0.
    Proof.
      induction 1 as [|s s' R IH Hin]; [lia|]. pose proof (measure_decreases_gen s s' R Hin). lia.
    Qed.
  End Generic.
End Sys.
