(* The retained-message trie (Model/RetTrie.v) refines a flat map topic -> message,
   for all operation histories. *)
From Coq Require Import List NArith Bool Arith Lia.
Import ListNotations.
From GM Require Import Base.Topic Base.Msg Model.SubTrie Model.RetTrie Model.TopicMatch Proofs.TopicP.

(* ------------------------------------------------------------------ *)
(* association lists                                                   *)
(* ------------------------------------------------------------------ *)
Section AssocP.
  Context {V : Type}.
  Implicit Types (l : list (str * V)) (k : str) (v : V).

  Lemma aget_aset k k' v l :
    aget k (aset k' v l) = if str_eqb k k' then Some v else aget k l.
  Proof.
    induction l as [|[k0 v0] r IH]; cbn [aset aget].
    - reflexivity.
    - destruct (str_eqb k' k0) eqn:E.
      + apply str_eqb_eq in E. subst k0. cbn [aget]. destruct (str_eqb k k'); reflexivity.
      + cbn [aget]. destruct (str_eqb k k0) eqn:E2.
        * apply str_eqb_eq in E2. subst k0. rewrite (str_eqb_sym k k'), E. reflexivity.
        * exact IH.
  Qed.

  Lemma aget_in k v l : aget k l = Some v -> In (k, v) l.
  Proof.
    induction l as [|[k0 v0] r IH]; cbn [aget]; intros H; [discriminate|].
    destruct (str_eqb k k0) eqn:E.
    - apply str_eqb_eq in E. subst k0. injection H as H. subst v0. now left.
    - right. now apply IH.
  Qed.

  Lemma aget_none k l : aget k l = None <-> ~ In k (map fst l).
  Proof.
    induction l as [|[k0 v0] r IH]; cbn [aget map fst In].
    - tauto.
    - destruct (str_eqb k k0) eqn:E.
      + apply str_eqb_eq in E. subst k0. split; [discriminate|]. intros H. exfalso. apply H. now left.
      + apply str_eqb_neq in E. rewrite IH. split.
        * intros H [H1|H1]; [congruence|contradiction].
        * intros H H1. apply H. now right.
  Qed.

  Lemma in_aget k v l : NoDup (map fst l) -> In (k, v) l -> aget k l = Some v.
  Proof.
    induction l as [|[k0 v0] r IH]; cbn [aget map fst]; intros Hnd Hin; [destruct Hin|].
    inversion Hnd as [|x xs Hnotin Hnd']; subst.
    destruct Hin as [Hin|Hin].
    - injection Hin as Hk Hv. subst. now rewrite str_eqb_refl.
    - destruct (str_eqb k k0) eqn:E.
      + apply str_eqb_eq in E. subst k0. exfalso. apply Hnotin.
        apply in_map_iff. exists (k, v). now split.
      + now apply IH.
  Qed.

  Lemma aget_adel k k' l :
    NoDup (map fst l) -> aget k (adel k' l) = if str_eqb k k' then None else aget k l.
  Proof.
    induction l as [|[k0 v0] r IH]; intros Hnd; cbn [adel aget].
    - destruct (str_eqb k k'); reflexivity.
    - cbn [map fst] in Hnd. inversion Hnd as [|x xs Hnotin Hnd']; subst.
      destruct (str_eqb k' k0) eqn:E.
      + apply str_eqb_eq in E. subst k0.
        destruct (str_eqb k k') eqn:E2; [|reflexivity].
        apply str_eqb_eq in E2. subst k'. now apply aget_none.
      + cbn [aget]. destruct (str_eqb k k0) eqn:E2.
        * apply str_eqb_eq in E2. subst k0. rewrite (str_eqb_sym k k'), E. reflexivity.
        * now apply IH.
  Qed.

  Lemma aset_keys k v l x : In x (map fst (aset k v l)) <-> x = k \/ In x (map fst l).
  Proof.
    induction l as [|[k0 v0] r IH]; cbn [aset map fst In].
    - intuition congruence.
    - destruct (str_eqb k k0) eqn:E; cbn [map fst In].
      + apply str_eqb_eq in E. subst k0. intuition congruence.
      + rewrite IH. intuition congruence.
  Qed.

  Lemma aset_nodup k v l : NoDup (map fst l) -> NoDup (map fst (aset k v l)).
  Proof.
    induction l as [|[k0 v0] r IH]; cbn [aset map fst]; intros Hnd.
    - constructor; [intros []|constructor].
    - inversion Hnd as [|x xs Hnotin Hnd']; subst.
      destruct (str_eqb k k0) eqn:E; cbn [map fst].
      + apply str_eqb_eq in E. subst k0. now constructor.
      + apply str_eqb_neq in E. constructor; [|now apply IH].
        intros Hin. apply aset_keys in Hin as [Hin|Hin]; [congruence|contradiction].
  Qed.

  Lemma adel_keys k l x : In x (map fst (adel k l)) -> In x (map fst l).
  Proof.
    induction l as [|[k0 v0] r IH]; cbn [adel map fst In]; [tauto|].
    destruct (str_eqb k k0); cbn [map fst In]; tauto.
  Qed.

  Lemma adel_nodup k l : NoDup (map fst l) -> NoDup (map fst (adel k l)).
  Proof.
    induction l as [|[k0 v0] r IH]; cbn [adel map fst]; intros Hnd; [constructor|].
    inversion Hnd as [|x xs Hnotin Hnd']; subst.
    destruct (str_eqb k k0); cbn [map fst]; [exact Hnd'|].
    constructor; [|now apply IH].
    intros Hin. apply adel_keys in Hin. contradiction.
  Qed.

  Lemma aset_forall (Q : V -> Prop) k v l :
    Q v -> Forall (fun p => Q (snd p)) l -> Forall (fun p => Q (snd p)) (aset k v l).
  Proof.
    intros Hv. induction 1 as [|[k0 v0] r H0 Hr IH]; cbn [aset].
    - constructor; [exact Hv|constructor].
    - destruct (str_eqb k k0); constructor; assumption.
  Qed.

  Lemma adel_forall (Q : V -> Prop) k l :
    Forall (fun p => Q (snd p)) l -> Forall (fun p => Q (snd p)) (adel k l).
  Proof.
    induction 1 as [|[k0 v0] r H0 Hr IH]; cbn [adel]; [constructor|].
    destruct (str_eqb k k0); [assumption|constructor; assumption].
  Qed.

  Lemma aget_forall (Q : V -> Prop) k v l :
    Forall (fun p => Q (snd p)) l -> aget k l = Some v -> Q v.
  Proof.
    intros HF Hg. apply aget_in in Hg. rewrite Forall_forall in HF. exact (HF _ Hg).
  Qed.
End AssocP.

(* ------------------------------------------------------------------ *)
(* generic list facts                                                  *)
(* ------------------------------------------------------------------ *)
Lemma NoDup_map_inj_in {A B : Type} (f : A -> B) (l : list A) :
  NoDup l -> (forall x y, In x l -> In y l -> f x = f y -> x = y) -> NoDup (map f l).
Proof.
  induction 1 as [|x xs Hx Hnd IH]; intros Hinj; cbn [map]; constructor.
  - intros Hin. apply in_map_iff in Hin as (y & Ey & Hy).
    assert (y = x) by (apply Hinj; [now right|now left|exact Ey]). subst y. contradiction.
  - apply IH. intros a b Ha Hb. apply Hinj; now right.
Qed.

(* NoDup of a flat_map whose pieces are pairwise disjoint *)
Lemma NoDup_flat_map {A B : Type} (g : A -> list B) (l : list A) :
  NoDup l ->
  (forall x, In x l -> NoDup (g x)) ->
  (forall x y b, In x l -> In y l -> In b (g x) -> In b (g y) -> x = y) ->
  NoDup (flat_map g l).
Proof.
  induction 1 as [|x xs Hx Hnd IH]; intros Hpiece Hdis; cbn [flat_map]; [constructor|].
  apply NoDup_app_disjoint.
  - apply Hpiece. now left.
  - apply IH.
    + intros y Hy. apply Hpiece. now right.
    + intros a b c Ha Hb. apply Hdis; now right.
  - intros b Hb Hin. apply in_flat_map in Hin as (y & Hy & Hby).
    assert (x = y) by (apply (Hdis x y b); [now left|now right|exact Hb|exact Hby]).
    subst y. contradiction.
Qed.

Lemma NoDup_of_map {A B : Type} (f : A -> B) (l : list A) : NoDup (map f l) -> NoDup l.
Proof.
  induction l as [|x xs IH]; cbn [map]; intros H; [constructor|].
  inversion H as [|y ys Hnotin Hnd]; subst. constructor; [|now apply IH].
  intros Hin. apply Hnotin. now apply in_map.
Qed.

(* ------------------------------------------------------------------ *)
(* the trie: induction principle, well-formedness, msg_at              *)
(* ------------------------------------------------------------------ *)
Section RnodeInd.
  Variable P : rnode -> Prop.
  Hypothesis Hnode : forall m ch, Forall (fun p => P (snd p)) ch -> P (RNode m ch).

  Fixpoint rnode_ind' (n : rnode) : P n :=
    match n with
    | RNode m ch =>
        Hnode m ch
          ((fix go (l : list (level * rnode)) : Forall (fun p => P (snd p)) l :=
              match l with
              | [] => Forall_nil _
              | (lv, c) :: r => Forall_cons (lv, c) (rnode_ind' c) (go r)
              end) ch)
    end.
End RnodeInd.

(* children keys are pairwise distinct, hereditarily *)
Inductive rwf : rnode -> Prop :=
| rwf_node m ch : NoDup (map fst ch) -> Forall (fun p => rwf (snd p)) ch -> rwf (RNode m ch).

Lemma rwf_inv n : rwf n -> NoDup (map fst (r_children n)) /\ Forall (fun p => rwf (snd p)) (r_children n).
Proof. intros H. inversion H; subst. cbn [r_children]. now split. Qed.

Lemma rwf_intro n :
  NoDup (map fst (r_children n)) -> Forall (fun p => rwf (snd p)) (r_children n) -> rwf n.
Proof. destruct n as [m ch]. cbn [r_children]. now constructor. Qed.

Lemma rwf_empty : rwf r_empty.
Proof. constructor; constructor. Qed.

Lemma rwf_child lv n c : rwf n -> r_child lv n = Some c -> rwf c.
Proof.
  intros H Hc. apply rwf_inv in H as [_ HF]. unfold r_child in Hc.
  exact (aget_forall rwf lv c _ HF Hc).
Qed.

Definition msg_at (n : rnode) (p : list level) : option msg :=
  match r_get p n with Some x => r_msg x | None => None end.

Lemma msg_at_nil n : msg_at n [] = r_msg n.
Proof. reflexivity. Qed.

Lemma msg_at_cons n lv q :
  msg_at n (lv :: q) = match r_child lv n with Some c => msg_at c q | None => None end.
Proof. unfold msg_at. cbn [r_get]. destruct (r_child lv n); reflexivity. Qed.

Lemma msg_at_empty q : msg_at r_empty q = None.
Proof. destruct q; reflexivity. Qed.

Lemma msg_at_leaf n q : r_children n = [] -> q <> [] -> msg_at n q = None.
Proof.
  intros Hc Hq. destruct q as [|lv q]; [contradiction|].
  rewrite msg_at_cons. unfold r_child. rewrite Hc. reflexivity.
Qed.

Lemma r_find_msg_at t n : r_find t n = msg_at n (split t).
Proof. reflexivity. Qed.

(* ---- r_add ---- *)
Lemma rwf_add p m n : rwf n -> rwf (r_add p m n).
Proof.
  revert n. induction p as [|lv rest IH]; intros n Hn; cbn [r_add].
  - apply rwf_inv in Hn as [Hnd HF]. now constructor.
  - pose proof (rwf_inv n Hn) as [Hnd HF]. constructor.
    + now apply aset_nodup.
    + apply (aset_forall rwf); [|exact HF]. apply IH.
      destruct (r_child lv n) as [c|] eqn:Ec; [exact (rwf_child lv n c Hn Ec)|exact rwf_empty].
Qed.

Lemma msg_at_add_same p m n : msg_at (r_add p m n) p = Some m.
Proof.
  revert n. induction p as [|lv rest IH]; intros n; cbn [r_add]; [reflexivity|].
  rewrite msg_at_cons. unfold r_child at 1. cbn [r_children].
  rewrite aget_aset, str_eqb_refl. apply IH.
Qed.

Lemma msg_at_add_other p m n q : q <> p -> msg_at (r_add p m n) q = msg_at n q.
Proof.
  revert n q. induction p as [|lv rest IH]; intros n q Hq; cbn [r_add].
  - destruct q as [|lv' q']; [contradiction|]. rewrite !msg_at_cons. reflexivity.
  - destruct q as [|lv' q']; [destruct n; reflexivity|].
    rewrite !msg_at_cons. unfold r_child at 1. cbn [r_children].
    rewrite aget_aset. destruct (str_eqb lv' lv) eqn:E.
    + apply str_eqb_eq in E. subst lv'.
      assert (Hq' : q' <> rest) by congruence.
      rewrite (IH _ _ Hq'). destruct (r_child lv n); [reflexivity|apply msg_at_empty].
    + reflexivity.
Qed.

(* ---- r_remove ---- *)
Lemma rwf_remove p n : rwf n -> rwf (r_remove p n).
Proof.
  revert n. induction p as [|lv rest IH]; intros n Hn; cbn [r_remove]; [exact Hn|].
  destruct (r_child lv n) as [c|] eqn:Ec; [|exact Hn].
  pose proof (rwf_inv n Hn) as [Hnd HF].
  pose proof (rwf_child lv n c Hn Ec) as Hc.
  destruct rest as [|lv2 rest'].
  - destruct (r_children c) as [|x xs] eqn:Ecc.
    + constructor; [now apply adel_nodup|now apply adel_forall].
    + constructor; [now apply aset_nodup|].
      apply (aset_forall rwf); [|exact HF].
      apply rwf_inv in Hc as [Hnd' HF']. rewrite Ecc in *. now constructor.
  - constructor; [now apply aset_nodup|].
    apply (aset_forall rwf); [|exact HF]. now apply IH.
Qed.

Lemma msg_at_remove_same p n : rwf n -> p <> [] -> msg_at (r_remove p n) p = None.
Proof.
  revert n. induction p as [|lv rest IH]; intros n Hn Hp; [contradiction|]. cbn [r_remove].
  destruct (r_child lv n) as [c|] eqn:Ec; [|now rewrite msg_at_cons, Ec].
  pose proof (rwf_inv n Hn) as [Hnd HF].
  destruct rest as [|lv2 rest'].
  - destruct (r_children c) as [|x xs] eqn:Ecc; rewrite msg_at_cons; unfold r_child; cbn [r_children].
    + rewrite (aget_adel lv lv _ Hnd), str_eqb_refl. reflexivity.
    + rewrite aget_aset, str_eqb_refl. reflexivity.
  - rewrite msg_at_cons. unfold r_child at 1. cbn [r_children].
    rewrite aget_aset, str_eqb_refl. apply IH; [exact (rwf_child lv n c Hn Ec)|discriminate].
Qed.

Lemma msg_at_remove_other p n q : rwf n -> q <> p -> msg_at (r_remove p n) q = msg_at n q.
Proof.
  revert n q. induction p as [|lv rest IH]; intros n q Hn Hq; cbn [r_remove]; [reflexivity|].
  destruct (r_child lv n) as [c|] eqn:Ec; [|reflexivity].
  pose proof (rwf_inv n Hn) as [Hnd HF].
  destruct q as [|lv' q'].
  { destruct rest as [|lv2 rest']; [destruct (r_children c)|]; destruct n; reflexivity. }
  destruct rest as [|lv2 rest'].
  - destruct (r_children c) as [|x xs] eqn:Ecc; rewrite !msg_at_cons; unfold r_child at 1; cbn [r_children].
    + rewrite (aget_adel lv' lv _ Hnd). destruct (str_eqb lv' lv) eqn:E; [|reflexivity].
      apply str_eqb_eq in E. subst lv'. rewrite Ec. symmetry. apply msg_at_leaf; [exact Ecc|congruence].
    + rewrite aget_aset. destruct (str_eqb lv' lv) eqn:E; [|reflexivity].
      apply str_eqb_eq in E. subst lv'. rewrite Ec.
      destruct q' as [|lv3 q'']; [congruence|].
      rewrite !msg_at_cons. unfold r_child. cbn [r_children]. rewrite Ecc. reflexivity.
  - rewrite !msg_at_cons. unfold r_child at 1. cbn [r_children].
    rewrite aget_aset. destruct (str_eqb lv' lv) eqn:E; [|reflexivity].
    apply str_eqb_eq in E. subst lv'. rewrite Ec.
    apply IH; [exact (rwf_child lv n c Hn Ec)|congruence].
Qed.

(* ------------------------------------------------------------------ *)
(* r_traverse and r_match                                              *)
(* ------------------------------------------------------------------ *)
Lemma msg_at_child_in n lv c q :
  rwf n -> In (lv, c) (r_children n) -> msg_at n (lv :: q) = msg_at c q.
Proof.
  intros Hn Hin. rewrite msg_at_cons. unfold r_child.
  apply rwf_inv in Hn as [Hnd _]. now rewrite (in_aget lv c _ Hnd Hin).
Qed.

Lemma rwf_child_in n lv c : rwf n -> In (lv, c) (r_children n) -> rwf c.
Proof.
  intros Hn Hin. apply rwf_inv in Hn as [_ HF]. rewrite Forall_forall in HF. exact (HF _ Hin).
Qed.

Lemma in_opt_list {A : Type} (o : option A) (x : A) : In x (opt_list o) <-> o = Some x.
Proof.
  destruct o as [y|]; cbn [opt_list In]; split; intros H.
  - destruct H as [H|[]]. now subst.
  - left. congruence.
  - destruct H.
  - discriminate.
Qed.

Lemma in_traverse n : rwf n -> forall m, In m (r_traverse n) <-> exists p, msg_at n p = Some m.
Proof.
  induction n as [m0 ch IH] using rnode_ind'. intros Hn m.
  cbn [r_traverse]. change (match m0 with Some x => [x] | None => [] end) with (opt_list m0).
  rewrite in_app_iff, in_flat_map, in_opt_list.
  rewrite Forall_forall in IH.
  split.
  - intros [H|([lv c] & Hin & Hm)].
    + exists []. exact H.
    + specialize (IH _ Hin (rwf_child_in _ lv c Hn Hin)). cbn [snd] in IH.
      apply IH in Hm as (p & Hp). exists (lv :: p).
      rewrite (msg_at_child_in (RNode m0 ch) lv c p Hn Hin). exact Hp.
  - intros ([|lv p] & Hp).
    + left. exact Hp.
    + right. rewrite msg_at_cons in Hp.
      destruct (r_child lv (RNode m0 ch)) as [c|] eqn:Ec; [|discriminate].
      unfold r_child in Ec. cbn [r_children] in Ec. apply aget_in in Ec.
      exists (lv, c). split; [exact Ec|].
      specialize (IH _ Ec (rwf_child_in _ lv c Hn Ec)). cbn [snd] in IH.
      apply IH. now exists p.
Qed.

Lemma map_flat_map {A B C : Type} (f : B -> C) (g : A -> list B) (l : list A) :
  map f (flat_map g l) = flat_map (fun x => map f (g x)) l.
Proof.
  induction l as [|x xs IH]; cbn [flat_map map]; [reflexivity|]. now rewrite map_app, IH.
Qed.

(* [k] reads the path back off a stored message *)
Definition keyed (k : msg -> list level) (n : rnode) : Prop :=
  forall p m, msg_at n p = Some m -> k m = p.

Lemma keyed_child k n lv c :
  rwf n -> keyed k n -> In (lv, c) (r_children n) -> keyed (fun m => tl (k m)) c.
Proof.
  intros Hn Hk Hin p m Hp. rewrite <- (msg_at_child_in n lv c p Hn Hin) in Hp.
  apply Hk in Hp. now rewrite Hp.
Qed.

Lemma nodup_children (g : rnode -> list msg) n k :
  rwf n -> keyed k n ->
  (forall lv c m, In (lv, c) (r_children n) -> In m (g c) -> exists p, msg_at c p = Some m) ->
  (forall lv c, In (lv, c) (r_children n) -> NoDup (map (fun m => tl (k m)) (g c))) ->
  NoDup (map k (flat_map (fun x : level * rnode => let '(_, c) := x in g c) (r_children n))).
Proof.
  intros Hn Hk Hsub Hpiece. rewrite map_flat_map.
  pose proof (rwf_inv n Hn) as [Hnd _].
  apply NoDup_flat_map.
  - exact (NoDup_of_map fst _ Hnd).
  - intros [lv c] Hin. specialize (Hpiece lv c Hin).
    rewrite <- (map_map k (@tl level)) in Hpiece. exact (NoDup_of_map _ _ Hpiece).
  - intros [lv c] [lv' c'] b Hin Hin' Hb Hb'.
    apply in_map_iff in Hb as (m & Em & Hm). apply in_map_iff in Hb' as (m' & Em' & Hm').
    apply (Hsub lv c m Hin) in Hm as (p & Hp). apply (Hsub lv' c' m' Hin') in Hm' as (p' & Hp').
    rewrite <- (msg_at_child_in n lv c p Hn Hin) in Hp. apply Hk in Hp.
    rewrite <- (msg_at_child_in n lv' c' p' Hn Hin') in Hp'. apply Hk in Hp'.
    assert (lv = lv') by congruence. subst lv'.
    apply (in_aget lv c _ Hnd) in Hin. apply (in_aget lv c' _ Hnd) in Hin'. congruence.
Qed.

Lemma nodup_traverse n : rwf n -> forall k, keyed k n -> NoDup (map k (r_traverse n)).
Proof.
  induction n as [m0 ch IH] using rnode_ind'. intros Hn k Hk.
  cbn [r_traverse]. change (match m0 with Some x => [x] | None => [] end) with (opt_list m0).
  rewrite map_app. rewrite Forall_forall in IH.
  apply NoDup_app_disjoint.
  - destruct m0; cbn [opt_list map]; [constructor; [intros []|constructor]|constructor].
  - apply (nodup_children r_traverse (RNode m0 ch) k Hn Hk).
    + intros lv c m Hin Hm. apply (in_traverse c (rwf_child_in _ lv c Hn Hin)). exact Hm.
    + intros lv c Hin. apply (IH _ Hin (rwf_child_in _ lv c Hn Hin)).
      exact (keyed_child k _ lv c Hn Hk Hin).
  - intros b Hb Hb'.
    apply in_map_iff in Hb as (m & Em & Hm). apply in_opt_list in Hm.
    assert (E1 : k m = []) by (apply Hk; exact Hm).
    apply in_map_iff in Hb' as (m' & Em' & Hm').
    apply in_flat_map in Hm' as ([lv c] & Hin & Hm').
    apply (in_traverse c (rwf_child_in _ lv c Hn Hin)) in Hm' as (p & Hp).
    rewrite <- (msg_at_child_in (RNode m0 ch) lv c p Hn Hin) in Hp. apply Hk in Hp. congruence.
Qed.

(* the recursive function that r_match really computes below the first level *)
Definition r_match' (fs : list level) (n : rnode) : list msg :=
  match fs with [] => opt_list (r_msg n) | _ => r_match fs n end.

Lemma r_match'_cons f rest n :
  r_match' (f :: rest) n =
  if is_hash f then r_traverse n
  else if is_plus f then
    flat_map (fun x : level * rnode => let '(_, v) := x in r_match' rest v) (r_children n)
  else match r_child f n with None => [] | Some v => r_match' rest v end.
Proof. reflexivity. Qed.

(* '#' occurs only as the last level of the filter path *)
Fixpoint hash_last (fs : list level) : bool :=
  match fs with
  | [] => true
  | f :: rest => (negb (is_hash f) || match rest with [] => true | _ => false end) && hash_last rest
  end.

Lemma in_match' fs : forall n, rwf n -> hash_last fs = true ->
  forall m, In m (r_match' fs n) <-> exists p, msg_at n p = Some m /\ lm p fs = true.
Proof.
  induction fs as [|f rest IH]; intros n Hn Hh m.
  - cbn [r_match']. rewrite in_opt_list. split.
    + intros H. exists []. now split.
    + intros (p & Hp & Hl). destruct p; [exact Hp|discriminate].
  - rewrite r_match'_cons. cbn [hash_last] in Hh. apply andb_true_iff in Hh as [Hh1 Hh2].
    destruct (is_hash f) eqn:Eh.
    + cbn [negb orb] in Hh1. destruct rest as [|f2 rest']; [|discriminate].
      apply is_hash_eq in Eh. subst f. rewrite (in_traverse n Hn). split.
      * intros (p & Hp). exists p. split; [exact Hp|apply lm_hash].
      * intros (p & Hp & _). now exists p.
    + destruct (is_plus f) eqn:Ep.
      * rewrite in_flat_map. split.
        -- intros ([lv c] & Hin & Hm).
           apply (IH c (rwf_child_in n lv c Hn Hin) Hh2) in Hm as (p & Hp & Hl).
           exists (lv :: p). split; [now rewrite (msg_at_child_in n lv c p Hn Hin)|].
           rewrite (lm_cons_nohash _ _ _ _ Eh), Ep, Hl. reflexivity.
        -- intros (p & Hp & Hl). destruct p as [|tl p'].
           { cbn [lm] in Hl. rewrite Eh in Hl. discriminate. }
           rewrite (lm_cons_nohash _ _ _ _ Eh) in Hl. apply andb_true_iff in Hl as [_ Hl].
           rewrite msg_at_cons in Hp. destruct (r_child tl n) as [c|] eqn:Ec; [|discriminate].
           exists (tl, c). split; [apply aget_in; exact Ec|].
           apply (IH c (rwf_child tl n c Hn Ec) Hh2). exists p'. now split.
      * split.
        -- intros Hm. destruct (r_child f n) as [c|] eqn:Ec; [|destruct Hm].
           apply (IH c (rwf_child f n c Hn Ec) Hh2) in Hm as (p & Hp & Hl).
           exists (f :: p). rewrite msg_at_cons, Ec. split; [exact Hp|].
           rewrite (lm_cons_nohash _ _ _ _ Eh), str_eqb_refl, orb_true_r, Hl. reflexivity.
        -- intros (p & Hp & Hl). destruct p as [|tl p'].
           { cbn [lm] in Hl. rewrite Eh in Hl. discriminate. }
           rewrite (lm_cons_nohash _ _ _ _ Eh), Ep in Hl. cbn [orb] in Hl.
           apply andb_true_iff in Hl as [He Hl]. apply str_eqb_eq in He. subst tl.
           rewrite msg_at_cons in Hp. destruct (r_child f n) as [c|] eqn:Ec; [|discriminate].
           apply (IH c (rwf_child f n c Hn Ec) Hh2). exists p'. now split.
Qed.

Lemma nodup_match' fs : forall n, rwf n -> hash_last fs = true ->
  forall k, keyed k n -> NoDup (map k (r_match' fs n)).
Proof.
  induction fs as [|f rest IH]; intros n Hn Hh k Hk.
  - cbn [r_match']. destruct (r_msg n); cbn [opt_list map]; [constructor; [intros []|constructor]|constructor].
  - rewrite r_match'_cons. pose proof Hh as Hh0. cbn [hash_last] in Hh. apply andb_true_iff in Hh as [Hh1 Hh2].
    destruct (is_hash f) eqn:Eh; [now apply nodup_traverse|].
    destruct (is_plus f) eqn:Ep.
    + apply (nodup_children (r_match' rest) n k Hn Hk).
      * intros lv c m Hin Hm.
        apply (in_match' rest c (rwf_child_in n lv c Hn Hin) Hh2) in Hm as (p & Hp & _). now exists p.
      * intros lv c Hin. apply (IH c (rwf_child_in n lv c Hn Hin) Hh2).
        exact (keyed_child k n lv c Hn Hk Hin).
    + destruct (r_child f n) as [c|] eqn:Ec; [|constructor].
      assert (Hin : In (f, c) (r_children n)) by (apply aget_in; exact Ec).
      pose proof (IH c (rwf_child f n c Hn Ec) Hh2 _ (keyed_child k n f c Hn Hk Hin)) as Hnd.
      rewrite <- (map_map k (@tl level)) in Hnd. exact (NoDup_of_map _ _ Hnd).
Qed.

Lemma r_match_match' fs n : fs <> [] -> r_match fs n = r_match' fs n.
Proof. destruct fs; [contradiction|reflexivity]. Qed.

Lemma has_wild_hash : has_wild [HASH] = true.
Proof. reflexivity. Qed.

Lemma valid_filter_hash_last fs : valid_filter_levels fs = true -> hash_last fs = true.
Proof.
  induction fs as [|f rest IH]; intros H; [reflexivity|].
  destruct rest as [|f2 rest'].
  - cbn [hash_last]. now rewrite orb_true_r.
  - change (valid_filter_levels (f :: f2 :: rest'))
      with ((is_plus f || negb (has_wild f)) && valid_filter_levels (f2 :: rest')) in H.
    apply andb_true_iff in H as [H1 H2].
    change (hash_last (f :: f2 :: rest'))
      with ((negb (is_hash f) || false) && hash_last (f2 :: rest')).
    rewrite (IH H2), andb_true_r, orb_false_r.
    destruct (is_hash f) eqn:Eh; [|reflexivity].
    apply is_hash_eq in Eh. subst f. discriminate.
Qed.

(* ------------------------------------------------------------------ *)
(* the two-trie database against the flat map                          *)
(* ------------------------------------------------------------------ *)
Definition trie_of (d : rdb) (b : bool) : rnode := if b then r_sys d else r_user d.

Lemma rdb_trie_of name d : rdb_trie name d = trie_of d (starts_dollar name).
Proof. reflexivity. Qed.

Lemma trie_of_set name T d b :
  trie_of (rdb_set name T d) b = if Bool.eqb b (starts_dollar name) then T else trie_of d b.
Proof. unfold rdb_set, trie_of. destruct (starts_dollar name), b; reflexivity. Qed.

(* every message sits at the path of its own topic, in the trie chosen by its first byte *)
Definition tinv (b : bool) (T : rnode) : Prop :=
  rwf T /\
  forall p m, msg_at T p = Some m -> split (m_topic m) = p /\ starts_dollar (m_topic m) = b.

Definition R (d : rdb) (sp : rspec) : Prop :=
  (forall b, tinv b (trie_of d b)) /\
  NoDup (map fst sp) /\
  (forall t, msg_at (rdb_trie t d) (split t) = aget t sp).

Lemma R_init : R rdb_init [].
Proof.
  split; [|split].
  - intros b. split.
    + destruct b; exact rwf_empty.
    + intros p m H. destruct b; cbn [trie_of rdb_init r_user r_sys] in H;
        rewrite msg_at_empty in H; discriminate.
  - constructor.
  - intros t. rewrite rdb_trie_of. destruct (starts_dollar t);
      cbn [trie_of rdb_init r_user r_sys]; apply msg_at_empty.
Qed.

Definition path_eq_dec : forall p q : list level, {p = q} + {p <> q} :=
  list_eq_dec (list_eq_dec N.eq_dec).

Lemma R_step d sp o : R d sp -> R (rdb_step d o) (rspec_step sp o).
Proof.
  intros (Hinv & Hnd & Hget). destruct o as [m|t0|]; cbn [rdb_step rspec_step].
  - (* RAdd *)
    set (t0 := m_topic m). rewrite rdb_trie_of.
    split; [|split].
    + intros b. rewrite trie_of_set. destruct (Bool.eqb b (starts_dollar t0)) eqn:Eb; [|apply Hinv].
      apply eqb_prop in Eb. subst b. destruct (Hinv (starts_dollar t0)) as [Hwf Hp].
      split; [now apply rwf_add|].
      intros p m' H. destruct (path_eq_dec p (split t0)) as [->|Hne].
      * rewrite msg_at_add_same in H. injection H as <-. now split.
      * rewrite (msg_at_add_other _ _ _ _ Hne) in H. now apply Hp.
    + now apply aset_nodup.
    + intros t. rewrite aget_aset, rdb_trie_of, trie_of_set.
      destruct (str_eqb t t0) eqn:E.
      * apply str_eqb_eq in E. subst t. rewrite eqb_reflx. apply msg_at_add_same.
      * apply str_eqb_neq in E. rewrite <- Hget, rdb_trie_of.
        destruct (Bool.eqb (starts_dollar t) (starts_dollar t0)) eqn:Eb; [|reflexivity].
        apply eqb_prop in Eb. rewrite Eb. apply msg_at_add_other.
        intros Hs. apply split_inj in Hs. contradiction.
  - (* RRemove *)
    rewrite rdb_trie_of.
    split; [|split].
    + intros b. rewrite trie_of_set. destruct (Bool.eqb b (starts_dollar t0)) eqn:Eb; [|apply Hinv].
      apply eqb_prop in Eb. subst b. destruct (Hinv (starts_dollar t0)) as [Hwf Hp].
      split; [now apply rwf_remove|].
      intros p m' H. destruct (path_eq_dec p (split t0)) as [->|Hne].
      * rewrite (msg_at_remove_same _ _ Hwf (split_nonempty t0)) in H. discriminate.
      * rewrite (msg_at_remove_other _ _ _ Hwf Hne) in H. now apply Hp.
    + now apply adel_nodup.
    + intros t. rewrite (aget_adel t t0 sp Hnd), rdb_trie_of, trie_of_set.
      destruct (Hinv (starts_dollar t0)) as [Hwf _].
      destruct (str_eqb t t0) eqn:E.
      * apply str_eqb_eq in E. subst t. rewrite eqb_reflx.
        apply (msg_at_remove_same _ _ Hwf (split_nonempty t0)).
      * apply str_eqb_neq in E. rewrite <- Hget, rdb_trie_of.
        destruct (Bool.eqb (starts_dollar t) (starts_dollar t0)) eqn:Eb; [|reflexivity].
        apply eqb_prop in Eb. rewrite Eb. apply (msg_at_remove_other _ _ _ Hwf).
        intros Hs. apply split_inj in Hs. contradiction.
  - apply R_init.
Qed.

Lemma R_fold ops : forall d sp, R d sp -> R (fold_left rdb_step ops d) (fold_left rspec_step ops sp).
Proof.
  induction ops as [|o ops IH]; intros d sp H; [exact H|].
  cbn [fold_left]. apply IH. now apply R_step.
Qed.

Lemma R_run ops : R (rdb_run ops) (rspec_run ops).
Proof. apply R_fold. exact R_init. Qed.

(* facts that follow from R *)
Lemma R_spec_topic d sp t m : R d sp -> aget t sp = Some m -> m_topic m = t.
Proof.
  intros (Hinv & _ & Hget) H. rewrite <- Hget, rdb_trie_of in H.
  destruct (Hinv (starts_dollar t)) as [_ Hp]. apply Hp in H as [Hs _]. now apply split_inj.
Qed.

Lemma R_stored d sp b p m :
  R d sp -> msg_at (trie_of d b) p = Some m -> aget (m_topic m) sp = Some m.
Proof.
  intros (Hinv & _ & Hget) H. destruct (Hinv b) as [_ Hp].
  destruct (Hp p m H) as [Hs Hb]. rewrite <- Hget, rdb_trie_of, Hb, Hs. exact H.
Qed.

Lemma R_keyed d sp b : R d sp -> keyed (fun m => split (m_topic m)) (trie_of d b).
Proof. intros (Hinv & _) p m H. destruct (Hinv b) as [_ Hp]. now apply Hp. Qed.

Lemma nodup_topics (l : list msg) : NoDup (map (fun m => split (m_topic m)) l) -> NoDup (map m_topic l).
Proof. intros H. rewrite <- (map_map m_topic split) in H. exact (NoDup_of_map _ _ H). Qed.

(* ------------------------------------------------------------------ *)
(* the target statements                                               *)
(* ------------------------------------------------------------------ *)
Lemma ret_get_exact ops t : rdb_get t (rdb_run ops) = aget t (rspec_run ops).
Proof.
  destruct (R_run ops) as (_ & _ & Hget). unfold rdb_get. rewrite r_find_msg_at. apply Hget.
Qed.

Lemma ret_matched_exact ops f :
  valid_filter_spec f = true ->
  (forall m, In m (rdb_matched f (rdb_run ops)) <->
             (aget (m_topic m) (rspec_run ops) = Some m /\ topic_match (m_topic m) f = true)) /\
  NoDup (map m_topic (rdb_matched f (rdb_run ops))).
Proof.
  intros Hv. unfold valid_filter_spec in Hv. apply andb_true_iff in Hv as [_ Hv].
  apply valid_filter_hash_last in Hv.
  pose proof (R_run ops) as HR. set (d := rdb_run ops) in *. set (sp := rspec_run ops) in *.
  pose proof HR as (Hinv & Hnd & Hget).
  unfold rdb_matched. rewrite (r_match_match' _ _ (split_nonempty f)), rdb_trie_of.
  destruct (Hinv (starts_dollar f)) as [Hwf Hp].
  split.
  - intros m. rewrite (in_match' (split f) _ Hwf Hv). split.
    + intros (p & Hm & Hl). destruct (Hp p m Hm) as [Hs Hb]. split.
      * exact (R_stored d sp _ p m HR Hm).
      * rewrite (topic_match_same_kind _ _ Hb), Hs. exact Hl.
    + intros [Ha Hm]. exists (split (m_topic m)).
      destruct (Bool.eqb (starts_dollar (m_topic m)) (starts_dollar f)) eqn:Eb.
      * apply eqb_prop in Eb. rewrite (topic_match_same_kind _ _ Eb) in Hm. split; [|exact Hm].
        rewrite <- Eb, <- rdb_trie_of, Hget. exact Ha.
      * exfalso. apply eqb_false_iff in Eb.
        destruct (starts_dollar (m_topic m)) eqn:E1, (starts_dollar f) eqn:E2; try congruence.
        -- rewrite (dollar_topic_plain_filter _ _ E1 E2) in Hm. discriminate.
        -- rewrite (plain_topic_dollar_filter _ _ E1 E2) in Hm. discriminate.
  - apply nodup_topics. apply (nodup_match' (split f) _ Hwf Hv). exact (R_keyed d sp _ HR).
Qed.

Lemma ret_all_exact ops :
  (forall m, In m (rdb_all (rdb_run ops)) <-> aget (m_topic m) (rspec_run ops) = Some m) /\
  NoDup (map m_topic (rdb_all (rdb_run ops))).
Proof.
  pose proof (R_run ops) as HR. set (d := rdb_run ops) in *. set (sp := rspec_run ops) in *.
  pose proof HR as (Hinv & Hnd & Hget).
  unfold rdb_all. change (r_user d) with (trie_of d false). change (r_sys d) with (trie_of d true).
  destruct (Hinv false) as [Hwf0 Hp0]. destruct (Hinv true) as [Hwf1 Hp1].
  split.
  - intros m. rewrite in_app_iff, (in_traverse _ Hwf0), (in_traverse _ Hwf1). split.
    + intros [(p & H)|(p & H)]; exact (R_stored d sp _ p m HR H).
    + intros Ha. rewrite <- Hget, rdb_trie_of in Ha.
      destruct (starts_dollar (m_topic m)); [right|left]; now exists (split (m_topic m)).
  - rewrite map_app. apply NoDup_app_disjoint.
    + apply nodup_topics. apply (nodup_traverse _ Hwf0). exact (R_keyed d sp _ HR).
    + apply nodup_topics. apply (nodup_traverse _ Hwf1). exact (R_keyed d sp _ HR).
    + intros t Ht Ht'.
      apply in_map_iff in Ht as (m & Em & Hm). apply in_map_iff in Ht' as (m' & Em' & Hm').
      apply (in_traverse _ Hwf0) in Hm as (p & H). apply (in_traverse _ Hwf1) in Hm' as (p' & H').
      apply Hp0 in H as [_ H]. apply Hp1 in H' as [_ H']. congruence.
Qed.

(* "exactly the last message published with RETAIN=1 and a non-empty payload" *)
Fixpoint last_retained (t : str) (msgs : list msg) (acc : option msg) : option msg :=
  match msgs with
  | [] => acc
  | m :: r => last_retained t r (if str_eqb t (m_topic m) then (match m_payload m with [] => None | _ => Some m end) else acc)
  end.

Lemma rspec_step_nodup sp o : NoDup (map fst sp) -> NoDup (map fst (rspec_step sp o)).
Proof.
  intros H. destruct o; cbn [rspec_step]; [now apply aset_nodup|now apply adel_nodup|constructor].
Qed.

Lemma ret_last_value_gen msgs : forall sp t, NoDup (map fst sp) ->
  aget t (fold_left rspec_step (map retain_op msgs) sp) = last_retained t msgs (aget t sp).
Proof.
  induction msgs as [|m r IH]; intros sp t Hnd; [reflexivity|].
  cbn [map fold_left last_retained].
  rewrite (IH _ t (rspec_step_nodup sp (retain_op m) Hnd)). f_equal.
  unfold retain_op. destruct (m_payload m) as [|c pl]; cbn [rspec_step].
  - now apply aget_adel.
  - apply aget_aset.
Qed.

Lemma ret_last_value msgs t :
  aget t (rspec_run (map retain_op msgs)) = last_retained t msgs None.
Proof. apply (ret_last_value_gen msgs [] t). constructor. Qed.
