(* Lemmas about byte strings, split/join and MQTT 4.7 level matching (Base/Topic.v). *)
From Coq Require Import List NArith Bool Arith Lia.
Import ListNotations.
From GM Require Import Base.Topic.

Lemma str_eqb_eq (a b : str) : str_eqb a b = true <-> a = b.
Proof.
  revert b; induction a as [|x a IH]; intros [|y b]; cbn; split; intros H; try discriminate; try reflexivity.
  - apply andb_true_iff in H as [H1 H2]. apply N.eqb_eq in H1. apply IH in H2. now subst.
  - inversion H; subst. rewrite N.eqb_refl. cbn. now apply IH.
Qed.

Lemma str_eqb_refl (a : str) : str_eqb a a = true.
Proof. now apply str_eqb_eq. Qed.

Lemma str_eqb_neq (a b : str) : str_eqb a b = false <-> a <> b.
Proof.
  split.
  - intros H E. apply str_eqb_eq in E. congruence.
  - intros H. destruct (str_eqb a b) eqn:E; [|reflexivity]. apply str_eqb_eq in E. contradiction.
Qed.

(* ------------------------------------------------------------------ *)
(* split / join                                                        *)
(* ------------------------------------------------------------------ *)

Lemma split_nonempty (s : str) : split s <> [].
Proof.
  destruct s as [|c s']; cbn [split]; [discriminate|].
  destruct (N.eqb c SLASH); [discriminate|].
  destruct (split s'); discriminate.
Qed.

Lemma split_cons_slash (s : str) : split (SLASH :: s) = [] :: split s.
Proof. reflexivity. Qed.

Lemma split_cons_ns (c : N) (s : str) :
  N.eqb c SLASH = false ->
  exists l ls, split s = l :: ls /\ split (c :: s) = (c :: l) :: ls.
Proof.
  intros E. cbn [split]. rewrite E.
  destruct (split s) as [|l ls] eqn:Es; [now apply split_nonempty in Es|].
  now exists l, ls.
Qed.

Lemma join_cons_cons (l l2 : level) (ls : list level) :
  join (l :: l2 :: ls) = l ++ SLASH :: join (l2 :: ls).
Proof. reflexivity. Qed.

Lemma join_split (s : str) : join (split s) = s.
Proof.
  induction s as [|c s' IH]; [reflexivity|].
  destruct (N.eqb c SLASH) eqn:E.
  - apply N.eqb_eq in E. subst c. rewrite split_cons_slash.
    destruct (split s') as [|l ls] eqn:Es; [now apply split_nonempty in Es|].
    rewrite join_cons_cons, IH. reflexivity.
  - destruct (split_cons_ns c s' E) as (l & ls & Es & Ec).
    rewrite Ec. rewrite Es in IH.
    destruct ls as [|l2 ls].
    + cbn [join] in IH |- *. now rewrite IH.
    + rewrite join_cons_cons in IH. rewrite join_cons_cons.
      rewrite <- app_comm_cons. now rewrite IH.
Qed.

Lemma no_slash_cons (c : N) (s : str) :
  no_slash (c :: s) = true <-> N.eqb c SLASH = false /\ no_slash s = true.
Proof.
  unfold no_slash. cbn [forallb]. rewrite andb_true_iff, negb_true_iff. reflexivity.
Qed.

Lemma split_no_slash (s : str) : Forall (fun l => no_slash l = true) (split s).
Proof.
  induction s as [|c s' IH].
  - constructor; [reflexivity|constructor].
  - destruct (N.eqb c SLASH) eqn:E.
    + apply N.eqb_eq in E. subst c. rewrite split_cons_slash.
      constructor; [reflexivity|exact IH].
    + destruct (split_cons_ns c s' E) as (l & ls & Es & Ec).
      rewrite Ec. rewrite Es in IH.
      inversion IH as [|l0 ls0 Hl Hls]; subst.
      constructor; [|exact Hls].
      apply no_slash_cons. now split.
Qed.

Lemma split_no_slash_id (l : str) : no_slash l = true -> split l = [l].
Proof.
  induction l as [|c l IH]; intros H; [reflexivity|].
  apply no_slash_cons in H as [E Hl].
  cbn [split]. rewrite E, (IH Hl). reflexivity.
Qed.

Lemma split_app_slash (l s : str) :
  no_slash l = true -> split (l ++ SLASH :: s) = l :: split s.
Proof.
  induction l as [|c l IH]; intros H.
  - reflexivity.
  - apply no_slash_cons in H as [E Hl].
    rewrite <- app_comm_cons. cbn [split]. rewrite E, (IH Hl). reflexivity.
Qed.

Lemma split_join (ls : list level) :
  ls <> [] -> Forall (fun l => no_slash l = true) ls -> split (join ls) = ls.
Proof.
  induction ls as [|l ls IH]; intros Hne HF; [contradiction|].
  inversion HF as [|l0 ls0 Hl HF']; subst.
  destruct ls as [|l2 ls].
  - cbn [join]. now apply split_no_slash_id.
  - rewrite join_cons_cons, split_app_slash by exact Hl.
    f_equal. apply IH; [discriminate|exact HF'].
Qed.

Lemma split_inj (a b : str) : split a = split b -> a = b.
Proof.
  intros H. rewrite <- (join_split a), <- (join_split b). now rewrite H.
Qed.

Lemma split_first_level_dollar (s : str) :
  starts_dollar s = true -> exists l ls, split s = (DOLLAR :: l) :: ls.
Proof.
  destruct s as [|c s']; cbn [starts_dollar]; intros H; [discriminate|].
  apply N.eqb_eq in H. subst c.
  destruct (split_cons_ns DOLLAR s' eq_refl) as (l & ls & _ & Ec).
  now exists l, ls.
Qed.

Lemma split_first_level_not_dollar (s : str) :
  starts_dollar s = false -> exists l ls, split s = l :: ls /\ starts_dollar l = false.
Proof.
  destruct s as [|c s']; cbn [starts_dollar]; intros H.
  - exists [], []. split; reflexivity.
  - destruct (N.eqb c SLASH) eqn:E.
    + apply N.eqb_eq in E. subst c. rewrite split_cons_slash.
      exists [], (split s'). split; reflexivity.
    + destruct (split_cons_ns c s' E) as (l & ls & _ & Ec).
      exists (c :: l), ls. split; [exact Ec|exact H].
Qed.

(* the first byte of a non-empty first level is the first byte of the string *)
Lemma split_head (s : str) (c : N) (l : level) (ls : list level) :
  split s = (c :: l) :: ls -> exists s', s = c :: s'.
Proof.
  destruct s as [|c0 s']; intros H.
  - cbn [split] in H. discriminate.
  - destruct (N.eqb c0 SLASH) eqn:E.
    + apply N.eqb_eq in E. subst c0. rewrite split_cons_slash in H. discriminate.
    + destruct (split_cons_ns c0 s' E) as (l1 & ls1 & _ & Ec).
      rewrite Ec in H. injection H as Hc _ _. subst c0. now exists s'.
Qed.

(* ------------------------------------------------------------------ *)
(* lm / cands                                                          *)
(* ------------------------------------------------------------------ *)

Lemma is_hash_eq (l : level) : is_hash l = true <-> l = [HASH].
Proof. apply str_eqb_eq. Qed.

Lemma is_plus_eq (l : level) : is_plus l = true <-> l = [PLUS].
Proof. apply str_eqb_eq. Qed.

Lemma is_hash_neq (l : level) : is_hash l = false <-> l <> [HASH].
Proof. apply str_eqb_neq. Qed.

Lemma is_plus_neq (l : level) : is_plus l = false <-> l <> [PLUS].
Proof. apply str_eqb_neq. Qed.

Lemma lm_hash (t : list level) : lm t [[HASH]] = true.
Proof. destruct t; reflexivity. Qed.

Lemma lm_cons_nohash (tl fl : level) (t' f' : list level) :
  is_hash fl = false ->
  lm (tl :: t') (fl :: f') = (is_plus fl || str_eqb fl tl) && lm t' f'.
Proof. intros H. cbn [lm]. now rewrite H. Qed.

Lemma lm_nil (f : list level) : lm [] f = true <-> f = [] \/ f = [[HASH]].
Proof.
  destruct f as [|fl f']; cbn [lm].
  - split; [now left|reflexivity].
  - destruct (is_hash fl) eqn:Eh.
    + apply is_hash_eq in Eh. subst fl.
      destruct f' as [|fl2 f'']; split; intros H; try reflexivity; try discriminate.
      * now right.
      * destruct H as [H|H]; discriminate.
    + split; [discriminate|]. intros [H|H]; [discriminate|].
      injection H as H1 _. subst fl. discriminate.
Qed.

Lemma cands_one (t : level) :
  cands [t] = [[[HASH]]; [[PLUS]]; [[PLUS]; [HASH]]; [t]; [t; [HASH]]].
Proof. reflexivity. Qed.

Lemma cands_cons_cons (t t2 : level) (rest : list level) :
  cands (t :: t2 :: rest) =
  [[HASH]] :: map (cons [PLUS]) (cands (t2 :: rest)) ++ map (cons t) (cands (t2 :: rest)).
Proof. reflexivity. Qed.

(* every matching filter path is a candidate (no side condition on the topic) *)
Lemma cands_complete (ts f : list level) : ts <> [] -> lm ts f = true -> In f (cands ts).
Proof.
  revert f. induction ts as [|t rest IH]; intros f Hne H; [contradiction|].
  destruct f as [|fl f']; [cbn [lm] in H; discriminate|].
  destruct (is_hash fl) eqn:Eh.
  - cbn [lm] in H. rewrite Eh in H. apply is_hash_eq in Eh. subst fl.
    destruct f' as [|x f'']; [|discriminate].
    destruct rest as [|t2 rest']; [rewrite cands_one|rewrite cands_cons_cons]; now left.
  - rewrite (lm_cons_nohash _ _ _ _ Eh) in H.
    apply andb_true_iff in H as [Hfl Hrest].
    assert (Hfl' : fl = [PLUS] \/ fl = t).
    { apply orb_true_iff in Hfl as [Hp|He].
      - left. now apply is_plus_eq.
      - right. now apply str_eqb_eq. }
    destruct rest as [|t2 rest'].
    + apply lm_nil in Hrest. rewrite cands_one. cbn [In].
      destruct Hfl' as [->| ->], Hrest as [->| ->]; tauto.
    + assert (Hin : In f' (cands (t2 :: rest'))) by (apply IH; [discriminate|exact Hrest]).
      rewrite cands_cons_cons. right. apply in_or_app.
      destruct Hfl' as [->| ->]; [left|right]; now apply in_map.
Qed.

(* every candidate matches, provided no topic level is the literal "#" *)
Lemma cands_sound (ts f : list level) :
  forallb (fun l => negb (is_hash l)) ts = true -> In f (cands ts) -> lm ts f = true.
Proof.
  revert f. induction ts as [|t rest IH]; intros f Hnh Hin; [destruct Hin|].
  cbn [forallb] in Hnh. apply andb_true_iff in Hnh as [Ht Hrest].
  apply negb_true_iff in Ht.
  assert (Hplus : is_hash [PLUS] = false) by reflexivity.
  destruct rest as [|t2 rest'].
  - rewrite cands_one in Hin. cbn [In] in Hin.
    destruct Hin as [<-|[<-|[<-|[<-|[<-|[]]]]]].
    + reflexivity.
    + reflexivity.
    + reflexivity.
    + rewrite (lm_cons_nohash _ _ _ _ Ht), str_eqb_refl, orb_true_r. reflexivity.
    + rewrite (lm_cons_nohash _ _ _ _ Ht), str_eqb_refl, orb_true_r. reflexivity.
  - rewrite cands_cons_cons in Hin. destruct Hin as [<-|Hin]; [reflexivity|].
    apply in_app_or in Hin as [Hin|Hin]; apply in_map_iff in Hin as (f' & <- & Hin').
    + rewrite (lm_cons_nohash _ _ _ _ Hplus). cbn [is_plus str_eqb orb andb].
      change (is_plus [PLUS]) with true. cbn [orb andb].
      now apply IH.
    + rewrite (lm_cons_nohash _ _ _ _ Ht), str_eqb_refl, orb_true_r. cbn [andb].
      now apply IH.
Qed.

(* NOTE: the statement without [Hnohash] is false: for ts = [[HASH]] the path
   [[HASH];[HASH]] is in [cands ts] but [lm ts [[HASH];[HASH]] = false]. *)
Lemma cands_lm (ts f : list level) :
  ts <> [] ->
  forall Hnohash : forallb (fun l => negb (is_hash l)) ts = true,
  (In f (cands ts) <-> lm ts f = true).
Proof.
  intros Hne Hnohash. split; [now apply cands_sound|now apply cands_complete].
Qed.

Lemma cands_lm_counterexample :
  In [[HASH]; [HASH]] (cands [[HASH]]) /\ lm [[HASH]] [[HASH]; [HASH]] = false.
Proof. split; [cbn; tauto|reflexivity]. Qed.

Lemma no_wild_cons (t : level) (rest : list level) :
  no_wild_levels (t :: rest) = true <->
  t <> [PLUS] /\ t <> [HASH] /\ no_wild_levels rest = true.
Proof.
  unfold no_wild_levels. cbn [forallb].
  rewrite andb_true_iff, negb_true_iff, orb_false_iff, is_plus_neq, is_hash_neq. tauto.
Qed.

Lemma no_wild_no_hash (ts : list level) :
  no_wild_levels ts = true -> forallb (fun l => negb (is_hash l)) ts = true.
Proof.
  induction ts as [|t rest IH]; intros H; [reflexivity|].
  apply no_wild_cons in H as (_ & Hh & Hrest).
  cbn [forallb]. apply is_hash_neq in Hh. rewrite Hh. cbn [negb andb]. now apply IH.
Qed.

(* the form used with well-formed topic names *)
Lemma cands_lm_nowild (ts f : list level) :
  ts <> [] -> no_wild_levels ts = true -> (In f (cands ts) <-> lm ts f = true).
Proof.
  intros Hne Hnw. apply cands_lm; [exact Hne|now apply no_wild_no_hash].
Qed.

Lemma NoDup_map_cons {A : Type} (a : A) (xs : list (list A)) :
  NoDup xs -> NoDup (map (cons a) xs).
Proof.
  induction 1 as [|x xs Hx Hnd IH]; cbn [map]; constructor; [|exact IH].
  intros Hin. apply in_map_iff in Hin as (y & Ey & Hy).
  injection Ey as Ey. subst y. contradiction.
Qed.

Lemma NoDup_app_disjoint {A : Type} (xs ys : list A) :
  NoDup xs -> NoDup ys -> (forall x, In x xs -> ~ In x ys) -> NoDup (xs ++ ys).
Proof.
  induction 1 as [|x xs Hx Hnd IH]; intros Hys Hdis; [exact Hys|].
  cbn [app]. constructor.
  - intros Hin. apply in_app_or in Hin as [Hin|Hin]; [contradiction|].
    apply (Hdis x); [now left|exact Hin].
  - apply IH; [exact Hys|]. intros z Hz. apply Hdis. now right.
Qed.

Lemma cands_nodup (ts : list level) : no_wild_levels ts = true -> NoDup (cands ts).
Proof.
  induction ts as [|t rest IH]; intros Hnw; [constructor|].
  apply no_wild_cons in Hnw as (Hp & Hh & Hrest).
  assert (HPH : [PLUS] <> [HASH]) by discriminate.
  destruct rest as [|t2 rest'].
  - rewrite cands_one.
    repeat constructor; cbn [In]; intros Hin;
      repeat (destruct Hin as [Hin|Hin]); try contradiction; try discriminate;
      try (injection Hin as Hin; congruence).
  - specialize (IH Hrest). rewrite cands_cons_cons. constructor.
    + intros Hin. apply in_app_or in Hin as [Hin|Hin];
        apply in_map_iff in Hin as (x & Ex & _); injection Ex as Ex _; congruence.
    + apply NoDup_app_disjoint.
      * now apply NoDup_map_cons.
      * now apply NoDup_map_cons.
      * intros x Hx Hy.
        apply in_map_iff in Hx as (x1 & Ex1 & _).
        apply in_map_iff in Hy as (x2 & Ex2 & _).
        subst x. injection Ex2 as Ex2 _. congruence.
Qed.

(* ------------------------------------------------------------------ *)
(* '$' routing                                                         *)
(* ------------------------------------------------------------------ *)

Lemma str_eqb_sym (a b : str) : str_eqb a b = str_eqb b a.
Proof.
  destruct (str_eqb b a) eqn:E.
  - apply str_eqb_eq in E. subst. apply str_eqb_refl.
  - apply str_eqb_neq in E. apply str_eqb_neq. congruence.
Qed.

Lemma str_eqb_dollar_false (l l' : level) :
  starts_dollar l' = false -> str_eqb l' (DOLLAR :: l) = false.
Proof.
  destruct l' as [|c l'']; cbn [starts_dollar str_eqb]; intros H; [reflexivity|].
  now rewrite H.
Qed.

Lemma dollar_topic_plain_filter (t f : str) :
  starts_dollar t = true -> starts_dollar f = false -> topic_match t f = false.
Proof.
  intros Ht Hf. unfold topic_match. rewrite Ht.
  destruct (starts_wild f) eqn:Ew; [reflexivity|]. cbn [negb andb].
  destruct (split_first_level_dollar t Ht) as (l & ls & Et).
  destruct (split_first_level_not_dollar f Hf) as (l' & ls' & Ef & Hl').
  rewrite Et, Ef.
  destruct (is_hash l') eqn:Eh.
  { apply is_hash_eq in Eh. subst l'.
    apply split_head in Ef as (f' & ->). cbn in Ew. discriminate. }
  rewrite (lm_cons_nohash _ _ _ _ Eh).
  destruct (is_plus l') eqn:Ep.
  { apply is_plus_eq in Ep. subst l'.
    apply split_head in Ef as (f' & ->). cbn in Ew. discriminate. }
  rewrite (str_eqb_dollar_false l l' Hl'). reflexivity.
Qed.

Lemma plain_topic_dollar_filter (t f : str) :
  starts_dollar t = false -> starts_dollar f = true -> topic_match t f = false.
Proof.
  intros Ht Hf. unfold topic_match. apply andb_false_iff. right.
  destruct (split_first_level_dollar f Hf) as (l & ls & Ef).
  destruct (split_first_level_not_dollar t Ht) as (l' & ls' & Et & Hl').
  rewrite Et, Ef.
  assert (Eh : is_hash (DOLLAR :: l) = false) by reflexivity.
  assert (Ep : is_plus (DOLLAR :: l) = false) by reflexivity.
  rewrite (lm_cons_nohash _ _ _ _ Eh), Ep, str_eqb_sym, (str_eqb_dollar_false l l' Hl').
  reflexivity.
Qed.

Lemma topic_match_same_kind (t f : str) :
  starts_dollar t = starts_dollar f -> topic_match t f = lm (split t) (split f).
Proof.
  intros H. unfold topic_match. destruct (starts_dollar t) eqn:Et; [|reflexivity].
  symmetry in H. destruct f as [|c f']; cbn [starts_dollar] in H; [discriminate|].
  apply N.eqb_eq in H. subst c. reflexivity.
Qed.

(* ------------------------------------------------------------------ *)
(* cut_slash / split_topic                                             *)
(* ------------------------------------------------------------------ *)

Lemma cut_slash_no_slash (s : str) : no_slash s = true -> cut_slash s = (s, None).
Proof.
  induction s as [|c s IH]; intros H; [reflexivity|].
  apply no_slash_cons in H as [E Hs].
  cbn [cut_slash]. rewrite E, (IH Hs). reflexivity.
Qed.

Lemma cut_slash_app (g f : str) :
  no_slash g = true -> cut_slash (g ++ SLASH :: f) = (g, Some f).
Proof.
  induction g as [|c g IH]; intros H; [reflexivity|].
  apply no_slash_cons in H as [E Hg].
  rewrite <- app_comm_cons. cbn [cut_slash]. rewrite E, (IH Hg). reflexivity.
Qed.

Lemma has_prefix_app (p s : str) : has_prefix p (p ++ s) = true.
Proof.
  induction p as [|x p IH]; [reflexivity|].
  cbn [app has_prefix]. now rewrite N.eqb_refl, IH.
Qed.

Lemma split_topic_share (g f : str) :
  no_slash g = true -> split_topic (SHARE_PREFIX ++ g ++ SLASH :: f) = (g, f).
Proof.
  intros H. unfold split_topic. rewrite has_prefix_app.
  change (skipn 7 (SHARE_PREFIX ++ g ++ SLASH :: f)) with (g ++ SLASH :: f).
  now rewrite (cut_slash_app g f H).
Qed.

Lemma split_topic_plain (t : str) :
  has_prefix SHARE_PREFIX t = false -> split_topic t = ([], t).
Proof. intros H. unfold split_topic. now rewrite H. Qed.
