(* C13, inbound half, on the broker model (Model/Broker.v): what CONNACK advertises and how the
   connection record starts; inbound topic aliases (0x94); the receive quota (0x93) and its
   bookkeeping against the set of open QoS 2 publishes; the Maximum Packet Size of the server
   (0x95); a well-formed PUBLISH is never answered by a DISCONNECT.
   All statements are about ALL states of the model. *)
From Coq Require Import List NArith Bool Arith Lia ZifyN ZifyNat ZifyBool.
Import ListNotations.
From GM Require Import Base.Topic Base.Msg Model.SubTrie Model.RetTrie Model.Queue Model.Limiter
                       Model.TopicMatch Model.Broker Proofs.TopicP Proofs.LimiterP Proofs.BrokerBasicP.
Open Scope N_scope.

(* ================================================================== *)
(* 1. association lists                                                *)
(* ================================================================== *)

Lemma ng_nset {V} c' c (v : V) l : nget c' (nset c v l) = if c' =? c then Some v else nget c' l.
Proof.
  induction l as [|[k0 v0] r IH]; cbn [nset nget].
  - destruct (c' =? c); reflexivity.
  - destruct (N.eqb_spec c k0) as [E|E]; cbn [nget].
    + subst k0. destruct (c' =? c); reflexivity.
    + rewrite IH. destruct (N.eqb_spec c' k0) as [E1|E1]; [|reflexivity].
      subst k0. destruct (N.eqb_spec c' c) as [E2|E2]; [congruence|reflexivity].
Qed.

Lemma ng_nset_same {V} c (v : V) l : nget c (nset c v l) = Some v.
Proof. now rewrite ng_nset, N.eqb_refl. Qed.

Lemma ng_nset_other {V} c' c (v : V) l : c' <> c -> nget c' (nset c v l) = nget c' l.
Proof. intros H. rewrite ng_nset. apply N.eqb_neq in H. now rewrite H. Qed.

Lemma nset_nset {V} c (v v' : V) l : nset c v (nset c v' l) = nset c v l.
Proof.
  induction l as [|[k0 v0] r IH]; cbn [nset].
  - now rewrite N.eqb_refl.
  - destruct (c =? k0) eqn:E; cbn [nset]; rewrite ?N.eqb_refl, ?E; [reflexivity|now rewrite IH].
Qed.

Lemma str_eqb_comm (a b : str) : str_eqb a b = str_eqb b a.
Proof.
  destruct (str_eqb a b) eqn:E.
  - apply str_eqb_eq in E. subst. symmetry. apply str_eqb_refl.
  - symmetry. apply str_eqb_neq. apply str_eqb_neq in E. congruence.
Qed.

Lemma ag_aset {V} k k' (v : V) l : aget k (aset k' v l) = if str_eqb k k' then Some v else aget k l.
Proof.
  induction l as [|[k0 v0] r IH]; cbn [aset aget].
  - reflexivity.
  - destruct (str_eqb k' k0) eqn:E.
    + apply str_eqb_eq in E. subst k0. cbn [aget]. destruct (str_eqb k k'); reflexivity.
    + cbn [aget]. destruct (str_eqb k k0) eqn:E2.
      * apply str_eqb_eq in E2. subst k0. rewrite (str_eqb_comm k k'), E. reflexivity.
      * exact IH.
Qed.

Lemma ag_aset_same {V} k (v : V) l : aget k (aset k v l) = Some v.
Proof. now rewrite ag_aset, str_eqb_refl. Qed.

(* ================================================================== *)
(* 2. frames: what the limits of a connection read                     *)
(* ================================================================== *)

(* the fields of a connection record the inbound limits depend on *)
Definition lview (k : conn) : str * N * phase * N * N * bool * list (N * str) * N :=
  (k_cid k, k_v k, k_phase k, k_server_alias_max k, k_recv_max k, k_retain_avail k, k_alias_in k, k_quota k).
Definition lv (s : st) (c : N) : option (str * N * phase * N * N * bool * list (N * str) * N) :=
  option_map lview (nget c (b_conns s)).

Ltac lproj :=
  cbn [b_cfg b_hooks b_now b_rt b_sessions b_online b_offline b_wills b_subs b_ret b_queues b_unacks b_conns
       b_picks b_tag b_auto b_npick upd_conn set_queues set_tables set_subs set_ret set_time set_picks_tag
       set_unacks count_pick set_auto remove_session].
Ltac lproj_in H :=
  cbn [b_cfg b_hooks b_now b_rt b_sessions b_online b_offline b_wills b_subs b_ret b_queues b_unacks b_conns
       b_picks b_tag b_auto b_npick upd_conn set_queues set_tables set_subs set_ret set_time set_picks_tag
       set_unacks count_pick set_auto remove_session] in H.

(* a step that leaves configuration, hooks, the unack stores and the limit fields of every connection alone *)
Record lframe (s s' : st) : Prop := {
  lf_cfg : b_cfg s' = b_cfg s;
  lf_hooks : b_hooks s' = b_hooks s;
  lf_u : b_unacks s' = b_unacks s;
  lf_lv : forall c, lv s' c = lv s c }.

Lemma lframe_refl s : lframe s s.
Proof. constructor; auto. Qed.

Lemma lframe_trans a b c : lframe a b -> lframe b c -> lframe a c.
Proof. intros [] []. constructor; try congruence. Qed.

Lemma lv_upd_conn c' c k s : lv (upd_conn c k s) c' = if c' =? c then Some (lview k) else lv s c'.
Proof. unfold lv. lproj. rewrite ng_nset. destruct (c' =? c); reflexivity. Qed.

Lemma lv_of s c k : nget c (b_conns s) = Some k -> lv s c = Some (lview k).
Proof. unfold lv. now intros ->. Qed.

Lemma lv_some s c v : lv s c = Some v -> exists k, nget c (b_conns s) = Some k /\ lview k = v.
Proof. unfold lv. destruct (nget c (b_conns s)) as [k|]; cbn [option_map]; [|discriminate]. intros [= <-]. now exists k. Qed.

Lemma lv_none s c : lv s c = None -> nget c (b_conns s) = None.
Proof. unfold lv. destruct (nget c (b_conns s)); [discriminate|reflexivity]. Qed.

Lemma lframe_upd_conn c k s : lv s c = Some (lview k) -> lframe s (upd_conn c k s).
Proof.
  intros H. constructor; lproj; auto.
  intros c'. rewrite lv_upd_conn. destruct (N.eqb_spec c' c) as [->|E]; [now rewrite H|reflexivity].
Qed.

Lemma lframe_upd_conn_k c k k' s :
  nget c (b_conns s) = Some k -> lview k' = lview k -> lframe s (upd_conn c k' s).
Proof. intros H E. apply lframe_upd_conn. rewrite (lv_of _ _ _ H). now rewrite E. Qed.

Lemma lframe_set_queues q s : lframe s (set_queues q s).
Proof. constructor; lproj; auto. Qed.
Lemma lframe_set_picks_tag p t s : lframe s (set_picks_tag p t s).
Proof. constructor; lproj; auto. Qed.
Lemma lframe_set_subs d s : lframe s (set_subs d s).
Proof. constructor; lproj; auto. Qed.
Lemma lframe_set_ret r s : lframe s (set_ret r s).
Proof. constructor; lproj; auto. Qed.
Lemma lframe_count_pick s : lframe s (count_pick s).
Proof. constructor; lproj; auto. Qed.
Lemma lframe_set_auto a s : lframe s (set_auto a s).
Proof. constructor; lproj; auto. Qed.
Lemma lframe_set_time n r s : lframe s (set_time n r s).
Proof. constructor; lproj; auto. Qed.
Lemma lframe_set_tables se on off w q s : lframe s (set_tables se on off w q (b_unacks s) s).
Proof. constructor; lproj; auto. Qed.
Lemma lframe_remove_session cid s : lframe s (remove_session cid s).
Proof. constructor; lproj; auto. Qed.

(* outputs that are only drop notifications *)
Definition isdrop (x : out) : Prop := match x with ODropped _ _ _ => True | _ => False end.

Lemma drops_of_isdrop cid evs : Forall isdrop (drops_of cid evs).
Proof.
  unfold drops_of. apply Forall_forall. intros x Hin. apply in_flat_map in Hin as [e [_ Hin]].
  destruct e as [el r| |]; try destruct Hin.
  destruct (e_body el); [|destruct Hin]. destruct Hin as [<-|[]]. exact I.
Qed.

(* a step (s, o) -> r that is a frame and adds only drop notifications *)
Definition lquiet (s : st) (o : list out) (r : st * list out) : Prop :=
  lframe s (fst r) /\ (Forall isdrop o -> Forall isdrop (snd r)).

Lemma lquiet_refl s o : lquiet s o (s, o).
Proof. split; [apply lframe_refl|auto]. Qed.

Lemma fold_lquiet {A} (f : st * list out -> A -> st * list out) (l : list A) :
  (forall s0 o0 x, lquiet s0 o0 (f (s0, o0) x)) ->
  forall s0 o0, lquiet s0 o0 (fold_left f l (s0, o0)).
Proof.
  intros Hf. induction l as [|x r IH]; intros s0 o0; cbn [fold_left]; [apply lquiet_refl|].
  destruct (f (s0, o0) x) as [s1 o1] eqn:E. pose proof (Hf s0 o0 x) as [H1 H2]. rewrite E in H1, H2.
  cbn [fst snd] in H1, H2. destruct (IH s1 o1) as [H3 H4]. split; [eapply lframe_trans; eauto|auto].
Qed.

Lemma lquiet_app s0 o0 (r : st * list out) :
  lframe s0 (fst r) -> Forall isdrop (snd r) -> lquiet s0 o0 (let '(s', o') := r in (s', o0 ++ o')).
Proof.
  destruct r as [s' o']. cbn [fst snd]. intros H1 H2. split; cbn [fst snd]; [exact H1|].
  intros H. apply Forall_app. now split.
Qed.

Lemma lquiet_frame_l a b o r : lframe a b -> lquiet b o r -> lquiet a o r.
Proof. intros H [H1 H2]. split; [eapply lframe_trans; eauto|exact H2]. Qed.

Lemma release_dropped_lframe cid evs s : lframe s (release_dropped cid evs s).
Proof.
  unfold release_dropped. destruct (aget cid (b_online s)) as [c|]; [|apply lframe_refl].
  destruct (nget c (b_conns s)) as [k|] eqn:E; [|apply lframe_refl].
  eapply lframe_upd_conn_k; [exact E|reflexivity].
Qed.

Lemma add_to_queue_lquiet cid m sb ids s :
  lframe s (fst (add_to_queue cid m sb ids s)) /\ Forall isdrop (snd (add_to_queue cid m sb ids s)).
Proof.
  unfold add_to_queue. destruct (aget cid (b_queues s)) as [q|]; [|split; [apply lframe_refl|constructor]].
  destruct (negb (c_queue_qos0 (b_cfg s)) && negb (ahas cid (b_online s)) && (m_qos m =? 0));
    [split; [apply lframe_refl|constructor]|].
  match goal with |- context [q_add ?a ?b ?c] => destruct (q_add a b c) as [[q' evs]| | |] end;
    try (split; [apply lframe_refl|constructor]).
  cbn [fst snd]. split; [|apply drops_of_isdrop].
  eapply lframe_trans; [|apply release_dropped_lframe].
  eapply lframe_trans; [apply lframe_set_queues|apply lframe_set_picks_tag].
Qed.

Lemma take_pick_lframe n s : lframe s (snd (take_pick n s)).
Proof.
  unfold take_pick. destruct (b_picks s); cbn [snd]; [apply lframe_count_pick|].
  eapply lframe_trans; [apply lframe_set_picks_tag|apply lframe_count_pick].
Qed.

Ltac dlet E := match goal with |- context [match ?X with (_, _) => _ end] => destruct X eqn:E end.

Lemma pick_lframe {A} (l : list A) s i s' :
  match l with [_] => (0%nat, s) | _ => take_pick (length l) s end = (i, s') -> lframe s s'.
Proof.
  intros H. assert (E : s' = snd (match l with [_] => (0%nat, s) | _ => take_pick (length l) s end)) by now rewrite H.
  subst s'. destruct l as [|a [|b r]]; cbn [snd]; try apply take_pick_lframe. apply lframe_refl.
Qed.

Lemma deliver_lquiet src m s :
  lframe s (fst (fst (deliver src m s))) /\ Forall isdrop (snd (fst (deliver src m s))).
Proof.
  unfold deliver. cbv zeta.
  dlet E1. rename s0 into s1, l into o1.
  assert (Q1 : lquiet s [] (s1, o1)).
  { rewrite <- E1. destruct (c_onlyonce (b_cfg s)); [apply lquiet_refl|]. apply fold_lquiet.
    intros s0 o0 x. cbv beta iota. apply lquiet_app; apply add_to_queue_lquiet. }
  dlet E2. rename s0 into s2, l into o2.
  assert (Q2 : lquiet s1 o1 (s2, o2)).
  { rewrite <- E2. apply fold_lquiet. intros s0 o0 g. cbv beta iota zeta.
    destruct (match snd g with [_] => (0%nat, s0) | _ => take_pick (length (snd g)) s0 end) as [i s0'] eqn:Ep.
    apply pick_lframe in Ep. eapply lquiet_frame_l; [exact Ep|].
    destruct (nth_error (snd g) i) as [[c s_]|]; [|apply lquiet_refl].
    apply lquiet_app; apply add_to_queue_lquiet. }
  dlet E3. rename s0 into s3, l into o3.
  assert (Q3 : lquiet s2 o2 (s3, o3)).
  { rewrite <- E3. destruct (c_onlyonce (b_cfg s)); [|apply lquiet_refl]. apply fold_lquiet.
    intros s0 o0 g. cbv beta iota zeta.
    match goal with |- context [nth_error ?L _] => set (best := L) end.
    destruct (match best with [_] => (0%nat, s0) | _ => take_pick (length best) s0 end) as [i s0'] eqn:Ep.
    apply pick_lframe in Ep. eapply lquiet_frame_l; [exact Ep|].
    destruct (nth_error best i) as [s_|]; [|apply lquiet_refl].
    apply lquiet_app; apply add_to_queue_lquiet. }
  cbn [fst snd]. destruct Q1 as [F1 D1], Q2 as [F2 D2], Q3 as [F3 D3]. cbn [fst snd] in *.
  split; [eauto using lframe_trans|]. apply D3, D2, D1. constructor.
Qed.

Lemma retain_update_lframe m s : lframe s (retain_update m s).
Proof. unfold retain_update. destruct (m_retained m); [apply lframe_set_ret|apply lframe_refl]. Qed.

Lemma send_will_lquiet cid m s :
  lframe s (fst (send_will cid m s)) /\ Forall isdrop (snd (send_will cid m s)).
Proof.
  unfold send_will. destruct (will_action cid s) as [|code| |t p q]; try (split; [apply lframe_refl|constructor]).
  - destruct (deliver cid m (retain_update m s)) as [[s' o] b] eqn:E.
    pose proof (deliver_lquiet cid m (retain_update m s)) as [H1 H2]. rewrite E in H1, H2. cbn [fst snd] in *.
    split; [|exact H2]. eapply lframe_trans; [apply retain_update_lframe|exact H1].
  - set (m' := with_topic_payload_qos t p q m).
    destruct (deliver cid m' (retain_update m' s)) as [[s' o] b] eqn:E.
    pose proof (deliver_lquiet cid m' (retain_update m' s)) as [H1 H2]. rewrite E in H1, H2. cbn [fst snd] in *.
    split; [|exact H2]. eapply lframe_trans; [apply retain_update_lframe|exact H1].
Qed.

Lemma unregister_lquiet c k s :
  lframe s (fst (unregister c k s)) /\ Forall isdrop (snd (unregister c k s)).
Proof.
  unfold unregister. cbv zeta.
  destruct (aget (k_cid k) (b_sessions s)) as [se|]; [|cbn [fst snd]; split; [apply lframe_remove_session|constructor]].
  match goal with |- context [let '(s1, o1) := ?X in _] => assert (Q : lframe s (fst X) /\ Forall isdrop (snd X)) end.
  { destruct (se_will se) as [w|]; [|split; [apply lframe_refl|constructor]].
    destruct (k_clean_will k); [split; [apply lframe_refl|constructor]|].
    match goal with |- context [if ?b then (set_tables _ _ _ _ _ _ _, []) else _] => destruct b end.
    - cbn [fst snd]. split; [apply lframe_set_tables|constructor].
    - apply send_will_lquiet. }
  match type of Q with lframe s (fst ?X) /\ _ => destruct X as [s1 o1] end. cbn [fst snd] in Q. destruct Q as [F D].
  match goal with |- context [if ?b then _ else _] => destruct b end; cbn [fst snd]; (split; [|exact D]).
  - eapply lframe_trans; [exact F|apply lframe_set_tables].
  - eapply lframe_trans; [exact F|apply lframe_remove_session].
Qed.

(* ================================================================== *)
(* 3. the end of a connection: conn_gone / fail_conn                   *)
(* ================================================================== *)

Definition closed_q (cid : str) (s : st) : st :=
  match aget cid (b_queues s) with
  | Some q => set_queues (aset cid (q_close q) (b_queues s)) s
  | None => s
  end.

Lemma closed_q_lframe cid s : lframe s (closed_q cid s).
Proof. unfold closed_q. destruct (aget cid (b_queues s)); [apply lframe_set_queues|apply lframe_refl]. Qed.

Lemma closed_q_conns cid s : b_conns (closed_q cid s) = b_conns s.
Proof. unfold closed_q. destruct (aget cid (b_queues s)); reflexivity. Qed.

Definition attached (ph : phase) : bool := match ph with PhConnected | PhZombie => true | _ => false end.

Lemma conn_gone_att c k s :
  nget c (b_conns s) = Some k -> attached (k_phase k) = true ->
  conn_gone c s =
  (fst (unregister c (set_phase PhClosed k) (upd_conn c (set_phase PhClosed k) (closed_q (k_cid k) s))),
   OClose c :: snd (unregister c (set_phase PhClosed k) (upd_conn c (set_phase PhClosed k) (closed_q (k_cid k) s)))).
Proof.
  intros Hk Ha. unfold conn_gone, closed_q. rewrite Hk.
  destruct (k_phase k); try discriminate;
    match goal with |- context [unregister ?a ?b ?d] => destruct (unregister a b d) end; reflexivity.
Qed.

(* a view with the phase replaced *)
Definition with_vphase (ph : phase) (v : str * N * phase * N * N * bool * list (N * str) * N) :=
  let '(cid, ver, _, sam, rm, ra, ai, q) := v in (cid, ver, ph, sam, rm, ra, ai, q).

Lemma lview_set_phase ph k : lview (set_phase ph k) = with_vphase ph (lview k).
Proof. reflexivity. Qed.

Definition vphase (v : str * N * phase * N * N * bool * list (N * str) * N) : phase :=
  let '(_, _, ph, _, _, _, _, _) := v in ph.

Definition vcid (v : str * N * phase * N * N * bool * list (N * str) * N) : str := let '(x, _, _, _, _, _, _, _) := v in x.
Definition vver (v : str * N * phase * N * N * bool * list (N * str) * N) : N := let '(_, x, _, _, _, _, _, _) := v in x.
Definition vsam (v : str * N * phase * N * N * bool * list (N * str) * N) : N := let '(_, _, _, x, _, _, _, _) := v in x.
Definition vrm (v : str * N * phase * N * N * bool * list (N * str) * N) : N := let '(_, _, _, _, x, _, _, _) := v in x.
Definition vtab (v : str * N * phase * N * N * bool * list (N * str) * N) : list (N * str) := let '(_, _, _, _, _, _, x, _) := v in x.
Definition vquota (v : str * N * phase * N * N * bool * list (N * str) * N) : N := let '(_, _, _, _, _, _, _, x) := v in x.

Lemma vphase_lview k : vphase (lview k) = k_phase k.
Proof. reflexivity. Qed.

Lemma with_vphase_same v : with_vphase (vphase v) v = v.
Proof. destruct v as [[[[[[[a b] p] d] e] f] g] h]. reflexivity. Qed.

Definition closeout (c : N) (x : out) : Prop := x = OClose c \/ isdrop x.

Lemma isdrop_closeout c o : Forall isdrop o -> Forall (closeout c) o.
Proof. apply Forall_impl. intros x H. now right. Qed.

(* conn_gone: the socket's record is closed, nothing else the limits read changes *)
Lemma conn_gone_gen c s :
  b_cfg (fst (conn_gone c s)) = b_cfg s /\ b_hooks (fst (conn_gone c s)) = b_hooks s /\
  b_unacks (fst (conn_gone c s)) = b_unacks s /\
  (forall c', c' <> c -> lv (fst (conn_gone c s)) c' = lv s c') /\
  lv (fst (conn_gone c s)) c = option_map (with_vphase PhClosed) (lv s c) /\
  Forall (closeout c) (snd (conn_gone c s)).
Proof.
  destruct (nget c (b_conns s)) as [k|] eqn:Hk.
  2:{ unfold conn_gone. rewrite Hk. cbn [fst snd]. unfold lv. rewrite Hk. repeat split; auto. }
  destruct (attached (k_phase k)) eqn:Ha.
  - rewrite (conn_gone_att c k s Hk Ha). cbn [fst snd].
    destruct (unregister_lquiet c (set_phase PhClosed k) (upd_conn c (set_phase PhClosed k) (closed_q (k_cid k) s))) as [F D].
    pose proof (closed_q_lframe (k_cid k) s) as F0.
    destruct F as [A1 A2 A3 A4], F0 as [B1 B2 B3 B4]. lproj_in A1. lproj_in A2. lproj_in A3.
    repeat split; try congruence.
    + intros c' Hc. rewrite A4, lv_upd_conn. apply N.eqb_neq in Hc. rewrite Hc. apply B4.
    + rewrite A4, lv_upd_conn, N.eqb_refl. rewrite (lv_of _ _ _ Hk). reflexivity.
    + constructor; [now left|now apply isdrop_closeout].
  - unfold conn_gone. rewrite Hk. rewrite (lv_of _ _ _ Hk). cbn [option_map].
    destruct (k_phase k) eqn:Hp; try discriminate; cbn [fst snd]; lproj.
    + repeat split; auto.
      * intros c' Hc. rewrite lv_upd_conn. apply N.eqb_neq in Hc. now rewrite Hc.
      * now rewrite lv_upd_conn, N.eqb_refl.
      * repeat constructor.
    + repeat split; auto.
      * intros c' Hc. rewrite lv_upd_conn. apply N.eqb_neq in Hc. now rewrite Hc.
      * now rewrite lv_upd_conn, N.eqb_refl.
      * repeat constructor.
    + repeat split; auto.
      rewrite (lv_of _ _ _ Hk). f_equal. rewrite <- Hp, <- vphase_lview. symmetry. apply with_vphase_same.
Qed.

(* the teardown of socket c after DISCONNECT(code) has been written: the result of a failing packet *)
Definition torn (c code : N) (s : st) : st * list out :=
  (fst (conn_gone c s), OSend c (KDisconnect code []) :: snd (conn_gone c s)).

Lemma fail_conn_v5 c k code br s :
  nget c (b_conns s) = Some k -> k_phase k = PhConnected -> k_v k = 5 ->
  fail_conn c (Some code) br s = torn c code s.
Proof.
  intros Hk Hp Hv. unfold fail_conn, torn. rewrite Hk, Hp, Hv. cbn [N.eqb Pos.eqb].
  rewrite orb_true_r. destruct (conn_gone c s). reflexivity.
Qed.

(* what the teardown of an attached socket is: DISCONNECT, close, then only drop notifications (a will
   may be queued for its subscribers); the socket's record is closed; configuration, hooks, unack
   stores and the other connections' limits are untouched *)
Lemma torn_spec c k code s :
  nget c (b_conns s) = Some k -> attached (k_phase k) = true ->
  exists s' o', torn c code s = (s', [OSend c (KDisconnect code []); OClose c] ++ o') /\ Forall isdrop o' /\
    b_cfg s' = b_cfg s /\ b_hooks s' = b_hooks s /\ b_unacks s' = b_unacks s /\
    (forall c', c' <> c -> lv s' c' = lv s c') /\
    lv s' c = Some (lview (set_phase PhClosed k)).
Proof.
  intros Hk Ha. unfold torn. rewrite (conn_gone_att c k s Hk Ha). cbn [fst snd].
  destruct (unregister_lquiet c (set_phase PhClosed k) (upd_conn c (set_phase PhClosed k) (closed_q (k_cid k) s))) as [F D].
  pose proof (closed_q_lframe (k_cid k) s) as F0.
  eexists. eexists. split; [reflexivity|]. split; [exact D|].
  destruct F as [A1 A2 A3 A4], F0 as [B1 B2 B3 B4]. lproj_in A1. lproj_in A2. lproj_in A3.
  repeat split; try congruence.
  - intros c' Hc. rewrite A4, lv_upd_conn. apply N.eqb_neq in Hc. rewrite Hc. apply B4.
  - now rewrite A4, lv_upd_conn, N.eqb_refl.
Qed.

(* ================================================================== *)
(* 4. handle_publish cut into stages                                   *)
(* ================================================================== *)

Definition hp_alias (k : conn) (v5 : bool) (topic : str) (props : list prop) (m0 : msg) : option (conn * msg) + N :=
  match (if v5 then p_alias props else None) with
  | None => inl (Some (k, m0))
  | Some a =>
      if (a =? 0) || (k_server_alias_max k <? a) then inr 148
      else
        match topic with
        | [] => match nget a (k_alias_in k) with
                | Some name => match name with [] => inr 148 | _ => inl (Some (k, with_topic name m0)) end
                | None => inr 148
                end
        | _ => inl (Some (set_alias_in (nset a topic (k_alias_in k)) k, m0))
        end
  end.

Definition hp_dupcheck (c : N) (k : conn) (v5 : bool) (qos pid : N) (s : st) : st * bool :=
  if qos =? 2 then
    let u := opt_or (aget (k_cid k) (b_unacks s)) [] in
    let '(u', ex) := unack_set pid u in
    let s := set_unacks (aset (k_cid k) u' (b_unacks s)) s in
    let s := if ex && v5 then
               match nget c (b_conns s) with
               | Some k1 => if k_quota k1 <? k_recv_max k1 then upd_conn c (set_quota (k_quota k1 + 1) k1) s else s
               | None => s
               end
             else s in
    (s, ex)
  else (s, false).

Definition hp_action (m : msg) (s : st) : msg_action :=
  if h_msg_on (b_hooks s) then opt_or (aget (m_topic m) (h_msg (b_hooks s))) MAccept else MAccept.

Definition hp_deliver (k : conn) (m : msg) (isdup : bool) (action : msg_action) (s : st) : st * list out * bool * option N :=
  if isdup then (s, [], false, None)
  else
    match action with
    | MReject code => (s, [], false, Some code)
    | MDrop => (s, [], false, None)
    | MAccept => let '(s', o, mt) := deliver (k_cid k) m (retain_update m s) in (s', o, mt, None)
    | MRewrite t p q => let m' := rewrite_msg t p q m in
                        let '(s', o, mt) := deliver (k_cid k) m' (retain_update m' s) in (s', o, mt, None)
    end.

(* the reason code of the PUBACK / PUBREC *)
Definition ack_code (v5 matched : bool) (err : option N) : N :=
  if v5 then match err with Some cd => cd | None => if matched then 0 else 16 end else 0.

Definition ack_of (c qos pid code : N) : list out :=
  if qos =? 1 then [OSend c (KPuback pid code [])]
  else if qos =? 2 then [OSend c (KPubrec pid code [])] else [].

Definition hp_finish (c : N) (k : conn) (v5 : bool) (qos pid : N) (o : list out) (matched : bool) (err : option N) (s : st) : hres :=
  let code := ack_code v5 matched err in
  let s := if (qos =? 2) && (128 <=? code)
           then set_unacks (aset (k_cid k) (unack_remove pid (opt_or (aget (k_cid k) (b_unacks s)) [])) (b_unacks s)) s
           else s in
  let s := match nget c (b_conns s) with
           | Some k1 =>
               if v5 && ((qos =? 1) || ((qos =? 2) && (128 <=? code))) && (k_quota k1 <? k_recv_max k1)
               then upd_conn c (set_quota (k_quota k1 + 1) k1) s else s
           | None => s
           end in
  HOk s (o ++ ack_of c qos pid code).

(* everything after the alias stage: duplicate detection, the hook, delivery, the acknowledgement *)
Definition publish_body (c : N) (k : conn) (v5 : bool) (m : msg) (qos pid : N) (s : st) : hres :=
  let '(s, isdup) := hp_dupcheck c k v5 qos pid s in
  let '(s, o, matched, err) := hp_deliver k m isdup (hp_action m s) s in
  hp_finish c k v5 qos pid o matched err s.

Lemma handle_publish_eq c k dup qos retain topic payload pid props s :
  handle_publish c k dup qos retain topic payload pid props s =
  let v5 := k_v k =? 5 in
  if negb (k_retain_avail k) && retain then HErr s [] (Some 154)
  else match hp_alias k v5 topic props (msg_of_publish v5 dup qos retain topic payload pid props) with
       | inr code => HErr s [] (Some code)
       | inl None => HErr s [] None
       | inl (Some (k', m)) => publish_body c k' v5 m qos pid (upd_conn c k' s)
       end.
Proof. reflexivity. Qed.

(* ---- views and the quota field ---- *)
Lemma lview_fields k1 k2 :
  lview k1 = lview k2 ->
  k_cid k1 = k_cid k2 /\ k_v k1 = k_v k2 /\ k_phase k1 = k_phase k2 /\ k_server_alias_max k1 = k_server_alias_max k2 /\
  k_recv_max k1 = k_recv_max k2 /\ k_retain_avail k1 = k_retain_avail k2 /\ k_alias_in k1 = k_alias_in k2 /\
  k_quota k1 = k_quota k2.
Proof. unfold lview. intros [= -> -> -> -> -> -> -> ->]. auto 10. Qed.

Lemma lview_set_quota_congr x k1 k2 : lview k1 = lview k2 -> lview (set_quota x k1) = lview (set_quota x k2).
Proof. intros H. apply lview_fields in H as (A & B & C & D & E & F & G & _). unfold lview. cbn. congruence. Qed.

Lemma set_quota_twice x y k : set_quota x (set_quota y k) = set_quota x k.
Proof. reflexivity. Qed.

(* the bookkeeping of one PUBLISH that passed the read loop, as a function of the charged quota q,
   the Receive Maximum rm, the open QoS 2 ids U and the reason code of the acknowledgement *)
Definition pub_quota (v5 : bool) (rm q : N) (U : list N) (qos pid code : N) : N * list N :=
  let U1 := if qos =? 2 then fst (unack_set pid U) else U in
  let ex := (qos =? 2) && snd (unack_set pid U) in
  let q1 := if ex && v5 && (q <? rm) then q + 1 else q in
  let U2 := if (qos =? 2) && (128 <=? code) then unack_remove pid U1 else U1 in
  let q2 := if v5 && ((qos =? 1) || ((qos =? 2) && (128 <=? code))) && (q1 <? rm) then q1 + 1 else q1 in
  (q2, U2).

Definition open_ids (s : st) (cid : str) : list N := opt_or (aget cid (b_unacks s)) [].

Lemma open_ids_aset cid u s0 s : b_unacks s = aset cid u (b_unacks s0) -> open_ids s cid = u.
Proof. unfold open_ids. intros ->. now rewrite ag_aset_same. Qed.

Lemma aget_aset_other {V} cid' cid (u : V) l : cid' <> cid -> aget cid' (aset cid u l) = aget cid' l.
Proof. intros H. rewrite ag_aset. apply str_eqb_neq in H. now rewrite H. Qed.

Lemma hp_dupcheck_spec c k v5 qos pid s :
  nget c (b_conns s) = Some k ->
  let U := open_ids s (k_cid k) in
  let U1 := if qos =? 2 then fst (unack_set pid U) else U in
  let ex := (qos =? 2) && snd (unack_set pid U) in
  let q1 := if ex && v5 && (k_quota k <? k_recv_max k) then k_quota k + 1 else k_quota k in
  let s1 := fst (hp_dupcheck c k v5 qos pid s) in
  snd (hp_dupcheck c k v5 qos pid s) = ex /\ b_cfg s1 = b_cfg s /\ b_hooks s1 = b_hooks s /\
  (forall c', c' <> c -> lv s1 c' = lv s c') /\ lv s1 c = Some (lview (set_quota q1 k)) /\
  open_ids s1 (k_cid k) = U1 /\ (forall cid', cid' <> k_cid k -> aget cid' (b_unacks s1) = aget cid' (b_unacks s)).
Proof.
  intros Hk. cbv zeta. unfold hp_dupcheck. destruct (qos =? 2); cbn [andb].
  2:{ cbn [fst snd]. rewrite (lv_of _ _ _ Hk), set_quota_same. repeat split; auto. }
  fold (open_ids s (k_cid k)). destruct (unack_set pid (open_ids s (k_cid k))) as [u' ex]. cbn [fst snd].
  destruct ex; cbn [andb].
  - destruct v5; cbn [andb].
    + lproj. rewrite Hk. destruct (k_quota k <? k_recv_max k); lproj.
      * repeat split; auto.
        -- intros c' Hc. rewrite lv_upd_conn. apply N.eqb_neq in Hc. rewrite Hc. reflexivity.
        -- now rewrite lv_upd_conn, N.eqb_refl.
        -- eapply open_ids_aset. reflexivity.
        -- intros cid' Hc. lproj. now apply aget_aset_other.
      * repeat split; auto.
        -- unfold lv. lproj. rewrite Hk. cbn [option_map]. now rewrite set_quota_same.
        -- eapply open_ids_aset. reflexivity.
        -- intros cid' Hc. lproj. now apply aget_aset_other.
    + repeat split; auto.
      * unfold lv. lproj. rewrite Hk. cbn [option_map]. now rewrite set_quota_same.
      * eapply open_ids_aset. reflexivity.
      * intros cid' Hc. lproj. now apply aget_aset_other.
  - repeat split; auto.
    + unfold lv. lproj. rewrite Hk. cbn [option_map]. now rewrite set_quota_same.
    + eapply open_ids_aset. reflexivity.
    + intros cid' Hc. lproj. now apply aget_aset_other.
Qed.

Lemma hp_deliver_lquiet k m isdup action s :
  lframe s (fst (fst (fst (hp_deliver k m isdup action s)))) /\
  Forall isdrop (snd (fst (fst (hp_deliver k m isdup action s)))) /\
  (isdup = true -> snd (fst (hp_deliver k m isdup action s)) = false /\ snd (hp_deliver k m isdup action s) = None).
Proof.
  unfold hp_deliver. destruct isdup; [split; [apply lframe_refl|split; [constructor|auto]]|].
  destruct action as [|code| |t p q]; try (split; [apply lframe_refl|split; [constructor|discriminate]]).
  - destruct (deliver (k_cid k) m (retain_update m s)) as [[s' o] b] eqn:E.
    pose proof (deliver_lquiet (k_cid k) m (retain_update m s)) as [H1 H2]. rewrite E in H1, H2. cbn [fst snd] in *.
    split; [|split; [exact H2|discriminate]]. eapply lframe_trans; [apply retain_update_lframe|exact H1].
  - cbv zeta. set (m' := rewrite_msg t p q m).
    destruct (deliver (k_cid k) m' (retain_update m' s)) as [[s' o] b] eqn:E.
    pose proof (deliver_lquiet (k_cid k) m' (retain_update m' s)) as [H1 H2]. rewrite E in H1, H2. cbn [fst snd] in *.
    split; [|split; [exact H2|discriminate]]. eapply lframe_trans; [apply retain_update_lframe|exact H1].
Qed.

Definition hres_st (r : hres) : st := match r with HOk s _ => s | HErr s _ _ => s | HErrRead s _ => s end.

Lemma hp_finish_spec c k k0 v5 qos pid o matched err s :
  lv s c = Some (lview k0) -> k_cid k0 = k_cid k ->
  let code := ack_code v5 matched err in
  let U1 := open_ids s (k_cid k) in
  let U2 := if (qos =? 2) && (128 <=? code) then unack_remove pid U1 else U1 in
  let q1 := k_quota k0 in
  let q2 := if v5 && ((qos =? 1) || ((qos =? 2) && (128 <=? code))) && (q1 <? k_recv_max k0) then q1 + 1 else q1 in
  exists s', hp_finish c k v5 qos pid o matched err s = HOk s' (o ++ ack_of c qos pid code) /\
    b_cfg s' = b_cfg s /\ b_hooks s' = b_hooks s /\
    (forall c', c' <> c -> lv s' c' = lv s c') /\ lv s' c = Some (lview (set_quota q2 k0)) /\
    open_ids s' (k_cid k) = U2 /\ (forall cid', cid' <> k_cid k -> aget cid' (b_unacks s') = aget cid' (b_unacks s)).
Proof.
  intros Hlv Hcid. cbv zeta. unfold hp_finish. cbv zeta.
  set (code := ack_code v5 matched err).
  fold (open_ids s (k_cid k)).
  set (s1 := if (qos =? 2) && (128 <=? code) then set_unacks (aset (k_cid k) (unack_remove pid (open_ids s (k_cid k))) (b_unacks s)) s else s).
  assert (A : b_cfg s1 = b_cfg s /\ b_hooks s1 = b_hooks s /\ b_conns s1 = b_conns s /\
              open_ids s1 (k_cid k) = (if (qos =? 2) && (128 <=? code) then unack_remove pid (open_ids s (k_cid k)) else open_ids s (k_cid k)) /\
              (forall cid', cid' <> k_cid k -> aget cid' (b_unacks s1) = aget cid' (b_unacks s))).
  { unfold s1. destruct ((qos =? 2) && (128 <=? code)); lproj; repeat split; auto.
    - eapply open_ids_aset. reflexivity.
    - intros cid' Hc. now apply aget_aset_other. }
  destruct A as (A1 & A2 & A3 & A4 & A5). clearbody s1.
  apply lv_some in Hlv as (k1 & Hk1 & Ev). rewrite <- A3 in Hk1. rewrite Hk1.
  pose proof (lview_fields _ _ Ev) as (_ & _ & _ & _ & Erm & _ & _ & Eq). rewrite Erm, Eq.
  destruct (v5 && ((qos =? 1) || (qos =? 2) && (128 <=? code)) && (k_quota k0 <? k_recv_max k0)).
  - eexists. split; [reflexivity|]. lproj. repeat split; auto.
    + intros c' Hc. rewrite lv_upd_conn. apply N.eqb_neq in Hc. rewrite Hc. unfold lv. now rewrite A3.
    + rewrite lv_upd_conn, N.eqb_refl. f_equal. now apply lview_set_quota_congr.
  - eexists. split; [reflexivity|]. repeat split; auto.
    + intros c' Hc. unfold lv. now rewrite A3.
    + rewrite (lv_of _ _ _ Hk1), Ev. now rewrite set_quota_same.
Qed.

Lemma publish_body_spec c k m qos pid s :
  nget c (b_conns s) = Some k ->
  let U := open_ids s (k_cid k) in
  exists s' o code,
    publish_body c k (k_v k =? 5) m qos pid s = HOk s' (o ++ ack_of c qos pid code) /\ Forall isdrop o /\
    b_cfg s' = b_cfg s /\ b_hooks s' = b_hooks s /\
    (forall c', c' <> c -> lv s' c' = lv s c') /\
    (qos = 2 -> In pid U -> code < 128) /\
    lv s' c = Some (lview (set_quota (fst (pub_quota (k_v k =? 5) (k_recv_max k) (k_quota k) U qos pid code)) k)) /\
    open_ids s' (k_cid k) = snd (pub_quota (k_v k =? 5) (k_recv_max k) (k_quota k) U qos pid code) /\
    (forall cid', cid' <> k_cid k -> aget cid' (b_unacks s') = aget cid' (b_unacks s)).
Proof.
  intros Hk. cbv zeta. unfold publish_body.
  pose proof (hp_dupcheck_spec c k (k_v k =? 5) qos pid s Hk) as D. cbv zeta in D.
  destruct (hp_dupcheck c k (k_v k =? 5) qos pid s) as [s1 isdup]. cbn [fst snd] in D.
  destruct D as (D0 & D1 & D2 & D3 & D4 & D5 & D6).
  pose proof (hp_deliver_lquiet k m isdup (hp_action m s1) s1) as (F & Dr & Hd).
  destruct (hp_deliver k m isdup (hp_action m s1) s1) as [[[s2 o] matched] err]. cbn [fst snd] in F, Dr, Hd.
  destruct F as [F1 F2 F3 F4].
  set (q1 := if (qos =? 2) && snd (unack_set pid (open_ids s (k_cid k))) && (k_v k =? 5) && (k_quota k <? k_recv_max k)
             then k_quota k + 1 else k_quota k) in *.
  assert (Hlv2 : lv s2 c = Some (lview (set_quota q1 k))) by now rewrite F4.
  destruct (hp_finish_spec c k (set_quota q1 k) (k_v k =? 5) qos pid o matched err s2 Hlv2 eq_refl)
    as (s' & E & G1 & G2 & G3 & G4 & G5 & G6).
  exists s', o, (ack_code (k_v k =? 5) matched err). split; [exact E|]. split; [exact Dr|].
  split; [congruence|]. split; [congruence|].
  split; [intros c' Hc; now rewrite G3, F4, D3|].
  split.
  { intros -> Hin. cbn [N.eqb Pos.eqb andb] in D0.
    assert (Ex : isdup = true) by (rewrite D0; now apply unack_set_true_iff).
    destruct (Hd Ex) as [-> ->]. unfold ack_code. destruct (k_v k =? 5); lia. }
  assert (EU : open_ids s2 (k_cid k) = open_ids s1 (k_cid k)) by (unfold open_ids; now rewrite F3).
  unfold pub_quota. cbv zeta. cbn [fst snd]. fold q1.
  split; [exact G4|]. split.
  - rewrite G5, EU, D5. reflexivity.
  - intros cid' Hc. rewrite G6, F3 by exact Hc. now apply D6.
Qed.

(* ================================================================== *)
(* 5. the read loop: decode errors, receive quota, packet size         *)
(* ================================================================== *)

Definition alias_zero (props : list prop) : bool := match p_alias props with Some a => a =? 0 | None => false end.
Definition has_alias (props : list prop) : bool := match p_alias props with Some _ => true | None => false end.

Definition filters_ok (topics : list topic_req) : bool :=
  forallb (fun t => let '(g, f) := split_topic (tq_name t) in valid_filter_spec f) topics.

(* the error with which the read loop ends on packet p, in the order in which it looks *)
Definition read_err (k : conn) (p : pkt) : option N :=
  let v5 := k_v k =? 5 in
  match p with
  | KPublish dup qos retain topic payload pid props =>
      if has_wild topic then Some 129
      else if v5 && alias_zero props then Some 148
      else if is_empty topic && negb (v5 && has_alias props) then Some 130
      else if v5 && (0 <? qos) && (k_quota k =? 0) then Some 147
      else None
  | KSubscribe pid props topics => if filters_ok topics then None else Some 129
  | _ => None
  end.

(* the read loop charges one unit of the receive quota for a QoS>0 PUBLISH of a v5 client *)
Definition charge (k : conn) (p : pkt) : conn :=
  match p with
  | KPublish _ qos _ _ _ _ _ => if (k_v k =? 5) && (0 <? qos) then set_quota (k_quota k - 1) k else k
  | _ => k
  end.

Lemma handle_packet_read_err c k p s code :
  read_err k p = Some code -> handle_packet c k p s = HErrRead s (Some code).
Proof.
  destruct p; cbn [read_err handle_packet]; try discriminate.
  - unfold alias_zero, has_alias.
    destruct (has_wild topic); [now intros [= <-]|].
    destruct ((k_v k =? 5) && match p_alias props with Some a => a =? 0 | None => false end); [now intros [= <-]|].
    destruct (is_empty topic && negb ((k_v k =? 5) && match p_alias props with Some _ => true | None => false end)); [now intros [= <-]|].
    destruct ((k_v k =? 5) && (0 <? qos) && (k_quota k =? 0)); [now intros [= <-]|discriminate].
  - unfold filters_ok. destruct (forallb _ topics); [discriminate|now intros [= <-]].
Qed.

Lemma handle_packet_publish c k dup qos retain topic payload pid props s :
  read_err k (KPublish dup qos retain topic payload pid props) = None ->
  handle_packet c k (KPublish dup qos retain topic payload pid props) s =
  handle_publish c (charge k (KPublish dup qos retain topic payload pid props)) dup qos retain topic payload pid props
                 (upd_conn c (charge k (KPublish dup qos retain topic payload pid props)) s).
Proof.
  cbn [read_err handle_packet charge]. unfold alias_zero, has_alias.
  destruct (has_wild topic); [discriminate|].
  destruct ((k_v k =? 5) && match p_alias props with Some a => a =? 0 | None => false end); [discriminate|].
  destruct (is_empty topic && negb ((k_v k =? 5) && match p_alias props with Some _ => true | None => false end)); [discriminate|].
  destruct ((k_v k =? 5) && (0 <? qos) && (k_quota k =? 0)); [discriminate|]. reflexivity.
Qed.

Lemma nset_id {V} c (v : V) l : nget c l = Some v -> nset c v l = l.
Proof.
  induction l as [|[k0 v0] r IH]; cbn [nget nset]; [discriminate|].
  destruct (c =? k0) eqn:E.
  - apply N.eqb_eq in E. subst. now intros [= ->].
  - intros H. now rewrite IH.
Qed.

Lemma upd_conn_id c k s : nget c (b_conns s) = Some k -> upd_conn c k s = s.
Proof. intros H. unfold upd_conn. rewrite (nset_id _ _ _ H). destruct s; reflexivity. Qed.

Lemma upd_conn_twice c k k' s : upd_conn c k (upd_conn c k' s) = upd_conn c k s.
Proof. unfold upd_conn. lproj. now rewrite nset_nset. Qed.

Lemma too_big_v5 k n s : too_big k n s = true -> (k_v k =? 5) = true.
Proof. unfold too_big. destruct (k_v k =? 5); [reflexivity|discriminate]. Qed.

(* a packet larger than the server's Maximum Packet Size: the read loop's own errors come first, in the
   same order; otherwise 0x95 after the quota charge; nothing is handled *)
Lemma handle_packet_sz_big_eq c k p n s :
  nget c (b_conns s) = Some k -> too_big k n s = true ->
  handle_packet_sz c k p n s =
  match read_err k p with
  | Some code => HErrRead s (Some code)
  | None => HErr (upd_conn c (charge k p) s) [] (Some 149)
  end.
Proof.
  intros Hk Hb. unfold handle_packet_sz. rewrite Hb. pose proof (too_big_v5 _ _ _ Hb) as Hv.
  destruct p; cbn [read_err charge]; rewrite ?(upd_conn_id _ _ _ Hk); try reflexivity.
  - rewrite Hv. cbn [andb]. unfold alias_zero, has_alias.
    destruct (has_wild topic); [reflexivity|].
    destruct (match p_alias props with Some a => a =? 0 | None => false end); [reflexivity|].
    destruct (is_empty topic && negb match p_alias props with Some _ => true | None => false end); [reflexivity|].
    destruct ((0 <? qos) && (k_quota k =? 0)); reflexivity.
  - unfold filters_ok. destruct (forallb _ topics); reflexivity.
Qed.

Lemma step_event_send s c k p :
  nget c (b_conns s) = Some k -> k_phase k = PhConnected ->
  step_event s (ESend c p) =
  match handle_packet c k p s with
  | HOk s' o => (s', o)
  | HErr s' o code => let '(s'', o') := fail_conn c code false s' in (s'', o ++ o')
  | HErrRead s' code => fail_conn c code true s'
  end.
Proof. intros Hk Hp. cbn [step_event]. now rewrite Hk, Hp. Qed.

Lemma step_event_send_sz s c k p n :
  nget c (b_conns s) = Some k -> k_phase k = PhConnected ->
  step_event s (ESendSz c p n) =
  match handle_packet_sz c k p n s with
  | HOk s' o => (s', o)
  | HErr s' o code => let '(s'', o') := fail_conn c code false s' in (s'', o ++ o')
  | HErrRead s' code => fail_conn c code true s'
  end.
Proof. intros Hk Hp. cbn [step_event]. now rewrite Hk, Hp. Qed.

(* a read-loop error on a connected v5 socket: DISCONNECT(code), close; the packet has no other effect *)
Lemma step_read_err s c k p code :
  nget c (b_conns s) = Some k -> k_phase k = PhConnected -> k_v k = 5 -> read_err k p = Some code ->
  step_event s (ESend c p) = torn c code s.
Proof.
  intros Hk Hp Hv He. rewrite (step_event_send s c k p Hk Hp), (handle_packet_read_err c k p s code He).
  now apply (fail_conn_v5 c k).
Qed.

(* ---- the alias stage as a function: the new table and the topic the publish proceeds with, or the error ---- *)
Definition alias_step (k : conn) (topic : str) (props : list prop) : (list (N * str) * str) + N :=
  match (if k_v k =? 5 then p_alias props else None) with
  | None => inl (k_alias_in k, topic)
  | Some a =>
      if (a =? 0) || (k_server_alias_max k <? a) then inr 148
      else match topic with
           | [] => match nget a (k_alias_in k) with
                   | Some (x :: n) => inl (k_alias_in k, x :: n)
                   | _ => inr 148
                   end
           | _ => inl (nset a topic (k_alias_in k), topic)
           end
  end.

Lemma set_alias_in_same k : set_alias_in (k_alias_in k) k = k.
Proof. destruct k; reflexivity. Qed.

Lemma hp_alias_step k v5 dup qos retain topic payload pid props :
  v5 = (k_v k =? 5) ->
  hp_alias k v5 topic props (msg_of_publish v5 dup qos retain topic payload pid props) =
  match alias_step k topic props with
  | inr code => inr code
  | inl (tb, t) => inl (Some (set_alias_in tb k, with_topic t (msg_of_publish v5 dup qos retain topic payload pid props)))
  end.
Proof.
  intros ->. unfold hp_alias, alias_step.
  destruct (if k_v k =? 5 then p_alias props else None) as [a|]; [|now rewrite set_alias_in_same].
  destruct ((a =? 0) || (k_server_alias_max k <? a)); [reflexivity|].
  destruct topic as [|x t]; [|reflexivity].
  destruct (nget a (k_alias_in k)) as [[|y nm]|]; try reflexivity. now rewrite set_alias_in_same.
Qed.

Lemma alias_step_charge k p topic props : alias_step (charge k p) topic props = alias_step k topic props.
Proof. destruct p; try reflexivity. cbn [charge]. destruct ((k_v k =? 5) && (0 <? qos)); reflexivity. Qed.

Lemma charge_v k p : k_v (charge k p) = k_v k.
Proof. destruct p; try reflexivity. cbn [charge]. destruct ((k_v k =? 5) && (0 <? qos)); reflexivity. Qed.

Lemma charge_retain k p : k_retain_avail (charge k p) = k_retain_avail k.
Proof. destruct p; try reflexivity. cbn [charge]. destruct ((k_v k =? 5) && (0 <? qos)); reflexivity. Qed.

(* the errors of the publish handler itself *)
Definition pub_err (k : conn) (retain : bool) (topic : str) (props : list prop) : option N :=
  if negb (k_retain_avail k) && retain then Some 154
  else match alias_step k topic props with inr code => Some code | inl _ => None end.

Lemma handle_packet_pub_err c k dup qos retain topic payload pid props s code :
  read_err k (KPublish dup qos retain topic payload pid props) = None ->
  pub_err k retain topic props = Some code ->
  handle_packet c k (KPublish dup qos retain topic payload pid props) s =
  HErr (upd_conn c (charge k (KPublish dup qos retain topic payload pid props)) s) [] (Some code).
Proof.
  intros Hr He. rewrite (handle_packet_publish _ _ _ _ _ _ _ _ _ _ Hr), handle_publish_eq. cbv zeta.
  unfold pub_err in He. rewrite charge_retain.
  destruct (negb (k_retain_avail k) && retain); [now injection He as <-|].
  rewrite hp_alias_step by (now rewrite charge_v). rewrite alias_step_charge.
  destruct (alias_step k topic props) as [[tb t]|cd]; [discriminate|]. now injection He as <-.
Qed.

Lemma handle_packet_pub_ok c k dup qos retain topic payload pid props s tb t :
  let p := KPublish dup qos retain topic payload pid props in
  read_err k p = None -> negb (k_retain_avail k) && retain = false -> alias_step k topic props = inl (tb, t) ->
  handle_packet c k p s =
  publish_body c (set_alias_in tb (charge k p)) (k_v k =? 5)
               (with_topic t (msg_of_publish (k_v k =? 5) dup qos retain topic payload pid props)) qos pid
               (upd_conn c (set_alias_in tb (charge k p)) s).
Proof.
  intros p Hr Hra Ha. unfold p. rewrite (handle_packet_publish _ _ _ _ _ _ _ _ _ _ Hr), handle_publish_eq. cbv zeta.
  rewrite charge_retain, Hra. rewrite hp_alias_step by (now rewrite charge_v). rewrite alias_step_charge, Ha.
  rewrite charge_v, upd_conn_twice. reflexivity.
Qed.

(* ================================================================== *)
(* 6. the other packet handlers are frames                             *)
(* ================================================================== *)

Definition hres_out (r : hres) : list out := match r with HOk _ o => o | HErr _ o _ => o | HErrRead _ _ => [] end.

(* outputs that neither close a socket nor are a DISCONNECT packet *)
Definition benign (x : out) : Prop :=
  match x with OClose _ => False | OSend _ (KDisconnect _ _) => False | _ => True end.

Lemma isdrop_benign o : Forall isdrop o -> Forall benign o.
Proof. apply Forall_impl. intros [c' p|c'|cid m r]; cbn; intros H; try destruct H; exact I. Qed.

Lemma ack_of_benign c qos pid code : Forall benign (ack_of c qos pid code).
Proof. unfold ack_of. destruct (qos =? 1); [repeat constructor|]. destruct (qos =? 2); repeat constructor. Qed.

Lemma fold_rel {A B} (R : B -> B -> Prop) (f : B -> A -> B) (l : list A) :
  (forall b, R b b) -> (forall a b c, R a b -> R b c -> R a c) ->
  (forall b x, R b (f b x)) -> forall b, R b (fold_left f l b).
Proof.
  intros Hr Ht Hf. induction l as [|x r IH]; intros b; cbn [fold_left]; [apply Hr|].
  eapply Ht; [apply Hf|apply IH].
Qed.

Lemma replay_retained_lquiet c k sb s :
  lframe s (fst (replay_retained c k sb s)) /\ Forall isdrop (snd (replay_retained c k sb s)).
Proof.
  unfold replay_retained.
  match goal with |- context [fold_left ?f ?l (s, [])] =>
    cut (forall s0 o0 x, lquiet s0 o0 (f (s0, o0) x));
    [intros Hb; destruct (fold_lquiet f l Hb s []) as [H1 H2]; split; [exact H1|apply H2; constructor]|] end.
  intros s0 o0 m. cbv beta iota zeta.
  destruct (aget (k_cid k) (b_queues s0)) as [q|]; [|apply lquiet_refl].
  match goal with |- context [q_add ?a ?b ?c] => destruct (q_add a b c) as [[q' evs]| | |] end;
    try apply lquiet_refl.
  split; cbn [fst snd].
  - eapply lframe_trans; [|apply release_dropped_lframe].
    eapply lframe_trans; [apply lframe_set_queues|apply lframe_set_picks_tag].
  - intros H. apply Forall_app. split; [exact H|apply drops_of_isdrop].
Qed.

Definition lquiet3 (b b' : st * list out * list N) : Prop :=
  lframe (fst (fst b)) (fst (fst b')) /\ (Forall isdrop (snd (fst b)) -> Forall isdrop (snd (fst b'))).

Lemma handle_subscribe_lframe c k pid props topics s :
  lframe s (hres_st (handle_subscribe c k pid props topics s)) /\
  Forall benign (hres_out (handle_subscribe c k pid props topics s)).
Proof.
  unfold handle_subscribe. cbv zeta.
  match goal with |- context [if ?b then HErr s [] (Some 161) else _] => destruct b end;
    [split; [apply lframe_refl|constructor]|].
  destruct (h_sub_all (b_hooks s)); [split; [apply lframe_refl|repeat constructor]|].
  match goal with |- context [fold_left ?f topics ?a] =>
    pose proof (fold_rel lquiet3 f topics) as HF; destruct (fold_left f topics a) as [[s' o] codes] eqn:E end.
  cbn [hres_st hres_out].
  match type of HF with _ -> _ -> _ -> forall b, _ => specialize (fun a b c => HF a b c (s, [], [])) end.
  rewrite E in HF. destruct HF as [H1 H2]; cbn [fst snd] in *.
  - intros b. split; [apply lframe_refl|auto].
  - intros a b d [A1 A2] [B1 B2]. split; [eapply lframe_trans; eauto|auto].
  - intros [[s0 o0] cs] t. cbv beta iota zeta.
    match goal with |- context [if ?b <? 128 then _ else _] => destruct (b <? 128) end;
      [|split; cbn [fst snd]; [apply lframe_refl|auto]].
    match goal with |- context [db_subscribe ?a ?b ?d] => destruct (db_subscribe a b d) as [d' existed]; set (sb := b) in * end.
    match goal with |- context [if ?b then replay_retained c k sb ?S else _] =>
      destruct b; [pose proof (replay_retained_lquiet c k sb S) as [R1 R2];
                   destruct (replay_retained c k sb S) as [s2 o2]|] end.
    + split; cbn [fst snd] in *.
      * eapply lframe_trans; [apply lframe_set_subs|exact R1].
      * intros H. apply Forall_app. now split.
    + split; cbn [fst snd].
      * apply lframe_set_subs.
      * intros H. apply Forall_app. split; [exact H|constructor].
  - split; [exact H1|]. apply Forall_app. split; [apply isdrop_benign, H2; constructor|repeat constructor].
Qed.

Lemma queue_op_lframe cid f s : lframe s (queue_op cid f s).
Proof. unfold queue_op. destruct (aget cid (b_queues s)); [apply lframe_set_queues|apply lframe_refl]. Qed.

Lemma release_id_lframe c pid s : lframe s (release_id c pid s).
Proof.
  unfold release_id. destruct (nget c (b_conns s)) as [k|] eqn:E; [|apply lframe_refl].
  eapply lframe_upd_conn_k; [exact E|reflexivity].
Qed.

Definition is_publish (p : pkt) : bool := match p with KPublish _ _ _ _ _ _ _ => true | _ => false end.
Definition is_pubrel (p : pkt) : bool := match p with KPubrel _ _ _ => true | _ => false end.

(* every packet but PUBLISH and PUBREL leaves quota, alias table and unack store alone *)
Lemma handle_packet_other_lframe c k p s :
  nget c (b_conns s) = Some k -> is_publish p = false -> is_pubrel p = false ->
  lframe s (hres_st (handle_packet c k p s)) /\ Forall benign (hres_out (handle_packet c k p s)).
Proof.
  intros Hk Hp1 Hp2. pose proof (lv_of _ _ _ Hk) as Hlv.
  destruct p; try discriminate; cbn [handle_packet]; try (split; [apply lframe_refl|repeat constructor]).
  - (* PUBACK *)
    cbn [hres_st hres_out]. split; [|constructor].
    eapply lframe_trans; [apply queue_op_lframe|apply release_id_lframe].
  - (* PUBREC *)
    destruct ((k_v k =? 5) && (128 <=? code)); cbn [hres_st hres_out].
    + split; [|constructor]. eapply lframe_trans; [apply queue_op_lframe|apply release_id_lframe].
    + split; [apply queue_op_lframe|repeat constructor].
  - (* PUBCOMP *)
    cbn [hres_st hres_out]. split; [|constructor].
    eapply lframe_trans; [apply queue_op_lframe|apply release_id_lframe].
  - (* SUBSCRIBE *)
    match goal with |- context [if ?b then handle_subscribe _ _ _ _ _ _ else _] => destruct b end;
      [|split; [apply lframe_refl|constructor]].
    apply handle_subscribe_lframe.
  - (* UNSUBSCRIBE *)
    unfold handle_unsubscribe. cbn [hres_st hres_out]. split; [apply lframe_set_subs|repeat constructor].
  - (* DISCONNECT *)
    destruct (k_v k =? 5).
    + cbv zeta. destruct (aget (k_cid k) (b_sessions s)) as [se|] eqn:Es; [|split; [apply lframe_refl|constructor]].
      match goal with |- context [if ?b then HErr s [] None else _] => destruct b end;
        [split; [apply lframe_refl|constructor]|].
      cbn [hres_st hres_out]. split; [|constructor].
      match goal with |- lframe s (upd_conn c ?K ?S) => set (s1 := S) end.
      assert (F1 : lframe s s1).
      { unfold s1. destruct (p_sei props) as [x|]; [|apply lframe_refl].
        destruct (x =? 0); [apply lframe_refl|]. apply lframe_set_tables. }
      eapply lframe_trans; [exact F1|]. apply lframe_upd_conn. rewrite (lf_lv _ _ F1 c), Hlv. reflexivity.
    + cbn [hres_st hres_out]. split; [|constructor]. apply lframe_upd_conn. now rewrite Hlv.
Qed.

(* PUBREL: the id leaves the unack store and one unit of quota comes back, capped at the Receive Maximum -
   whether or not the id was open *)
Lemma handle_pubrel_spec c k pid code props s :
  nget c (b_conns s) = Some k ->
  let U := open_ids s (k_cid k) in
  let q' := if (k_v k =? 5) && (k_quota k <? k_recv_max k) then k_quota k + 1 else k_quota k in
  exists s', handle_packet c k (KPubrel pid code props) s = HOk s' [OSend c (KPubcomp pid 0 [])] /\
    b_cfg s' = b_cfg s /\ b_hooks s' = b_hooks s /\
    (forall c', c' <> c -> lv s' c' = lv s c') /\ lv s' c = Some (lview (set_quota q' k)) /\
    open_ids s' (k_cid k) = unack_remove pid U /\
    (forall cid', cid' <> k_cid k -> aget cid' (b_unacks s') = aget cid' (b_unacks s)).
Proof.
  intros Hk. cbv zeta. cbn [handle_packet]. cbv zeta. fold (open_ids s (k_cid k)). lproj. rewrite Hk.
  destruct ((k_v k =? 5) && (k_quota k <? k_recv_max k)).
  - eexists. split; [reflexivity|]. lproj. repeat split; auto.
    + intros c' Hc. rewrite lv_upd_conn. apply N.eqb_neq in Hc. now rewrite Hc.
    + now rewrite lv_upd_conn, N.eqb_refl.
    + eapply open_ids_aset. reflexivity.
    + intros cid' Hc. now apply aget_aset_other.
  - eexists. split; [reflexivity|]. lproj. repeat split; auto.
    + unfold lv. lproj. rewrite Hk. cbn [option_map]. now rewrite set_quota_same.
    + eapply open_ids_aset. reflexivity.
    + intros cid' Hc. lproj. now apply aget_aset_other.
Qed.

(* ================================================================== *)
(* 7. the poll loops are frames                                        *)
(* ================================================================== *)

(* what a poll loop writes: PUBLISH and PUBREL to sockets satisfying P, drop notifications *)
Definition pollout (P : N -> Prop) (x : out) : Prop :=
  match x with
  | OSend c (KPublish _ _ _ _ _ _ _) => P c
  | OSend c (KPubrel _ _ _) => P c
  | ODropped _ _ _ => True
  | _ => False
  end.

Lemma pollout_impl (P Q : N -> Prop) o : (forall c, P c -> Q c) -> Forall (pollout P) o -> Forall (pollout Q) o.
Proof. intros H. apply Forall_impl. intros [c p|c|cid m r]; cbn; auto. destruct p; auto. Qed.

Lemma isdrop_pollout (P : N -> Prop) o : Forall isdrop o -> Forall (pollout P) o.
Proof. apply Forall_impl. intros [c' p|c'|cid m r]; cbn; intros H; try destruct H; exact I. Qed.

Lemma pollout_benign P o : Forall (pollout P) o -> Forall benign o.
Proof. apply Forall_impl. intros [c p|c|cid m r]; cbn; auto. destruct p; auto. Qed.

Lemma write_publish_ok c k m :
  lview (fst (write_publish c k m)) = lview k /\ Forall (pollout (eq c)) (snd (write_publish c k m)).
Proof.
  unfold write_publish. destruct ((k_v k =? 5) && (0 <? k_client_alias_max k) && (msg_total_bytes true m + 5 <=? k_client_max_packet k)).
  - destruct (am_check (m_topic m) (k_alias_out k)) as [am' [a ex|]]; cbn [fst snd]; split; try reflexivity;
      repeat constructor.
  - cbn [fst snd]. split; [reflexivity|repeat constructor].
Qed.

Definition kquiet (c : N) (b b' : conn * list out) : Prop :=
  lview (fst b') = lview (fst b) /\ (Forall (pollout (eq c)) (snd b) -> Forall (pollout (eq c)) (snd b')).

Lemma kquiet_refl c b : kquiet c b b.
Proof. split; auto. Qed.
Lemma kquiet_trans c a b d : kquiet c a b -> kquiet c b d -> kquiet c a d.
Proof. intros [A1 A2] [B1 B2]. split; [congruence|auto]. Qed.

Lemma poll_once_lframe c s s' o :
  poll_once c s = Some (s', o) ->
  lframe s s' /\ Forall (pollout (eq c)) o /\ exists k, nget c (b_conns s) = Some k /\ attached (k_phase k) = true.
Proof.
  unfold poll_once. destruct (nget c (b_conns s)) as [k|] eqn:Ek; [|discriminate].
  assert (Hatt : forall (X : option (st * list out)),
            match k_phase k with PhConnected | PhZombie => X | _ => None end = Some (s', o) ->
            X = Some (s', o) /\ attached (k_phase k) = true).
  { intros X. destruct (k_phase k); try discriminate; auto. }
  intros H.
  match type of H with match k_phase k with PhConnected => ?X | _ => _ end = _ =>
    assert (H' : X = Some (s', o) /\ attached (k_phase k) = true) by (apply Hatt; destruct (k_phase k); exact H) end.
  clear H Hatt. destruct H' as [H Hph].
  cut (lframe s s' /\ Forall (pollout (eq c)) o); [intros [A B]; split; [exact A|split; [exact B|now exists k]]|].
  destruct (aget (k_cid k) (b_queues s)) as [q|]; [|discriminate].
  destruct (negb (k_drained k)).
  - (* pollInflights *)
    destruct (q_read_inflight (b_now s) (N.to_nat (k_max_inflight k)) q) as [q' rs].
    destruct rs as [|r0 rs0].
    + injection H as <- <-. split; [|constructor].
      eapply lframe_trans; [apply lframe_set_queues|].
      eapply lframe_upd_conn_k; [exact Ek|reflexivity].
    + set (rs := r0 :: rs0) in *. cbv zeta in H.
      match type of H with context [fold_left ?f rs (k, [])] =>
        pose proof (fold_rel (kquiet c) f rs (kquiet_refl c) (kquiet_trans c)) as HF;
        destruct (fold_left f rs (k, [])) as [k' o'] eqn:Ef end.
      assert (HK : kquiet c (k, []) (k', o')).
      { rewrite <- Ef. apply HF. intros [k0 o0] e. destruct (e_body e) as [m|p].
        - match goal with |- context [write_publish c ?K ?M] =>
            pose proof (write_publish_ok c K M) as [W1 W2]; destruct (write_publish c K M) as [k2 o2] end.
          cbn [fst snd] in *. split; cbn [fst snd]; [rewrite W1; reflexivity|].
          intros Ho. apply Forall_app. now split.
        - split; cbn [fst snd]; [reflexivity|]. intros Ho. apply Forall_app. split; [exact Ho|repeat constructor]. }
      destruct HK as [K1 K2]. cbn [fst snd] in K1, K2.
      injection H as <- <-. split; [|apply K2; constructor].
      eapply lframe_trans; [apply lframe_set_queues|].
      eapply lframe_trans; [apply lframe_set_queues|].
      eapply lframe_upd_conn_k; [exact Ek|exact K1].
  - destruct (k_held k) as [ids|].
    + destruct (q_read (b_now s) ids q) as [[[q' rs] evs]| | |]; try discriminate.
      cbv zeta in H.
      match type of H with context [fold_left ?f ?l (?k0, [])] =>
        pose proof (fold_rel (kquiet c) f l (kquiet_refl c) (kquiet_trans c)) as HF;
        destruct (fold_left f l (k0, [])) as [k' o'] eqn:Ef; set (kk := k0) in * end.
      assert (HK : kquiet c (kk, []) (k', o')).
      { rewrite <- Ef. apply HF. intros [k0 o0] e. destruct (e_body e) as [m|p]; [|apply kquiet_refl].
        pose proof (write_publish_ok c k0 m) as [W1 W2]. destruct (write_publish c k0 m) as [k2 o2].
        cbn [fst snd] in *. split; cbn [fst snd]; [exact W1|].
        intros Ho. apply Forall_app. now split. }
      destruct HK as [K1 K2]. cbn [fst snd] in K1, K2.
      injection H as <- <-. split.
      * eapply lframe_trans; [apply lframe_set_queues|].
        eapply lframe_upd_conn_k; [exact Ek|]. rewrite K1. reflexivity.
      * apply Forall_app. split; [apply isdrop_pollout, drops_of_isdrop|apply K2; constructor].
    + match type of H with context [lim_poll ?a ?b] => destruct (lim_poll a b) as [l' [| | |ids]] end; try discriminate.
      injection H as <- <-. split; [|constructor]. eapply lframe_upd_conn_k; [exact Ek|reflexivity].
Qed.

Definition att (s : st) (c : N) : Prop := exists k, nget c (b_conns s) = Some k /\ attached (k_phase k) = true.

Lemma att_lv s s' c : lv s' c = lv s c -> att s c -> att s' c.
Proof.
  intros Hlv [k [Hk Ha]]. rewrite (lv_of _ _ _ Hk) in Hlv. apply lv_some in Hlv as [k' [Hk' Ev]].
  exists k'. split; [exact Hk'|]. apply lview_fields in Ev as (_ & _ & E & _). now rewrite E.
Qed.

Lemma att_lframe s s' c : lframe s s' -> (att s c <-> att s' c).
Proof. intros F. split; apply att_lv; [|symmetry]; apply (lf_lv _ _ F c). Qed.

Lemma Forall_filter {A} (P : A -> Prop) f (l : list A) : Forall P l -> Forall P (filter f l).
Proof. rewrite !Forall_forall. intros H x Hin. apply filter_In in Hin as [Hin _]. auto. Qed.

Lemma poll_conn_lframe fuel c : forall s,
  lframe s (fst (poll_conn fuel c s)) /\ Forall (pollout (att s)) (snd (poll_conn fuel c s)).
Proof.
  induction fuel as [|f IH]; intros s; cbn [poll_conn]; [split; [apply lframe_refl|constructor]|].
  destruct (poll_once c s) as [[s' o]|] eqn:E; [|split; [apply lframe_refl|constructor]].
  apply poll_once_lframe in E as (F & Ho & Hatt).
  destruct (IH s') as [F' Ho']. destruct (poll_conn f c s') as [s'' o'']. cbn [fst snd] in *.
  split; [eapply lframe_trans; eauto|]. apply Forall_app. split.
  - apply (pollout_impl (eq c)); [now intros c' <-|].
    destruct (nget c (b_conns s)) as [k|]; [|exact Ho].
    destruct (k_phase k); try exact Ho. now apply Forall_filter.
  - eapply pollout_impl; [|exact Ho']. intros c'. apply (att_lframe _ _ c' F).
Qed.

Lemma poll_all_lframe s : lframe s (fst (poll_all s)) /\ Forall (pollout (att s)) (snd (poll_all s)).
Proof.
  unfold poll_all.
  assert (G : forall (l : list (N * conn)) s0 o0, lframe s s0 -> Forall (pollout (att s)) o0 ->
            lframe s (fst (fold_left (fun acc ck => let '(s0, o0) := acc in
                                      let '(s', o') := poll_conn 400 (fst ck) s0 in (s', o0 ++ o')) l (s0, o0))) /\
            Forall (pollout (att s)) (snd (fold_left (fun acc ck => let '(s0, o0) := acc in
                                      let '(s', o') := poll_conn 400 (fst ck) s0 in (s', o0 ++ o')) l (s0, o0)))).
  { induction l as [|ck r IH]; intros s0 o0 F Ho; cbn [fold_left]; [now split|].
    destruct (poll_conn_lframe 400 (fst ck) s0) as [F1 H1]. destruct (poll_conn 400 (fst ck) s0) as [s1 o1].
    cbn [fst snd] in *. apply IH; [eapply lframe_trans; eauto|].
    apply Forall_app. split; [exact Ho|]. eapply pollout_impl; [|exact H1].
    intros c'. apply (att_lframe _ _ c' F). }
  apply G; [apply lframe_refl|constructor].
Qed.

(* the step is the event followed by the poll loops, which are a frame *)
Lemma step_poll s e :
  exists o2, snd (step s e) = snd (step_event s e) ++ o2 /\
             lframe (fst (step_event s e)) (fst (step s e)) /\ Forall (pollout (att (fst (step_event s e)))) o2.
Proof.
  unfold step. destruct (step_event s e) as [s1 o1]. pose proof (poll_all_lframe s1) as [F P].
  destruct (poll_all s1) as [s2 o2]. cbn [fst snd] in *. exists o2. auto.
Qed.

(* ================================================================== *)
(* 8. a failing packet: the teardown seen from the socket              *)
(* ================================================================== *)

Definition to_sock (c : N) (x : out) : bool :=
  match x with OSend c' _ => c' =? c | OClose c' => c' =? c | ODropped _ _ _ => false end.

Lemma filter_none {A} (f : A -> bool) l : Forall (fun x => f x = false) l -> filter f l = [].
Proof. induction 1 as [|x r Hx Hr IH]; cbn [filter]; [reflexivity|]. now rewrite Hx. Qed.

Lemma some_inj {A} (a b : A) : Some a = Some b -> a = b.
Proof. now intros [= ->]. Qed.

Definition not_conn (s : st) (c : N) : Prop :=
  forall k', nget c (b_conns s) = Some k' -> k_phase k' <> PhConnected.

Lemma not_conn_lv s s' c : lv s' c = lv s c -> not_conn s c -> not_conn s' c.
Proof.
  intros E H k' Hk'. rewrite (lv_of _ _ _ Hk') in E. symmetry in E. apply lv_some in E as (k & Hk & Ev).
  apply lview_fields in Ev as (_ & _ & Ep & _). rewrite <- Ep. now apply H.
Qed.

Lemma not_conn_of_lv s c k ph : lv s c = Some (lview (set_phase ph k)) -> ph <> PhConnected -> not_conn s c.
Proof.
  intros E Hph k' Hk'. rewrite (lv_of _ _ _ Hk') in E. apply some_inj in E.
  apply lview_fields in E as (_ & _ & Ep & _). now rewrite Ep.
Qed.

Lemma conn_gone_not_conn c s : not_conn (fst (conn_gone c s)) c.
Proof.
  destruct (conn_gone_gen c s) as (_ & _ & _ & _ & E & _). intros k' Hk'.
  rewrite (lv_of _ _ _ Hk') in E. destruct (lv s c) as [v|]; cbn [option_map] in E; [|discriminate].
  apply some_inj in E. assert (Ep : vphase (lview k') = PhClosed).
  { rewrite E. destruct v as [[[[[[[a b] p] d] e] f] g] h]. reflexivity. }
  rewrite vphase_lview in Ep. rewrite Ep. discriminate.
Qed.

Lemma fail_conn_not_conn c code br s : not_conn (fst (fail_conn c code br s)) c.
Proof.
  unfold fail_conn. destruct (nget c (b_conns s)) as [k|] eqn:Hk.
  2:{ cbn [fst]. intros k' Hk'. congruence. }
  destruct (k_phase k) eqn:Hp; cbn [fst]; try (intros k' Hk'; rewrite Hk in Hk'; injection Hk' as <-; rewrite Hp; discriminate).
  match goal with |- context [if ?b then _ else _] => destruct b end.
  - pose proof (conn_gone_not_conn c s) as H. destruct (conn_gone c s). exact H.
  - cbn [fst]. intros k' Hk'. lproj_in Hk'. rewrite ng_nset_same in Hk'. injection Hk' as <-. discriminate.
Qed.

(* outputs of fail_conn: the DISCONNECT with the handler's code, the close, drop notifications *)
Definition failout (c : N) (code : option N) (x : out) : Prop :=
  (exists cd, code = Some cd /\ x = OSend c (KDisconnect cd [])) \/ closeout c x.

Lemma fail_conn_outputs c code br s : Forall (failout c code) (snd (fail_conn c code br s)).
Proof.
  unfold fail_conn. destruct (nget c (b_conns s)) as [k|]; [|constructor].
  destruct (k_phase k); try constructor.
  match goal with |- context [if ?b then _ else _] => destruct b end; [|constructor].
  pose proof (conn_gone_gen c s) as (_ & _ & _ & _ & _ & H). destruct (conn_gone c s) as [s' o]. cbn [snd] in *.
  apply Forall_app. split.
  - destruct code as [cd|]; [|constructor]. destruct (k_v k =? 5); [|constructor]. constructor; [|constructor]. left. now exists cd.
  - eapply Forall_impl; [|exact H]. intros x Hx. now right.
Qed.

(* after the teardown: what socket c saw is exactly DISCONNECT(code) and the close, also after the poll
   loops have run; the socket's record is closed *)
Lemma torn_step s e c code s1 k1 :
  step_event s e = torn c code s1 -> nget c (b_conns s1) = Some k1 -> attached (k_phase k1) = true ->
  filter (to_sock c) (snd (step s e)) = [OSend c (KDisconnect code []); OClose c] /\
  Forall (fun x => to_sock c x = true \/ benign x) (snd (step s e)) /\
  (exists k', nget c (b_conns (fst (step s e))) = Some k' /\ k_phase k' = PhClosed) /\
  b_unacks (fst (step s e)) = b_unacks s1 /\ b_cfg (fst (step s e)) = b_cfg s1.
Proof.
  intros E Hk1 Ha. destruct (torn_spec c k1 code s1 Hk1 Ha) as (s' & o' & Et & Hd & T1 & T2 & T3 & T4 & T5).
  destruct (step_poll s e) as (o2 & Eo & F & P). rewrite E, Et in *. cbn [fst snd] in *.
  assert (Hna : ~ att s' c).
  { intros (k' & Hk' & Ha'). rewrite (lv_of _ _ _ Hk') in T5. apply some_inj in T5.
    apply lview_fields in T5 as (_ & _ & Ep & _). rewrite Ep in Ha'. discriminate. }
  split; [|split; [|split; [|split]]].
  - rewrite Eo. rewrite !filter_app. cbn [filter to_sock]. rewrite N.eqb_refl. cbn [app].
    rewrite (filter_none _ o'), (filter_none _ o2); [reflexivity| |].
    + eapply Forall_impl; [|exact P]. intros [c' p|c'|cid m r]; cbn [pollout to_sock]; try tauto.
      destruct p; try tauto; intros Hat; apply N.eqb_neq; intros ->; contradiction.
    + eapply Forall_impl; [|exact Hd]. intros [c' p|c'|cid m r]; cbn; tauto.
  - rewrite Eo. apply Forall_app. split; [apply Forall_app; split|].
    + constructor; [left; cbn; apply N.eqb_refl|]. constructor; [left; cbn; apply N.eqb_refl|constructor].
    + eapply Forall_impl; [|apply isdrop_benign, Hd]. intros x Hx. now right.
    + eapply Forall_impl; [|apply (pollout_benign _ _ P)]. intros x Hx. now right.
  - pose proof (lf_lv _ _ F c) as E2. rewrite T5 in E2. apply lv_some in E2 as (k' & Hk' & Ev).
    exists k'. split; [exact Hk'|]. apply lview_fields in Ev as (_ & _ & Ep & _). exact Ep.
  - rewrite (lf_u _ _ F). exact T3.
  - rewrite (lf_cfg _ _ F). exact T1.
Qed.

Lemma charge_phase k p : k_phase (charge k p) = k_phase k.
Proof. destruct p; try reflexivity. cbn [charge]. destruct ((k_v k =? 5) && (0 <? qos)); reflexivity. Qed.
Lemma charge_cid k p : k_cid (charge k p) = k_cid k.
Proof. destruct p; try reflexivity. cbn [charge]. destruct ((k_v k =? 5) && (0 <? qos)); reflexivity. Qed.
Lemma charge_recv_max k p : k_recv_max (charge k p) = k_recv_max k.
Proof. destruct p; try reflexivity. cbn [charge]. destruct ((k_v k =? 5) && (0 <? qos)); reflexivity. Qed.

(* an error of the publish handler on a connected v5 socket: the quota stays charged, DISCONNECT(code), close *)
Lemma step_pub_err s c k dup qos retain topic payload pid props code :
  let p := KPublish dup qos retain topic payload pid props in
  nget c (b_conns s) = Some k -> k_phase k = PhConnected -> k_v k = 5 ->
  read_err k p = None -> pub_err k retain topic props = Some code ->
  step_event s (ESend c p) = torn c code (upd_conn c (charge k p) s).
Proof.
  intros p Hk Hp Hv Hr He. rewrite (step_event_send s c k p Hk Hp). unfold p.
  rewrite (handle_packet_pub_err c k dup qos retain topic payload pid props s code Hr He). cbn [app].
  rewrite (fail_conn_v5 c (charge k p) code false); [now destruct (torn c code _)| |now rewrite charge_phase|now rewrite charge_v].
  lproj. apply ng_nset_same.
Qed.

(* ================================================================== *)
(* 9. a PUBLISH that passes: the master statement                      *)
(* ================================================================== *)

Lemma lview_charged x tb k p :
  lview (set_quota x (set_alias_in tb (charge k p))) =
  (k_cid k, k_v k, k_phase k, k_server_alias_max k, k_recv_max k, k_retain_avail k, tb, x).
Proof. destruct p; try reflexivity. cbn [charge]. destruct ((k_v k =? 5) && (0 <? qos)); reflexivity. Qed.

Theorem publish_accepted s c k dup qos retain topic payload pid props tb t :
  let p := KPublish dup qos retain topic payload pid props in
  nget c (b_conns s) = Some k -> k_phase k = PhConnected ->
  read_err k p = None -> negb (k_retain_avail k) && retain = false -> alias_step k topic props = inl (tb, t) ->
  let U := open_ids s (k_cid k) in
  let v5 := k_v k =? 5 in
  exists s' o code,
    step_event s (ESend c p) = (s', o ++ ack_of c qos pid code) /\ Forall isdrop o /\
    b_cfg s' = b_cfg s /\ b_hooks s' = b_hooks s /\
    (forall c', c' <> c -> lv s' c' = lv s c') /\
    (qos = 2 -> In pid U -> code < 128) /\
    lv s' c = Some (k_cid k, k_v k, PhConnected, k_server_alias_max k, k_recv_max k, k_retain_avail k, tb,
                    fst (pub_quota v5 (k_recv_max k) (k_quota (charge k p)) U qos pid code)) /\
    open_ids s' (k_cid k) = snd (pub_quota v5 (k_recv_max k) (k_quota (charge k p)) U qos pid code) /\
    (forall cid', cid' <> k_cid k -> aget cid' (b_unacks s') = aget cid' (b_unacks s)).
Proof.
  intros p Hk Hp Hr Hra Ha. cbv zeta.
  rewrite (step_event_send s c k p Hk Hp). unfold p at 1.
  rewrite (handle_packet_pub_ok c k dup qos retain topic payload pid props s tb t Hr Hra Ha). fold p.
  set (k' := set_alias_in tb (charge k p)).
  assert (Hk' : nget c (b_conns (upd_conn c k' s)) = Some k') by (lproj; apply ng_nset_same).
  assert (Ev : k_v k' = k_v k) by exact (charge_v k p).
  assert (Ec : k_cid k' = k_cid k) by exact (charge_cid k p).
  assert (Er : k_recv_max k' = k_recv_max k) by exact (charge_recv_max k p).
  rewrite <- Ev.
  destruct (publish_body_spec c k' (with_topic t (msg_of_publish (k_v k' =? 5) dup qos retain topic payload pid props)) qos pid
              (upd_conn c k' s) Hk') as (s' & o & code & E & Hd & G1 & G2 & G3 & G4 & G5 & G6 & G7).
  cbv zeta in G4, G5, G6.
  assert (EU : open_ids (upd_conn c k' s) (k_cid k') = open_ids s (k_cid k)) by (rewrite Ec; reflexivity).
  rewrite EU in G4, G5, G6. rewrite Er in G5, G6. rewrite Ec in G6, G7. rewrite E. clear E.
  rewrite Ev in G5, G6 |- *.
  exists s', o, code. split; [reflexivity|]. split; [exact Hd|]. split; [exact G1|]. split; [exact G2|].
  split.
  { intros c' Hc. rewrite (G3 c' Hc), lv_upd_conn. apply N.eqb_neq in Hc. now rewrite Hc. }
  split; [exact G4|]. split.
  { rewrite G5. unfold k'. rewrite lview_charged, Hp. reflexivity. }
  split; [exact G6|exact G7].
Qed.

(* ---- arithmetic of the quota bookkeeping ---- *)
Lemma pub_quota_conserves rm q0 U qos pid code :
  qos <= 2 -> (0 < qos -> 0 < q0) -> q0 <= rm -> NoDup U -> (qos = 2 -> In pid U -> code < 128) ->
  let r := pub_quota true rm (if 0 <? qos then q0 - 1 else q0) U qos pid code in
  fst r <= rm /\ NoDup (snd r) /\ fst r + N.of_nat (length (snd r)) = q0 + N.of_nat (length U).
Proof.
  intros Hq Hpos Hle Hnd Hcode. cbv zeta.
  assert (Hcases : qos = 0 \/ qos = 1 \/ qos = 2) by lia. destruct Hcases as [-> | [-> | ->]].
  - unfold pub_quota. cbn. auto.
  - unfold pub_quota. cbn [N.eqb N.ltb N.compare Pos.eqb andb orb fst snd]. cbn.
    destruct (q0 - 1 <? rm) eqn:E; cbn [fst snd]; repeat split; auto; lia.
  - assert (Hq0 : 0 < q0) by (apply Hpos; lia).
    unfold pub_quota, unack_set, unack_remove. cbn [N.eqb Pos.eqb andb Datatypes.orb]. change (0 <? 2) with true. cbv iota.
    destruct (memN pid U) eqn:Em; cbn [fst snd andb].
    + apply memN_In in Em. specialize (Hcode eq_refl Em).
      assert (E1 : (128 <=? code) = false) by lia. rewrite E1. cbn [Datatypes.orb andb].
      destruct (q0 - 1 <? rm) eqn:E; cbn [fst snd]; repeat split; auto; lia.
    + apply memN_notIn in Em. destruct (128 <=? code) eqn:Ec; cbn [fst snd delN Datatypes.orb andb].
      * rewrite N.eqb_refl, (delN_notIn _ _ Em). destruct (q0 - 1 <? rm) eqn:E; cbn [fst snd]; repeat split; auto; lia.
      * repeat split; [lia|now constructor|]. cbn [length]. lia.
Qed.

(* ================================================================== *)
(* 10. the receive quota against the open QoS 2 publishes              *)
(* ================================================================== *)

(* The QoS 2 publishes of a session that are open - received, PUBREC (code < 128) sent, PUBREL not yet answered -
   are the ids in its unack store (open_ids); a QoS 1 publish is acknowledged within its own step.
   Qrel false: quota <= Receive Maximum <= quota + open.   Qrel true: additionally quota + open = Receive Maximum. *)
Definition Qrel (ex : bool) (s : st) (k : conn) : Prop :=
  NoDup (open_ids s (k_cid k)) /\ k_quota k <= k_recv_max k /\
  k_recv_max k <= k_quota k + N.of_nat (length (open_ids s (k_cid k))) /\
  (ex = true -> k_quota k + N.of_nat (length (open_ids s (k_cid k))) = k_recv_max k).

Definition QInv (ex : bool) (s : st) (c : N) : Prop :=
  forall k, nget c (b_conns s) = Some k -> k_phase k = PhConnected -> k_v k = 5 -> Qrel ex s k.

Lemma Qrel_transfer ex s s' k k' :
  k_cid k' = k_cid k -> k_quota k' = k_quota k -> k_recv_max k' = k_recv_max k ->
  open_ids s' (k_cid k) = open_ids s (k_cid k) -> Qrel ex s k -> Qrel ex s' k'.
Proof. unfold Qrel. intros -> -> -> ->. auto. Qed.

Lemma QInv_lframe ex s s' c : lframe s s' -> QInv ex s c -> QInv ex s' c.
Proof.
  intros F H k' Hk' Hp' Hv'. pose proof (lf_lv _ _ F c) as E. rewrite (lv_of _ _ _ Hk') in E.
  symmetry in E. apply lv_some in E as (k & Hk & Ev).
  apply lview_fields in Ev as (E1 & E2 & E3 & _ & E5 & _ & _ & E8).
  apply (Qrel_transfer ex s s' k k'); try congruence.
  - unfold open_ids. now rewrite (lf_u _ _ F).
  - apply H; congruence.
Qed.

Lemma QInv_not_conn ex s c : not_conn s c -> QInv ex s c.
Proof. intros H k Hk Hp. exfalso. exact (H k Hk Hp). Qed.

Definition finish (c : N) (r : hres) : st * list out :=
  match r with
  | HOk s' o => (s', o)
  | HErr s' o code => let '(s'', o') := fail_conn c code false s' in (s'', o ++ o')
  | HErrRead s' code => fail_conn c code true s'
  end.

Lemma step_event_send' s c k p :
  nget c (b_conns s) = Some k -> k_phase k = PhConnected ->
  step_event s (ESend c p) = finish c (handle_packet c k p s).
Proof. apply step_event_send. Qed.

Lemma step_event_send_sz' s c k p n :
  nget c (b_conns s) = Some k -> k_phase k = PhConnected ->
  step_event s (ESendSz c p n) = finish c (handle_packet_sz c k p n s).
Proof. apply step_event_send_sz. Qed.

Lemma finish_err_not_conn c r : (forall s' o, r <> HOk s' o) -> not_conn (fst (finish c r)) c.
Proof.
  destruct r as [s' o|s' o code|s' code]; intros H; cbn [finish].
  - exfalso. now apply (H s' o).
  - pose proof (fail_conn_not_conn c code false s') as N. destruct (fail_conn c code false s'). exact N.
  - apply fail_conn_not_conn.
Qed.

Lemma send_unconnected_not_conn c k p s :
  nget c (b_conns s) = Some k -> k_phase k <> PhConnected -> not_conn (fst (send_unconnected c k p s)) c.
Proof.
  intros Hk Hp.
  assert (N0 : not_conn s c) by (intros k' Hk'; congruence).
  unfold send_unconnected. destruct (k_phase k) eqn:E; cbn [fst]; try exact N0.
  - intros k' Hk'. lproj_in Hk'. rewrite ng_nset_same in Hk'. injection Hk' as <-. discriminate.
  - destruct p; try exact N0. destruct ((k_v k =? 5) && (0 <? qos)); [|exact N0].
    destruct (k_quota k =? 0); [apply conn_gone_not_conn|].
    cbn [fst]. intros k' Hk'. lproj_in Hk'. rewrite ng_nset_same in Hk'. injection Hk' as <-. cbn. rewrite E. discriminate.
  - destruct p; try exact N0. destruct ((k_v k =? 5) && (0 <? qos)); [apply conn_gone_not_conn|exact N0].
Qed.

(* well-formed as the decoder delivers it: QoS 0, 1 or 2 *)
Definition pkt_wf (p : pkt) : bool := match p with KPublish _ qos _ _ _ _ _ => qos <=? 2 | _ => true end.

(* a PUBREL for an id that is open (or one that cannot move the quota: it is at the Receive Maximum) *)
Definition pubrel_known (s : st) (k : conn) (p : pkt) : bool :=
  match p with
  | KPubrel pid _ _ => memN pid (open_ids s (k_cid k)) || (k_quota k =? k_recv_max k)
  | _ => true
  end.

Lemma read_err_none_quota k dup qos retain topic payload pid props :
  read_err k (KPublish dup qos retain topic payload pid props) = None -> k_v k = 5 -> 0 < qos -> 0 < k_quota k.
Proof.
  cbn [read_err]. intros H Hv Hq. rewrite Hv in H. cbn [N.eqb Pos.eqb andb] in H.
  destruct (has_wild topic); [discriminate|]. destruct (alias_zero props); [discriminate|].
  destruct (is_empty topic && negb (has_alias props)); [discriminate|].
  destruct ((0 <? qos) && (k_quota k =? 0)) eqn:E; [discriminate|]. lia.
Qed.

Lemma pub_err_none k retain topic props :
  pub_err k retain topic props = None ->
  negb (k_retain_avail k) && retain = false /\ exists tb t, alias_step k topic props = inl (tb, t).
Proof.
  unfold pub_err. destruct (negb (k_retain_avail k) && retain); [discriminate|].
  destruct (alias_step k topic props) as [[tb t]|cd]; [|discriminate]. intros _. split; [reflexivity|]. now exists tb, t.
Qed.

Lemma charge_quota_v5 k dup qos retain topic payload pid props :
  k_v k = 5 ->
  k_quota (charge k (KPublish dup qos retain topic payload pid props)) = if 0 <? qos then k_quota k - 1 else k_quota k.
Proof. intros Hv. cbn [charge]. rewrite Hv. cbn [N.eqb Pos.eqb andb]. destruct (0 <? qos); reflexivity. Qed.

(* one packet of the client on its connected socket preserves the relation (as long as the connection lives) *)
Lemma QInv_send ex s c p :
  pkt_wf p = true ->
  (ex = true -> forall k, nget c (b_conns s) = Some k -> pubrel_known s k p = true) ->
  QInv ex s c -> QInv ex (fst (step_event s (ESend c p))) c.
Proof.
  intros Hwf Hpr HQ.
  destruct (nget c (b_conns s)) as [k|] eqn:Hk; [|cbn [step_event]; rewrite Hk; exact HQ].
  assert (Hph : k_phase k = PhConnected \/ k_phase k <> PhConnected) by (destruct (k_phase k); auto; right; discriminate).
  destruct Hph as [Hp|Hp].
  2:{ apply QInv_not_conn. cbn [step_event]. rewrite Hk.
      destruct (k_phase k) eqn:E; try congruence; rewrite <- E in Hp; apply (send_unconnected_not_conn c k p s Hk Hp). }
  destruct (read_err k p) as [code|] eqn:Hr.
  { rewrite (step_event_send' s c k p Hk Hp), (handle_packet_read_err c k p s code Hr).
    apply QInv_not_conn, finish_err_not_conn. discriminate. }
  destruct (is_publish p) eqn:Ip.
  - (* PUBLISH *)
    destruct p; try discriminate. cbn [pkt_wf] in Hwf.
    destruct (pub_err k retain topic props) as [code|] eqn:He.
    { rewrite (step_event_send' s c k _ Hk Hp), (handle_packet_pub_err c k dup qos retain topic payload pid props s code Hr He).
      apply QInv_not_conn, finish_err_not_conn. discriminate. }
    apply pub_err_none in He as (Hra & tb & t & Ha).
    destruct (publish_accepted s c k dup qos retain topic payload pid props tb t Hk Hp Hr Hra Ha)
      as (s' & o & code & E & _ & _ & _ & _ & Hcode & Hlv & HU & _).
    cbv zeta in Hcode, Hlv, HU. rewrite E. cbn [fst].
    intros k' Hk' Hp' Hv'. rewrite (lv_of _ _ _ Hk') in Hlv. apply some_inj in Hlv.
    pose proof (f_equal vcid Hlv) as E1. pose proof (f_equal vver Hlv) as E2.
    pose proof (f_equal vrm Hlv) as E5. pose proof (f_equal vquota Hlv) as E8.
    cbn [vcid vver vrm vquota lview] in E1, E2, E5, E8. clear Hlv.
    assert (Hv : k_v k = 5) by congruence.
    destruct (HQ k Hk Hp Hv) as (Q1 & Q2 & Q3 & Q4).
    rewrite Hv in E8, HU. cbn [N.eqb Pos.eqb] in E8, HU. rewrite (charge_quota_v5 k _ _ _ _ _ _ _ Hv) in E8, HU.
    pose proof (pub_quota_conserves (k_recv_max k) (k_quota k) (open_ids s (k_cid k)) qos pid code
                  ltac:(lia) (read_err_none_quota k _ _ _ _ _ _ _ Hr Hv) Q2 Q1 Hcode) as (P1 & P2 & P3).
    cbv zeta in P1, P2, P3. rewrite <- E8, <- HU in *.
    unfold Qrel. rewrite E1, E5. repeat split; auto; try lia; intros Hex; specialize (Q4 Hex); lia.
  - destruct (is_pubrel p) eqn:Ir.
    + (* PUBREL *)
      destruct p; try discriminate.
      destruct (handle_pubrel_spec c k pid code props s Hk) as (s' & E & _ & _ & _ & Hlv & HU & _).
      cbv zeta in Hlv, HU.
      rewrite (step_event_send' s c k _ Hk Hp), E. cbn [finish fst].
      intros k' Hk' Hp' Hv'. rewrite (lv_of _ _ _ Hk') in Hlv. apply some_inj in Hlv.
      apply lview_fields in Hlv as (E1 & E2 & _ & _ & E5 & _ & _ & E8). cbn in E1, E2, E5, E8.
      assert (Hv : k_v k = 5) by congruence.
      destruct (HQ k Hk Hp Hv) as (Q1 & Q2 & Q3 & Q4).
      rewrite Hv in E8. cbn [N.eqb Pos.eqb andb] in E8.
      unfold Qrel. rewrite E1, E5, E8, HU. unfold unack_remove.
      split; [now apply NoDup_delN|].
      destruct (memN pid (open_ids s (k_cid k))) eqn:Em.
      * apply memN_In in Em. pose proof (length_delN pid _ Q1 Em) as HL.
        destruct (k_quota k <? k_recv_max k) eqn:El; repeat split; try lia; intros Hex; specialize (Q4 Hex); lia.
      * pose proof Em as Em'. apply memN_notIn in Em. rewrite (delN_notIn _ _ Em).
        destruct (k_quota k <? k_recv_max k) eqn:El; repeat split; try lia; intros Hex; specialize (Q4 Hex);
          specialize (Hpr Hex k eq_refl); cbn [pubrel_known] in Hpr; rewrite Em' in Hpr; cbn [Datatypes.orb] in Hpr; lia.
    + (* the others *)
      pose proof (handle_packet_other_lframe c k p s Hk Ip Ir) as [F _].
      rewrite (step_event_send' s c k p Hk Hp).
      destruct (handle_packet c k p s) as [s' o|s' o code|s' code] eqn:E.
      * cbn [finish fst hres_st] in *. now apply (QInv_lframe ex s).
      * apply QInv_not_conn, finish_err_not_conn. discriminate.
      * apply QInv_not_conn, finish_err_not_conn. discriminate.
Qed.

Lemma QInv_send_sz ex s c p n :
  pkt_wf p = true ->
  (ex = true -> forall k, nget c (b_conns s) = Some k -> pubrel_known s k p = true) ->
  QInv ex s c -> QInv ex (fst (step_event s (ESendSz c p n))) c.
Proof.
  intros Hwf Hpr HQ. destruct (step_event_sz s c p n) as [E|(k & Hk & Hp & Hb & [[code E]|[E|[q E]]])]; rewrite E.
  - now apply QInv_send.
  - apply QInv_not_conn, fail_conn_not_conn.
  - apply QInv_not_conn, fail_conn_not_conn.
  - apply QInv_not_conn, fail_conn_not_conn.
Qed.

(* events of one socket (and the passage of time) *)
Definition on_socket (c : N) (e : event) : bool :=
  match e with
  | ESend c' _ => c' =? c
  | ESendSz c' _ _ => c' =? c
  | EAdvance _ => true
  | EInspect => true
  | _ => false
  end.
Definition ev_pkt (e : event) : option pkt :=
  match e with ESend _ p => Some p | ESendSz _ p _ => Some p | _ => None end.
Definition ev_wf (e : event) : bool := match ev_pkt e with Some p => pkt_wf p | None => true end.
Definition ev_pubrel_known (s : st) (c : N) (e : event) : bool :=
  match ev_pkt e, nget c (b_conns s) with Some p, Some k => pubrel_known s k p | _, _ => true end.

Lemma QInv_step ex s c e :
  on_socket c e = true -> ev_wf e = true -> (ex = true -> ev_pubrel_known s c e = true) ->
  QInv ex s c -> QInv ex (fst (step s e)) c.
Proof.
  intros Hon Hwf Hpr HQ. destruct (step_poll s e) as (o2 & _ & F & _).
  apply (QInv_lframe ex _ _ c F).
  destruct e; try discriminate; cbn [on_socket] in Hon.
  - apply N.eqb_eq in Hon. subst c0. apply QInv_send; [exact Hwf| |exact HQ].
    intros Hex k Hk. specialize (Hpr Hex). unfold ev_pubrel_known in Hpr. cbn [ev_pkt] in Hpr. now rewrite Hk in Hpr.
  - apply N.eqb_eq in Hon. subst c0. apply QInv_send_sz; [exact Hwf| |exact HQ].
    intros Hex k Hk. specialize (Hpr Hex). unfold ev_pubrel_known in Hpr. cbn [ev_pkt] in Hpr. now rewrite Hk in Hpr.
  - cbn [step_event fst]. apply (QInv_lframe ex s); [apply lframe_set_time|exact HQ].
  - exact HQ.
Qed.

(* a side condition evaluated along the run, at the state in which each event arrives *)
Fixpoint run_ok (P : st -> event -> bool) (s : st) (es : list event) : bool :=
  match es with [] => true | e :: r => P s e && run_ok P (fst (step s e)) r end.

Lemma run_cons s e r : fst (run s (e :: r)) = fst (run (fst (step s e)) r).
Proof. cbn [run]. destruct (step s e) as [s' o]. cbn [fst]. destruct (run s' r). reflexivity. Qed.

Definition quota_side (ex : bool) (c : N) (s : st) (e : event) : bool :=
  on_socket c e && ev_wf e && (negb ex || ev_pubrel_known s c e).

Theorem quota_invariant_run ex c es : forall s,
  QInv ex s c -> run_ok (quota_side ex c) s es = true -> QInv ex (fst (run s es)) c.
Proof.
  induction es as [|e r IH]; intros s HQ Hok; [exact HQ|].
  cbn [run_ok] in Hok. apply andb_true_iff in Hok as [H1 H2]. unfold quota_side in H1.
  apply andb_true_iff in H1 as [H1 H3]. apply andb_true_iff in H1 as [H0 H1].
  rewrite run_cons. apply IH; [|exact H2]. apply QInv_step; auto.
  intros ->. exact H3.
Qed.

(* ================================================================== *)
(* 11. which DISCONNECT codes a packet can cause                       *)
(* ================================================================== *)

Lemma alias_step_err k topic props code : alias_step k topic props = inr code -> code = 148.
Proof.
  unfold alias_step. destruct (if k_v k =? 5 then p_alias props else None) as [a|]; [|discriminate].
  destruct ((a =? 0) || (k_server_alias_max k <? a)); [now intros [= <-]|].
  destruct topic; [|discriminate]. destruct (nget a (k_alias_in k)) as [[|y nm]|]; try discriminate; now intros [= <-].
Qed.

Lemma pub_err_codes k retain topic props code : pub_err k retain topic props = Some code -> code = 154 \/ code = 148.
Proof.
  unfold pub_err. destruct (negb (k_retain_avail k) && retain); [intros [= <-]; now left|].
  destruct (alias_step k topic props) as [[tb t]|cd] eqn:E; [discriminate|]. intros [= <-]. right. eapply alias_step_err; eauto.
Qed.

Lemma read_err_codes k p code : read_err k p = Some code -> In code [129; 148; 130; 147].
Proof.
  destruct p; cbn [read_err]; try discriminate.
  - destruct (has_wild topic); [intros [= <-]; cbn; auto|].
    destruct ((k_v k =? 5) && alias_zero props); [intros [= <-]; cbn; auto|].
    destruct (is_empty topic && negb ((k_v k =? 5) && has_alias props)); [intros [= <-]; cbn; auto|].
    destruct ((k_v k =? 5) && (0 <? qos) && (k_quota k =? 0)); [intros [= <-]; cbn; auto|discriminate].
  - destruct (filters_ok topics); [discriminate|intros [= <-]; cbn; auto].
Qed.

(* 0x93 comes from the receive quota only: a QoS>0 PUBLISH of a v5 client arriving at quota 0 *)
Lemma read_err_147 k p :
  read_err k p = Some 147 ->
  exists dup qos retain topic payload pid props,
    p = KPublish dup qos retain topic payload pid props /\ k_v k = 5 /\ 0 < qos /\ k_quota k = 0.
Proof.
  destruct p; cbn [read_err]; try discriminate.
  - destruct (has_wild topic); [discriminate|].
    destruct ((k_v k =? 5) && alias_zero props); [discriminate|].
    destruct (is_empty topic && negb ((k_v k =? 5) && has_alias props)); [discriminate|].
    destruct ((k_v k =? 5) && (0 <? qos) && (k_quota k =? 0)) eqn:E; [|discriminate]. intros _.
    exists dup, qos, retain, topic, payload, pid, props. split; [reflexivity|]. lia.
  - destruct (filters_ok topics); discriminate.
Qed.

Lemma handle_subscribe_res c k pid props topics s :
  match handle_subscribe c k pid props topics s with
  | HOk _ _ => True
  | HErr _ o code => o = [] /\ code = Some 161
  | HErrRead _ _ => False
  end.
Proof.
  unfold handle_subscribe. cbv zeta.
  match goal with |- context [if ?b then HErr s [] (Some 161) else _] => destruct b end; [auto|].
  destruct (h_sub_all (b_hooks s)); [exact I|].
  match goal with |- context [fold_left ?f topics ?a] => destruct (fold_left f topics a) as [[s' o] codes] end. exact I.
Qed.

(* the three kinds of result of the packet handler *)
Lemma handle_packet_classes c k p s :
  nget c (b_conns s) = Some k ->
  match handle_packet c k p s with
  | HOk _ o => Forall benign o
  | HErr _ o code => o = [] /\ read_err k p = None /\ In code [Some 154; Some 148; Some 161; Some 130; None]
  | HErrRead s' code => s' = s /\ read_err k p = code /\ code <> None
  end.
Proof.
  intros Hk. destruct (read_err k p) as [code|] eqn:Hr.
  { rewrite (handle_packet_read_err c k p s code Hr). repeat split; auto. discriminate. }
  destruct (is_publish p) eqn:Ip.
  - destruct p; try discriminate.
    destruct (pub_err k retain topic props) as [code|] eqn:He.
    + rewrite (handle_packet_pub_err c k dup qos retain topic payload pid props s code Hr He).
      split; [reflexivity|]. split; [reflexivity|]. apply pub_err_codes in He as [-> | ->]; cbn; auto.
    + apply pub_err_none in He as (Hra & tb & t & Ha).
      rewrite (handle_packet_pub_ok c k dup qos retain topic payload pid props s tb t Hr Hra Ha).
      set (p := KPublish dup qos retain topic payload pid props).
      set (k' := set_alias_in tb (charge k p)).
      assert (Hk' : nget c (b_conns (upd_conn c k' s)) = Some k') by (lproj; apply ng_nset_same).
      assert (Ev : k_v k' = k_v k) by exact (charge_v k p). rewrite <- Ev.
      destruct (publish_body_spec c k' (with_topic t (msg_of_publish (k_v k' =? 5) dup qos retain topic payload pid props)) qos pid
                  (upd_conn c k' s) Hk') as (s' & o & code & E & Hd & _).
      rewrite E. apply Forall_app. split; [now apply isdrop_benign|apply ack_of_benign].
  - destruct (is_pubrel p) eqn:Ir.
    + destruct p; try discriminate.
      destruct (handle_pubrel_spec c k pid code props s Hk) as (s' & E & _). rewrite E. repeat constructor.
    + pose proof (handle_packet_other_lframe c k p s Hk Ip Ir) as [_ B].
      destruct p; try discriminate; cbn [handle_packet] in *; cbn [hres_out] in B; try exact B;
        try (split; [reflexivity|]; split; [reflexivity|]; cbn; auto 6).
      * destruct ((k_v k =? 5) && (128 <=? code)); exact B.
      * cbn [read_err] in Hr. unfold filters_ok in Hr.
        destruct (forallb _ topics); [|discriminate].
        pose proof (handle_subscribe_res c k pid props topics s) as R.
        destruct (handle_subscribe c k pid props topics s) as [s' o|s' o code|s' code]; cbn [hres_out] in B.
        -- exact B.
        -- destruct R as [-> ->]. split; [reflexivity|]. split; [reflexivity|]. cbn; auto.
        -- destruct R.
      * destruct (k_v k =? 5).
        -- cbv zeta. destruct (aget (k_cid k) (b_sessions s)); [|split; [reflexivity|]; split; [reflexivity|]; cbn; auto 6].
           match goal with |- context [if ?b then HErr s [] None else _] => destruct b end;
             (split; [reflexivity|]; split; [reflexivity|]; cbn; auto 6).
        -- split; [reflexivity|]. split; [reflexivity|]. cbn; auto 6.
Qed.

Lemma finish_snd_err c s' o code : snd (finish c (HErr s' o code)) = o ++ snd (fail_conn c code false s').
Proof. cbn [finish]. destruct (fail_conn c code false s'). reflexivity. Qed.

Lemma failout_disc c code x c' cd pr :
  failout c code x -> x = OSend c' (KDisconnect cd pr) -> c' = c /\ pr = [] /\ code = Some cd.
Proof.
  intros [(cd0 & -> & ->)|[->|H]] E.
  - injection E as <- <- <-. auto.
  - discriminate.
  - subst x. destruct H.
Qed.

(* every DISCONNECT the broker writes in the step of a packet on a connected socket goes to that socket, without
   properties; its code is the read loop's (129, 148, 130, 147 - in that order of checks) or one of the
   handler's (154 retain, 148 alias, 161 subscription identifier, 130 protocol error) *)
Theorem send_disconnect_codes s c k p c' code pr :
  nget c (b_conns s) = Some k -> k_phase k = PhConnected ->
  In (OSend c' (KDisconnect code pr)) (snd (step s (ESend c p))) ->
  c' = c /\ pr = [] /\ (read_err k p = Some code \/ (read_err k p = None /\ In code [154; 148; 161; 130])).
Proof.
  intros Hk Hp Hin. destruct (step_poll s (ESend c p)) as (o2 & Eo & _ & P). rewrite Eo in Hin.
  apply in_app_or in Hin as [Hin|Hin].
  2:{ apply pollout_benign in P. rewrite Forall_forall in P. destruct (P _ Hin). }
  rewrite (step_event_send' s c k p Hk Hp) in Hin.
  pose proof (handle_packet_classes c k p s Hk) as C.
  destruct (handle_packet c k p s) as [s' o|s' o code0|s' code0].
  - cbn [finish snd] in Hin. rewrite Forall_forall in C. destruct (C _ Hin).
  - destruct C as (-> & Hr & Hc). rewrite finish_snd_err in Hin. cbn [app] in Hin.
    pose proof (fail_conn_outputs c code0 false s') as FO. rewrite Forall_forall in FO.
    destruct (failout_disc _ _ _ _ _ _ (FO _ Hin) eq_refl) as (-> & -> & ->).
    split; [reflexivity|]. split; [reflexivity|]. right. split; [exact Hr|].
    cbn [In] in Hc. cbn [In].
    destruct Hc as [H|[H|[H|[H|[H|[]]]]]]; try (injection H as <-; auto); discriminate.
  - destruct C as (-> & Hr & Hc). cbn [finish] in Hin.
    pose proof (fail_conn_outputs c code0 true s) as FO. rewrite Forall_forall in FO.
    destruct (failout_disc _ _ _ _ _ _ (FO _ Hin) eq_refl) as (-> & -> & ->).
    split; [reflexivity|]. split; [reflexivity|]. now left.
Qed.

(* ================================================================== *)
(* 12. C13 inbound: topic alias, receive quota, packet size            *)
(* ================================================================== *)

(* ---- a failing packet on a connected v5 socket ---- *)
(* the verdict on a packet: the reason code of the DISCONNECT it causes, and whether the state the teardown starts
   from has the quota charge (handler errors) or not (read-loop errors) *)
Definition verdict (k : conn) (p : pkt) : option (N * bool) :=
  match read_err k p with
  | Some code => Some (code, false)
  | None =>
      match p with
      | KPublish _ _ retain topic _ _ props =>
          match pub_err k retain topic props with Some code => Some (code, true) | None => None end
      | _ => None
      end
  end.

Definition charged (c : N) (k : conn) (p : pkt) (b : bool) (s : st) : st :=
  if b then upd_conn c (charge k p) s else s.

Lemma charged_tables c k p b s :
  b_queues (charged c k p b s) = b_queues s /\ b_ret (charged c k p b s) = b_ret s /\
  b_subs (charged c k p b s) = b_subs s /\ b_unacks (charged c k p b s) = b_unacks s /\
  b_sessions (charged c k p b s) = b_sessions s /\ b_cfg (charged c k p b s) = b_cfg s.
Proof. unfold charged. destruct b; lproj; auto 10. Qed.

Theorem verdict_teardown s c k p code b :
  nget c (b_conns s) = Some k -> k_phase k = PhConnected -> k_v k = 5 ->
  verdict k p = Some (code, b) ->
  step_event s (ESend c p) = torn c code (charged c k p b s) /\
  filter (to_sock c) (snd (step s (ESend c p))) = [OSend c (KDisconnect code []); OClose c] /\
  (exists k', nget c (b_conns (fst (step s (ESend c p)))) = Some k' /\ k_phase k' = PhClosed) /\
  b_unacks (fst (step s (ESend c p))) = b_unacks s.
Proof.
  intros Hk Hp Hv Hver. unfold verdict in Hver.
  assert (E : step_event s (ESend c p) = torn c code (charged c k p b s) /\
              exists k1, nget c (b_conns (charged c k p b s)) = Some k1 /\ attached (k_phase k1) = true).
  { destruct (read_err k p) as [cd|] eqn:Hr.
    - injection Hver as <- <-. cbn [charged]. split; [now apply (step_read_err s c k p cd)|].
      exists k. split; [exact Hk|]. now rewrite Hp.
    - destruct p; try discriminate.
      destruct (pub_err k retain topic props) as [cd|] eqn:He; [|discriminate]. injection Hver as <- <-.
      cbn [charged]. split; [now apply (step_pub_err s c k)|].
      eexists. split; [lproj; apply ng_nset_same|]. now rewrite charge_phase, Hp. }
  destruct E as (E & k1 & Hk1 & Ha). split; [exact E|].
  destruct (torn_step s (ESend c p) c code _ k1 E Hk1 Ha) as (T1 & _ & T3 & T4 & _).
  split; [exact T1|]. split; [exact T3|]. rewrite T4. apply charged_tables.
Qed.

(* ---- topic alias ---- *)
Theorem alias_out_of_range_verdict k dup qos retain topic payload pid props a :
  let p := KPublish dup qos retain topic payload pid props in
  k_v k = 5 -> p_alias props = Some a -> has_wild topic = false ->
  (a = 0 -> verdict k p = Some (148, false)) /\
  (k_server_alias_max k < a -> (0 <? qos) && (k_quota k =? 0) = false -> negb (k_retain_avail k) && retain = false ->
   verdict k p = Some (148, true)) /\
  (1 <= a <= k_server_alias_max k -> topic = [] ->
   (nget a (k_alias_in k) = None \/ nget a (k_alias_in k) = Some []) ->
   (0 <? qos) && (k_quota k =? 0) = false -> negb (k_retain_avail k) && retain = false ->
   verdict k p = Some (148, true)).
Proof.
  intros p Hv Hal Hw. unfold verdict, p. cbn [read_err]. unfold alias_zero, has_alias, pub_err, alias_step.
  rewrite Hv, Hw, Hal. cbn [N.eqb Pos.eqb andb negb]. rewrite andb_false_r.
  split; [|split].
  - intros ->. reflexivity.
  - intros Ha Hq Hra. destruct (N.eqb_spec a 0) as [->|Hn]; [lia|]. rewrite Hq, Hra.
    assert (E : (k_server_alias_max k <? a) = true) by lia. rewrite E. reflexivity.
  - intros Ha -> Hn Hq Hra. destruct (N.eqb_spec a 0) as [->|Hn0]; [lia|]. rewrite Hq, Hra.
    assert (E : (k_server_alias_max k <? a) = false) by lia. rewrite E. cbn [Datatypes.orb].
    destruct Hn as [-> | ->]; reflexivity.
Qed.

(* the alias stage of an acceptable alias: the table afterwards and the topic the publish proceeds with *)
Theorem alias_in_range_step k topic props a :
  k_v k = 5 -> p_alias props = Some a -> 1 <= a <= k_server_alias_max k ->
  (topic <> [] ->
   alias_step k topic props = inl (nset a topic (k_alias_in k), topic) /\
   nget a (nset a topic (k_alias_in k)) = Some topic /\
   forall a', a' <> a -> nget a' (nset a topic (k_alias_in k)) = nget a' (k_alias_in k)) /\
  (forall x nm, topic = [] -> nget a (k_alias_in k) = Some (x :: nm) ->
   alias_step k topic props = inl (k_alias_in k, x :: nm)).
Proof.
  intros Hv Hal Ha. unfold alias_step. rewrite Hv, Hal. cbn [N.eqb Pos.eqb].
  assert (E : (a =? 0) || (k_server_alias_max k <? a) = false) by lia. rewrite E. split.
  - intros Hne. destruct topic as [|x t]; [congruence|]. split; [reflexivity|]. split; [apply ng_nset_same|].
    intros a' Hn. now apply ng_nset_other.
  - intros x nm -> Hb. now rewrite Hb.
Qed.

Theorem alias_accepted s c k dup qos retain topic payload pid props tb t :
  let p := KPublish dup qos retain topic payload pid props in
  nget c (b_conns s) = Some k -> k_phase k = PhConnected ->
  read_err k p = None -> negb (k_retain_avail k) && retain = false -> alias_step k topic props = inl (tb, t) ->
  (* the publish proceeds with topic t ... *)
  handle_packet c k p s =
    publish_body c (set_alias_in tb (charge k p)) (k_v k =? 5)
                 (with_topic t (msg_of_publish (k_v k =? 5) dup qos retain topic payload pid props)) qos pid
                 (upd_conn c (set_alias_in tb (charge k p)) s) /\
  m_topic (with_topic t (msg_of_publish (k_v k =? 5) dup qos retain topic payload pid props)) = t /\
  (* ... it is acknowledged, the connection stays up and its alias table is tb *)
  exists s' o code k',
    step_event s (ESend c p) = (s', o ++ ack_of c qos pid code) /\ Forall isdrop o /\
    nget c (b_conns s') = Some k' /\ k_phase k' = PhConnected /\ k_alias_in k' = tb /\
    k_server_alias_max k' = k_server_alias_max k /\ k_v k' = k_v k /\ k_cid k' = k_cid k.
Proof.
  intros p Hk Hp Hr Hra Ha. split; [now apply handle_packet_pub_ok|]. split; [reflexivity|].
  destruct (publish_accepted s c k dup qos retain topic payload pid props tb t Hk Hp Hr Hra Ha)
    as (s' & o & code & E & Hd & _ & _ & _ & _ & Hlv & _).
  cbv zeta in Hlv. pose proof Hlv as Hlv'. apply lv_some in Hlv' as (k' & Hk' & Ev). rewrite <- Ev in Hlv. clear Hlv.
  exists s', o, code, k'. split; [exact E|]. split; [exact Hd|]. split; [exact Hk'|].
  pose proof (f_equal vphase Ev) as E3. pose proof (f_equal vtab Ev) as E7. pose proof (f_equal vsam Ev) as E4.
  pose proof (f_equal vver Ev) as E2. pose proof (f_equal vcid Ev) as E1.
  cbn [vphase vtab vsam vver vcid lview] in *. auto.
Qed.

(* ---- receive quota ---- *)
Definition decodes (k : conn) (topic : str) (props : list prop) : bool :=
  negb (has_wild topic) && negb ((k_v k =? 5) && alias_zero props) &&
  negb (is_empty topic && negb ((k_v k =? 5) && has_alias props)).

Theorem exceeding_recv_max_0x93 s c k dup qos retain topic payload pid props :
  let p := KPublish dup qos retain topic payload pid props in
  nget c (b_conns s) = Some k -> k_phase k = PhConnected -> k_v k = 5 ->
  decodes k topic props = true -> 0 < qos -> k_quota k = 0 ->
  verdict k p = Some (147, false).
Proof.
  intros p Hk Hp Hv Hd Hq H0. unfold verdict, p. cbn [read_err]. unfold decodes in Hd.
  apply andb_true_iff in Hd as [Hd H3]. apply andb_true_iff in Hd as [H1 H2].
  apply negb_true_iff in H1, H2, H3. rewrite H1, H2, H3, Hv, H0. cbn [N.eqb Pos.eqb andb].
  assert (E : (0 <? qos) = true) by lia. now rewrite E.
Qed.

(* the client's side of the bargain for one packet: a QoS>0 PUBLISH arrives while fewer than Receive Maximum
   QoS 2 publishes are open *)
Definition within_recv_max (s : st) (k : conn) (p : pkt) : bool :=
  match p with
  | KPublish _ qos _ _ _ _ _ => (qos =? 0) || (N.of_nat (length (open_ids s (k_cid k))) <? k_recv_max k)
  | _ => true
  end.

Theorem within_recv_max_never_0x93 s c k p c' pr :
  nget c (b_conns s) = Some k -> k_phase k = PhConnected -> (k_v k = 5 -> Qrel false s k) ->
  within_recv_max s k p = true ->
  ~ In (OSend c' (KDisconnect 147 pr)) (snd (step s (ESend c p))).
Proof.
  intros Hk Hp HQ Hw Hin.
  destruct (send_disconnect_codes s c k p c' 147 pr Hk Hp Hin) as (_ & _ & [Hr|[_ Hc]]).
  - apply read_err_147 in Hr as (dup & qos & retain & topic & payload & pid & props & -> & Hv & Hq & H0).
    destruct (HQ Hv) as (_ & _ & Q3 & _). cbn [within_recv_max] in Hw. lia.
  - cbn [In] in Hc. lia.
Qed.

(* with the exact relation, exceeding is detected: all Receive Maximum units are open, so the quota is 0 *)
Lemma exact_full_quota_zero s k :
  Qrel true s k -> N.of_nat (length (open_ids s (k_cid k))) = k_recv_max k -> k_quota k = 0.
Proof. intros (_ & _ & _ & Q4) H. specialize (Q4 eq_refl). lia. Qed.

(* ---- Maximum Packet Size of the server ---- *)
Lemma too_big_false_iff k n s :
  too_big k n s = false <-> (k_v k <> 5 \/ c_max_packet (b_cfg s) = 0 \/ n <= c_max_packet (b_cfg s)).
Proof. unfold too_big. split; intros H; lia. Qed.

Theorem packet_size_small s c p n :
  (forall k, nget c (b_conns s) = Some k -> k_phase k = PhConnected ->
             k_v k <> 5 \/ c_max_packet (b_cfg s) = 0 \/ n <= c_max_packet (b_cfg s)) ->
  step_event s (ESendSz c p n) = step_event s (ESend c p) /\ step s (ESendSz c p n) = step s (ESend c p).
Proof. intros H. apply step_sz_small. intros k Hk Hp. apply too_big_false_iff. now apply H. Qed.

(* the reason code of a too big packet: the read loop's own errors come first *)
Definition sz_code (k : conn) (p : pkt) : N := match read_err k p with Some code => code | None => 149 end.
Definition sz_charged (k : conn) (p : pkt) : bool := match read_err k p with Some _ => false | None => true end.

Theorem packet_size_big s c k p n :
  nget c (b_conns s) = Some k -> k_phase k = PhConnected -> k_v k = 5 ->
  0 < c_max_packet (b_cfg s) < n ->
  step_event s (ESendSz c p n) = torn c (sz_code k p) (charged c k p (sz_charged k p) s) /\
  In (sz_code k p) [129; 148; 130; 147; 149] /\
  filter (to_sock c) (snd (step s (ESendSz c p n))) = [OSend c (KDisconnect (sz_code k p) []); OClose c] /\
  (exists k', nget c (b_conns (fst (step s (ESendSz c p n)))) = Some k' /\ k_phase k' = PhClosed) /\
  b_unacks (fst (step s (ESendSz c p n))) = b_unacks s.
Proof.
  intros Hk Hp Hv Hn.
  assert (Hb : too_big k n s = true) by (unfold too_big; lia).
  assert (E : step_event s (ESendSz c p n) = torn c (sz_code k p) (charged c k p (sz_charged k p) s) /\
              exists k1, nget c (b_conns (charged c k p (sz_charged k p) s)) = Some k1 /\ attached (k_phase k1) = true).
  { rewrite (step_event_send_sz' s c k p n Hk Hp), (handle_packet_sz_big_eq c k p n s Hk Hb).
    unfold sz_code, sz_charged. destruct (read_err k p) as [cd|]; cbn [finish charged].
    - split; [now apply (fail_conn_v5 c k)|]. exists k. split; [exact Hk|]. now rewrite Hp.
    - cbn [app]. rewrite (fail_conn_v5 c (charge k p) 149 false); [|lproj; apply ng_nset_same|now rewrite charge_phase|now rewrite charge_v].
      split; [now destruct (torn c 149 _)|]. eexists. split; [lproj; apply ng_nset_same|]. now rewrite charge_phase, Hp. }
  destruct E as (E & k1 & Hk1 & Ha). split; [exact E|]. split.
  { unfold sz_code. destruct (read_err k p) as [cd|] eqn:Hr; [|cbn; auto 6].
    apply read_err_codes in Hr. cbn [In] in *. intuition. }
  destruct (torn_step s (ESendSz c p n) c _ _ k1 E Hk1 Ha) as (T1 & _ & T3 & T4 & _).
  split; [exact T1|]. split; [exact T3|]. rewrite T4. apply charged_tables.
Qed.

(* ---- a well-formed PUBLISH is never answered by a DISCONNECT ---- *)
Definition wf_publish (k : conn) (qos : N) (retain : bool) (topic : str) (props : list prop) : bool :=
  negb (has_wild topic) && negb (negb (k_retain_avail k) && retain) &&
  (if k_v k =? 5 then
     match p_alias props with
     | None => negb (is_empty topic)
     | Some a => negb (a =? 0) && (a <=? k_server_alias_max k) &&
                 (negb (is_empty topic) || match nget a (k_alias_in k) with Some (_ :: _) => true | _ => false end)
     end && negb ((0 <? qos) && (k_quota k =? 0))
   else negb (is_empty topic)).

Lemma wf_publish_ok k dup qos retain topic payload pid props :
  wf_publish k qos retain topic props = true ->
  read_err k (KPublish dup qos retain topic payload pid props) = None /\
  negb (k_retain_avail k) && retain = false /\ exists tb t, alias_step k topic props = inl (tb, t).
Proof.
  unfold wf_publish. intros H. apply andb_true_iff in H as [H H3]. apply andb_true_iff in H as [H1 H2].
  apply negb_true_iff in H1, H2. cbn [read_err]. unfold alias_zero, has_alias, alias_step. rewrite H1, H2.
  destruct (k_v k =? 5); cbn [andb negb].
  - apply andb_true_iff in H3 as [H3 H4]. apply negb_true_iff in H4. rewrite H4.
    destruct (p_alias props) as [a|].
    + apply andb_true_iff in H3 as [H3 H6]. apply andb_true_iff in H3 as [H3 H5]. apply negb_true_iff in H3.
      rewrite H3, andb_false_r. split; [reflexivity|]. split; [reflexivity|].
      assert (E : (k_server_alias_max k <? a) = false) by lia. rewrite E. cbn [Datatypes.orb].
      destruct topic as [|x t]; cbn [is_empty negb Datatypes.orb] in H6.
      * destruct (nget a (k_alias_in k)) as [[|y nm]|]; try discriminate. eauto.
      * eauto.
    + apply negb_true_iff in H3. rewrite H3. cbn [andb]. eauto.
  - apply negb_true_iff in H3. rewrite H3. cbn [andb]. eauto.
Qed.

Theorem wf_publish_no_disconnect s c k dup qos retain topic payload pid props :
  let p := KPublish dup qos retain topic payload pid props in
  nget c (b_conns s) = Some k -> k_phase k = PhConnected ->
  wf_publish k qos retain topic props = true ->
  (exists s' o code, handle_packet c k p s = HOk s' (o ++ ack_of c qos pid code) /\ Forall isdrop o) /\
  Forall benign (snd (step s (ESend c p))) /\
  exists k', nget c (b_conns (fst (step s (ESend c p)))) = Some k' /\ k_phase k' = PhConnected.
Proof.
  intros p Hk Hp Hwf. subst p. set (p := KPublish dup qos retain topic payload pid props).
  destruct (wf_publish_ok k dup qos retain topic payload pid props Hwf) as (Hr & Hra & tb & t & Ha). fold p in Hr.
  destruct (publish_accepted s c k dup qos retain topic payload pid props tb t Hk Hp Hr Hra Ha)
    as (s' & o & code & E & Hd & _ & _ & _ & _ & Hlv & _).
  cbv zeta in Hlv. fold p in E, Hlv. split.
  { pose proof (step_event_send' s c k p Hk Hp) as E2. rewrite E in E2.
    destruct (handle_packet c k p s) as [s2 o2|s2 o2 c2|s2 c2] eqn:Eh.
    - cbn [finish] in E2. injection E2 as <- <-. now exists s', o, code.
    - exfalso. pose proof (finish_err_not_conn c (HErr s2 o2 c2) ltac:(discriminate)) as N. rewrite <- E2 in N. cbn [fst] in N.
      apply lv_some in Hlv as (k' & Hk' & Ev). apply (N k' Hk'). now rewrite <- (vphase_lview k'), Ev.
    - exfalso. pose proof (finish_err_not_conn c (HErrRead s2 c2) ltac:(discriminate)) as N. rewrite <- E2 in N. cbn [fst] in N.
      apply lv_some in Hlv as (k' & Hk' & Ev). apply (N k' Hk'). now rewrite <- (vphase_lview k'), Ev. }
  destruct (step_poll s (ESend c p)) as (o2 & Eo & F & P). rewrite E in *. cbn [fst snd] in *. split.
  - rewrite Eo. apply Forall_app. split; [apply Forall_app; split|].
    + now apply isdrop_benign.
    + apply ack_of_benign.
    + apply (pollout_benign _ _ P).
  - pose proof (lf_lv _ _ F c) as E2. rewrite Hlv in E2. apply lv_some in E2 as (k' & Hk' & Ev).
    exists k'. split; [exact Hk'|]. now rewrite <- (vphase_lview k'), Ev.
Qed.

(* ================================================================== *)
(* 13. CONNECT: what CONNACK advertises, how the record starts         *)
(* ================================================================== *)

Definition hc_code (cn : connect) (s : st) : N :=
  if ((cn_ver cn =? 5) && match p_authmethod (cn_props cn) with Some _ => true | None => false end)
  then 128 else auth_code cn s.
Definition hc_cid (cn : connect) (s : st) : str :=
  if is_empty (cn_cid cn) then AUTO_PREFIX ++ dec_str (b_auto s + 1) else cn_cid cn.
Definition hc_auto (cn : connect) (s : st) : st :=
  if is_empty (cn_cid cn) then set_auto (b_auto s + 1) s else s.
Definition hc_sess_exp (cn : connect) (cf : cfg) : N :=
  if cn_ver cn =? 5 then match p_sei (cn_props cn) with
                         | None => 0
                         | Some i => if i <? c_session_expiry cf then i else c_session_expiry cf
                         end
  else c_session_expiry cf.
Definition hc_cmax (cn : connect) : N := if cn_ver cn =? 5 then opt_or (p_maxpkt (cn_props cn)) U32MAX else U32MAX.
Definition hc_takeover (cid : str) (s : st) : st * list out :=
  match aget cid (b_online s) with
  | Some oldc => conn_gone oldc s
  | None => (s, [])
  end.
Definition hc_resume0 (cid : str) (cn : connect) (s : st) : bool :=
  match aget cid (b_sessions s) with
  | Some se => negb (session_expired cid se s) && negb (cn_clean cn)
  | None => false
  end.
Definition hc_old (cid : str) (v5 : bool) (cmax : N) (resume0 : bool) (s : st) : st * list (str * msg) * bool :=
  match aget cid (b_sessions s) with
  | Some se =>
      if resume0 then
        match aget cid (b_queues s), aget cid (b_unacks s) with
        | Some q, Some u =>
            (set_tables (b_sessions s) (b_online s) (b_offline s) (adel cid (b_wills s))
                        (aset cid (q_init false v5 cmax q) (b_queues s)) (b_unacks s) s, [], true)
        | _, _ => (s, [], false)
        end
      else
        let s1 := remove_session cid s in
        match aget cid (b_wills s1) with
        | Some (w, _) =>
            let s2 := set_tables (b_sessions s1) (b_online s1) (b_offline s1) (adel cid (b_wills s1)) (b_queues s1) (b_unacks s1) s1 in
            (s2, [(cid, w)], false)
        | None => (s1, [], false)
        end
  | None => (s, [], false)
  end.
Definition hc_fresh (cid : str) (v5 : bool) (cmax : N) (cf : cfg) (resume : bool) (s : st) : st :=
  if resume then s
  else set_tables (b_sessions s) (b_online s) (b_offline s) (b_wills s)
                  (aset cid (q_init true v5 cmax (q_new (c_max_queued cf) (c_inflight_expiry cf * 1000))) (b_queues s))
                  (aset cid [] (b_unacks s)) s.
Definition hc_wd_exp (cn : connect) (cf : cfg) : N * N :=
  if negb (cn_ver cn =? 5) && negb (cn_clean cn) then (0, c_session_expiry cf)
  else if cn_ver cn =? 5 then (match cn_will cn with Some w => opt_or (p_willdelay (w_props w)) 0 | None => 0 end, hc_sess_exp cn cf)
  else (0, 0).
Definition hc_session (cn : connect) (wdelay expiry : N) (now : N) : session :=
  {| se_will := match cn_will cn with Some w => Some (will_msg w) | None => None end;
     se_will_delay := wdelay; se_connected_at := now; se_expiry := expiry |}.
Definition hc_ka (cn : connect) (cf : cfg) : N :=
  if cn_keepalive cn <? c_max_keepalive cf then cn_keepalive cn else c_max_keepalive cf.
Definition hc_max_inflight (cn : connect) (cf : cfg) : N :=
  if cn_ver cn =? 5 then
    match p_recvmax (cn_props cn) with
    | Some r => if r <? c_max_inflight cf then r else c_max_inflight cf
    | None => c_max_inflight cf
    end
  else c_max_inflight cf.
Definition hc_camax (cn : connect) : N := if cn_ver cn =? 5 then opt_or (p_aliasmax (cn_props cn)) 0 else 0.
Definition hc_conn (cid : str) (cn : connect) (cf : cfg) : conn :=
  {| k_cid := cid; k_v := cn_ver cn; k_phase := PhConnected; k_max_inflight := hc_max_inflight cn cf;
     k_client_max_packet := hc_cmax cn; k_client_alias_max := hc_camax cn; k_server_alias_max := c_alias_max cf;
     k_recv_max := c_recv_max cf; k_keepalive := if cn_ver cn =? 5 then hc_ka cn cf else cn_keepalive cn;
     k_session_expiry := hc_sess_exp cn cf;
     k_retain_avail := c_retain_avail cf; k_wildcard := c_wildcard cf; k_subid := c_subid cf;
     k_shared := c_shared cf;
     k_lim := lim_new (hc_max_inflight cn cf); k_held := None; k_alias_out := am_new (hc_camax cn); k_alias_in := [];
     k_alias_in_size := c_alias_max cf + 1;
     k_quota := c_recv_max cf; k_clean_will := false; k_disc_sei := None; k_got_disconnect := false;
     k_force_remove := false; k_drained := false |}.
Definition hc_register (c : N) (cid : str) (se : session) (k : conn) (s : st) : st :=
  set_tables (aset cid se (b_sessions s)) (aset cid c (b_online s)) (adel cid (b_offline s)) (b_wills s)
             (b_queues s) (b_unacks s) (upd_conn c k s).
Definition hc_props (cid : str) (cn : connect) (cf : cfg) : list prop :=
  if cn_ver cn =? 5 then
    [PSei (hc_sess_exp cn cf); PRecvMax (c_recv_max cf); PMaxQos (if 2 <=? c_max_qos cf then 1 else 0);
     PRetainAvail (if c_retain_avail cf then 1 else 0); PAliasMax (c_alias_max cf);
     PWildcard (if c_wildcard cf then 1 else 0); PSubIdAvail (if c_subid cf then 1 else 0);
     PSharedAvail (if c_shared cf then 1 else 0); PMaxPkt (c_max_packet cf); PKeepAlive (hc_ka cn cf)] ++
    (if is_empty (cn_cid cn) then [PAssigned cid] else [])
  else [].
Definition hc_wills (o_will : list (str * msg)) (s : st) : st * list out :=
  fold_left (fun acc cw => let '(s0, o0) := acc in
                           let '(s', o') := send_will (fst cw) (snd cw) s0 in (s', o0 ++ o'))
            o_will (s, []).
Definition hc_accept (c : N) (cn : connect) (s : st) : st * list out :=
  let cf := b_cfg s in
  let cid := hc_cid cn s in
  let '(s1, o_dup) := hc_takeover cid (hc_auto cn s) in
  let '(s2, o_will, resume) := hc_old cid (cn_ver cn =? 5) (hc_cmax cn) (hc_resume0 cid cn s1) s1 in
  let s3 := hc_fresh cid (cn_ver cn =? 5) (hc_cmax cn) cf resume s2 in
  let '(wdelay, expiry) := hc_wd_exp cn cf in
  let s4 := hc_register c cid (hc_session cn wdelay expiry (b_now s3)) (hc_conn cid cn cf) s3 in
  let '(s5, o_w) := hc_wills o_will s4 in
  (s5, o_dup ++ [OSend c (KConnack resume 0 (hc_props cid cn cf))] ++ o_w).

Lemma handle_connect_eq c cn s :
  handle_connect c cn s =
  if negb (c_allow_zero_len (b_cfg s)) && is_empty (cn_cid cn) then
    (upd_conn c (set_phase PhDead (fresh_conn [] 0)) s, [OSend c (KConnack false 133 [])])
  else if negb (hc_code cn s =? 0) then
    (upd_conn c (set_phase PhDead (fresh_conn (cn_cid cn) (cn_ver cn))) s,
     [OSend c (KConnack false (if negb (cn_ver cn =? 5) && (5 <? hc_code cn s) then 135 else hc_code cn s) [])])
  else hc_accept c cn s.
Proof. reflexivity. Qed.

Lemma hc_wills_lquiet o_will s :
  lframe s (fst (hc_wills o_will s)) /\ Forall isdrop (snd (hc_wills o_will s)).
Proof.
  unfold hc_wills.
  match goal with |- context [fold_left ?f ?l (s, [])] =>
    cut (forall s0 o0 x, lquiet s0 o0 (f (s0, o0) x));
    [intros Hb; destruct (fold_lquiet f l Hb s []) as [H1 H2]; split; [exact H1|apply H2; constructor]|] end.
  intros s0 o0 cw. cbv beta iota. apply lquiet_app; apply send_will_lquiet.
Qed.

Lemma hc_takeover_spec cid s :
  b_cfg (fst (hc_takeover cid s)) = b_cfg s /\ b_unacks (fst (hc_takeover cid s)) = b_unacks s /\
  Forall (fun x => (exists c', x = OClose c') \/ isdrop x) (snd (hc_takeover cid s)).
Proof.
  unfold hc_takeover. destruct (aget cid (b_online s)) as [oldc|]; [|cbn [fst snd]; auto].
  destruct (conn_gone_gen oldc s) as (A & _ & B & _ & _ & C). repeat split; auto.
  eapply Forall_impl; [|exact C]. intros x [->|H]; [left; now exists oldc|now right].
Qed.

Lemma hc_old_spec cid v5 cmax r0 s :
  b_cfg (fst (fst (hc_old cid v5 cmax r0 s))) = b_cfg s /\ b_unacks (fst (fst (hc_old cid v5 cmax r0 s))) = b_unacks s.
Proof.
  unfold hc_old. destruct (aget cid (b_sessions s)); [|auto]. destruct r0.
  - destruct (aget cid (b_queues s)); [|auto]. destruct (aget cid (b_unacks s)); auto.
  - cbv zeta. destruct (aget cid (b_wills (remove_session cid s))) as [[w t]|]; auto.
Qed.

(* the CONNACK of an accepted v5 CONNECT carries the configured Receive Maximum, Topic Alias Maximum and Maximum
   Packet Size; the connection record starts with quota = Receive Maximum = configured, the configured alias
   maximum and an empty inbound alias table; the quota relation holds (exactly, for a new session) *)
Theorem connack_advertises c cn s s' o sp props :
  handle_connect c cn s = (s', o) -> In (OSend c (KConnack sp 0 props)) o -> cn_ver cn = 5 ->
  p_recvmax props = Some (c_recv_max (b_cfg s)) /\ p_aliasmax props = Some (c_alias_max (b_cfg s)) /\
  p_maxpkt props = Some (c_max_packet (b_cfg s)) /\
  b_cfg s' = b_cfg s /\
  exists k, nget c (b_conns s') = Some k /\ k_phase k = PhConnected /\ k_v k = 5 /\
    k_quota k = c_recv_max (b_cfg s) /\ k_recv_max k = c_recv_max (b_cfg s) /\
    k_server_alias_max k = c_alias_max (b_cfg s) /\ k_alias_in k = [] /\
    (sp = false -> open_ids s' (k_cid k) = [] /\ QInv true s' c) /\
    (sp = true -> b_unacks s' = b_unacks s /\ (NoDup (open_ids s (k_cid k)) -> QInv false s' c)).
Proof.
  intros E Hin Hv. rewrite handle_connect_eq in E.
  destruct (negb (c_allow_zero_len (b_cfg s)) && is_empty (cn_cid cn)).
  { injection E as <- <-. destruct Hin as [H|[]]. discriminate. }
  destruct (negb (hc_code cn s =? 0)) eqn:Ec.
  { injection E as <- <-. destruct Hin as [H|[]]. injection H as _ H _. exfalso.
    destruct (negb (cn_ver cn =? 5) && (5 <? hc_code cn s)); lia. }
  unfold hc_accept in E. cbv zeta in E.
  pose proof (hc_takeover_spec (hc_cid cn s) (hc_auto cn s)) as (T1 & T2 & T3).
  destruct (hc_takeover (hc_cid cn s) (hc_auto cn s)) as [s1 o_dup]. cbn [fst snd] in T1, T2, T3.
  pose proof (hc_old_spec (hc_cid cn s) (cn_ver cn =? 5) (hc_cmax cn) (hc_resume0 (hc_cid cn s) cn s1) s1) as (O1 & O2).
  destruct (hc_old (hc_cid cn s) (cn_ver cn =? 5) (hc_cmax cn) (hc_resume0 (hc_cid cn s) cn s1) s1) as [[s2 o_will] resume].
  cbn [fst snd] in O1, O2.
  destruct (hc_wd_exp cn (b_cfg s)) as [wdelay expiry].
  set (cid := hc_cid cn s) in *.
  set (s3 := hc_fresh cid (cn_ver cn =? 5) (hc_cmax cn) (b_cfg s) resume s2) in *.
  set (k := hc_conn cid cn (b_cfg s)) in *.
  set (s4 := hc_register c cid (hc_session cn wdelay expiry (b_now s3)) k s3) in *.
  pose proof (hc_wills_lquiet o_will s4) as (W1 & W2).
  destruct (hc_wills o_will s4) as [s5 o_w]. cbn [fst snd] in W1, W2. injection E as <- <-.
  assert (Ha : b_cfg (hc_auto cn s) = b_cfg s /\ b_unacks (hc_auto cn s) = b_unacks s)
    by (unfold hc_auto; destruct (is_empty (cn_cid cn)); auto).
  destruct Ha as [Ha1 Ha2].
  (* the only CONNACK among the outputs *)
  assert (Hc : sp = resume /\ props = hc_props cid cn (b_cfg s)).
  { apply in_app_or in Hin as [Hin|Hin].
    - rewrite Forall_forall in T3. destruct (T3 _ Hin) as [[c' H]|H]; [discriminate|destruct H].
    - destruct Hin as [H|Hin]; [injection H as <- <-; auto|].
      rewrite Forall_forall in W2. destruct (W2 _ Hin). }
  destruct Hc as [-> ->].
  assert (Hcfg3 : b_cfg s3 = b_cfg s) by (unfold s3, hc_fresh; destruct resume; lproj; congruence).
  split; [unfold hc_props; now rewrite Hv|]. split; [unfold hc_props; now rewrite Hv|].
  split; [unfold hc_props; now rewrite Hv|].
  split; [rewrite (lf_cfg _ _ W1); unfold s4, hc_register; lproj; exact Hcfg3|].
  assert (Hlv4 : lv s4 c = Some (lview k)) by (unfold s4, hc_register, lv; lproj; now rewrite ng_nset_same).
  pose proof (lf_lv _ _ W1 c) as Hlv5. rewrite Hlv4 in Hlv5. apply lv_some in Hlv5 as (k5 & Hk5 & Ev).
  apply lview_fields in Ev as (E1 & E2 & E3 & E4 & E5 & _ & E7 & E8). cbn in E1, E2, E3, E4, E5, E7, E8.
  exists k5. split; [exact Hk5|]. split; [exact E3|]. split; [congruence|]. split; [exact E8|]. split; [exact E5|].
  split; [exact E4|]. split; [exact E7|].
  assert (Hu5 : b_unacks s5 = b_unacks s3) by (rewrite (lf_u _ _ W1); unfold s4, hc_register; lproj; reflexivity).
  split.
  - intros ->. assert (HU : open_ids s5 (k_cid k5) = []).
    { rewrite E1. unfold open_ids. rewrite Hu5. unfold s3, hc_fresh. lproj. now rewrite ag_aset_same. }
    split; [exact HU|]. intros k' Hk' _ _. rewrite Hk5 in Hk'. injection Hk' as <-.
    unfold Qrel. rewrite HU, E8, E5. cbn [length]. repeat split; try lia. constructor.
  - intros ->. assert (Hu : b_unacks s5 = b_unacks s).
    { rewrite Hu5. unfold s3, hc_fresh. congruence. }
    split; [exact Hu|]. intros Hnd k' Hk' _ _. rewrite Hk5 in Hk'. injection Hk' as <-.
    unfold Qrel, open_ids in *. rewrite Hu, E8, E5. split; [exact Hnd|]. split; [lia|]. split; [lia|discriminate].
Qed.

(* ================================================================== *)
(* 14. the statements of Props/C13w.v                                  *)
(* ================================================================== *)

Theorem alias_out_of_range_0x94 s c k dup qos retain topic payload pid props a :
  let p := KPublish dup qos retain topic payload pid props in
  nget c (b_conns s) = Some k -> k_phase k = PhConnected -> k_v k = 5 ->
  p_alias props = Some a -> has_wild topic = false ->
  (a = 0 \/
   ((0 <? qos) && (k_quota k =? 0) = false /\ negb (k_retain_avail k) && retain = false /\
    (k_server_alias_max k < a \/
     (1 <= a <= k_server_alias_max k /\ topic = [] /\
      (nget a (k_alias_in k) = None \/ nget a (k_alias_in k) = Some []))))) ->
  let s1 := charged c k p (negb (a =? 0)) s in
  step_event s (ESend c p) = torn c 148 s1 /\
  b_queues s1 = b_queues s /\ b_ret s1 = b_ret s /\ b_subs s1 = b_subs s /\ b_unacks s1 = b_unacks s /\
  filter (to_sock c) (snd (step s (ESend c p))) = [OSend c (KDisconnect 148 []); OClose c] /\
  (exists k', nget c (b_conns (fst (step s (ESend c p)))) = Some k' /\ k_phase k' = PhClosed) /\
  b_unacks (fst (step s (ESend c p))) = b_unacks s.
Proof.
  intros p Hk Hp Hv Hal Hw Hcase. cbv zeta.
  destruct (alias_out_of_range_verdict k dup qos retain topic payload pid props a Hv Hal Hw) as (V1 & V2 & V3).
  assert (Hver : verdict k p = Some (148, negb (a =? 0))).
  { destruct Hcase as [->|(Hq & Hra & [Ha|(Ha & Ht & Hn)])].
    - now apply V1.
    - destruct (N.eqb_spec a 0) as [->|_]; [lia|]. now apply V2.
    - destruct (N.eqb_spec a 0) as [->|_]; [lia|]. now apply V3. }
  destruct (verdict_teardown s c k p 148 _ Hk Hp Hv Hver) as (T1 & T2 & T3 & T4).
  destruct (charged_tables c k p (negb (a =? 0)) s) as (C1 & C2 & C3 & C4 & _).
  repeat split; auto.
Qed.

Theorem alias_in_range_accepted s c k dup qos retain topic payload pid props a :
  let p := KPublish dup qos retain topic payload pid props in
  nget c (b_conns s) = Some k -> k_phase k = PhConnected -> k_v k = 5 ->
  p_alias props = Some a -> 1 <= a <= k_server_alias_max k -> has_wild topic = false ->
  (0 <? qos) && (k_quota k =? 0) = false -> negb (k_retain_avail k) && retain = false ->
  (topic <> [] \/ exists x nm, nget a (k_alias_in k) = Some (x :: nm)) ->
  exists tb t,
    alias_step k topic props = inl (tb, t) /\ t <> [] /\
    (topic <> [] -> t = topic /\ nget a tb = Some topic) /\
    (topic = [] -> nget a (k_alias_in k) = Some t /\ tb = k_alias_in k) /\
    (forall a', a' <> a -> nget a' tb = nget a' (k_alias_in k)) /\
    handle_packet c k p s =
      publish_body c (set_alias_in tb (charge k p)) true
                   (with_topic t (msg_of_publish true dup qos retain topic payload pid props)) qos pid
                   (upd_conn c (set_alias_in tb (charge k p)) s) /\
    exists s' o code k',
      step_event s (ESend c p) = (s', o ++ ack_of c qos pid code) /\ Forall isdrop o /\
      nget c (b_conns s') = Some k' /\ k_phase k' = PhConnected /\ k_alias_in k' = tb /\
      k_server_alias_max k' = k_server_alias_max k.
Proof.
  intros p Hk Hp Hv Hal Ha Hw Hq Hra Hcase.
  assert (Hr : read_err k p = None).
  { unfold p. cbn [read_err]. unfold alias_zero, has_alias. rewrite Hv, Hw, Hal. cbn [N.eqb Pos.eqb andb negb].
    assert (E : (a =? 0) = false) by lia. rewrite E, andb_false_r. now rewrite Hq. }
  destruct (alias_in_range_step k topic props a Hv Hal Ha) as (S1 & S2).
  assert (Hst : exists tb t, alias_step k topic props = inl (tb, t) /\ t <> [] /\
            (topic <> [] -> t = topic /\ nget a tb = Some topic) /\
            (topic = [] -> nget a (k_alias_in k) = Some t /\ tb = k_alias_in k) /\
            (forall a', a' <> a -> nget a' tb = nget a' (k_alias_in k))).
  { destruct topic as [|x0 t0].
    - destruct Hcase as [H|(x & nm & Hb)]; [congruence|].
      exists (k_alias_in k), (x :: nm). split; [now apply S2|]. split; [discriminate|].
      split; [congruence|]. split; [auto|]. auto.
    - destruct (S1 ltac:(discriminate)) as (A & B & C).
      exists (nset a (x0 :: t0) (k_alias_in k)), (x0 :: t0). split; [exact A|]. split; [discriminate|].
      split; [auto|]. split; [discriminate|]. exact C. }
  destruct Hst as (tb & t & Hs & Hne & H1 & H2 & H3). exists tb, t.
  split; [exact Hs|]. split; [exact Hne|]. split; [exact H1|]. split; [exact H2|]. split; [exact H3|].
  destruct (alias_accepted s c k dup qos retain topic payload pid props tb t Hk Hp Hr Hra Hs)
    as (A & _ & s' & o & code & k' & B1 & B2 & B3 & B4 & B5 & B6 & _).
  rewrite Hv in A. cbn [N.eqb Pos.eqb] in A. split; [exact A|].
  exists s', o, code, k'. auto 10.
Qed.

Theorem exceeding_0x93 s c k dup qos retain topic payload pid props :
  let p := KPublish dup qos retain topic payload pid props in
  nget c (b_conns s) = Some k -> k_phase k = PhConnected -> k_v k = 5 ->
  decodes k topic props = true -> 0 < qos ->
  (k_quota k = 0 \/ (Qrel true s k /\ N.of_nat (length (open_ids s (k_cid k))) = k_recv_max k)) ->
  step_event s (ESend c p) = torn c 147 s /\
  filter (to_sock c) (snd (step s (ESend c p))) = [OSend c (KDisconnect 147 []); OClose c] /\
  (exists k', nget c (b_conns (fst (step s (ESend c p)))) = Some k' /\ k_phase k' = PhClosed) /\
  b_unacks (fst (step s (ESend c p))) = b_unacks s.
Proof.
  intros p Hk Hp Hv Hd Hq H0.
  assert (Hz : k_quota k = 0) by (destruct H0 as [H|[H1 H2]]; [exact H|now apply (exact_full_quota_zero s)]).
  pose proof (exceeding_recv_max_0x93 s c k dup qos retain topic payload pid props Hk Hp Hv Hd Hq Hz) as Hver.
  destruct (verdict_teardown s c k p 147 false Hk Hp Hv Hver) as (T1 & T2 & T3 & T4). cbn [charged] in T1. auto.
Qed.

Theorem wf_publish_no_disconnect_sz s c k dup qos retain topic payload pid props n :
  let p := KPublish dup qos retain topic payload pid props in
  nget c (b_conns s) = Some k -> k_phase k = PhConnected ->
  wf_publish k qos retain topic props = true -> too_big k n s = false ->
  Forall benign (snd (step s (ESendSz c p n))) /\
  exists k', nget c (b_conns (fst (step s (ESendSz c p n)))) = Some k' /\ k_phase k' = PhConnected.
Proof.
  intros p Hk Hp Hwf Hb.
  assert (E : step s (ESendSz c p n) = step s (ESend c p)).
  { apply step_sz_small. intros k0 Hk0 _. rewrite Hk in Hk0. now injection Hk0 as <-. }
  rewrite E. now apply (wf_publish_no_disconnect s c k).
Qed.

(* ---- a concrete broker for the examples: Receive Maximum 2, Topic Alias Maximum 3, Maximum Packet Size 100;
        a v5 client "p" on socket 1 ---- *)
Definition lx_cfg : cfg :=
  {| c_onlyonce := false; c_max_inflight := 10; c_max_queued := 100; c_queue_qos0 := true;
     c_session_expiry := 3600; c_message_expiry := 0; c_recv_max := 2; c_alias_max := 3; c_max_packet := 100;
     c_max_qos := 2; c_retain_avail := true; c_wildcard := true; c_subid := true; c_shared := true;
     c_max_keepalive := 60; c_allow_zero_len := true; c_inflight_expiry := 0 |}.
Definition lx_connect : connect :=
  {| cn_ver := 5; cn_cid := [112]; cn_clean := true; cn_keepalive := 0; cn_user := None; cn_pass := None;
     cn_will := None; cn_props := [] |}.
Definition lx_init : st := st_init lx_cfg no_hooks [].
Definition lx_s0 : st := fst (step lx_init (EConnect 1 lx_connect)).
Definition lx_T : str := [116].
Definition lx_pkt (dup : bool) (qos pid : N) (topic : str) (props : list prop) : pkt :=
  KPublish dup qos false topic [1] pid props.
Definition lx_pub (dup : bool) (qos pid : N) (topic : str) (props : list prop) : event :=
  ESend 1 (lx_pkt dup qos pid topic props).
Definition lx_rel (pid : N) : event := ESend 1 (KPubrel pid 0 []).
(* two QoS 2 publishes open: the quota is used up *)
Definition lx_full : st := fst (run lx_s0 [lx_pub false 2 1 lx_T []; lx_pub false 2 2 lx_T []]).
Definition lx_conn (s : st) : conn := opt_or (nget 1 (b_conns s)) (fresh_conn [] 0).

(* a boolean form of the quota relation, for the examples *)
Fixpoint nodupb (l : list N) : bool := match l with [] => true | x :: r => negb (memN x r) && nodupb r end.

Lemma nodupb_NoDup l : nodupb l = true -> NoDup l.
Proof.
  induction l as [|x r IH]; cbn [nodupb]; intros H; [constructor|].
  apply andb_true_iff in H as [H1 H2]. apply negb_true_iff in H1. constructor; [now apply memN_notIn|auto].
Qed.

Definition qrel_b (ex : bool) (s : st) (k : conn) : bool :=
  nodupb (open_ids s (k_cid k)) && (k_quota k <=? k_recv_max k) &&
  (k_recv_max k <=? k_quota k + N.of_nat (length (open_ids s (k_cid k)))) &&
  (negb ex || (k_quota k + N.of_nat (length (open_ids s (k_cid k))) =? k_recv_max k)).

Lemma qrel_b_ok ex s k : qrel_b ex s k = true -> Qrel ex s k.
Proof.
  unfold qrel_b, Qrel. intros H. apply andb_true_iff in H as [H H4]. apply andb_true_iff in H as [H H3].
  apply andb_true_iff in H as [H1 H2]. split; [now apply nodupb_NoDup|]. split; [lia|]. split; [lia|].
  intros ->. cbn [negb Datatypes.orb] in H4. lia.
Qed.

Definition qinv_b (ex : bool) (s : st) (c : N) : bool :=
  match nget c (b_conns s) with Some k => qrel_b ex s k | None => true end.

Lemma qinv_b_ok ex s c : qinv_b ex s c = true -> QInv ex s c.
Proof. unfold qinv_b. intros H k Hk _ _. rewrite Hk in H. now apply qrel_b_ok. Qed.

(* ================================================================== *)
(* 15. along a run: a client within the Receive Maximum never sees 0x93 *)
(* ================================================================== *)

Lemma step_disc_in_event s e c' code pr :
  In (OSend c' (KDisconnect code pr)) (snd (step s e)) -> In (OSend c' (KDisconnect code pr)) (snd (step_event s e)).
Proof.
  intros Hin. destruct (step_poll s e) as (o2 & Eo & _ & P). rewrite Eo in Hin.
  apply in_app_or in Hin as [Hin|Hin]; [exact Hin|].
  apply pollout_benign in P. rewrite Forall_forall in P. destruct (P _ Hin).
Qed.

Lemma send_unconnected_no_disc c k p s c' code pr :
  ~ In (OSend c' (KDisconnect code pr)) (snd (send_unconnected c k p s)).
Proof.
  assert (G : forall c0 s0, ~ In (OSend c' (KDisconnect code pr)) (snd (conn_gone c0 s0))).
  { intros c0 s0 Hin. destruct (conn_gone_gen c0 s0) as (_ & _ & _ & _ & _ & HF). rewrite Forall_forall in HF.
    destruct (HF _ Hin) as [E|E]; [discriminate|destruct E]. }
  assert (Nil : ~ In (OSend c' (KDisconnect code pr)) []) by (intros []).
  unfold send_unconnected. destruct (k_phase k); cbn [snd]; try exact Nil.
  - intros [H0|[]]. discriminate.
  - destruct p; try exact Nil. destruct ((k_v k =? 5) && (0 <? qos)); [|exact Nil].
    destruct (k_quota k =? 0); [apply G|exact Nil].
  - destruct p; try exact Nil. destruct ((k_v k =? 5) && (0 <? qos)); [apply G|exact Nil].
Qed.

Lemma packet_size_big_event s c k p n :
  nget c (b_conns s) = Some k -> k_phase k = PhConnected -> too_big k n s = true ->
  step_event s (ESendSz c p n) = torn c (sz_code k p) (charged c k p (sz_charged k p) s) /\
  exists k1, nget c (b_conns (charged c k p (sz_charged k p) s)) = Some k1 /\ attached (k_phase k1) = true.
Proof.
  intros Hk Hp Hb. pose proof (too_big_v5 _ _ _ Hb) as Hv. apply N.eqb_eq in Hv.
  rewrite (step_event_send_sz' s c k p n Hk Hp), (handle_packet_sz_big_eq c k p n s Hk Hb).
  unfold sz_code, sz_charged. destruct (read_err k p) as [cd|]; cbn [finish charged].
  - split; [now apply (fail_conn_v5 c k)|]. exists k. split; [exact Hk|]. now rewrite Hp.
  - cbn [app]. rewrite (fail_conn_v5 c (charge k p) 149 false); [|lproj; apply ng_nset_same|now rewrite charge_phase|now rewrite charge_v].
    split; [now destruct (torn c 149 _)|]. eexists. split; [lproj; apply ng_nset_same|]. now rewrite charge_phase, Hp.
Qed.

Definition ev_within (s : st) (c : N) (e : event) : bool :=
  match ev_pkt e, nget c (b_conns s) with Some p, Some k => within_recv_max s k p | _, _ => true end.

Lemma step_never_0x93 s c e c' pr :
  on_socket c e = true -> QInv false s c -> ev_within s c e = true ->
  ~ In (OSend c' (KDisconnect 147 pr)) (snd (step s e)).
Proof.
  intros Hon HQ Hw Hin.
  assert (Send : forall p, ev_pkt e = Some p -> step_event s e = step_event s (ESend c p) -> False).
  { intros p Hp E. apply step_disc_in_event in Hin. rewrite E in Hin.
    unfold ev_within in Hw. rewrite Hp in Hw.
    destruct (nget c (b_conns s)) as [k|] eqn:Hk; [|cbn [step_event] in Hin; rewrite Hk in Hin; destruct Hin].
    assert (Hph : k_phase k = PhConnected \/ k_phase k <> PhConnected) by (destruct (k_phase k); auto; right; discriminate).
    destruct Hph as [Hph|Hph].
    - assert (Hin2 : In (OSend c' (KDisconnect 147 pr)) (snd (step s (ESend c p)))).
      { destruct (step_poll s (ESend c p)) as (o2 & Eo & _). rewrite Eo. apply in_or_app. now left. }
      revert Hin2. apply (within_recv_max_never_0x93 s c k p); auto.
    - cbn [step_event] in Hin. rewrite Hk in Hin.
      destruct (k_phase k) eqn:E2; try congruence; now apply send_unconnected_no_disc in Hin. }
  destruct e; try discriminate; cbn [on_socket] in Hon.
  - apply N.eqb_eq in Hon. subst c0. now apply (Send p).
  - apply N.eqb_eq in Hon. subst c0.
    destruct (step_event_sz s c p n) as [E|(k & Hk & Hp & Hb & _)]; [now apply (Send p)|].
    destruct (packet_size_big_event s c k p n Hk Hp Hb) as (E & k1 & Hk1 & Ha).
    destruct (torn_step s (ESendSz c p n) c _ _ k1 E Hk1 Ha) as (T1 & T2 & _).
    rewrite Forall_forall in T2. destruct (T2 _ Hin) as [Ht|Hb2]; [|destruct Hb2].
    assert (Hf : In (OSend c' (KDisconnect 147 pr)) (filter (to_sock c) (snd (step s (ESendSz c p n)))))
      by (apply filter_In; auto).
    rewrite T1 in Hf. destruct Hf as [Hf|[Hf|[]]]; [|discriminate]. injection Hf as _ Hc _.
    unfold sz_code in Hc. destruct (read_err k p) as [cd|] eqn:Hr; [subst cd|discriminate].
    apply read_err_147 in Hr as (dup & qos & retain & topic & payload & pid & props & -> & Hv & Hq & H0).
    unfold ev_within in Hw. cbn [ev_pkt] in Hw. rewrite Hk in Hw. cbn [within_recv_max] in Hw.
    destruct (HQ k Hk Hp Hv) as (_ & _ & Q3 & _). lia.
  - apply step_disc_in_event in Hin. destruct Hin.
  - apply step_disc_in_event in Hin. destruct Hin.
Qed.

Lemma run_snd_cons s e r : snd (run s (e :: r)) = snd (step s e) :: snd (run (fst (step s e)) r).
Proof. cbn [run]. destruct (step s e) as [s' o]. cbn [fst snd]. destruct (run s' r). reflexivity. Qed.

(* for histories on one socket in which every QoS>0 PUBLISH arrives while fewer than Receive Maximum QoS 2 publishes
   are open: no step of the run answers with 0x93 *)
Theorem never_0x93_run c es : forall s,
  QInv false s c -> run_ok (fun s e => quota_side false c s e && ev_within s c e) s es = true ->
  forall o c' pr, In o (snd (run s es)) -> ~ In (OSend c' (KDisconnect 147 pr)) o.
Proof.
  induction es as [|e r IH]; intros s HQ Hok o c' pr Ho; [destruct Ho|].
  cbn [run_ok] in Hok. apply andb_true_iff in Hok as [H1 H2]. apply andb_true_iff in H1 as [H1 Hw].
  pose proof H1 as Hside. unfold quota_side in H1.
  apply andb_true_iff in H1 as [H1 _]. apply andb_true_iff in H1 as [Hon Hwf].
  rewrite run_snd_cons in Ho. destruct Ho as [<-|Ho].
  - now apply (step_never_0x93 s c e).
  - apply (IH (fst (step s e))); auto. apply QInv_step; auto. discriminate.
Qed.
