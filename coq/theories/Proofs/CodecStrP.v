(* utf8.DecodeRune, ValidUTF8, ValidTopicName, ValidTopicFilter, ValidV5Topic never panic and
   never run out of fuel; readUTF8String is safe and reads back what writeBinary wrote. *)
From Coq Require Import List NArith ZArith Bool Lia ZifyN ZifyNat ZifyBool.
Import ListNotations.
From GM Require Import Base.Topic Base.Msg Model.CodecBase Proofs.CodecBaseP.
Open Scope N_scope.

Ltac Zify.zify_post_hook ::= Z.div_mod_to_equations.

Lemma decode_rune_size : forall p, p <> [] -> 1 <= snd (decode_rune p) /\ snd (decode_rune p) <= len p.
Proof.
  intros p Hp. destruct p as [|p0 t]; [congruence|]. unfold decode_rune.
  rewrite len_cons.
  destruct (p0 <? 128); [cbn [snd]; lia|].
  destruct ((p0 <? 194) || (244 <? p0)); [cbn [snd]; lia|].
  cbv zeta.
  destruct t as [|b1 t1]; [cbn [snd]; lia|]. rewrite len_cons.
  destruct ((b1 <? _) || (_ <? b1)); [cbn [snd]; lia|].
  destruct (p0 <? 224); [cbn [snd]; lia|].
  destruct t1 as [|b2 t2]; [cbn [snd]; lia|]. rewrite len_cons.
  destruct ((b2 <? 128) || (191 <? b2)); [cbn [snd]; lia|].
  destruct (p0 <? 240); [cbn [snd]; lia|].
  destruct t2 as [|b3 t3]; [cbn [snd]; lia|]. rewrite len_cons.
  destruct ((b3 <? 128) || (191 <? b3)); cbn [snd]; lia.
Qed.

Lemma slice_from_ok : forall n p, n <= len p -> slice_from n p = Ok (dropN n p).
Proof. intros. unfold slice_from. rewrite shorter_spec. replace (len p <? n) with false by lia. reflexivity. Qed.

Lemma dropN_shrinks : forall (p : list N) n, 1 <= n -> p <> [] -> (length (dropN n p) < length p)%nat.
Proof.
  intros p n Hn Hp. rewrite dropN_skipn, skipn_length.
  destruct p; [congruence|]. cbn [length]. lia.
Qed.

(* p[size:] after DecodeRune never panics and is shorter *)
Lemma rune_step : forall p, p <> [] ->
  slice_from (snd (decode_rune p)) p = Ok (dropN (snd (decode_rune p)) p)
  /\ (length (dropN (snd (decode_rune p)) p) < length p)%nat.
Proof.
  intros p Hp. destruct (decode_rune_size p Hp) as [H1 H2]. split.
  - apply slice_from_ok; assumption.
  - apply dropN_shrinks; assumption.
Qed.

(* ---- ValidUTF8 ---- *)
Lemma valid_utf8_loop_safe : forall fuel p, (length p < fuel)%nat ->
  exists b, valid_utf8_loop fuel p = Ok b.
Proof.
  induction fuel; intros p Hf; [lia|]. cbn [valid_utf8_loop].
  destruct p as [|p0 t] eqn:Ep; [eexists; reflexivity|]. rewrite <- Ep in *.
  assert (Hp : p <> []) by (subst; discriminate).
  destruct (rune_step p Hp) as [Hs Hl].
  destruct (decode_rune p) as [ru size]. cbn [snd] in *.
  repeat (match goal with |- context [if ?c then _ else _] => destruct c end; try (eexists; reflexivity)).
  rewrite Hs. cbn [bind]. apply IHfuel. lia.
Qed.
Lemma valid_utf8_impl_total : forall p, exists b, valid_utf8_impl p = Ok b.
Proof. intros. apply valid_utf8_loop_safe. lia. Qed.

(* ---- ValidTopicName ---- *)
Lemma valid_topic_name_loop_safe : forall fuel must p, (length p < fuel)%nat ->
  exists b, valid_topic_name_loop fuel must p = Ok b.
Proof.
  induction fuel; intros must p Hf; [lia|]. cbn [valid_topic_name_loop].
  destruct p as [|p0 t] eqn:Ep; [eexists; reflexivity|]. rewrite <- Ep in *.
  assert (Hp : p <> []) by (subst; discriminate).
  destruct (rune_step p Hp) as [Hs Hl].
  destruct (decode_rune p) as [ru size]. cbn [snd] in *.
  repeat (match goal with |- context [if ?c then _ else _] => destruct c end; try (eexists; reflexivity)).
  rewrite Hs. cbn [bind]. apply IHfuel. lia.
Qed.
Lemma valid_topic_name_impl_total : forall must p, exists b, valid_topic_name_impl must p = Ok b.
Proof.
  intros. unfold valid_topic_name_impl. destruct p; [eexists; reflexivity|].
  apply valid_topic_name_loop_safe. lia.
Qed.

(* ---- ValidTopicFilter ---- *)
Lemma valid_topic_filter_loop_safe : forall fuel must prev p, (length p < fuel)%nat ->
  exists b, valid_topic_filter_loop fuel must prev p = Ok b.
Proof.
  induction fuel; intros must prev p Hf; [lia|]. cbn [valid_topic_filter_loop].
  destruct p as [|p0 t] eqn:Ep; [eexists; reflexivity|]. rewrite <- Ep in *.
  assert (Hp : p <> []) by (subst; discriminate).
  destruct (rune_step p Hp) as [Hs Hl].
  destruct (decode_rune p) as [ru size]. cbn [snd] in *.
  destruct (must && (ru =? RUNE_ERROR) && (size <=? 1)); [eexists; reflexivity|].
  destruct (ru =? 0); [eexists; reflexivity|].
  destruct ((p0 =? HASH) && negb (is_empty t)); [eexists; reflexivity|].
  (* the prev-byte checks: p[1] is read only when plen > 1 *)
  assert (Hchk : exists ok,
    match prev with
    | Some pb =>
        if size =? 1 then
          if ((p0 =? PLUS) || (p0 =? HASH)) && negb (pb =? SLASH) then Ok false
          else if negb (is_empty t) then
            if p0 =? PLUS then do p1 <- idx p 1; Ok (p1 =? SLASH) else Ok true
          else Ok true
        else Ok true
    | None => Ok true
    end = Ok ok).
  { destruct prev as [pb|]; [|eexists; reflexivity].
    destruct (size =? 1); [|eexists; reflexivity].
    destruct (((p0 =? PLUS) || (p0 =? HASH)) && negb (pb =? SLASH)); [eexists; reflexivity|].
    destruct t as [|p1 t']; cbn [is_empty negb]; [eexists; reflexivity|].
    destruct (p0 =? PLUS); [|eexists; reflexivity].
    subst p. unfold idx. cbn. eexists; reflexivity. }
  destruct Hchk as [ok Hok]. rewrite Hok. cbn [bind].
  destruct ok; cbn [negb]; [|eexists; reflexivity].
  rewrite Hs. cbn [bind]. apply IHfuel. lia.
Qed.
Lemma valid_topic_filter_impl_total : forall must p, exists b, valid_topic_filter_impl must p = Ok b.
Proof.
  intros. unfold valid_topic_filter_impl. destruct p; [eexists; reflexivity|].
  apply valid_topic_filter_loop_safe. lia.
Qed.

(* ---- ValidV5Topic ---- *)
Lemma v5_share_loop_safe : forall fuel p, (length p < fuel)%nat -> exists b, v5_share_loop fuel p = Ok b.
Proof.
  induction fuel; intros p Hf; [lia|]. cbn [v5_share_loop].
  destruct p as [|p0 t] eqn:Ep; [eexists; reflexivity|]. rewrite <- Ep in *.
  assert (Hp : p <> []) by (subst; discriminate).
  destruct (rune_step p Hp) as [Hs Hl].
  destruct (decode_rune p) as [ru size]. cbn [snd] in *.
  destruct ((ru =? RUNE_ERROR) && (size <=? 1)); [eexists; reflexivity|].
  destruct (ru =? 0); [eexists; reflexivity|].
  destruct ((size =? 1) && (p0 =? SLASH)).
  { rewrite slice_from_ok by (subst p; rewrite len_cons; lia). cbn [bind].
    apply valid_topic_filter_impl_total. }
  destruct ((size =? 1) && ((p0 =? PLUS) || (p0 =? HASH))); [eexists; reflexivity|].
  rewrite Hs. cbn [bind]. apply IHfuel. lia.
Qed.
Lemma valid_v5_topic_impl_total : forall p, exists b, valid_v5_topic_impl p = Ok b.
Proof.
  intros. unfold valid_v5_topic_impl. destruct p as [|p0 t] eqn:Ep; [eexists; reflexivity|]. rewrite <- Ep.
  destruct (has_prefix SHARE_PREFIX p); [|apply valid_topic_filter_impl_total].
  rewrite shorter_spec. destruct (N.ltb_spec (len p) 9); [eexists; reflexivity|].
  assert (Hd : exists x r, dropN 7 p = x :: r).
  { rewrite dropN_skipn. unfold len in H.
    destruct (skipn (N.to_nat 7) p) eqn:E; [|eauto].
    apply (f_equal (@length N)) in E. rewrite skipn_length in E. cbn [length] in E. lia. }
  destruct Hd as [x [r Hd]]. unfold idx. rewrite Hd. cbn [bind].
  destruct (negb (x =? SLASH)); [|eexists; reflexivity].
  rewrite slice_from_ok by lia. cbn [bind]. apply v5_share_loop_safe. lia.
Qed.

(* ---- readUTF8String ---- *)
Lemma read_utf8_string_safe : forall must b, safe_rd1 b (read_utf8_string must b).
Proof.
  intros. unfold read_utf8_string. rewrite shorter_spec.
  destruct (N.ltb_spec (len b) 2); [exact I|].
  destruct b as [|x [|y r]]; unfold len in H; cbn [length] in H; try lia.
  unfold buf_next. cbn [takeN dropN N.eqb N.pred Pos.pred_N Pos.pred_double]. rewrite takeN_0, dropN_0.
  cbn [be16 bind]. rewrite shorter_spec.
  destruct (N.ltb_spec (len r) (x * 256 + y)); [exact I|].
  assert (Hl : (length (dropN (x * 256 + y) r) < length (x :: y :: r))%nat).
  { pose proof (dropN_length _ r (x * 256 + y)). cbn [length]. lia. }
  destruct must.
  - destruct (valid_utf8_impl_total (takeN (x * 256 + y) r)) as [ok ->]. cbn [bind].
    destruct ok; [exact Hl|exact I].
  - exact Hl.
Qed.

Lemma len_put_bin : forall s, len (put_bin s) = 2 + len s.
Proof. intros. unfold put_bin. rewrite len_app, len_put16. reflexivity. Qed.

(* writeBinary / writeUTF8String followed by readUTF8String *)
Lemma read_utf8_string_put_bin : forall must s rest,
  len s <= 65535 -> (must = true -> valid_utf8_impl s = Ok true) ->
  read_utf8_string must (put_bin s ++ rest) = Ok (s, rest).
Proof.
  intros must s rest Hl Hu. unfold read_utf8_string. rewrite shorter_spec.
  replace (len (put_bin s ++ rest) <? 2) with false by (rewrite len_app, len_put_bin; lia).
  unfold put_bin. rewrite N.mod_small by lia. rewrite <- app_assoc.
  unfold buf_next.
  replace (takeN 2 (put16 (len s) ++ s ++ rest)) with (put16 (len s))
    by (symmetry; apply (takeN_app_exact (put16 (len s)) (s ++ rest))).
  replace (dropN 2 (put16 (len s) ++ s ++ rest)) with (s ++ rest)
    by (symmetry; apply (dropN_app_exact (put16 (len s)) (s ++ rest))).
  unfold put16, be16. cbn [bind].
  replace (len s / 256 mod 256 * 256 + len s mod 256) with (len s) by lia.
  rewrite shorter_spec. replace (len (s ++ rest) <? len s) with false by (rewrite len_app; lia).
  rewrite takeN_app_exact, dropN_app_exact.
  destruct must; [|reflexivity]. rewrite Hu by reflexivity. reflexivity.
Qed.

(* the same for EncodeUTF8String (Connect.Pack) *)
Lemma encode_utf8_string_ok : forall s, len s <= 65535 -> encode_utf8_string s = Ok (put_bin s).
Proof.
  intros. unfold encode_utf8_string, put_bin. replace (65535 <? len s) with false by lia.
  rewrite N.mod_small by lia. reflexivity.
Qed.
Lemma encode_utf8_string_safe : forall s, safe (encode_utf8_string s).
Proof. intros. unfold encode_utf8_string. destruct (_ <? _); exact I. Qed.
