(* C04 (wire half): inbound QoS 2 is exactly-once, every QoS>0 packet gets its matching ack -
   proved of the broker model Model/Broker.v for all states / event lists.
   Part 0 is infrastructure shared with Proofs/BrokerWillP.v: projection lemmas of the record
   setters, association-list lemmas, the frame of `deliver` / `poll_all`. *)
From Coq Require Import List NArith ZArith Bool Arith Lia ZifyN ZifyNat ZifyBool.
Import ListNotations.
From GM Require Import Base.Topic Base.Msg Model.SubTrie Model.RetTrie Model.Queue Model.Limiter Model.TopicMatch
  Model.Broker Proofs.TopicP Proofs.SubTrieP Proofs.LimiterP Proofs.BrokerBasicP.
Open Scope N_scope.

(* ================================================================== *)
(* 0. infrastructure                                                   *)
(* ================================================================== *)

(* ---- 0.1 projections of the record setters (generated) ---- *)
Lemma b_cfg_upd_conn c k s : b_cfg (upd_conn c k s) = b_cfg s. Proof. reflexivity. Qed.
Lemma b_hooks_upd_conn c k s : b_hooks (upd_conn c k s) = b_hooks s. Proof. reflexivity. Qed.
Lemma b_now_upd_conn c k s : b_now (upd_conn c k s) = b_now s. Proof. reflexivity. Qed.
Lemma b_rt_upd_conn c k s : b_rt (upd_conn c k s) = b_rt s. Proof. reflexivity. Qed.
Lemma b_sessions_upd_conn c k s : b_sessions (upd_conn c k s) = b_sessions s. Proof. reflexivity. Qed.
Lemma b_online_upd_conn c k s : b_online (upd_conn c k s) = b_online s. Proof. reflexivity. Qed.
Lemma b_offline_upd_conn c k s : b_offline (upd_conn c k s) = b_offline s. Proof. reflexivity. Qed.
Lemma b_wills_upd_conn c k s : b_wills (upd_conn c k s) = b_wills s. Proof. reflexivity. Qed.
Lemma b_subs_upd_conn c k s : b_subs (upd_conn c k s) = b_subs s. Proof. reflexivity. Qed.
Lemma b_ret_upd_conn c k s : b_ret (upd_conn c k s) = b_ret s. Proof. reflexivity. Qed.
Lemma b_queues_upd_conn c k s : b_queues (upd_conn c k s) = b_queues s. Proof. reflexivity. Qed.
Lemma b_unacks_upd_conn c k s : b_unacks (upd_conn c k s) = b_unacks s. Proof. reflexivity. Qed.
Lemma b_conns_upd_conn c k s : b_conns (upd_conn c k s) = nset c k (b_conns s). Proof. reflexivity. Qed.
Lemma b_picks_upd_conn c k s : b_picks (upd_conn c k s) = b_picks s. Proof. reflexivity. Qed.
Lemma b_tag_upd_conn c k s : b_tag (upd_conn c k s) = b_tag s. Proof. reflexivity. Qed.
Lemma b_auto_upd_conn c k s : b_auto (upd_conn c k s) = b_auto s. Proof. reflexivity. Qed.
Lemma b_npick_upd_conn c k s : b_npick (upd_conn c k s) = b_npick s. Proof. reflexivity. Qed.
Lemma b_cfg_set_queues q s : b_cfg (set_queues q s) = b_cfg s. Proof. reflexivity. Qed.
Lemma b_hooks_set_queues q s : b_hooks (set_queues q s) = b_hooks s. Proof. reflexivity. Qed.
Lemma b_now_set_queues q s : b_now (set_queues q s) = b_now s. Proof. reflexivity. Qed.
Lemma b_rt_set_queues q s : b_rt (set_queues q s) = b_rt s. Proof. reflexivity. Qed.
Lemma b_sessions_set_queues q s : b_sessions (set_queues q s) = b_sessions s. Proof. reflexivity. Qed.
Lemma b_online_set_queues q s : b_online (set_queues q s) = b_online s. Proof. reflexivity. Qed.
Lemma b_offline_set_queues q s : b_offline (set_queues q s) = b_offline s. Proof. reflexivity. Qed.
Lemma b_wills_set_queues q s : b_wills (set_queues q s) = b_wills s. Proof. reflexivity. Qed.
Lemma b_subs_set_queues q s : b_subs (set_queues q s) = b_subs s. Proof. reflexivity. Qed.
Lemma b_ret_set_queues q s : b_ret (set_queues q s) = b_ret s. Proof. reflexivity. Qed.
Lemma b_queues_set_queues q s : b_queues (set_queues q s) = q. Proof. reflexivity. Qed.
Lemma b_unacks_set_queues q s : b_unacks (set_queues q s) = b_unacks s. Proof. reflexivity. Qed.
Lemma b_conns_set_queues q s : b_conns (set_queues q s) = b_conns s. Proof. reflexivity. Qed.
Lemma b_picks_set_queues q s : b_picks (set_queues q s) = b_picks s. Proof. reflexivity. Qed.
Lemma b_tag_set_queues q s : b_tag (set_queues q s) = b_tag s. Proof. reflexivity. Qed.
Lemma b_auto_set_queues q s : b_auto (set_queues q s) = b_auto s. Proof. reflexivity. Qed.
Lemma b_npick_set_queues q s : b_npick (set_queues q s) = b_npick s. Proof. reflexivity. Qed.
Lemma b_cfg_set_tables se on off w q u s : b_cfg (set_tables se on off w q u s) = b_cfg s. Proof. reflexivity. Qed.
Lemma b_hooks_set_tables se on off w q u s : b_hooks (set_tables se on off w q u s) = b_hooks s. Proof. reflexivity. Qed.
Lemma b_now_set_tables se on off w q u s : b_now (set_tables se on off w q u s) = b_now s. Proof. reflexivity. Qed.
Lemma b_rt_set_tables se on off w q u s : b_rt (set_tables se on off w q u s) = b_rt s. Proof. reflexivity. Qed.
Lemma b_sessions_set_tables se on off w q u s : b_sessions (set_tables se on off w q u s) = se. Proof. reflexivity. Qed.
Lemma b_online_set_tables se on off w q u s : b_online (set_tables se on off w q u s) = on. Proof. reflexivity. Qed.
Lemma b_offline_set_tables se on off w q u s : b_offline (set_tables se on off w q u s) = off. Proof. reflexivity. Qed.
Lemma b_wills_set_tables se on off w q u s : b_wills (set_tables se on off w q u s) = w. Proof. reflexivity. Qed.
Lemma b_subs_set_tables se on off w q u s : b_subs (set_tables se on off w q u s) = b_subs s. Proof. reflexivity. Qed.
Lemma b_ret_set_tables se on off w q u s : b_ret (set_tables se on off w q u s) = b_ret s. Proof. reflexivity. Qed.
Lemma b_queues_set_tables se on off w q u s : b_queues (set_tables se on off w q u s) = q. Proof. reflexivity. Qed.
Lemma b_unacks_set_tables se on off w q u s : b_unacks (set_tables se on off w q u s) = u. Proof. reflexivity. Qed.
Lemma b_conns_set_tables se on off w q u s : b_conns (set_tables se on off w q u s) = b_conns s. Proof. reflexivity. Qed.
Lemma b_picks_set_tables se on off w q u s : b_picks (set_tables se on off w q u s) = b_picks s. Proof. reflexivity. Qed.
Lemma b_tag_set_tables se on off w q u s : b_tag (set_tables se on off w q u s) = b_tag s. Proof. reflexivity. Qed.
Lemma b_auto_set_tables se on off w q u s : b_auto (set_tables se on off w q u s) = b_auto s. Proof. reflexivity. Qed.
Lemma b_npick_set_tables se on off w q u s : b_npick (set_tables se on off w q u s) = b_npick s. Proof. reflexivity. Qed.
Lemma b_cfg_set_subs d s : b_cfg (set_subs d s) = b_cfg s. Proof. reflexivity. Qed.
Lemma b_hooks_set_subs d s : b_hooks (set_subs d s) = b_hooks s. Proof. reflexivity. Qed.
Lemma b_now_set_subs d s : b_now (set_subs d s) = b_now s. Proof. reflexivity. Qed.
Lemma b_rt_set_subs d s : b_rt (set_subs d s) = b_rt s. Proof. reflexivity. Qed.
Lemma b_sessions_set_subs d s : b_sessions (set_subs d s) = b_sessions s. Proof. reflexivity. Qed.
Lemma b_online_set_subs d s : b_online (set_subs d s) = b_online s. Proof. reflexivity. Qed.
Lemma b_offline_set_subs d s : b_offline (set_subs d s) = b_offline s. Proof. reflexivity. Qed.
Lemma b_wills_set_subs d s : b_wills (set_subs d s) = b_wills s. Proof. reflexivity. Qed.
Lemma b_subs_set_subs d s : b_subs (set_subs d s) = d. Proof. reflexivity. Qed.
Lemma b_ret_set_subs d s : b_ret (set_subs d s) = b_ret s. Proof. reflexivity. Qed.
Lemma b_queues_set_subs d s : b_queues (set_subs d s) = b_queues s. Proof. reflexivity. Qed.
Lemma b_unacks_set_subs d s : b_unacks (set_subs d s) = b_unacks s. Proof. reflexivity. Qed.
Lemma b_conns_set_subs d s : b_conns (set_subs d s) = b_conns s. Proof. reflexivity. Qed.
Lemma b_picks_set_subs d s : b_picks (set_subs d s) = b_picks s. Proof. reflexivity. Qed.
Lemma b_tag_set_subs d s : b_tag (set_subs d s) = b_tag s. Proof. reflexivity. Qed.
Lemma b_auto_set_subs d s : b_auto (set_subs d s) = b_auto s. Proof. reflexivity. Qed.
Lemma b_npick_set_subs d s : b_npick (set_subs d s) = b_npick s. Proof. reflexivity. Qed.
Lemma b_cfg_set_ret r s : b_cfg (set_ret r s) = b_cfg s. Proof. reflexivity. Qed.
Lemma b_hooks_set_ret r s : b_hooks (set_ret r s) = b_hooks s. Proof. reflexivity. Qed.
Lemma b_now_set_ret r s : b_now (set_ret r s) = b_now s. Proof. reflexivity. Qed.
Lemma b_rt_set_ret r s : b_rt (set_ret r s) = b_rt s. Proof. reflexivity. Qed.
Lemma b_sessions_set_ret r s : b_sessions (set_ret r s) = b_sessions s. Proof. reflexivity. Qed.
Lemma b_online_set_ret r s : b_online (set_ret r s) = b_online s. Proof. reflexivity. Qed.
Lemma b_offline_set_ret r s : b_offline (set_ret r s) = b_offline s. Proof. reflexivity. Qed.
Lemma b_wills_set_ret r s : b_wills (set_ret r s) = b_wills s. Proof. reflexivity. Qed.
Lemma b_subs_set_ret r s : b_subs (set_ret r s) = b_subs s. Proof. reflexivity. Qed.
Lemma b_ret_set_ret r s : b_ret (set_ret r s) = r. Proof. reflexivity. Qed.
Lemma b_queues_set_ret r s : b_queues (set_ret r s) = b_queues s. Proof. reflexivity. Qed.
Lemma b_unacks_set_ret r s : b_unacks (set_ret r s) = b_unacks s. Proof. reflexivity. Qed.
Lemma b_conns_set_ret r s : b_conns (set_ret r s) = b_conns s. Proof. reflexivity. Qed.
Lemma b_picks_set_ret r s : b_picks (set_ret r s) = b_picks s. Proof. reflexivity. Qed.
Lemma b_tag_set_ret r s : b_tag (set_ret r s) = b_tag s. Proof. reflexivity. Qed.
Lemma b_auto_set_ret r s : b_auto (set_ret r s) = b_auto s. Proof. reflexivity. Qed.
Lemma b_npick_set_ret r s : b_npick (set_ret r s) = b_npick s. Proof. reflexivity. Qed.
Lemma b_cfg_set_time now rt s : b_cfg (set_time now rt s) = b_cfg s. Proof. reflexivity. Qed.
Lemma b_hooks_set_time now rt s : b_hooks (set_time now rt s) = b_hooks s. Proof. reflexivity. Qed.
Lemma b_now_set_time now rt s : b_now (set_time now rt s) = now. Proof. reflexivity. Qed.
Lemma b_rt_set_time now rt s : b_rt (set_time now rt s) = rt. Proof. reflexivity. Qed.
Lemma b_sessions_set_time now rt s : b_sessions (set_time now rt s) = b_sessions s. Proof. reflexivity. Qed.
Lemma b_online_set_time now rt s : b_online (set_time now rt s) = b_online s. Proof. reflexivity. Qed.
Lemma b_offline_set_time now rt s : b_offline (set_time now rt s) = b_offline s. Proof. reflexivity. Qed.
Lemma b_wills_set_time now rt s : b_wills (set_time now rt s) = b_wills s. Proof. reflexivity. Qed.
Lemma b_subs_set_time now rt s : b_subs (set_time now rt s) = b_subs s. Proof. reflexivity. Qed.
Lemma b_ret_set_time now rt s : b_ret (set_time now rt s) = b_ret s. Proof. reflexivity. Qed.
Lemma b_queues_set_time now rt s : b_queues (set_time now rt s) = b_queues s. Proof. reflexivity. Qed.
Lemma b_unacks_set_time now rt s : b_unacks (set_time now rt s) = b_unacks s. Proof. reflexivity. Qed.
Lemma b_conns_set_time now rt s : b_conns (set_time now rt s) = b_conns s. Proof. reflexivity. Qed.
Lemma b_picks_set_time now rt s : b_picks (set_time now rt s) = b_picks s. Proof. reflexivity. Qed.
Lemma b_tag_set_time now rt s : b_tag (set_time now rt s) = b_tag s. Proof. reflexivity. Qed.
Lemma b_auto_set_time now rt s : b_auto (set_time now rt s) = b_auto s. Proof. reflexivity. Qed.
Lemma b_npick_set_time now rt s : b_npick (set_time now rt s) = b_npick s. Proof. reflexivity. Qed.
Lemma b_cfg_set_picks_tag p t s : b_cfg (set_picks_tag p t s) = b_cfg s. Proof. reflexivity. Qed.
Lemma b_hooks_set_picks_tag p t s : b_hooks (set_picks_tag p t s) = b_hooks s. Proof. reflexivity. Qed.
Lemma b_now_set_picks_tag p t s : b_now (set_picks_tag p t s) = b_now s. Proof. reflexivity. Qed.
Lemma b_rt_set_picks_tag p t s : b_rt (set_picks_tag p t s) = b_rt s. Proof. reflexivity. Qed.
Lemma b_sessions_set_picks_tag p t s : b_sessions (set_picks_tag p t s) = b_sessions s. Proof. reflexivity. Qed.
Lemma b_online_set_picks_tag p t s : b_online (set_picks_tag p t s) = b_online s. Proof. reflexivity. Qed.
Lemma b_offline_set_picks_tag p t s : b_offline (set_picks_tag p t s) = b_offline s. Proof. reflexivity. Qed.
Lemma b_wills_set_picks_tag p t s : b_wills (set_picks_tag p t s) = b_wills s. Proof. reflexivity. Qed.
Lemma b_subs_set_picks_tag p t s : b_subs (set_picks_tag p t s) = b_subs s. Proof. reflexivity. Qed.
Lemma b_ret_set_picks_tag p t s : b_ret (set_picks_tag p t s) = b_ret s. Proof. reflexivity. Qed.
Lemma b_queues_set_picks_tag p t s : b_queues (set_picks_tag p t s) = b_queues s. Proof. reflexivity. Qed.
Lemma b_unacks_set_picks_tag p t s : b_unacks (set_picks_tag p t s) = b_unacks s. Proof. reflexivity. Qed.
Lemma b_conns_set_picks_tag p t s : b_conns (set_picks_tag p t s) = b_conns s. Proof. reflexivity. Qed.
Lemma b_picks_set_picks_tag p t s : b_picks (set_picks_tag p t s) = p. Proof. reflexivity. Qed.
Lemma b_tag_set_picks_tag p t s : b_tag (set_picks_tag p t s) = t. Proof. reflexivity. Qed.
Lemma b_auto_set_picks_tag p t s : b_auto (set_picks_tag p t s) = b_auto s. Proof. reflexivity. Qed.
Lemma b_npick_set_picks_tag p t s : b_npick (set_picks_tag p t s) = b_npick s. Proof. reflexivity. Qed.
Lemma b_cfg_set_unacks u s : b_cfg (set_unacks u s) = b_cfg s. Proof. reflexivity. Qed.
Lemma b_hooks_set_unacks u s : b_hooks (set_unacks u s) = b_hooks s. Proof. reflexivity. Qed.
Lemma b_now_set_unacks u s : b_now (set_unacks u s) = b_now s. Proof. reflexivity. Qed.
Lemma b_rt_set_unacks u s : b_rt (set_unacks u s) = b_rt s. Proof. reflexivity. Qed.
Lemma b_sessions_set_unacks u s : b_sessions (set_unacks u s) = b_sessions s. Proof. reflexivity. Qed.
Lemma b_online_set_unacks u s : b_online (set_unacks u s) = b_online s. Proof. reflexivity. Qed.
Lemma b_offline_set_unacks u s : b_offline (set_unacks u s) = b_offline s. Proof. reflexivity. Qed.
Lemma b_wills_set_unacks u s : b_wills (set_unacks u s) = b_wills s. Proof. reflexivity. Qed.
Lemma b_subs_set_unacks u s : b_subs (set_unacks u s) = b_subs s. Proof. reflexivity. Qed.
Lemma b_ret_set_unacks u s : b_ret (set_unacks u s) = b_ret s. Proof. reflexivity. Qed.
Lemma b_queues_set_unacks u s : b_queues (set_unacks u s) = b_queues s. Proof. reflexivity. Qed.
Lemma b_unacks_set_unacks u s : b_unacks (set_unacks u s) = u. Proof. reflexivity. Qed.
Lemma b_conns_set_unacks u s : b_conns (set_unacks u s) = b_conns s. Proof. reflexivity. Qed.
Lemma b_picks_set_unacks u s : b_picks (set_unacks u s) = b_picks s. Proof. reflexivity. Qed.
Lemma b_tag_set_unacks u s : b_tag (set_unacks u s) = b_tag s. Proof. reflexivity. Qed.
Lemma b_auto_set_unacks u s : b_auto (set_unacks u s) = b_auto s. Proof. reflexivity. Qed.
Lemma b_npick_set_unacks u s : b_npick (set_unacks u s) = b_npick s. Proof. reflexivity. Qed.
Lemma b_cfg_count_pick  s : b_cfg (count_pick  s) = b_cfg s. Proof. reflexivity. Qed.
Lemma b_hooks_count_pick  s : b_hooks (count_pick  s) = b_hooks s. Proof. reflexivity. Qed.
Lemma b_now_count_pick  s : b_now (count_pick  s) = b_now s. Proof. reflexivity. Qed.
Lemma b_rt_count_pick  s : b_rt (count_pick  s) = b_rt s. Proof. reflexivity. Qed.
Lemma b_sessions_count_pick  s : b_sessions (count_pick  s) = b_sessions s. Proof. reflexivity. Qed.
Lemma b_online_count_pick  s : b_online (count_pick  s) = b_online s. Proof. reflexivity. Qed.
Lemma b_offline_count_pick  s : b_offline (count_pick  s) = b_offline s. Proof. reflexivity. Qed.
Lemma b_wills_count_pick  s : b_wills (count_pick  s) = b_wills s. Proof. reflexivity. Qed.
Lemma b_subs_count_pick  s : b_subs (count_pick  s) = b_subs s. Proof. reflexivity. Qed.
Lemma b_ret_count_pick  s : b_ret (count_pick  s) = b_ret s. Proof. reflexivity. Qed.
Lemma b_queues_count_pick  s : b_queues (count_pick  s) = b_queues s. Proof. reflexivity. Qed.
Lemma b_unacks_count_pick  s : b_unacks (count_pick  s) = b_unacks s. Proof. reflexivity. Qed.
Lemma b_conns_count_pick  s : b_conns (count_pick  s) = b_conns s. Proof. reflexivity. Qed.
Lemma b_picks_count_pick  s : b_picks (count_pick  s) = b_picks s. Proof. reflexivity. Qed.
Lemma b_tag_count_pick  s : b_tag (count_pick  s) = b_tag s. Proof. reflexivity. Qed.
Lemma b_auto_count_pick  s : b_auto (count_pick  s) = b_auto s. Proof. reflexivity. Qed.
Lemma b_npick_count_pick  s : b_npick (count_pick  s) = b_npick s + 1. Proof. reflexivity. Qed.
Lemma b_cfg_set_auto a s : b_cfg (set_auto a s) = b_cfg s. Proof. reflexivity. Qed.
Lemma b_hooks_set_auto a s : b_hooks (set_auto a s) = b_hooks s. Proof. reflexivity. Qed.
Lemma b_now_set_auto a s : b_now (set_auto a s) = b_now s. Proof. reflexivity. Qed.
Lemma b_rt_set_auto a s : b_rt (set_auto a s) = b_rt s. Proof. reflexivity. Qed.
Lemma b_sessions_set_auto a s : b_sessions (set_auto a s) = b_sessions s. Proof. reflexivity. Qed.
Lemma b_online_set_auto a s : b_online (set_auto a s) = b_online s. Proof. reflexivity. Qed.
Lemma b_offline_set_auto a s : b_offline (set_auto a s) = b_offline s. Proof. reflexivity. Qed.
Lemma b_wills_set_auto a s : b_wills (set_auto a s) = b_wills s. Proof. reflexivity. Qed.
Lemma b_subs_set_auto a s : b_subs (set_auto a s) = b_subs s. Proof. reflexivity. Qed.
Lemma b_ret_set_auto a s : b_ret (set_auto a s) = b_ret s. Proof. reflexivity. Qed.
Lemma b_queues_set_auto a s : b_queues (set_auto a s) = b_queues s. Proof. reflexivity. Qed.
Lemma b_unacks_set_auto a s : b_unacks (set_auto a s) = b_unacks s. Proof. reflexivity. Qed.
Lemma b_conns_set_auto a s : b_conns (set_auto a s) = b_conns s. Proof. reflexivity. Qed.
Lemma b_picks_set_auto a s : b_picks (set_auto a s) = b_picks s. Proof. reflexivity. Qed.
Lemma b_tag_set_auto a s : b_tag (set_auto a s) = b_tag s. Proof. reflexivity. Qed.
Lemma b_auto_set_auto a s : b_auto (set_auto a s) = a. Proof. reflexivity. Qed.
Lemma b_npick_set_auto a s : b_npick (set_auto a s) = b_npick s. Proof. reflexivity. Qed.
#[export] Hint Rewrite b_cfg_upd_conn b_hooks_upd_conn b_now_upd_conn b_rt_upd_conn b_sessions_upd_conn b_online_upd_conn b_offline_upd_conn b_wills_upd_conn b_subs_upd_conn b_ret_upd_conn b_queues_upd_conn b_unacks_upd_conn b_conns_upd_conn b_picks_upd_conn b_tag_upd_conn b_auto_upd_conn b_npick_upd_conn b_cfg_set_queues b_hooks_set_queues b_now_set_queues b_rt_set_queues b_sessions_set_queues b_online_set_queues b_offline_set_queues b_wills_set_queues b_subs_set_queues b_ret_set_queues b_queues_set_queues b_unacks_set_queues b_conns_set_queues b_picks_set_queues b_tag_set_queues b_auto_set_queues b_npick_set_queues b_cfg_set_tables b_hooks_set_tables b_now_set_tables b_rt_set_tables b_sessions_set_tables b_online_set_tables b_offline_set_tables b_wills_set_tables b_subs_set_tables b_ret_set_tables b_queues_set_tables b_unacks_set_tables b_conns_set_tables b_picks_set_tables b_tag_set_tables b_auto_set_tables b_npick_set_tables b_cfg_set_subs b_hooks_set_subs b_now_set_subs b_rt_set_subs b_sessions_set_subs b_online_set_subs b_offline_set_subs b_wills_set_subs b_subs_set_subs b_ret_set_subs b_queues_set_subs b_unacks_set_subs b_conns_set_subs b_picks_set_subs b_tag_set_subs b_auto_set_subs b_npick_set_subs b_cfg_set_ret b_hooks_set_ret b_now_set_ret b_rt_set_ret b_sessions_set_ret b_online_set_ret b_offline_set_ret b_wills_set_ret b_subs_set_ret b_ret_set_ret b_queues_set_ret b_unacks_set_ret b_conns_set_ret b_picks_set_ret b_tag_set_ret b_auto_set_ret b_npick_set_ret b_cfg_set_time b_hooks_set_time b_now_set_time b_rt_set_time b_sessions_set_time b_online_set_time b_offline_set_time b_wills_set_time b_subs_set_time b_ret_set_time b_queues_set_time b_unacks_set_time b_conns_set_time b_picks_set_time b_tag_set_time b_auto_set_time b_npick_set_time b_cfg_set_picks_tag b_hooks_set_picks_tag b_now_set_picks_tag b_rt_set_picks_tag b_sessions_set_picks_tag b_online_set_picks_tag b_offline_set_picks_tag b_wills_set_picks_tag b_subs_set_picks_tag b_ret_set_picks_tag b_queues_set_picks_tag b_unacks_set_picks_tag b_conns_set_picks_tag b_picks_set_picks_tag b_tag_set_picks_tag b_auto_set_picks_tag b_npick_set_picks_tag b_cfg_set_unacks b_hooks_set_unacks b_now_set_unacks b_rt_set_unacks b_sessions_set_unacks b_online_set_unacks b_offline_set_unacks b_wills_set_unacks b_subs_set_unacks b_ret_set_unacks b_queues_set_unacks b_unacks_set_unacks b_conns_set_unacks b_picks_set_unacks b_tag_set_unacks b_auto_set_unacks b_npick_set_unacks b_cfg_count_pick b_hooks_count_pick b_now_count_pick b_rt_count_pick b_sessions_count_pick b_online_count_pick b_offline_count_pick b_wills_count_pick b_subs_count_pick b_ret_count_pick b_queues_count_pick b_unacks_count_pick b_conns_count_pick b_picks_count_pick b_tag_count_pick b_auto_count_pick b_npick_count_pick b_cfg_set_auto b_hooks_set_auto b_now_set_auto b_rt_set_auto b_sessions_set_auto b_online_set_auto b_offline_set_auto b_wills_set_auto b_subs_set_auto b_ret_set_auto b_queues_set_auto b_unacks_set_auto b_conns_set_auto b_picks_set_auto b_tag_set_auto b_auto_set_auto b_npick_set_auto : bproj.
Lemma k_cid_set_phase ph k : k_cid (set_phase ph k) = k_cid k. Proof. reflexivity. Qed.
Lemma k_v_set_phase ph k : k_v (set_phase ph k) = k_v k. Proof. reflexivity. Qed.
Lemma k_phase_set_phase ph k : k_phase (set_phase ph k) = ph. Proof. reflexivity. Qed.
Lemma k_max_inflight_set_phase ph k : k_max_inflight (set_phase ph k) = k_max_inflight k. Proof. reflexivity. Qed.
Lemma k_client_max_packet_set_phase ph k : k_client_max_packet (set_phase ph k) = k_client_max_packet k. Proof. reflexivity. Qed.
Lemma k_client_alias_max_set_phase ph k : k_client_alias_max (set_phase ph k) = k_client_alias_max k. Proof. reflexivity. Qed.
Lemma k_server_alias_max_set_phase ph k : k_server_alias_max (set_phase ph k) = k_server_alias_max k. Proof. reflexivity. Qed.
Lemma k_recv_max_set_phase ph k : k_recv_max (set_phase ph k) = k_recv_max k. Proof. reflexivity. Qed.
Lemma k_keepalive_set_phase ph k : k_keepalive (set_phase ph k) = k_keepalive k. Proof. reflexivity. Qed.
Lemma k_session_expiry_set_phase ph k : k_session_expiry (set_phase ph k) = k_session_expiry k. Proof. reflexivity. Qed.
Lemma k_retain_avail_set_phase ph k : k_retain_avail (set_phase ph k) = k_retain_avail k. Proof. reflexivity. Qed.
Lemma k_wildcard_set_phase ph k : k_wildcard (set_phase ph k) = k_wildcard k. Proof. reflexivity. Qed.
Lemma k_subid_set_phase ph k : k_subid (set_phase ph k) = k_subid k. Proof. reflexivity. Qed.
Lemma k_shared_set_phase ph k : k_shared (set_phase ph k) = k_shared k. Proof. reflexivity. Qed.
Lemma k_lim_set_phase ph k : k_lim (set_phase ph k) = k_lim k. Proof. reflexivity. Qed.
Lemma k_held_set_phase ph k : k_held (set_phase ph k) = match ph with PhClosed => None | _ => k_held k end. Proof. reflexivity. Qed.
Lemma k_alias_out_set_phase ph k : k_alias_out (set_phase ph k) = k_alias_out k. Proof. reflexivity. Qed.
Lemma k_alias_in_set_phase ph k : k_alias_in (set_phase ph k) = k_alias_in k. Proof. reflexivity. Qed.
Lemma k_alias_in_size_set_phase ph k : k_alias_in_size (set_phase ph k) = k_alias_in_size k. Proof. reflexivity. Qed.
Lemma k_quota_set_phase ph k : k_quota (set_phase ph k) = k_quota k. Proof. reflexivity. Qed.
Lemma k_clean_will_set_phase ph k : k_clean_will (set_phase ph k) = k_clean_will k. Proof. reflexivity. Qed.
Lemma k_disc_sei_set_phase ph k : k_disc_sei (set_phase ph k) = k_disc_sei k. Proof. reflexivity. Qed.
Lemma k_got_disconnect_set_phase ph k : k_got_disconnect (set_phase ph k) = k_got_disconnect k. Proof. reflexivity. Qed.
Lemma k_force_remove_set_phase ph k : k_force_remove (set_phase ph k) = k_force_remove k. Proof. reflexivity. Qed.
Lemma k_drained_set_phase ph k : k_drained (set_phase ph k) = k_drained k. Proof. reflexivity. Qed.
Lemma k_cid_set_lim_held l h dr k : k_cid (set_lim_held l h dr k) = k_cid k. Proof. reflexivity. Qed.
Lemma k_v_set_lim_held l h dr k : k_v (set_lim_held l h dr k) = k_v k. Proof. reflexivity. Qed.
Lemma k_phase_set_lim_held l h dr k : k_phase (set_lim_held l h dr k) = k_phase k. Proof. reflexivity. Qed.
Lemma k_max_inflight_set_lim_held l h dr k : k_max_inflight (set_lim_held l h dr k) = k_max_inflight k. Proof. reflexivity. Qed.
Lemma k_client_max_packet_set_lim_held l h dr k : k_client_max_packet (set_lim_held l h dr k) = k_client_max_packet k. Proof. reflexivity. Qed.
Lemma k_client_alias_max_set_lim_held l h dr k : k_client_alias_max (set_lim_held l h dr k) = k_client_alias_max k. Proof. reflexivity. Qed.
Lemma k_server_alias_max_set_lim_held l h dr k : k_server_alias_max (set_lim_held l h dr k) = k_server_alias_max k. Proof. reflexivity. Qed.
Lemma k_recv_max_set_lim_held l h dr k : k_recv_max (set_lim_held l h dr k) = k_recv_max k. Proof. reflexivity. Qed.
Lemma k_keepalive_set_lim_held l h dr k : k_keepalive (set_lim_held l h dr k) = k_keepalive k. Proof. reflexivity. Qed.
Lemma k_session_expiry_set_lim_held l h dr k : k_session_expiry (set_lim_held l h dr k) = k_session_expiry k. Proof. reflexivity. Qed.
Lemma k_retain_avail_set_lim_held l h dr k : k_retain_avail (set_lim_held l h dr k) = k_retain_avail k. Proof. reflexivity. Qed.
Lemma k_wildcard_set_lim_held l h dr k : k_wildcard (set_lim_held l h dr k) = k_wildcard k. Proof. reflexivity. Qed.
Lemma k_subid_set_lim_held l h dr k : k_subid (set_lim_held l h dr k) = k_subid k. Proof. reflexivity. Qed.
Lemma k_shared_set_lim_held l h dr k : k_shared (set_lim_held l h dr k) = k_shared k. Proof. reflexivity. Qed.
Lemma k_lim_set_lim_held l h dr k : k_lim (set_lim_held l h dr k) = l. Proof. reflexivity. Qed.
Lemma k_held_set_lim_held l h dr k : k_held (set_lim_held l h dr k) = h. Proof. reflexivity. Qed.
Lemma k_alias_out_set_lim_held l h dr k : k_alias_out (set_lim_held l h dr k) = k_alias_out k. Proof. reflexivity. Qed.
Lemma k_alias_in_set_lim_held l h dr k : k_alias_in (set_lim_held l h dr k) = k_alias_in k. Proof. reflexivity. Qed.
Lemma k_alias_in_size_set_lim_held l h dr k : k_alias_in_size (set_lim_held l h dr k) = k_alias_in_size k. Proof. reflexivity. Qed.
Lemma k_quota_set_lim_held l h dr k : k_quota (set_lim_held l h dr k) = k_quota k. Proof. reflexivity. Qed.
Lemma k_clean_will_set_lim_held l h dr k : k_clean_will (set_lim_held l h dr k) = k_clean_will k. Proof. reflexivity. Qed.
Lemma k_disc_sei_set_lim_held l h dr k : k_disc_sei (set_lim_held l h dr k) = k_disc_sei k. Proof. reflexivity. Qed.
Lemma k_got_disconnect_set_lim_held l h dr k : k_got_disconnect (set_lim_held l h dr k) = k_got_disconnect k. Proof. reflexivity. Qed.
Lemma k_force_remove_set_lim_held l h dr k : k_force_remove (set_lim_held l h dr k) = k_force_remove k. Proof. reflexivity. Qed.
Lemma k_drained_set_lim_held l h dr k : k_drained (set_lim_held l h dr k) = dr. Proof. reflexivity. Qed.
Lemma k_cid_set_quota q k : k_cid (set_quota q k) = k_cid k. Proof. reflexivity. Qed.
Lemma k_v_set_quota q k : k_v (set_quota q k) = k_v k. Proof. reflexivity. Qed.
Lemma k_phase_set_quota q k : k_phase (set_quota q k) = k_phase k. Proof. reflexivity. Qed.
Lemma k_max_inflight_set_quota q k : k_max_inflight (set_quota q k) = k_max_inflight k. Proof. reflexivity. Qed.
Lemma k_client_max_packet_set_quota q k : k_client_max_packet (set_quota q k) = k_client_max_packet k. Proof. reflexivity. Qed.
Lemma k_client_alias_max_set_quota q k : k_client_alias_max (set_quota q k) = k_client_alias_max k. Proof. reflexivity. Qed.
Lemma k_server_alias_max_set_quota q k : k_server_alias_max (set_quota q k) = k_server_alias_max k. Proof. reflexivity. Qed.
Lemma k_recv_max_set_quota q k : k_recv_max (set_quota q k) = k_recv_max k. Proof. reflexivity. Qed.
Lemma k_keepalive_set_quota q k : k_keepalive (set_quota q k) = k_keepalive k. Proof. reflexivity. Qed.
Lemma k_session_expiry_set_quota q k : k_session_expiry (set_quota q k) = k_session_expiry k. Proof. reflexivity. Qed.
Lemma k_retain_avail_set_quota q k : k_retain_avail (set_quota q k) = k_retain_avail k. Proof. reflexivity. Qed.
Lemma k_wildcard_set_quota q k : k_wildcard (set_quota q k) = k_wildcard k. Proof. reflexivity. Qed.
Lemma k_subid_set_quota q k : k_subid (set_quota q k) = k_subid k. Proof. reflexivity. Qed.
Lemma k_shared_set_quota q k : k_shared (set_quota q k) = k_shared k. Proof. reflexivity. Qed.
Lemma k_lim_set_quota q k : k_lim (set_quota q k) = k_lim k. Proof. reflexivity. Qed.
Lemma k_held_set_quota q k : k_held (set_quota q k) = k_held k. Proof. reflexivity. Qed.
Lemma k_alias_out_set_quota q k : k_alias_out (set_quota q k) = k_alias_out k. Proof. reflexivity. Qed.
Lemma k_alias_in_set_quota q k : k_alias_in (set_quota q k) = k_alias_in k. Proof. reflexivity. Qed.
Lemma k_alias_in_size_set_quota q k : k_alias_in_size (set_quota q k) = k_alias_in_size k. Proof. reflexivity. Qed.
Lemma k_quota_set_quota q k : k_quota (set_quota q k) = q. Proof. reflexivity. Qed.
Lemma k_clean_will_set_quota q k : k_clean_will (set_quota q k) = k_clean_will k. Proof. reflexivity. Qed.
Lemma k_disc_sei_set_quota q k : k_disc_sei (set_quota q k) = k_disc_sei k. Proof. reflexivity. Qed.
Lemma k_got_disconnect_set_quota q k : k_got_disconnect (set_quota q k) = k_got_disconnect k. Proof. reflexivity. Qed.
Lemma k_force_remove_set_quota q k : k_force_remove (set_quota q k) = k_force_remove k. Proof. reflexivity. Qed.
Lemma k_drained_set_quota q k : k_drained (set_quota q k) = k_drained k. Proof. reflexivity. Qed.
Lemma k_cid_set_alias_in a k : k_cid (set_alias_in a k) = k_cid k. Proof. reflexivity. Qed.
Lemma k_v_set_alias_in a k : k_v (set_alias_in a k) = k_v k. Proof. reflexivity. Qed.
Lemma k_phase_set_alias_in a k : k_phase (set_alias_in a k) = k_phase k. Proof. reflexivity. Qed.
Lemma k_max_inflight_set_alias_in a k : k_max_inflight (set_alias_in a k) = k_max_inflight k. Proof. reflexivity. Qed.
Lemma k_client_max_packet_set_alias_in a k : k_client_max_packet (set_alias_in a k) = k_client_max_packet k. Proof. reflexivity. Qed.
Lemma k_client_alias_max_set_alias_in a k : k_client_alias_max (set_alias_in a k) = k_client_alias_max k. Proof. reflexivity. Qed.
Lemma k_server_alias_max_set_alias_in a k : k_server_alias_max (set_alias_in a k) = k_server_alias_max k. Proof. reflexivity. Qed.
Lemma k_recv_max_set_alias_in a k : k_recv_max (set_alias_in a k) = k_recv_max k. Proof. reflexivity. Qed.
Lemma k_keepalive_set_alias_in a k : k_keepalive (set_alias_in a k) = k_keepalive k. Proof. reflexivity. Qed.
Lemma k_session_expiry_set_alias_in a k : k_session_expiry (set_alias_in a k) = k_session_expiry k. Proof. reflexivity. Qed.
Lemma k_retain_avail_set_alias_in a k : k_retain_avail (set_alias_in a k) = k_retain_avail k. Proof. reflexivity. Qed.
Lemma k_wildcard_set_alias_in a k : k_wildcard (set_alias_in a k) = k_wildcard k. Proof. reflexivity. Qed.
Lemma k_subid_set_alias_in a k : k_subid (set_alias_in a k) = k_subid k. Proof. reflexivity. Qed.
Lemma k_shared_set_alias_in a k : k_shared (set_alias_in a k) = k_shared k. Proof. reflexivity. Qed.
Lemma k_lim_set_alias_in a k : k_lim (set_alias_in a k) = k_lim k. Proof. reflexivity. Qed.
Lemma k_held_set_alias_in a k : k_held (set_alias_in a k) = k_held k. Proof. reflexivity. Qed.
Lemma k_alias_out_set_alias_in a k : k_alias_out (set_alias_in a k) = k_alias_out k. Proof. reflexivity. Qed.
Lemma k_alias_in_set_alias_in a k : k_alias_in (set_alias_in a k) = a. Proof. reflexivity. Qed.
Lemma k_alias_in_size_set_alias_in a k : k_alias_in_size (set_alias_in a k) = k_alias_in_size k. Proof. reflexivity. Qed.
Lemma k_quota_set_alias_in a k : k_quota (set_alias_in a k) = k_quota k. Proof. reflexivity. Qed.
Lemma k_clean_will_set_alias_in a k : k_clean_will (set_alias_in a k) = k_clean_will k. Proof. reflexivity. Qed.
Lemma k_disc_sei_set_alias_in a k : k_disc_sei (set_alias_in a k) = k_disc_sei k. Proof. reflexivity. Qed.
Lemma k_got_disconnect_set_alias_in a k : k_got_disconnect (set_alias_in a k) = k_got_disconnect k. Proof. reflexivity. Qed.
Lemma k_force_remove_set_alias_in a k : k_force_remove (set_alias_in a k) = k_force_remove k. Proof. reflexivity. Qed.
Lemma k_drained_set_alias_in a k : k_drained (set_alias_in a k) = k_drained k. Proof. reflexivity. Qed.
Lemma k_cid_set_disc cw sei k : k_cid (set_disc cw sei k) = k_cid k. Proof. reflexivity. Qed.
Lemma k_v_set_disc cw sei k : k_v (set_disc cw sei k) = k_v k. Proof. reflexivity. Qed.
Lemma k_phase_set_disc cw sei k : k_phase (set_disc cw sei k) = k_phase k. Proof. reflexivity. Qed.
Lemma k_max_inflight_set_disc cw sei k : k_max_inflight (set_disc cw sei k) = k_max_inflight k. Proof. reflexivity. Qed.
Lemma k_client_max_packet_set_disc cw sei k : k_client_max_packet (set_disc cw sei k) = k_client_max_packet k. Proof. reflexivity. Qed.
Lemma k_client_alias_max_set_disc cw sei k : k_client_alias_max (set_disc cw sei k) = k_client_alias_max k. Proof. reflexivity. Qed.
Lemma k_server_alias_max_set_disc cw sei k : k_server_alias_max (set_disc cw sei k) = k_server_alias_max k. Proof. reflexivity. Qed.
Lemma k_recv_max_set_disc cw sei k : k_recv_max (set_disc cw sei k) = k_recv_max k. Proof. reflexivity. Qed.
Lemma k_keepalive_set_disc cw sei k : k_keepalive (set_disc cw sei k) = k_keepalive k. Proof. reflexivity. Qed.
Lemma k_session_expiry_set_disc cw sei k : k_session_expiry (set_disc cw sei k) = k_session_expiry k. Proof. reflexivity. Qed.
Lemma k_retain_avail_set_disc cw sei k : k_retain_avail (set_disc cw sei k) = k_retain_avail k. Proof. reflexivity. Qed.
Lemma k_wildcard_set_disc cw sei k : k_wildcard (set_disc cw sei k) = k_wildcard k. Proof. reflexivity. Qed.
Lemma k_subid_set_disc cw sei k : k_subid (set_disc cw sei k) = k_subid k. Proof. reflexivity. Qed.
Lemma k_shared_set_disc cw sei k : k_shared (set_disc cw sei k) = k_shared k. Proof. reflexivity. Qed.
Lemma k_lim_set_disc cw sei k : k_lim (set_disc cw sei k) = k_lim k. Proof. reflexivity. Qed.
Lemma k_held_set_disc cw sei k : k_held (set_disc cw sei k) = k_held k. Proof. reflexivity. Qed.
Lemma k_alias_out_set_disc cw sei k : k_alias_out (set_disc cw sei k) = k_alias_out k. Proof. reflexivity. Qed.
Lemma k_alias_in_set_disc cw sei k : k_alias_in (set_disc cw sei k) = k_alias_in k. Proof. reflexivity. Qed.
Lemma k_alias_in_size_set_disc cw sei k : k_alias_in_size (set_disc cw sei k) = k_alias_in_size k. Proof. reflexivity. Qed.
Lemma k_quota_set_disc cw sei k : k_quota (set_disc cw sei k) = k_quota k. Proof. reflexivity. Qed.
Lemma k_clean_will_set_disc cw sei k : k_clean_will (set_disc cw sei k) = cw. Proof. reflexivity. Qed.
Lemma k_disc_sei_set_disc cw sei k : k_disc_sei (set_disc cw sei k) = sei. Proof. reflexivity. Qed.
Lemma k_got_disconnect_set_disc cw sei k : k_got_disconnect (set_disc cw sei k) = true. Proof. reflexivity. Qed.
Lemma k_force_remove_set_disc cw sei k : k_force_remove (set_disc cw sei k) = k_force_remove k. Proof. reflexivity. Qed.
Lemma k_drained_set_disc cw sei k : k_drained (set_disc cw sei k) = k_drained k. Proof. reflexivity. Qed.
Lemma k_cid_set_force  k : k_cid (set_force  k) = k_cid k. Proof. reflexivity. Qed.
Lemma k_v_set_force  k : k_v (set_force  k) = k_v k. Proof. reflexivity. Qed.
Lemma k_phase_set_force  k : k_phase (set_force  k) = k_phase k. Proof. reflexivity. Qed.
Lemma k_max_inflight_set_force  k : k_max_inflight (set_force  k) = k_max_inflight k. Proof. reflexivity. Qed.
Lemma k_client_max_packet_set_force  k : k_client_max_packet (set_force  k) = k_client_max_packet k. Proof. reflexivity. Qed.
Lemma k_client_alias_max_set_force  k : k_client_alias_max (set_force  k) = k_client_alias_max k. Proof. reflexivity. Qed.
Lemma k_server_alias_max_set_force  k : k_server_alias_max (set_force  k) = k_server_alias_max k. Proof. reflexivity. Qed.
Lemma k_recv_max_set_force  k : k_recv_max (set_force  k) = k_recv_max k. Proof. reflexivity. Qed.
Lemma k_keepalive_set_force  k : k_keepalive (set_force  k) = k_keepalive k. Proof. reflexivity. Qed.
Lemma k_session_expiry_set_force  k : k_session_expiry (set_force  k) = k_session_expiry k. Proof. reflexivity. Qed.
Lemma k_retain_avail_set_force  k : k_retain_avail (set_force  k) = k_retain_avail k. Proof. reflexivity. Qed.
Lemma k_wildcard_set_force  k : k_wildcard (set_force  k) = k_wildcard k. Proof. reflexivity. Qed.
Lemma k_subid_set_force  k : k_subid (set_force  k) = k_subid k. Proof. reflexivity. Qed.
Lemma k_shared_set_force  k : k_shared (set_force  k) = k_shared k. Proof. reflexivity. Qed.
Lemma k_lim_set_force  k : k_lim (set_force  k) = k_lim k. Proof. reflexivity. Qed.
Lemma k_held_set_force  k : k_held (set_force  k) = k_held k. Proof. reflexivity. Qed.
Lemma k_alias_out_set_force  k : k_alias_out (set_force  k) = k_alias_out k. Proof. reflexivity. Qed.
Lemma k_alias_in_set_force  k : k_alias_in (set_force  k) = k_alias_in k. Proof. reflexivity. Qed.
Lemma k_alias_in_size_set_force  k : k_alias_in_size (set_force  k) = k_alias_in_size k. Proof. reflexivity. Qed.
Lemma k_quota_set_force  k : k_quota (set_force  k) = k_quota k. Proof. reflexivity. Qed.
Lemma k_clean_will_set_force  k : k_clean_will (set_force  k) = k_clean_will k. Proof. reflexivity. Qed.
Lemma k_disc_sei_set_force  k : k_disc_sei (set_force  k) = k_disc_sei k. Proof. reflexivity. Qed.
Lemma k_got_disconnect_set_force  k : k_got_disconnect (set_force  k) = k_got_disconnect k. Proof. reflexivity. Qed.
Lemma k_force_remove_set_force  k : k_force_remove (set_force  k) = true. Proof. reflexivity. Qed.
Lemma k_drained_set_force  k : k_drained (set_force  k) = k_drained k. Proof. reflexivity. Qed.
#[export] Hint Rewrite k_cid_set_phase k_v_set_phase k_phase_set_phase k_max_inflight_set_phase k_client_max_packet_set_phase k_client_alias_max_set_phase k_server_alias_max_set_phase k_recv_max_set_phase k_keepalive_set_phase k_session_expiry_set_phase k_retain_avail_set_phase k_wildcard_set_phase k_subid_set_phase k_shared_set_phase k_lim_set_phase k_held_set_phase k_alias_out_set_phase k_alias_in_set_phase k_alias_in_size_set_phase k_quota_set_phase k_clean_will_set_phase k_disc_sei_set_phase k_got_disconnect_set_phase k_force_remove_set_phase k_drained_set_phase k_cid_set_lim_held k_v_set_lim_held k_phase_set_lim_held k_max_inflight_set_lim_held k_client_max_packet_set_lim_held k_client_alias_max_set_lim_held k_server_alias_max_set_lim_held k_recv_max_set_lim_held k_keepalive_set_lim_held k_session_expiry_set_lim_held k_retain_avail_set_lim_held k_wildcard_set_lim_held k_subid_set_lim_held k_shared_set_lim_held k_lim_set_lim_held k_held_set_lim_held k_alias_out_set_lim_held k_alias_in_set_lim_held k_alias_in_size_set_lim_held k_quota_set_lim_held k_clean_will_set_lim_held k_disc_sei_set_lim_held k_got_disconnect_set_lim_held k_force_remove_set_lim_held k_drained_set_lim_held k_cid_set_quota k_v_set_quota k_phase_set_quota k_max_inflight_set_quota k_client_max_packet_set_quota k_client_alias_max_set_quota k_server_alias_max_set_quota k_recv_max_set_quota k_keepalive_set_quota k_session_expiry_set_quota k_retain_avail_set_quota k_wildcard_set_quota k_subid_set_quota k_shared_set_quota k_lim_set_quota k_held_set_quota k_alias_out_set_quota k_alias_in_set_quota k_alias_in_size_set_quota k_quota_set_quota k_clean_will_set_quota k_disc_sei_set_quota k_got_disconnect_set_quota k_force_remove_set_quota k_drained_set_quota k_cid_set_alias_in k_v_set_alias_in k_phase_set_alias_in k_max_inflight_set_alias_in k_client_max_packet_set_alias_in k_client_alias_max_set_alias_in k_server_alias_max_set_alias_in k_recv_max_set_alias_in k_keepalive_set_alias_in k_session_expiry_set_alias_in k_retain_avail_set_alias_in k_wildcard_set_alias_in k_subid_set_alias_in k_shared_set_alias_in k_lim_set_alias_in k_held_set_alias_in k_alias_out_set_alias_in k_alias_in_set_alias_in k_alias_in_size_set_alias_in k_quota_set_alias_in k_clean_will_set_alias_in k_disc_sei_set_alias_in k_got_disconnect_set_alias_in k_force_remove_set_alias_in k_drained_set_alias_in k_cid_set_disc k_v_set_disc k_phase_set_disc k_max_inflight_set_disc k_client_max_packet_set_disc k_client_alias_max_set_disc k_server_alias_max_set_disc k_recv_max_set_disc k_keepalive_set_disc k_session_expiry_set_disc k_retain_avail_set_disc k_wildcard_set_disc k_subid_set_disc k_shared_set_disc k_lim_set_disc k_held_set_disc k_alias_out_set_disc k_alias_in_set_disc k_alias_in_size_set_disc k_quota_set_disc k_clean_will_set_disc k_disc_sei_set_disc k_got_disconnect_set_disc k_force_remove_set_disc k_drained_set_disc k_cid_set_force k_v_set_force k_phase_set_force k_max_inflight_set_force k_client_max_packet_set_force k_client_alias_max_set_force k_server_alias_max_set_force k_recv_max_set_force k_keepalive_set_force k_session_expiry_set_force k_retain_avail_set_force k_wildcard_set_force k_subid_set_force k_shared_set_force k_lim_set_force k_held_set_force k_alias_out_set_force k_alias_in_set_force k_alias_in_size_set_force k_quota_set_force k_clean_will_set_force k_disc_sei_set_force k_got_disconnect_set_force k_force_remove_set_force k_drained_set_force : kproj.

(* ---- 0.2 association lists ---- *)
Lemma nget_nset {V} (c' c : N) (v : V) l : nget c' (nset c v l) = if c' =? c then Some v else nget c' l.
Proof.
  induction l as [|[c0 v0] r IH]; cbn [nset nget].
  - destruct (c' =? c); reflexivity.
  - destruct (c =? c0) eqn:E; cbn [nget].
    + apply N.eqb_eq in E. subst c0. destruct (c' =? c); reflexivity.
    + rewrite IH. destruct (c' =? c0) eqn:E1; [|reflexivity].
      apply N.eqb_eq in E1. subst c0. destruct (c' =? c) eqn:E2; [|reflexivity].
      apply N.eqb_eq in E2. subst c'. rewrite N.eqb_refl in E. discriminate.
Qed.

Lemma nget_nset_same {V} (c : N) (v : V) l : nget c (nset c v l) = Some v.
Proof. now rewrite nget_nset, N.eqb_refl. Qed.

Lemma nget_nset_other {V} (c' c : N) (v : V) l : c' <> c -> nget c' (nset c v l) = nget c' l.
Proof. intros H. rewrite nget_nset. apply N.eqb_neq in H. now rewrite H. Qed.

Lemma nget_In {V} (c : N) (v : V) l : nget c l = Some v -> In (c, v) l.
Proof.
  induction l as [|[c0 v0] r IH]; cbn [nget In]; intros H; [discriminate|].
  destruct (c =? c0) eqn:E.
  - apply N.eqb_eq in E. left. congruence.
  - right. now apply IH.
Qed.

Section AssocMore.
  Context {V : Type}.
  Implicit Types (l : list (str * V)) (k : str) (v : V).

  (* without NoDup: deleting another key does not disturb a lookup *)
  Lemma aget_adel_other k' k l : k' <> k -> aget k' (adel k l) = aget k' l.
  Proof.
    intros Hne. induction l as [|[k0 v0] r IH]; cbn [adel aget]; [reflexivity|].
    destruct (str_eqb_spec k k0) as [E|E]; cbn [aget].
    - subst k0. destruct (str_eqb_spec k' k) as [E1|E1]; [congruence|reflexivity].
    - now rewrite IH.
  Qed.

  Lemma adel_absent k l : aget k l = None -> adel k l = l.
  Proof.
    induction l as [|[k0 v0] r IH]; cbn [adel aget]; intros H; [reflexivity|].
    destruct (str_eqb k k0); [discriminate|]. now rewrite IH.
  Qed.

  Lemma aset_aget_id k v l : aget k l = Some v -> aset k v l = l.
  Proof.
    induction l as [|[k0 v0] r IH]; cbn [aset aget]; intros H; [discriminate|].
    destruct (str_eqb_spec k k0) as [E|E].
    - congruence.
    - now rewrite IH.
  Qed.

  Lemma aget_adel_same k l : NoDup (map fst l) -> aget k (adel k l) = None.
  Proof. intros H. rewrite aget_adel by exact H. now rewrite str_eqb_refl. Qed.

  Lemma ahas_aget k l : ahas k l = match aget k l with Some _ => true | None => false end.
  Proof. reflexivity. Qed.
End AssocMore.

(* ---- 0.3 what `deliver` and the poll loops leave alone ---- *)

(* the fields of a connection record that only the packet handlers / CONNECT / close change
   (everything except the packet-id limiter, the held ids, the outbound alias table and the
   drained flag, which belong to the poll loop) *)
Definition kstat (k : conn) :=
  (k_cid k, k_v k, k_phase k, (k_max_inflight k, k_client_max_packet k, k_client_alias_max k, k_server_alias_max k),
   (k_recv_max k, k_keepalive k, k_session_expiry k), (k_retain_avail k, k_wildcard k, k_subid k, k_shared k),
   (k_alias_in k, k_alias_in_size k, k_quota k), (k_clean_will k, k_disc_sei k, k_got_disconnect k, k_force_remove k)).

Definition cstat (s : st) (c : N) := option_map kstat (nget c (b_conns s)).

(* the broker tables `deliver` and the poll loops never write *)
Definition dproj (s : st) :=
  (b_cfg s, b_hooks s, b_now s, b_rt s, (b_sessions s, b_online s, b_offline s, b_wills s), (b_subs s, b_ret s, b_unacks s, b_auto s)).

Definition dframe (s s' : st) : Prop := dproj s' = dproj s /\ forall c, cstat s' c = cstat s c.

Lemma dframe_refl s : dframe s s.
Proof. split; reflexivity. Qed.

Lemma dframe_trans s1 s2 s3 : dframe s1 s2 -> dframe s2 s3 -> dframe s1 s3.
Proof. intros [A1 B1] [A2 B2]. split; [congruence|]. intros c. now rewrite B2, B1. Qed.

Section DframeFields.
  Variables s s' : st.
  Hypothesis H : dframe s s'.
  Lemma df_cfg : b_cfg s' = b_cfg s. Proof. destruct H as [A _]. unfold dproj in A. congruence. Qed.
  Lemma df_hooks : b_hooks s' = b_hooks s. Proof. destruct H as [A _]. unfold dproj in A. congruence. Qed.
  Lemma df_now : b_now s' = b_now s. Proof. destruct H as [A _]. unfold dproj in A. congruence. Qed.
  Lemma df_rt : b_rt s' = b_rt s. Proof. destruct H as [A _]. unfold dproj in A. congruence. Qed.
  Lemma df_sessions : b_sessions s' = b_sessions s. Proof. destruct H as [A _]. unfold dproj in A. congruence. Qed.
  Lemma df_online : b_online s' = b_online s. Proof. destruct H as [A _]. unfold dproj in A. congruence. Qed.
  Lemma df_offline : b_offline s' = b_offline s. Proof. destruct H as [A _]. unfold dproj in A. congruence. Qed.
  Lemma df_wills : b_wills s' = b_wills s. Proof. destruct H as [A _]. unfold dproj in A. congruence. Qed.
  Lemma df_subs : b_subs s' = b_subs s. Proof. destruct H as [A _]. unfold dproj in A. congruence. Qed.
  Lemma df_ret : b_ret s' = b_ret s. Proof. destruct H as [A _]. unfold dproj in A. congruence. Qed.
  Lemma df_unacks : b_unacks s' = b_unacks s. Proof. destruct H as [A _]. unfold dproj in A. congruence. Qed.
  Lemma df_auto : b_auto s' = b_auto s. Proof. destruct H as [A _]. unfold dproj in A. congruence. Qed.
  Lemma df_cstat c : cstat s' c = cstat s c. Proof. destruct H as [_ B]. apply B. Qed.
  Lemma df_conn c k : nget c (b_conns s) = Some k -> exists k', nget c (b_conns s') = Some k' /\ kstat k' = kstat k.
  Proof.
    intros Hk. pose proof (df_cstat c) as E. unfold cstat in E. rewrite Hk in E. cbn [option_map] in E.
    destruct (nget c (b_conns s')) as [k'|]; cbn [option_map] in E; [|discriminate].
    exists k'. split; [reflexivity|congruence].
  Qed.
  Lemma df_conn_none c : nget c (b_conns s) = None -> nget c (b_conns s') = None.
  Proof.
    intros Hk. pose proof (df_cstat c) as E. unfold cstat in E. rewrite Hk in E. cbn [option_map] in E.
    destruct (nget c (b_conns s')) as [k'|]; cbn [option_map] in E; [discriminate|reflexivity].
  Qed.
End DframeFields.

Section KstatFields.
  Variables k k' : conn.
  Hypothesis H : kstat k' = kstat k.
  Lemma ks_cid : k_cid k' = k_cid k. Proof. unfold kstat in H. congruence. Qed.
  Lemma ks_v : k_v k' = k_v k. Proof. unfold kstat in H. congruence. Qed.
  Lemma ks_phase : k_phase k' = k_phase k. Proof. unfold kstat in H. congruence. Qed.
  Lemma ks_quota : k_quota k' = k_quota k. Proof. unfold kstat in H. congruence. Qed.
  Lemma ks_recv_max : k_recv_max k' = k_recv_max k. Proof. unfold kstat in H. congruence. Qed.
  Lemma ks_retain_avail : k_retain_avail k' = k_retain_avail k. Proof. unfold kstat in H. congruence. Qed.
  Lemma ks_server_alias_max : k_server_alias_max k' = k_server_alias_max k. Proof. unfold kstat in H. congruence. Qed.
  Lemma ks_alias_in : k_alias_in k' = k_alias_in k. Proof. unfold kstat in H. congruence. Qed.
  Lemma ks_clean_will : k_clean_will k' = k_clean_will k. Proof. unfold kstat in H. congruence. Qed.
  Lemma ks_disc_sei : k_disc_sei k' = k_disc_sei k. Proof. unfold kstat in H. congruence. Qed.
  Lemma ks_got_disconnect : k_got_disconnect k' = k_got_disconnect k. Proof. unfold kstat in H. congruence. Qed.
  Lemma ks_force_remove : k_force_remove k' = k_force_remove k. Proof. unfold kstat in H. congruence. Qed.
  Lemma ks_keepalive : k_keepalive k' = k_keepalive k. Proof. unfold kstat in H. congruence. Qed.
End KstatFields.

(* setters that touch none of the tables of dproj and keep every connection's static part *)
Lemma dframe_set_queues q s : dframe s (set_queues q s).
Proof. split; reflexivity. Qed.
Lemma dframe_set_picks_tag p t s : dframe s (set_picks_tag p t s).
Proof. split; reflexivity. Qed.
Lemma dframe_count_pick s : dframe s (count_pick s).
Proof. split; reflexivity. Qed.

Lemma dframe_upd_conn c k k' s :
  nget c (b_conns s) = Some k -> kstat k' = kstat k -> dframe s (upd_conn c k' s).
Proof.
  intros Hk Hs. split; [reflexivity|]. intros c'. unfold cstat. rewrite b_conns_upd_conn, nget_nset.
  destruct (c' =? c) eqn:E; [|reflexivity]. apply N.eqb_eq in E. subst c'. rewrite Hk. cbn [option_map]. now rewrite Hs.
Qed.

(* outputs that are only drop notifications (no packet is written, no socket closed) *)
Definition is_drop (x : out) : Prop := match x with ODropped _ _ _ => True | _ => False end.
Definition only_drops (o : list out) : Prop := Forall is_drop o.

Lemma only_drops_nil : only_drops []. Proof. constructor. Qed.
Lemma only_drops_app a b : only_drops a -> only_drops b -> only_drops (a ++ b).
Proof. intros Ha Hb. apply Forall_app. now split. Qed.
Lemma only_drops_no_send o c p : only_drops o -> ~ In (OSend c p) o.
Proof. intros H Hin. unfold only_drops in H. rewrite Forall_forall in H. apply H in Hin. exact Hin. Qed.
Lemma only_drops_no_close o c : only_drops o -> ~ In (OClose c) o.
Proof. intros H Hin. unfold only_drops in H. rewrite Forall_forall in H. apply H in Hin. exact Hin. Qed.

Lemma drops_of_only cid evs : only_drops (drops_of cid evs).
Proof.
  unfold drops_of, only_drops. induction evs as [|e r IH]; cbn [flat_map]; [constructor|].
  apply Forall_app. split; [|exact IH].
  destruct e as [el rs| |]; try constructor.
  destruct (e_body el); constructor; [exact I|constructor].
Qed.

Lemma release_dropped_frame cid evs s : dframe s (release_dropped cid evs s).
Proof.
  unfold release_dropped.
  destruct (aget cid (b_online s)) as [c|]; [|apply dframe_refl].
  destruct (nget c (b_conns s)) as [k|] eqn:Hk; [|apply dframe_refl].
  eapply dframe_upd_conn; [exact Hk|reflexivity].
Qed.

Lemma add_to_queue_frame cid m sb ids s :
  dframe s (fst (add_to_queue cid m sb ids s)) /\ only_drops (snd (add_to_queue cid m sb ids s)).
Proof.
  unfold add_to_queue.
  destruct (aget cid (b_queues s)) as [q|]; [|split; [apply dframe_refl|constructor]].
  destruct (negb (c_queue_qos0 (b_cfg s)) && negb (ahas cid (b_online s)) && (m_qos m =? 0));
    [split; [apply dframe_refl|constructor]|].
  match goal with |- context [q_add ?a ?b ?c] => destruct (q_add a b c) as [[q' evs]| | |] end;
    try (split; [apply dframe_refl|constructor]).
  cbn [fst snd]. split; [|apply drops_of_only].
  eapply dframe_trans; [|apply release_dropped_frame].
  eapply dframe_trans; [apply dframe_set_queues|apply dframe_set_picks_tag].
Qed.

Lemma take_pick_frame n s : dframe s (snd (take_pick n s)).
Proof.
  unfold take_pick. destruct (b_picks s); cbn [snd].
  - apply dframe_count_pick.
  - eapply dframe_trans; [apply dframe_set_picks_tag|apply dframe_count_pick].
Qed.

(* a fold whose every step keeps the frame and only reports drops *)
Lemma fold_frame {A} (f : st * list out -> A -> st * list out) (l : list A) :
  (forall s o a, dframe s (fst (f (s, o) a)) /\ exists o', snd (f (s, o) a) = o ++ o' /\ only_drops o') ->
  forall s o, dframe s (fst (fold_left f l (s, o))) /\ exists o', snd (fold_left f l (s, o)) = o ++ o' /\ only_drops o'.
Proof.
  intros Hf. induction l as [|a r IH]; intros s o; cbn [fold_left].
  - split; [apply dframe_refl|]. exists []. rewrite app_nil_r. split; [reflexivity|constructor].
  - destruct (Hf s o a) as [F1 [o1 [E1 D1]]].
    destruct (f (s, o) a) as [s1 oo1] eqn:Ef. cbn [fst snd] in F1, E1. subst oo1.
    destruct (IH s1 (o ++ o1)) as [F2 [o2 [E2 D2]]].
    split; [eapply dframe_trans; eassumption|].
    exists (o1 ++ o2). rewrite E2, app_assoc. split; [reflexivity|now apply only_drops_app].
Qed.

Theorem deliver_frame src m s :
  dframe s (fst (fst (deliver src m s))) /\ only_drops (snd (fst (deliver src m s))).
Proof.
  unfold deliver.
  set (ents := filter (fun e => negb (s_nl (snd e) && str_eqb (fst e) src)) _).
  set (shared := filter (fun e => negb (is_empty (s_share (snd e)))) ents).
  set (plain := filter (fun e => is_empty (s_share (snd e))) ents).
  (* stage 1 *)
  match goal with |- context [if c_onlyonce (b_cfg s) then (s, []) else ?F] =>
    assert (H1 : dframe s (fst (if c_onlyonce (b_cfg s) then (s, []) else F)) /\
                 only_drops (snd (if c_onlyonce (b_cfg s) then (s, []) else F))) end.
  { destruct (c_onlyonce (b_cfg s)); [split; [apply dframe_refl|constructor]|].
    match goal with |- context [fold_left ?f ?l ?a] => destruct (fold_frame f l) with (s := s) (o := @nil out) as [F [o' [E D]]] end.
    - intros s0 o0 a. pose proof (add_to_queue_frame (fst a) m (snd a) [s_id (snd a)] s0) as [F D].
      destruct (add_to_queue (fst a) m (snd a) [s_id (snd a)] s0) as [s' o']. cbn [fst snd] in *.
      split; [exact F|]. exists o'. split; [reflexivity|exact D].
    - split; [exact F|]. rewrite E. exact D. }
  match goal with |- context [if c_onlyonce (b_cfg s) then (s, []) else ?F] =>
    destruct (if c_onlyonce (b_cfg s) then (s, []) else F) as [s1 o1] end.
  cbn [fst snd] in H1. destruct H1 as [F1 D1].
  (* stage 2 *)
  match goal with |- context [fold_left ?f (group_shared shared []) (s1, o1)] =>
    destruct (fold_frame f (group_shared shared [])) with (s := s1) (o := o1) as [F2 [o2' [E2 D2]]] end.
  { intros s0 o0 g.
    assert (HP : dframe s0 (snd (match snd g with [_] => (0%nat, s0) | _ => take_pick (length (snd g)) s0 end))).
    { destruct (snd g) as [|x [|y r]]; try apply take_pick_frame. apply dframe_refl. }
    destruct (match snd g with [_] => (0%nat, s0) | _ => take_pick (length (snd g)) s0 end) as [i s0'].
    cbn [snd] in HP.
    destruct (nth_error (snd g) i) as [[c sb]|].
    - pose proof (add_to_queue_frame c m sb [s_id sb] s0') as [F D].
      destruct (add_to_queue c m sb [s_id sb] s0') as [s' o']. cbn [fst snd] in *.
      split; [eapply dframe_trans; eassumption|]. exists o'. split; [reflexivity|exact D].
    - cbn [fst snd]. split; [exact HP|]. exists []. rewrite app_nil_r. split; [reflexivity|constructor]. }
  match goal with |- context [fold_left ?f (group_shared shared []) (s1, o1)] =>
    destruct (fold_left f (group_shared shared []) (s1, o1)) as [s2 o2] end.
  cbn [fst snd] in F2, E2. subst o2.
  (* stage 3 *)
  destruct (c_onlyonce (b_cfg s)).
  - match goal with |- context [fold_left ?f (group_by_client plain []) ?a] =>
      destruct (fold_frame f (group_by_client plain [])) with (s := s2) (o := o1 ++ o2') as [F3 [o3' [E3 D3]]] end.
    { intros s0 o0 g.
      set (best := filter (fun x => s_qos x =? max_qos_of (snd g)) (snd g)).
      assert (HP : dframe s0 (snd (match best with [_] => (0%nat, s0) | _ => take_pick (length best) s0 end))).
      { destruct best as [|x [|y r]]; try apply take_pick_frame. apply dframe_refl. }
      destruct (match best with [_] => (0%nat, s0) | _ => take_pick (length best) s0 end) as [i s0'].
      cbn [snd] in HP.
      destruct (nth_error best i) as [sb|].
      - pose proof (add_to_queue_frame (fst g) m sb (map s_id (snd g)) s0') as [F D].
        destruct (add_to_queue (fst g) m sb (map s_id (snd g)) s0') as [s' o']. cbn [fst snd] in *.
        split; [eapply dframe_trans; eassumption|]. exists o'. split; [reflexivity|exact D].
      - cbn [fst snd]. split; [exact HP|]. exists []. rewrite app_nil_r. split; [reflexivity|constructor]. }
    match goal with |- context [fold_left ?f (group_by_client plain []) ?a] =>
      destruct (fold_left f (group_by_client plain []) a) as [s3 o3] end.
    cbn [fst snd] in *. subst o3. split.
    + eapply dframe_trans; [exact F1|]. eapply dframe_trans; eassumption.
    + apply only_drops_app; [apply only_drops_app|]; assumption.
  - cbn [fst snd]. split.
    + eapply dframe_trans; eassumption.
    + apply only_drops_app; assumption.
Qed.

(* ================================================================== *)
(* 1. publishHandler in stages                                         *)
(* ================================================================== *)

(* the stages of handle_publish, cut out of its text; handle_publish_stages below shows that
   their composition IS handle_publish (by computation) *)
Definition pub_alias (v5 : bool) (k : conn) (topic : str) (props : list prop) (m0 : msg) : option (conn * msg) + N :=
  match (if v5 then p_alias props else None) with
  | None => inl (Some (k, m0))
  | Some a =>
      if (a =? 0) || (k_server_alias_max k <? a) then inr 148
      else
        match topic with
        | [] => match nget a (k_alias_in k) with
                | Some name => match name with [] => inr 148 | _ => inl (Some (k, with_topic name m0)) end
                | None => inr 148
                end
        | _ => inl (Some (set_alias_in (nset a topic (k_alias_in k)) k, m0))
        end
  end.

(* QoS 2 duplicate detection (on the state that already carries the connection record) *)
Definition pub_mark (c : N) (k : conn) (v5 : bool) (qos pid : N) (s : st) : st * bool :=
  if qos =? 2 then
    let u := opt_or (aget (k_cid k) (b_unacks s)) [] in
    let '(u', ex) := unack_set pid u in
    let s := set_unacks (aset (k_cid k) u' (b_unacks s)) s in
    let s := if ex && v5 then
               match nget c (b_conns s) with
               | Some k1 => if k_quota k1 <? k_recv_max k1 then upd_conn c (set_quota (k_quota k1 + 1) k1) s else s
               | None => s
               end
             else s in
    (s, ex)
  else (s, false).

Definition pub_action (m : msg) (s : st) : msg_action :=
  if h_msg_on (b_hooks s) then opt_or (aget (m_topic m) (h_msg (b_hooks s))) MAccept else MAccept.

(* the only place where the handler forwards: deliver is applied at most once, and never for a duplicate *)
Definition pub_fwd (k : conn) (m : msg) (isdup : bool) (s : st) : st * list out * bool * option N :=
  if isdup then (s, [], false, None)
  else
    match pub_action m s with
    | MReject code => (s, [], false, Some code)
    | MDrop => (s, [], false, None)
    | MAccept => let '(s', o, mt) := deliver (k_cid k) m (retain_update m s) in (s', o, mt, None)
    | MRewrite t p q => let m' := rewrite_msg t p q m in
                        let '(s', o, mt) := deliver (k_cid k) m' (retain_update m' s) in (s', o, mt, None)
    end.

Definition pub_code (v5 : bool) (matched : bool) (err : option N) : N :=
  if v5 then match err with Some cd => cd | None => if matched then 0 else 16 end else 0.

Definition pub_finish (c : N) (k : conn) (v5 : bool) (qos pid : N) (r : st * list out * bool * option N) : hres :=
  let '(s, o, matched, err) := r in
  let code := pub_code v5 matched err in
  let s := if (qos =? 2) && (128 <=? code)
           then set_unacks (aset (k_cid k) (unack_remove pid (opt_or (aget (k_cid k) (b_unacks s)) [])) (b_unacks s)) s
           else s in
  let ack := if qos =? 1 then [OSend c (KPuback pid code [])]
             else if qos =? 2 then [OSend c (KPubrec pid code [])] else [] in
  let s := match nget c (b_conns s) with
           | Some k1 =>
               if v5 && ((qos =? 1) || ((qos =? 2) && (128 <=? code))) && (k_quota k1 <? k_recv_max k1)
               then upd_conn c (set_quota (k_quota k1 + 1) k1) s else s
           | None => s
           end in
  HOk s (o ++ ack).

Lemma handle_publish_stages c k dup qos retain topic payload pid props s :
  handle_publish c k dup qos retain topic payload pid props s =
  let v5 := k_v k =? 5 in
  if negb (k_retain_avail k) && retain then HErr s [] (Some 154)
  else
    match pub_alias v5 k topic props (msg_of_publish v5 dup qos retain topic payload pid props) with
    | inr code => HErr s [] (Some code)
    | inl None => HErr s [] None
    | inl (Some (k', m)) =>
        let '(s1, isdup) := pub_mark c k' v5 qos pid (upd_conn c k' s) in
        pub_finish c k' v5 qos pid (pub_fwd k' m isdup s1)
    end.
Proof. reflexivity. Qed.

(* ================================================================== *)
(* 2. the unack set of a client and the handler's bookkeeping frame     *)
(* ================================================================== *)

(* U: the packet ids of QoS 2 PUBLISH packets received from client [cid] and not yet released *)
Definition Uof (cid : str) (s : st) : list N := opt_or (aget cid (b_unacks s)) [].

(* everything but the unack table and the connection records *)
Definition qproj (s : st) :=
  (b_cfg s, b_hooks s, b_now s, b_rt s, (b_sessions s, b_online s, b_offline s, b_wills s),
   (b_subs s, b_ret s, b_queues s), (b_picks s, b_tag s, b_auto s, b_npick s)).

Section QprojFields.
  Variables s s' : st.
  Hypothesis H : qproj s' = qproj s.
  Lemma qp_queues : b_queues s' = b_queues s. Proof. unfold qproj in H. congruence. Qed.
  Lemma qp_subs : b_subs s' = b_subs s. Proof. unfold qproj in H. congruence. Qed.
  Lemma qp_ret : b_ret s' = b_ret s. Proof. unfold qproj in H. congruence. Qed.
  Lemma qp_hooks : b_hooks s' = b_hooks s. Proof. unfold qproj in H. congruence. Qed.
  Lemma qp_cfg : b_cfg s' = b_cfg s. Proof. unfold qproj in H. congruence. Qed.
  Lemma qp_sessions : b_sessions s' = b_sessions s. Proof. unfold qproj in H. congruence. Qed.
  Lemma qp_online : b_online s' = b_online s. Proof. unfold qproj in H. congruence. Qed.
  Lemma qp_wills : b_wills s' = b_wills s. Proof. unfold qproj in H. congruence. Qed.
End QprojFields.

Lemma Uof_set_unacks cid' cid u s :
  Uof cid' (set_unacks (aset cid u (b_unacks s)) s) = if str_eqb cid' cid then u else Uof cid' s.
Proof. unfold Uof. rewrite b_unacks_set_unacks, aget_aset. destruct (str_eqb cid' cid); reflexivity. Qed.

Lemma Uof_set_unacks_gen cid' cid u l s :
  Uof cid' (set_unacks (aset cid u l) s) = if str_eqb cid' cid then u else opt_or (aget cid' l) [].
Proof. unfold Uof. rewrite b_unacks_set_unacks, aget_aset. destruct (str_eqb cid' cid); reflexivity. Qed.

Lemma Uof_upd_conn cid c k s : Uof cid (upd_conn c k s) = Uof cid s.
Proof. reflexivity. Qed.

Lemma Uof_dframe cid s s' : dframe s s' -> Uof cid s' = Uof cid s.
Proof. intros H. unfold Uof. now rewrite (df_unacks _ _ H). Qed.

(* the read loop / write loop giving one unit of receive quota back *)
Definition quota_back (c : N) (s : st) : st :=
  match nget c (b_conns s) with
  | Some k1 => if k_quota k1 <? k_recv_max k1 then upd_conn c (set_quota (k_quota k1 + 1) k1) s else s
  | None => s
  end.

Lemma qproj_quota_back c s : qproj (quota_back c s) = qproj s.
Proof. unfold quota_back. destruct (nget c (b_conns s)) as [k1|]; [|reflexivity]. destruct (k_quota k1 <? k_recv_max k1); reflexivity. Qed.

Lemma unacks_quota_back c s : b_unacks (quota_back c s) = b_unacks s.
Proof. unfold quota_back. destruct (nget c (b_conns s)) as [k1|]; [|reflexivity]. destruct (k_quota k1 <? k_recv_max k1); reflexivity. Qed.

Lemma Uof_quota_back cid c s : Uof cid (quota_back c s) = Uof cid s.
Proof. unfold Uof. now rewrite unacks_quota_back. Qed.

Lemma pub_mark_qos2 c k v5 pid s :
  pub_mark c k v5 2 pid s =
  let u := Uof (k_cid k) s in
  if memN pid u
  then ((if v5 then quota_back c (set_unacks (aset (k_cid k) u (b_unacks s)) s)
         else set_unacks (aset (k_cid k) u (b_unacks s)) s), true)
  else (set_unacks (aset (k_cid k) (pid :: u) (b_unacks s)) s, false).
Proof.
  unfold pub_mark, Uof, unack_set, quota_back. cbn [N.eqb Pos.eqb].
  destruct (memN pid (opt_or (aget (k_cid k) (b_unacks s)) [])); cbn [andb]; [|reflexivity].
  destruct v5; reflexivity.
Qed.

Lemma pub_mark_not2 c k v5 qos pid s : (qos =? 2) = false -> pub_mark c k v5 qos pid s = (s, false).
Proof. intros H. unfold pub_mark. now rewrite H. Qed.

(* ---- the topic-alias stage ---- *)
Definition alias_ok (v5 : bool) (k : conn) (topic : str) (props : list prop) : bool :=
  match (if v5 then p_alias props else None) with
  | None => true
  | Some a =>
      if (a =? 0) || (k_server_alias_max k <? a) then false
      else match topic with
           | [] => match nget a (k_alias_in k) with Some (_ :: _) => true | _ => false end
           | _ => true
           end
  end.

Lemma pub_alias_ok v5 k topic props m0 :
  alias_ok v5 k topic props = true ->
  exists k' m, pub_alias v5 k topic props m0 = inl (Some (k', m)) /\
               (k' = k \/ exists a, k' = set_alias_in a k) /\
               (m = m0 \/ exists name, m = with_topic name m0).
Proof.
  unfold alias_ok, pub_alias. intros H.
  destruct (if v5 then p_alias props else None) as [a|].
  - destruct ((a =? 0) || (k_server_alias_max k <? a)); [discriminate|].
    destruct topic as [|t0 tr].
    + destruct (nget a (k_alias_in k)) as [[|n0 nr]|]; try discriminate.
      exists k, (with_topic (n0 :: nr) m0). split; [reflexivity|]. split; [now left|right; eauto].
    + eexists _, m0. split; [reflexivity|]. split; [right; eauto|now left].
  - exists k, m0. split; [reflexivity|]. split; now left.
Qed.

Lemma pub_alias_bad v5 k topic props m0 :
  alias_ok v5 k topic props = false -> pub_alias v5 k topic props m0 = inr 148.
Proof.
  unfold alias_ok, pub_alias. intros H.
  destruct (if v5 then p_alias props else None) as [a|]; [|discriminate].
  destruct ((a =? 0) || (k_server_alias_max k <? a)); [reflexivity|].
  destruct topic as [|t0 tr]; [|discriminate].
  destruct (nget a (k_alias_in k)) as [[|n0 nr]|]; try discriminate; reflexivity.
Qed.

Lemma pub_alias_none (v5 : bool) k topic props m0 :
  (if v5 then p_alias props else None) = None -> pub_alias v5 k topic props m0 = inl (Some (k, m0)).
Proof. unfold pub_alias. intros ->. reflexivity. Qed.

Lemma pub_alias_cid v5 k topic props m0 k' m :
  pub_alias v5 k topic props m0 = inl (Some (k', m)) ->
  k_cid k' = k_cid k /\ k_v k' = k_v k /\ k_quota k' = k_quota k /\ k_recv_max k' = k_recv_max k /\
  k_phase k' = k_phase k /\ k_retain_avail k' = k_retain_avail k.
Proof.
  unfold pub_alias. intros H.
  destruct (if v5 then p_alias props else None) as [a|].
  - destruct ((a =? 0) || (k_server_alias_max k <? a)); [discriminate|].
    destruct topic as [|t0 tr].
    + destruct (nget a (k_alias_in k)) as [[|n0 nr]|]; try discriminate.
      injection H as <- _. repeat split.
    + injection H as <- _. repeat split.
  - injection H as <- _. repeat split.
Qed.

(* the connection record the read loop hands to the publish handler *)
Definition charge (k : conn) (qos : N) : conn :=
  if (k_v k =? 5) && (0 <? qos) then set_quota (k_quota k - 1) k else k.

(* the conditions under which readLoop + publishHandler do not end the connection *)
Definition pub_accepts (k : conn) (qos : N) (retain : bool) (topic : str) (props : list prop) : bool :=
  negb (has_wild topic) &&
  negb ((k_v k =? 5) && match p_alias props with Some a => a =? 0 | None => false end) &&
  negb (is_empty topic && negb ((k_v k =? 5) && match p_alias props with Some _ => true | None => false end)) &&
  negb ((k_v k =? 5) && (0 <? qos) && (k_quota k =? 0)) &&
  negb (negb (k_retain_avail k) && retain) && alias_ok (k_v k =? 5) k topic props.

Lemma charge_fields k qos :
  k_cid (charge k qos) = k_cid k /\ k_v (charge k qos) = k_v k /\ k_retain_avail (charge k qos) = k_retain_avail k /\
  k_server_alias_max (charge k qos) = k_server_alias_max k /\ k_alias_in (charge k qos) = k_alias_in k.
Proof. unfold charge. destruct ((k_v k =? 5) && (0 <? qos)); repeat split. Qed.

Lemma alias_ok_charge v5 k qos topic props : alias_ok v5 (charge k qos) topic props = alias_ok v5 k topic props.
Proof.
  unfold alias_ok. destruct (charge_fields k qos) as (_ & _ & _ & E1 & E2). now rewrite E1, E2.
Qed.

(* handle_packet on a PUBLISH that passes the checks = the three stages *)
Lemma handle_packet_publish c k dup qos retain topic payload pid props s :
  pub_accepts k qos retain topic props = true ->
  let v5 := k_v k =? 5 in
  exists k' m,
    pub_alias v5 (charge k qos) topic props (msg_of_publish v5 dup qos retain topic payload pid props) = inl (Some (k', m)) /\
    handle_packet c k (KPublish dup qos retain topic payload pid props) s =
    (let '(s1, isdup) := pub_mark c k' v5 qos pid (upd_conn c k' (upd_conn c (charge k qos) s)) in
     pub_finish c k' v5 qos pid (pub_fwd k' m isdup s1)).
Proof.
  intros H v5. unfold pub_accepts in H.
  apply andb_prop in H as [H Ha]. apply andb_prop in H as [H Hr]. apply andb_prop in H as [H Hq].
  apply andb_prop in H as [H He]. apply andb_prop in H as [Hw Hz].
  apply negb_true_iff in Hw, Hz, He, Hq, Hr.
  rewrite <- (alias_ok_charge _ _ qos) in Ha.
  destruct (pub_alias_ok v5 (charge k qos) topic props (msg_of_publish v5 dup qos retain topic payload pid props) Ha)
    as (k' & m & Hal & _ & _).
  exists k', m. split; [exact Hal|].
  cbn [handle_packet]. rewrite Hw. fold v5 in Hz, He, Hq |- *. rewrite Hz, He, Hq.
  change (if v5 && (0 <? qos) then set_quota (k_quota k - 1) k else k) with (charge k qos).
  rewrite handle_publish_stages.
  destruct (charge_fields k qos) as (_ & Ev & Era & _ & _).
  cbv zeta. rewrite Ev, Era. fold v5. rewrite Hr, Hal. reflexivity.
Qed.

(* ... and one that does not pass them ends the connection without touching anything but the
   connection record *)
Lemma handle_packet_publish_rejected c k dup qos retain topic payload pid props s :
  pub_accepts k qos retain topic props = false ->
  (exists code, handle_packet c k (KPublish dup qos retain topic payload pid props) s = HErrRead s code) \/
  (exists code, handle_packet c k (KPublish dup qos retain topic payload pid props) s =
                HErr (upd_conn c (charge k qos) s) [] code).
Proof.
  unfold pub_accepts. intros H. cbn [handle_packet].
  destruct (has_wild topic); [left; eauto|].
  match goal with |- context [if ?b then HErrRead s (Some 148) else _] => destruct b end; [left; eauto|].
  match goal with |- context [if ?b then HErrRead s (Some 130) else _] => destruct b end; [left; eauto|].
  destruct ((k_v k =? 5) && (0 <? qos) && (k_quota k =? 0)) eqn:Hq; [left; eauto|]. right.
  change (if (k_v k =? 5) && (0 <? qos) then set_quota (k_quota k - 1) k else k) with (charge k qos).
  rewrite handle_publish_stages. cbv zeta.
  destruct (charge_fields k qos) as (_ & Ev & Era & _ & _). rewrite Ev, Era.
  cbn [negb andb] in H.
  destruct (negb (k_retain_avail k) && retain); [eauto|]. cbn [negb andb] in H.
  rewrite <- (alias_ok_charge _ _ qos) in H.
  rewrite (pub_alias_bad _ _ _ _ _ H). eauto.
Qed.

(* ================================================================== *)
(* 3. C04 targets 1-3: one PUBLISH / one PUBREL                        *)
(* ================================================================== *)

Lemma pub_finish_qos2_ok c k v5 pid s o mt err :
  pub_code v5 mt err < 128 ->
  pub_finish c k v5 2 pid (s, o, mt, err) = HOk s (o ++ [OSend c (KPubrec pid (pub_code v5 mt err) [])]).
Proof.
  intros H. unfold pub_finish. cbn [N.eqb Pos.eqb orb andb].
  assert (E : (128 <=? pub_code v5 mt err) = false) by (apply N.leb_gt; exact H).
  rewrite E. rewrite andb_false_r. cbn [andb].
  destruct (nget c (b_conns s)); reflexivity.
Qed.

Lemma pub_finish_qos2_err c k v5 pid s o mt err :
  128 <= pub_code v5 mt err ->
  exists s', pub_finish c k v5 2 pid (s, o, mt, err) = HOk s' (o ++ [OSend c (KPubrec pid (pub_code v5 mt err) [])]) /\
             qproj s' = qproj s /\
             forall cid', Uof cid' s' = if str_eqb cid' (k_cid k) then unack_remove pid (Uof (k_cid k) s) else Uof cid' s.
Proof.
  intros H. unfold pub_finish. cbn [N.eqb Pos.eqb orb andb].
  assert (E : (128 <=? pub_code v5 mt err) = true) by (apply N.leb_le; exact H).
  rewrite E.
  set (s1 := set_unacks _ s).
  assert (Q1 : qproj s1 = qproj s) by reflexivity.
  assert (U1 : forall cid', Uof cid' s1 = if str_eqb cid' (k_cid k) then unack_remove pid (Uof (k_cid k) s) else Uof cid' s).
  { intros cid'. unfold s1. apply Uof_set_unacks. }
  destruct (nget c (b_conns s1)) as [k1|].
  - match goal with |- context [if ?b then upd_conn _ _ _ else _] => destruct b end.
    + eexists. split; [reflexivity|]. split; [exact Q1|exact U1].
    + eexists. split; [reflexivity|]. split; [exact Q1|exact U1].
  - eexists. split; [reflexivity|]. split; [exact Q1|exact U1].
Qed.

Lemma memN_true pid u : In pid u -> memN pid u = true.
Proof. apply memN_In. Qed.
Lemma memN_false pid u : ~ In pid u -> memN pid u = false.
Proof. apply memN_notIn. Qed.

(* Target 1.  A retransmitted QoS 2 PUBLISH (its id is still in U) is answered by PUBREC and nothing else
   happens: no queue, no retained message, no subscription changes - deliver is not invoked. *)
Theorem qos2_duplicate_not_forwarded c k s dup retain topic payload pid props :
  pub_accepts k 2 retain topic props = true ->
  In pid (Uof (k_cid k) s) ->
  exists s',
    handle_packet c k (KPublish dup 2 retain topic payload pid props) s =
      HOk s' [OSend c (KPubrec pid (if k_v k =? 5 then 16 else 0) [])] /\
    qproj s' = qproj s /\ (forall cid', Uof cid' s' = Uof cid' s) /\ In pid (Uof (k_cid k) s').
Proof.
  intros Hacc Hin.
  destruct (handle_packet_publish c k dup 2 retain topic payload pid props s Hacc) as (k' & m & Hal & ->).
  cbv zeta.
  apply pub_alias_cid in Hal as (Ec & _).
  destruct (charge_fields k 2) as (Ec2 & _). rewrite Ec2 in Ec.
  rewrite pub_mark_qos2. cbv zeta. rewrite Ec, !Uof_upd_conn, (memN_true _ _ Hin).
  set (s0 := upd_conn c k' (upd_conn c (charge k 2) s)).
  set (s1 := if k_v k =? 5 then _ else _).
  assert (Q : qproj s1 = qproj s).
  { unfold s1. destruct (k_v k =? 5); [rewrite qproj_quota_back|]; reflexivity. }
  assert (HU : forall cid', Uof cid' s1 = Uof cid' s).
  { intros cid'. unfold s1. destruct (k_v k =? 5); [rewrite Uof_quota_back|]; rewrite Uof_set_unacks;
      destruct (str_eqb_spec cid' (k_cid k)) as [->|_]; reflexivity. }
  exists s1. unfold pub_fwd.
  rewrite pub_finish_qos2_ok.
  - split; [|split; [exact Q|split; [exact HU|now rewrite HU]]].
    unfold pub_code. reflexivity.
  - unfold pub_code. destruct (k_v k =? 5); lia.
Qed.

Definition fwd_msg (a : msg_action) (m : msg) : option msg :=
  match a with MAccept => Some m | MRewrite t p q => Some (rewrite_msg t p q m) | _ => None end.

(* Target 2.  A QoS 2 PUBLISH whose id is not in U: the id is recorded, deliver is applied exactly once to the
   message (as resolved by the alias table / rewritten by the hook), one PUBREC goes back and the id stays in U. *)
Theorem qos2_new_is_forwarded_once c k s dup retain topic payload pid props k' m m' :
  let v5 := k_v k =? 5 in
  let cid := k_cid k in
  pub_accepts k 2 retain topic props = true ->
  ~ In pid (Uof cid s) ->
  pub_alias v5 (charge k 2) topic props (msg_of_publish v5 dup 2 retain topic payload pid props) = inl (Some (k', m)) ->
  fwd_msg (pub_action m s) m = Some m' ->
  let s0 := set_unacks (aset cid (pid :: Uof cid s) (b_unacks s)) (upd_conn c k' (upd_conn c (charge k 2) s)) in
  forall s1 o1 mt, deliver cid m' (retain_update m' s0) = (s1, o1, mt) ->
    handle_packet c k (KPublish dup 2 retain topic payload pid props) s =
      HOk s1 (o1 ++ [OSend c (KPubrec pid (if v5 then if mt then 0 else 16 else 0) [])]) /\
    only_drops o1 /\ In pid (Uof cid s1) /\ (forall cid', cid' <> cid -> Uof cid' s1 = Uof cid' s).
Proof.
  intros v5 cid Hacc Hnin Hal Hfwd s0 s1 o1 mt Hd.
  destruct (handle_packet_publish c k dup 2 retain topic payload pid props s Hacc) as (k'' & m'' & Hal' & ->).
  fold v5 in Hal'. rewrite Hal in Hal'. injection Hal' as <- <-.
  cbv zeta. fold v5.
  apply pub_alias_cid in Hal as (Ec & _).
  destruct (charge_fields k 2) as (Ec2 & _). rewrite Ec2 in Ec. fold cid in Ec.
  rewrite pub_mark_qos2. cbv zeta. rewrite Ec, !Uof_upd_conn, (memN_false _ _ Hnin).
  match goal with |- context [pub_fwd k' m false ?X] => change X with s0 end. unfold pub_fwd.
  assert (Ha : pub_action m s0 = pub_action m s) by reflexivity. rewrite Ha.
  pose proof (deliver_frame cid m' (retain_update m' s0)) as [F D]. rewrite Hd in F, D. cbn [fst snd] in F, D.
  assert (Fr : forall cid', Uof cid' (retain_update m' s0) = Uof cid' s0).
  { intros cid'. unfold retain_update. destruct (m_retained m'); reflexivity. }
  assert (HU : forall cid', Uof cid' s1 = if str_eqb cid' cid then pid :: Uof cid s else Uof cid' s).
  { intros cid'. rewrite (Uof_dframe _ _ _ F), Fr. unfold s0. rewrite Uof_set_unacks_gen. reflexivity. }
  assert (Hres : (let '(s', o, mt0) := deliver cid m' (retain_update m' s0) in (s', o, mt0, @None N)) = (s1, o1, mt, None))
    by (rewrite Hd; reflexivity).
  assert (Hfin : pub_finish c k' v5 2 pid (s1, o1, mt, None) =
                 HOk s1 (o1 ++ [OSend c (KPubrec pid (if v5 then if mt then 0 else 16 else 0) [])])).
  { rewrite pub_finish_qos2_ok; [reflexivity|]. unfold pub_code. destruct v5; [destruct mt|]; lia. }
  split.
  - destruct (pub_action m s) as [|cd| |t p q]; cbn [fwd_msg] in Hfwd; try discriminate;
      injection Hfwd as <-; rewrite Ec; rewrite Hres; exact Hfin.
  - split; [exact D|]. split.
    + rewrite HU, str_eqb_refl. now left.
    + intros cid' Hne. rewrite HU. apply str_eqb_neq in Hne. now rewrite Hne.
Qed.

(* ... and when the OnMsgArrived hook refuses it (reject / drop) nothing is forwarded; the id stays recorded
   unless the PUBREC carries an error code *)
Theorem qos2_new_refused_by_hook c k s dup retain topic payload pid props k' m :
  let v5 := k_v k =? 5 in
  let cid := k_cid k in
  pub_accepts k 2 retain topic props = true ->
  ~ In pid (Uof cid s) ->
  pub_alias v5 (charge k 2) topic props (msg_of_publish v5 dup 2 retain topic payload pid props) = inl (Some (k', m)) ->
  fwd_msg (pub_action m s) m = None ->
  exists s' code,
    handle_packet c k (KPublish dup 2 retain topic payload pid props) s = HOk s' [OSend c (KPubrec pid code [])] /\
    qproj s' = qproj s /\
    (code < 128 -> In pid (Uof cid s')) /\ (128 <= code -> ~ In pid (Uof cid s')) /\
    (forall cid', cid' <> cid -> Uof cid' s' = Uof cid' s).
Proof.
  intros v5 cid Hacc Hnin Hal Hfwd.
  destruct (handle_packet_publish c k dup 2 retain topic payload pid props s Hacc) as (k'' & m'' & Hal' & ->).
  fold v5 in Hal'. rewrite Hal in Hal'. injection Hal' as <- <-.
  cbv zeta. fold v5.
  apply pub_alias_cid in Hal as (Ec & _).
  destruct (charge_fields k 2) as (Ec2 & _). rewrite Ec2 in Ec. fold cid in Ec.
  rewrite pub_mark_qos2. cbv zeta. rewrite Ec, !Uof_upd_conn, (memN_false _ _ Hnin).
  set (s0 := set_unacks _ _).
  assert (Q0 : qproj s0 = qproj s) by reflexivity.
  assert (U0 : forall cid', Uof cid' s0 = if str_eqb cid' cid then pid :: Uof cid s else Uof cid' s).
  { intros cid'. unfold s0. rewrite Uof_set_unacks. reflexivity. }
  unfold pub_fwd.
  assert (Ha : pub_action m s0 = pub_action m s) by reflexivity. rewrite Ha.
  assert (Hgen : forall err, exists s' code,
             pub_finish c k' v5 2 pid (s0, [], false, err) = HOk s' [OSend c (KPubrec pid code [])] /\
             qproj s' = qproj s /\ (code < 128 -> In pid (Uof cid s')) /\ (128 <= code -> ~ In pid (Uof cid s')) /\
             (forall cid', cid' <> cid -> Uof cid' s' = Uof cid' s)).
  { intros err. destruct (N.lt_ge_cases (pub_code v5 false err) 128) as [Hlt|Hge].
    - exists s0, (pub_code v5 false err). rewrite pub_finish_qos2_ok by exact Hlt. split; [reflexivity|].
      split; [exact Q0|]. split; [|split].
      + intros _. rewrite U0, str_eqb_refl. now left.
      + intros Hc. lia.
      + intros cid' Hne. rewrite U0. apply str_eqb_neq in Hne. now rewrite Hne.
    - destruct (pub_finish_qos2_err c k' v5 pid s0 [] false err Hge) as (s' & E & Q & HU).
      exists s', (pub_code v5 false err). split; [exact E|]. split; [congruence|]. rewrite Ec in HU. split; [|split].
      + intros Hc. lia.
      + intros _. rewrite HU, str_eqb_refl. intros Hin. apply unack_remove_In in Hin. destruct Hin as [_ Hne]. now apply Hne.
      + intros cid' Hne. rewrite HU. pose proof Hne as Hne'. apply str_eqb_neq in Hne'. rewrite Hne'.
        rewrite U0, Hne'. reflexivity. }
  destruct (pub_action m s) as [|cd| |t p q]; cbn [fwd_msg] in Hfwd; try discriminate; apply Hgen.
Qed.

(* Target 3.  PUBREL: one PUBCOMP with the same id; the id leaves U, nothing else does *)
Theorem pubrel_frees_id c k s pid code props :
  exists s',
    handle_packet c k (KPubrel pid code props) s = HOk s' [OSend c (KPubcomp pid 0 [])] /\
    qproj s' = qproj s /\
    ~ In pid (Uof (k_cid k) s') /\
    (forall x, x <> pid -> (In x (Uof (k_cid k) s') <-> In x (Uof (k_cid k) s))) /\
    (forall cid', cid' <> k_cid k -> Uof cid' s' = Uof cid' s).
Proof.
  cbn [handle_packet].
  set (s1 := set_unacks _ s).
  assert (Q1 : qproj s1 = qproj s) by reflexivity.
  assert (U1 : forall cid', Uof cid' s1 = if str_eqb cid' (k_cid k) then unack_remove pid (Uof (k_cid k) s) else Uof cid' s).
  { intros cid'. unfold s1. apply Uof_set_unacks. }
  assert (G : forall s', qproj s' = qproj s1 -> (forall cid', Uof cid' s' = Uof cid' s1) ->
              qproj s' = qproj s /\ ~ In pid (Uof (k_cid k) s') /\
              (forall x, x <> pid -> (In x (Uof (k_cid k) s') <-> In x (Uof (k_cid k) s))) /\
              (forall cid', cid' <> k_cid k -> Uof cid' s' = Uof cid' s)).
  { intros s' Q HU. split; [congruence|]. split; [|split].
    - rewrite HU, U1, str_eqb_refl. intros Hin. apply unack_remove_In in Hin. destruct Hin as [_ Hne]. now apply Hne.
    - intros x Hx. rewrite HU, U1, str_eqb_refl. rewrite unack_remove_In. tauto.
    - intros cid' Hne. rewrite HU, U1. apply str_eqb_neq in Hne. now rewrite Hne. }
  destruct (nget c (b_conns s1)) as [k1|].
  - destruct ((k_v k =? 5) && (k_quota k1 <? k_recv_max k1)).
    + eexists. split; [reflexivity|]. apply G; [reflexivity|]. intros cid'. reflexivity.
    + eexists. split; [reflexivity|]. apply G; [reflexivity|]. intros cid'. reflexivity.
  - eexists. split; [reflexivity|]. apply G; [reflexivity|]. intros cid'. reflexivity.
Qed.

(* ================================================================== *)
(* 4. CONNECT in stages; what closing a connection leaves alone         *)
(* ================================================================== *)

(* the tables sendWill / unregister / conn_gone never write: dproj without the retained store *)
Definition no_sends (o : list out) : Prop := forall c p, ~ In (OSend c p) o.

Lemma no_sends_nil : no_sends []. Proof. intros c p []. Qed.
Lemma no_sends_app a b : no_sends a -> no_sends b -> no_sends (a ++ b).
Proof. intros Ha Hb c p Hin. apply in_app_or in Hin as [H|H]; [eapply Ha|eapply Hb]; eassumption. Qed.
Lemma only_drops_no_sends o : only_drops o -> no_sends o.
Proof. intros H c p. now apply only_drops_no_send. Qed.

Lemma retain_update_unacks m s : b_unacks (retain_update m s) = b_unacks s.
Proof. unfold retain_update. destruct (m_retained m); reflexivity. Qed.

Lemma deliver_unacks src m s : b_unacks (fst (fst (deliver src m s))) = b_unacks s.
Proof. apply df_unacks. apply deliver_frame. Qed.

Lemma send_will_unacks cid m s : b_unacks (fst (send_will cid m s)) = b_unacks s.
Proof.
  unfold send_will. destruct (will_action cid s) as [|cd| |t p q]; try reflexivity.
  - pose proof (deliver_unacks cid m (retain_update m s)) as E.
    destruct (deliver cid m (retain_update m s)) as [[s' o] mt]. cbn [fst] in *. now rewrite E, retain_update_unacks.
  - set (m' := with_topic_payload_qos t p q m).
    pose proof (deliver_unacks cid m' (retain_update m' s)) as E.
    destruct (deliver cid m' (retain_update m' s)) as [[s' o] mt]. cbn [fst] in *. now rewrite E, retain_update_unacks.
Qed.

Lemma send_will_drops cid m s : only_drops (snd (send_will cid m s)).
Proof.
  unfold send_will. destruct (will_action cid s) as [|cd| |t p q]; try constructor.
  - pose proof (deliver_frame cid m (retain_update m s)) as [_ D].
    destruct (deliver cid m (retain_update m s)) as [[s' o] mt]. exact D.
  - set (m' := with_topic_payload_qos t p q m).
    pose proof (deliver_frame cid m' (retain_update m' s)) as [_ D].
    destruct (deliver cid m' (retain_update m' s)) as [[s' o] mt]. exact D.
Qed.

Lemma remove_session_unacks cid s : b_unacks (remove_session cid s) = b_unacks s.
Proof. reflexivity. Qed.

Lemma unregister_unacks c k s : b_unacks (fst (unregister c k s)) = b_unacks s /\ only_drops (snd (unregister c k s)).
Proof.
  unfold unregister. destruct (aget (k_cid k) (b_sessions s)) as [se|]; [|split; [reflexivity|constructor]].
  set (expiry := if negb (k_force_remove k) && (k_v k =? 5) && k_got_disconnect k then _ else _).
  set (store := negb (k_force_remove k) && negb (expiry =? 0)).
  match goal with |- context [let '(s1, o1) := ?X in _] =>
    assert (H : b_unacks (fst X) = b_unacks s /\ only_drops (snd X)); [|destruct X as [s1 o1]] end.
  { destruct (se_will se) as [w|]; [|split; [reflexivity|constructor]].
    destruct (k_clean_will k); [split; [reflexivity|constructor]|].
    match goal with |- context [if ?b then (set_tables _ _ _ _ _ _ _, []) else _] => destruct b end.
    - split; [reflexivity|constructor].
    - split; [apply send_will_unacks|apply send_will_drops]. }
  cbn [fst snd] in H. destruct H as [H D]. destruct store; cbn [fst snd]; split; try exact D.
  - rewrite b_unacks_set_tables. exact H.
  - rewrite remove_session_unacks. exact H.
Qed.

(* closing a socket never touches any client's unack set (the set lives with the session store, and
   remove_session leaves it to the next CONNECT to reinitialise) *)
Lemma conn_gone_unacks c s :
  b_unacks (fst (conn_gone c s)) = b_unacks s /\ no_sends (snd (conn_gone c s)).
Proof.
  unfold conn_gone. destruct (nget c (b_conns s)) as [k|]; [|split; [reflexivity|apply no_sends_nil]].
  assert (Hc : no_sends [OClose c]) by (intros c' p [H|[]]; discriminate).
  destruct (k_phase k); try (split; [reflexivity|first [apply no_sends_nil|exact Hc]]).
  - set (s0 := match aget (k_cid k) (b_queues s) with Some q => _ | None => s end).
    assert (E0 : b_unacks s0 = b_unacks s) by (unfold s0; destruct (aget (k_cid k) (b_queues s)); reflexivity).
    pose proof (unregister_unacks c (set_phase PhClosed k) (upd_conn c (set_phase PhClosed k) s0)) as [E D].
    destruct (unregister c (set_phase PhClosed k) (upd_conn c (set_phase PhClosed k) s0)) as [s' o']. cbn [fst snd] in *.
    split; [now rewrite E|]. apply no_sends_app; [exact Hc|now apply only_drops_no_sends].
  - set (s0 := match aget (k_cid k) (b_queues s) with Some q => _ | None => s end).
    assert (E0 : b_unacks s0 = b_unacks s) by (unfold s0; destruct (aget (k_cid k) (b_queues s)); reflexivity).
    pose proof (unregister_unacks c (set_phase PhClosed k) (upd_conn c (set_phase PhClosed k) s0)) as [E D].
    destruct (unregister c (set_phase PhClosed k) (upd_conn c (set_phase PhClosed k) s0)) as [s' o']. cbn [fst snd] in *.
    split; [now rewrite E|]. apply no_sends_app; [exact Hc|now apply only_drops_no_sends].
Qed.

(* ---- handle_connect in stages ---- *)
Definition hc_code (cn : connect) (s : st) : N :=
  if ((cn_ver cn =? 5) && match p_authmethod (cn_props cn) with Some _ => true | None => false end)
  then 128 else auth_code cn s.

(* CONNECT passes the client-id and authentication checks *)
Definition connect_accepted (cn : connect) (s : st) : bool :=
  negb (negb (c_allow_zero_len (b_cfg s)) && is_empty (cn_cid cn)) && (hc_code cn s =? 0).

Definition hc_cid (cn : connect) (s : st) : str :=
  if is_empty (cn_cid cn) then AUTO_PREFIX ++ dec_str (b_auto s + 1) else cn_cid cn.

Definition hc_auto (cn : connect) (s : st) : st :=
  if is_empty (cn_cid cn) then set_auto (b_auto s + 1) s else s.

Definition hc_takeover (cid : str) (s : st) : st * list out :=
  match aget cid (b_online s) with
  | Some oldc => conn_gone oldc s
  | None => (s, [])
  end.

Definition hc_resume0 (cid : str) (cn : connect) (s : st) : bool :=
  match aget cid (b_sessions s) with
  | Some se => negb (session_expired cid se s) && negb (cn_clean cn)
  | None => false
  end.

(* resume the stored session or terminate it; the pending will of a terminated session is handed on *)
Definition hc_old (cid : str) (cn : connect) (v5 : bool) (cmax : N) (s : st) : st * list (str * msg) * bool :=
  match aget cid (b_sessions s) with
  | Some se =>
      if hc_resume0 cid cn s then
        match aget cid (b_queues s), aget cid (b_unacks s) with
        | Some q, Some u =>
            (set_tables (b_sessions s) (b_online s) (b_offline s) (adel cid (b_wills s))
                        (aset cid (q_init false v5 cmax q) (b_queues s)) (b_unacks s) s, [], true)
        | _, _ => (s, [], false)
        end
      else
        let s1 := remove_session cid s in
        match aget cid (b_wills s1) with
        | Some (w, _) =>
            let s2 := set_tables (b_sessions s1) (b_online s1) (b_offline s1) (adel cid (b_wills s1)) (b_queues s1) (b_unacks s1) s1 in
            (s2, [(cid, w)], false)
        | None => (s1, [], false)
        end
  | None => (s, [], false)
  end.

Definition hc_fresh (cid : str) (v5 : bool) (cmax : N) (cfg_ : cfg) (resume : bool) (s : st) : st :=
  if resume then s
  else set_tables (b_sessions s) (b_online s) (b_offline s) (b_wills s)
                  (aset cid (q_init true v5 cmax (q_new (c_max_queued cfg_) (c_inflight_expiry cfg_ * 1000))) (b_queues s))
                  (aset cid [] (b_unacks s)) s.

Definition hc_wills (o_will : list (str * msg)) (s : st) : st * list out :=
  fold_left (fun acc cw => let '(s0, o0) := acc in
                           let '(s', o') := send_will (fst cw) (snd cw) s0 in (s', o0 ++ o'))
            o_will (s, []).

Definition hc_sess_exp (cn : connect) (cfg_ : cfg) : N :=
  if cn_ver cn =? 5 then match p_sei (cn_props cn) with
                         | None => 0
                         | Some i => if i <? c_session_expiry cfg_ then i else c_session_expiry cfg_
                         end
  else c_session_expiry cfg_.

Definition hc_wd (cn : connect) (cfg_ : cfg) : N * N :=
  let v5 := cn_ver cn =? 5 in
  if negb v5 && negb (cn_clean cn) then (0, c_session_expiry cfg_)
  else if v5 then (match cn_will cn with Some w => opt_or (p_willdelay (w_props w)) 0 | None => 0 end, hc_sess_exp cn cfg_)
  else (0, 0).

Definition hc_session (cn : connect) (wdelay expiry : N) (now : N) : session :=
  {| se_will := match cn_will cn with Some w => Some (will_msg w) | None => None end;
     se_will_delay := wdelay; se_connected_at := now; se_expiry := expiry |}.

(* the CONNECT path after the checks: exactly the text of handle_connect, with the stages named *)
Lemma handle_connect_stages c cn s :
  connect_accepted cn s = true ->
  exists k props,
    k_cid k = hc_cid cn s /\ k_phase k = PhConnected /\ k_clean_will k = false /\ k_v k = cn_ver cn /\
    handle_connect c cn s =
    (let v5 := cn_ver cn =? 5 in
     let cfg_ := b_cfg s in
     let cid := hc_cid cn s in
     let cmax := if v5 then opt_or (p_maxpkt (cn_props cn)) U32MAX else U32MAX in
     let '(s1, o_dup) := hc_takeover cid (hc_auto cn s) in
     let '(s2, o_will, resume) := hc_old cid cn v5 cmax s1 in
     let s3 := hc_fresh cid v5 cmax cfg_ resume s2 in
     let '(wdelay, expiry) := hc_wd cn cfg_ in
     let se := hc_session cn wdelay expiry (b_now s3) in
     let s4 := set_tables (aset cid se (b_sessions s3)) (aset cid c (b_online s3)) (adel cid (b_offline s3)) (b_wills s3)
                          (b_queues s3) (b_unacks s3) (upd_conn c k s3) in
     let '(s5, o_w) := hc_wills o_will s4 in
     (s5, o_dup ++ [OSend c (KConnack resume 0 props)] ++ o_w)).
Proof.
  unfold connect_accepted, hc_code. intros H. apply andb_prop in H as [H1 H2]. apply negb_true_iff in H1.
  apply N.eqb_eq in H2.
  eexists. eexists.
  split; [|split; [|split; [|split]]]; cycle 4.
  - unfold handle_connect. rewrite H1. cbv zeta. rewrite H2. cbn [N.eqb negb].
    reflexivity.
  - reflexivity.
  - reflexivity.
  - reflexivity.
  - reflexivity.
Qed.

Lemma hc_takeover_unacks cid s :
  b_unacks (fst (hc_takeover cid s)) = b_unacks s /\ no_sends (snd (hc_takeover cid s)).
Proof.
  unfold hc_takeover. destruct (aget cid (b_online s)) as [oldc|]; [apply conn_gone_unacks|].
  split; [reflexivity|apply no_sends_nil].
Qed.

Lemma hc_old_unacks cid cn v5 cmax s :
  b_unacks (fst (fst (hc_old cid cn v5 cmax s))) = b_unacks s.
Proof.
  unfold hc_old. destruct (aget cid (b_sessions s)) as [se|]; [|reflexivity].
  destruct (hc_resume0 cid cn s).
  - destruct (aget cid (b_queues s)); [|reflexivity]. destruct (aget cid (b_unacks s)); reflexivity.
  - destruct (aget cid (b_wills (remove_session cid s))) as [[w t]|]; reflexivity.
Qed.

Lemma hc_wills_unacks l : forall s o0,
  let r := fold_left (fun acc cw => let '(s0, o0) := acc in
                                    let '(s', o') := send_will (fst cw) (snd cw) s0 in (s', o0 ++ o')) l (s, o0) in
  b_unacks (fst r) = b_unacks s /\ exists o', snd r = o0 ++ o' /\ only_drops o'.
Proof.
  induction l as [|cw r IH]; intros s o0; cbn [fold_left].
  - split; [reflexivity|]. exists []. rewrite app_nil_r. split; [reflexivity|constructor].
  - pose proof (send_will_unacks (fst cw) (snd cw) s) as E. pose proof (send_will_drops (fst cw) (snd cw) s) as D.
    destruct (send_will (fst cw) (snd cw) s) as [s' o']. cbn [fst snd] in E, D.
    destruct (IH s' (o0 ++ o')) as [E2 [o2 [E3 D2]]]. cbv zeta in E2, E3 |- *.
    split; [now rewrite E2|]. exists (o' ++ o2). rewrite E3, app_assoc. split; [reflexivity|now apply only_drops_app].
Qed.

(* Target 4.  CONNECT and the unack set: a resumed session (CONNACK Session Present = 1) keeps every unack set
   as it is; a new session starts with the empty set; nobody else's set is touched *)
Theorem unack_across_reconnect c cn s s' o :
  connect_accepted cn s = true ->
  handle_connect c cn s = (s', o) ->
  exists sp props o_dup o_w,
    o = o_dup ++ [OSend c (KConnack sp 0 props)] ++ o_w /\ no_sends o_dup /\ no_sends o_w /\
    (sp = true -> b_unacks s' = b_unacks s) /\
    (sp = false -> Uof (hc_cid cn s) s' = [] /\ forall cid', cid' <> hc_cid cn s -> Uof cid' s' = Uof cid' s).
Proof.
  intros Hacc Hc.
  destruct (handle_connect_stages c cn s Hacc) as (k & props & _ & _ & _ & _ & E). rewrite E in Hc. clear E.
  cbv zeta in Hc.
  set (cid := hc_cid cn s) in *.
  pose proof (hc_takeover_unacks cid (hc_auto cn s)) as [E1 N1].
  destruct (hc_takeover cid (hc_auto cn s)) as [s1 o_dup]. cbn [fst snd] in E1, N1.
  assert (E0 : b_unacks (hc_auto cn s) = b_unacks s) by (unfold hc_auto; destruct (is_empty (cn_cid cn)); reflexivity).
  rewrite E0 in E1.
  match type of Hc with context [hc_old cid cn ?v ?m s1] => pose proof (hc_old_unacks cid cn v m s1) as E2;
    destruct (hc_old cid cn v m s1) as [[s2 o_will] resume] end.
  cbn [fst] in E2.
  destruct (hc_wd cn (b_cfg s)) as [wdelay expiry].
  match type of Hc with context [hc_wills o_will ?X] => pose proof (hc_wills_unacks o_will X []) as [E5 [o5 [E6 D5]]];
    fold (hc_wills o_will X) in E5, E6; destruct (hc_wills o_will X) as [s5 o_w] end.
  cbn [fst snd app] in E5, E6. subst o_w.
  injection Hc as <- <-.
  exists resume, props, o_dup, o5. split; [reflexivity|]. split; [exact N1|]. split; [now apply only_drops_no_sends|].
  rewrite b_unacks_set_tables in E5.
  split.
  - intros ->. unfold hc_fresh in E5. congruence.
  - intros ->. unfold hc_fresh in E5. rewrite b_unacks_set_tables in E5.
    unfold Uof. rewrite E5, E2, E1. split.
    + now rewrite aget_aset_same.
    + intros cid' Hne. now rewrite aget_aset_other.
Qed.

(* a refused CONNECT changes nothing but the connection record of its socket *)
Lemma connect_refused c cn s :
  connect_accepted cn s = false ->
  exists k code, handle_connect c cn s = (upd_conn c k s, [OSend c (KConnack false code [])]) /\ code <> 0 /\ k_phase k = PhDead.
Proof.
  unfold connect_accepted, hc_code. intros H. unfold handle_connect.
  destruct (negb (c_allow_zero_len (b_cfg s)) && is_empty (cn_cid cn)).
  - eexists _, 133. split; [reflexivity|]. split; [discriminate|reflexivity].
  - cbn [negb andb] in H. cbv zeta.
    set (code := if (cn_ver cn =? 5) && _ then 128 else auth_code cn s) in *.
    rewrite H. cbn [negb].
    eexists _, _. split; [reflexivity|]. split; [|reflexivity].
    apply N.eqb_neq in H.
    destruct (negb (cn_ver cn =? 5) && (5 <? code)); [discriminate|exact H].
Qed.

(* ================================================================== *)
(* 5. the poll loops: what they leave alone, what they send             *)
(* ================================================================== *)

(* what a poll loop writes: forwarded PUBLISH packets, PUBREL retransmissions, drop notifications *)
Definition is_poll_out (x : out) : Prop :=
  match x with
  | ODropped _ _ _ => True
  | OSend _ (KPublish _ _ _ _ _ _ _) => True
  | OSend _ (KPubrel _ _ _) => True
  | _ => False
  end.

Lemma only_drops_poll_out o : only_drops o -> Forall is_poll_out o.
Proof. unfold only_drops. apply Forall_impl. intros [ | |]; cbn; tauto. Qed.

Lemma write_publish_spec c k m :
  kstat (fst (write_publish c k m)) = kstat k /\ Forall is_poll_out (snd (write_publish c k m)).
Proof.
  unfold write_publish.
  destruct ((k_v k =? 5) && (0 <? k_client_alias_max k) && (msg_total_bytes true m + 5 <=? k_client_max_packet k)).
  - destruct (am_check (m_topic m) (k_alias_out k)) as [am' [a ex|]]; cbn [fst snd].
    + split; [reflexivity|]. constructor; [exact I|constructor].
    + split; [reflexivity|constructor].
  - cbn [fst snd]. split; [reflexivity|]. constructor; [exact I|constructor].
Qed.

Lemma fold_left_inv {A B} (P : B -> Prop) (f : B -> A -> B) l :
  (forall b a, P b -> P (f b a)) -> forall b, P b -> P (fold_left f l b).
Proof. intros Hf. induction l as [|a r IH]; intros b Hb; cbn [fold_left]; [exact Hb|]. apply IH. now apply Hf. Qed.

Lemma poll_once_frame c s s' o : poll_once c s = Some (s', o) -> dframe s s' /\ Forall is_poll_out o.
Proof.
  unfold poll_once. intros H.
  destruct (nget c (b_conns s)) as [k|] eqn:Hk; [|discriminate].
  match type of H with
  | match k_phase k with PhFresh => _ | PhConnected => ?X | PhZombie => _ | PhDead => _ | PhClosed => _ end = _ =>
      assert (HX : X = Some (s', o)) by (destruct (k_phase k); first [discriminate|exact H])
  end.
  clear H. rename HX into H.
  destruct (aget (k_cid k) (b_queues s)) as [q|]; [|discriminate].
  destruct (negb (k_drained k)).
  - destruct (q_read_inflight (b_now s) (N.to_nat (k_max_inflight k)) q) as [q' rs].
    set (s1 := set_queues (aset (k_cid k) q' (b_queues s)) s) in *.
    assert (Hk1 : nget c (b_conns s1) = Some k) by exact Hk.
    destruct rs as [|r0 rr].
    + injection H as <- <-. split; [|constructor].
      eapply dframe_trans; [apply dframe_set_queues|]. eapply dframe_upd_conn; [exact Hk1|reflexivity].
    + match type of H with context [fold_left ?f ?l ?b] =>
        assert (HI : (fun acc => kstat (fst acc) = kstat k /\ Forall is_poll_out (snd acc)) (fold_left f l b)) end.
      { apply fold_left_inv.
        - intros [k0 o0] e [Hs Ho]. cbn [fst snd] in Hs, Ho.
          destruct (e_body e) as [m|p].
          + match goal with |- context [write_publish c ?kk ?mm] => pose proof (write_publish_spec c kk mm) as [W1 W2];
              destruct (write_publish c kk mm) as [k2 o2] end.
            cbn [fst snd] in *. split; [rewrite W1; exact Hs|]. apply Forall_app. now split.
          + cbn [fst snd]. split; [exact Hs|]. apply Forall_app. split; [exact Ho|]. constructor; [exact I|constructor].
        - cbn [fst snd]. split; [reflexivity|constructor]. }
      match type of H with context [fold_left ?f ?l ?b] => destruct (fold_left f l b) as [k' o'] end.
      cbn [fst snd] in HI. destruct HI as [Hs Ho]. injection H as <- <-. split; [|exact Ho].
      eapply dframe_trans; [apply dframe_set_queues|].
      eapply dframe_trans; [apply dframe_set_queues|].
      eapply dframe_upd_conn; [exact Hk1|exact Hs].
  - destruct (k_held k) as [ids|].
    + destruct (q_read (b_now s) ids q) as [[[q' rs] evs]| | |]; try discriminate.
      match type of H with context [fold_left ?f ?l ?b] =>
        assert (HI : (fun acc => kstat (fst acc) = kstat k /\ Forall is_poll_out (snd acc)) (fold_left f l b)) end.
      { apply fold_left_inv.
        - intros [k0 o0] e [Hs Ho]. cbn [fst snd] in Hs, Ho.
          destruct (e_body e) as [m|p].
          + pose proof (write_publish_spec c k0 m) as [W1 W2]. destruct (write_publish c k0 m) as [k2 o2].
            cbn [fst snd] in *. split; [rewrite W1; exact Hs|]. apply Forall_app. now split.
          + cbn [fst snd]. now split.
        - cbn [fst snd]. split; [reflexivity|constructor]. }
      match type of H with context [fold_left ?f ?l ?b] => destruct (fold_left f l b) as [k' o'] end.
      cbn [fst snd] in HI. destruct HI as [Hs Ho]. injection H as <- <-. split.
      * eapply dframe_trans; [apply dframe_set_queues|]. eapply dframe_upd_conn; [exact Hk|exact Hs].
      * apply Forall_app. split; [apply only_drops_poll_out, drops_of_only|exact Ho].
    + match type of H with context [lim_poll ?a ?b] => destruct (lim_poll a b) as [l' [| | |ids]] end; try discriminate.
      injection H as <- <-. split; [|constructor]. eapply dframe_upd_conn; [exact Hk|reflexivity].
Qed.

Lemma poll_conn_frame fuel c : forall s,
  dframe s (fst (poll_conn fuel c s)) /\ Forall is_poll_out (snd (poll_conn fuel c s)).
Proof.
  induction fuel as [|f IH]; intros s; cbn [poll_conn]; [split; [apply dframe_refl|constructor]|].
  destruct (poll_once c s) as [[s' o]|] eqn:E; [|split; [apply dframe_refl|constructor]].
  apply poll_once_frame in E as [F P].
  destruct (IH s') as [F2 P2]. destruct (poll_conn f c s') as [s'' o'']. cbn [fst snd] in *.
  split; [eapply dframe_trans; eassumption|].
  apply Forall_app. split; [|exact P2].
  destruct (nget c (b_conns s)) as [k|]; [|exact P].
  destruct (k_phase k); try exact P.
  rewrite Forall_forall in P |- *. intros x Hx. apply filter_In in Hx as [Hx _]. now apply P.
Qed.

Theorem poll_all_frame s : dframe s (fst (poll_all s)) /\ Forall is_poll_out (snd (poll_all s)).
Proof.
  unfold poll_all.
  assert (G : forall l s0 o0, Forall is_poll_out o0 ->
            let r := fold_left (fun (acc : st * list out) (ck : N * conn) => let '(s0, o0) := acc in
                                              let '(s', o') := poll_conn 400 (fst ck) s0 in (s', o0 ++ o')) l (s0, o0) in
            dframe s0 (fst r) /\ Forall is_poll_out (snd r)).
  { induction l as [|ck r IH]; intros s0 o0 Ho; cbn [fold_left].
    - split; [apply dframe_refl|exact Ho].
    - pose proof (poll_conn_frame 400 (fst ck) s0) as [F P]. destruct (poll_conn 400 (fst ck) s0) as [s' o'].
      cbn [fst snd] in F, P.
      destruct (IH s' (o0 ++ o')) as [F2 P2]; [apply Forall_app; now split|].
      cbv zeta in F2, P2 |- *. split; [eapply dframe_trans; eassumption|exact P2]. }
  apply (G (b_conns s) s []). constructor.
Qed.

(* ================================================================== *)
(* 6. C04 target 6: the acknowledgements                               *)
(* ================================================================== *)

Definition pub_ack (c qos pid code : N) : list out :=
  if qos =? 1 then [OSend c (KPuback pid code [])]
  else if qos =? 2 then [OSend c (KPubrec pid code [])] else [].

Lemma pub_finish_out c k v5 qos pid s o mt err :
  exists s', pub_finish c k v5 qos pid (s, o, mt, err) = HOk s' (o ++ pub_ack c qos pid (pub_code v5 mt err)).
Proof.
  unfold pub_finish, pub_ack.
  match goal with |- context [nget c (b_conns ?X)] => destruct (nget c (b_conns X)) as [k1|] end.
  - match goal with |- context [if ?b then upd_conn _ _ _ else _] => destruct b end; eexists; reflexivity.
  - eexists; reflexivity.
Qed.

Lemma pub_fwd_drops k m isdup s : only_drops (snd (fst (fst (pub_fwd k m isdup s)))).
Proof.
  unfold pub_fwd. destruct isdup; [constructor|].
  destruct (pub_action m s) as [|cd| |t p q]; try constructor.
  - pose proof (deliver_frame (k_cid k) m (retain_update m s)) as [_ D].
    destruct (deliver (k_cid k) m (retain_update m s)) as [[s' o] mt]. exact D.
  - set (m' := rewrite_msg t p q m).
    pose proof (deliver_frame (k_cid k) m' (retain_update m' s)) as [_ D].
    destruct (deliver (k_cid k) m' (retain_update m' s)) as [[s' o] mt]. exact D.
Qed.

(* every PUBLISH that is handled is answered by exactly the matching acknowledgement: PUBACK for QoS 1,
   PUBREC for QoS 2, nothing for QoS 0, with the packet identifier of the PUBLISH; the handler writes no
   other packet (its only other outputs are drop notifications of full subscriber queues) *)
Theorem C04_acks_publish c k dup qos retain topic payload pid props s s' o :
  handle_packet c k (KPublish dup qos retain topic payload pid props) s = HOk s' o ->
  exists od code, o = od ++ pub_ack c qos pid code /\ only_drops od.
Proof.
  intros H.
  destruct (pub_accepts k qos retain topic props) eqn:Hacc.
  - destruct (handle_packet_publish c k dup qos retain topic payload pid props s Hacc) as (k' & m & _ & E).
    rewrite E in H. clear E. cbv zeta in H.
    match type of H with context [pub_mark ?a ?b ?c ?d ?e ?f] => destruct (pub_mark a b c d e f) as [s1 isdup] end.
    pose proof (pub_fwd_drops k' m isdup s1) as D.
    destruct (pub_fwd k' m isdup s1) as [[[s2 o2] mt] err]. cbn [fst snd] in D.
    destruct (pub_finish_out c k' (k_v k =? 5) qos pid s2 o2 mt err) as [s3 E3]. rewrite E3 in H.
    injection H as _ <-. eauto.
  - apply (handle_packet_publish_rejected c k dup qos retain topic payload pid props s) in Hacc
      as [[code E]|[code E]]; rewrite E in H; discriminate.
Qed.

(* a handler that fails writes nothing (the DISCONNECT, if any, is written by fail_conn) *)
Lemma handle_subscribe_err c k pid props topics s s' o code :
  handle_subscribe c k pid props topics s = HErr s' o code -> o = [].
Proof.
  unfold handle_subscribe.
  match goal with |- context [if ?b then HErr s [] (Some 161) else _] => destruct b end; [congruence|].
  destruct (h_sub_all (b_hooks s)); [discriminate|].
  match goal with |- context [fold_left ?f ?l ?b] => destruct (fold_left f l b) as [[s1 o1] cs] end. discriminate.
Qed.

Theorem handler_error_writes_nothing c k p s s' o code :
  handle_packet c k p s = HErr s' o code -> o = [].
Proof.
  destruct p; cbn [handle_packet]; intros H; try congruence.
  - destruct (has_wild topic); [discriminate|].
    match type of H with (if ?b then _ else _) = _ => destruct b end; [discriminate|].
    match type of H with (if ?b then _ else _) = _ => destruct b end; [discriminate|].
    match type of H with (if ?b then _ else _) = _ => destruct b end; [discriminate|].
    rewrite handle_publish_stages in H. cbv zeta in H.
    match type of H with (if ?b then _ else _) = _ => destruct b end; [congruence|].
    match type of H with context [pub_alias ?a ?b ?c ?d ?e] => destruct (pub_alias a b c d e) as [[[k' m]|]|cd] end; try congruence.
    match type of H with context [pub_mark ?a ?b ?c ?d ?e ?f] => destruct (pub_mark a b c d e f) as [s1 isdup] end.
    destruct (pub_fwd k' m isdup s1) as [[[s2 o2] mt] err].
    match type of H with context [pub_finish ?a ?b ?c ?d ?e ?f] => destruct (pub_finish_out a b c d e s2 o2 mt err) as [s3 E3] end.
    rewrite E3 in H. discriminate.
  - match type of H with (if ?b then _ else _) = _ => destruct b end; discriminate.
  - match type of H with (if ?b then _ else _) = _ => destruct b end; [|discriminate].
    now apply handle_subscribe_err in H.
  - unfold handle_unsubscribe in H. discriminate.
  - destruct (k_v k =? 5); [|congruence].
    destruct (aget (k_cid k) (b_sessions s)) as [se|]; [|congruence].
    match type of H with (if ?b then _ else _) = _ => destruct b end; congruence.
Qed.

(* the whole step for a PUBLISH / PUBREL on a connected socket: the acknowledgement, then whatever the
   poll loops forward (PUBLISH / PUBREL packets to subscribers) *)
Theorem C04_acks c k s p s' o :
  nget c (b_conns s) = Some k -> k_phase k = PhConnected ->
  handle_packet c k p s = HOk s' o ->
  match p with
  | KPublish _ qos _ _ _ pid _ =>
      exists od code op, snd (step s (ESend c p)) = (od ++ pub_ack c qos pid code) ++ op /\
                         only_drops od /\ Forall is_poll_out op
  | KPubrel pid _ _ =>
      exists op, snd (step s (ESend c p)) = [OSend c (KPubcomp pid 0 [])] ++ op /\ Forall is_poll_out op
  | _ => True
  end.
Proof.
  intros Hk Hph Hh.
  assert (Hs : step s (ESend c p) = (fst (poll_all s'), o ++ snd (poll_all s'))).
  { unfold step. cbn [step_event]. rewrite Hk, Hph, Hh. destruct (poll_all s'); reflexivity. }
  pose proof (poll_all_frame s') as [_ P].
  destruct p; try exact I.
  - apply C04_acks_publish in Hh as (od & code & -> & D).
    exists od, code, (snd (poll_all s')). rewrite Hs. cbn [snd]. split; [reflexivity|]. split; assumption.
  - destruct (pubrel_frees_id c k s pid code props) as (s'' & E & _). rewrite E in Hh. injection Hh as _ <-.
    exists (snd (poll_all s')). rewrite Hs. cbn [snd]. split; [reflexivity|exact P].
Qed.

(* ================================================================== *)
(* 7. C04 target 5: the history theorem                                *)
(* ================================================================== *)

(* "Number of deliver invocations" is formalised by an INSTRUMENTED COPY of the step function.  The only place
   where the publish handler calls deliver is the stage pub_fwd (sec. 1; handle_publish_stages shows by computation
   that the stages compose to handle_publish).  pub_fwd_i is pub_fwd with a log: each branch lists exactly the
   messages on which that branch calls deliver.  handle_packet_i / step_event_i / step_i / run_i thread the log,
   tagging an entry with the socket and the packet identifier of the PUBLISH being handled; run_i_erase shows that
   forgetting the log gives back Broker.run.  (A witness subscriber's queue would be a weaker observable: its
   growth also depends on queue limits, QoS 0 policy and on the poll loop draining it.) *)
Definition pub_fwd_i (k : conn) (m : msg) (isdup : bool) (s : st) : (st * list out * bool * option N) * list msg :=
  if isdup then ((s, [], false, None), [])
  else
    match pub_action m s with
    | MReject code => ((s, [], false, Some code), [])
    | MDrop => ((s, [], false, None), [])
    | MAccept => (let '(s', o, mt) := deliver (k_cid k) m (retain_update m s) in (s', o, mt, None), [m])
    | MRewrite t p q => let m' := rewrite_msg t p q m in
                        (let '(s', o, mt) := deliver (k_cid k) m' (retain_update m' s) in (s', o, mt, None), [m'])
    end.

Lemma pub_fwd_i_fst k m isdup s : fst (pub_fwd_i k m isdup s) = pub_fwd k m isdup s.
Proof. unfold pub_fwd_i, pub_fwd. destruct isdup; [reflexivity|]. destruct (pub_action m s); reflexivity. Qed.

Definition handle_packet_i (c : N) (k : conn) (p : pkt) (s : st) : hres * list (N * msg) :=
  match p with
  | KPublish dup qos retain topic payload pid props =>
      if pub_accepts k qos retain topic props then
        let v5 := k_v k =? 5 in
        match pub_alias v5 (charge k qos) topic props (msg_of_publish v5 dup qos retain topic payload pid props) with
        | inl (Some (k', m)) =>
            let '(s1, isdup) := pub_mark c k' v5 qos pid (upd_conn c k' (upd_conn c (charge k qos) s)) in
            let '(r, log) := pub_fwd_i k' m isdup s1 in
            (pub_finish c k' v5 qos pid r, map (fun x => (pid, x)) log)
        | _ => (handle_packet c k p s, [])
        end
      else (handle_packet c k p s, [])
  | _ => (handle_packet c k p s, [])
  end.

Lemma handle_packet_i_fst c k p s : fst (handle_packet_i c k p s) = handle_packet c k p s.
Proof.
  destruct p; try reflexivity. unfold handle_packet_i.
  destruct (pub_accepts k qos retain topic props) eqn:Hacc; [|reflexivity].
  destruct (handle_packet_publish c k dup qos retain topic payload pid props s Hacc) as (k' & m & Hal & E).
  cbv zeta. rewrite Hal, E.
  destruct (pub_mark c k' (k_v k =? 5) qos pid (upd_conn c k' (upd_conn c (charge k qos) s))) as [s1 isdup].
  rewrite <- pub_fwd_i_fst. destruct (pub_fwd_i k' m isdup s1) as [r log]. reflexivity.
Qed.

(* socket, packet identifier of the PUBLISH, message handed to deliver *)
Definition flog := list (N * N * msg).

Definition step_event_i (s : st) (e : event) : (st * list out) * flog :=
  match e with
  | ESend c p =>
      match nget c (b_conns s) with
      | Some k =>
          match k_phase k with
          | PhConnected =>
              let '(r, log) := handle_packet_i c k p s in
              (match r with
               | HOk s' o => (s', o)
               | HErr s' o code => let '(s'', o') := fail_conn c code false s' in (s'', o ++ o')
               | HErrRead s' code => fail_conn c code true s'
               end, map (fun x => (c, fst x, snd x)) log)
          | _ => (step_event s e, [])
          end
      | None => (step_event s e, [])
      end
  | ESendSz c p n =>
      (* the same with the packet's wire size: a packet that is too big is not handled (no deliver) *)
      match nget c (b_conns s) with
      | Some k =>
          match k_phase k with
          | PhConnected =>
              let '(r, log) := if too_big k n s then (handle_packet_sz c k p n s, []) else handle_packet_i c k p s in
              (match r with
               | HOk s' o => (s', o)
               | HErr s' o code => let '(s'', o') := fail_conn c code false s' in (s'', o ++ o')
               | HErrRead s' code => fail_conn c code true s'
               end, map (fun x => (c, fst x, snd x)) log)
          | _ => (step_event s e, [])
          end
      | None => (step_event s e, [])
      end
  | _ => (step_event s e, [])
  end.

Definition step_i (s : st) (e : event) : (st * list out) * flog :=
  let '((s1, o1), log) := step_event_i s e in
  let '(s2, o2) := poll_all s1 in
  ((s2, o1 ++ o2), log).

Fixpoint run_i (s : st) (es : list event) : (st * list (list out)) * flog :=
  match es with
  | [] => ((s, []), [])
  | e :: r => let '((s', o), l1) := step_i s e in
              let '((s'', os), l2) := run_i s' r in ((s'', o :: os), l1 ++ l2)
  end.

Lemma step_event_i_erase s e : fst (step_event_i s e) = step_event s e.
Proof.
  destruct e; try reflexivity; cbn [step_event_i step_event].
  - destruct (nget c (b_conns s)) as [k|]; [|reflexivity].
    destruct (k_phase k); try reflexivity.
    rewrite <- (handle_packet_i_fst c k p s). destruct (handle_packet_i c k p s) as [r log]. reflexivity.
  - destruct (nget c (b_conns s)) as [k|]; [|reflexivity].
    destruct (k_phase k); try reflexivity.
    destruct (too_big k n s) eqn:Hb; [reflexivity|].
    rewrite (handle_packet_sz_small c k p n s Hb), <- (handle_packet_i_fst c k p s).
    destruct (handle_packet_i c k p s) as [r log]. reflexivity.
Qed.

Lemma step_i_erase s e : fst (step_i s e) = step s e.
Proof.
  unfold step_i, step. rewrite <- step_event_i_erase.
  destruct (step_event_i s e) as [[s1 o1] log]. cbn [fst]. destruct (poll_all s1). reflexivity.
Qed.

(* forgetting the log gives the real run *)
Theorem run_i_erase es : forall s, fst (run_i s es) = run s es.
Proof.
  induction es as [|e r IH]; intros s; cbn [run_i run]; [reflexivity|].
  rewrite <- step_i_erase. destruct (step_i s e) as [[s' o] l1]. cbn [fst].
  rewrite <- IH. destruct (run_i s' r) as [[s'' os] l2]. reflexivity.
Qed.

(* number of deliver invocations by the publish handler for PUBLISH packets of socket c with identifier pid *)
Definition nfwd (c pid : N) (l : flog) : nat :=
  length (filter (fun x => (fst (fst x) =? c) && (snd (fst x) =? pid)) l).

Lemma nfwd_app c pid a b : nfwd c pid (a ++ b) = (nfwd c pid a + nfwd c pid b)%nat.
Proof. unfold nfwd. now rewrite filter_app, app_length. Qed.

Definition is_pub (pid : N) (e : event) : bool :=
  match e with ESend _ (KPublish _ _ _ _ _ pid' _) => pid' =? pid | _ => false end.
Definition is_rel (pid : N) (e : event) : bool :=
  match e with ESend _ (KPubrel pid' _ _) => pid' =? pid | _ => false end.

(* the events of the history theorem: QoS 2 PUBLISH and PUBREL packets sent on socket c *)
Definition qos2_traffic (c : N) (e : event) : Prop :=
  match e with
  | ESend c' (KPublish _ qos _ _ _ _ _) => c' = c /\ qos = 2
  | ESend c' (KPubrel _ _ _) => c' = c
  | _ => False
  end.

(* no protocol error ends the connection during the run: every packet finds socket c attached to client cid and
   is handled to the end (run_ok_sufficient below gives syntactic conditions) *)
Fixpoint run_ok (c : N) (cid : str) (s : st) (es : list event) : Prop :=
  match es with
  | [] => True
  | e :: r =>
      (exists k p s' o, e = ESend c p /\ nget c (b_conns s) = Some k /\ k_phase k = PhConnected /\ k_cid k = cid /\
                        handle_packet c k p s = HOk s' o) /\
      run_ok c cid (fst (step s e)) r
  end.

Lemma run_ok_app c cid a : forall s b,
  run_ok c cid s (a ++ b) <-> run_ok c cid s a /\ run_ok c cid (fst (run s a)) b.
Proof.
  induction a as [|e r IH]; intros s b; cbn [app run_ok run fst].
  - tauto.
  - rewrite IH. destruct (step s e) as [s' o] eqn:E. cbn [fst]. destruct (run s' r) as [s'' os]. cbn [fst]. tauto.
Qed.

Lemma run_i_app a : forall s b,
  snd (run_i s (a ++ b)) = snd (run_i s a) ++ snd (run_i (fst (fst (run_i s a))) b) /\
  fst (fst (run_i s (a ++ b))) = fst (fst (run_i (fst (fst (run_i s a))) b)).
Proof.
  induction a as [|e r IH]; intros s b; cbn [app run_i].
  - cbn [fst snd app]. split; reflexivity.
  - destruct (step_i s e) as [[s' o] l1].
    destruct (IH s' b) as [I1 I2].
    destruct (run_i s' (r ++ b)) as [[s2 os2] l2]. destruct (run_i s' r) as [[s3 os3] l3].
    cbn [fst snd] in *. split; [rewrite I1, app_assoc; reflexivity|exact I2].
Qed.

(* one QoS 2 PUBLISH through the instrumented handler *)
Lemma handle_packet_i_qos2 c k s dup retain topic payload pid props :
  pub_accepts k 2 retain topic props = true ->
  let cid := k_cid k in
  exists s' o log,
    handle_packet_i c k (KPublish dup 2 retain topic payload pid props) s = (HOk s' o, log) /\
    b_hooks s' = b_hooks s /\
    (forall cid', cid' <> cid -> Uof cid' s' = Uof cid' s) /\
    (forall x, x <> pid -> (In x (Uof cid s') <-> In x (Uof cid s))) /\
    (In pid (Uof cid s) -> log = [] /\ In pid (Uof cid s')) /\
    (~ In pid (Uof cid s) ->
       (exists m', log = [(pid, m')] /\ In pid (Uof cid s')) \/ (log = [] /\ h_msg_on (b_hooks s) = true)).
Proof.
  intros Hacc cid. unfold handle_packet_i. rewrite Hacc. cbv zeta.
  destruct (handle_packet_publish c k dup 2 retain topic payload pid props s Hacc) as (k' & m & Hal & _).
  cbv zeta in Hal. rewrite Hal.
  apply pub_alias_cid in Hal as (Ec & _).
  destruct (charge_fields k 2) as (Ec2 & _). rewrite Ec2 in Ec. fold cid in Ec.
  rewrite pub_mark_qos2. cbv zeta. rewrite Ec, !Uof_upd_conn.
  set (sb := upd_conn c k' (upd_conn c (charge k 2) s)).
  destruct (memN pid (Uof cid s)) eqn:Hm.
  - (* retransmission *)
    apply memN_In in Hm.
    set (s1 := if k_v k =? 5 then _ else _).
    assert (Hh : b_hooks s1 = b_hooks s).
    { unfold s1. destruct (k_v k =? 5); [|reflexivity].
      match goal with |- b_hooks (quota_back c ?X) = _ => pose proof (qproj_quota_back c X) as Q end.
      rewrite (qp_hooks _ _ Q). reflexivity. }
    assert (HU : forall cid', Uof cid' s1 = Uof cid' s).
    { intros cid'. unfold s1. destruct (k_v k =? 5); [rewrite Uof_quota_back|]; rewrite Uof_set_unacks_gen;
        destruct (str_eqb_spec cid' cid) as [->|_]; reflexivity. }
    unfold pub_fwd_i. rewrite pub_finish_qos2_ok by (unfold pub_code; destruct (k_v k =? 5); lia).
    eexists _, _, _. split; [reflexivity|]. split; [exact Hh|].
    split; [intros cid' _; apply HU|]. split; [intros x _; now rewrite HU|].
    split; [intros _; split; [reflexivity|now rewrite HU]|]. intros Hn. contradiction.
  - (* a new identifier *)
    apply memN_notIn in Hm.
    set (s0 := set_unacks _ sb).
    assert (H0 : b_hooks s0 = b_hooks s) by reflexivity.
    assert (U0 : forall cid', Uof cid' s0 = if str_eqb cid' cid then pid :: Uof cid s else Uof cid' s).
    { intros cid'. unfold s0. rewrite Uof_set_unacks_gen. reflexivity. }
    (* the two refusing answers of the hook *)
    assert (Hgen : forall err, pub_action m s0 <> MAccept -> exists s' o,
               pub_finish c k' (k_v k =? 5) 2 pid (s0, [], false, err) = HOk s' o /\ b_hooks s' = b_hooks s /\
               (forall cid', cid' <> cid -> Uof cid' s' = Uof cid' s) /\
               (forall x, x <> pid -> (In x (Uof cid s') <-> In x (Uof cid s))) /\ h_msg_on (b_hooks s) = true).
    { intros err Hna.
      assert (Hon : h_msg_on (b_hooks s) = true).
      { unfold pub_action in Hna. rewrite H0 in Hna. destruct (h_msg_on (b_hooks s)); [reflexivity|congruence]. }
      destruct (N.lt_ge_cases (pub_code (k_v k =? 5) false err) 128) as [Hlt|Hge].
      - rewrite pub_finish_qos2_ok by exact Hlt. eexists _, _. split; [reflexivity|]. split; [exact H0|].
        split; [|split; [|exact Hon]].
        + intros cid' Hne. rewrite U0. apply str_eqb_neq in Hne. now rewrite Hne.
        + intros x Hx. rewrite U0, str_eqb_refl. cbn [In]. split; [intros [E0|H]; [congruence|exact H]|now right].
      - destruct (pub_finish_qos2_err c k' (k_v k =? 5) pid s0 [] false err Hge) as (s' & E & Q & HU).
        rewrite Ec in HU. eexists _, _. split; [exact E|]. split; [rewrite (qp_hooks _ _ Q); exact H0|].
        split; [|split; [|exact Hon]].
        + intros cid' Hne. rewrite HU. pose proof Hne as Hne'. apply str_eqb_neq in Hne'. rewrite Hne', U0, Hne'. reflexivity.
        + intros x Hx. rewrite HU, str_eqb_refl, unack_remove_In, U0, str_eqb_refl. cbn [In].
          split; [intros [[E0|H] _]; [congruence|exact H]|intros H; split; [now right|exact Hx]]. }
    (* the two forwarding answers *)
    assert (Hfw : forall m', exists s' o,
               (let '(r, log) := (let '(s', o, mt) := deliver (k_cid k') m' (retain_update m' s0) in (s', o, mt, @None N), [m']) in
                (pub_finish c k' (k_v k =? 5) 2 pid r, map (fun x => (pid, x)) log)) = (HOk s' o, [(pid, m')]) /\
               b_hooks s' = b_hooks s /\ (forall cid', Uof cid' s' = Uof cid' s0)).
    { intros m'. rewrite Ec.
      pose proof (deliver_frame cid m' (retain_update m' s0)) as [F _].
      destruct (deliver cid m' (retain_update m' s0)) as [[s1 o1] mt]. cbn [fst] in F.
      rewrite pub_finish_qos2_ok by (unfold pub_code; destruct (k_v k =? 5); [destruct mt|]; lia).
      eexists _, _. split; [reflexivity|]. split.
      - rewrite (df_hooks _ _ F). unfold retain_update. destruct (m_retained m'); exact H0.
      - intros cid'. rewrite (Uof_dframe _ _ _ F). unfold retain_update. destruct (m_retained m'); reflexivity. }
    unfold pub_fwd_i.
    destruct (pub_action m s0) as [|cd| |t p q] eqn:Ea.
    + destruct (Hfw m) as (s' & o & E & Hh & HU). rewrite E.
      eexists _, _, _. split; [reflexivity|]. split; [exact Hh|].
      split; [intros cid' Hne; rewrite HU, U0; apply str_eqb_neq in Hne; now rewrite Hne|].
      split; [intros x Hx; rewrite HU, U0, str_eqb_refl; cbn [In]; split; [intros [E'|H]; [congruence|exact H]|now right]|].
      split; [intros Hin; contradiction|]. intros _. left. exists m. split; [reflexivity|].
      rewrite HU, U0, str_eqb_refl. now left.
    + destruct (Hgen (Some cd)) as (s' & o & E & Hh & HU1 & HU2 & Hon); [congruence|]. rewrite E.
      eexists _, _, _. split; [reflexivity|]. split; [exact Hh|]. split; [exact HU1|]. split; [exact HU2|].
      split; [intros Hin; contradiction|]. intros _. right. split; [reflexivity|exact Hon].
    + destruct (Hgen None) as (s' & o & E & Hh & HU1 & HU2 & Hon); [congruence|]. rewrite E.
      eexists _, _, _. split; [reflexivity|]. split; [exact Hh|]. split; [exact HU1|]. split; [exact HU2|].
      split; [intros Hin; contradiction|]. intros _. right. split; [reflexivity|exact Hon].
    + cbv zeta. destruct (Hfw (rewrite_msg t p q m)) as (s' & o & E & Hh & HU). rewrite E.
      eexists _, _, _. split; [reflexivity|]. split; [exact Hh|].
      split; [intros cid' Hne; rewrite HU, U0; apply str_eqb_neq in Hne; now rewrite Hne|].
      split; [intros x Hx; rewrite HU, U0, str_eqb_refl; cbn [In]; split; [intros [E'|H]; [congruence|exact H]|now right]|].
      split; [intros Hin; contradiction|]. intros _. left. eexists. split; [reflexivity|].
      rewrite HU, U0, str_eqb_refl. now left.
Qed.

(* one event of the QoS 2 traffic through the instrumented step: what it does to "pid is in U" and how many
   deliver invocations it logs for pid *)
Lemma step_i_qos2 c cid pid s e :
  qos2_traffic c e ->
  (exists k p s' o, e = ESend c p /\ nget c (b_conns s) = Some k /\ k_phase k = PhConnected /\ k_cid k = cid /\
                    handle_packet c k p s = HOk s' o) ->
  let s1 := fst (fst (step_i s e)) in
  let n := nfwd c pid (snd (step_i s e)) in
  b_hooks s1 = b_hooks s /\
  (is_rel pid e = true -> n = 0%nat /\ ~ In pid (Uof cid s1)) /\
  (is_rel pid e = false -> is_pub pid e = false -> n = 0%nat /\ (In pid (Uof cid s1) <-> In pid (Uof cid s))) /\
  (is_pub pid e = true -> In pid (Uof cid s) -> n = 0%nat /\ In pid (Uof cid s1)) /\
  (is_pub pid e = true -> ~ In pid (Uof cid s) ->
     (n = 1%nat /\ In pid (Uof cid s1)) \/ (n = 0%nat /\ h_msg_on (b_hooks s) = true)).
Proof.
  intros Htr (k & p & s' & o & -> & Hk & Hph & Hcid & Hh).
  unfold step_i. cbn [step_event_i]. rewrite Hk, Hph.
  pose proof (handle_packet_i_fst c k p s) as Hfst. rewrite Hh in Hfst.
  (* the poll loops change neither U nor the hooks *)
  assert (Hpoll : forall sx, b_hooks (fst (poll_all sx)) = b_hooks sx /\ forall cid', Uof cid' (fst (poll_all sx)) = Uof cid' sx).
  { intros sx. pose proof (poll_all_frame sx) as [F _]. split; [apply (df_hooks _ _ F)|intros cid'; apply (Uof_dframe _ _ _ F)]. }
  destruct p; cbn [qos2_traffic] in Htr; try contradiction.
  - (* PUBLISH *)
    destruct Htr as [_ ->].
    destruct (pub_accepts k 2 retain topic props) eqn:Hacc.
    2:{ apply (handle_packet_publish_rejected c k dup 2 retain topic payload pid0 props s) in Hacc
          as [[code E]|[code E]]; rewrite E in Hh; discriminate. }
    destruct (handle_packet_i_qos2 c k s dup retain topic payload pid0 props Hacc)
      as (s2 & o2 & log & E & Hhk & HUo & HUx & Hdup & Hnew).
    rewrite Hcid in HUo, HUx, Hdup, Hnew.
    rewrite E. destruct (Hpoll s2) as [Hp1 Hp2]. destruct (poll_all s2) as [s3 o3]. cbn [fst snd] in *.
    split; [congruence|].
    cbn [is_rel is_pub].
    split; [intros Hf; discriminate|].
    destruct (pid0 =? pid) eqn:Epid.
    + apply N.eqb_eq in Epid. subst pid0.
      split; [intros _ Hf; discriminate|].
      split.
      * intros _ Hin. destruct (Hdup Hin) as [-> Hin']. split; [reflexivity|now rewrite Hp2].
      * intros _ Hnin. destruct (Hnew Hnin) as [(m' & -> & Hin')|[-> Hon]].
        -- left. split; [|now rewrite Hp2]. unfold nfwd. cbn [map filter fst snd]. rewrite !N.eqb_refl. reflexivity.
        -- right. split; [reflexivity|exact Hon].
    + apply N.eqb_neq in Epid.
      split; [|split; intros Hf; discriminate].
      intros _ _. split.
      * assert (Hl : log = [] \/ exists m', log = [(pid0, m')]).
        { destruct (in_dec N.eq_dec pid0 (Uof cid s)) as [Hin|Hnin].
          - left. now destruct (Hdup Hin).
          - destruct (Hnew Hnin) as [(m' & -> & _)|[-> _]]; [right; eauto|now left]. }
        destruct Hl as [->|[m' ->]]; [reflexivity|].
        unfold nfwd. cbn [map filter fst snd]. apply N.eqb_neq in Epid. rewrite Epid, andb_false_r. reflexivity.
      * rewrite Hp2. apply HUx. congruence.
  - (* PUBREL *)
    clear Htr. cbn [handle_packet_i].
    destruct (pubrel_frees_id c k s pid0 code props) as (s2 & E & Q & Hnot & Hx & _).
    rewrite Hcid in Hnot, Hx.
    rewrite E. destruct (Hpoll s2) as [Hp1 Hp2]. destruct (poll_all s2) as [s3 o3]. cbn [fst snd map] in *.
    split; [rewrite Hp1; apply (qp_hooks _ _ Q)|].
    cbn [is_rel is_pub].
    split; [|split; [|split; intros Hf; discriminate]].
    + intros Epid. apply N.eqb_eq in Epid. subst pid0. split; [reflexivity|now rewrite Hp2].
    + intros Epid _. apply N.eqb_neq in Epid. split; [reflexivity|]. rewrite Hp2. apply Hx. congruence.
Qed.

(* a segment of the run without PUBREL pid *)
Lemma segment_count c cid pid : forall seg s,
  Forall (qos2_traffic c) seg -> run_ok c cid s seg -> existsb (is_rel pid) seg = false ->
  let n := nfwd c pid (snd (run_i s seg)) in
  b_hooks (fst (fst (run_i s seg))) = b_hooks s /\
  (In pid (Uof cid s) -> n = 0%nat) /\
  (~ In pid (Uof cid s) ->
     (n <= 1)%nat /\ (h_msg_on (b_hooks s) = false -> n = if existsb (is_pub pid) seg then 1%nat else 0%nat)).
Proof.
  induction seg as [|e r IH]; intros s Htr Hok Hrel.
  - cbn. split; [reflexivity|]. split; [reflexivity|]. intros _. split; [lia|reflexivity].
  - inversion Htr as [|e0 r0 Hte Htr']; subst.
    cbn [run_ok] in Hok. destruct Hok as [Hhead Hok].
    cbn [existsb] in Hrel. apply orb_false_iff in Hrel as [Hrel_e Hrel_r].
    pose proof (step_i_qos2 c cid pid s e Hte Hhead) as (Hh1 & _ & Hother & Hdup & Hnew).
    rewrite <- step_i_erase in Hok.
    cbn [run_i]. destruct (step_i s e) as [[s1 o1] l1]. cbn [fst snd] in *.
    specialize (IH s1 Htr' Hok Hrel_r). cbv zeta in IH. destruct IH as (Hh2 & IHin & IHout).
    destruct (run_i s1 r) as [[s2 os] l2]. cbn [fst snd] in *.
    rewrite nfwd_app. split; [congruence|].
    cbn [existsb].
    destruct (is_pub pid e) eqn:Epub.
    + split.
      * intros Hin. destruct (Hdup eq_refl Hin) as [-> Hin1]. rewrite (IHin Hin1). reflexivity.
      * intros Hnin. destruct (Hnew eq_refl Hnin) as [[-> Hin1]|[-> Hon]].
        -- rewrite (IHin Hin1). split; [lia|]. intros _. reflexivity.
        -- cbn [orb Nat.add]. destruct (in_dec N.eq_dec pid (Uof cid s1)) as [Hin1|Hnin1].
           ++ rewrite (IHin Hin1). split; [lia|]. intros Hoff. congruence.
           ++ destruct (IHout Hnin1) as [Hle _]. split; [exact Hle|]. intros Hoff. congruence.
    + destruct (Hother Hrel_e eq_refl) as [-> Hiff]. cbn [orb Nat.add]. split.
      * intros Hin. apply IHin. now apply Hiff.
      * intros Hnin. assert (Hnin1 : ~ In pid (Uof cid s1)) by (intros H; apply Hnin; now apply Hiff).
        destruct (IHout Hnin1) as [Hle Heq]. split; [exact Hle|]. intros Hoff. apply Heq. congruence.
Qed.

(* Target 5.  On one connection, for arbitrary identifiers, duplication and interleaving of QoS 2 PUBLISH and
   PUBREL packets: in every stretch [seg] of the history that lies between two consecutive PUBREL packets of [pid]
   (or between the start, when pid is not pending, and the first such PUBREL) the publish handler invokes deliver
   for pid exactly once if the stretch contains a PUBLISH with that identifier, and never otherwise. *)
Theorem C04_exactly_once_on_connection c cid pid pre seg s :
  Forall (qos2_traffic c) (pre ++ seg) ->
  run_ok c cid s (pre ++ seg) ->
  h_msg_on (b_hooks s) = false ->
  ((pre = [] /\ ~ In pid (Uof cid s)) \/ exists pre' code props, pre = pre' ++ [ESend c (KPubrel pid code props)]) ->
  existsb (is_rel pid) seg = false ->
  nfwd c pid (snd (run_i (fst (fst (run_i s pre))) seg)) = if existsb (is_pub pid) seg then 1%nat else 0%nat.
Proof.
  intros Htr Hok Hoff Hpre Hrel.
  apply Forall_app in Htr as [Htr1 Htr2].
  apply run_ok_app in Hok as [Hok1 Hok2]. rewrite <- run_i_erase in Hok2.
  set (s1 := fst (fst (run_i s pre))) in *.
  assert (Hh1 : b_hooks s1 = b_hooks s).
  { unfold s1. destruct Hpre as [[-> _]|(pre' & code & props & ->)]; [reflexivity|].
    (* the hooks are the same after any run of the traffic *)
    clear Hok2. revert Htr1 Hok1. generalize (pre' ++ [ESend c (KPubrel pid code props)]) as es. clear.
    intros es. revert s. induction es as [|e r IH]; intros s Htr Hok; [reflexivity|].
    inversion Htr as [|e0 r0 Hte Htr']; subst. cbn [run_ok] in Hok. destruct Hok as [Hhead Hok].
    pose proof (step_i_qos2 c cid 0 s e Hte Hhead) as (Hh & _).
    rewrite <- step_i_erase in Hok. cbn [run_i]. destruct (step_i s e) as [[sa oa] la]. cbn [fst snd] in *.
    specialize (IH sa Htr' Hok). destruct (run_i sa r) as [[sb ob] lb]. cbn [fst] in *. congruence. }
  assert (Hnin : ~ In pid (Uof cid s1)).
  { unfold s1. destruct Hpre as [[-> Hn]|(pre' & code & props & ->)]; [exact Hn|].
    apply Forall_app in Htr1 as [_ Htl]. apply run_ok_app in Hok1 as [_ Hol]. rewrite <- run_i_erase in Hol.
    destruct (run_i_app pre' s [ESend c (KPubrel pid code props)]) as [_ ->].
    set (sp := fst (fst (run_i s pre'))) in *.
    inversion Htl as [|e0 r0 Hte _]; subst. cbn [run_ok] in Hol. destruct Hol as [Hhead _].
    pose proof (step_i_qos2 c cid pid sp _ Hte Hhead) as (_ & Hr & _).
    cbn [is_rel] in Hr. rewrite N.eqb_refl in Hr. destruct (Hr eq_refl) as [_ Hn].
    cbn [run_i]. destruct (step_i sp (ESend c (KPubrel pid code props))) as [[sa oa] la]. exact Hn. }
  destruct (segment_count c cid pid seg s1 Htr2 Hok2 Hrel) as (_ & _ & Hout).
  destruct (Hout Hnin) as [_ Heq]. apply Heq. congruence.
Qed.

(* with an OnMsgArrived hook that may refuse messages: still never more than once *)
Theorem C04_at_most_once_with_hooks c cid pid seg s :
  Forall (qos2_traffic c) seg -> run_ok c cid s seg -> existsb (is_rel pid) seg = false ->
  (nfwd c pid (snd (run_i s seg)) <= 1)%nat.
Proof.
  intros Htr Hok Hrel. destruct (segment_count c cid pid seg s Htr Hok Hrel) as (_ & Hin & Hout).
  destruct (in_dec N.eq_dec pid (Uof cid s)) as [H|H]; [rewrite (Hin H); lia|apply (Hout H)].
Qed.

(* a retransmission after the id was recorded is never forwarded, however long the history *)
Theorem C04_pending_id_never_forwarded c cid pid seg s :
  Forall (qos2_traffic c) seg -> run_ok c cid s seg -> existsb (is_rel pid) seg = false ->
  In pid (Uof cid s) -> nfwd c pid (snd (run_i s seg)) = 0%nat.
Proof. intros Htr Hok Hrel Hin. now apply (segment_count c cid pid seg s Htr Hok Hrel). Qed.

(* ---- syntactic conditions for run_ok ---- *)

(* the part of a connection record that decides whether the next PUBLISH is accepted *)
Definition kstat0 (k : conn) := (k_cid k, k_v k, k_phase k, k_retain_avail k, k_recv_max k).

Lemma kstat_kstat0 k k' : kstat k' = kstat k -> kstat0 k' = kstat0 k /\ k_quota k' = k_quota k.
Proof. unfold kstat, kstat0. intros H. split; congruence. Qed.

(* socket c is attached like k0, with at least q units of receive quota *)
Definition conn_ge (c : N) (k0 : conn) (q : N) (s : st) : Prop :=
  exists k, nget c (b_conns s) = Some k /\ kstat0 k = kstat0 k0 /\ q <= k_quota k.

Lemma conn_ge_same_conns c k0 q s s' : b_conns s' = b_conns s -> conn_ge c k0 q s -> conn_ge c k0 q s'.
Proof. intros E (k & H1 & H2 & H3). exists k. rewrite E. auto. Qed.

Lemma conn_ge_dframe c k0 q s s' : dframe s s' -> conn_ge c k0 q s -> conn_ge c k0 q s'.
Proof.
  intros F (k & H1 & H2 & H3). destruct (df_conn _ _ F c k H1) as (k' & Hk' & Hs).
  apply kstat_kstat0 in Hs as [Hs Hq]. exists k'. split; [exact Hk'|]. split; [congruence|]. now rewrite Hq.
Qed.

Lemma conn_ge_upd c k0 q k s : kstat0 k = kstat0 k0 -> q <= k_quota k -> conn_ge c k0 q (upd_conn c k s).
Proof. intros H1 H2. exists k. rewrite b_conns_upd_conn, nget_nset_same. auto. Qed.

Lemma conn_ge_quota_back c k0 q s : conn_ge c k0 q s -> conn_ge c k0 q (quota_back c s).
Proof.
  intros (k & H1 & H2 & H3). unfold quota_back. rewrite H1.
  destruct (k_quota k <? k_recv_max k); [|exists k; auto].
  apply conn_ge_upd; [exact H2|]. rewrite k_quota_set_quota. lia.
Qed.

Lemma conn_ge_retain_update c k0 q m s : conn_ge c k0 q s -> conn_ge c k0 q (retain_update m s).
Proof. apply conn_ge_same_conns. unfold retain_update. destruct (m_retained m); reflexivity. Qed.

Lemma pub_finish_conn c k0 q k v5 qos pid s o mt err s' o' :
  conn_ge c k0 q s -> pub_finish c k v5 qos pid (s, o, mt, err) = HOk s' o' -> conn_ge c k0 q s'.
Proof.
  intros Hc H. unfold pub_finish in H.
  set (sa := if (qos =? 2) && (128 <=? pub_code v5 mt err) then _ else s) in H.
  assert (Ha : conn_ge c k0 q sa).
  { unfold sa. destruct ((qos =? 2) && (128 <=? pub_code v5 mt err)); [|exact Hc].
    eapply conn_ge_same_conns; [|exact Hc]. reflexivity. }
  clearbody sa. destruct Ha as (k1 & H1 & H2 & H3). rewrite H1 in H.
  match type of H with context [if ?b then upd_conn _ _ _ else _] => destruct b end; injection H as <- _.
  - apply conn_ge_upd; [exact H2|]. rewrite k_quota_set_quota. lia.
  - exists k1. auto.
Qed.

Lemma pub_fwd_conn c k0 q k m isdup s : conn_ge c k0 q s -> conn_ge c k0 q (fst (fst (fst (pub_fwd k m isdup s)))).
Proof.
  intros Hc. unfold pub_fwd. destruct isdup; [exact Hc|].
  destruct (pub_action m s) as [|cd| |t p r]; try exact Hc.
  - pose proof (deliver_frame (k_cid k) m (retain_update m s)) as [F _].
    destruct (deliver (k_cid k) m (retain_update m s)) as [[s' o] mt]. cbn [fst] in *.
    eapply conn_ge_dframe; [exact F|]. now apply conn_ge_retain_update.
  - set (m' := rewrite_msg t p r m).
    pose proof (deliver_frame (k_cid k) m' (retain_update m' s)) as [F _].
    destruct (deliver (k_cid k) m' (retain_update m' s)) as [[s' o] mt]. cbn [fst] in *.
    eapply conn_ge_dframe; [exact F|]. now apply conn_ge_retain_update.
Qed.

Lemma kstat0_charge k qos : kstat0 (charge k qos) = kstat0 k /\ k_quota k - 1 <= k_quota (charge k qos).
Proof. unfold charge. destruct ((k_v k =? 5) && (0 <? qos)); split; try reflexivity; rewrite ?k_quota_set_quota; lia. Qed.

(* an accepted QoS 2 PUBLISH without topic alias is handled to the end and costs at most one unit of quota *)
Lemma handle_publish_qos2_ok c k s dup retain topic payload pid props :
  nget c (b_conns s) = Some k ->
  pub_accepts k 2 retain topic props = true ->
  (if k_v k =? 5 then p_alias props else None) = None ->
  exists s' o, handle_packet c k (KPublish dup 2 retain topic payload pid props) s = HOk s' o /\
               conn_ge c k (k_quota k - 1) s'.
Proof.
  intros Hk Hacc Hal.
  destruct (handle_packet_publish c k dup 2 retain topic payload pid props s Hacc) as (k' & m & Hal' & E).
  rewrite E. clear E. cbv zeta in Hal' |- *.
  rewrite pub_alias_none in Hal' by exact Hal. injection Hal' as <- <-.
  destruct (kstat0_charge k 2) as [Hs Hq].
  assert (H0 : conn_ge c k (k_quota k - 1) (upd_conn c (charge k 2) (upd_conn c (charge k 2) s)))
    by (apply conn_ge_upd; assumption).
  rewrite pub_mark_qos2. cbv zeta.
  match goal with |- context [if memN ?a ?b then (?X, true) else (?Y, false)] =>
    assert (H1 : conn_ge c k (k_quota k - 1) X /\ conn_ge c k (k_quota k - 1) Y) end.
  { split.
    - destruct (k_v k =? 5).
      + apply conn_ge_quota_back. eapply conn_ge_same_conns; [|exact H0]. reflexivity.
      + eapply conn_ge_same_conns; [|exact H0]. reflexivity.
    - eapply conn_ge_same_conns; [|exact H0]. reflexivity. }
  destruct H1 as [H1 H2].
  set (m0 := msg_of_publish (k_v k =? 5) dup 2 retain topic payload pid props).
  assert (G : forall sx dp, conn_ge c k (k_quota k - 1) sx ->
              exists s' o, pub_finish c (charge k 2) (k_v k =? 5) 2 pid (pub_fwd (charge k 2) m0 dp sx) = HOk s' o /\
                           conn_ge c k (k_quota k - 1) s').
  { intros sx dp Hx. pose proof (pub_fwd_conn c k (k_quota k - 1) (charge k 2) m0 dp sx Hx) as Hf.
    destruct (pub_fwd (charge k 2) m0 dp sx) as [[[s2 o2] mt] err]. cbn [fst] in Hf.
    destruct (pub_finish_out c (charge k 2) (k_v k =? 5) 2 pid s2 o2 mt err) as [s3 E3].
    eexists s3, _. split; [exact E3|]. eapply pub_finish_conn; eassumption. }
  match goal with |- context [if memN ?a ?b then (?X, true) else (?Y, false)] => destruct (memN a b) end.
  - apply G. exact H1.
  - apply G. exact H2.
Qed.

Lemma handle_pubrel_ok c k s pid code props :
  nget c (b_conns s) = Some k ->
  exists s' o, handle_packet c k (KPubrel pid code props) s = HOk s' o /\ conn_ge c k (k_quota k) s'.
Proof.
  intros Hk. cbn [handle_packet].
  set (s1 := set_unacks _ s).
  assert (Hk1 : nget c (b_conns s1) = Some k) by exact Hk. rewrite Hk1.
  destruct ((k_v k =? 5) && (k_quota k <? k_recv_max k)); eexists _, _; (split; [reflexivity|]).
  - apply conn_ge_upd; [reflexivity|]. rewrite k_quota_set_quota. lia.
  - exists k. split; [exact Hk1|]. split; [reflexivity|lia].
Qed.

(* a well-formed event for a connection like k0 *)
Definition ev_wf (k0 : conn) (e : event) : Prop :=
  match e with
  | ESend _ (KPublish _ _ retain topic _ _ props) =>
      has_wild topic = false /\ is_empty topic = false /\ (k_retain_avail k0 = true \/ retain = false) /\
      (if k_v k0 =? 5 then p_alias props else None) = None
  | _ => True
  end.

(* run_ok holds whenever the socket is attached, the packets are well-formed and carry no topic alias, and the
   receive quota covers the length of the history *)
Theorem run_ok_sufficient c k0 : forall es s,
  Forall (qos2_traffic c) es -> Forall (ev_wf k0) es -> k_phase k0 = PhConnected ->
  conn_ge c k0 (N.of_nat (length es)) s ->
  run_ok c (k_cid k0) s es.
Proof.
  induction es as [|e r IH]; intros s Htr Hwf Hph Hc; [exact I|].
  inversion Htr as [|e0 r0 Hte Htr']; subst. inversion Hwf as [|e1 r1 Hwe Hwf']; subst.
  destruct Hc as (k & Hk & Hs & Hq). cbn [length] in Hq.
  assert (Hf : k_cid k = k_cid k0 /\ k_v k = k_v k0 /\ k_phase k = k_phase k0 /\ k_retain_avail k = k_retain_avail k0)
    by (unfold kstat0 in Hs; repeat split; congruence).
  destruct Hf as (Hcid & Hv & Hp & Hra).
  assert (Hstep : exists p s' o, e = ESend c p /\ handle_packet c k p s = HOk s' o /\ conn_ge c k0 (N.of_nat (length r)) s').
  { destruct e as [| |c' p| | | | | | | |]; cbn [qos2_traffic] in Hte; try contradiction.
    destruct p; try contradiction.
    - destruct Hte as [-> ->]. cbn [ev_wf] in Hwe. destruct Hwe as (Hw & He & Hr & Ha).
      assert (Hacc : pub_accepts k 2 retain topic props = true).
      { unfold pub_accepts. rewrite Hw, He, Hra, Hv. cbn [negb andb].
        assert (Ez : (k_v k0 =? 5) && match p_alias props with Some a => a =? 0 | None => false end = false)
          by (destruct (k_v k0 =? 5); [rewrite Ha|]; reflexivity).
        rewrite Ez. cbn [negb andb].
        assert (Eq : (k_quota k =? 0) = false) by (apply N.eqb_neq; lia). rewrite Eq, andb_false_r. cbn [negb andb].
        assert (Er : negb (k_retain_avail k0) && retain = false) by (destruct Hr as [->| ->]; [reflexivity|apply andb_false_r]).
        rewrite Er. cbn [negb andb]. unfold alias_ok. now rewrite Ha. }
      rewrite <- Hv in Ha.
      destruct (handle_publish_qos2_ok c k s dup retain topic payload pid props Hk Hacc Ha) as (s' & o & E & (k1 & G1 & G2 & G3)).
      eexists _, s', o. split; [reflexivity|]. split; [exact E|]. exists k1. split; [exact G1|]. split; [congruence|lia].
    - subst c'. destruct (handle_pubrel_ok c k s pid code props Hk) as (s' & o & E & (k1 & G1 & G2 & G3)).
      eexists _, s', o. split; [reflexivity|]. split; [exact E|]. exists k1. split; [exact G1|]. split; [congruence|lia]. }
  destruct Hstep as (p & s' & o & -> & E & Hc').
  cbn [run_ok]. split.
  - exists k, p, s', o. repeat split; try assumption; congruence.
  - apply IH; try assumption.
    unfold step. cbn [step_event]. rewrite Hk, Hp, Hph, E.
    pose proof (poll_all_frame s') as [F _]. destruct (poll_all s') as [s2 o2]. cbn [fst] in *.
    eapply conn_ge_dframe; eassumption.
Qed.

(* ---- retransmission after the session was resumed on a new connection ---- *)
Lemma step_close_unacks s c : b_unacks (fst (step s (EClose c))) = b_unacks s.
Proof.
  unfold step. cbn [step_event]. pose proof (conn_gone_unacks c s) as [E _].
  destruct (conn_gone c s) as [s1 o1]. cbn [fst] in E.
  pose proof (poll_all_frame s1) as [F _]. destruct (poll_all s1) as [s2 o2]. cbn [fst] in *.
  now rewrite (df_unacks _ _ F).
Qed.

Lemma step_connect_unacks s c cn s' o props :
  step s (EConnect c cn) = (s', o) -> In (OSend c (KConnack true 0 props)) o -> b_unacks s' = b_unacks s.
Proof.
  unfold step. cbn [step_event]. intros H Hin.
  pose proof (conn_gone_unacks c s) as [E0 N0]. destruct (conn_gone c s) as [s0 o0]. cbn [fst snd] in E0, N0.
  destruct (handle_connect c cn s0) as [s1 o1] eqn:Ec.
  pose proof (poll_all_frame s1) as [F P]. destruct (poll_all s1) as [s2 o2]. cbn [fst snd] in *.
  injection H as <- <-.
  rewrite (df_unacks _ _ F), <- E0.
  apply in_app_or in Hin as [Hin|Hin].
  - apply in_app_or in Hin as [Hin|Hin].
    + apply filter_In in Hin as [Hin _]. exfalso. eapply N0. exact Hin.
    + destruct (connect_accepted cn s0) eqn:Hacc.
      * destruct (unack_across_reconnect c cn s0 s1 o1 Hacc Ec) as (sp & props' & o_dup & o_w & -> & N1 & N2 & Ht & _).
        apply in_app_or in Hin as [Hin|Hin]; [exfalso; eapply N1; exact Hin|].
        cbn [app In] in Hin. destruct Hin as [Hin|Hin]; [|exfalso; eapply N2; exact Hin].
        injection Hin as -> _. now apply Ht.
      * destruct (connect_refused c cn s0 Hacc) as (k & code & E & _). rewrite E in Ec. injection Ec as _ <-.
        destruct Hin as [Hin|[]]. discriminate.
  - exfalso. rewrite Forall_forall in P. apply P in Hin. exact Hin.
Qed.

(* the connection is lost while pid is pending, the client resumes its session (CONNACK Session Present = 1) on
   socket c' and retransmits: the publish handler never invokes deliver for pid before the PUBREL *)
Theorem C04_no_forward_after_resume c c' cid pid cn s s1 o1 s2 o2 props seg :
  In pid (Uof cid s) ->
  step s (EClose c) = (s1, o1) ->
  step s1 (EConnect c' cn) = (s2, o2) -> In (OSend c' (KConnack true 0 props)) o2 ->
  Forall (qos2_traffic c') seg -> run_ok c' cid s2 seg -> existsb (is_rel pid) seg = false ->
  nfwd c' pid (snd (run_i s2 seg)) = 0%nat.
Proof.
  intros Hin H1 H2 Hsp Htr Hok Hrel.
  apply (C04_pending_id_never_forwarded c' cid pid seg s2 Htr Hok Hrel).
  unfold Uof. rewrite (step_connect_unacks _ _ _ _ _ _ H2 Hsp).
  pose proof (step_close_unacks s c) as E. rewrite H1 in E. cbn [fst] in E. now rewrite E.
Qed.

(* ================================================================== *)
(* 8. non-vacuity: a concrete scenario                                 *)
(* ================================================================== *)

(* a boolean form of run_ok for computing *)
Fixpoint run_okb (c : N) (cid : str) (s : st) (es : list event) : bool :=
  match es with
  | [] => true
  | e :: r =>
      match e with
      | ESend c' p =>
          (c' =? c) &&
          match nget c (b_conns s) with
          | Some k => match k_phase k with
                      | PhConnected => str_eqb (k_cid k) cid &&
                                       match handle_packet c k p s with HOk _ _ => true | _ => false end
                      | _ => false
                      end
          | None => false
          end
      | _ => false
      end && run_okb c cid (fst (step s e)) r
  end.

Lemma run_okb_ok c cid : forall es s, run_okb c cid s es = true -> run_ok c cid s es.
Proof.
  induction es as [|e r IH]; intros s H; [exact I|].
  cbn [run_okb] in H. apply andb_prop in H as [H1 H2]. cbn [run_ok]. split; [|now apply IH].
  destruct e as [| |c' p| | | | | | | |]; try discriminate.
  apply andb_prop in H1 as [Hc H1]. apply N.eqb_eq in Hc. subst c'.
  destruct (nget c (b_conns s)) as [k|]; [|discriminate].
  destruct (k_phase k) eqn:Hp; try discriminate.
  apply andb_prop in H1 as [Hcid H1]. apply str_eqb_eq in Hcid.
  destruct (handle_packet c k p s) as [s' o| |] eqn:Hh; try discriminate.
  exists k, p, s', o. repeat split; assumption.
Qed.

Definition ex_cfg : cfg :=
  {| c_onlyonce := false; c_max_inflight := 100; c_max_queued := 1000; c_queue_qos0 := true;
     c_session_expiry := 3600; c_message_expiry := 0; c_recv_max := 100; c_alias_max := 10; c_max_packet := 0;
     c_max_qos := 2; c_retain_avail := true; c_wildcard := true; c_subid := true; c_shared := true;
     c_max_keepalive := 60; c_allow_zero_len := true; c_inflight_expiry := 0 |}.

Definition ex_connect (v : N) (cid : str) (clean : bool) (will : option willspec) (props : list prop) : connect :=
  {| cn_ver := v; cn_cid := cid; cn_clean := clean; cn_keepalive := 0; cn_user := None; cn_pass := None;
     cn_will := will; cn_props := props |}.

Definition ex_T : str := [116].      (* "t" *)
Definition ex_S : str := [115].      (* "s": the subscriber *)
Definition ex_P : str := [112].      (* "p": the publisher *)

(* subscriber "s" on socket 1 subscribed to "t" with QoS 2; publisher "p" (v5, session expiry 100) on socket 2 *)
Definition ex_state : st :=
  fst (run (st_init ex_cfg no_hooks [])
           [EConnect 1 (ex_connect 4 ex_S true None []);
            ESend 1 (KSubscribe 1 [] [{| tq_name := ex_T; tq_qos := 2; tq_nl := false; tq_rap := false; tq_rh := 0 |}]);
            EConnect 2 (ex_connect 5 ex_P false None [PSei 100])]).

Definition ex_pub (dup : bool) (pid : N) : event := ESend 2 (KPublish dup 2 false ex_T [1; 2; 3] pid []).
Definition ex_rel (pid : N) : event := ESend 2 (KPubrel pid 0 []).

Definition ex_pre : list event := [ex_pub false 7; ex_pub true 7; ex_rel 7].
Definition ex_seg : list event := [ex_pub false 7; ex_pub false 9; ex_pub true 7; ex_rel 9; ex_pub true 7].

(* the hypotheses of C04_exactly_once_on_connection hold of it ... *)
Example ex_history_hyps :
  Forall (qos2_traffic 2) (ex_pre ++ ex_seg) /\ run_ok 2 ex_P ex_state (ex_pre ++ ex_seg) /\
  h_msg_on (b_hooks ex_state) = false /\ existsb (is_rel 7) ex_seg = false /\ existsb (is_pub 7) ex_seg = true.
Proof.
  split; [repeat constructor|]. split; [apply run_okb_ok; vm_compute; reflexivity|]. vm_compute. repeat split.
Qed.

(* ... and so do those of run_ok_sufficient *)
Example ex_sufficient_hyps :
  exists k0, Forall (ev_wf k0) (ex_pre ++ ex_seg) /\ k_phase k0 = PhConnected /\ k_cid k0 = ex_P /\
             conn_ge 2 k0 (N.of_nat (length (ex_pre ++ ex_seg))) ex_state.
Proof.
  destruct (nget 2 (b_conns ex_state)) as [k0|] eqn:E; [|vm_compute in E; discriminate].
  exists k0. vm_compute in E. injection E as <-.
  split; [repeat constructor|]. split; [reflexivity|]. split; [reflexivity|].
  eexists. split; [vm_compute; reflexivity|]. split; [reflexivity|]. vm_compute. discriminate.
Qed.

(* the log of the instrumented run: one entry for id 7 before the PUBREL, one after, one for id 9 *)
Example ex_log :
  map (fun x => (fst (fst x), snd (fst x))) (snd (run_i ex_state (ex_pre ++ ex_seg))) = [(2, 7); (2, 7); (2, 9)].
Proof. vm_compute. reflexivity. Qed.

(* the same seen from the witness subscriber on socket 1: it is sent exactly three PUBLISH packets *)
Definition ex_to_sub (o : list (list out)) : nat :=
  length (filter (fun x => match x with OSend 1 (KPublish _ _ _ _ _ _ _) => true | _ => false end) (concat o)).
Example ex_witness : ex_to_sub (snd (run ex_state (ex_pre ++ ex_seg))) = 3%nat.
Proof. vm_compute. reflexivity. Qed.

(* targets 1-3 *)
Definition ex_after_first : st := fst (run ex_state [ex_pub false 7]).
Example ex_duplicate_hyps :
  exists k, nget 2 (b_conns ex_after_first) = Some k /\ k_phase k = PhConnected /\ k_cid k = ex_P /\
            pub_accepts k 2 false ex_T [] = true /\ In 7 (Uof ex_P ex_after_first).
Proof. eexists. split; [vm_compute; reflexivity|]. vm_compute. repeat split. now left. Qed.

Example ex_new_hyps :
  exists k, nget 2 (b_conns ex_state) = Some k /\ pub_accepts k 2 false ex_T [] = true /\ ~ In 7 (Uof ex_P ex_state).
Proof. eexists. split; [vm_compute; reflexivity|]. vm_compute. split; [reflexivity|]. intros []. Qed.

(* target 4 / the resume theorem: close socket 2 while id 7 is pending, reconnect on socket 3 *)
Definition ex_reconnect : event := EConnect 3 (ex_connect 5 ex_P false None [PSei 100]).
Example ex_resume_hyps :
  In 7 (Uof ex_P ex_after_first) /\
  In (OSend 3 (KConnack true 0 [PSei 100; PRecvMax 100; PMaxQos 1; PRetainAvail 1; PAliasMax 10; PWildcard 1;
                                PSubIdAvail 1; PSharedAvail 1; PMaxPkt 0; PKeepAlive 0]))
     (snd (step (fst (step ex_after_first (EClose 2))) ex_reconnect)) /\
  run_ok 3 ex_P (fst (step (fst (step ex_after_first (EClose 2))) ex_reconnect))
         [ESend 3 (KPublish true 2 false ex_T [1; 2; 3] 7 [])].
Proof.
  split; [vm_compute; now left|]. split; [vm_compute; now left|]. apply run_okb_ok. vm_compute. reflexivity.
Qed.
